/-
  GenTieStrassen: ONE-STEP tie for the generated `Gen.C.strassenMulEven` (= the whole C function
  `_mzd_mul_even(C, A, B, cutoff)` of strassen.c) against the model recursion `BMat.mulEven` of `M4ri/Mul.lean`.

  Main theorem `strassenMulEven_step`: for well-formed `C A B : Mzd` with `A.ncols = B.nrows`, `C.nrows = A.nrows`,
  `C.ncols = B.ncols`, ANY `flags` (windowed or not), any `cutoff`, any row strides, with the function parameters
  instantiated by the model's operations (`cAdd`, `cMulEven fuel`, `cMulNew fuel`, `cM4rm`, `cAddmulM4rm`,
  `cCopyNew`, `cCopy` below),
      strassenMulEven … (memOf C) … (memOf A) … (memOf B) … = memOf (C.putB (mulEven (fuel + 1) C.toB A.toB B.toB cutoff)).
  Parts: `strassenMulEven_empty` (early return), `strassenMulEven_base` (base case, both the windowed and the
  non-windowed variant), `strassenMulEven_split` (split, 12 windows, 2 local matrices, the 22 steps of the Bodrato
  sequence, the 3 remainder strips).

  Method (reusable for `strassenSqrEven` / `strassenAddmulEven` / `strassenAddsqrEven`):
  * the memory `let`s of the generated text are NEVER zeta-reduced (each memory is used 2–4 times by the next
    step: the tree size is exponential); `zeta_small` / `zeta_n` inline the header-field `let`s only, `mstep`
    takes the next call + write-back out of the goal (`extract_lets`), proves it equal to a `memOf (M0.putB E)`
    state by ONE lemma application (`step_tmp`, `CSt.step11` … `CSt.step22`, `step_win`) and substitutes;
  * the `match` on the result of the `mult`/`width` loop must be removed (`generalize` + `obtain`) BEFORE any
    definitional rewriting below it: otherwise the kernel, comparing the two `match` applications, unfolds the
    matcher and evaluates `CLoop.loop 64 …` symbolically (deterministic timeout).
  Core Lean tactics only.
-/
import M4riProofs.GenTieView
import M4riProofs.GenTieAlg
import M4riProofs.MulR
import M4riProofs.Strassen
set_option linter.unusedVariables false
namespace M4ri.GenTieStrassen
open M4ri M4ri.Gen M4ri.GenTieMem M4ri.GenTieView M4ri.BMat M4ri.GenTieAlg

/-! ### 0. a selective zeta -/

open Lean Meta Elab Tactic in
/-- zeta-reduce every `let` of the goal whose type is not a function type (memories `Int → Int → BitVec 64`
    stay shared, header fields are inlined) -/
elab "zeta_small" : tactic => do
  let g ← getMainGoal
  let t ← instantiateMVars (← g.getType)
  let t' ← Core.transform t (pre := fun e => do
    match e with
    | .letE _ ty v b _ =>
      if ty.isForall then return .continue else return .visit (b.instantiate1 v)
    | _ => return .continue)
  let g' ← g.replaceTargetDefEq t'
  replaceMainGoal [g']

open Lean Meta Elab Tactic in
/-- zeta-reduce the first `n` non-memory `let`s of the goal (in traversal order) -/
elab "zeta_n" n:num : tactic => do
  let g ← getMainGoal
  let t ← instantiateMVars (← g.getType)
  let cnt ← IO.mkRef (0 : Nat)
  let t' ← Core.transform t (pre := fun e => do
    match e with
    | .letE _ ty v b _ =>
      if ty.isForall then return .continue else
        let c ← cnt.get
        if c < n.getNat then
          cnt.set (c+1)
          return .visit (b.instantiate1 v)
        else return .continue
    | _ => return .continue)
  let g' ← g.replaceTargetDefEq t'
  replaceMainGoal [g']

/-- `simp only` that keeps the `let`s and leaves `match` on a non-constructor alone -/
macro "simp_z" "[" ls:Lean.Parser.Tactic.simpLemma,* "]" : tactic =>
  `(tactic| simp (config := {etaStruct := .none, zeta := false}) only [$ls,*])
macro "dsimp_z" : tactic =>
  `(tactic| dsimp (config := {etaStruct := .none, zeta := false}) only)

/-! ### 1. records: what a callee reads -/

theorem view00 (m : Int → Int → BitVec 64) : CLoop.view m 0 0 = m := by
  funext r w; simp [CLoop.view]

/-- the record `V` shows the value `E` -/
@[reducible] def Reads (V : CLoop.MView) (E : BMat) : Prop := (Mzd.ofView V).toB = E

/-- the record of `mzd_init_window(M, lr, lc, hr, hc)` as the generated code builds it -/
@[reducible] def winRec (mem : Int → Int → BitVec 64) (lr lc hr hc : Nat) : CLoop.MView :=
  ⟨CLoop.view mem ((0 : Int) + (lr : Int)) ((0 : Int) + ((lc / 64 : Nat) : Int)), ((hr - lr : Nat) : Int),
    ((hc - lc : Nat) : Int), (((hc - lc + 63) / 64 : Nat) : Int), leftMask ((hc - lc) % 64)⟩

/-- the record of a local matrix `mzd_init(r, c)` as the generated code builds it -/
@[reducible] def tmpRec (mem : Int → Int → BitVec 64) (r c : Nat) : CLoop.MView :=
  ⟨CLoop.view mem 0 0, (r : Int), (c : Int), (((c + 63) / 64 : Nat) : Int), leftMask (c % 64)⟩

theorem winRec_eq (mem : Int → Int → BitVec 64) (lr lc hr hc : Nat) : winRec mem lr lc hr hc = winView mem lr lc hr hc := by
  simp only [winRec, winView, Int.zero_add]

theorem reads_win0 (M : Mzd) (lr lc hr hc : Nat) (hlc : lc % 64 = 0) (hr2 : hr ≤ M.nrows) (hc2 : hc ≤ M.ncols) :
    Reads (winRec (memOf M) lr lc hr hc) (M.toB.sub lr lc hr hc) := by
  unfold Reads
  rw [winRec_eq]
  exact window_toB M lr lc hr hc hlc hr2 hc2

theorem reads_whole (M : Mzd) (hM : M.WF) :
    Reads ⟨memOf M, (M.nrows : Int), (M.ncols : Int), (M.width : Int), M.hb⟩ M.toB := by
  unfold Reads
  have := ofView_of M hM
  unfold CLoop.MView.of at this
  rw [this]

/-- a state: the memory of `M0` after its entries were replaced by `E` -/
theorem toB_st {M0 : Mzd} (hM0 : M0.WF) {E : BMat} {r c : Nat} (hE : Shaped E r c) (hr : M0.nrows = r)
    (hc : M0.ncols = c) : (M0.putB E).toB = E :=
  Mzd.toB_putB hM0 hE.wf (by rw [hE.nr, hr]) (by rw [hE.nc, hc])

theorem reads_win {M0 : Mzd} (hM0 : M0.WF) {E : BMat} {m n : Nat} (hE : Shaped E m n) (hr : M0.nrows = m)
    (hc : M0.ncols = n) (lr lc hr' hc' : Nat) (hlc : lc % 64 = 0) (hr2 : hr' ≤ m) (hc2 : hc' ≤ n) :
    Reads (winRec (memOf (M0.putB E)) lr lc hr' hc') (E.sub lr lc hr' hc') := by
  have := reads_win0 (M0.putB E) lr lc hr' hc' hlc (by simpa [hr] using hr2) (by simpa [hc] using hc2)
  rwa [toB_st hM0 hE hr hc] at this

theorem zero_WF (r c : Nat) : (Mzd.zero r c).WF := by
  refine ⟨by simp [Mzd.zero], fun i hi => ?_⟩
  have hi' : i < r := hi
  simp [Mzd.zero, Mzd.row, Mzd.width, Array.getD, hi']

theorem memOf_zero (r c : Nat) : memOf (Mzd.zero r c) = fun _ _ => 0#64 := by
  funext x k
  unfold memOf
  split
  · rfl
  · unfold Mzd.zero Mzd.row Row.w
    simp only [Array.getD_eq_getD_getElem?, Array.getElem?_replicate]
    by_cases hi : x.toNat < r
    · by_cases hk : k.toNat < widthOf c <;> simp [hi, hk]
    · simp [hi]

theorem whole_sub {E : BMat} {r c : Nat} (hE : Shaped E r c) : E.sub 0 0 r c = E := by
  apply (hE.sub 0 0 r c (Nat.le_refl _)).ext hE
  intro i j hi hj
  rw [hE.get_sub 0 0 r c i j (Nat.le_refl _)]
  have hi' : i < r := by omega
  have hj' : j < c := by omega
  simp [hi', hj']

theorem whole_paste {E X : BMat} {r c : Nat} (hE : Shaped E r c) (hX : Shaped X r c) : E.paste 0 0 X = X := by
  apply (hE.paste X 0 0 (by rw [hX.nc]; omega)).ext hX
  intro i j hi hj
  rw [hE.get_paste_window 0 0 r c hX (Nat.le_refl _), if_pos (by omega)]
  simp

theorem reads_tmp {W0 : Mzd} (hW0 : W0.WF) {E : BMat} {r c : Nat} (hE : Shaped E r c) (hr : W0.nrows = r)
    (hc : W0.ncols = c) : Reads (tmpRec (memOf (W0.putB E)) r c) E := by
  have h := reads_win hW0 hE hr hc 0 0 r c rfl (Nat.le_refl _) (Nat.le_refl _)
  rw [whole_sub hE] at h
  simpa only [winRec, tmpRec, Int.zero_add, Nat.sub_zero, Nat.zero_div, Int.natCast_zero] using h

/-! ### 2. write-back steps -/

/-- a three-operand callee writing a window of the state `M0.putB E` -/
theorem step_win (op : BMat → BMat → BMat → BMat) {M0 : Mzd} (hM0 : M0.WF) {E : BMat} {m n : Nat}
    (hE : Shaped E m n) (hr : M0.nrows = m) (hc : M0.ncols = n) (lr lc hr' hc' : Nat) (hlc : lc % 64 = 0)
    (hr2 : hr' ≤ m) (hc2 : hc' ≤ n) {VA VB : CLoop.MView} {EA EB : BMat} (hA : Reads VA EA) (hB : Reads VB EB)
    (hX : Shaped (op (E.sub lr lc hr' hc') EA EB) (hr' - lr) (hc' - lc)) :
    CLoop.unview (memOf (M0.putB E)) ((0 : Int) + (lr : Int)) ((0 : Int) + ((lc / 64 : Nat) : Int))
        ((hr' - lr : Nat) : Int) (((hc' - lc + 63) / 64 : Nat) : Int)
        (liftM3 op (winRec (memOf (M0.putB E)) lr lc hr' hc') VA VB)
      = memOf (M0.putB (E.paste lr lc (op (E.sub lr lc hr' hc') EA EB))) := by
  have hS : (M0.putB E).WF := Mzd.WF_putB hM0 E
  have hR := reads_win hM0 hE hr hc lr lc hr' hc' hlc hr2 hc2
  unfold Reads at hA hB hR
  have e : liftM3 op (winRec (memOf (M0.putB E)) lr lc hr' hc') VA VB
      = memOf (((M0.putB E).window lr lc hr' hc').putB (op (E.sub lr lc hr' hc') EA EB)) := by
    unfold liftM3
    rw [hA, hB, hR, winRec_eq]
    rfl
  rw [e]
  simp only [Int.zero_add]
  have := unview_window_putB (M0.putB E) hS lr lc hr' hc' hlc (by simpa [hr] using hr2) (by simpa [hc] using hc2)
    _ hX.nr hX.nc
  rw [this, toB_st hM0 hE hr hc, Mzd.putB_putB hM0]

/-- a three-operand callee writing a whole local matrix -/
theorem step_tmp (op : BMat → BMat → BMat → BMat) {W0 : Mzd} (hW0 : W0.WF) {E : BMat} {r c : Nat}
    (hE : Shaped E r c) (hr : W0.nrows = r) (hc : W0.ncols = c) {VA VB : CLoop.MView} {EA EB : BMat}
    (hA : Reads VA EA) (hB : Reads VB EB) (hX : Shaped (op E EA EB) r c) :
    CLoop.unview (memOf (W0.putB E)) 0 0 (r : Int) (((c + 63) / 64 : Nat) : Int)
        (liftM3 op (tmpRec (memOf (W0.putB E)) r c) VA VB)
      = memOf (W0.putB (op E EA EB)) := by
  have h := step_win op hW0 hE hr hc 0 0 r c rfl (Nat.le_refl _) (Nat.le_refl _) hA hB
    (by rw [whole_sub hE]; exact hX)
  rw [whole_sub hE, whole_paste hE hX] at h
  simpa only [winRec, tmpRec, Int.zero_add, Nat.sub_zero, Nat.zero_div, Int.natCast_zero] using h

/-! ### 3. the four result quadrants as a state -/

/-- the hypotheses under which `paste4 D X11 X12 X21 X22 m1 n1` is a state of an `m × n` matrix -/
structure QSt (D : BMat) (m n m1 n1 : Nat) (X11 X12 X21 X22 : BMat) : Prop where
  hD : Shaped D m n
  h11 : Shaped X11 m1 n1
  h12 : Shaped X12 m1 n1
  h21 : Shaped X21 m1 n1
  h22 : Shaped X22 m1 n1
  hm : 2 * m1 ≤ m
  hn : 2 * n1 ≤ n

namespace QSt
variable {D : BMat} {m n m1 n1 : Nat} {X11 X12 X21 X22 : BMat}

theorem shaped (h : QSt D m n m1 n1 X11 X12 X21 X22) : Shaped (paste4 D X11 X12 X21 X22 m1 n1) m n :=
  (paste4_spec h.hD h.h11 h.h12 h.h21 h.h22 h.hm h.hn).1

theorem get (h : QSt D m n m1 n1 X11 X12 X21 X22) (i j : Nat) :
    (paste4 D X11 X12 X21 X22 m1 n1).get i j =
      if i < m1 then
        (if j < n1 then X11.get i j else if j < 2 * n1 then X12.get i (j - n1) else D.get i j)
      else if i < 2 * m1 then
        (if j < n1 then X21.get (i - m1) j else if j < 2 * n1 then X22.get (i - m1) (j - n1) else D.get i j)
      else D.get i j :=
  (paste4_spec h.hD h.h11 h.h12 h.h21 h.h22 h.hm h.hn).2 i j

theorem sub11 (h : QSt D m n m1 n1 X11 X12 X21 X22) : (paste4 D X11 X12 X21 X22 m1 n1).sub 0 0 m1 n1 = X11 := by
  have hm := h.hm
  apply ((h.shaped.sub 0 0 m1 n1 (by omega)).cast (by omega) (by omega)).ext h.h11
  intro i j hi hj
  rw [h.shaped.get_sub 0 0 m1 n1 i j (by omega), h.get]
  have e1 : i < m1 - 0 ∧ j < n1 - 0 := by omega
  simp only [e1, and_self, decide_true, Bool.true_and, Nat.zero_add]
  rw [if_pos hi, if_pos hj]

theorem sub12 (h : QSt D m n m1 n1 X11 X12 X21 X22) :
    (paste4 D X11 X12 X21 X22 m1 n1).sub 0 n1 m1 (2 * n1) = X12 := by
  have hm := h.hm
  apply ((h.shaped.sub 0 n1 m1 (2 * n1) (by omega)).cast (by omega) (by omega)).ext h.h12
  intro i j hi hj
  rw [h.shaped.get_sub 0 n1 m1 (2 * n1) i j (by omega), h.get]
  have e1 : i < m1 - 0 ∧ j < 2 * n1 - n1 := by omega
  simp only [e1, and_self, decide_true, Bool.true_and, Nat.zero_add]
  rw [if_pos hi, if_neg (by omega), if_pos (by omega), Nat.add_sub_cancel_left]

theorem sub21 (h : QSt D m n m1 n1 X11 X12 X21 X22) :
    (paste4 D X11 X12 X21 X22 m1 n1).sub m1 0 (2 * m1) n1 = X21 := by
  have hm := h.hm
  apply ((h.shaped.sub m1 0 (2 * m1) n1 (by omega)).cast (by omega) (by omega)).ext h.h21
  intro i j hi hj
  rw [h.shaped.get_sub m1 0 (2 * m1) n1 i j (by omega), h.get]
  have e1 : i < 2 * m1 - m1 ∧ j < n1 - 0 := by omega
  simp only [e1, and_self, decide_true, Bool.true_and, Nat.zero_add]
  rw [if_neg (by omega), if_pos (by omega), if_pos hj, Nat.add_sub_cancel_left]

theorem sub22 (h : QSt D m n m1 n1 X11 X12 X21 X22) :
    (paste4 D X11 X12 X21 X22 m1 n1).sub m1 n1 (2 * m1) (2 * n1) = X22 := by
  have hm := h.hm
  apply ((h.shaped.sub m1 n1 (2 * m1) (2 * n1) (by omega)).cast (by omega) (by omega)).ext h.h22
  intro i j hi hj
  rw [h.shaped.get_sub m1 n1 (2 * m1) (2 * n1) i j (by omega), h.get]
  have e1 : i < 2 * m1 - m1 ∧ j < 2 * n1 - n1 := by omega
  simp only [e1, and_self, decide_true, Bool.true_and]
  rw [if_neg (by omega), if_pos (by omega), if_neg (by omega), if_pos (by omega), Nat.add_sub_cancel_left,
    Nat.add_sub_cancel_left]

theorem set11 (h : QSt D m n m1 n1 X11 X12 X21 X22) {Y : BMat} (hY : Shaped Y m1 n1) :
    QSt D m n m1 n1 Y X12 X21 X22 := { h with h11 := hY }
theorem set12 (h : QSt D m n m1 n1 X11 X12 X21 X22) {Y : BMat} (hY : Shaped Y m1 n1) :
    QSt D m n m1 n1 X11 Y X21 X22 := { h with h12 := hY }
theorem set21 (h : QSt D m n m1 n1 X11 X12 X21 X22) {Y : BMat} (hY : Shaped Y m1 n1) :
    QSt D m n m1 n1 X11 X12 Y X22 := { h with h21 := hY }
theorem set22 (h : QSt D m n m1 n1 X11 X12 X21 X22) {Y : BMat} (hY : Shaped Y m1 n1) :
    QSt D m n m1 n1 X11 X12 X21 Y := { h with h22 := hY }

theorem paste11 (h : QSt D m n m1 n1 X11 X12 X21 X22) {Y : BMat} (hY : Shaped Y m1 n1) :
    (paste4 D X11 X12 X21 X22 m1 n1).paste 0 0 Y = paste4 D Y X12 X21 X22 m1 n1 := by
  have hm := h.hm; have hn := h.hn
  apply (h.shaped.paste Y 0 0 (by rw [hY.nc]; omega)).ext (h.set11 hY).shaped
  intro i j hi hj
  rw [h.shaped.get_paste_window 0 0 m1 n1 (hY.cast (by omega) (by omega)) (by omega), h.get, (h.set11 hY).get]
  repeat' split
  all_goals first | rfl | (exfalso; omega)

theorem paste12 (h : QSt D m n m1 n1 X11 X12 X21 X22) {Y : BMat} (hY : Shaped Y m1 n1) :
    (paste4 D X11 X12 X21 X22 m1 n1).paste 0 n1 Y = paste4 D X11 Y X21 X22 m1 n1 := by
  have hm := h.hm; have hn := h.hn
  apply (h.shaped.paste Y 0 n1 (by rw [hY.nc]; omega)).ext (h.set12 hY).shaped
  intro i j hi hj
  rw [h.shaped.get_paste_window 0 n1 m1 (2 * n1) (hY.cast (by omega) (by omega)) (by omega), h.get,
    (h.set12 hY).get]
  repeat' split
  all_goals first | rfl | (exfalso; omega)

theorem paste21 (h : QSt D m n m1 n1 X11 X12 X21 X22) {Y : BMat} (hY : Shaped Y m1 n1) :
    (paste4 D X11 X12 X21 X22 m1 n1).paste m1 0 Y = paste4 D X11 X12 Y X22 m1 n1 := by
  have hm := h.hm; have hn := h.hn
  apply (h.shaped.paste Y m1 0 (by rw [hY.nc]; omega)).ext (h.set21 hY).shaped
  intro i j hi hj
  rw [h.shaped.get_paste_window m1 0 (2 * m1) n1 (hY.cast (by omega) (by omega)) (by omega), h.get,
    (h.set21 hY).get]
  repeat' split
  all_goals first | rfl | (exfalso; omega)

theorem paste22 (h : QSt D m n m1 n1 X11 X12 X21 X22) {Y : BMat} (hY : Shaped Y m1 n1) :
    (paste4 D X11 X12 X21 X22 m1 n1).paste m1 n1 Y = paste4 D X11 X12 X21 Y m1 n1 := by
  have hm := h.hm; have hn := h.hn
  apply (h.shaped.paste Y m1 n1 (by rw [hY.nc]; omega)).ext (h.set22 hY).shaped
  intro i j hi hj
  rw [h.shaped.get_paste_window m1 n1 (2 * m1) (2 * n1) (hY.cast (by omega) (by omega)) (by omega), h.get,
    (h.set22 hY).get]
  repeat' split
  all_goals first | rfl | (exfalso; omega)

/-- the initial state: the four windows of `D` itself -/
theorem init (hD : Shaped D m n) (hm : 2 * m1 ≤ m) (hn : 2 * n1 ≤ n) :
    QSt D m n m1 n1 (D.sub 0 0 m1 n1) (D.sub 0 n1 m1 (2 * n1)) (D.sub m1 0 (2 * m1) n1)
      (D.sub m1 n1 (2 * m1) (2 * n1)) :=
  ⟨hD, (hD.sub 0 0 m1 n1 (by omega)).cast (by omega) (by omega),
    (hD.sub 0 n1 m1 (2 * n1) (by omega)).cast (by omega) (by omega),
    (hD.sub m1 0 (2 * m1) n1 (by omega)).cast (by omega) (by omega),
    (hD.sub m1 n1 (2 * m1) (2 * n1) (by omega)).cast (by omega) (by omega), hm, hn⟩

theorem init_eq (hD : Shaped D m n) (hm : 2 * m1 ≤ m) (hn : 2 * n1 ≤ n) :
    paste4 D (D.sub 0 0 m1 n1) (D.sub 0 n1 m1 (2 * n1)) (D.sub m1 0 (2 * m1) n1)
      (D.sub m1 n1 (2 * m1) (2 * n1)) m1 n1 = D := by
  unfold paste4
  rw [hD.paste_sub_self 0 0 m1 n1 (by omega) (by omega) (by omega),
    hD.paste_sub_self 0 n1 m1 (2 * n1) (by omega) (by omega) (by omega),
    hD.paste_sub_self m1 0 (2 * m1) n1 (by omega) (by omega) (by omega),
    hD.paste_sub_self m1 n1 (2 * m1) (2 * n1) (by omega) (by omega) (by omega)]

end QSt

/-- the memory state of `C` during the Bodrato sequence -/
structure CSt (C : Mzd) (D : BMat) (m n m1 n1 : Nat) (X11 X12 X21 X22 : BMat) : Prop where
  wf : C.WF
  nr : C.nrows = m
  nc : C.ncols = n
  n64 : n1 % 64 = 0
  q : QSt D m n m1 n1 X11 X12 X21 X22

namespace CSt
variable {C : Mzd} {D : BMat} {m n m1 n1 : Nat} {X11 X12 X21 X22 : BMat}

theorem set11 (h : CSt C D m n m1 n1 X11 X12 X21 X22) {Y : BMat} (hY : Shaped Y m1 n1) :
    CSt C D m n m1 n1 Y X12 X21 X22 := { h with q := h.q.set11 hY }
theorem set12 (h : CSt C D m n m1 n1 X11 X12 X21 X22) {Y : BMat} (hY : Shaped Y m1 n1) :
    CSt C D m n m1 n1 X11 Y X21 X22 := { h with q := h.q.set12 hY }
theorem set21 (h : CSt C D m n m1 n1 X11 X12 X21 X22) {Y : BMat} (hY : Shaped Y m1 n1) :
    CSt C D m n m1 n1 X11 X12 Y X22 := { h with q := h.q.set21 hY }
theorem set22 (h : CSt C D m n m1 n1 X11 X12 X21 X22) {Y : BMat} (hY : Shaped Y m1 n1) :
    CSt C D m n m1 n1 X11 X12 X21 Y := { h with q := h.q.set22 hY }

theorem reads11 (h : CSt C D m n m1 n1 X11 X12 X21 X22) :
    Reads (winRec (memOf (C.putB (paste4 D X11 X12 X21 X22 m1 n1))) 0 0 m1 n1) X11 := by
  have hm := h.q.hm; have hn := h.q.hn
  have := reads_win h.wf h.q.shaped h.nr h.nc 0 0 m1 n1 rfl (by omega) (by omega)
  rwa [h.q.sub11] at this
theorem reads12 (h : CSt C D m n m1 n1 X11 X12 X21 X22) :
    Reads (winRec (memOf (C.putB (paste4 D X11 X12 X21 X22 m1 n1))) 0 n1 m1 (2 * n1)) X12 := by
  have hm := h.q.hm; have hn := h.q.hn
  have := reads_win h.wf h.q.shaped h.nr h.nc 0 n1 m1 (2 * n1) h.n64 (by omega) (by omega)
  rwa [h.q.sub12] at this
theorem reads21 (h : CSt C D m n m1 n1 X11 X12 X21 X22) :
    Reads (winRec (memOf (C.putB (paste4 D X11 X12 X21 X22 m1 n1))) m1 0 (2 * m1) n1) X21 := by
  have hm := h.q.hm; have hn := h.q.hn
  have := reads_win h.wf h.q.shaped h.nr h.nc m1 0 (2 * m1) n1 rfl (by omega) (by omega)
  rwa [h.q.sub21] at this
theorem reads22 (h : CSt C D m n m1 n1 X11 X12 X21 X22) :
    Reads (winRec (memOf (C.putB (paste4 D X11 X12 X21 X22 m1 n1))) m1 n1 (2 * m1) (2 * n1)) X22 := by
  have hm := h.q.hm; have hn := h.q.hn
  have := reads_win h.wf h.q.shaped h.nr h.nc m1 n1 (2 * m1) (2 * n1) h.n64 (by omega) (by omega)
  rwa [h.q.sub22] at this

theorem step11 (h : CSt C D m n m1 n1 X11 X12 X21 X22) (op : BMat → BMat → BMat → BMat)
    {VA VB : CLoop.MView} {EA EB : BMat} (hA : Reads VA EA) (hB : Reads VB EB)
    (hX : Shaped (op X11 EA EB) m1 n1) :
    CLoop.unview (memOf (C.putB (paste4 D X11 X12 X21 X22 m1 n1))) ((0 : Int) + ((0 : Nat) : Int))
        ((0 : Int) + ((0 / 64 : Nat) : Int)) ((m1 - 0 : Nat) : Int) (((n1 - 0 + 63) / 64 : Nat) : Int)
        (liftM3 op (winRec (memOf (C.putB (paste4 D X11 X12 X21 X22 m1 n1))) 0 0 m1 n1) VA VB)
      = memOf (C.putB (paste4 D (op X11 EA EB) X12 X21 X22 m1 n1)) := by
  have hm := h.q.hm; have hn := h.q.hn
  have := step_win op h.wf h.q.shaped h.nr h.nc 0 0 m1 n1 rfl (by omega) (by omega) hA hB
    (by rw [h.q.sub11]; exact hX.cast (by omega) (by omega))
  rwa [h.q.sub11, h.q.paste11 hX] at this

theorem step12 (h : CSt C D m n m1 n1 X11 X12 X21 X22) (op : BMat → BMat → BMat → BMat)
    {VA VB : CLoop.MView} {EA EB : BMat} (hA : Reads VA EA) (hB : Reads VB EB)
    (hX : Shaped (op X12 EA EB) m1 n1) :
    CLoop.unview (memOf (C.putB (paste4 D X11 X12 X21 X22 m1 n1))) ((0 : Int) + ((0 : Nat) : Int))
        ((0 : Int) + ((n1 / 64 : Nat) : Int)) ((m1 - 0 : Nat) : Int) (((2 * n1 - n1 + 63) / 64 : Nat) : Int)
        (liftM3 op (winRec (memOf (C.putB (paste4 D X11 X12 X21 X22 m1 n1))) 0 n1 m1 (2 * n1)) VA VB)
      = memOf (C.putB (paste4 D X11 (op X12 EA EB) X21 X22 m1 n1)) := by
  have hm := h.q.hm; have hn := h.q.hn
  have := step_win op h.wf h.q.shaped h.nr h.nc 0 n1 m1 (2 * n1) h.n64 (by omega) (by omega) hA hB
    (by rw [h.q.sub12]; exact hX.cast (by omega) (by omega))
  rwa [h.q.sub12, h.q.paste12 hX] at this

theorem step21 (h : CSt C D m n m1 n1 X11 X12 X21 X22) (op : BMat → BMat → BMat → BMat)
    {VA VB : CLoop.MView} {EA EB : BMat} (hA : Reads VA EA) (hB : Reads VB EB)
    (hX : Shaped (op X21 EA EB) m1 n1) :
    CLoop.unview (memOf (C.putB (paste4 D X11 X12 X21 X22 m1 n1))) ((0 : Int) + ((m1 : Nat) : Int))
        ((0 : Int) + ((0 / 64 : Nat) : Int)) ((2 * m1 - m1 : Nat) : Int) (((n1 - 0 + 63) / 64 : Nat) : Int)
        (liftM3 op (winRec (memOf (C.putB (paste4 D X11 X12 X21 X22 m1 n1))) m1 0 (2 * m1) n1) VA VB)
      = memOf (C.putB (paste4 D X11 X12 (op X21 EA EB) X22 m1 n1)) := by
  have hm := h.q.hm; have hn := h.q.hn
  have := step_win op h.wf h.q.shaped h.nr h.nc m1 0 (2 * m1) n1 rfl (by omega) (by omega) hA hB
    (by rw [h.q.sub21]; exact hX.cast (by omega) (by omega))
  rwa [h.q.sub21, h.q.paste21 hX] at this

theorem step22 (h : CSt C D m n m1 n1 X11 X12 X21 X22) (op : BMat → BMat → BMat → BMat)
    {VA VB : CLoop.MView} {EA EB : BMat} (hA : Reads VA EA) (hB : Reads VB EB)
    (hX : Shaped (op X22 EA EB) m1 n1) :
    CLoop.unview (memOf (C.putB (paste4 D X11 X12 X21 X22 m1 n1))) ((0 : Int) + ((m1 : Nat) : Int))
        ((0 : Int) + ((n1 / 64 : Nat) : Int)) ((2 * m1 - m1 : Nat) : Int) (((2 * n1 - n1 + 63) / 64 : Nat) : Int)
        (liftM3 op (winRec (memOf (C.putB (paste4 D X11 X12 X21 X22 m1 n1))) m1 n1 (2 * m1) (2 * n1)) VA VB)
      = memOf (C.putB (paste4 D X11 X12 X21 (op X22 EA EB) m1 n1)) := by
  have hm := h.q.hm; have hn := h.q.hn
  have := step_win op h.wf h.q.shaped h.nr h.nc m1 n1 (2 * m1) (2 * n1) h.n64 (by omega) (by omega) hA hB
    (by rw [h.q.sub22]; exact hX.cast (by omega) (by omega))
  rwa [h.q.sub22, h.q.paste22 hX] at this

end CSt

/-! ### 4. the callees -/

/-- `_mzd_add(C, A, B)` -/
def cAdd : CLoop.MView → CLoop.MView → CLoop.MView → (Int → Int → BitVec 64) :=
  liftM3 (fun _ A B => addM A B)

/-- `_mzd_mul_even(C, A, B, cutoff)`: the model's recursive call at `fuel` -/
def cMulEven (fuel : Nat) (C A B : CLoop.MView) (cutoff : Int) : Int → Int → BitVec 64 :=
  liftM3 (fun C A B => mulEven fuel C A B cutoff.toNat) C A B

/-- `_mzd_mul_m4rm(C, A, B, k, clear)` -/
def cM4rm (C A B : CLoop.MView) (k clear : Int) : Int → Int → BitVec 64 :=
  liftM3 (fun C A B => m4rm C A B k.toNat (decide (clear ≠ 0))) C A B

/-- `mzd_addmul_m4rm(C, A, B, k)` (returns at once on an empty destination) -/
def cAddmulM4rm (C A B : CLoop.MView) (k : Int) : Int → Int → BitVec 64 :=
  liftM3 (fun C A B => if C.ncols = 0 ∨ C.nrows = 0 then C else m4rm C A B k.toNat false) C A B

/-- `mzd_mul(NULL, A, B, cutoff)`: a fresh matrix holding the model's `mulTop` -/
def cMulNew (fuel : Nat) (A B : CLoop.MView) (cutoff : Int) : (Int → Int → BitVec 64) × Int × Int :=
  (memOf ((Mzd.zero (Mzd.ofView A).nrows (Mzd.ofView B).ncols).putB
      (mulTop fuel (zero (Mzd.ofView A).toB.nrows (Mzd.ofView B).toB.ncols) (Mzd.ofView A).toB (Mzd.ofView B).toB
        cutoff.toNat false)),
    ((Mzd.ofView A).nrows : Int), ((Mzd.ofView B).ncols : Int))

/-- `mzd_copy(NULL, A)`: a fresh matrix holding `A` -/
def cCopyNew (A : CLoop.MView) : (Int → Int → BitVec 64) × Int × Int :=
  (memOf ((Mzd.zero (Mzd.ofView A).nrows (Mzd.ofView A).ncols).putB (Mzd.ofView A).toB),
    ((Mzd.ofView A).nrows : Int), ((Mzd.ofView A).ncols : Int))

/-- `mzd_copy(D, S)` -/
def cCopy (D S : CLoop.MView) : Int → Int → BitVec 64 :=
  memOf ((Mzd.ofView D).putB (Mzd.ofView S).toB)


/-! ### 5. arithmetic of the headers, shapes of the model's values -/

theorem halfSplit_mod (m mult : Nat) : halfSplit m mult % 64 = 0 := by
  unfold halfSplit; omega

theorem tdiv63 (c : Nat) : ((c : Int) + 63).tdiv 64 = (((c + 63) / 64 : Nat) : Int) := by
  rw [← GenTie.tdiv_nat]; simp

theorem hbmask (c : Nat) :
    BitVec.allOnes 64 >>> ((64 - ((c : Int)).tmod 64).tmod 64).toNat = leftMask (c % 64) := by
  have e : ((c : Int)).tmod 64 = ((c % 64 : Nat) : Int) := by rw [← GenTie.tmod_nat]; simp
  rw [e]
  unfold leftMask ffff
  rw [GenTie.leftShift_arg _ (by omega)]

theorem mulAllP (fuel : Nat) : MulAll fuel :=
  mulAll (fun C A B _ hB hC hk hr hc => m4rm_clear C A B 0 4 (fun _ => 0) 8 54 hB hC.1 hr hc hk)
    (fun C A B _ hB hC hk hr hc => m4rm_noclear C A B 0 4 (fun _ => 0) 8 54 hB hC.1 hr hc hk) fuel

theorem shaped_mulEven (fuel cutoff : Nat) {X Y Z : BMat} {r k c : Nat} (hX : Shaped X r c) (hY : Shaped Y r k)
    (hZ : Shaped Z k c) : Shaped (mulEven fuel X Y Z cutoff) r c := by
  have e : mulEven fuel X Y Z cutoff = Y.mul Z := (mulAllP fuel).1 cutoff hX hY hZ
  rw [e]; exact hY.mul hZ

theorem shaped_mulTop (fuel cutoff : Nat) {X Y Z : BMat} {r k c : Nat} (hX : Shaped X r c) (hY : Shaped Y r k)
    (hZ : Shaped Z k c) : Shaped (mulTop fuel X Y Z cutoff false) r c := by
  have e : mulTop fuel X Y Z cutoff false = Y.mul Z := (mulAllP fuel).2.2.1 cutoff hX hY hZ
  rw [e]; exact hY.mul hZ

theorem shaped_m4rm_mul {X Y Z : BMat} {r k c : Nat} (hX : Shaped X r c) (hY : Shaped Y r k)
    (hZ : Shaped Z k c) : Shaped (m4rm X Y Z 0 true) r c := by
  rw [m4rm_clear X Y Z 0 4 (fun _ => 0) 8 54 hZ.wf hX.wf.1 (by rw [hX.nr, hY.nr]) (by rw [hX.nc, hZ.nc])
    (by rw [hY.nc, hZ.nr])]
  exact hY.mul hZ

theorem shaped_m4rm_addmul {X Y Z : BMat} {r k c : Nat} (hX : Shaped X r c) (hY : Shaped Y r k)
    (hZ : Shaped Z k c) : Shaped (m4rm X Y Z 0 false) r c := by
  rw [m4rm_noclear X Y Z 0 4 (fun _ => 0) 8 54 hZ.wf hX.wf.1 (by rw [hX.nr, hY.nr]) (by rw [hX.nc, hZ.nc])
    (by rw [hY.nc, hZ.nr])]
  exact hX.add (hY.mul hZ)

/-- shapes of compound values from the shapes of the atoms in the context -/
macro "shp" : tactic =>
  `(tactic| repeat' (first
      | assumption | apply Shaped.addM | apply shaped_mulEven | apply shaped_mulTop | exact Shaped.zero _ _))

theorem bit_zero (r c i j : Nat) : (Mzd.zero r c).bit i j = false := by
  rw [Mzd.bit_def]
  have : ∀ k, Row.w ((Mzd.zero r c).row i) k = 0 := by
    intro k
    unfold Mzd.zero Mzd.row Row.w
    simp only [Array.getD_eq_getD_getElem?, Array.getElem?_replicate]
    by_cases hi : i < r
    · by_cases hk : k < widthOf c <;> simp [hi, hk]
    · simp [hi]
  rw [this]; simp

/-- the memory of a fresh `mzd_init(r, c)` as a state -/
theorem zero_state (r c : Nat) : (fun _ _ => 0#64) = memOf ((Mzd.zero r c).putB (BMat.zero r c)) := by
  have : Mzd.zero r c = (Mzd.zero r c).putB (BMat.zero r c) := by
    apply Mzd.eq_putB_of_bit (zero_WF r c) (zero_WF r c) rfl rfl
    intro i j hi hj
    rw [bit_zero]
    split
    · simp
    · rfl
  rw [← this, memOf_zero]

theorem cMulEven_nat (fuel cutoff : Nat) (C A B : CLoop.MView) :
    cMulEven fuel C A B (cutoff : Int) = liftM3 (fun C A B => mulEven fuel C A B cutoff) C A B := by
  unfold cMulEven; rw [Int.toNat_natCast]

/-- the next memory `let` of the goal is a bare value -/
macro "mstep1" t:term : tactic =>
  `(tactic| (extract_lets +onlyGivenNames x; have hx : x = _ := $t; clear_value x; subst hx))
/-- the next two `let`s of the goal are a call and the write-back of its result -/
macro "mstep" t:term : tactic =>
  `(tactic| (extract_lets +onlyGivenNames cr x; have hx : x = _ := $t; clear_value x; subst hx; clear cr))
/-! ### 6. the callees at the arguments of the generated text; the base case -/

theorem cM4rm_mul (C A B : CLoop.MView) :
    cM4rm C A B 0 1 = liftM3 (fun C A B => m4rm C A B 0 true) C A B := rfl
theorem cM4rm_acc (C A B : CLoop.MView) :
    cM4rm C A B 0 0 = liftM3 (fun C A B => m4rm C A B 0 false) C A B := rfl

/-- clearing the destination = starting from a zero destination -/
theorem m4rm_clear_eq_zero (C A B : BMat) :
    m4rm C A B 0 true = m4rm (zero C.nrows C.ncols) A B 0 false := by
  unfold m4rm mulNaive mulNaiveT mulVa
  simp [zero]

/-- some operand is a window (`mzd_is_windowed(A) | mzd_is_windowed(B) | mzd_is_windowed(C)`) -/
def anyWindowed (fA fB fC : BitVec 8) : Bool :=
  decide (CLoop.ior (CLoop.ior (Gen.C.mzdIsWindowed fA) (Gen.C.mzdIsWindowed fB)) (Gen.C.mzdIsWindowed fC) ≠ 0)

theorem anyWindowed_zero : anyWindowed 0 0 0 = false := by decide

theorem anyWindowed_eq (fA fB fC : BitVec 8) :
    anyWindowed fA fB fC = decide ((fA ||| fB ||| fC) &&& 4#8 ≠ 0#8) := by
  unfold anyWindowed Gen.C.mzdIsWindowed
  have h4 : (Int.ofNat (BitVec.toNat (4#8))) = ((4 : Nat) : Int) := rfl
  have hA := fA.isLt; have hB := fB.isLt; have hC := fC.isLt
  simp only [h4, Int.ofNat_eq_natCast]
  rw [GenTie.iand_nat _ _ (by omega) (by omega), GenTie.iand_nat _ _ (by omega) (by omega),
    GenTie.iand_nat _ _ (by omega) (by omega)]
  have b : ∀ x : Nat, x &&& 4 < 2 ^ 63 := fun x => Nat.lt_of_le_of_lt Nat.and_le_right (by omega)
  rw [GenTie.ior_nat _ _ (b _) (b _), GenTie.ior_nat _ _ (Nat.or_lt_two_pow (b _) (b _)) (b _)]
  congr 1
  apply propext
  rw [show ((0 : Int)) = ((0 : Nat) : Int) from rfl, Ne, Ne, Int.ofNat_inj, ← BitVec.toNat_inj]
  simp only [BitVec.toNat_and, BitVec.toNat_or, BitVec.toNat_ofNat]
  rw [← Nat.and_or_distrib_right, ← Nat.and_or_distrib_right]

theorem cAddmulM4rm_zero (C A B : CLoop.MView) :
    cAddmulM4rm C A B 0
      = liftM3 (fun C A B => if C.ncols = 0 ∨ C.nrows = 0 then C else m4rm C A B 0 false) C A B := rfl


/-- **base case** (`closer(m) || closer(k) || closer(n)`), windowed operands or not -/
theorem strassenMulEven_base (fuel cutoff : Nat) (rsA rsB rsC : Int) (fA fB fC : BitVec 8) (C A B : Mzd) (hC : C.WF) (hA : A.WF)
    (hB : B.WF) (hk : A.ncols = B.nrows) (hr : C.nrows = A.nrows) (hc : C.ncols = B.ncols)
    (h0 : ¬ (C.nrows = 0 ∨ C.ncols = 0))
    (hcl : BMat.closer A.nrows cutoff = true ∨ BMat.closer A.ncols cutoff = true ∨ BMat.closer B.ncols cutoff = true) :
    Gen.C.strassenMulEven cutoff (memOf C) C.nrows C.ncols A.nrows A.ncols B.ncols fA fB fC (memOf A) A.width A.hb
      cCopyNew (memOf B) B.nrows B.width B.hb cM4rm C.width C.hb cCopy rsA rsB rsC cAdd (cMulEven fuel)
      (cMulNew fuel) cAddmulM4rm
    = memOf (C.putB (mulEven (fuel + 1) C.toB A.toB B.toB cutoff)) := by
  have eR : mulEven (fuel + 1) C.toB A.toB B.toB cutoff = m4rm C.toB A.toB B.toB 0 true := by
    rw [mulEven.eq_1, if_neg (by simpa using h0)]
    dsimp -zeta only
    extract_lets +onlyGivenNames m k n
    rw [if_pos (show BMat.closer m cutoff = true ∨ BMat.closer k cutoff = true ∨ BMat.closer n cutoff = true
      from hcl)]
  rw [eR]
  unfold Gen.C.strassenMulEven
  zeta_n 6
  rw [if_neg (by simpa using h0)]
  simp_z [GenTie.closer_eq]
  rw [if_pos (by rcases hcl with h | h | h <;> simp [BMat.closer] at h <;> simp [h])]
  show (let v := if anyWindowed fA fB fC = true then _ else _; v) = _
  by_cases hw : anyWindowed fA fB fC = true
  · rw [if_pos hw]
    have hAs : Shaped A.toB A.nrows A.ncols := ⟨Mzd.WF_toB hA, rfl, rfl⟩
    have hBs : Shaped B.toB B.nrows B.ncols := ⟨Mzd.WF_toB hB, rfl, rfl⟩
    have hBs' : Shaped B.toB A.ncols B.ncols := ⟨Mzd.WF_toB hB, hk.symm, rfl⟩
    have hX : Shaped (m4rm (zero A.nrows B.ncols) A.toB B.toB 0 false) A.nrows B.ncols :=
      shaped_m4rm_addmul (Shaped.zero _ _) hAs hBs'
    have rA := reads_whole A hA
    have rB := reads_whole B hB
    have eC := ofView_of C hC
    unfold CLoop.MView.of at eC
    simp (config := {etaStruct := .none}) only [cCopyNew, nrows_ofView, ncols_ofView, Int.toNat_natCast, tdiv63,
      hbmask, cM4rm_acc, cCopy, rA, rB, eC]
    rw [zero_state A.nrows B.ncols,
      step_tmp (r := A.nrows) (c := B.ncols) (fun C A B => m4rm C A B 0 false) (zero_WF A.nrows B.ncols)
        (Shaped.zero _ _) rfl rfl
        (reads_tmp (r := A.nrows) (c := A.ncols) (zero_WF A.nrows A.ncols) hAs rfl rfl)
        (reads_tmp (r := B.nrows) (c := B.ncols) (zero_WF B.nrows B.ncols) hBs rfl rfl) hX,
      (reads_tmp (r := A.nrows) (c := B.ncols) (zero_WF A.nrows B.ncols) hX rfl rfl : (Mzd.ofView _).toB = _),
      m4rm_clear_eq_zero,
      Mzd.nrows_toB, Mzd.ncols_toB, hr, hc]
  · rw [if_neg hw]
    dsimp only
    rw [cM4rm_mul]
    exact liftM3_of _ C A B hC hA hB


/-! ### 7. the split branch -/

/-- **the split branch**: 12 windows, two local matrices, the Bodrato sequence, the three remainder strips -/
theorem strassenMulEven_split (fuel cutoff : Nat) (rsA rsB rsC : Int) (fA fB fC : BitVec 8) (C A B : Mzd) (hC : C.WF) (hA : A.WF)
    (hB : B.WF) (hk : A.ncols = B.nrows) (hr : C.nrows = A.nrows) (hc : C.ncols = B.ncols)
    (h0 : ¬ (C.nrows = 0 ∨ C.ncols = 0))
    (hcl : ¬ (BMat.closer A.nrows cutoff = true ∨ BMat.closer A.ncols cutoff = true ∨ BMat.closer B.ncols cutoff = true)) :
    Gen.C.strassenMulEven cutoff (memOf C) C.nrows C.ncols A.nrows A.ncols B.ncols fA fB fC (memOf A) A.width A.hb
      cCopyNew (memOf B) B.nrows B.width B.hb cM4rm C.width C.hb cCopy rsA rsB rsC cAdd (cMulEven fuel)
      (cMulNew fuel) cAddmulM4rm
    = memOf (C.putB (mulEven (fuel + 1) C.toB A.toB B.toB cutoff)) := by
  generalize hR : mulEven (fuel + 1) C.toB A.toB B.toB cutoff = R
  -- the model side
  rw [mulEven.eq_1] at hR
  rw [if_neg (by simpa using h0)] at hR
  dsimp -zeta only at hR
  extract_lets +onlyGivenNames m k n at hR
  rw [if_neg (show ¬ (BMat.closer m cutoff = true ∨ BMat.closer k cutoff = true ∨ BMat.closer n cutoff = true)
    from hcl)] at hR
  extract_lets mult mmm kkk nnn A11 A12 A21 A22 B11 B12 B21 B22 C11 C12 C21 C22 Wkn1 Wmk1 C21a Wmk2 Wkn2
    C22a Wkn3 Wmk3 C11a Wmk4 C12a C12b W C11b C12c C11c Wkn4 C21b C21c C22b C11d C11e C0 nnn2 C1 mmm2 C2
    kkk2 at hR
  -- the generated side: the split
  unfold Gen.C.strassenMulEven
  zeta_n 6
  rw [if_neg (by simpa using h0)]
  simp_z [GenTie.closer_eq]
  rw [if_neg (by simp [BMat.closer] at hcl; simp [hcl])]
  zeta_n 2
  rw [GenTie.min3_int]
  generalize hL : (CLoop.loop 64 _ _ _ : Int × Int) = L
  have h2 : L.2 = ((strassenMult.go cutoff 64 (min (min A.nrows B.ncols) A.ncols / 2) 64 : Nat) : Int) := by
    rw [← hL]
    exact GenTie.loop_strassen cutoff _ _ (fun w m => by simp) (fun w m => by simp) 64 _ 64
  obtain ⟨w', m'⟩ := L
  simp only at h2
  subst h2
  clear hL
  dsimp_z
  zeta_small
  simp_z [GenTie.halfSplit_int]
  have hmult : strassenMult.go cutoff 64 (min (min A.nrows B.ncols) A.ncols / 2) 64 = mult := rfl
  rw [hmult]
  have hmmm : halfSplit A.nrows mult = mmm := rfl
  have hkkk : halfSplit A.ncols mult = kkk := rfl
  have hnnn : halfSplit B.ncols mult = nnn := rfl
  rw [hmmm, hkkk, hnnn]
  have hm2 : 2 * mmm ≤ A.nrows := two_halfSplit_le A.nrows mult
  have hk2 : 2 * kkk ≤ A.ncols := two_halfSplit_le A.ncols mult
  have hn2 : 2 * nnn ≤ B.ncols := two_halfSplit_le B.ncols mult
  have hm64 : mmm % 64 = 0 := halfSplit_mod A.nrows mult
  have hk64 : kkk % 64 = 0 := halfSplit_mod A.ncols mult
  have hn64 : nnn % 64 = 0 := halfSplit_mod B.ncols mult
  clear_value mult mmm kkk nnn
  have eA11 := mzdInitWindow_in 0 0 (mmm : Int) (kkk : Int) (A.nrows : Int) rsA 0 (0) (mmm) (kkk) A.nrows
    (by omega) (by omega) (by omega) (by omega) rfl (by omega) (by omega) (by omega) (by omega)
  have eA12 := mzdInitWindow_in 0 (kkk : Int) (mmm : Int) (2 * (kkk : Int)) (A.nrows : Int) rsA 0 (kkk) (mmm) (2 * kkk) A.nrows
    (by omega) (by omega) (by omega) (by omega) rfl (by omega) (by omega) (by omega) (by omega)
  have eA21 := mzdInitWindow_in (mmm : Int) 0 (2 * (mmm : Int)) (kkk : Int) (A.nrows : Int) rsA mmm (0) (2 * mmm) (kkk) A.nrows
    (by omega) (by omega) (by omega) (by omega) rfl (by omega) (by omega) (by omega) (by omega)
  have eA22 := mzdInitWindow_in (mmm : Int) (kkk : Int) (2 * (mmm : Int)) (2 * (kkk : Int)) (A.nrows : Int) rsA mmm (kkk) (2 * mmm) (2 * kkk) A.nrows
    (by omega) (by omega) (by omega) (by omega) rfl (by omega) (by omega) (by omega) (by omega)
  have eB11 := mzdInitWindow_in 0 0 (kkk : Int) (nnn : Int) (B.nrows : Int) rsB 0 (0) (kkk) (nnn) B.nrows
    (by omega) (by omega) (by omega) (by omega) rfl (by omega) (by omega) (by omega) (by omega)
  have eB12 := mzdInitWindow_in 0 (nnn : Int) (kkk : Int) (2 * (nnn : Int)) (B.nrows : Int) rsB 0 (nnn) (kkk) (2 * nnn) B.nrows
    (by omega) (by omega) (by omega) (by omega) rfl (by omega) (by omega) (by omega) (by omega)
  have eB21 := mzdInitWindow_in (kkk : Int) 0 (2 * (kkk : Int)) (nnn : Int) (B.nrows : Int) rsB kkk (0) (2 * kkk) (nnn) B.nrows
    (by omega) (by omega) (by omega) (by omega) rfl (by omega) (by omega) (by omega) (by omega)
  have eB22 := mzdInitWindow_in (kkk : Int) (nnn : Int) (2 * (kkk : Int)) (2 * (nnn : Int)) (B.nrows : Int) rsB kkk (nnn) (2 * kkk) (2 * nnn) B.nrows
    (by omega) (by omega) (by omega) (by omega) rfl (by omega) (by omega) (by omega) (by omega)
  have eC11 := mzdInitWindow_in 0 0 (mmm : Int) (nnn : Int) (C.nrows : Int) rsC 0 (0) (mmm) (nnn) C.nrows
    (by omega) (by omega) (by omega) (by omega) rfl (by omega) (by omega) (by omega) (by omega)
  have eC12 := mzdInitWindow_in 0 (nnn : Int) (mmm : Int) (2 * (nnn : Int)) (C.nrows : Int) rsC 0 (nnn) (mmm) (2 * nnn) C.nrows
    (by omega) (by omega) (by omega) (by omega) rfl (by omega) (by omega) (by omega) (by omega)
  have eC21 := mzdInitWindow_in (mmm : Int) 0 (2 * (mmm : Int)) (nnn : Int) (C.nrows : Int) rsC mmm (0) (2 * mmm) (nnn) C.nrows
    (by omega) (by omega) (by omega) (by omega) rfl (by omega) (by omega) (by omega) (by omega)
  have eC22 := mzdInitWindow_in (mmm : Int) (nnn : Int) (2 * (mmm : Int)) (2 * (nnn : Int)) (C.nrows : Int) rsC mmm (nnn) (2 * mmm) (2 * nnn) C.nrows
    (by omega) (by omega) (by omega) (by omega) rfl (by omega) (by omega) (by omega) (by omega)
  simp_z [eA11, eA12, eA21, eA22, eB11, eB12, eB21, eB22, eC11, eC12, eC21, eC22]
  clear eA11 eA12 eA21 eA22 eB11 eB12 eB21 eB22 eC11 eC12 eC21 eC22
  simp_z [tdiv63, hbmask, cMulEven_nat, cAdd]
  -- atoms
  have hAs : Shaped A.toB A.nrows A.ncols := ⟨Mzd.WF_toB hA, rfl, rfl⟩
  have hBs : Shaped B.toB A.ncols B.ncols := ⟨Mzd.WF_toB hB, hk.symm, rfl⟩
  have hCs : Shaped C.toB C.nrows C.ncols := ⟨Mzd.WF_toB hC, rfl, rfl⟩
  have hA11 : Shaped A11 mmm kkk := (hAs.sub 0 0 mmm kkk (by omega)).cast (by omega) (by omega)
  have hA12 : Shaped A12 mmm kkk := (hAs.sub 0 kkk mmm (2 * kkk) (by omega)).cast (by omega) (by omega)
  have hA21 : Shaped A21 mmm kkk := (hAs.sub mmm 0 (2 * mmm) kkk (by omega)).cast (by omega) (by omega)
  have hA22 : Shaped A22 mmm kkk := (hAs.sub mmm kkk (2 * mmm) (2 * kkk) (by omega)).cast (by omega) (by omega)
  have hB11 : Shaped B11 kkk nnn := (hBs.sub 0 0 kkk nnn (by omega)).cast (by omega) (by omega)
  have hB12 : Shaped B12 kkk nnn := (hBs.sub 0 nnn kkk (2 * nnn) (by omega)).cast (by omega) (by omega)
  have hB21 : Shaped B21 kkk nnn := (hBs.sub kkk 0 (2 * kkk) nnn (by omega)).cast (by omega) (by omega)
  have hB22 : Shaped B22 kkk nnn := (hBs.sub kkk nnn (2 * kkk) (2 * nnn) (by omega)).cast (by omega) (by omega)
  have rA11 : Reads (winRec (memOf A) 0 0 mmm kkk) A11 := reads_win0 A 0 0 mmm kkk rfl (by omega) (by omega)
  have rA12 : Reads (winRec (memOf A) 0 kkk mmm (2 * kkk)) A12 :=
    reads_win0 A 0 kkk mmm (2 * kkk) hk64 (by omega) (by omega)
  have rA21 : Reads (winRec (memOf A) mmm 0 (2 * mmm) kkk) A21 :=
    reads_win0 A mmm 0 (2 * mmm) kkk rfl (by omega) (by omega)
  have rA22 : Reads (winRec (memOf A) mmm kkk (2 * mmm) (2 * kkk)) A22 :=
    reads_win0 A mmm kkk (2 * mmm) (2 * kkk) hk64 (by omega) (by omega)
  have rB11 : Reads (winRec (memOf B) 0 0 kkk nnn) B11 := reads_win0 B 0 0 kkk nnn rfl (by omega) (by omega)
  have rB12 : Reads (winRec (memOf B) 0 nnn kkk (2 * nnn)) B12 :=
    reads_win0 B 0 nnn kkk (2 * nnn) hn64 (by omega) (by omega)
  have rB21 : Reads (winRec (memOf B) kkk 0 (2 * kkk) nnn) B21 :=
    reads_win0 B kkk 0 (2 * kkk) nnn rfl (by omega) (by omega)
  have rB22 : Reads (winRec (memOf B) kkk nnn (2 * kkk) (2 * nnn)) B22 :=
    reads_win0 B kkk nnn (2 * kkk) (2 * nnn) hn64 (by omega) (by omega)
  -- states
  have hS : CSt C C.toB C.nrows C.ncols mmm nnn C11 C12 C21 C22 :=
    ⟨hC, rfl, rfl, hn64, QSt.init hCs (by omega) (by omega)⟩
  have eC0 : memOf C = memOf (C.putB (paste4 C.toB C11 C12 C21 C22 mmm nnn)) := by
    rw [show paste4 C.toB C11 C12 C21 C22 mmm nnn = C.toB from QSt.init_eq hCs (by omega) (by omega),
      Mzd.putB_toB hC]
  rw [eC0]
  clear eC0
  have wMK := zero_WF mmm kkk
  have wKN := zero_WF kkk nnn
  mstep1 (zero_state mmm kkk)
  mstep1 (zero_state kkk nnn)
  -- 1. Wkn = B22 + B12
  have s1 : Shaped Wkn1 kkk nnn := hB22.addM hB12
  mstep (step_tmp (fun _ A B => addM A B) wKN (Shaped.zero kkk nnn) rfl rfl rB22 rB12 s1)
  -- 2. Wmk = A22 + A12
  have s2 : Shaped Wmk1 mmm kkk := hA22.addM hA12
  mstep (step_tmp (fun _ A B => addM A B) wMK (Shaped.zero mmm kkk) rfl rfl rA22 rA12 s2)
  -- 3. C21 = Wmk * Wkn
  have s3 : Shaped C21a mmm nnn := shaped_mulEven fuel cutoff hS.q.h21 s2 s1
  mstep (hS.step21 (fun C A B => mulEven fuel C A B cutoff) (reads_tmp wMK s2 rfl rfl) (reads_tmp wKN s1 rfl rfl) s3)
  replace hS := hS.set21 s3
  -- 4. Wmk = A22 + A21
  have s4 : Shaped Wmk2 mmm kkk := hA22.addM hA21
  mstep (step_tmp (fun _ A B => addM A B) wMK s2 rfl rfl rA22 rA21 s4)
  -- 5. Wkn = B22 + B21
  have s5 : Shaped Wkn2 kkk nnn := hB22.addM hB21
  mstep (step_tmp (fun _ A B => addM A B) wKN s1 rfl rfl rB22 rB21 s5)
  -- 6. C22 = Wmk * Wkn
  have s6 : Shaped C22a mmm nnn := shaped_mulEven fuel cutoff hS.q.h22 s4 s5
  mstep (hS.step22 (fun C A B => mulEven fuel C A B cutoff) (reads_tmp wMK s4 rfl rfl) (reads_tmp wKN s5 rfl rfl) s6)
  replace hS := hS.set22 s6
  -- 7. Wkn = Wkn + B12
  have s7 : Shaped Wkn3 kkk nnn := s5.addM hB12
  mstep (step_tmp (fun _ A B => addM A B) wKN s5 rfl rfl (reads_tmp wKN s5 rfl rfl) rB12 s7)
  -- 8. Wmk = Wmk + A12
  have s8 : Shaped Wmk3 mmm kkk := s4.addM hA12
  mstep (step_tmp (fun _ A B => addM A B) wMK s4 rfl rfl (reads_tmp wMK s4 rfl rfl) rA12 s8)
  -- 9. C11 = Wmk * Wkn
  have s9 : Shaped C11a mmm nnn := shaped_mulEven fuel cutoff hS.q.h11 s8 s7
  mstep (hS.step11 (fun C A B => mulEven fuel C A B cutoff) (reads_tmp wMK s8 rfl rfl) (reads_tmp wKN s7 rfl rfl) s9)
  replace hS := hS.set11 s9
  -- 10. Wmk = Wmk + A11
  have s10 : Shaped Wmk4 mmm kkk := s8.addM hA11
  mstep (step_tmp (fun _ A B => addM A B) wMK s8 rfl rfl (reads_tmp wMK s8 rfl rfl) rA11 s10)
  -- 11. C12 = Wmk * B12
  have s11 : Shaped C12a mmm nnn := shaped_mulEven fuel cutoff hS.q.h12 s10 hB12
  mstep (hS.step12 (fun C A B => mulEven fuel C A B cutoff) (reads_tmp wMK s10 rfl rfl) rB12 s11)
  replace hS := hS.set12 s11
  -- 12. C12 = C12 + C22
  have s12 : Shaped C12b mmm nnn := hS.q.h12.addM hS.q.h22
  mstep (hS.step12 (fun _ A B => addM A B) hS.reads12 hS.reads22 s12)
  replace hS := hS.set12 s12
  -- 13. Wmk = A12 * B21 (a fresh matrix)
  simp_z [cMulNew, nrows_ofView, ncols_ofView, Int.toNat_natCast, tdiv63, hbmask, rA12, rB21]
  have sN : Shaped W mmm nnn :=
    shaped_mulTop fuel cutoff ((Shaped.zero _ _).cast hA12.nr hB21.nc) hA12 hB21
  have sN' : Shaped W (mmm - 0) (nnn - 0) := sN.cast (by omega) (by omega)
  have wN := zero_WF (mmm - 0) (nnn - 0)
  -- 14. C11 = C11 + Wmk
  have s14 : Shaped C11b mmm nnn := hS.q.h11.addM sN
  mstep (hS.step11 (fun _ A B => addM A B) hS.reads11 (reads_tmp wN sN' rfl rfl) s14)
  replace hS := hS.set11 s14
  -- 15. C12 = C11 + C12
  have s15 : Shaped C12c mmm nnn := hS.q.h11.addM hS.q.h12
  mstep (hS.step12 (fun _ A B => addM A B) hS.reads11 hS.reads12 s15)
  replace hS := hS.set12 s15
  -- 16. C11 = C21 + C11
  have s16 : Shaped C11c mmm nnn := hS.q.h21.addM hS.q.h11
  mstep (hS.step11 (fun _ A B => addM A B) hS.reads21 hS.reads11 s16)
  replace hS := hS.set11 s16
  -- 17. Wkn = Wkn + B11
  have s17 : Shaped Wkn4 kkk nnn := s7.addM hB11
  mstep (step_tmp (fun _ A B => addM A B) wKN s7 rfl rfl (reads_tmp wKN s7 rfl rfl) rB11 s17)
  -- 18. C21 = A21 * Wkn
  have s18 : Shaped C21b mmm nnn := shaped_mulEven fuel cutoff hS.q.h21 hA21 s17
  mstep (hS.step21 (fun C A B => mulEven fuel C A B cutoff) rA21 (reads_tmp wKN s17 rfl rfl) s18)
  replace hS := hS.set21 s18
  -- 19. C21 = C11 + C21
  have s19 : Shaped C21c mmm nnn := hS.q.h11.addM hS.q.h21
  mstep (hS.step21 (fun _ A B => addM A B) hS.reads11 hS.reads21 s19)
  replace hS := hS.set21 s19
  -- 20. C22 = C22 + C11
  have s20 : Shaped C22b mmm nnn := hS.q.h22.addM hS.q.h11
  mstep (hS.step22 (fun _ A B => addM A B) hS.reads22 hS.reads11 s20)
  replace hS := hS.set22 s20
  -- 21. C11 = A11 * B11
  have s21 : Shaped C11d mmm nnn := shaped_mulEven fuel cutoff hS.q.h11 hA11 hB11
  mstep (hS.step11 (fun C A B => mulEven fuel C A B cutoff) rA11 rB11 s21)
  replace hS := hS.set11 s21
  -- 22. C11 = C11 + Wmk
  have s22 : Shaped C11e mmm nnn := hS.q.h11.addM sN
  mstep (hS.step11 (fun _ A B => addM A B) hS.reads11 (reads_tmp wN sN' rfl rfl) s22)
  replace hS := hS.set11 s22
  -- the state after the Bodrato sequence
  have eC0 : paste4 C.toB C11e C12c C21c C22b mmm nnn = C0 := rfl
  have hE0 : Shaped C0 C.nrows C.ncols := hS.q.shaped
  rw [eC0]
  clear hS eC0
  mstep1 (rfl : memOf (C.putB C0) = memOf (C.putB C0))
  have hmn : A.nrows ≤ C.nrows := by omega
  -- strip 1: the last columns
  have hX1 : Shaped (m4rm (C0.sub 0 (2 * nnn) A.nrows B.ncols) A.toB (B.toB.sub 0 (2 * nnn) A.ncols B.ncols) 0 true)
      (A.nrows - 0) (B.ncols - 2 * nnn) :=
    shaped_m4rm_mul (hE0.sub 0 (2 * nnn) A.nrows B.ncols hmn) (hAs.cast (by omega) rfl)
      ((hBs.sub 0 (2 * nnn) A.ncols B.ncols (Nat.le_refl _)).cast (by omega) rfl)
  have hE1 : Shaped C1 C.nrows C.ncols := by
    by_cases hgt : n > nnn2
    · rw [show C1 = C0.paste 0 (2 * nnn) (m4rm (C0.sub 0 (2 * nnn) A.nrows B.ncols) A.toB
        (B.toB.sub 0 (2 * nnn) A.ncols B.ncols) 0 true) from if_pos hgt]
      exact hE0.paste _ 0 (2 * nnn) (by rw [hX1.nc]; omega)
    · rw [show C1 = C0 from if_neg hgt]; exact hE0
  extract_lets +onlyGivenNames x1
  have hx1 : x1 = memOf (C.putB C1) := by
    by_cases hgt : n > nnn2
    · have hgt' : B.ncols > 2 * nnn := hgt
      have e1 : decide ((B.ncols : Int) > (nnn : Int) * 2) = true := by simp; omega
      change ite _ _ _ = _
      rw [if_pos e1]
      have eBl := mzdInitWindow_in 0 ((nnn : Int) * 2) (A.ncols : Int) (B.ncols : Int) (B.nrows : Int) rsB
        0 (2 * nnn) A.ncols B.ncols B.nrows (by omega) (by omega) (by omega) (by omega) rfl (by omega) (by omega)
        (by omega) (by omega)
      have eCl := mzdInitWindow_in 0 ((nnn : Int) * 2) (A.nrows : Int) (B.ncols : Int) (C.nrows : Int) rsC
        0 (2 * nnn) A.nrows B.ncols C.nrows (by omega) (by omega) (by omega) (by omega) rfl (by omega) (by omega)
        (by omega) (by omega)
      simp_z [eBl, eCl, cM4rm_mul]
      rw [show C1 = C0.paste 0 (2 * nnn) (m4rm (C0.sub 0 (2 * nnn) A.nrows B.ncols) A.toB
        (B.toB.sub 0 (2 * nnn) A.ncols B.ncols) 0 true) from if_pos hgt]
      exact step_win (fun C A B => m4rm C A B 0 true) hC hE0 rfl rfl 0 (2 * nnn) A.nrows B.ncols (by omega) hmn
        (by omega) (reads_whole A hA) (reads_win0 B 0 (2 * nnn) A.ncols B.ncols (by omega) (by omega) (Nat.le_refl _))
        hX1
    · have hgt' : ¬ B.ncols > 2 * nnn := hgt
      have e1 : ¬ decide ((B.ncols : Int) > (nnn : Int) * 2) = true := by simp; omega
      change ite _ _ _ = _
      rw [if_neg e1, show C1 = C0 from if_neg hgt]
  clear_value x1
  subst hx1
  -- strip 2: the last rows
  have hX2 : Shaped (m4rm (C1.sub (2 * mmm) 0 A.nrows (2 * nnn)) (A.toB.sub (2 * mmm) 0 A.nrows A.ncols)
      (B.toB.sub 0 0 A.ncols (2 * nnn)) 0 true) (A.nrows - 2 * mmm) (2 * nnn - 0) :=
    shaped_m4rm_mul (hE1.sub (2 * mmm) 0 A.nrows (2 * nnn) hmn)
      ((hAs.sub (2 * mmm) 0 A.nrows A.ncols (Nat.le_refl _)).cast rfl (by omega))
      ((hBs.sub 0 0 A.ncols (2 * nnn) (Nat.le_refl _)).cast (by omega) rfl)
  have hE2 : Shaped C2 C.nrows C.ncols := by
    by_cases hgt : m > mmm2
    · rw [show C2 = C1.paste (2 * mmm) 0 (m4rm (C1.sub (2 * mmm) 0 A.nrows (2 * nnn))
        (A.toB.sub (2 * mmm) 0 A.nrows A.ncols) (B.toB.sub 0 0 A.ncols (2 * nnn)) 0 true) from if_pos hgt]
      exact hE1.paste _ (2 * mmm) 0 (by rw [hX2.nc]; omega)
    · rw [show C2 = C1 from if_neg hgt]; exact hE1
  extract_lets +onlyGivenNames x2
  have hx2 : x2 = memOf (C.putB C2) := by
    by_cases hgt : m > mmm2
    · have hgt' : A.nrows > 2 * mmm := hgt
      have e1 : decide ((A.nrows : Int) > (mmm : Int) * 2) = true := by simp; omega
      change ite _ _ _ = _
      rw [if_pos e1]
      have eAl := mzdInitWindow_in ((mmm : Int) * 2) 0 (A.nrows : Int) (A.ncols : Int) (A.nrows : Int) rsA
        (2 * mmm) 0 A.nrows A.ncols A.nrows (by omega) (by omega) (by omega) (by omega) rfl (by omega) (by omega)
        (by omega) (by omega)
      have eBl := mzdInitWindow_in 0 0 (A.ncols : Int) ((nnn : Int) * 2) (B.nrows : Int) rsB
        0 0 A.ncols (2 * nnn) B.nrows (by omega) (by omega) (by omega) (by omega) rfl (by omega) (by omega)
        (by omega) (by omega)
      have eCl := mzdInitWindow_in ((mmm : Int) * 2) 0 (A.nrows : Int) ((nnn : Int) * 2) (C.nrows : Int) rsC
        (2 * mmm) 0 A.nrows (2 * nnn) C.nrows (by omega) (by omega) (by omega) (by omega) rfl (by omega) (by omega)
        (by omega) (by omega)
      simp_z [eAl, eBl, eCl, cM4rm_mul]
      rw [show C2 = C1.paste (2 * mmm) 0 (m4rm (C1.sub (2 * mmm) 0 A.nrows (2 * nnn))
        (A.toB.sub (2 * mmm) 0 A.nrows A.ncols) (B.toB.sub 0 0 A.ncols (2 * nnn)) 0 true) from if_pos hgt]
      exact step_win (fun C A B => m4rm C A B 0 true) hC hE1 rfl rfl (2 * mmm) 0 A.nrows (2 * nnn) rfl hmn
        (by omega) (reads_win0 A (2 * mmm) 0 A.nrows A.ncols rfl (Nat.le_refl _) (Nat.le_refl _))
        (reads_win0 B 0 0 A.ncols (2 * nnn) rfl (by omega) (by omega)) hX2
    · have hgt' : ¬ A.nrows > 2 * mmm := hgt
      have e1 : ¬ decide ((A.nrows : Int) > (mmm : Int) * 2) = true := by simp; omega
      change ite _ _ _ = _
      rw [if_neg e1, show C2 = C1 from if_neg hgt]
  clear_value x2
  subst hx2
  -- strip 3: the last inner indices
  extract_lets +onlyGivenNames x3
  have hx3 : x3 = memOf (C.putB R) := by
    rw [← hR]
    by_cases hgt : k > kkk2
    · have hgt' : A.ncols > 2 * kkk := hgt
      have e1 : decide ((A.ncols : Int) > (kkk : Int) * 2) = true := by simp; omega
      change ite _ _ _ = _
      rw [if_pos e1, if_pos hgt]
      have eAl := mzdInitWindow_in 0 ((kkk : Int) * 2) ((mmm : Int) * 2) (A.ncols : Int) (A.nrows : Int) rsA
        0 (2 * kkk) (2 * mmm) A.ncols A.nrows (by omega) (by omega) (by omega) (by omega) rfl (by omega) (by omega)
        (by omega) (by omega)
      have eBl := mzdInitWindow_in ((kkk : Int) * 2) 0 (A.ncols : Int) ((nnn : Int) * 2) (B.nrows : Int) rsB
        (2 * kkk) 0 A.ncols (2 * nnn) B.nrows (by omega) (by omega) (by omega) (by omega) rfl (by omega) (by omega)
        (by omega) (by omega)
      have eCl := mzdInitWindow_in 0 0 ((mmm : Int) * 2) ((nnn : Int) * 2) (C.nrows : Int) rsC
        0 0 (2 * mmm) (2 * nnn) C.nrows (by omega) (by omega) (by omega) (by omega) rfl (by omega) (by omega)
        (by omega) (by omega)
      simp_z [eAl, eBl, eCl, cAddmulM4rm_zero]
      have hCb : Shaped (C2.sub 0 0 (2 * mmm) (2 * nnn)) (2 * mmm - 0) (2 * nnn - 0) :=
        hE2.sub 0 0 (2 * mmm) (2 * nnn) (by omega)
      have hAl : Shaped (A.toB.sub 0 (2 * kkk) (2 * mmm) A.ncols) (2 * mmm - 0) (A.ncols - 2 * kkk) :=
        hAs.sub 0 (2 * kkk) (2 * mmm) A.ncols (by omega)
      have hBl : Shaped (B.toB.sub (2 * kkk) 0 A.ncols (2 * nnn)) (A.ncols - 2 * kkk) (2 * nnn - 0) :=
        hBs.sub (2 * kkk) 0 A.ncols (2 * nnn) (Nat.le_refl _)
      have hX3 : Shaped ((fun C A B : BMat => if C.ncols = 0 ∨ C.nrows = 0 then C else m4rm C A B 0 false)
          (C2.sub 0 0 (2 * mmm) (2 * nnn)) (A.toB.sub 0 (2 * kkk) (2 * mmm) A.ncols)
          (B.toB.sub (2 * kkk) 0 A.ncols (2 * nnn))) (2 * mmm - 0) (2 * nnn - 0) := by
        dsimp only
        split
        · exact hCb
        · exact shaped_m4rm_addmul hCb hAl hBl
      have key := step_win (fun C A B => if C.ncols = 0 ∨ C.nrows = 0 then C else m4rm C A B 0 false) hC hE2 rfl rfl
        0 0 (2 * mmm) (2 * nnn) rfl (by omega) (by omega)
        (reads_win0 A 0 (2 * kkk) (2 * mmm) A.ncols (by omega) (by omega) (Nat.le_refl _))
        (reads_win0 B (2 * kkk) 0 A.ncols (2 * nnn) rfl (by omega) (by omega)) hX3
      refine key.trans ?_
      congr 2
      by_cases hemp : (C2.sub 0 0 (2 * mmm) (2 * nnn)).ncols = 0 ∨ (C2.sub 0 0 (2 * mmm) (2 * nnn)).nrows = 0
      · rw [if_pos hemp, if_pos hemp]
        exact hE2.paste_sub_self 0 0 (2 * mmm) (2 * nnn) (by omega) (by omega) (by omega)
      · rw [if_neg hemp, if_neg hemp]
        rfl
    · have hgt' : ¬ A.ncols > 2 * kkk := hgt
      have e1 : ¬ decide ((A.ncols : Int) > (kkk : Int) * 2) = true := by simp; omega
      change ite _ _ _ = _
      rw [if_neg e1, if_neg hgt]
  exact hx3

/-- **early return**: an empty destination -/
theorem strassenMulEven_empty (fuel cutoff : Nat) (rsA rsB rsC : Int) (fA fB fC : BitVec 8) (C A B : Mzd) (hC : C.WF)
    (h0 : C.nrows = 0 ∨ C.ncols = 0)
    (f1 : CLoop.MView → (Int → Int → BitVec 64) × Int × Int)
    (f2 : CLoop.MView → CLoop.MView → CLoop.MView → Int → Int → (Int → Int → BitVec 64))
    (f3 : CLoop.MView → CLoop.MView → (Int → Int → BitVec 64))
    (f4 : CLoop.MView → CLoop.MView → CLoop.MView → (Int → Int → BitVec 64))
    (f5 : CLoop.MView → CLoop.MView → CLoop.MView → Int → (Int → Int → BitVec 64))
    (f6 : CLoop.MView → CLoop.MView → Int → (Int → Int → BitVec 64) × Int × Int)
    (f7 : CLoop.MView → CLoop.MView → CLoop.MView → Int → (Int → Int → BitVec 64)) :
    Gen.C.strassenMulEven cutoff (memOf C) C.nrows C.ncols A.nrows A.ncols B.ncols fA fB fC (memOf A) A.width A.hb
      f1 (memOf B) B.nrows B.width B.hb f2 C.width C.hb f3 rsA rsB rsC f4 f5 f6 f7
    = memOf (C.putB (mulEven (fuel + 1) C.toB A.toB B.toB cutoff)) := by
  unfold Gen.C.strassenMulEven
  rw [mulEven.eq_1, if_pos (by simpa using h0)]
  zeta_n 3
  rw [if_pos (by simpa using h0), Mzd.putB_toB hC]

/-- **ONE STEP of `_mzd_mul_even`**: with the callees instantiated by the model's operations (the recursive
    calls by the model at `fuel`), the generated function computes the model's step at `fuel + 1` through the
    lens — for all flags (windowed operands or not), all cutoffs, all conforming shapes -/
theorem strassenMulEven_step (fuel cutoff : Nat) (rsA rsB rsC : Int) (fA fB fC : BitVec 8) (C A B : Mzd) (hC : C.WF)
    (hA : A.WF) (hB : B.WF) (hk : A.ncols = B.nrows) (hr : C.nrows = A.nrows) (hc : C.ncols = B.ncols) :
    Gen.C.strassenMulEven cutoff (memOf C) C.nrows C.ncols A.nrows A.ncols B.ncols fA fB fC (memOf A) A.width A.hb
      cCopyNew (memOf B) B.nrows B.width B.hb cM4rm C.width C.hb cCopy rsA rsB rsC cAdd (cMulEven fuel)
      (cMulNew fuel) cAddmulM4rm
    = memOf (C.putB (mulEven (fuel + 1) C.toB A.toB B.toB cutoff)) := by
  by_cases h0 : C.nrows = 0 ∨ C.ncols = 0
  · exact strassenMulEven_empty fuel cutoff rsA rsB rsC fA fB fC C A B hC h0 _ _ _ _ _ _ _
  by_cases hcl : BMat.closer A.nrows cutoff = true ∨ BMat.closer A.ncols cutoff = true ∨
      BMat.closer B.ncols cutoff = true
  · exact strassenMulEven_base fuel cutoff rsA rsB rsC fA fB fC C A B hC hA hB hk hr hc h0 hcl
  · exact strassenMulEven_split fuel cutoff rsA rsB rsC fA fB fC C A B hC hA hB hk hr hc h0 hcl

/-- the non-window instance asked for: all three `flags` fields are `0` -/
theorem strassenMulEven_step_flags0 (fuel cutoff : Nat) (rsA rsB rsC : Int) (C A B : Mzd) (hC : C.WF)
    (hA : A.WF) (hB : B.WF) (hk : A.ncols = B.nrows) (hr : C.nrows = A.nrows) (hc : C.ncols = B.ncols) :
    Gen.C.strassenMulEven cutoff (memOf C) C.nrows C.ncols A.nrows A.ncols B.ncols 0 0 0 (memOf A) A.width A.hb
      cCopyNew (memOf B) B.nrows B.width B.hb cM4rm C.width C.hb cCopy rsA rsB rsC cAdd (cMulEven fuel)
      (cMulNew fuel) cAddmulM4rm
    = memOf (C.putB (mulEven (fuel + 1) C.toB A.toB B.toB cutoff)) :=
  strassenMulEven_step fuel cutoff rsA rsB rsC 0 0 0 C A B hC hA hB hk hr hc

/-- … and what the step computes: the product, through the lens -/
theorem strassenMulEven_step_mul (fuel cutoff : Nat) (rsA rsB rsC : Int) (fA fB fC : BitVec 8) (C A B : Mzd)
    (hC : C.WF) (hA : A.WF) (hB : B.WF) (hk : A.ncols = B.nrows) (hr : C.nrows = A.nrows) (hc : C.ncols = B.ncols) :
    Gen.C.strassenMulEven cutoff (memOf C) C.nrows C.ncols A.nrows A.ncols B.ncols fA fB fC (memOf A) A.width A.hb
      cCopyNew (memOf B) B.nrows B.width B.hb cM4rm C.width C.hb cCopy rsA rsB rsC cAdd (cMulEven fuel)
      (cMulNew fuel) cAddmulM4rm
    = memOf (C.putB (A.toB.mul B.toB)) := by
  rw [strassenMulEven_step fuel cutoff rsA rsB rsC fA fB fC C A B hC hA hB hk hr hc]
  have e : mulEven (fuel + 1) C.toB A.toB B.toB cutoff = A.toB.mul B.toB :=
    (mulAllP (fuel + 1)).1 cutoff (r := A.nrows) (k := A.ncols) (c := B.ncols) ⟨Mzd.WF_toB hC, hr, hc⟩
      ⟨Mzd.WF_toB hA, rfl, rfl⟩ ⟨Mzd.WF_toB hB, hk.symm, rfl⟩
  rw [e]

/-- non-vacuity of the hypotheses of `strassenMulEven_split` (one Strassen level at cutoff 64 with all three
    remainder strips) -/
example : ∃ C A B : Mzd, C.WF ∧ A.WF ∧ B.WF ∧ A.ncols = B.nrows ∧ C.nrows = A.nrows ∧ C.ncols = B.ncols ∧
    ¬ (C.nrows = 0 ∨ C.ncols = 0) ∧
    ¬ (BMat.closer A.nrows 64 = true ∨ BMat.closer A.ncols 64 = true ∨ BMat.closer B.ncols 64 = true) :=
  ⟨Mzd.zero 130 200, Mzd.zero 130 150, Mzd.zero 150 200, zero_WF _ _, zero_WF _ _, zero_WF _ _, rfl, rfl, rfl,
    by decide, by decide⟩

end M4ri.GenTieStrassen

#print axioms M4ri.GenTieStrassen.strassenMulEven_step
#print axioms M4ri.GenTieStrassen.strassenMulEven_step_flags0
#print axioms M4ri.GenTieStrassen.strassenMulEven_step_mul
#print axioms M4ri.GenTieStrassen.strassenMulEven_split
#print axioms M4ri.GenTieStrassen.strassenMulEven_base
