/-
  GenTieMul: the PUBLIC entry points of strassen.c for a supplied destination — the generated `Gen.C.mzdMul`
  (`mzd_mul(C, A, B, cutoff)`), `Gen.C.mzdAddmulDispatch` (`_mzd_addmul`) and `Gen.C.mzdAddmul`
  (`mzd_addmul(C, A, B, cutoff)`) — tied to the products.

  The recursive-call parameters of the two translated Strassen routines that the entry points dispatch to are bound
  to THE CLOSED RECURSION `cStrassen hd n` of `GenTieClose3` (the mutual C recursion unrolled `n` levels), the other
  callees to the model lifts (`cCopyNew`, `cM4rm`, `cCopy`, `cAdd`, `cMulNew n`, `cAddmulM4rm`), exactly as inside
  `cStrassen hd (n + 1)`; flags and row strides of the three operands are ARBITRARY.

  §0  the cut-off normalisation: `strassenCutoff_eq` (the `__M4RI_STRASSEN_MUL_CUTOFF` numeral is 4096),
      `cutoffNorm`, `cutoffNormI_nat`
  §1  the four generated Strassen routines one level above the closed recursion, arbitrary flags / strides
      (`mulEven_closed`, `addmulEven_closed`, `sqrEven_closed`, `addsqrEven_closed`)
  §2  `mzdMul_correct`, `mzdMul_same_correct`, `mzdMul_eq_cStrassen_mul`, `mzdMul_eq_cStrassen_sqr`
  §3  `mzdAddmulDispatch_correct`, `mzdAddmulDispatch_same_correct`
  §4  `mzdAddmul_correct`, `mzdAddmul_same_correct`, `mzdAddmul_early` (the early return leaves `C` unchanged,
      and `C + A·B = C` then)
  Core Lean tactics only.
-/
import M4riProofs.GenTieClose3
set_option linter.unusedVariables false
namespace M4ri.GenTieMul
open M4ri M4ri.Gen M4ri.GenTieMem M4ri.GenTieView M4ri.BMat M4ri.GenTieAlg M4ri.GenTieStrassen
  M4ri.GenTieStrassen2 M4ri.GenTieClose M4ri.GenTieClose3

/-! ### 0. the cut-off normalisation -/

/-- `__M4RI_STRASSEN_MUL_CUTOFF = MIN(((int)sqrt((double)(4 * __M4RI_CPU_L3_CACHE))), 4096)` is 4096 in the
    translated configuration (`__M4RI_CPU_L3_CACHE = 56623104`: `⌊√226492416⌋ = 15049`) -/
theorem strassenCutoff_eq : (if (decide ((Int.ofNat (Nat.sqrt (((4 : Int) * (56623104 : Int))).toNat)) < (4096 : Int))) then (Int.ofNat (Nat.sqrt (((4 : Int) * (56623104 : Int))).toNat)) else (4096 : Int)) = 4096 := by
  decide +kernel

/-- the normalised cut-off of `mzd_mul` / `mzd_addmul`: `0` means the default 4096; rounded down to a multiple of
    64; at least 64 -/
def cutoffNorm (c : Nat) : Nat := max 64 ((if c = 0 then 4096 else c) / 64 * 64)

/-- the normalisation as the generated text performs it (on `int`) -/
def cutoffNormI (c : Int) : Int :=
  let c1 : Int := if c = 0 then 4096 else c
  let c2 : Int := Int.tdiv c1 64 * 64
  if c2 < 64 then 64 else c2

theorem cutoffNormI_nat (c : Nat) : cutoffNormI (c : Int) = ((cutoffNorm c : Nat) : Int) := by
  unfold cutoffNormI cutoffNorm
  by_cases h0 : c = 0
  · subst h0; decide
  · have h0' : ¬ ((c : Int) = 0) := by omega
    simp only [if_neg h0, if_neg h0']
    rw [show Int.tdiv (c : Int) 64 = ((c / 64 : Nat) : Int) from (GenTie.tdiv_nat c 64).symm]
    by_cases h : c / 64 * 64 < 64
    · rw [if_pos (by omega)]; omega
    · rw [if_neg (by omega)]; omega

theorem cutoffNorm_ge (c : Nat) : 64 ≤ cutoffNorm c := by unfold cutoffNorm; omega
theorem cutoffNorm_mod (c : Nat) : cutoffNorm c % 64 = 0 := by unfold cutoffNorm; omega
theorem cutoffNorm_zero : cutoffNorm 0 = 4096 := by decide
theorem cutoffNorm_le (c : Nat) (h : 64 ≤ c) : cutoffNorm c ≤ c ∧ c < cutoffNorm c + 64 := by
  unfold cutoffNorm; rw [if_neg (by omega)]; omega

/-! ### 1. the four generated routines one level above the closed recursion (arbitrary flags and strides) -/

theorem mulEven_closed (hd : Hdr) (n cutoff : Nat) (rsA rsB rsC : Int) (fA fB fC : BitVec 8) (C A B : Mzd)
    (hC : C.WF) (hA : A.WF) (hB : B.WF) (hk : A.ncols = B.nrows) (hr : C.nrows = A.nrows)
    (hc : C.ncols = B.ncols) :
    Gen.C.strassenMulEven cutoff (memOf C) C.nrows C.ncols A.nrows A.ncols B.ncols fA fB fC (memOf A) A.width A.hb
      cCopyNew (memOf B) B.nrows B.width B.hb cM4rm C.width C.hb cCopy rsA rsB rsC cAdd (cStrassen hd n).mul
      (cMulNew n) cAddmulM4rm
    = memOf (C.putB (A.toB.mul B.toB)) := by
  rw [← strassenMulEven_step_mul n cutoff rsA rsB rsC fA fB fC C A B hC hA hB hk hr hc]
  have hwC : C.width = (B.ncols + 63) / 64 := by rw [width_eq, hc]
  have hbC : C.hb = leftMask (B.ncols % 64) := by rw [hb_eq, hc]
  rw [hr, hc, ← hk, hwC, hbC, width_eq A, hb_eq A, width_eq B, hb_eq B]
  exact strassenMulEven_callee_congr n cutoff _ _ _ _ _ _ A.nrows A.ncols B.ncols (memOf C) (memOf A) (memOf B)
    _ _ (cStrassen_raw hd cutoff n).1.mul

theorem addmulEven_closed (hd : Hdr) (n cutoff : Nat) (rsA rsB rsC : Int) (fA fB fC : BitVec 8) (C A B : Mzd)
    (hC : C.WF) (hA : A.WF) (hB : B.WF) (hk : A.ncols = B.nrows) (hr : C.nrows = A.nrows)
    (hc : C.ncols = B.ncols) :
    Gen.C.strassenAddmulEven cutoff (memOf C) C.nrows C.ncols A.nrows A.ncols B.ncols fA fB fC (memOf A) A.width
      A.hb cCopyNew (memOf B) B.nrows B.width B.hb C.width C.hb cAddmulM4rm cCopy rsA rsB rsC cAdd
      (cStrassen hd n).mul (cStrassen hd n).addmul
    = memOf (C.putB (C.toB.add (A.toB.mul B.toB))) := by
  rw [← strassenAddmulEven_step_add n cutoff rsA rsB rsC fA fB fC C A B hC hA hB hk hr hc]
  have hwC : C.width = (B.ncols + 63) / 64 := by rw [width_eq, hc]
  have hbC : C.hb = leftMask (B.ncols % 64) := by rw [hb_eq, hc]
  rw [hr, hc, ← hk, hwC, hbC, width_eq A, hb_eq A, width_eq B, hb_eq B]
  exact strassenAddmulEven_callee_congr n cutoff _ _ _ _ _ _ A.nrows A.ncols B.ncols (memOf C) (memOf A)
    (memOf B) _ _ _ _ (cStrassen_raw hd cutoff n).1.mul (cStrassen_raw hd cutoff n).2.1.addmul

theorem sqrEven_closed (hd : Hdr) (n cutoff : Nat) (rsA rsC : Int) (fA fC : BitVec 8) (C A : Mzd)
    (hC : C.WF) (hA : A.WF) (hsq : A.ncols = A.nrows) (hr : C.nrows = A.nrows) (hc : C.ncols = A.nrows) :
    Gen.C.strassenSqrEven cutoff (memOf C) A.nrows fA fC (memOf A) A.ncols A.width A.hb cCopyNew cM4rm C.nrows
      C.ncols C.width C.hb cCopy rsA rsC cAdd (cStrassen hd n).sqr (cStrassen hd n).mul (cMulNew n) cAddmulM4rm
    = memOf (C.putB (A.toB.mul A.toB)) := by
  rw [← strassenSqrEven_step_mul n cutoff rsA rsC fA fC C A hC hA hsq hr hc]
  have hwC : C.width = (A.nrows + 63) / 64 := by rw [width_eq, hc]
  have hbC : C.hb = leftMask (A.nrows % 64) := by rw [hb_eq, hc]
  have hwA : A.width = (A.nrows + 63) / 64 := by rw [width_eq, hsq]
  have hbA : A.hb = leftMask (A.nrows % 64) := by rw [hb_eq, hsq]
  rw [hr, hc, hsq, hwC, hbC, hwA, hbA]
  exact strassenSqrEven_callee_congr n cutoff _ _ _ _ A.nrows (memOf C) (memOf A) _ _ _ _
    (cStrassen_raw hd cutoff n).2.2.1.sqr (cStrassen_raw hd cutoff n).1.mul

theorem addsqrEven_closed (hd : Hdr) (n cutoff : Nat) (rsA rsC : Int) (fA fC : BitVec 8) (C A : Mzd)
    (hC : C.WF) (hA : A.WF) (hsq : A.ncols = A.nrows) (hr : C.nrows = A.nrows) (hc : C.ncols = A.nrows) :
    Gen.C.strassenAddsqrEven cutoff (memOf C) C.nrows A.nrows fA fC C.ncols C.width C.hb cCopyNew (memOf A)
      A.ncols A.width A.hb cAddmulM4rm cCopy rsA rsC cAdd (cStrassen hd n).sqr (cStrassen hd n).mul
      (cStrassen hd n).addsqr (cStrassen hd n).addmul
    = memOf (C.putB (C.toB.add (A.toB.mul A.toB))) := by
  rw [← strassenAddsqrEven_step_add n cutoff rsA rsC fA fC C A hC hA hsq hr hc]
  have hwC : C.width = (A.nrows + 63) / 64 := by rw [width_eq, hc]
  have hbC : C.hb = leftMask (A.nrows % 64) := by rw [hb_eq, hc]
  have hwA : A.width = (A.nrows + 63) / 64 := by rw [width_eq, hsq]
  have hbA : A.hb = leftMask (A.nrows % 64) := by rw [hb_eq, hsq]
  rw [hr, hc, hsq, hwC, hbC, hwA, hbA]
  exact strassenAddsqrEven_callee_congr n cutoff _ _ _ _ A.nrows (memOf C) (memOf A) _ _ _ _ _ _ _ _
    (cStrassen_raw hd cutoff n).2.2.1.sqr (cStrassen_raw hd cutoff n).1.mul
    (cStrassen_raw hd cutoff n).2.2.2.addsqr (cStrassen_raw hd cutoff n).2.1.addmul

/-! ### 2. `mzd_mul(C, A, B, cutoff)` -/

/-- the generated `mzd_mul`: the cut-off normalisation, then the dispatch (every argument arbitrary) -/
theorem mzdMul_unfold (v_cutoff : Int) (v_mem_C : Mem) (v_A_ncols v_B_nrows : Int) (same : Bool) (v_A_nrows : Int)
    (v_A_flags v_C_flags : BitVec 8) (v_mem_A : Mem) (v_A_width : Int) (v_A_hb : BitVec 64)
    (f_copy_new : CLoop.MView → Mem × Int × Int)
    (f_m4rm : CLoop.MView → CLoop.MView → CLoop.MView → Int → Int → Mem) (v_C_nrows v_C_ncols v_C_width : Int)
    (v_C_hb : BitVec 64) (f_copy : CLoop.MView → CLoop.MView → Mem) (v_A_rs v_C_rs : Int)
    (f_add : CLoop.MView → CLoop.MView → CLoop.MView → Mem) (f_sqr : CLoop.MView → CLoop.MView → Int → Mem)
    (f_mul : CLoop.MView → CLoop.MView → CLoop.MView → Int → Mem)
    (f_mul_new : CLoop.MView → CLoop.MView → Int → Mem × Int × Int)
    (f_addmul_m4rm : CLoop.MView → CLoop.MView → CLoop.MView → Int → Mem) (v_B_ncols : Int) (v_B_flags : BitVec 8)
    (v_mem_B : Mem) (v_B_width : Int) (v_B_hb : BitVec 64) (v_B_rs : Int) :
    Gen.C.mzdMul v_cutoff v_mem_C v_A_ncols v_B_nrows same v_A_nrows v_A_flags v_C_flags v_mem_A v_A_width v_A_hb
      f_copy_new f_m4rm v_C_nrows v_C_ncols v_C_width v_C_hb f_copy v_A_rs v_C_rs f_add f_sqr f_mul f_mul_new
      f_addmul_m4rm v_B_ncols v_B_flags v_mem_B v_B_width v_B_hb v_B_rs
    = if same then
        Gen.C.strassenSqrEven (cutoffNormI v_cutoff) v_mem_C v_A_nrows v_A_flags v_C_flags v_mem_A v_A_ncols
          v_A_width v_A_hb f_copy_new f_m4rm v_C_nrows v_C_ncols v_C_width v_C_hb f_copy v_A_rs v_C_rs f_add f_sqr
          f_mul f_mul_new f_addmul_m4rm
      else
        Gen.C.strassenMulEven (cutoffNormI v_cutoff) v_mem_C v_C_nrows v_C_ncols v_A_nrows v_A_ncols v_B_ncols
          v_A_flags v_B_flags v_C_flags v_mem_A v_A_width v_A_hb f_copy_new v_mem_B v_B_nrows v_B_width v_B_hb
          f_m4rm v_C_width v_C_hb f_copy v_A_rs v_B_rs v_C_rs f_add f_mul f_mul_new f_addmul_m4rm := by
  unfold Gen.C.mzdMul cutoffNormI
  simp only [strassenCutoff_eq]
  simp only [decide_eq_true_eq]

/-- **`mzd_mul(C, A, B, cutoff)`, `A` and `B` different objects: `C := A·B`** — for every depth `n` of the closed
    recursion, every cut-off, every choice of flags and row strides -/
theorem mzdMul_correct (hd : Hdr) (n cutoff : Nat) (rsA rsB rsC : Int) (fA fB fC : BitVec 8) (C A B : Mzd)
    (hC : C.WF) (hA : A.WF) (hB : B.WF) (hk : A.ncols = B.nrows) (hr : C.nrows = A.nrows)
    (hc : C.ncols = B.ncols) :
    Gen.C.mzdMul cutoff (memOf C) A.ncols B.nrows false A.nrows fA fC (memOf A) A.width A.hb cCopyNew cM4rm
      C.nrows C.ncols C.width C.hb cCopy rsA rsC cAdd (cStrassen hd n).sqr (cStrassen hd n).mul (cMulNew n)
      cAddmulM4rm B.ncols fB (memOf B) B.width B.hb rsB
    = memOf (C.putB (A.toB.mul B.toB)) := by
  rw [mzdMul_unfold, cutoffNormI_nat]
  exact mulEven_closed hd n (cutoffNorm cutoff) rsA rsB rsC fA fB fC C A B hC hA hB hk hr hc

/-- **`mzd_mul(C, A, A, cutoff)`, both factors the same object: `C := A·A`** (the generated code then reads only
    `A`'s memory and fields: the arguments that describe `B` are arbitrary) -/
theorem mzdMul_same_correct (hd : Hdr) (n cutoff : Nat) (rsA rsB rsC : Int) (fA fB fC : BitVec 8) (C A : Mzd)
    (hC : C.WF) (hA : A.WF) (hsq : A.ncols = A.nrows) (hr : C.nrows = A.nrows) (hc : C.ncols = A.nrows)
    (nrB ncB wB : Int) (hbB : BitVec 64) (mB : Mem) :
    Gen.C.mzdMul cutoff (memOf C) A.ncols nrB true A.nrows fA fC (memOf A) A.width A.hb cCopyNew cM4rm
      C.nrows C.ncols C.width C.hb cCopy rsA rsC cAdd (cStrassen hd n).sqr (cStrassen hd n).mul (cMulNew n)
      cAddmulM4rm ncB fB mB wB hbB rsB
    = memOf (C.putB (A.toB.mul A.toB)) := by
  rw [mzdMul_unfold, cutoffNormI_nat]
  exact sqrEven_closed hd n (cutoffNorm cutoff) rsA rsC fA fC C A hC hA hsq hr hc

/-- `mzd_mul` IS the closed recursion one level up, at the normalised cut-off (flags and strides from the header
    oracle): the `A ≠ B` route -/
theorem mzdMul_eq_cStrassen_mul (hd : Hdr) (n : Nat) (cutoff : Int) (C A B : CLoop.MView) :
    Gen.C.mzdMul cutoff C.mem A.ncols B.nrows false A.nrows (hd.flags n A) (hd.flags n C) A.mem A.width A.hb
      cCopyNew cM4rm C.nrows C.ncols C.width C.hb cCopy (hd.stride n A) (hd.stride n C) cAdd (cStrassen hd n).sqr
      (cStrassen hd n).mul (cMulNew n) cAddmulM4rm B.ncols (hd.flags n B) B.mem B.width B.hb (hd.stride n B)
    = (cStrassen hd (n + 1)).mul C A B (cutoffNormI cutoff) := by
  rw [mzdMul_unfold, cStrassen_mul_succ]; rfl

/-- … and the `A == B` route -/
theorem mzdMul_eq_cStrassen_sqr (hd : Hdr) (n : Nat) (cutoff : Int) (C A B : CLoop.MView) :
    Gen.C.mzdMul cutoff C.mem A.ncols B.nrows true A.nrows (hd.flags n A) (hd.flags n C) A.mem A.width A.hb
      cCopyNew cM4rm C.nrows C.ncols C.width C.hb cCopy (hd.stride n A) (hd.stride n C) cAdd (cStrassen hd n).sqr
      (cStrassen hd n).mul (cMulNew n) cAddmulM4rm B.ncols (hd.flags n B) B.mem B.width B.hb (hd.stride n B)
    = (cStrassen hd (n + 1)).sqr C A (cutoffNormI cutoff) := by
  rw [mzdMul_unfold, cStrassen_sqr_succ]; rfl

/-! ### 3. `_mzd_addmul(C, A, B, cutoff)` -/

/-- **`_mzd_addmul`, `A` and `B` different objects: `C := C + A·B`** (no normalisation: any cut-off) -/
theorem mzdAddmulDispatch_correct (hd : Hdr) (n cutoff : Nat) (rsA rsB rsC : Int) (fA fB fC : BitVec 8)
    (C A B : Mzd) (hC : C.WF) (hA : A.WF) (hB : B.WF) (hk : A.ncols = B.nrows) (hr : C.nrows = A.nrows)
    (hc : C.ncols = B.ncols) :
    Gen.C.mzdAddmulDispatch cutoff (memOf C) false C.nrows A.nrows fA fC C.ncols C.width C.hb cCopyNew (memOf A)
      A.ncols A.width A.hb cAddmulM4rm cCopy rsA rsC cAdd (cStrassen hd n).sqr (cStrassen hd n).mul
      (cStrassen hd n).addsqr (cStrassen hd n).addmul B.ncols fB (memOf B) B.nrows B.width B.hb rsB
    = memOf (C.putB (C.toB.add (A.toB.mul B.toB))) := by
  unfold Gen.C.mzdAddmulDispatch
  simp only [Bool.false_eq_true, if_false]
  exact addmulEven_closed hd n cutoff rsA rsB rsC fA fB fC C A B hC hA hB hk hr hc

/-- **`_mzd_addmul`, both factors the same object: `C := C + A·A`** -/
theorem mzdAddmulDispatch_same_correct (hd : Hdr) (n cutoff : Nat) (rsA rsB rsC : Int) (fA fB fC : BitVec 8)
    (C A : Mzd) (hC : C.WF) (hA : A.WF) (hsq : A.ncols = A.nrows) (hr : C.nrows = A.nrows)
    (hc : C.ncols = A.nrows) (nrB ncB wB : Int) (hbB : BitVec 64) (mB : Mem) :
    Gen.C.mzdAddmulDispatch cutoff (memOf C) true C.nrows A.nrows fA fC C.ncols C.width C.hb cCopyNew (memOf A)
      A.ncols A.width A.hb cAddmulM4rm cCopy rsA rsC cAdd (cStrassen hd n).sqr (cStrassen hd n).mul
      (cStrassen hd n).addsqr (cStrassen hd n).addmul ncB fB mB nrB wB hbB rsB
    = memOf (C.putB (C.toB.add (A.toB.mul A.toB))) := by
  unfold Gen.C.mzdAddmulDispatch
  simp only [if_true]
  exact addsqrEven_closed hd n cutoff rsA rsC fA fC C A hC hA hsq hr hc

/-! ### 4. `mzd_addmul(C, A, B, cutoff)` -/

/-- the generated `mzd_addmul`: the cut-off normalisation, the early return, then `_mzd_addmul` -/
theorem mzdAddmul_unfold (v_cutoff : Int) (v_mem_C : Mem) (v_A_ncols v_B_nrows v_A_nrows v_B_ncols : Int)
    (same : Bool) (v_C_nrows : Int) (v_A_flags v_C_flags : BitVec 8) (v_C_ncols v_C_width : Int)
    (v_C_hb : BitVec 64) (f_copy_new : CLoop.MView → Mem × Int × Int) (v_mem_A : Mem) (v_A_width : Int)
    (v_A_hb : BitVec 64) (f_addmul_m4rm : CLoop.MView → CLoop.MView → CLoop.MView → Int → Mem)
    (f_copy : CLoop.MView → CLoop.MView → Mem) (v_A_rs v_C_rs : Int)
    (f_add : CLoop.MView → CLoop.MView → CLoop.MView → Mem) (f_sqr : CLoop.MView → CLoop.MView → Int → Mem)
    (f_mul : CLoop.MView → CLoop.MView → CLoop.MView → Int → Mem) (f_addsqr : CLoop.MView → CLoop.MView → Int → Mem)
    (f_addmul : CLoop.MView → CLoop.MView → CLoop.MView → Int → Mem) (v_B_flags : BitVec 8) (v_mem_B : Mem)
    (v_B_width : Int) (v_B_hb : BitVec 64) (v_B_rs : Int) :
    Gen.C.mzdAddmul v_cutoff v_mem_C v_A_ncols v_B_nrows v_A_nrows v_B_ncols same v_C_nrows v_A_flags v_C_flags
      v_C_ncols v_C_width v_C_hb f_copy_new v_mem_A v_A_width v_A_hb f_addmul_m4rm f_copy v_A_rs v_C_rs f_add f_sqr
      f_mul f_addsqr f_addmul v_B_flags v_mem_B v_B_width v_B_hb v_B_rs
    = if v_A_nrows = 0 ∨ v_A_ncols = 0 ∨ v_B_ncols = 0 then v_mem_C
      else
        Gen.C.mzdAddmulDispatch (cutoffNormI v_cutoff) v_mem_C same v_C_nrows v_A_nrows v_A_flags v_C_flags
          v_C_ncols v_C_width v_C_hb f_copy_new v_mem_A v_A_ncols v_A_width v_A_hb f_addmul_m4rm f_copy v_A_rs
          v_C_rs f_add f_sqr f_mul f_addsqr f_addmul v_B_ncols v_B_flags v_mem_B v_B_nrows v_B_width v_B_hb
          v_B_rs := by
  unfold Gen.C.mzdAddmul cutoffNormI
  simp only [strassenCutoff_eq]
  simp only [decide_eq_true_eq, Bool.or_eq_true, or_assoc]

/-- when a dimension of the product is 0, `C + A·B = C`: the destination is what it was -/
theorem putB_add_mul_degenerate (C A B : Mzd) (hC : C.WF) (hA : A.WF) (hB : B.WF) (hk : A.ncols = B.nrows)
    (hr : C.nrows = A.nrows) (hc : C.ncols = B.ncols) (h0 : A.nrows = 0 ∨ A.ncols = 0 ∨ B.ncols = 0) :
    C.putB (C.toB.add (A.toB.mul B.toB)) = C := by
  have hS : Shaped C.toB A.nrows B.ncols := ⟨Mzd.WF_toB hC, hr, hc⟩
  have hSA : Shaped A.toB A.nrows A.ncols := ⟨Mzd.WF_toB hA, rfl, rfl⟩
  have hSB : Shaped B.toB A.ncols B.ncols := ⟨Mzd.WF_toB hB, hk.symm, rfl⟩
  rw [← hS.add_mul_degenerate hSA hSB h0]
  exact Mzd.putB_toB hC

/-- **the early return of `mzd_addmul`**: when `A.nrows = 0 ∨ A.ncols = 0 ∨ B.ncols = 0` the destination memory is
    returned unchanged (whatever the callees, the flag and the other arguments) … -/
theorem mzdAddmul_early (cutoff : Int) (mC : Mem) (ncA nrB nrA ncB : Int) (h0 : nrA = 0 ∨ ncA = 0 ∨ ncB = 0)
    (same : Bool) (nrC : Int) (fA fC : BitVec 8) (ncC wC : Int) (hbC : BitVec 64)
    (f_copy_new : CLoop.MView → Mem × Int × Int) (mA : Mem) (wA : Int) (hbA : BitVec 64)
    (f_addmul_m4rm : CLoop.MView → CLoop.MView → CLoop.MView → Int → Mem)
    (f_copy : CLoop.MView → CLoop.MView → Mem) (rsA rsC : Int)
    (f_add : CLoop.MView → CLoop.MView → CLoop.MView → Mem) (f_sqr : CLoop.MView → CLoop.MView → Int → Mem)
    (f_mul : CLoop.MView → CLoop.MView → CLoop.MView → Int → Mem) (f_addsqr : CLoop.MView → CLoop.MView → Int → Mem)
    (f_addmul : CLoop.MView → CLoop.MView → CLoop.MView → Int → Mem) (fB : BitVec 8) (mB : Mem) (wB : Int)
    (hbB : BitVec 64) (rsB : Int) :
    Gen.C.mzdAddmul cutoff mC ncA nrB nrA ncB same nrC fA fC ncC wC hbC f_copy_new mA wA hbA f_addmul_m4rm f_copy
      rsA rsC f_add f_sqr f_mul f_addsqr f_addmul fB mB wB hbB rsB = mC := by
  rw [mzdAddmul_unfold, if_pos h0]

/-- **`mzd_addmul(C, A, B, cutoff)`, `A` and `B` different objects: `C := C + A·B`** — every depth, every cut-off,
    every choice of flags and row strides; INCLUDING the early return (then `C` is unchanged, see
    `mzdAddmul_early`, and `C + A·B = C`, see `putB_add_mul_degenerate`) -/
theorem mzdAddmul_correct (hd : Hdr) (n cutoff : Nat) (rsA rsB rsC : Int) (fA fB fC : BitVec 8) (C A B : Mzd)
    (hC : C.WF) (hA : A.WF) (hB : B.WF) (hk : A.ncols = B.nrows) (hr : C.nrows = A.nrows)
    (hc : C.ncols = B.ncols) :
    Gen.C.mzdAddmul cutoff (memOf C) A.ncols B.nrows A.nrows B.ncols false C.nrows fA fC C.ncols C.width C.hb
      cCopyNew (memOf A) A.width A.hb cAddmulM4rm cCopy rsA rsC cAdd (cStrassen hd n).sqr (cStrassen hd n).mul
      (cStrassen hd n).addsqr (cStrassen hd n).addmul fB (memOf B) B.width B.hb rsB
    = memOf (C.putB (C.toB.add (A.toB.mul B.toB))) := by
  rw [mzdAddmul_unfold]
  by_cases h0 : A.nrows = 0 ∨ A.ncols = 0 ∨ B.ncols = 0
  · rw [if_pos (by omega), putB_add_mul_degenerate C A B hC hA hB hk hr hc h0]
  · rw [if_neg (by omega), cutoffNormI_nat]
    exact mzdAddmulDispatch_correct hd n (cutoffNorm cutoff) rsA rsB rsC fA fB fC C A B hC hA hB hk hr hc

/-- **`mzd_addmul(C, A, A, cutoff)`, both factors the same object: `C := C + A·A`** (the arguments that describe
    `B` other than the two that the guards and the early return read, `B.nrows` and `B.ncols`, are arbitrary) -/
theorem mzdAddmul_same_correct (hd : Hdr) (n cutoff : Nat) (rsA rsB rsC : Int) (fA fB fC : BitVec 8) (C A : Mzd)
    (hC : C.WF) (hA : A.WF) (hsq : A.ncols = A.nrows) (hr : C.nrows = A.nrows) (hc : C.ncols = A.nrows)
    (wB : Int) (hbB : BitVec 64) (mB : Mem) :
    Gen.C.mzdAddmul cutoff (memOf C) A.ncols A.nrows A.nrows A.ncols true C.nrows fA fC C.ncols C.width C.hb
      cCopyNew (memOf A) A.width A.hb cAddmulM4rm cCopy rsA rsC cAdd (cStrassen hd n).sqr (cStrassen hd n).mul
      (cStrassen hd n).addsqr (cStrassen hd n).addmul fB mB wB hbB rsB
    = memOf (C.putB (C.toB.add (A.toB.mul A.toB))) := by
  rw [mzdAddmul_unfold]
  by_cases h0 : A.nrows = 0 ∨ A.ncols = 0 ∨ A.ncols = 0
  · rw [if_pos (by omega),
      putB_add_mul_degenerate C A A hC hA hA hsq hr (hc.trans hsq.symm) h0]
  · rw [if_neg (by omega), cutoffNormI_nat]
    exact mzdAddmulDispatch_same_correct hd n (cutoffNorm cutoff) rsA rsB rsC fA fB fC C A hC hA hsq hr hc _ _ _ _ _

end M4ri.GenTieMul

#print axioms M4ri.GenTieMul.strassenCutoff_eq
#print axioms M4ri.GenTieMul.cutoffNormI_nat
#print axioms M4ri.GenTieMul.mzdMul_correct
#print axioms M4ri.GenTieMul.mzdMul_same_correct
#print axioms M4ri.GenTieMul.mzdMul_eq_cStrassen_mul
#print axioms M4ri.GenTieMul.mzdMul_eq_cStrassen_sqr
#print axioms M4ri.GenTieMul.mzdAddmulDispatch_correct
#print axioms M4ri.GenTieMul.mzdAddmulDispatch_same_correct
#print axioms M4ri.GenTieMul.mzdAddmul_early
#print axioms M4ri.GenTieMul.putB_add_mul_degenerate
#print axioms M4ri.GenTieMul.mzdAddmul_correct
#print axioms M4ri.GenTieMul.mzdAddmul_same_correct
