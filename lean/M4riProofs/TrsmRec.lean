/-
  C04 / C05 / C03, block-recursive structure (models: `M4ri/TrsmRec.lean`).
  Part I  (sections 0-6): the four recursive triangular solves and the recursive triangular inversion equal
          the substitution forms of `M4ri/Elim.lean`, for every fuel and every regime parameter:
            `trsmLowerLeftRec_eq`, `trsmUpperLeftRec_eq`, `trsmUpperRightRec_eq`, `trsmLowerRightRec_eq`,
            `trtriRec_eq`  (+ `…_spec`, `…_congr`, `…_unique`, `…_WF` transported from `Trsm.lean`).
  Part II (sections P1-P10): the block-recursive PLE decomposition `pleRec` returns a good certificate
          (`IsPLE` of `Checkers.lean` + "P fixes the rows from the rank on") whenever its base case does:
            `pleStep_spec` (one step, any recursive calls), `pleRec_spec`, `pleRec_isPLE`, `pleRec_rank`;
            `compressL_get` (`_mzd_compress_l` entry by entry); `pleStep_needs_tail` (the extra clause on `P`
            cannot be dropped: a concrete counterexample).
  Core Lean tactics; the only Mathlib content is what `Checkers.lean` imports (`split_ifs` is used).
-/
import M4riProofs.Trsm
import M4riProofs.StrassenBlocks
import M4riProofs.Checkers
import M4ri.TrsmRec
set_option linter.unusedSimpArgs false
namespace M4ri
namespace BMat
namespace Rec

/-! ### 0. helpers -/

theorem xsum_add (a b : Nat) (f : Nat → Bool) :
    xsum (a + b) f = (xsum a f ^^ xsum b (fun t => f (a + t))) := by
  induction b with
  | zero => simp
  | succ b ih => rw [← Nat.add_assoc, xsum_succ, ih, xsum_succ, Bool.xor_assoc]

theorem xsum_split {n : Nat} (k : Nat) (hk : k ≤ n) (f : Nat → Bool) :
    xsum n f = (xsum k f ^^ xsum (n - k) (fun t => f (k + t))) := by
  have : n = k + (n - k) := by omega
  rw [this, xsum_add]
  congr 2
  omega

theorem splitPoint_le (n : Nat) : splitPoint n ≤ n := by
  unfold splitPoint
  rw [Nat.shiftRight_eq_div_pow]
  omega

theorem splitPoint_lt (n : Nat) (h : 0 < n) : splitPoint n < n := by
  unfold splitPoint
  rw [Nat.shiftRight_eq_div_pow]
  omega

/-- entry of a window, inside -/
theorem get_sub_in (M : BMat) (lr lc hr hc i j : Nat) (hi : lr + i < hr) (hi' : lr + i < M.nrows)
    (hj : lc + j < hc) : (M.sub lr lc hr hc).get i j = M.get (lr + i) (lc + j) := by
  rw [get_sub]
  have : i < min (hr - lr) (M.nrows - lr) ∧ j < hc - lc := by omega
  simp [this]

/-- two blocks written one above the other -/
theorem get_vpaste {B X0 X1 : BMat} {m n k : Nat} (hB : Shaped B m n) (hX0 : Shaped X0 k n)
    (hX1 : Shaped X1 (m - k) n) (hk : k ≤ m) (i c : Nat) :
    ((B.paste 0 0 X0).paste k 0 X1).get i c = if i < k then X0.get i c else X1.get (i - k) c := by
  have h1 : Shaped (B.paste 0 0 X0) m n := hB.paste X0 0 0 (by rw [hX0.nc]; omega)
  rw [h1.get_paste, hB.get_paste, hX0.nr, hX0.nc, hX1.nr, hX1.nc]
  by_cases hc : c < n
  · by_cases hik : i < k
    · have : ¬ (k ≤ i ∧ i < k + (m - k) ∧ 0 ≤ c ∧ c < 0 + n ∧ i < m) := by omega
      rw [if_neg this, if_pos (by omega), if_pos hik]; rfl
    · by_cases him : i < m
      · rw [if_pos (by omega), if_neg hik]; rfl
      · rw [if_neg (by omega), if_neg (by omega), if_neg hik, hB.get_of_ge_row i c (by omega),
          hX1.get_of_ge_row _ _ (by omega)]
  · rw [if_neg (by omega), if_neg (by omega), hB.get_of_ge_col i c (by omega)]
    split
    · rw [hX0.get_of_ge_col _ _ (by omega)]
    · rw [hX1.get_of_ge_col _ _ (by omega)]

theorem Shaped_vpaste {B X0 X1 : BMat} {m n k : Nat} (hB : Shaped B m n) (hX0 : Shaped X0 k n)
    (hX1 : Shaped X1 (m - k) n) : Shaped ((B.paste 0 0 X0).paste k 0 X1) m n :=
  (hB.paste X0 0 0 (by rw [hX0.nc]; omega)).paste X1 k 0 (by rw [hX1.nc]; omega)

/-- two blocks written side by side -/
theorem get_hpaste {B X0 X1 : BMat} {m n k : Nat} (hB : Shaped B m n) (hX0 : Shaped X0 m k)
    (hX1 : Shaped X1 m (n - k)) (hk : k ≤ n) (i c : Nat) :
    ((B.paste 0 0 X0).paste 0 k X1).get i c = if c < k then X0.get i c else X1.get i (c - k) := by
  have h1 : Shaped (B.paste 0 0 X0) m n := hB.paste X0 0 0 (by rw [hX0.nc]; omega)
  rw [h1.get_paste, hB.get_paste, hX0.nr, hX0.nc, hX1.nr, hX1.nc]
  by_cases hi : i < m
  · by_cases hck : c < k
    · rw [if_neg (by omega), if_pos (by omega), if_pos hck]; rfl
    · by_cases hcn : c < n
      · rw [if_pos (by omega), if_neg hck]; rfl
      · rw [if_neg (by omega), if_neg (by omega), if_neg hck, hB.get_of_ge_col i c (by omega),
          hX1.get_of_ge_col _ _ (by omega)]
  · rw [if_neg (by omega), if_neg (by omega), hB.get_of_ge_row i c (by omega)]
    split
    · rw [hX0.get_of_ge_row _ _ (by omega)]
    · rw [hX1.get_of_ge_row _ _ (by omega)]

theorem Shaped_hpaste {B X0 X1 : BMat} {m n k : Nat} (hB : Shaped B m n) (hX0 : Shaped X0 m k)
    (hX1 : Shaped X1 m (n - k)) (hk : k ≤ n) : Shaped ((B.paste 0 0 X0).paste 0 k X1) m n :=
  (hB.paste X0 0 0 (by rw [hX0.nc]; omega)).paste X1 0 k (by rw [hX1.nc]; omega)

/-! ### 1. lower-left -/

/-- a matrix that obeys the recurrence of forward substitution is its result (no hypothesis on `L`) -/
theorem lowerLeft_of_rec {L B Y : BMat} (hB : B.WF) (hY : Y.WF) (hr : Y.nrows = B.nrows) (hc : Y.ncols = B.ncols)
    (h : ∀ i c, i < B.nrows → c < B.ncols →
      Y.get i c = (B.get i c ^^ xsum i (fun j => L.get i j && Y.get j c))) :
    Y = trsmLowerLeft L B := by
  apply ext_get hY (trsmLowerLeft_WF L hB) (by simpa using hr) (by simpa using hc)
  have key : ∀ i, i < B.nrows → ∀ c, c < B.ncols → Y.get i c = (trsmLowerLeft L B).get i c := by
    intro i
    induction i using Nat.strongRecOn with
    | _ i ih =>
      intro hi c hcc
      rw [h i c hi hcc, trsmLowerLeft_get_rec L B i c hi hB.1]
      congr 1
      exact xsum_congr (fun j hj => by rw [ih j hj (by omega) c hcc])
  intro i j hi hj
  exact key i (by omega) j (by omega)

/-- **block forward substitution**: `X0 = L00⁻¹ B0`, `X1 = L11⁻¹ (B1 + L10 X0)` stacked is `L⁻¹ B`, for
    every split point `k ≤ mb` -/
theorem lowerLeft_block {L B : BMat} (hB : B.WF) (hLr : L.nrows = B.nrows) (k : Nat) (hk : k ≤ B.nrows) :
    (B.paste 0 0 (trsmLowerLeft (L.sub 0 0 k k) (B.sub 0 0 k B.ncols))).paste k 0
      (trsmLowerLeft (L.sub k k B.nrows B.nrows)
        ((B.sub k 0 B.nrows B.ncols).add
          ((L.sub k 0 B.nrows k).mul (trsmLowerLeft (L.sub 0 0 k k) (B.sub 0 0 k B.ncols)))))
      = trsmLowerLeft L B := by
  generalize hm : B.nrows = m at *
  generalize hn : B.ncols = n at *
  have sB : Shaped B m n := ⟨hB, hm, hn⟩
  have sB0 : Shaped (B.sub 0 0 k n) k n := by simpa using sB.sub 0 0 k n hk
  have sB1 : Shaped (B.sub k 0 m n) (m - k) n := by simpa using sB.sub k 0 m n (Nat.le_refl m)
  generalize hX0 : trsmLowerLeft (L.sub 0 0 k k) (B.sub 0 0 k n) = X0
  have sX0 : Shaped X0 k n := by
    subst hX0; exact ⟨trsmLowerLeft_WF _ sB0.wf, by rw [trsmLowerLeft_nrows, sB0.nr], by simp⟩
  have sL10 : Shaped (L.sub k 0 m k) (m - k) k := ⟨WF_sub _ _ _ _ _, by simp [hLr], by simp⟩
  have sP : Shaped ((L.sub k 0 m k).mul X0) (m - k) n := sL10.mul sX0
  have sB1' : Shaped ((B.sub k 0 m n).add ((L.sub k 0 m k).mul X0)) (m - k) n := sB1.add sP
  generalize hB1' : (B.sub k 0 m n).add ((L.sub k 0 m k).mul X0) = B1' at sB1'
  generalize hX1 : trsmLowerLeft (L.sub k k m m) B1' = X1
  have sX1 : Shaped X1 (m - k) n := by
    subst hX1; exact ⟨trsmLowerLeft_WF _ sB1'.wf, by rw [trsmLowerLeft_nrows, sB1'.nr],
      by rw [trsmLowerLeft_ncols, sB1'.nc]⟩
  apply lowerLeft_of_rec hB (Shaped_vpaste sB sX0 sX1).wf (by simp [hm]) (by simp [hn])
  intro i c hi hc
  rw [hm] at hi; rw [hn] at hc
  simp only [get_vpaste sB sX0 sX1 hk]
  by_cases hik : i < k
  · rw [if_pos hik, ← hX0, trsmLowerLeft_get_rec _ _ i c (by rw [sB0.nr]; exact hik) sB0.wf.1, hX0,
      sB.get_sub 0 0 k n i c hk]
    have : i < k - 0 ∧ c < n - 0 := by omega
    simp only [this, decide_true, Bool.true_and, and_self, Nat.zero_add]
    congr 1
    apply xsum_congr
    intro j hj
    rw [if_pos (by omega), get_sub_in _ _ _ _ _ _ _ (by omega) (by omega) (by omega)]
    simp
  · rw [if_neg hik, ← hX1, trsmLowerLeft_get_rec _ _ (i - k) c (by rw [sB1'.nr]; omega) sB1'.wf.1, hX1, ← hB1',
      sB1.get_add sP, sB.get_sub k 0 m n (i - k) c (Nat.le_refl m), mul_get _ _ _ _ (by rw [sL10.nr]; omega),
      dotSpec_T, sL10.nc, xsum_split k (by omega : k ≤ i)]
    have h1 : i - k < m - k ∧ c < n - 0 := by omega
    have h2 : k + (i - k) = i := by omega
    simp only [h1, decide_true, Bool.true_and, and_self, Nat.zero_add, h2, Bool.xor_assoc]
    congr 2
    · apply xsum_congr
      intro j hj
      rw [if_pos hj, get_sub_in _ _ _ _ _ _ _ (by omega) (by omega) (by omega)]
      simp [h2]
    · apply xsum_congr
      intro t ht
      rw [if_neg (by omega), get_sub_in _ _ _ _ _ _ _ (by omega) (by omega) (by omega)]
      simp [h2]

@[simp] theorem add_nrows (A B : BMat) : (A.add B).nrows = A.nrows := rfl
@[simp] theorem add_ncols (A B : BMat) : (A.add B).ncols = A.ncols := rfl

/-- `C.add (A.mul B)` of well-formed `C`, `B` of equal width is well-formed -/
theorem WF_addmul {C A B : BMat} (hC : C.WF) (hB : B.WF) (hc : B.ncols = C.ncols) : (C.add (A.mul B)).WF :=
  WF_add hC (mul_WF A hB) (by simpa using hc)

/-- **C04, lower-left, recursion = substitution**: for every `fuel` and every `baseRows`, on a well-formed
    `B` and an `L` with as many rows as `B`, `_mzd_trsm_lower_left` computes `trsmLowerLeft L B`. -/
theorem trsmLowerLeftRec_eq (baseRows fuel : Nat) {L B : BMat} (hB : B.WF) (hLr : L.nrows = B.nrows) :
    trsmLowerLeftRec baseRows fuel L B = trsmLowerLeft L B := by
  induction fuel generalizing L B with
  | zero => rfl
  | succ fuel ih =>
    rw [trsmLowerLeftRec]
    simp only []
    split
    · rfl
    · have hk := splitPoint_le B.nrows
      rw [ih (WF_sub _ _ _ _ _) (by simp; omega)]
      rw [ih (WF_addmul (WF_sub _ _ _ _ _) (trsmLowerLeft_WF _ (WF_sub _ _ _ _ _)) (by simp))
        (by simp; omega)]
      exact lowerLeft_block hB hLr _ hk

/-! ### 2. upper-left -/

/-- a matrix that obeys the recurrence of backward substitution is its result (no hypothesis on `U`) -/
theorem upperLeft_of_rec {U B Y : BMat} (hB : B.WF) (hY : Y.WF) (hr : Y.nrows = B.nrows) (hc : Y.ncols = B.ncols)
    (h : ∀ i c, i < B.nrows → c < B.ncols →
      Y.get i c = (B.get i c ^^ xsum B.nrows (fun t => decide (i < t) && (U.get i t && Y.get t c)))) :
    Y = trsmUpperLeft U B := by
  apply ext_get hY (trsmUpperLeft_WF U hB) (by simpa using hr) (by simpa using hc)
  have key : ∀ d i, B.nrows - i = d → i < B.nrows → ∀ c, c < B.ncols →
      Y.get i c = (trsmUpperLeft U B).get i c := by
    intro d
    induction d using Nat.strongRecOn with
    | _ d ih =>
      intro i hd hi c hcc
      rw [h i c hi hcc, trsmUpperLeft_get_rec U B i c hi hB.1]
      congr 1
      apply xsum_congr
      intro t ht
      by_cases hit : i < t
      · rw [ih (B.nrows - t) (by omega) t rfl ht c hcc]
      · simp [hit]
  intro i j hi hj
  exact key _ i rfl (by omega) j (by omega)

theorem bxor_rot (a p s : Bool) : ((a ^^ p) ^^ s) = (a ^^ (s ^^ p)) := by
  cases a <;> cases p <;> cases s <;> rfl

/-- **block backward substitution**: `X1 = U11⁻¹ B1`, `X0 = U00⁻¹ (B0 + U01 X1)` stacked is `U⁻¹ B` -/
theorem upperLeft_block {U B : BMat} (hB : B.WF) (hUr : U.nrows = B.nrows) (k : Nat) (hk : k ≤ B.nrows) :
    (B.paste 0 0 (trsmUpperLeft (U.sub 0 0 k k)
        ((B.sub 0 0 k B.ncols).add ((U.sub 0 k k B.nrows).mul
          (trsmUpperLeft (U.sub k k B.nrows B.nrows) (B.sub k 0 B.nrows B.ncols)))))).paste k 0
      (trsmUpperLeft (U.sub k k B.nrows B.nrows) (B.sub k 0 B.nrows B.ncols))
      = trsmUpperLeft U B := by
  generalize hm : B.nrows = m at *
  generalize hn : B.ncols = n at *
  have sB : Shaped B m n := ⟨hB, hm, hn⟩
  have sB0 : Shaped (B.sub 0 0 k n) k n := by simpa using sB.sub 0 0 k n hk
  have sB1 : Shaped (B.sub k 0 m n) (m - k) n := by simpa using sB.sub k 0 m n (Nat.le_refl m)
  generalize hX1 : trsmUpperLeft (U.sub k k m m) (B.sub k 0 m n) = X1
  have sX1 : Shaped X1 (m - k) n := by
    subst hX1; exact ⟨trsmUpperLeft_WF _ sB1.wf, by rw [trsmUpperLeft_nrows, sB1.nr], by simp⟩
  have sU01 : Shaped (U.sub 0 k k m) k (m - k) := ⟨WF_sub _ _ _ _ _, by simp [hUr]; omega, by simp⟩
  have sP : Shaped ((U.sub 0 k k m).mul X1) k n := sU01.mul sX1
  have sB0' : Shaped ((B.sub 0 0 k n).add ((U.sub 0 k k m).mul X1)) k n := sB0.add sP
  generalize hB0' : (B.sub 0 0 k n).add ((U.sub 0 k k m).mul X1) = B0' at sB0'
  generalize hX0 : trsmUpperLeft (U.sub 0 0 k k) B0' = X0
  have sX0 : Shaped X0 k n := by
    subst hX0; exact ⟨trsmUpperLeft_WF _ sB0'.wf, by rw [trsmUpperLeft_nrows, sB0'.nr],
      by rw [trsmUpperLeft_ncols, sB0'.nc]⟩
  apply upperLeft_of_rec hB (Shaped_vpaste sB sX0 sX1).wf (by simp [hm]) (by simp [hn])
  intro i c hi hc
  rw [hm] at hi; rw [hn] at hc
  rw [hm, xsum_split k hk]
  simp only [get_vpaste sB sX0 sX1 hk]
  by_cases hik : i < k
  · rw [if_pos hik, ← hX0, trsmUpperLeft_get_rec _ _ i c (by rw [sB0'.nr]; exact hik) sB0'.wf.1, hX0, sB0'.nr,
      ← hB0', sB0.get_add sP, get_sub_in _ _ _ _ _ _ _ (by omega) (by omega) (by omega),
      mul_get _ _ _ _ (by rw [sU01.nr]; exact hik), dotSpec_T, sU01.nc, bxor_rot]
    simp only [Nat.zero_add]
    congr 2
    · apply xsum_congr
      intro t ht
      rw [if_pos ht]
      by_cases hit : i < t
      · rw [get_sub_in _ _ _ _ _ _ _ (by omega) (by omega) (by omega)]; simp
      · simp [hit]
    · apply xsum_congr
      intro t ht
      rw [if_neg (by omega), get_sub_in _ _ _ _ _ _ _ (by omega) (by omega) (by omega)]
      have : i < k + t := by omega
      simp [this]
  · rw [if_neg hik, ← hX1, trsmUpperLeft_get_rec _ _ (i - k) c (by rw [sB1.nr]; omega) sB1.wf.1, hX1, sB1.nr,
      get_sub_in _ _ _ _ _ _ _ (by omega) (by omega) (by omega)]
    have h2 : k + (i - k) = i := by omega
    have e1 : xsum k (fun t => decide (i < t) &&
        (U.get i t && if t < k then X0.get t c else X1.get (t - k) c)) = false :=
      xsum_false (fun t ht => by
        have : ¬ i < t := by omega
        simp [this])
    rw [e1, h2, Nat.zero_add, Bool.false_xor]
    congr 1
    apply xsum_congr
    intro t ht
    rw [if_neg (by omega)]
    by_cases hit : i - k < t
    · rw [get_sub_in _ _ _ _ _ _ _ (by omega) (by omega) (by omega)]
      have : i < k + t := by omega
      simp [this, hit, h2]
    · have : ¬ i < k + t := by omega
      simp [this, hit]

/-- **C04, upper-left, recursion = substitution** -/
theorem trsmUpperLeftRec_eq (baseRows fuel : Nat) {U B : BMat} (hB : B.WF) (hUr : U.nrows = B.nrows) :
    trsmUpperLeftRec baseRows fuel U B = trsmUpperLeft U B := by
  induction fuel generalizing U B with
  | zero => rfl
  | succ fuel ih =>
    rw [trsmUpperLeftRec]
    simp only []
    split
    · rfl
    · have hk := splitPoint_le B.nrows
      rw [ih (WF_sub _ _ _ _ _) (by simp; omega)]
      rw [ih (WF_addmul (WF_sub _ _ _ _ _) (trsmUpperLeft_WF _ (WF_sub _ _ _ _ _)) (by simp))
        (by simp; omega)]
      exact upperLeft_block hB hUr _ hk

/-! ### 3. upper-right -/

theorem upperRight_of_rec {U B Y : BMat} (hB : B.WF) (hY : Y.WF) (hr : Y.nrows = B.nrows) (hc : Y.ncols = B.ncols)
    (h : ∀ i c, i < B.nrows → c < B.ncols →
      Y.get i c = (B.get i c ^^ xsum c (fun t => Y.get i t && U.get t c))) :
    Y = trsmUpperRight U B := by
  apply ext_get hY (trsmUpperRight_WF U hB) (by simpa using hr) (by simpa using hc)
  have key : ∀ c, c < B.ncols → ∀ i, i < B.nrows → Y.get i c = (trsmUpperRight U B).get i c := by
    intro c
    induction c using Nat.strongRecOn with
    | _ c ih =>
      intro hcc i hi
      rw [h i c hi hcc, trsmUpperRight_get_rec U B i c hcc]
      congr 1
      exact xsum_congr (fun t ht => by rw [ih t ht (by omega) i hi])
  intro i j hi hj
  exact key j (by omega) i (by omega)

/-- **block substitution from the right, upper**: `X0 = B0 U00⁻¹`, `X1 = (B1 + X0 U01) U11⁻¹` side by side -/
theorem upperRight_block {U B : BMat} (hB : B.WF) (hUr : U.nrows = B.ncols) (k : Nat) (hk : k ≤ B.ncols) :
    (B.paste 0 0 (trsmUpperRight (U.sub 0 0 k k) (B.sub 0 0 B.nrows k))).paste 0 k
      (trsmUpperRight (U.sub k k B.ncols B.ncols)
        ((B.sub 0 k B.nrows B.ncols).add
          ((trsmUpperRight (U.sub 0 0 k k) (B.sub 0 0 B.nrows k)).mul (U.sub 0 k k B.ncols))))
      = trsmUpperRight U B := by
  generalize hm : B.nrows = m at *
  generalize hn : B.ncols = n at *
  have sB : Shaped B m n := ⟨hB, hm, hn⟩
  have sB0 : Shaped (B.sub 0 0 m k) m k := by simpa using sB.sub 0 0 m k (Nat.le_refl m)
  have sB1 : Shaped (B.sub 0 k m n) m (n - k) := by simpa using sB.sub 0 k m n (Nat.le_refl m)
  generalize hX0 : trsmUpperRight (U.sub 0 0 k k) (B.sub 0 0 m k) = X0
  have sX0 : Shaped X0 m k := by
    subst hX0; exact ⟨trsmUpperRight_WF _ sB0.wf, by rw [trsmUpperRight_nrows, sB0.nr], by simp⟩
  have sU01 : Shaped (U.sub 0 k k n) k (n - k) := ⟨WF_sub _ _ _ _ _, by simp [hUr]; omega, by simp⟩
  have sP : Shaped (X0.mul (U.sub 0 k k n)) m (n - k) := sX0.mul sU01
  have sB1' : Shaped ((B.sub 0 k m n).add (X0.mul (U.sub 0 k k n))) m (n - k) := sB1.add sP
  generalize hB1' : (B.sub 0 k m n).add (X0.mul (U.sub 0 k k n)) = B1' at sB1'
  generalize hX1 : trsmUpperRight (U.sub k k n n) B1' = X1
  have sX1 : Shaped X1 m (n - k) := by
    subst hX1; exact ⟨trsmUpperRight_WF _ sB1'.wf, by rw [trsmUpperRight_nrows, sB1'.nr],
      by rw [trsmUpperRight_ncols, sB1'.nc]⟩
  apply upperRight_of_rec hB (Shaped_hpaste sB sX0 sX1 hk).wf (by simp [hm]) (by simp [hn])
  intro i c hi hc
  rw [hm] at hi; rw [hn] at hc
  simp only [get_hpaste sB sX0 sX1 hk]
  by_cases hck : c < k
  · rw [if_pos hck, ← hX0, trsmUpperRight_get_rec _ _ i c (by rw [sB0.nc]; exact hck), hX0,
      get_sub_in _ _ _ _ _ _ _ (by omega) (by omega) (by omega)]
    simp only [Nat.zero_add]
    congr 1
    apply xsum_congr
    intro t ht
    rw [if_pos (by omega), get_sub_in _ _ _ _ _ _ _ (by omega) (by omega) (by omega)]
    simp
  · rw [if_neg hck, ← hX1, trsmUpperRight_get_rec _ _ i (c - k) (by rw [sB1'.nc]; omega), hX1, ← hB1',
      sB1.get_add sP, get_sub_in _ _ _ _ _ _ _ (by omega) (by omega) (by omega),
      mul_get _ _ _ _ (by rw [sX0.nr]; exact hi), dotSpec_T, sX0.nc, xsum_split k (by omega : k ≤ c)]
    have h2 : k + (c - k) = c := by omega
    simp only [Nat.zero_add, h2, Bool.xor_assoc]
    congr 2
    · apply xsum_congr
      intro t ht
      rw [if_pos ht, get_sub_in _ _ _ _ _ _ _ (by omega) (by omega) (by omega)]
      simp [h2]
    · apply xsum_congr
      intro t ht
      rw [if_neg (by omega), get_sub_in _ _ _ _ _ _ _ (by omega) (by omega) (by omega)]
      simp [h2]

/-- the third regime of `_mzd_trsm_upper_right` (`B · U⁻¹`) is the substitution form as well -/
theorem mul_triInv_eq {U B : BMat} (hB : B.WF) (hUr : U.nrows = B.ncols) :
    B.mul (trsmUpperRight U (identity U.nrows)) = trsmUpperRight U B := by
  -- `U.ncols` is never read: replace it by `U.nrows`
  let U' : BMat := ⟨U.nrows, U.nrows, U.rows⟩
  have e1 : trsmUpperRight U (identity U.nrows) = triInv U' := rfl
  have e2 : trsmUpperRight U B = trsmUpperRight U' B := rfl
  rw [e1, e2]
  have hW : (unitUpper U').WF := unitUpper_WF U' (Nat.le_refl _)
  apply trsmUpperRight_unique (U := U') hUr hUr hB (mul_WF B (triInv_WF U')) (by simp) (by simp [U', hUr])
  rw [mul_assoc B (triInv_WF U') hW, triInv_mul U' rfl]
  have := mul_identity hB
  rwa [← hUr] at this

/-- **C04, upper-right, recursion = substitution** (all three regimes) -/
theorem trsmUpperRightRec_eq (baseCols trtriCols fuel : Nat) {U B : BMat} (hB : B.WF) (hUr : U.nrows = B.ncols) :
    trsmUpperRightRec baseCols trtriCols fuel U B = trsmUpperRight U B := by
  induction fuel generalizing U B with
  | zero => rfl
  | succ fuel ih =>
    rw [trsmUpperRightRec]
    simp only []
    split
    · rfl
    · split
      · exact mul_triInv_eq hB hUr
      · have hk := splitPoint_le B.ncols
        rw [ih (WF_sub _ _ _ _ _) (by simp; omega)]
        rw [ih (WF_addmul (WF_sub _ _ _ _ _) (WF_sub _ _ _ _ _) (by simp)) (by simp; omega)]
        exact upperRight_block hB hUr _ hk

/-! ### 4. lower-right -/

theorem lowerRight_of_rec {L B Y : BMat} (hB : B.WF) (hY : Y.WF) (hr : Y.nrows = B.nrows) (hc : Y.ncols = B.ncols)
    (h : ∀ i c, i < B.nrows → c < B.ncols →
      Y.get i c = (B.get i c ^^ xsum B.ncols (fun t => decide (c < t) && (Y.get i t && L.get t c)))) :
    Y = trsmLowerRight L B := by
  apply ext_get hY (trsmLowerRight_WF L hB) (by simpa using hr) (by simpa using hc)
  have key : ∀ d c, B.ncols - c = d → c < B.ncols → ∀ i, i < B.nrows →
      Y.get i c = (trsmLowerRight L B).get i c := by
    intro d
    induction d using Nat.strongRecOn with
    | _ d ih =>
      intro c hd hcc i hi
      rw [h i c hi hcc, trsmLowerRight_get_rec L B i c hcc]
      congr 1
      apply xsum_congr
      intro t ht
      by_cases hct : c < t
      · rw [ih (B.ncols - t) (by omega) t rfl ht i hi]
      · simp [hct]
  intro i j hi hj
  exact key _ j rfl (by omega) i (by omega)

/-- **block substitution from the right, lower**: `X1 = B1 L11⁻¹`, `X0 = (B0 + X1 L10) L00⁻¹` side by side -/
theorem lowerRight_block {L B : BMat} (hB : B.WF) (hLr : L.nrows = B.ncols) (k : Nat) (hk : k ≤ B.ncols) :
    (B.paste 0 0 (trsmLowerRight (L.sub 0 0 k k)
        ((B.sub 0 0 B.nrows k).add
          ((trsmLowerRight (L.sub k k B.ncols B.ncols) (B.sub 0 k B.nrows B.ncols)).mul
            (L.sub k 0 B.ncols k))))).paste 0 k
      (trsmLowerRight (L.sub k k B.ncols B.ncols) (B.sub 0 k B.nrows B.ncols))
      = trsmLowerRight L B := by
  generalize hm : B.nrows = m at *
  generalize hn : B.ncols = n at *
  have sB : Shaped B m n := ⟨hB, hm, hn⟩
  have sB0 : Shaped (B.sub 0 0 m k) m k := by simpa using sB.sub 0 0 m k (Nat.le_refl m)
  have sB1 : Shaped (B.sub 0 k m n) m (n - k) := by simpa using sB.sub 0 k m n (Nat.le_refl m)
  generalize hX1 : trsmLowerRight (L.sub k k n n) (B.sub 0 k m n) = X1
  have sX1 : Shaped X1 m (n - k) := by
    subst hX1; exact ⟨trsmLowerRight_WF _ sB1.wf, by rw [trsmLowerRight_nrows, sB1.nr], by simp⟩
  have sL10 : Shaped (L.sub k 0 n k) (n - k) k := ⟨WF_sub _ _ _ _ _, by simp [hLr], by simp⟩
  have sP : Shaped (X1.mul (L.sub k 0 n k)) m k := sX1.mul sL10
  have sB0' : Shaped ((B.sub 0 0 m k).add (X1.mul (L.sub k 0 n k))) m k := sB0.add sP
  generalize hB0' : (B.sub 0 0 m k).add (X1.mul (L.sub k 0 n k)) = B0' at sB0'
  generalize hX0 : trsmLowerRight (L.sub 0 0 k k) B0' = X0
  have sX0 : Shaped X0 m k := by
    subst hX0; exact ⟨trsmLowerRight_WF _ sB0'.wf, by rw [trsmLowerRight_nrows, sB0'.nr],
      by rw [trsmLowerRight_ncols, sB0'.nc]⟩
  apply lowerRight_of_rec hB (Shaped_hpaste sB sX0 sX1 hk).wf (by simp [hm]) (by simp [hn])
  intro i c hi hc
  rw [hm] at hi; rw [hn] at hc
  rw [hn, xsum_split k hk]
  simp only [get_hpaste sB sX0 sX1 hk]
  by_cases hck : c < k
  · rw [if_pos hck, ← hX0, trsmLowerRight_get_rec _ _ i c (by rw [sB0'.nc]; exact hck), hX0, sB0'.nc,
      ← hB0', sB0.get_add sP, get_sub_in _ _ _ _ _ _ _ (by omega) (by omega) (by omega),
      mul_get _ _ _ _ (by rw [sX1.nr]; exact hi), dotSpec_T, sX1.nc, bxor_rot]
    simp only [Nat.zero_add]
    congr 2
    · apply xsum_congr
      intro t ht
      rw [if_pos ht]
      by_cases hct : c < t
      · rw [get_sub_in _ _ _ _ _ _ _ (by omega) (by omega) (by omega)]; simp
      · simp [hct]
    · apply xsum_congr
      intro t ht
      rw [if_neg (by omega), get_sub_in _ _ _ _ _ _ _ (by omega) (by omega) (by omega)]
      have : c < k + t := by omega
      simp [this]
  · rw [if_neg hck, ← hX1, trsmLowerRight_get_rec _ _ i (c - k) (by rw [sB1.nc]; omega), hX1, sB1.nc,
      get_sub_in _ _ _ _ _ _ _ (by omega) (by omega) (by omega)]
    have h2 : k + (c - k) = c := by omega
    have e1 : xsum k (fun t => decide (c < t) &&
        ((if t < k then X0.get i t else X1.get i (t - k)) && L.get t c)) = false :=
      xsum_false (fun t ht => by
        have : ¬ c < t := by omega
        simp [this])
    rw [e1, h2, Nat.zero_add, Bool.false_xor]
    congr 1
    apply xsum_congr
    intro t ht
    rw [if_neg (by omega)]
    by_cases hct : c - k < t
    · rw [get_sub_in _ _ _ _ _ _ _ (by omega) (by omega) (by omega)]
      have : c < k + t := by omega
      simp [this, hct, h2]
    · have : ¬ c < k + t := by omega
      simp [this, hct]

/-- **C04, lower-right, recursion = substitution** -/
theorem trsmLowerRightRec_eq (baseCols fuel : Nat) {L B : BMat} (hB : B.WF) (hLr : L.nrows = B.ncols) :
    trsmLowerRightRec baseCols fuel L B = trsmLowerRight L B := by
  induction fuel generalizing L B with
  | zero => rfl
  | succ fuel ih =>
    rw [trsmLowerRightRec]
    simp only []
    split
    · rfl
    · have hk := splitPoint_le B.ncols
      rw [ih (WF_sub _ _ _ _ _) (by simp; omega)]
      rw [ih (WF_addmul (WF_sub _ _ _ _ _) (WF_sub _ _ _ _ _) (by simp)) (by simp; omega)]
      exact lowerRight_block hB hLr _ hk

/-! ### 5. triangular inversion -/

/-- solving from the left is multiplying by the inverse -/
theorem upperLeft_eq_triInv_mul {U B : BMat} (hB : B.WF) (hUr : U.nrows = B.nrows) (hsq : U.ncols = U.nrows) :
    trsmUpperLeft U B = (triInv U).mul B := by
  symm
  apply trsmUpperLeft_unique hUr (by omega) hB (mul_WF _ hB) (by simp [hUr]) (by simp)
  rw [← mul_assoc (unitUpper U) (triInv_WF U) hB, mul_triInv U hsq, hUr]
  exact identity_mul hB

theorem triInv_get_rec (U : BMat) (i c : Nat) (hc : c < U.nrows) :
    (triInv U).get i c = ((identity U.nrows).get i c ^^ xsum c (fun t => (triInv U).get i t && U.get t c)) := by
  unfold triInv
  exact trsmUpperRight_get_rec U (identity U.nrows) i c (by simpa using hc)

/-- **block inversion**: for `U = [[U00, U01], [0, U11]]` (strictly lower triangle zero) the inverse is
    `[[U00⁻¹, U00⁻¹ U01 U11⁻¹], [0, U11⁻¹]]`, every split point -/
theorem trtri_block {U : BMat} {n : Nat} (hU : Shaped U n n) (hlow : ∀ i j, j < i → U.get i j = false)
    (k : Nat) (hk : k ≤ n) :
    ((U.paste 0 0 (triInv (U.sub 0 0 k k))).paste 0 k
        (trsmUpperRight (U.sub k k n n) (trsmUpperLeft (U.sub 0 0 k k) (U.sub 0 k k n)))).paste k k
      (triInv (U.sub k k n n)) = triInv U := by
  have sU00 : Shaped (U.sub 0 0 k k) k k := by simpa using hU.sub 0 0 k k hk
  have sU01 : Shaped (U.sub 0 k k n) k (n - k) := by simpa using hU.sub 0 k k n hk
  have sU11 : Shaped (U.sub k k n n) (n - k) (n - k) := hU.sub k k n n (Nat.le_refl n)
  have hW : trsmUpperLeft (U.sub 0 0 k k) (U.sub 0 k k n) = (triInv (U.sub 0 0 k k)).mul (U.sub 0 k k n) :=
    upperLeft_eq_triInv_mul sU01.wf (by rw [sU00.nr, sU01.nr]) (by rw [sU00.nr, sU00.nc])
  rw [hW]
  have r00 := triInv_get_rec (U.sub 0 0 k k)
  have r11 := triInv_get_rec (U.sub k k n n)
  rw [sU00.nr] at r00
  rw [sU11.nr] at r11
  generalize hV00 : triInv (U.sub 0 0 k k) = V00 at *
  have sV00 : Shaped V00 k k := by
    subst hV00; exact ⟨triInv_WF _, by rw [triInv_nrows, sU00.nr], by rw [triInv_ncols, sU00.nr]⟩
  generalize hV11 : triInv (U.sub k k n n) = V11 at *
  have sV11 : Shaped V11 (n - k) (n - k) := by
    subst hV11; exact ⟨triInv_WF _, by rw [triInv_nrows, sU11.nr], by rw [triInv_ncols, sU11.nr]⟩
  have sW : Shaped (V00.mul (U.sub 0 k k n)) k (n - k) := sV00.mul sU01
  have rX := fun i c hc => trsmUpperRight_get_rec (U.sub k k n n) (V00.mul (U.sub 0 k k n)) i c
    (by rw [sW.nc]; exact hc)
  generalize hX : trsmUpperRight (U.sub k k n n) (V00.mul (U.sub 0 k k n)) = X at *
  have sX : Shaped X k (n - k) := by
    subst hX; exact ⟨trsmUpperRight_WF _ sW.wf, by rw [trsmUpperRight_nrows, sW.nr],
      by rw [trsmUpperRight_ncols, sW.nc]⟩
  have s1 : Shaped (U.paste 0 0 V00) n n := hU.paste V00 0 0 (by rw [sV00.nc]; omega)
  have s2 : Shaped ((U.paste 0 0 V00).paste 0 k X) n n := s1.paste X 0 k (by rw [sX.nc]; omega)
  have s3 : Shaped (((U.paste 0 0 V00).paste 0 k X).paste k k V11) n n :=
    s2.paste V11 k k (by rw [sV11.nc]; omega)
  have hget : ∀ i c, (((U.paste 0 0 V00).paste 0 k X).paste k k V11).get i c =
      if k ≤ i ∧ i < n ∧ k ≤ c ∧ c < n then V11.get (i - k) (c - k)
      else if i < k ∧ k ≤ c ∧ c < n then X.get i (c - k)
      else if i < k ∧ c < k then V00.get i c else U.get i c := by
    intro i c
    rw [s2.get_paste_window k k n n sV11 (Nat.le_refl n),
      s1.get_paste_window 0 k k n (by simpa using sX) hk,
      hU.get_paste_window 0 0 k k (by simpa using sV00) hk]
    simp only [Nat.zero_le, true_and, Nat.sub_zero]
  show _ = trsmUpperRight U (identity U.nrows)
  rw [hU.nr]
  apply upperRight_of_rec (identity_WF n) s3.wf (by simp [hU.nr]) (by simp [hU.nc])
  intro i c hi hc
  simp only [identity_nrows, identity_ncols] at hi hc
  simp only [hget]
  by_cases hik : i < k
  · by_cases hck : c < k
    · -- diagonal block 00
      rw [if_neg (by omega), if_neg (by omega), if_pos ⟨hik, hck⟩, r00 i c hck, identity_get, identity_get]
      have : (i < k ∧ i = c) ↔ (i < n ∧ i = c) := by omega
      simp only [this]
      congr 1
      apply xsum_congr
      intro t ht
      rw [if_neg (by omega), if_neg (by omega), if_pos (by omega),
        get_sub_in _ _ _ _ _ _ _ (by omega) (by rw [hU.nr]; omega) (by omega)]
      simp
    · -- block 01
      rw [if_neg (by omega), if_pos (by omega), rX i (c - k) (by omega),
        mul_get _ _ _ _ (by rw [sV00.nr]; exact hik), dotSpec_T, sV00.nc, identity_get,
        xsum_split k (by omega : k ≤ c)]
      have h2 : k + (c - k) = c := by omega
      have : ¬ (i < n ∧ i = c) := by omega
      simp only [this, decide_false, Bool.false_xor]
      congr 1
      · apply xsum_congr
        intro t ht
        rw [if_neg (by omega), if_neg (by omega), if_pos (by omega),
          get_sub_in _ _ _ _ _ _ _ (by omega) (by rw [hU.nr]; omega) (by omega)]
        simp [h2]
      · apply xsum_congr
        intro t ht
        rw [if_neg (by omega), if_pos (by omega),
          get_sub_in _ _ _ _ _ _ _ (by omega) (by rw [hU.nr]; omega) (by omega)]
        simp [h2]
  · by_cases hck : c < k
    · -- block 10: zero
      rw [if_neg (by omega), if_neg (by omega), if_neg (by omega), hlow i c (by omega), identity_get]
      have : ¬ (i < n ∧ i = c) := by omega
      simp only [this, decide_false, Bool.false_xor]
      symm
      apply xsum_false
      intro t ht
      rw [if_neg (by omega), if_neg (by omega), if_neg (by omega), hlow i t (by omega)]
      rfl
    · -- diagonal block 11
      rw [if_pos (by omega), r11 (i - k) (c - k) (by omega), identity_get, identity_get,
        xsum_split k (by omega : k ≤ c)]
      have h2 : k + (c - k) = c := by omega
      have h3 : k + (i - k) = i := by omega
      have : (i - k < n - k ∧ i - k = c - k) ↔ (i < n ∧ i = c) := by omega
      simp only [this]
      have e1 : xsum k (fun t =>
          (if k ≤ i ∧ i < n ∧ k ≤ t ∧ t < n then V11.get (i - k) (t - k)
            else if i < k ∧ k ≤ t ∧ t < n then X.get i (t - k)
            else if i < k ∧ t < k then V00.get i t else U.get i t) && U.get t c) = false := by
        apply xsum_false
        intro t ht
        rw [if_neg (by omega), if_neg (by omega), if_neg (by omega), hlow i t (by omega)]
        rfl
      rw [e1, Bool.false_xor]
      congr 1
      apply xsum_congr
      intro t ht
      rw [if_pos (by omega), get_sub_in _ _ _ _ _ _ _ (by omega) (by rw [hU.nr]; omega) (by omega)]
      have : k + t - k = t := by omega
      simp [h2, this]

/-- the strictly lower triangle of a diagonal block is zero if that of the matrix is -/
theorem sub_diag_low {U : BMat} (hlow : ∀ i j, j < i → U.get i j = false) (a b : Nat) :
    ∀ i j, j < i → (U.sub a a b b).get i j = false := by
  intro i j hji
  rw [get_sub, hlow (a + i) (a + j) (by omega)]
  simp

/-- **C05, triangular inversion, recursion = substitution**: for every fuel and all regime parameters,
    on a well-formed square `U` whose strictly lower triangle is zero (the stored diagonal is arbitrary),
    `mzd_trtri_upper` computes `triInv U`, the two-sided inverse of `unitUpper U`. -/
theorem trtriRec_eq (baseSize baseRows baseCols trtriCols : Nat) (sse2 : Bool) (fuel : Nat) {U : BMat}
    (hU : U.WF) (hsq : U.ncols = U.nrows) (hlow : ∀ i j, j < i → U.get i j = false) :
    trtriRec baseSize baseRows baseCols trtriCols sse2 fuel U = triInv U := by
  induction fuel generalizing U with
  | zero => rfl
  | succ fuel ih =>
    rw [trtriRec]
    simp only []
    split
    · rfl
    · split
      · rfl
      · rename_i _ hn2
        have hk : trtriSplit U.nrows sse2 ≤ U.nrows := by omega
        generalize trtriSplit U.nrows sse2 = k at *
        have sU : Shaped U U.nrows U.nrows := ⟨hU, rfl, hsq⟩
        rw [trsmUpperLeftRec_eq _ _ (WF_sub _ _ _ _ _) (by simp),
          trsmUpperRightRec_eq _ _ _ (trsmUpperLeft_WF _ (WF_sub _ _ _ _ _)) (by simp),
          ih (WF_sub _ _ _ _ _) (by simp; omega) (sub_diag_low hlow _ _),
          ih (WF_sub _ _ _ _ _) (by simp) (sub_diag_low hlow _ _)]
        exact trtri_block sU hlow k hk

/-! ### 6. consequences: every recursion solves its system, reads only the named triangle, and returns the
    unique solution (transport of `M4riProofs/Trsm.lean` along the `…Rec_eq` theorems) -/

section consequences
variable (baseRows baseCols trtriCols fuel : Nat)

theorem trsmLowerLeftRec_WF {L B : BMat} (hB : B.WF) (hLr : L.nrows = B.nrows) :
    (trsmLowerLeftRec baseRows fuel L B).WF ∧ (trsmLowerLeftRec baseRows fuel L B).nrows = B.nrows ∧
      (trsmLowerLeftRec baseRows fuel L B).ncols = B.ncols := by
  rw [trsmLowerLeftRec_eq _ _ hB hLr]; exact ⟨trsmLowerLeft_WF L hB, by simp, by simp⟩

/-- `unitLower(L) · X = B` -/
theorem trsmLowerLeftRec_spec {L B : BMat} (hLr : L.nrows = B.nrows) (hLc : L.ncols = B.nrows) (hB : B.WF) :
    (unitLower L).mul (trsmLowerLeftRec baseRows fuel L B) = B := by
  rw [trsmLowerLeftRec_eq _ _ hB hLr]; exact trsmLowerLeft_spec hLr hLc hB

/-- only the strictly lower triangle of `L` is read -/
theorem trsmLowerLeftRec_congr {L L' B : BMat} (hB : B.WF) (hLr : L.nrows = B.nrows) (hLr' : L'.nrows = B.nrows)
    (h : ∀ i j, i < B.nrows → j < i → L.get i j = L'.get i j) :
    trsmLowerLeftRec baseRows fuel L B = trsmLowerLeftRec baseRows fuel L' B := by
  rw [trsmLowerLeftRec_eq _ _ hB hLr, trsmLowerLeftRec_eq _ _ hB hLr']; exact trsmLowerLeft_congr L L' B h

theorem trsmLowerLeftRec_unique {L B Y : BMat} (hLr : L.nrows = B.nrows) (hLc : L.ncols = B.nrows) (hB : B.WF)
    (hY : Y.WF) (hYr : Y.nrows = B.nrows) (hYc : Y.ncols = B.ncols)
    (h : (unitLower L).mul Y = B) : Y = trsmLowerLeftRec baseRows fuel L B := by
  rw [trsmLowerLeftRec_eq _ _ hB hLr]; exact trsmLowerLeft_unique hLr hLc hB hY hYr hYc h

theorem trsmUpperLeftRec_WF {U B : BMat} (hB : B.WF) (hUr : U.nrows = B.nrows) :
    (trsmUpperLeftRec baseRows fuel U B).WF ∧ (trsmUpperLeftRec baseRows fuel U B).nrows = B.nrows ∧
      (trsmUpperLeftRec baseRows fuel U B).ncols = B.ncols := by
  rw [trsmUpperLeftRec_eq _ _ hB hUr]; exact ⟨trsmUpperLeft_WF U hB, by simp, by simp⟩

/-- `unitUpper(U) · X = B` -/
theorem trsmUpperLeftRec_spec {U B : BMat} (hUr : U.nrows = B.nrows) (hUc : U.ncols = B.nrows) (hB : B.WF) :
    (unitUpper U).mul (trsmUpperLeftRec baseRows fuel U B) = B := by
  rw [trsmUpperLeftRec_eq _ _ hB hUr]; exact trsmUpperLeft_spec hUr hUc hB

theorem trsmUpperLeftRec_congr {U U' B : BMat} (hB : B.WF) (hUr : U.nrows = B.nrows) (hUr' : U'.nrows = B.nrows)
    (h : ∀ i j, i < j → j < B.nrows → U.get i j = U'.get i j) :
    trsmUpperLeftRec baseRows fuel U B = trsmUpperLeftRec baseRows fuel U' B := by
  rw [trsmUpperLeftRec_eq _ _ hB hUr, trsmUpperLeftRec_eq _ _ hB hUr']; exact trsmUpperLeft_congr U U' B h

theorem trsmUpperLeftRec_unique {U B Y : BMat} (hUr : U.nrows = B.nrows) (hUc : U.ncols = B.nrows) (hB : B.WF)
    (hY : Y.WF) (hYr : Y.nrows = B.nrows) (hYc : Y.ncols = B.ncols)
    (h : (unitUpper U).mul Y = B) : Y = trsmUpperLeftRec baseRows fuel U B := by
  rw [trsmUpperLeftRec_eq _ _ hB hUr]; exact trsmUpperLeft_unique hUr hUc hB hY hYr hYc h

theorem trsmUpperRightRec_WF {U B : BMat} (hB : B.WF) (hUr : U.nrows = B.ncols) :
    (trsmUpperRightRec baseCols trtriCols fuel U B).WF ∧
      (trsmUpperRightRec baseCols trtriCols fuel U B).nrows = B.nrows ∧
      (trsmUpperRightRec baseCols trtriCols fuel U B).ncols = B.ncols := by
  rw [trsmUpperRightRec_eq _ _ _ hB hUr]; exact ⟨trsmUpperRight_WF U hB, by simp, by simp⟩

/-- `X · unitUpper(U) = B` -/
theorem trsmUpperRightRec_spec {U B : BMat} (hUr : U.nrows = B.ncols) (hUc : U.ncols = B.ncols) (hB : B.WF) :
    (trsmUpperRightRec baseCols trtriCols fuel U B).mul (unitUpper U) = B := by
  rw [trsmUpperRightRec_eq _ _ _ hB hUr]; exact trsmUpperRight_spec hUr hUc hB

theorem trsmUpperRightRec_congr {U U' B : BMat} (hB : B.WF) (hUr : U.nrows = B.ncols) (hUr' : U'.nrows = B.ncols)
    (h : ∀ i j, i < j → j < B.ncols → U.get i j = U'.get i j) :
    trsmUpperRightRec baseCols trtriCols fuel U B = trsmUpperRightRec baseCols trtriCols fuel U' B := by
  rw [trsmUpperRightRec_eq _ _ _ hB hUr, trsmUpperRightRec_eq _ _ _ hB hUr']
  exact trsmUpperRight_congr U U' B h

theorem trsmUpperRightRec_unique {U B Y : BMat} (hUr : U.nrows = B.ncols) (hUc : U.ncols = B.ncols) (hB : B.WF)
    (hY : Y.WF) (hYr : Y.nrows = B.nrows) (hYc : Y.ncols = B.ncols)
    (h : Y.mul (unitUpper U) = B) : Y = trsmUpperRightRec baseCols trtriCols fuel U B := by
  rw [trsmUpperRightRec_eq _ _ _ hB hUr]; exact trsmUpperRight_unique hUr hUc hB hY hYr hYc h

theorem trsmLowerRightRec_WF {L B : BMat} (hB : B.WF) (hLr : L.nrows = B.ncols) :
    (trsmLowerRightRec baseCols fuel L B).WF ∧ (trsmLowerRightRec baseCols fuel L B).nrows = B.nrows ∧
      (trsmLowerRightRec baseCols fuel L B).ncols = B.ncols := by
  rw [trsmLowerRightRec_eq _ _ hB hLr]; exact ⟨trsmLowerRight_WF L hB, by simp, by simp⟩

/-- `X · unitLower(L) = B` -/
theorem trsmLowerRightRec_spec {L B : BMat} (hLr : L.nrows = B.ncols) (hLc : L.ncols = B.ncols) (hB : B.WF) :
    (trsmLowerRightRec baseCols fuel L B).mul (unitLower L) = B := by
  rw [trsmLowerRightRec_eq _ _ hB hLr]; exact trsmLowerRight_spec hLr hLc hB

theorem trsmLowerRightRec_congr {L L' B : BMat} (hB : B.WF) (hLr : L.nrows = B.ncols) (hLr' : L'.nrows = B.ncols)
    (h : ∀ i j, j < i → i < B.ncols → L.get i j = L'.get i j) :
    trsmLowerRightRec baseCols fuel L B = trsmLowerRightRec baseCols fuel L' B := by
  rw [trsmLowerRightRec_eq _ _ hB hLr, trsmLowerRightRec_eq _ _ hB hLr']; exact trsmLowerRight_congr L L' B h

theorem trsmLowerRightRec_unique {L B Y : BMat} (hLr : L.nrows = B.ncols) (hB : B.WF)
    (hY : Y.WF) (hYr : Y.nrows = B.nrows) (hYc : Y.ncols = B.ncols)
    (h : Y.mul (unitLower L) = B) : Y = trsmLowerRightRec baseCols fuel L B := by
  rw [trsmLowerRightRec_eq _ _ hB hLr]; exact trsmLowerRight_unique hLr hB hY hYr hYc h

end consequences

/-- **C05**: the recursive inversion returns the two-sided inverse of `unitUpper U`, which is again unit upper
    triangular -/
theorem trtriRec_spec (baseSize baseRows baseCols trtriCols : Nat) (sse2 : Bool) (fuel : Nat) {U : BMat}
    (hU : U.WF) (hsq : U.ncols = U.nrows) (hlow : ∀ i j, j < i → U.get i j = false) :
    let V := trtriRec baseSize baseRows baseCols trtriCols sse2 fuel U
    V.WF ∧ V.nrows = U.nrows ∧ V.ncols = U.nrows ∧
      V.mul (unitUpper U) = identity U.nrows ∧ (unitUpper U).mul V = identity U.nrows ∧ unitUpper V = V := by
  simp only [trtriRec_eq _ _ _ _ _ _ hU hsq hlow]
  exact ⟨triInv_WF U, by simp, by simp, triInv_mul U hsq, mul_triInv U hsq, unitUpper_triInv U⟩

/-- a unit upper triangular matrix (`unitUpper U = U`) satisfies the hypotheses of `trtriRec_eq` -/
theorem low_of_unitUpper {U : BMat} (h : unitUpper U = U) : ∀ i j, j < i → U.get i j = false := by
  intro i j hji
  rw [← h, unitUpper_get]
  have h1 : ¬ i < j := by omega
  have h2 : ¬ j = i := by omega
  simp [h1, h2]

/-! non-vacuity: a 130 × 130 unit upper triangular matrix with a full first row, split at 64 -/
def exU : BMat := ⟨130, 130, (Array.range 130).map fun i => if i = 0 then 2 ^ 130 - 1 else 2 ^ i⟩

theorem exU_get (i j : Nat) : exU.get i j = (decide (i = 0 ∧ j < 130) || decide (0 < i ∧ i < 130 ∧ i = j)) := by
  unfold exU get
  rw [row_range_map]
  by_cases hi : i < 130
  · rw [if_pos hi]
    by_cases h0 : i = 0
    · subst h0; rw [if_pos rfl, Nat.testBit_two_pow_sub_one]; simp
    · rw [if_neg h0, Nat.testBit_two_pow]
      have : 0 < i := by omega
      simp [h0, this, hi]
  · rw [if_neg hi]
    have : ¬ i = 0 := by omega
    simp [hi, this]

theorem exU_WF : exU.WF := by
  apply WF_of_get
  · simp [exU]
  · intro i j hj
    rw [exU_get]
    have : exU.ncols = 130 := rfl
    have h1 : ¬ (i = 0 ∧ j < 130) := by omega
    have h2 : ¬ (0 < i ∧ i < 130 ∧ i = j) := by omega
    simp [h1, h2]

theorem exU_low : ∀ i j, j < i → exU.get i j = false := by
  intro i j hji
  rw [exU_get]
  have h1 : ¬ (i = 0 ∧ j < 130) := by omega
  have h2 : ¬ (0 < i ∧ i < 130 ∧ i = j) := by omega
  simp [h1, h2]

example : trsmLowerLeftRec 64 3 exU exU = trsmLowerLeft exU exU := trsmLowerLeftRec_eq 64 3 exU_WF rfl
example : trsmUpperLeftRec 64 3 exU exU = trsmUpperLeft exU exU := trsmUpperLeftRec_eq 64 3 exU_WF rfl
example : trsmUpperRightRec 64 0 3 exU exU = trsmUpperRight exU exU := trsmUpperRightRec_eq 64 0 3 exU_WF rfl
example : trsmLowerRightRec 64 3 exU exU = trsmLowerRight exU exU := trsmLowerRightRec_eq 64 3 exU_WF rfl
example : trtriRec 0 64 64 0 false 3 exU = triInv exU := trtriRec_eq 0 64 64 0 false 3 exU_WF rfl exU_low
/-- the recursion is really entered on this example: the split point of 130 rows is 64 -/
example : splitPoint 130 = 64 ∧ ¬ (130 ≤ 64) ∧ trtriSplit 130 false = 64 := by decide


/-! ## Part II: recursive PLE -/

/-! ### P1. `firstZeroRow` -/

theorem revfind_spec (p : Nat → Bool) (m : Nat) :
    match (List.range m).reverse.find? p with
    | some i => i < m ∧ p i = true ∧ ∀ k, i < k → k < m → p k = false
    | none => ∀ k, k < m → p k = false := by
  induction m with
  | zero => simp
  | succ m ih =>
    rw [List.range_succ, List.reverse_append]
    simp only [List.reverse_cons, List.reverse_nil, List.nil_append, List.cons_append, List.find?_cons]
    by_cases hp : p m = true
    · simp only [hp]
      exact ⟨by omega, trivial, fun k h1 h2 => by omega⟩
    · have hp' : p m = false := by simpa using hp
      simp only [hp']
      split at ih
      · next i hi =>
        rw [hi]
        exact ⟨by omega, ih.2.1, fun k h1 h2 => by
          by_cases hk : k = m
          · subst hk; exact hp'
          · exact ih.2.2 k h1 (by omega)⟩
      · next hi =>
        rw [hi]
        intro k hk
        by_cases hkm : k = m
        · subst hkm; exact hp'
        · exact ih k (by omega)

theorem firstZeroRow_le (A : BMat) : firstZeroRow A ≤ A.nrows := by
  unfold firstZeroRow
  have := revfind_spec (fun i => decide (A.row i % 2 ^ A.ncols ≠ 0)) A.nrows
  split <;> rename_i h
  · rw [h] at this; exact this.1
  · omega

theorem firstZeroRow_zero (A : BMat) (i : Nat) (h1 : firstZeroRow A ≤ i) (h2 : i < A.nrows) :
    A.row i % 2 ^ A.ncols = 0 := by
  unfold firstZeroRow at h1
  have := revfind_spec (fun i => decide (A.row i % 2 ^ A.ncols ≠ 0)) A.nrows
  split at h1 <;> rename_i h
  · rw [h] at this
    have := this.2.2 i (by omega) h2
    simpa using this
  · rw [h] at this
    have := this i h2
    simpa using this

/-- rows from `firstZeroRow` on are zero -/
theorem get_of_ge_firstZeroRow {A : BMat} (hA : A.WF) (i j : Nat) (h1 : firstZeroRow A ≤ i) :
    A.get i j = false := by
  by_cases h2 : i < A.nrows
  · have h := firstZeroRow_zero A i h1 h2
    rw [Nat.mod_eq_of_lt (hA.2 i)] at h
    unfold get; rw [h]; simp
  · exact get_of_ge_nrows hA i j (by omega)

/-! ### P2. arrays: `writeAt`, the rotation of `Q` -/

theorem getD_setIfInBounds (a : Array Nat) (i v j : Nat) :
    (a.setIfInBounds i v).getD j 0 = if i = j ∧ i < a.size then v else a.getD j 0 := by
  by_cases hj : j < a.size
  · by_cases hij : i = j
    · subst hij; simp [Array.getD, hj]
    · simp [Array.getD, hj, hij]
  · have : ¬ (i = j ∧ i < a.size) := by omega
    simp [Array.getD, hj, this]

@[simp] theorem size_writeAt (P : Array Nat) (off : Nat) (W : Array Nat) : (writeAt P off W).size = P.size := by
  simp [writeAt]

theorem getD_writeAt (P : Array Nat) (off : Nat) (W : Array Nat) (i : Nat) (hi : i < P.size) :
    (writeAt P off W).getD i 0 = if off ≤ i ∧ i < off + W.size then W.getD (i - off) 0 else P.getD i 0 := by
  simp [writeAt, Array.getD, hi]

/-- the rotation `Q[r1+k] = Q[n1+k]`, `k < r2`, executed sequentially -/
def rotQ (Q : Array Nat) (r1 n1 r2 : Nat) : Array Nat :=
  (List.range r2).foldl (fun Q k => Q.setIfInBounds (r1 + k) (Q.getD (n1 + k) 0)) Q

theorem rotQ_spec (Q : Array Nat) (r1 n1 : Nat) (h : r1 ≤ n1) (r2 : Nat) :
    (rotQ Q r1 n1 r2).size = Q.size ∧ ∀ j, (rotQ Q r1 n1 r2).getD j 0 =
      if r1 ≤ j ∧ j < r1 + r2 ∧ j < Q.size then Q.getD (n1 + (j - r1)) 0 else Q.getD j 0 := by
  induction r2 with
  | zero => exact ⟨rfl, fun j => by rw [if_neg (by omega)]; rfl⟩
  | succ s ih =>
    unfold rotQ at ih ⊢
    rw [List.range_succ, List.foldl_append]
    simp only [List.foldl_cons, List.foldl_nil]
    refine ⟨by rw [Array.size_setIfInBounds]; exact ih.1, fun j => ?_⟩
    have hn : ¬ (r1 ≤ n1 + s ∧ n1 + s < r1 + s ∧ n1 + s < Q.size) := by omega
    rw [getD_setIfInBounds, ih.1, ih.2 (n1 + s), ih.2 j, if_neg hn]
    by_cases hj : r1 + s = j
    · subst hj
      have h1 : ¬ (r1 ≤ r1 + s ∧ r1 + s < r1 + s ∧ r1 + s < Q.size) := by omega
      rw [if_neg h1]
      by_cases hs : r1 + s < Q.size
      · rw [if_pos ⟨rfl, hs⟩, if_pos (by omega)]
        congr 2; omega
      · have h2 : ¬ (r1 + s = r1 + s ∧ r1 + s < Q.size) := by omega
        have h3 : ¬ (r1 ≤ r1 + s ∧ r1 + s < r1 + (s + 1) ∧ r1 + s < Q.size) := by omega
        rw [if_neg h2, if_neg h3]
    · have h2 : ¬ (r1 + s = j ∧ r1 + s < Q.size) := by omega
      rw [if_neg h2]
      by_cases hc : r1 ≤ j ∧ j < r1 + s ∧ j < Q.size
      · have h3 : r1 ≤ j ∧ j < r1 + (s + 1) ∧ j < Q.size := by omega
        rw [if_pos hc, if_pos h3]
      · have h3 : ¬ (r1 ≤ j ∧ j < r1 + (s + 1) ∧ j < Q.size) := by omega
        rw [if_neg hc, if_neg h3]

/-! ### P3. `rowPerm`: trailing fixed points, concatenation -/

theorem swapIdx_self (a i : Nat) : swapIdx a a i = i := by
  unfold swapIdx; split <;> omega

/-- only the first `k` entries of `P` matter -/
theorem rowPerm_congr (P P' : Array Nat) (k : Nat) (h : ∀ t, t < k → P.getD t 0 = P'.getD t 0) (i : Nat) :
    rowPerm P k i = rowPerm P' k i := by
  induction k generalizing i with
  | zero => rfl
  | succ k ih =>
    show rowPerm P k (swapIdx k (P.getD k 0) i) = rowPerm P' k (swapIdx k (P'.getD k 0) i)
    rw [h k (by omega), ih (fun t ht => h t (by omega))]

/-- trailing entries `P[t] = t` contribute nothing -/
theorem rowPerm_tail (P : Array Nat) (r k : Nat) (hrk : r ≤ k) (h : ∀ t, r ≤ t → t < k → P.getD t 0 = t) (i : Nat) :
    rowPerm P k i = rowPerm P r i := by
  induction k generalizing i with
  | zero => have : r = 0 := by omega
            subst this; rfl
  | succ k ih =>
    by_cases hr : r = k + 1
    · subst hr; rfl
    · show rowPerm P k (swapIdx k (P.getD k 0) i) = rowPerm P r i
      rw [h k (by omega) (by omega), swapIdx_self, ih (by omega) (fun t h1 h2 => h t h1 (by omega))]

/-- a permutation of `[0, m - r1)` moved up by `r1` -/
def shiftPerm (r1 : Nat) (σ : Nat → Nat) (i : Nat) : Nat := if r1 ≤ i then r1 + σ (i - r1) else i

theorem swapIdx_shift (r1 a b i : Nat) :
    swapIdx (r1 + a) (r1 + b) i = shiftPerm r1 (swapIdx a b) i := by
  unfold shiftPerm swapIdx
  split_ifs <;> omega

/-- the permutation of `P1[0..r1) ++ (P2 + r1)` is that of `P1[0..r1)` after that of `P2`, moved up -/
theorem rowPerm_concat (P P2 : Array Nat) (r1 k : Nat) (h2 : ∀ t, t < k → P.getD (r1 + t) 0 = r1 + P2.getD t 0)
    (i : Nat) : rowPerm P (r1 + k) i = rowPerm P r1 (shiftPerm r1 (rowPerm P2 k) i) := by
  induction k generalizing i with
  | zero =>
    show rowPerm P r1 i = rowPerm P r1 (shiftPerm r1 (fun i => i) i)
    congr 1
    unfold shiftPerm
    simp only []
    split <;> omega
  | succ k ih =>
    show rowPerm P (r1 + k) (swapIdx (r1 + k) (P.getD (r1 + k) 0) i) = _
    rw [h2 k (by omega), ih (fun t ht => h2 t (by omega)), swapIdx_shift]
    congr 1
    unfold shiftPerm
    by_cases hi : r1 ≤ i
    · rw [if_pos hi, if_pos (by omega), if_pos hi]
      have : r1 + swapIdx k (P2.getD k 0) (i - r1) - r1 = swapIdx k (P2.getD k 0) (i - r1) := by omega
      rw [this]
      rfl
    · rw [if_neg hi, if_neg hi, if_neg hi]

/-! ### P4. `compressL`, entry by entry -/

/-- the column swaps of `_mzd_compress_l` -/
def compressSwaps (A : BMat) (r1 n1 r2 s : Nat) : BMat :=
  (List.range s).foldl (fun A k => A.swapColsInRows (r1 + k) (n1 + k) (r1 + k) (r1 + r2)) A

theorem compressSwaps_shape (A : BMat) (r1 n1 r2 s : Nat) : SameShape A (compressSwaps A r1 n1 r2 s) :=
  foldl_inv (SameShape A) _ _ _ (SameShape.refl A) (fun X _ _ hX => hX.trans (swapColsInRows_shape X _ _ _ _))

/-- after the first `s ≤ r2` swaps row `r1 + k` has had `min s (k+1)` of them: so many entries of the
    right-hand block have moved to columns `r1 …`, behind them zeros up to where the block now starts -/
theorem compressSwaps_get (A : BMat) (r1 n1 r2 : Nat) (h : r1 < n1)
    (hz : ∀ i j, r1 ≤ i → i < r1 + r2 → r1 ≤ j → j < n1 → A.get i j = false) (s : Nat) (hs : s ≤ r2) (i j : Nat) :
    (compressSwaps A r1 n1 r2 s).get i j =
      if r1 ≤ i ∧ i < r1 + r2 then
        if r1 ≤ j ∧ j < r1 + min s (i - r1 + 1) then A.get i (n1 + (j - r1))
        else if r1 + min s (i - r1 + 1) ≤ j ∧ j < n1 + min s (i - r1 + 1) then false
        else A.get i j
      else A.get i j := by
  induction s generalizing j with
  | zero =>
    show A.get i j = _
    by_cases hi : r1 ≤ i ∧ i < r1 + r2
    · rw [if_pos hi, if_neg (by omega)]
      by_cases hj : r1 ≤ j ∧ j < n1
      · rw [if_pos (by omega), hz i j hi.1 hi.2 hj.1 hj.2]
      · rw [if_neg (by omega)]
    · rw [if_neg hi]
  | succ s ih =>
    unfold compressSwaps at ih ⊢
    rw [List.range_succ, List.foldl_append]
    simp only [List.foldl_cons, List.foldl_nil]
    rw [swapColsInRows_get]
    by_cases hi : r1 + s ≤ i ∧ i < r1 + r2
    · have c3 : r1 ≤ i ∧ i < r1 + r2 := by omega
      have e1 : min s (i - r1 + 1) = s := by omega
      have e2 : min (s + 1) (i - r1 + 1) = s + 1 := by omega
      rw [if_pos hi, ih (by omega), if_pos c3, if_pos c3, e1, e2]
      unfold swapIdx
      by_cases hja : j = r1 + s
      · subst hja
        rw [if_pos rfl]
        split_ifs <;> first | rfl | (exfalso; omega) | (congr 2; omega)
      · rw [if_neg hja]
        by_cases hjb : j = n1 + s
        · subst hjb
          rw [if_pos rfl]
          split_ifs <;> first | rfl | (exfalso; omega)
        · rw [if_neg hjb]
          split_ifs <;> first | rfl | (exfalso; omega)
    · rw [if_neg hi, ih (by omega)]
      by_cases hi2 : r1 ≤ i ∧ i < r1 + r2
      · have e : min (s + 1) (i - r1 + 1) = min s (i - r1 + 1) := by omega
        rw [e]
      · rw [if_neg hi2, if_neg hi2]

theorem testBit_compressRow (r r1 n1 r2 j : Nat) (h : r1 ≤ n1) :
    ((r % 2 ^ r1) ||| (((r >>> n1) % 2 ^ r2) <<< r1) ||| ((r >>> (n1 + r2)) <<< (n1 + r2))).testBit j =
      if j < r1 then r.testBit j else if j < r1 + r2 then r.testBit (n1 + (j - r1))
      else if j < n1 + r2 then false else r.testBit j := by
  rw [Nat.testBit_or, Nat.testBit_or, Nat.testBit_mod_two_pow, Nat.testBit_shiftLeft, Nat.testBit_shiftLeft,
    Nat.testBit_mod_two_pow, Nat.testBit_shiftRight, Nat.testBit_shiftRight]
  by_cases h1 : j < r1
  · have a1 : ¬ j ≥ r1 := by omega
    have a2 : ¬ j ≥ n1 + r2 := by omega
    simp [h1, a1, a2]
  · by_cases h2 : j < r1 + r2
    · have a1 : j ≥ r1 := by omega
      have a2 : ¬ j ≥ n1 + r2 := by omega
      have a3 : j - r1 < r2 := by omega
      simp [h1, h2, a1, a2, a3]
    · by_cases h3 : j < n1 + r2
      · have a1 : j ≥ r1 := by omega
        have a2 : ¬ j ≥ n1 + r2 := by omega
        have a3 : ¬ j - r1 < r2 := by omega
        simp [h1, h2, h3, a1, a2, a3]
      · have a1 : j ≥ r1 := by omega
        have a2 : j ≥ n1 + r2 := by omega
        have a3 : ¬ j - r1 < r2 := by omega
        have a4 : n1 + r2 + (j - (n1 + r2)) = j := by omega
        simp [h1, h2, h3, a1, a2, a3, a4]

/-- the second half of `_mzd_compress_l`: the rows below the pivot rows -/
def compressShift (M : BMat) (r1 n1 r2 : Nat) : BMat :=
  { M with rows := M.rows.mapIdx fun i r =>
      if r1 + r2 ≤ i then
        (r % 2 ^ r1) ||| (((r >>> n1) % 2 ^ r2) <<< r1) ||| ((r >>> (n1 + r2)) <<< (n1 + r2))
      else r }

theorem compressL_eq (A : BMat) (r1 n1 r2 : Nat) :
    compressL A r1 n1 r2 = if r1 = n1 then A else compressShift (compressSwaps A r1 n1 r2 r2) r1 n1 r2 := rfl

theorem compressShift_get (M : BMat) (r1 n1 r2 : Nat) (h : r1 ≤ n1) (i j : Nat) :
    (compressShift M r1 n1 r2).get i j =
      if r1 + r2 ≤ i then
        (if j < r1 then M.get i j else if j < r1 + r2 then M.get i (n1 + (j - r1))
          else if j < n1 + r2 then false else M.get i j)
      else M.get i j := by
  by_cases hsz : i < M.rows.size
  · unfold get compressShift
    rw [row_mapIdxRows _ _ _ hsz]
    by_cases h2 : r1 + r2 ≤ i
    · rw [if_pos h2, if_pos h2, testBit_compressRow _ _ _ _ _ h]
    · rw [if_neg h2, if_neg h2]
  · have e0 : ∀ c, M.get i c = false := fun c => by
      unfold get; rw [row_of_ge _ _ (by omega)]; simp
    have e1 : (compressShift M r1 n1 r2).get i j = false := by
      unfold get; rw [row_of_ge _ _ (by simp [compressShift]; omega)]; simp
    rw [e1]
    simp only [e0]
    split <;> (try split) <;> (try split) <;> (try split) <;> rfl

/-- **`_mzd_compress_l`, entry by entry** (for `r1 ≤ n1`, when the rows of the second pivot block are zero
    between the two blocks — which `_mzd_ple` guarantees) -/
theorem compressL_get (A : BMat) (r1 n1 r2 : Nat) (h : r1 ≤ n1)
    (hz : ∀ i j, r1 ≤ i → i < r1 + r2 → r1 ≤ j → j < n1 → A.get i j = false) (i j : Nat) :
    (compressL A r1 n1 r2).get i j =
      if i < r1 then A.get i j
      else if i < r1 + r2 then
        (if j < r1 then A.get i j else if j ≤ i then A.get i (n1 + (j - r1))
          else if j ≤ n1 + (i - r1) then false else A.get i j)
      else
        (if j < r1 then A.get i j else if j < r1 + r2 then A.get i (n1 + (j - r1))
          else if j < n1 + r2 then false else A.get i j) := by
  rw [compressL_eq]
  by_cases he : r1 = n1
  · subst he
    rw [if_pos rfl]
    by_cases h1 : i < r1
    · rw [if_pos h1]
    · rw [if_neg h1]
      by_cases h2 : i < r1 + r2
      · rw [if_pos h2]
        by_cases h3 : j < r1
        · rw [if_pos h3]
        · rw [if_neg h3]
          have e : r1 + (j - r1) = j := by omega
          by_cases h4 : j ≤ i
          · rw [if_pos h4, e]
          · rw [if_neg h4, if_neg (by omega)]
      · rw [if_neg h2]
        by_cases h3 : j < r1
        · rw [if_pos h3]
        · rw [if_neg h3]
          have e : r1 + (j - r1) = j := by omega
          by_cases h4 : j < r1 + r2
          · rw [if_pos h4, e]
          · rw [if_neg h4, if_neg h4]
  · rw [if_neg he]
    have hlt : r1 < n1 := by omega
    show (compressShift (compressSwaps A r1 n1 r2 r2) r1 n1 r2).get i j = _
    rw [compressShift_get _ _ _ _ h]
    have hsw := compressSwaps_get A r1 n1 r2 hlt hz r2 (Nat.le_refl _)
    by_cases h2 : r1 + r2 ≤ i
    · have c1 : ¬ i < r1 := by omega
      have c2 : ¬ i < r1 + r2 := by omega
      have c3 : ¬ (r1 ≤ i ∧ i < r1 + r2) := by omega
      simp only [if_pos h2, if_neg c1, if_neg c2, hsw, if_neg c3]
    · rw [if_neg h2, hsw]
      by_cases h1 : i < r1
      · have c3 : ¬ (r1 ≤ i ∧ i < r1 + r2) := by omega
        rw [if_neg c3, if_pos h1]
      · have c2 : i < r1 + r2 := by omega
        have c3 : r1 ≤ i ∧ i < r1 + r2 := by omega
        have e : min r2 (i - r1 + 1) = i - r1 + 1 := by omega
        rw [if_pos c3, if_neg h1, if_pos c2, e]
        split_ifs <;> first | rfl | (exfalso; omega)

/-! ### P5. assembling the two recursive results -/

/-- what the recursion maintains: a PLE certificate whose row permutation fixes the rows from the rank on
    (`checkPLE` does not ask for the second clause, but `_mzd_ple` relies on it: it applies the whole of `P1`
    to `A1` and later overwrites `P[r1..]` by `P2`) -/
structure PLEGood (A S : BMat) (P Q : Array Nat) (r : Nat) : Prop where
  ple : IsPLE A S P Q r
  tail : ∀ i, r ≤ i → i < A.nrows → P.getD i 0 = i

/-- the storage after `_mzd_compress_l`, in terms of the two recursive results (`X01` is the solved `A01`) -/
def AsmStorage (S S0 S1 X01 : BMat) (P2 : Array Nat) (m n nr n1 r1 r2 : Nat) : Prop :=
  ∀ i j, i < m → j < n → S.get i j =
    if nr ≤ i then false
    else if i < r1 then (if j < n1 then S0.get i j else X01.get i (j - n1))
    else if i < r1 + r2 then
      (if j < r1 then S0.get (r1 + rowPerm P2 r2 (i - r1)) j
        else if j ≤ i then S1.get (i - r1) (j - r1)
        else if j ≤ n1 + (i - r1) then false else S1.get (i - r1) (j - n1))
    else
      (if j < r1 then S0.get (r1 + rowPerm P2 r2 (i - r1)) j
        else if j < r1 + r2 then S1.get (i - r1) (j - r1)
        else if j < n1 + r2 then false else S1.get (i - r1) (j - n1))

section assemble
variable {A S S0 S1 X01 X11 : BMat} {P P1 P2 Q Q1 Q2 : Array Nat} {m n nr n1 r1 r2 : Nat}

/-- the numeric facts contained in the two certificates -/
theorem asm_basic (hA : Shaped A m n) (hnr : nr ≤ m)
    (G1 : PLEGood (A.sub 0 0 nr n1) S0 P1 Q1 r1) (hX11 : Shaped X11 (nr - r1) (n - n1))
    (G2 : PLEGood X11 S1 P2 Q2 r2) :
    S0.nrows = nr ∧ S0.ncols = n1 ∧ r1 ≤ nr ∧ r1 ≤ n1 ∧ P1.size = nr ∧
    (∀ i, i < nr → i ≤ P1.getD i 0 ∧ P1.getD i 0 < nr) ∧
    (∀ i, r1 ≤ i → i < nr → P1.getD i 0 = i) ∧
    (∀ i, i < r1 → i ≤ Q1.getD i 0 ∧ Q1.getD i 0 < n1) ∧
    S1.nrows = nr - r1 ∧ S1.ncols = n - n1 ∧ r2 ≤ nr - r1 ∧ r2 ≤ n - n1 ∧ P2.size = nr - r1 ∧
    (∀ i, i < nr - r1 → i ≤ P2.getD i 0 ∧ P2.getD i 0 < nr - r1) ∧
    (∀ i, r2 ≤ i → i < nr - r1 → P2.getD i 0 = i) ∧
    (∀ i, i < r2 → i ≤ Q2.getD i 0 ∧ Q2.getD i 0 < n - n1) := by
  have sA0 : Shaped (A.sub 0 0 nr n1) nr n1 := by simpa using hA.sub 0 0 nr n1 hnr
  have g1 := G1.ple
  have g2 := G2.ple
  have a_nr : (A.sub 0 0 nr n1).nrows = nr := sA0.nr
  have a_nc : (A.sub 0 0 nr n1).ncols = n1 := sA0.nc
  refine ⟨by rw [g1.nrows_eq, a_nr], by rw [g1.ncols_eq, a_nc], by have := g1.r_le_nrows; rwa [a_nr] at this,
    by have := g1.r_le_ncols; rwa [a_nc] at this, by rw [g1.P_size, a_nr], fun i hi => ?_, fun i h1 h2 => ?_,
    fun i hi => ?_, by rw [g2.nrows_eq, hX11.nr], by rw [g2.ncols_eq, hX11.nc],
    by have := g2.r_le_nrows; rwa [hX11.nr] at this, by have := g2.r_le_ncols; rwa [hX11.nc] at this,
    by rw [g2.P_size, hX11.nr], fun i hi => ?_, fun i h1 h2 => ?_, fun i hi => ?_⟩
  · have := g1.P_lapack i (by rw [a_nr]; exact hi); rwa [a_nr] at this
  · exact G1.tail i h1 (by rw [a_nr]; exact h2)
  · have := g1.pivot_range i hi; rwa [a_nc] at this
  · have := g2.P_lapack i (by rw [hX11.nr]; exact hi); rwa [hX11.nr] at this
  · exact G2.tail i h1 (by rw [hX11.nr]; exact h2)
  · have := g2.pivot_range i hi; rwa [hX11.nc] at this

/-- the permutation of the assembled `P` -/
theorem asm_perm (hA : Shaped A m n) (hnr : nr ≤ m)
    (G1 : PLEGood (A.sub 0 0 nr n1) S0 P1 Q1 r1) (hX11 : Shaped X11 (nr - r1) (n - n1))
    (G2 : PLEGood X11 S1 P2 Q2 r2)
    (hP : ∀ i, i < m → P.getD i 0 =
      if i < r1 then P1.getD i 0 else if i < nr then r1 + P2.getD (i - r1) 0 else i) (i : Nat) :
    rowPerm P m i = rowPerm P1 r1 (shiftPerm r1 (rowPerm P2 r2) i) := by
  obtain ⟨s0r, s0c, r1nr, r1n1, p1s, p1l, p1t, q1r, s1r, s1c, r2nr, r2nc, p2s, p2l, p2t, q2r⟩ :=
    asm_basic hA hnr G1 hX11 G2
  rw [rowPerm_tail P (r1 + r2) m (by omega) (fun t h1 h2 => ?_),
    rowPerm_concat P P2 r1 r2 (fun t ht => ?_), rowPerm_congr P P1 r1 (fun t ht => ?_)]
  · rw [hP t (by omega), if_pos ht]
  · have c1 : ¬ r1 + t < r1 := by omega
    have c2 : r1 + t < nr := by omega
    rw [hP (r1 + t) (by omega), if_neg c1, if_pos c2]
    congr 2; omega
  · rw [hP t h2]
    have c1 : ¬ t < r1 := by omega
    rw [if_neg c1]
    by_cases c2 : t < nr
    · rw [if_pos c2, p2t (t - r1) (by omega) (by omega)]; omega
    · rw [if_neg c2]

/-- everything about the assembled certificate except the product equation -/
theorem asm_structure (hA : Shaped A m n) (hnr : nr ≤ m) (hn1 : n1 ≤ n)
    (G1 : PLEGood (A.sub 0 0 nr n1) S0 P1 Q1 r1) (hX11 : Shaped X11 (nr - r1) (n - n1))
    (G2 : PLEGood X11 S1 P2 Q2 r2)
    (hSr : S.nrows = m) (hSc : S.ncols = n) (hS : AsmStorage S S0 S1 X01 P2 m n nr n1 r1 r2)
    (hPs : P.size = m)
    (hP : ∀ i, i < m → P.getD i 0 =
      if i < r1 then P1.getD i 0 else if i < nr then r1 + P2.getD (i - r1) 0 else i)
    (hQs : Q.size = n) (hQ1 : ∀ i, i < r1 → Q.getD i 0 = Q1.getD i 0)
    (hQ2 : ∀ k, k < r2 → Q.getD (r1 + k) 0 = n1 + Q2.getD k 0)
    (hprod : ∀ i j, i < m → j < n → (A.applyPLeft P).get i j =
      dotSpec_T (S.lowerFactor (r1 + r2)) (S.echelonFactor Q (r1 + r2)) i j) :
    PLEGood A S P Q (r1 + r2) := by
  obtain ⟨s0r, s0c, r1nr, r1n1, p1s, p1l, p1t, q1r, s1r, s1c, r2nr, r2nc, p2s, p2l, p2t, q2r⟩ :=
    asm_basic hA hnr G1 hX11 G2
  have g1 := G1.ple
  have g2 := G2.ple
  have hQ : ∀ i, i < r1 + r2 → Q.getD i 0 = if i < r1 then Q1.getD i 0 else n1 + Q2.getD (i - r1) 0 := by
    intro i hi
    by_cases h : i < r1
    · rw [if_pos h, hQ1 i h]
    · rw [if_neg h]
      have := hQ2 (i - r1) (by omega)
      rwa [show r1 + (i - r1) = i by omega] at this
  refine ⟨⟨by rw [hSr, hA.nr], by rw [hSc, hA.nc], by rw [hA.nr]; omega, by rw [hA.nc]; omega,
    by rw [hPs, hA.nr], ?_, by rw [hQs, hA.nc], ?_, ?_, ?_, ?_, ?_, ?_⟩, ?_⟩
  · -- P in LAPACK form
    intro i hi
    rw [hA.nr] at hi ⊢
    rw [hP i hi]
    split_ifs with h1 h2
    · have := p1l i (by omega); omega
    · have := p2l (i - r1) (by omega); omega
    · omega
  · -- pivots in range
    intro i hi
    rw [hA.nc, hQ i hi]
    split_ifs with h1
    · have := q1r i h1; omega
    · have := q2r (i - r1) (by omega); omega
  · -- pivots increasing
    intro i j hij hj
    rw [hQ i (by omega), hQ j hj]
    split_ifs with h1 h2 h2
    · exact g1.pivot_mono i j hij h2
    · have := q1r i h1; omega
    · omega
    · have := g2.pivot_mono (i - r1) (j - r1) (by omega) (by omega); omega
  · -- diagonal
    intro i hi
    rw [hS i i (by omega) (by omega)]
    have c0 : ¬ nr ≤ i := by omega
    rw [if_neg c0]
    by_cases h1 : i < r1
    · have c1 : i < n1 := by omega
      rw [if_pos h1, if_pos c1]; exact g1.diag i h1
    · have c1 : ¬ i < r1 := h1
      have c2 : i ≤ i := Nat.le_refl i
      have e : i - r1 = i - r1 := rfl
      rw [if_neg h1, if_pos hi, if_neg c1, if_pos c2]
      exact g2.diag (i - r1) (by omega)
  · -- gap
    intro i j hi hij hjq
    rw [hQ i hi] at hjq
    by_cases h1 : i < r1
    · rw [if_pos h1] at hjq
      have := q1r i h1
      rw [hS i j (by omega) (by omega)]
      have c0 : ¬ nr ≤ i := by omega
      have c1 : j < n1 := by omega
      rw [if_neg c0, if_pos h1, if_pos c1]
      exact g1.gap i j h1 hij hjq
    · rw [if_neg h1] at hjq
      have := q2r (i - r1) (by omega)
      rw [hS i j (by omega) (by omega)]
      have c0 : ¬ nr ≤ i := by omega
      have c1 : ¬ j < r1 := by omega
      have c2 : ¬ j ≤ i := by omega
      rw [if_neg c0, if_neg h1, if_pos hi, if_neg c1, if_neg c2]
      by_cases c3 : j ≤ n1 + (i - r1)
      · rw [if_pos c3]
      · rw [if_neg c3]
        exact g2.gap (i - r1) (j - n1) (by omega) (by omega) (by omega)
  · -- outside
    intro i j hi1 hi2 hj1 hj2
    rw [hA.nr] at hi2; rw [hA.nc] at hj2
    rw [hS i j hi2 hj2]
    by_cases c0 : nr ≤ i
    · rw [if_pos c0]
    · have c1 : ¬ i < r1 := by omega
      have c2 : ¬ i < r1 + r2 := by omega
      have c3 : ¬ j < r1 := by omega
      have c4 : ¬ j < r1 + r2 := by omega
      rw [if_neg c0, if_neg c1, if_neg c2, if_neg c3, if_neg c4]
      by_cases c5 : j < n1 + r2
      · rw [if_pos c5]
      · rw [if_neg c5]
        exact g2.outside (i - r1) (j - n1) (by omega) (by rw [hX11.nr]; omega) (by omega) (by rw [hX11.nc]; omega)
  · -- product
    intro i j hi hj
    rw [hA.nr] at hi; rw [hA.nc] at hj
    exact hprod i j hi hj
  · -- tail of P
    intro i h1 h2
    rw [hA.nr] at h2
    rw [hP i h2]
    have c1 : ¬ i < r1 := by omega
    rw [if_neg c1]
    by_cases c2 : i < nr
    · rw [if_pos c2, p2t (i - r1) (by omega) (by omega)]; omega
    · rw [if_neg c2]

/-- entries of the two factors of the assembled storage -/
theorem asm_factors (hA : Shaped A m n) (hnr : nr ≤ m) (hn1 : n1 ≤ n)
    (G1 : PLEGood (A.sub 0 0 nr n1) S0 P1 Q1 r1) (hX11 : Shaped X11 (nr - r1) (n - n1))
    (G2 : PLEGood X11 S1 P2 Q2 r2)
    (hSr : S.nrows = m) (hSc : S.ncols = n) (hS : AsmStorage S S0 S1 X01 P2 m n nr n1 r1 r2)
    (hQ1 : ∀ i, i < r1 → Q.getD i 0 = Q1.getD i 0)
    (hQ2 : ∀ k, k < r2 → Q.getD (r1 + k) 0 = n1 + Q2.getD k 0) :
    (∀ i t, i < r1 → t < r1 → (S.lowerFactor (r1 + r2)).get i t = (S0.lowerFactor r1).get i t) ∧
    (∀ i t, r1 ≤ i → i < nr → t < r1 →
      (S.lowerFactor (r1 + r2)).get i t = S0.get (r1 + rowPerm P2 r2 (i - r1)) t) ∧
    (∀ i t, i < r1 → t < r2 → (S.lowerFactor (r1 + r2)).get i (r1 + t) = false) ∧
    (∀ i t, r1 ≤ i → i < nr → t < r2 →
      (S.lowerFactor (r1 + r2)).get i (r1 + t) = (S1.lowerFactor r2).get (i - r1) t) ∧
    (∀ i t, nr ≤ i → i < m → t < r1 + r2 → (S.lowerFactor (r1 + r2)).get i t = false) ∧
    (∀ t j, t < r1 → j < n1 → (S.echelonFactor Q (r1 + r2)).get t j = (S0.echelonFactor Q1 r1).get t j) ∧
    (∀ t j, t < r1 → n1 ≤ j → j < n → (S.echelonFactor Q (r1 + r2)).get t j = X01.get t (j - n1)) ∧
    (∀ t j, t < r2 → j < n1 → (S.echelonFactor Q (r1 + r2)).get (r1 + t) j = false) ∧
    (∀ t j, t < r2 → n1 ≤ j → j < n →
      (S.echelonFactor Q (r1 + r2)).get (r1 + t) j = (S1.echelonFactor Q2 r2).get t (j - n1)) := by
  obtain ⟨s0r, s0c, r1nr, r1n1, p1s, p1l, p1t, q1r, s1r, s1c, r2nr, r2nc, p2s, p2l, p2t, q2r⟩ :=
    asm_basic hA hnr G1 hX11 G2
  refine ⟨?_, ?_, ?_, ?_, ?_, ?_, ?_, ?_, ?_⟩
  · intro i t hi ht
    rw [lowerFactor_get, lowerFactor_get, hSr, s0r]
    have e : S.get i t = S0.get i t := by
      have c0 : ¬ nr ≤ i := by omega
      have c1 : t < n1 := by omega
      rw [hS i t (by omega) (by omega), if_neg c0, if_pos hi, if_pos c1]
    have a1 : i < m := by omega
    have a2 : i < nr := by omega
    have a3 : t < r1 + r2 := by omega
    have a4 : i < r1 + r2 := by omega
    simp [e, a1, a2, a3, a4, hi, ht]
  · intro i t h1 h2 ht
    rw [lowerFactor_get, hSr]
    have e : S.get i t = S0.get (r1 + rowPerm P2 r2 (i - r1)) t := by
      have c0 : ¬ nr ≤ i := by omega
      have c1 : ¬ i < r1 := by omega
      rw [hS i t (by omega) (by omega), if_neg c0, if_neg c1]
      by_cases c2 : i < r1 + r2
      · rw [if_pos c2, if_pos ht]
      · rw [if_neg c2, if_pos ht]
    have a1 : i < m := by omega
    have a2 : t < i := by omega
    have a3 : t < r1 + r2 := by omega
    have a4 : ¬ t = i := by omega
    simp [e, a1, a2, a3, a4]
  · intro i t hi ht
    rw [lowerFactor_get]
    have a2 : ¬ r1 + t < i := by omega
    have a4 : ¬ r1 + t = i := by omega
    simp [a2, a4]
  · intro i t h1 h2 ht
    rw [lowerFactor_get, lowerFactor_get, hSr, s1r]
    have a1 : i < m := by omega
    have a2 : i - r1 < nr - r1 := by omega
    have a3 : r1 + t < r1 + r2 := by omega
    by_cases hti : r1 + t < i
    · have e : S.get i (r1 + t) = S1.get (i - r1) t := by
        have c0 : ¬ nr ≤ i := by omega
        have c1 : ¬ i < r1 := by omega
        have c3 : ¬ r1 + t < r1 := by omega
        have e2 : r1 + t - r1 = t := by omega
        rw [hS i (r1 + t) (by omega) (by omega), if_neg c0, if_neg c1]
        by_cases c2 : i < r1 + r2
        · have c4 : r1 + t ≤ i := by omega
          rw [if_pos c2, if_neg c3, if_pos c4, e2]
        · rw [if_neg c2, if_neg c3, if_pos a3, e2]
      have b1 : t < i - r1 := by omega
      have b2 : ¬ r1 + t = i := by omega
      have b3 : ¬ t = i - r1 := by omega
      simp [e, a1, a2, a3, hti, b1, b2, b3, ht]
    · have b1 : ¬ t < i - r1 := by omega
      by_cases b2 : r1 + t = i
      · subst b2
        have e2 : r1 + t - r1 = t := by omega
        have a5 : t < nr - r1 := by omega
        simp [e2, a1, a5, ht]
      · have b3 : ¬ t = i - r1 := by omega
        simp [a1, a2, hti, b1, b2, b3]
  · intro i t h1 h2 ht
    rw [lowerFactor_get, hSr]
    have e : S.get i t = false := by
      rw [hS i t h2 (by omega), if_pos h1]
    have a1 : ¬ i < r1 + r2 := by omega
    simp [e, a1]
  · intro t j ht hj
    rw [echelonFactor_get, echelonFactor_get, hSc, s0c, hQ1 t ht]
    generalize Q1.getD t 0 = q
    have e : S.get t j = S0.get t j := by
      have c0 : ¬ nr ≤ t := by omega
      rw [hS t j (by omega) (by omega), if_neg c0, if_pos ht, if_pos hj]
    have a1 : t < r1 + r2 := by omega
    have a2 : j < n := by omega
    simp [e, a1, a2, ht, hj]
  · intro t j ht h1 h2
    rw [echelonFactor_get, hSc, hQ1 t ht]
    have := q1r t ht
    generalize Q1.getD t 0 = q at *
    have e : S.get t j = X01.get t (j - n1) := by
      have c0 : ¬ nr ≤ t := by omega
      have c1 : ¬ j < n1 := by omega
      rw [hS t j (by omega) (by omega), if_neg c0, if_pos ht, if_neg c1]
    have a1 : t < r1 + r2 := by omega
    have a2 : q < j := by omega
    have a3 : ¬ j = q := by omega
    simp [e, a1, a2, a3, h2]
  · intro t j ht hj
    rw [echelonFactor_get, hQ2 t ht]
    generalize Q2.getD t 0 = q
    have a2 : ¬ n1 + q < j := by omega
    have a3 : ¬ j = n1 + q := by omega
    simp [a2, a3]
  · intro t j ht h1 h2
    rw [echelonFactor_get, echelonFactor_get, hSc, s1c, hQ2 t ht]
    have := q2r t ht
    generalize Q2.getD t 0 = q at *
    have a1 : r1 + t < r1 + r2 := by omega
    have a4 : j - n1 < n - n1 := by omega
    by_cases hq : n1 + q < j
    · have e : S.get (r1 + t) j = S1.get t (j - n1) := by
        have c0 : ¬ nr ≤ r1 + t := by omega
        have c1 : ¬ r1 + t < r1 := by omega
        have c3 : ¬ j < r1 := by omega
        have c4 : ¬ j ≤ r1 + t := by omega
        have c5 : ¬ j ≤ n1 + (r1 + t - r1) := by omega
        have e2 : r1 + t - r1 = t := by omega
        rw [hS (r1 + t) j (by omega) h2, if_neg c0, if_neg c1, if_pos a1, if_neg c3, if_neg c4, if_neg c5, e2]
      have b1 : q < j - n1 := by omega
      have b2 : ¬ j = n1 + q := by omega
      have b3 : ¬ j - n1 = q := by omega
      simp [e, a1, a4, hq, b1, b2, b3, h2, ht]
    · have b1 : ¬ q < j - n1 := by omega
      by_cases b2 : j = n1 + q
      · have b3 : j - n1 = q := by omega
        simp [a1, hq, b1, b2, ht]
      · have b3 : ¬ j - n1 = q := by omega
        simp [a1, hq, b1, b2, b3]

/-- the product equation of the assembled certificate -/
theorem asm_prod (hA : Shaped A m n) (hnr : nr ≤ m) (hzero : ∀ i j, nr ≤ i → A.get i j = false) (hn1 : n1 ≤ n)
    (G1 : PLEGood (A.sub 0 0 nr n1) S0 P1 Q1 r1)
    (hX01 : ∀ i c, i < r1 → c < n - n1 →
      A.get (rowPerm P1 r1 i) (n1 + c) = xsum r1 (fun t => (S0.lowerFactor r1).get i t && X01.get t c))
    (hX11 : Shaped X11 (nr - r1) (n - n1))
    (hX11e : ∀ i c, i < nr - r1 → c < n - n1 → X11.get i c =
      (A.get (rowPerm P1 r1 (r1 + i)) (n1 + c) ^^ xsum r1 (fun t => S0.get (r1 + i) t && X01.get t c)))
    (G2 : PLEGood X11 S1 P2 Q2 r2)
    (hSr : S.nrows = m) (hSc : S.ncols = n) (hS : AsmStorage S S0 S1 X01 P2 m n nr n1 r1 r2)
    (hPs : P.size = m)
    (hP : ∀ i, i < m → P.getD i 0 =
      if i < r1 then P1.getD i 0 else if i < nr then r1 + P2.getD (i - r1) 0 else i)
    (hQ1 : ∀ i, i < r1 → Q.getD i 0 = Q1.getD i 0)
    (hQ2 : ∀ k, k < r2 → Q.getD (r1 + k) 0 = n1 + Q2.getD k 0) :
    ∀ i j, i < m → j < n → (A.applyPLeft P).get i j =
      dotSpec_T (S.lowerFactor (r1 + r2)) (S.echelonFactor Q (r1 + r2)) i j := by
  obtain ⟨s0r, s0c, r1nr, r1n1, p1s, p1l, p1t, q1r, s1r, s1c, r2nr, r2nc, p2s, p2l, p2t, q2r⟩ :=
    asm_basic hA hnr G1 hX11 G2
  obtain ⟨La, Lb, Lc, Ld, Le, Ea, Eb, Ec, Ed⟩ := asm_factors hA hnr hn1 G1 hX11 G2 hSr hSc hS hQ1 hQ2
  have g1 := G1.ple
  have g2 := G2.ple
  have sA0 : Shaped (A.sub 0 0 nr n1) nr n1 := by simpa using hA.sub 0 0 nr n1 hnr
  have pσ1 : PermOn nr (rowPerm P1 r1) (rowPermInv P1 r1) :=
    rowPerm_permOn P1 nr r1 r1nr (fun t ht => (p1l t (by omega)).2)
  have pσ2 : PermOn (nr - r1) (rowPerm P2 r2) (rowPermInv P2 r2) :=
    rowPerm_permOn P2 (nr - r1) r2 r2nr (fun t ht => (p2l t (by omega)).2)
  have H1 : ∀ i j, i < nr → j < n1 → A.get (rowPerm P1 r1 i) j =
      xsum r1 (fun t => (S0.lowerFactor r1).get i t && (S0.echelonFactor Q1 r1).get t j) := by
    intro i j hi hj
    obtain ⟨_, hget, _, _⟩ := applyPLeft_eq_perm sA0.wf g1.P_size (fun i hi => (g1.P_lapack i hi).2)
    have := g1.prod i j (by rw [sA0.nr]; exact hi) (by rw [sA0.nc]; exact hj)
    have hlt := (pσ1.1 i hi).1
    rw [hget, sA0.nr, rowPerm_tail P1 r1 nr r1nr (fun t h1 h2 => p1t t h1 h2),
      get_sub_in _ _ _ _ _ _ _ (by omega) (by rw [hA.nr]; omega) (by omega), dotSpec_T, lowerFactor_ncols,
      Nat.zero_add, Nat.zero_add] at this
    exact this
  have H2 : ∀ i c, i < nr - r1 → c < n - n1 → X11.get (rowPerm P2 r2 i) c =
      xsum r2 (fun t => (S1.lowerFactor r2).get i t && (S1.echelonFactor Q2 r2).get t c) := by
    intro i c hi hc
    obtain ⟨_, hget, _, _⟩ := applyPLeft_eq_perm hX11.wf g2.P_size (fun i hi => (g2.P_lapack i hi).2)
    have := g2.prod i c (by rw [hX11.nr]; exact hi) (by rw [hX11.nc]; exact hc)
    rw [hget, hX11.nr, rowPerm_tail P2 r2 (nr - r1) r2nr (fun t h1 h2 => p2t t h1 h2), dotSpec_T,
      lowerFactor_ncols] at this
    exact this
  have pl : ∀ i, i < A.nrows → P.getD i 0 < A.nrows := by
    intro i hi
    rw [hA.nr] at hi ⊢
    rw [hP i hi]
    split_ifs with h1 h2
    · have := p1l i (by omega); omega
    · have := p2l (i - r1) (by omega); omega
    · omega
  obtain ⟨_, hgetP, _, _⟩ := applyPLeft_eq_perm hA.wf (by rw [hPs, hA.nr]) pl
  intro i j hi hj
  rw [hgetP, hA.nr, asm_perm hA hnr G1 hX11 G2 hP, dotSpec_T, lowerFactor_ncols, xsum_add]
  unfold shiftPerm
  by_cases c1 : i < r1
  · have c1' : ¬ r1 ≤ i := by omega
    rw [if_neg c1']
    have e2 : xsum r2 (fun t => (S.lowerFactor (r1 + r2)).get i (r1 + t) &&
        (S.echelonFactor Q (r1 + r2)).get (r1 + t) j) = false :=
      xsum_false (fun t ht => by rw [Lc i t c1 ht]; rfl)
    rw [e2, Bool.xor_false]
    by_cases c2 : j < n1
    · rw [H1 i j (by omega) c2]
      exact xsum_congr (fun t ht => by rw [La i t c1 ht, Ea t j ht c2])
    · have h := hX01 i (j - n1) c1 (by omega)
      rw [show n1 + (j - n1) = j by omega] at h
      rw [h]
      exact xsum_congr (fun t ht => by rw [La i t c1 ht, Eb t j ht (by omega) hj])
  · have c1' : r1 ≤ i := by omega
    rw [if_pos c1']
    by_cases c0 : i < nr
    · have hu : rowPerm P2 r2 (i - r1) < nr - r1 := (pσ2.1 (i - r1) (by omega)).1
      generalize hu' : rowPerm P2 r2 (i - r1) = u at hu
      have eL1 : ∀ t, t < r1 → (S0.lowerFactor r1).get (r1 + u) t = S0.get (r1 + u) t := by
        intro t ht
        rw [lowerFactor_get, s0r]
        have a1 : r1 + u < nr := by omega
        have a2 : t < r1 + u := by omega
        have a3 : ¬ t = r1 + u := by omega
        simp [a1, a2, a3, ht]
      by_cases c2 : j < n1
      · have e2 : xsum r2 (fun t => (S.lowerFactor (r1 + r2)).get i (r1 + t) &&
            (S.echelonFactor Q (r1 + r2)).get (r1 + t) j) = false :=
          xsum_false (fun t ht => by rw [Ec t j ht c2]; simp)
        rw [e2, Bool.xor_false, H1 (r1 + u) j (by omega) c2]
        exact xsum_congr (fun t ht => by rw [Lb i t c1' c0 ht, hu', Ea t j ht c2, eL1 t ht])
      · have h11 := hX11e u (j - n1) hu (by omega)
        have h2 := H2 (i - r1) (j - n1) (by omega) (by omega)
        rw [hu'] at h2
        rw [show n1 + (j - n1) = j by omega] at h11
        have e1 : xsum r1 (fun t => (S.lowerFactor (r1 + r2)).get i t && (S.echelonFactor Q (r1 + r2)).get t j)
            = xsum r1 (fun t => S0.get (r1 + u) t && X01.get t (j - n1)) :=
          xsum_congr (fun t ht => by rw [Lb i t c1' c0 ht, hu', Eb t j ht (by omega) hj])
        have e2 : xsum r2 (fun t => (S.lowerFactor (r1 + r2)).get i (r1 + t) &&
            (S.echelonFactor Q (r1 + r2)).get (r1 + t) j) = X11.get u (j - n1) := by
          rw [h2]
          exact xsum_congr (fun t ht => by rw [Ld i t c1' c0 ht, Ed t j ht (by omega) hj])
        rw [e1, e2, h11]
        generalize A.get (rowPerm P1 r1 (r1 + u)) j = a
        generalize xsum r1 (fun t => S0.get (r1 + u) t && X01.get t (j - n1)) = b
        cases a <;> cases b <;> rfl
    · have e0 : rowPerm P2 r2 (i - r1) = i - r1 := (pσ2.2.2 (i - r1) (by omega)).1
      rw [e0, show r1 + (i - r1) = i by omega, (pσ1.2.2 i (by omega)).1, hzero i j (by omega)]
      symm
      have e1 : xsum r1 (fun t => (S.lowerFactor (r1 + r2)).get i t && (S.echelonFactor Q (r1 + r2)).get t j)
          = false := xsum_false (fun t ht => by rw [Le i t (by omega) hi (by omega)]; rfl)
      have e2 : xsum r2 (fun t => (S.lowerFactor (r1 + r2)).get i (r1 + t) &&
          (S.echelonFactor Q (r1 + r2)).get (r1 + t) j) = false :=
        xsum_false (fun t ht => by rw [Le i (r1 + t) (by omega) hi (by omega)]; rfl)
      rw [e1, e2]; rfl

/-- **assembly**: the two recursive certificates, the solved block `X01`, the Schur complement `X11`, the
    compressed storage and the merged `P`, `Q` make a certificate for `A` of rank `r1 + r2` -/
theorem ple_assemble (hA : Shaped A m n) (hnr : nr ≤ m) (hzero : ∀ i j, nr ≤ i → A.get i j = false) (hn1 : n1 ≤ n)
    (G1 : PLEGood (A.sub 0 0 nr n1) S0 P1 Q1 r1)
    (hX01 : ∀ i c, i < r1 → c < n - n1 →
      A.get (rowPerm P1 r1 i) (n1 + c) = xsum r1 (fun t => (S0.lowerFactor r1).get i t && X01.get t c))
    (hX11 : Shaped X11 (nr - r1) (n - n1))
    (hX11e : ∀ i c, i < nr - r1 → c < n - n1 → X11.get i c =
      (A.get (rowPerm P1 r1 (r1 + i)) (n1 + c) ^^ xsum r1 (fun t => S0.get (r1 + i) t && X01.get t c)))
    (G2 : PLEGood X11 S1 P2 Q2 r2)
    (hSr : S.nrows = m) (hSc : S.ncols = n) (hS : AsmStorage S S0 S1 X01 P2 m n nr n1 r1 r2)
    (hPs : P.size = m)
    (hP : ∀ i, i < m → P.getD i 0 =
      if i < r1 then P1.getD i 0 else if i < nr then r1 + P2.getD (i - r1) 0 else i)
    (hQs : Q.size = n) (hQ1 : ∀ i, i < r1 → Q.getD i 0 = Q1.getD i 0)
    (hQ2 : ∀ k, k < r2 → Q.getD (r1 + k) 0 = n1 + Q2.getD k 0) :
    PLEGood A S P Q (r1 + r2) :=
  asm_structure hA hnr hn1 G1 hX11 G2 hSr hSc hS hPs hP hQs hQ1 hQ2
    (asm_prod hA hnr hzero hn1 G1 hX01 hX11 hX11e G2 hSr hSc hS hPs hP hQ1 hQ2)

end assemble

/-! ### P6. one step of `pleRec`, in named stages -/

abbrev Out := BMat × Array Nat × Array Nat × Nat

/-- `A` after the first recursive call and the Schur-complement update -/
def schurStage (trsm : BMat → BMat → BMat) (A : BMat) (nr n1 ncols : Nat) (S0 : BMat) (P1 : Array Nat)
    (r1 : Nat) : BMat :=
  let A := A.paste 0 0 S0
  if r1 ≠ 0 then
    let A := A.paste 0 n1 ((A.sub 0 n1 nr ncols).applyPLeft P1)
    let A01 := trsm (A.sub 0 0 r1 r1) (A.sub 0 n1 r1 ncols)
    let A := A.paste 0 n1 A01
    A.paste r1 n1 ((A.sub r1 n1 nr ncols).add ((A.sub r1 0 nr r1).mul A01))
  else A

/-- `A` after the second recursive call, the permutation of `A10` and the compression of `L` -/
def finishStage (A4 : BMat) (nr n1 r1 : Nat) (S1 : BMat) (P2 : Array Nat) (r2 : Nat) : BMat :=
  let A := A4.paste r1 n1 S1
  let A := A.paste r1 0 ((A.sub r1 0 nr r1).applyPLeft P2)
  compressL A r1 n1 r2

def mergeP (m : Nat) (P1 : Array Nat) (r1 : Nat) (P2 : Array Nat) : Array Nat :=
  writeAt (writeAt (Array.range m) 0 P1) r1 (P2.map (· + r1))

def mergeQ (n : Nat) (Q1 : Array Nat) (r1 n1 : Nat) (Q2 : Array Nat) (r2 : Nat) : Array Nat :=
  rotQ (writeAt (writeAt (Array.range n) 0 Q1) n1 (Q2.map (· + n1))) r1 n1 r2

def pleStep (rec : BMat → Out) (trsm : BMat → BMat → BMat) (base : BMat → Out) (baseCols cutoff : Nat)
    (A : BMat) : Out :=
  if firstZeroRow A = 0 then (A, Array.range A.nrows, Array.range A.ncols, 0) else
  if A.ncols ≤ baseCols ∨ ((A.ncols + 63) / 64) * A.nrows ≤ cutoff then base A else
  let nr := firstZeroRow A
  let n1 := splitPoint A.ncols
  let o1 := rec (A.sub 0 0 nr n1)
  let A4 := schurStage trsm A nr n1 A.ncols o1.1 o1.2.1 o1.2.2.2
  let o2 := rec (A4.sub o1.2.2.2 n1 nr A.ncols)
  (finishStage A4 nr n1 o1.2.2.2 o2.1 o2.2.1 o2.2.2.2,
    mergeP A.nrows o1.2.1 o1.2.2.2 o2.2.1,
    mergeQ A.ncols o1.2.2.1 o1.2.2.2 n1 o2.2.2.1 o2.2.2.2,
    o1.2.2.2 + o2.2.2.2)

theorem pleRec_succ (base : BMat → Out) (baseCols cutoff baseRows fuel : Nat) (A : BMat) :
    pleRec base baseCols cutoff baseRows (fuel + 1) A =
      pleStep (pleRec base baseCols cutoff baseRows fuel) (trsmLowerLeftRec baseRows fuel) base baseCols cutoff A :=
  rfl

/-! ### P7. the stages, entry by entry -/

/-- writing a block of known dimensions (not necessarily well-formed) -/
theorem get_paste_dims {D X : BMat} {m n : Nat} (hD : Shaped D m n) (r0 c0 a b : Nat) (hXr : X.nrows = a)
    (hXc : X.ncols = b) (hr : r0 + a ≤ m) (i j : Nat) :
    (D.paste r0 c0 X).get i j =
      if r0 ≤ i ∧ i < r0 + a ∧ c0 ≤ j ∧ j < c0 + b then X.get (i - r0) (j - c0) else D.get i j := by
  rw [hD.get_paste, hXr, hXc]
  by_cases h : r0 ≤ i ∧ i < r0 + a ∧ c0 ≤ j ∧ j < c0 + b
  · rw [if_pos h, if_pos (by omega)]
  · rw [if_neg h, if_neg (by omega)]

theorem rowPerm_zero (P : Array Nat) (i : Nat) : rowPerm P 0 i = i := rfl

/-- a row permutation of a well-formed matrix: shape and entries -/
theorem applyPLeft_spec {M : BMat} {a b : Nat} (hM : Shaped M a b) {P : Array Nat} (hPs : P.size = a)
    (hP : ∀ i, i < a → P.getD i 0 < a) (r : Nat) (hr : r ≤ a) (ht : ∀ i, r ≤ i → i < a → P.getD i 0 = i) :
    Shaped (M.applyPLeft P) a b ∧ (∀ i j, (M.applyPLeft P).get i j = M.get (rowPerm P r i) j) ∧
      PermOn a (rowPerm P r) (rowPermInv P r) := by
  obtain ⟨_, hget, hwf, _⟩ := applyPLeft_eq_perm hM.wf (by rw [hPs, hM.nr]) (by rw [hM.nr]; exact hP)
  have sh := applyPLeft_shape M P
  refine ⟨⟨hwf, by rw [sh.1, hM.nr], by rw [sh.2.1, hM.nc]⟩, fun i j => ?_,
    rowPerm_permOn P a r hr (fun t ht' => hP t (by omega))⟩
  rw [hget, hM.nr, rowPerm_tail P r a hr ht]

/-- **the Schur-complement stage**: what `A` holds between the two recursive calls -/
theorem schurStage_spec {A S0 : BMat} {P1 Q1 : Array Nat} {m n nr n1 r1 : Nat} (trsm : BMat → BMat → BMat)
    (htrsm : ∀ L B, B.WF → L.nrows = B.nrows → trsm L B = trsmLowerLeft L B)
    (hA : Shaped A m n) (hnr : nr ≤ m) (hn1 : n1 ≤ n)
    (G1 : PLEGood (A.sub 0 0 nr n1) S0 P1 Q1 r1) :
    ∃ X01 X11 : BMat, Shaped X11 (nr - r1) (n - n1) ∧
      (∀ i c, i < r1 → c < n - n1 →
        A.get (rowPerm P1 r1 i) (n1 + c) = xsum r1 (fun t => (S0.lowerFactor r1).get i t && X01.get t c)) ∧
      (∀ i c, i < nr - r1 → c < n - n1 → X11.get i c =
        (A.get (rowPerm P1 r1 (r1 + i)) (n1 + c) ^^ xsum r1 (fun t => S0.get (r1 + i) t && X01.get t c))) ∧
      Shaped (schurStage trsm A nr n1 n S0 P1 r1) m n ∧
      (schurStage trsm A nr n1 n S0 P1 r1).sub r1 n1 nr n = X11 ∧
      (∀ i j, (schurStage trsm A nr n1 n S0 P1 r1).get i j =
        if i < nr ∧ j < n1 then S0.get i j
        else if i < r1 ∧ n1 ≤ j ∧ j < n then X01.get i (j - n1)
        else if r1 ≤ i ∧ i < nr ∧ n1 ≤ j ∧ j < n then X11.get (i - r1) (j - n1)
        else A.get i j) := by
  have sA0 : Shaped (A.sub 0 0 nr n1) nr n1 := by simpa using hA.sub 0 0 nr n1 hnr
  have g1 := G1.ple
  have s0r : S0.nrows = nr := by rw [g1.nrows_eq, sA0.nr]
  have s0c : S0.ncols = n1 := by rw [g1.ncols_eq, sA0.nc]
  have r1nr : r1 ≤ nr := by have := g1.r_le_nrows; rwa [sA0.nr] at this
  have r1n1 : r1 ≤ n1 := by have := g1.r_le_ncols; rwa [sA0.nc] at this
  have p1s : P1.size = nr := by rw [g1.P_size, sA0.nr]
  have p1l : ∀ i, i < nr → P1.getD i 0 < nr := fun i hi => by
    have := g1.P_lapack i (by rw [sA0.nr]; exact hi); rw [sA0.nr] at this; exact this.2
  have p1t : ∀ i, r1 ≤ i → i < nr → P1.getD i 0 = i := fun i h1 h2 => G1.tail i h1 (by rw [sA0.nr]; exact h2)
  -- stage 1
  have sh1 : Shaped (A.paste 0 0 S0) m n := hA.paste S0 0 0 (by rw [s0c]; omega)
  have e1 : ∀ i j, (A.paste 0 0 S0).get i j = if i < nr ∧ j < n1 then S0.get i j else A.get i j := by
    intro i j
    rw [get_paste_dims hA 0 0 nr n1 s0r s0c (by omega)]
    by_cases h : i < nr ∧ j < n1
    · rw [if_pos (by omega), if_pos h]; rfl
    · rw [if_neg (by omega), if_neg h]
  unfold schurStage
  simp only []
  generalize hSt1 : A.paste 0 0 S0 = St1 at sh1 e1
  by_cases hr1 : r1 = 0
  · -- nothing happens
    subst hr1
    rw [if_neg (by simp)]
    have sX11 : Shaped (St1.sub 0 n1 nr n) (nr - 0) (n - n1) := sh1.sub 0 n1 nr n hnr
    refine ⟨zero 0 (n - n1), St1.sub 0 n1 nr n, sX11, fun i c hi => by omega, fun i c hi hc => ?_, sh1, rfl,
      fun i j => ?_⟩
    · rw [get_sub_in _ _ _ _ _ _ _ (by omega) (by rw [sh1.nr]; omega) (by omega), e1, if_neg (by omega)]
      simp [rowPerm_zero]
    · rw [e1]
      by_cases h : i < nr ∧ j < n1
      · rw [if_pos h, if_pos h]
      · rw [if_neg h, if_neg h, if_neg (by omega)]
        by_cases h2 : 0 ≤ i ∧ i < nr ∧ n1 ≤ j ∧ j < n
        · rw [if_pos h2, get_sub_in _ _ _ _ _ _ _ (by omega) (by rw [sh1.nr]; omega) (by omega), e1,
            if_neg (by omega)]
          congr 1 <;> omega
        · rw [if_neg h2]
  · rw [if_pos hr1]
    -- stage 2: the permuted right half
    have sA1 : Shaped (St1.sub 0 n1 nr n) nr (n - n1) := by simpa using sh1.sub 0 n1 nr n hnr
    obtain ⟨sX1, eX1, pσ1⟩ := applyPLeft_spec sA1 p1s p1l r1 r1nr p1t
    have eX1' : ∀ i c, i < nr → c < n - n1 →
        ((St1.sub 0 n1 nr n).applyPLeft P1).get i c = A.get (rowPerm P1 r1 i) (n1 + c) := by
      intro i c hi hc
      have hlt := (pσ1.1 i hi).1
      rw [eX1, get_sub_in _ _ _ _ _ _ _ (by omega) (by rw [sh1.nr]; omega) (by omega), e1, if_neg (by omega),
        Nat.zero_add]
    generalize hX1 : (St1.sub 0 n1 nr n).applyPLeft P1 = X1 at sX1 eX1'
    have sh2 : Shaped (St1.paste 0 n1 X1) m n := sh1.paste X1 0 n1 (by rw [sX1.nc]; omega)
    have e2 : ∀ i j, (St1.paste 0 n1 X1).get i j =
        if i < nr ∧ n1 ≤ j ∧ j < n then X1.get i (j - n1) else St1.get i j := by
      intro i j
      rw [get_paste_dims sh1 0 n1 nr (n - n1) sX1.nr sX1.nc (by omega)]
      by_cases h : i < nr ∧ n1 ≤ j ∧ j < n
      · rw [if_pos (by omega), if_pos h]; rfl
      · rw [if_neg (by omega), if_neg h]
    generalize hSt2 : St1.paste 0 n1 X1 = St2 at sh2 e2
    -- the triangular solve
    have sB01 : Shaped (St2.sub 0 n1 r1 n) r1 (n - n1) := by simpa using sh2.sub 0 n1 r1 n (by omega)
    have hL00r : (St2.sub 0 0 r1 r1).nrows = r1 := by rw [nrows_sub, sh2.nr]; omega
    rw [htrsm _ _ sB01.wf (by rw [hL00r, sB01.nr])]
    have sX01 : Shaped (trsmLowerLeft (St2.sub 0 0 r1 r1) (St2.sub 0 n1 r1 n)) r1 (n - n1) :=
      ⟨trsmLowerLeft_WF _ sB01.wf, by rw [trsmLowerLeft_nrows, sB01.nr], by rw [trsmLowerLeft_ncols, sB01.nc]⟩
    have hsolve : ∀ i c, i < r1 → c < n - n1 →
        A.get (rowPerm P1 r1 i) (n1 + c) = xsum r1 (fun t => (S0.lowerFactor r1).get i t &&
          (trsmLowerLeft (St2.sub 0 0 r1 r1) (St2.sub 0 n1 r1 n)).get t c) := by
      intro i c hi hc
      have h := trsmLowerLeft_spec_get (St2.sub 0 0 r1 r1) (St2.sub 0 n1 r1 n) (by rw [hL00r, sB01.nr])
        (by rw [ncols_sub, sB01.nr]; omega) sB01.wf.1 i c (by rw [sB01.nr]; exact hi)
      rw [get_sub_in _ _ _ _ _ _ _ (by omega) (by rw [sh2.nr]; omega) (by omega), e2, if_pos (by omega),
        show n1 + c - n1 = c by omega, Nat.zero_add, eX1' i c (by omega) hc] at h
      rw [← h, dotSpec_T, unitLower_ncols, ncols_sub, Nat.sub_zero]
      apply xsum_congr
      intro t ht
      rw [unitLower_get, lowerFactor_get, hL00r, s0r]
      have a1 : i < nr := by omega
      by_cases hti : t < i
      · have e : (St2.sub 0 0 r1 r1).get i t = S0.get i t := by
          rw [get_sub_in _ _ _ _ _ _ _ (by omega) (by rw [sh2.nr]; omega) (by omega), e2, if_neg (by omega), e1,
            if_pos (by omega), Nat.zero_add, Nat.zero_add]
        have a2 : ¬ t = i := by omega
        simp [hi, a1, hti, ht, e, a2]
      · simp [hi, a1, hti]
    generalize hX01 : trsmLowerLeft (St2.sub 0 0 r1 r1) (St2.sub 0 n1 r1 n) = X01 at sX01 hsolve
    have sh3 : Shaped (St2.paste 0 n1 X01) m n := sh2.paste X01 0 n1 (by rw [sX01.nc]; omega)
    have e3 : ∀ i j, (St2.paste 0 n1 X01).get i j =
        if i < r1 ∧ n1 ≤ j ∧ j < n then X01.get i (j - n1) else St2.get i j := by
      intro i j
      rw [get_paste_dims sh2 0 n1 r1 (n - n1) sX01.nr sX01.nc (by omega)]
      by_cases h : i < r1 ∧ n1 ≤ j ∧ j < n
      · rw [if_pos (by omega), if_pos h]; rfl
      · rw [if_neg (by omega), if_neg h]
    generalize hSt3 : St2.paste 0 n1 X01 = St3 at sh3 e3
    -- the Schur complement
    have sA10 : Shaped (St3.sub r1 0 nr r1) (nr - r1) r1 := by simpa using sh3.sub r1 0 nr r1 hnr
    have sA11 : Shaped (St3.sub r1 n1 nr n) (nr - r1) (n - n1) := sh3.sub r1 n1 nr n hnr
    have sX11 : Shaped ((St3.sub r1 n1 nr n).add ((St3.sub r1 0 nr r1).mul X01)) (nr - r1) (n - n1) :=
      sA11.add (sA10.mul sX01)
    have eX11 : ∀ i c, i < nr - r1 → c < n - n1 →
        ((St3.sub r1 n1 nr n).add ((St3.sub r1 0 nr r1).mul X01)).get i c =
          (A.get (rowPerm P1 r1 (r1 + i)) (n1 + c) ^^ xsum r1 (fun t => S0.get (r1 + i) t && X01.get t c)) := by
      intro i c hi hc
      rw [sA11.get_add (sA10.mul sX01), get_sub_in _ _ _ _ _ _ _ (by omega) (by rw [sh3.nr]; omega) (by omega),
        e3, if_neg (by omega), e2, if_pos (by omega), show n1 + c - n1 = c by omega, eX1' _ c (by omega) hc,
        mul_get _ _ _ _ (by rw [sA10.nr]; exact hi), dotSpec_T, sA10.nc]
      congr 1
      apply xsum_congr
      intro t ht
      rw [get_sub_in _ _ _ _ _ _ _ (by omega) (by rw [sh3.nr]; omega) (by omega), e3, if_neg (by omega), e2,
        if_neg (by omega), e1, if_pos (by omega), Nat.zero_add]
    generalize hX11 : (St3.sub r1 n1 nr n).add ((St3.sub r1 0 nr r1).mul X01) = X11 at sX11 eX11
    have sh4 : Shaped (St3.paste r1 n1 X11) m n := sh3.paste X11 r1 n1 (by rw [sX11.nc]; omega)
    refine ⟨X01, X11, sX11, hsolve, eX11, sh4, sh3.sub_paste_same r1 n1 nr n sX11 hnr hn1 (Nat.le_refl n),
      fun i j => ?_⟩
    rw [get_paste_dims sh3 r1 n1 (nr - r1) (n - n1) sX11.nr sX11.nc (by omega)]
    by_cases h1 : i < nr ∧ j < n1
    · rw [if_neg (by omega), if_pos h1, e3, if_neg (by omega), e2, if_neg (by omega), e1, if_pos h1]
    · rw [if_neg h1]
      by_cases h2 : i < r1 ∧ n1 ≤ j ∧ j < n
      · rw [if_neg (by omega), if_pos h2, e3, if_pos h2]
      · rw [if_neg h2]
        by_cases h3 : r1 ≤ i ∧ i < nr ∧ n1 ≤ j ∧ j < n
        · rw [if_pos (by omega), if_pos h3]
        · rw [if_neg (by omega), if_neg h3, e3, if_neg h2, e2, if_neg (by omega), e1, if_neg h1]

theorem compressL_shape (A : BMat) (r1 n1 r2 : Nat) :
    (compressL A r1 n1 r2).nrows = A.nrows ∧ (compressL A r1 n1 r2).ncols = A.ncols := by
  rw [compressL_eq]
  split
  · exact ⟨rfl, rfl⟩
  · have sh := compressSwaps_shape A r1 n1 r2 r2
    exact ⟨sh.1, sh.2.1⟩

/-- **the final stage**: the storage `_mzd_ple` returns, in terms of the two recursive results -/
theorem finishStage_spec {A A4 S0 S1 X01 X11 : BMat} {P2 : Array Nat} {m n nr n1 r1 r2 : Nat}
    (hzero : ∀ i j, nr ≤ i → A.get i j = false) (hnr : nr ≤ m) (hn1 : n1 ≤ n) (r1nr : r1 ≤ nr) (r1n1 : r1 ≤ n1)
    (hA4 : Shaped A4 m n)
    (e4 : ∀ i j, A4.get i j =
        if i < nr ∧ j < n1 then S0.get i j
        else if i < r1 ∧ n1 ≤ j ∧ j < n then X01.get i (j - n1)
        else if r1 ≤ i ∧ i < nr ∧ n1 ≤ j ∧ j < n then X11.get (i - r1) (j - n1)
        else A.get i j)
    (hout : ∀ i j, r1 ≤ i → i < nr → r1 ≤ j → j < n1 → S0.get i j = false)
    (s1r : S1.nrows = nr - r1) (s1c : S1.ncols = n - n1) (r2nr : r2 ≤ nr - r1) (r2nc : r2 ≤ n - n1)
    (p2s : P2.size = nr - r1) (p2l : ∀ i, i < nr - r1 → P2.getD i 0 < nr - r1)
    (p2t : ∀ i, r2 ≤ i → i < nr - r1 → P2.getD i 0 = i) :
    (finishStage A4 nr n1 r1 S1 P2 r2).nrows = m ∧ (finishStage A4 nr n1 r1 S1 P2 r2).ncols = n ∧
      AsmStorage (finishStage A4 nr n1 r1 S1 P2 r2) S0 S1 X01 P2 m n nr n1 r1 r2 := by
  unfold finishStage
  simp only []
  have sh5 : Shaped (A4.paste r1 n1 S1) m n := hA4.paste S1 r1 n1 (by rw [s1c]; omega)
  have e5 : ∀ i j, (A4.paste r1 n1 S1).get i j =
      if r1 ≤ i ∧ i < nr ∧ n1 ≤ j ∧ j < n then S1.get (i - r1) (j - n1) else A4.get i j := by
    intro i j
    rw [get_paste_dims hA4 r1 n1 (nr - r1) (n - n1) s1r s1c (by omega)]
    by_cases h : r1 ≤ i ∧ i < nr ∧ n1 ≤ j ∧ j < n
    · rw [if_pos (by omega), if_pos h]
    · rw [if_neg (by omega), if_neg h]
  generalize hSt5 : A4.paste r1 n1 S1 = St5 at sh5 e5
  have sA10 : Shaped (St5.sub r1 0 nr r1) (nr - r1) r1 := by simpa using sh5.sub r1 0 nr r1 hnr
  obtain ⟨sX, eX, pσ2⟩ := applyPLeft_spec sA10 p2s p2l r2 r2nr p2t
  have eX' : ∀ i j, i < nr - r1 → j < r1 →
      ((St5.sub r1 0 nr r1).applyPLeft P2).get i j = S0.get (r1 + rowPerm P2 r2 i) j := by
    intro i j hi hj
    have hlt := (pσ2.1 i hi).1
    rw [eX, get_sub_in _ _ _ _ _ _ _ (by omega) (by rw [sh5.nr]; omega) (by omega), e5, if_neg (by omega), e4,
      if_pos (by omega), Nat.zero_add]
  generalize hXp : (St5.sub r1 0 nr r1).applyPLeft P2 = A10p at sX eX'
  have sh6 : Shaped (St5.paste r1 0 A10p) m n := sh5.paste A10p r1 0 (by rw [sX.nc]; omega)
  have e6 : ∀ i j, (St5.paste r1 0 A10p).get i j =
      if r1 ≤ i ∧ i < nr ∧ j < r1 then A10p.get (i - r1) j else St5.get i j := by
    intro i j
    rw [get_paste_dims sh5 r1 0 (nr - r1) r1 sX.nr sX.nc (by omega)]
    by_cases h : r1 ≤ i ∧ i < nr ∧ j < r1
    · rw [if_pos (by omega), if_pos h]; rfl
    · rw [if_neg (by omega), if_neg h]
  generalize hSt6 : St5.paste r1 0 A10p = St6 at sh6 e6
  have E6z : ∀ i j, nr ≤ i → St6.get i j = false := by
    intro i j hi
    rw [e6, if_neg (by omega), e5, if_neg (by omega), e4, if_neg (by omega), if_neg (by omega), if_neg (by omega),
      hzero i j hi]
  have E6t : ∀ i j, i < r1 → j < n → St6.get i j = if j < n1 then S0.get i j else X01.get i (j - n1) := by
    intro i j hi hj
    rw [e6, if_neg (by omega), e5, if_neg (by omega), e4]
    by_cases h : j < n1
    · rw [if_pos (by omega), if_pos h]
    · rw [if_neg (by omega), if_pos (by omega), if_neg h]
  have E6b : ∀ i j, r1 ≤ i → i < nr → j < n → St6.get i j =
      if j < r1 then S0.get (r1 + rowPerm P2 r2 (i - r1)) j
      else if j < n1 then S0.get i j else S1.get (i - r1) (j - n1) := by
    intro i j h1 h2 hj
    rw [e6]
    by_cases c1 : j < r1
    · rw [if_pos (by omega), if_pos c1, eX' (i - r1) j (by omega) c1]
    · rw [if_neg (by omega), if_neg c1, e5]
      by_cases c2 : j < n1
      · rw [if_neg (by omega), if_pos c2, e4, if_pos (by omega)]
      · rw [if_pos (by omega), if_neg c2]
  have hz : ∀ i j, r1 ≤ i → i < r1 + r2 → r1 ≤ j → j < n1 → St6.get i j = false := by
    intro i j h1 h2 h3 h4
    have c1 : ¬ j < r1 := by omega
    rw [E6b i j h1 (by omega) (by omega), if_neg c1, if_pos h4]
    exact hout i j h1 (by omega) h3 h4
  have shp := compressL_shape St6 r1 n1 r2
  refine ⟨by rw [shp.1, sh6.nr], by rw [shp.2, sh6.nc], ?_⟩
  intro i j hi hj
  rw [compressL_get St6 r1 n1 r2 r1n1 hz]
  by_cases c0 : nr ≤ i
  · rw [if_pos c0]
    simp only [E6z _ _ c0]
    split_ifs <;> rfl
  · rw [if_neg c0]
    by_cases c1 : i < r1
    · rw [if_pos c1, if_pos c1, E6t i j c1 hj]
    · rw [if_neg c1, if_neg c1]
      by_cases c2 : i < r1 + r2
      · rw [if_pos c2, if_pos c2]
        by_cases d1 : j < r1
        · rw [if_pos d1, if_pos d1, E6b i j (by omega) (by omega) hj, if_pos d1]
        · rw [if_neg d1, if_neg d1]
          by_cases d2 : j ≤ i
          · have c3 : ¬ n1 + (j - r1) < r1 := by omega
            have c4 : ¬ n1 + (j - r1) < n1 := by omega
            rw [if_pos d2, if_pos d2, E6b i _ (by omega) (by omega) (by omega), if_neg c3, if_neg c4]
            congr 1; omega
          · rw [if_neg d2, if_neg d2]
            by_cases d3 : j ≤ n1 + (i - r1)
            · rw [if_pos d3, if_pos d3]
            · have c4 : ¬ j < n1 := by omega
              rw [if_neg d3, if_neg d3, E6b i j (by omega) (by omega) hj, if_neg d1, if_neg c4]
      · rw [if_neg c2, if_neg c2]
        by_cases d1 : j < r1
        · rw [if_pos d1, if_pos d1, E6b i j (by omega) (by omega) hj, if_pos d1]
        · rw [if_neg d1, if_neg d1]
          by_cases d2 : j < r1 + r2
          · have c3 : ¬ n1 + (j - r1) < r1 := by omega
            have c4 : ¬ n1 + (j - r1) < n1 := by omega
            rw [if_pos d2, if_pos d2, E6b i _ (by omega) (by omega) (by omega), if_neg c3, if_neg c4]
            congr 1; omega
          · rw [if_neg d2, if_neg d2]
            by_cases d3 : j < n1 + r2
            · rw [if_pos d3, if_pos d3]
            · have c4 : ¬ j < n1 := by omega
              rw [if_neg d3, if_neg d3, E6b i j (by omega) (by omega) hj, if_neg d1, if_neg c4]

/-! ### P8. the merged permutations -/

theorem getD_range (m i : Nat) (hi : i < m) : (Array.range m).getD i 0 = i := by
  simp [Array.getD, hi]

theorem getD_map_add (P : Array Nat) (c k : Nat) (hk : k < P.size) : (P.map (· + c)).getD k 0 = P.getD k 0 + c := by
  simp [Array.getD, hk]

theorem mergeP_spec (m nr r1 : Nat) (P1 P2 : Array Nat) (_hnr : nr ≤ m) (hr1 : r1 ≤ nr) (p1s : P1.size = nr)
    (p2s : P2.size = nr - r1) :
    (mergeP m P1 r1 P2).size = m ∧ ∀ i, i < m → (mergeP m P1 r1 P2).getD i 0 =
      if i < r1 then P1.getD i 0 else if i < nr then r1 + P2.getD (i - r1) 0 else i := by
  unfold mergeP
  refine ⟨by simp, fun i hi => ?_⟩
  rw [getD_writeAt _ _ _ _ (by simpa using hi), Array.size_map, p2s]
  by_cases c1 : i < r1
  · rw [if_neg (by omega), if_pos c1, getD_writeAt _ _ _ _ (by simpa using hi), p1s, if_pos (by omega)]; rfl
  · rw [if_neg c1]
    by_cases c2 : i < nr
    · rw [if_pos (by omega), if_pos c2, getD_map_add _ _ _ (by omega)]; omega
    · rw [if_neg (by omega), if_neg c2, getD_writeAt _ _ _ _ (by simpa using hi), p1s, if_neg (by omega),
        getD_range m i hi]

theorem mergeQ_spec (n n1 r1 r2 : Nat) (Q1 Q2 : Array Nat) (hn1 : n1 ≤ n) (hr1 : r1 ≤ n1) (hr2 : r2 ≤ n - n1)
    (q1s : Q1.size = n1) (q2s : Q2.size = n - n1) :
    (mergeQ n Q1 r1 n1 Q2 r2).size = n ∧
      (∀ i, i < r1 → (mergeQ n Q1 r1 n1 Q2 r2).getD i 0 = Q1.getD i 0) ∧
      (∀ k, k < r2 → (mergeQ n Q1 r1 n1 Q2 r2).getD (r1 + k) 0 = n1 + Q2.getD k 0) := by
  unfold mergeQ
  obtain ⟨hs, hg⟩ := rotQ_spec (writeAt (writeAt (Array.range n) 0 Q1) n1 (Q2.map (· + n1))) r1 n1 hr1 r2
  have hsz : (writeAt (writeAt (Array.range n) 0 Q1) n1 (Q2.map (· + n1))).size = n := by simp
  refine ⟨by rw [hs, hsz], fun i hi => ?_, fun k hk => ?_⟩
  · rw [hg, if_neg (by omega), getD_writeAt _ _ _ _ (by simp; omega), Array.size_map, q2s, if_neg (by omega),
      getD_writeAt _ _ _ _ (by simp; omega), q1s, if_pos (by omega)]; rfl
  · rw [hg, hsz, if_pos (by omega), getD_writeAt _ _ _ _ (by simp; omega), Array.size_map, q2s,
      if_pos (by omega), getD_map_add _ _ _ (by omega)]
    have : n1 + (r1 + k - r1) - n1 = k := by omega
    rw [this]; omega

/-! ### P9. the theorem -/

/-- the zero matrix is its own decomposition of rank 0 -/
theorem ple_zero {A : BMat} (hA : A.WF) (h : firstZeroRow A = 0) :
    PLEGood A A (Array.range A.nrows) (Array.range A.ncols) 0 := by
  have hz : ∀ i j, A.get i j = false := fun i j => get_of_ge_firstZeroRow hA i j (by omega)
  refine ⟨⟨rfl, rfl, Nat.zero_le _, Nat.zero_le _, by simp, fun i hi => ?_, by simp, fun i hi => by omega,
    fun i j _ hj => by omega, fun i hi => by omega, fun i j hi => by omega, fun i j _ _ _ _ => hz i j,
    fun i j hi hj => ?_⟩, fun i _ hi => getD_range _ i hi⟩
  · rw [getD_range _ i hi]; omega
  · obtain ⟨_, hget, _, _⟩ := applyPLeft_eq_perm (P := Array.range A.nrows) hA (by simp)
      (fun i hi => by rw [getD_range _ i hi]; exact hi)
    rw [hget, hz, dotSpec_T, lowerFactor_ncols]; rfl

/-- `PLEGood` of a 4-tuple -/
def GoodOut (A : BMat) (o : Out) : Prop := PLEGood A o.1 o.2.1 o.2.2.1 o.2.2.2

/-- **one step of `_mzd_ple`**: if the two recursive calls (whatever computes them) return good certificates
    for the two sub-problems this step poses, and the base case does for `A` itself, then the step returns a
    good certificate for `A`.  `trsm` is any routine that agrees with forward substitution. -/
theorem pleStep_spec (rec : BMat → Out) (trsm : BMat → BMat → BMat) (base : BMat → Out) (baseCols cutoff : Nat)
    (htrsm : ∀ L B, B.WF → L.nrows = B.nrows → trsm L B = trsmLowerLeft L B)
    {A : BMat} (hA : A.WF) (hb : GoodOut A (base A))
    (h1 : GoodOut (A.sub 0 0 (firstZeroRow A) (splitPoint A.ncols))
      (rec (A.sub 0 0 (firstZeroRow A) (splitPoint A.ncols))))
    (h2 : let o1 := rec (A.sub 0 0 (firstZeroRow A) (splitPoint A.ncols))
      let A11 := (schurStage trsm A (firstZeroRow A) (splitPoint A.ncols) A.ncols o1.1 o1.2.1 o1.2.2.2).sub
        o1.2.2.2 (splitPoint A.ncols) (firstZeroRow A) A.ncols
      GoodOut A11 (rec A11)) :
    GoodOut A (pleStep rec trsm base baseCols cutoff A) := by
  unfold pleStep
  split
  · next h0 => exact ple_zero hA h0
  · split
    · exact hb
    · simp only [] at h2 ⊢
      have sA : Shaped A A.nrows A.ncols := Shaped.of hA
      have hnr := firstZeroRow_le A
      have hn1 := splitPoint_le A.ncols
      have hzero : ∀ i j, firstZeroRow A ≤ i → A.get i j = false := fun i j h => get_of_ge_firstZeroRow hA i j h
      generalize firstZeroRow A = nr at *
      generalize splitPoint A.ncols = n1 at *
      generalize rec (A.sub 0 0 nr n1) = o1 at h1 h2 ⊢
      obtain ⟨S0, P1, Q1, r1⟩ := o1
      unfold GoodOut at h1
      simp only [] at h1 h2 ⊢
      obtain ⟨X01, X11, sX11, hX01, hX11e, sh4, hsub, e4⟩ := schurStage_spec trsm htrsm sA hnr hn1 h1
      rw [hsub] at h2 ⊢
      generalize rec X11 = o2 at h2 ⊢
      obtain ⟨S1, P2, Q2, r2⟩ := o2
      unfold GoodOut at h2 ⊢
      simp only [] at h2 ⊢
      obtain ⟨s0r, s0c, r1nr, r1n1, p1s, p1l, p1t, q1r, s1r, s1c, r2nr, r2nc, p2s, p2l, p2t, q2r⟩ :=
        asm_basic sA hnr h1 sX11 h2
      have sA0 : Shaped (A.sub 0 0 nr n1) nr n1 := by simpa using sA.sub 0 0 nr n1 hnr
      have hout : ∀ i j, r1 ≤ i → i < nr → r1 ≤ j → j < n1 → S0.get i j = false := by
        intro i j c1 c2 c3 c4
        exact h1.ple.outside i j c1 (by rw [sA0.nr]; exact c2) c3 (by rw [sA0.nc]; exact c4)
      obtain ⟨hSr, hSc, hS⟩ := finishStage_spec (X11 := X11) hzero hnr hn1 r1nr r1n1 sh4 e4 hout s1r s1c r2nr r2nc
        p2s (fun i hi => (p2l i hi).2) p2t
      obtain ⟨hPs, hP⟩ := mergeP_spec A.nrows nr r1 P1 P2 hnr r1nr p1s p2s
      have q1s : Q1.size = n1 := by rw [h1.ple.Q_size, sA0.nc]
      have q2s : Q2.size = A.ncols - n1 := by rw [h2.ple.Q_size, sX11.nc]
      obtain ⟨hQs, hQ1, hQ2⟩ := mergeQ_spec A.ncols n1 r1 r2 Q1 Q2 hn1 r1n1 r2nc q1s q2s
      exact ple_assemble sA hnr hzero hn1 h1 hX01 sX11 hX11e h2 hSr hSc hS hPs hP hQs hQ1 hQ2

/-- the hypothesis on the base case: its output is a PLE certificate (what `checkPLE` accepts) whose row
    permutation fixes the rows from the rank on -/
def GoodBase (base : BMat → Out) : Prop := ∀ A : BMat, A.WF → GoodOut A (base A)

/-- **C03, recursive PLE**: for every fuel and all regime parameters, if the base case returns good
    certificates then so does the block-recursive `_mzd_ple`. -/
theorem pleRec_spec {base : BMat → Out} (hbase : GoodBase base) (baseCols cutoff baseRows fuel : Nat)
    {A : BMat} (hA : A.WF) : GoodOut A (pleRec base baseCols cutoff baseRows fuel A) := by
  induction fuel generalizing A with
  | zero => exact hbase A hA
  | succ fuel ih =>
    rw [pleRec_succ]
    exact pleStep_spec _ _ base baseCols cutoff (fun L B hB h => trsmLowerLeftRec_eq _ _ hB h) hA (hbase A hA)
      (ih (WF_sub _ _ _ _ _)) (ih (WF_sub _ _ _ _ _))

/-- what `pleRec_spec` gives to a user of `checkPLE`'s meaning: an `IsPLE` certificate, hence (`IsPLE.rankCert`,
    `IsPLE.profile` of `Checkers.lean`) the rank and the rank profile -/
theorem pleRec_isPLE {base : BMat → Out} (hbase : GoodBase base) (baseCols cutoff baseRows fuel : Nat)
    {A : BMat} (hA : A.WF) :
    IsPLE A (pleRec base baseCols cutoff baseRows fuel A).1 (pleRec base baseCols cutoff baseRows fuel A).2.1
      (pleRec base baseCols cutoff baseRows fuel A).2.2.1 (pleRec base baseCols cutoff baseRows fuel A).2.2.2 :=
  (pleRec_spec hbase baseCols cutoff baseRows fuel hA).ple

theorem pleRec_rank {base : BMat → Out} (hbase : GoodBase base) (baseCols cutoff baseRows fuel : Nat)
    {A : BMat} (hA : A.WF) : RankCert A (pleRec base baseCols cutoff baseRows fuel A).2.2.2 :=
  (pleRec_isPLE hbase baseCols cutoff baseRows fuel hA).rankCert hA

/-! ### P10. non-vacuity, and why `checkPLE`-acceptance of the base case alone is not enough -/

/-- the naive routine as a base case -/
def naiveBase (A : BMat) : Out := pleNaive A (Array.replicate A.nrows 0) (Array.replicate A.ncols 0)

/-- a 3 × 66 matrix (two words): rows `e0 + e64`, `e0`, `e0 + e65` -/
def exA : BMat := ⟨3, 66, #[1 ||| 2 ^ 64, 1, 1 ||| 2 ^ 65]⟩

theorem exA_WF : exA.WF := by
  refine ⟨rfl, fun i => ?_⟩
  by_cases h : i < 3
  · have : i = 0 ∨ i = 1 ∨ i = 2 := by omega
    rcases this with rfl | rfl | rfl <;> decide
  · rw [row_of_ge _ _ (by simpa [exA] using h)]; exact Nat.two_pow_pos _

theorem goodOut_of_check {A : BMat} {o : Out} (h1 : checkPLE A o.1 o.2.1 o.2.2.1 o.2.2.2 = true)
    (h2 : ∀ i, o.2.2.2 ≤ i → i < A.nrows → o.2.1.getD i 0 = i) : GoodOut A o :=
  ⟨checkPLE_sound h1, h2⟩

/-- non-vacuity of `pleStep_spec`: on `exA` the recursion is entered (`ncols = 66 > 64`, split at 64), and the
    naive routine returns good certificates for the two sub-problems (3 × 64 and 2 × 2) -/
example : GoodOut exA (pleStep naiveBase trsmLowerLeft naiveBase 64 0 exA) := by
  apply pleStep_spec naiveBase trsmLowerLeft naiveBase 64 0 (fun _ _ _ _ => rfl) exA_WF
  · exact goodOut_of_check (by decide +kernel) (by decide +kernel)
  · exact goodOut_of_check (by decide +kernel) (by decide +kernel)
  · exact goodOut_of_check (by decide +kernel) (by decide +kernel)

/-- a base case whose certificates `checkPLE` accepts but whose `P` moves a row below the rank:
    the naive certificate with the rows `r`, `r+1` of the storage exchanged and `P[r] = r + 1` -/
def badBase (A : BMat) : Out :=
  let o := naiveBase A
  if o.2.2.2 + 1 < A.nrows then
    (o.1.swapRows o.2.2.2 (o.2.2.2 + 1), o.2.1.setIfInBounds o.2.2.2 (o.2.2.2 + 1), o.2.2.1, o.2.2.2)
  else o

/-- **the tail clause of `PLEGood` cannot be dropped**: with `badBase` for the recursive calls both
    sub-problems of the step on `exA` get certificates that `checkPLE` accepts (so `IsPLE` holds for them),
    but the certificate the step returns for `exA` violates `P·A = L·E` at entry `(1, 65)`. -/
theorem pleStep_needs_tail :
    let o1 := badBase (exA.sub 0 0 3 64)
    let A11 := (schurStage trsmLowerLeft exA 3 64 66 o1.1 o1.2.1 o1.2.2.2).sub o1.2.2.2 64 3 66
    let o2 := badBase A11
    let o := pleStep badBase trsmLowerLeft badBase 64 0 exA
    IsPLE (exA.sub 0 0 3 64) o1.1 o1.2.1 o1.2.2.1 o1.2.2.2 ∧ IsPLE A11 o2.1 o2.2.1 o2.2.2.1 o2.2.2.2 ∧
      ¬ IsPLE exA o.1 o.2.1 o.2.2.1 o.2.2.2 := by
  refine ⟨checkPLE_sound (by decide +kernel), checkPLE_sound (by decide +kernel), fun h => ?_⟩
  have := h.prod 1 65 (by decide) (by decide)
  revert this
  decide +kernel

/-- the statement with `checkPLE`-acceptance (`IsPLE`) of the base case only, as first asked for.  It is NOT
    proved and is false in spirit: `pleStep_needs_tail` refutes its induction step (the hypotheses hold for
    both recursive calls, the conclusion fails); the true theorem is `pleRec_spec`, whose extra clause
    ("`P` fixes the rows from the rank on") holds for `_mzd_ple_naive` and `_mzd_ple_russian`, which start
    from the identity permutation. -/
def pleRec_checkOnly_full : Prop :=
  ∀ (base : BMat → Out) (baseCols cutoff baseRows fuel : Nat),
    (∀ A : BMat, A.WF → IsPLE A (base A).1 (base A).2.1 (base A).2.2.1 (base A).2.2.2) →
    ∀ A : BMat, A.WF →
      IsPLE A (pleRec base baseCols cutoff baseRows fuel A).1 (pleRec base baseCols cutoff baseRows fuel A).2.1
        (pleRec base baseCols cutoff baseRows fuel A).2.2.1 (pleRec base baseCols cutoff baseRows fuel A).2.2.2

/-! executable sanity checks of the models (`M4ri/TrsmRec.lean`) against the naive mirrors on pseudo-random
    matrices with more than 64 columns / rows and small cut-offs, so that the recursions are entered -/

def lcg (s : Nat) : Nat := (s * 6364136223846793005 + 1442695040888963407) % 2 ^ 64

/-- pseudo-random `r × c` matrix -/
def rnd (r c seed : Nat) : BMat :=
  let step (st : Array Nat × Nat) (_ : Nat) : Array Nat × Nat :=
    let (v, s) := (List.range ((c + 31) / 32)).foldl (fun (p : Nat × Nat) k =>
      let s' := lcg p.2
      (p.1 ||| ((s' >>> 32) <<< (32 * k)), s')) (0, st.2)
    (st.1.push (v % 2 ^ c), s)
  ⟨r, c, ((List.range r).foldl step (#[], seed)).1⟩

/-- pseudo-random matrix of rank at most `k` -/
def rndRank (r c k seed : Nat) : BMat := (rnd r k seed).mul (rnd k c (seed + 7))

def checkRec (A : BMat) (fuel cutoff baseRows : Nat) : Bool :=
  let o := pleRec naiveBase 64 cutoff baseRows fuel A
  let o' := naiveBase A
  checkPLE A o.1 o.2.1 o.2.2.1 o.2.2.2 && o.2.2.2 == o'.2.2.2 && o.1 == o'.1 && o.2.1 == o'.2.1

#guard (List.range 3).all fun s =>
  let n := 130 + 17 * s
  let T := rnd n n (s + 1); let B := rnd n 70 (s + 100); let B' := rnd 70 n (s + 200)
  trsmLowerLeftRec 5 10 T B == trsmLowerLeft T B && trsmUpperLeftRec 5 10 T B == trsmUpperLeft T B &&
  trsmLowerRightRec 5 10 T B' == trsmLowerRight T B' && trsmUpperRightRec 5 0 10 T B' == trsmUpperRight T B' &&
  trsmUpperRightRec 5 100 10 T B' == trsmUpperRight T B' &&
  trtriRec 100 5 5 0 false 10 (unitUpper T) == trsmUpperRight (unitUpper T) (identity n)
#guard checkRec (rnd 20 130 3) 5 0 4
#guard checkRec (rndRank 50 200 10 5) 5 0 4
#guard checkRec (rndRank 50 300 90 6) 5 0 4
#guard checkRec (rndRank 90 300 30 6) 1 0 64
#guard checkRec ((zero 60 150).paste 0 0 (rndRank 40 150 20 9)) 5 0 4
#guard checkRec ((zero 60 250).paste 0 100 (rndRank 60 150 20 9)) 5 0 4
#guard checkRec (zero 6 250) 5 0 4

end Rec
end BMat
end M4ri
