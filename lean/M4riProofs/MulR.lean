/-
  C01, the non-recursive multiplication routes on rows-as-`Nat` (`M4ri/Mul.lean`):
  `mulVa`, `mulNaiveT`/`mulNaive`, `m4rmPass`/`m4rm` all compute `(clear ? 0 : C) + A·B`.
-/
import M4ri.Mul
import M4riProofs.Bridge
import M4riProofs.MulRGray
namespace M4ri
namespace MulR

/-! ### 0. XOR over a range, the specification product -/

/-- XOR of `f 0 … f (n-1)` -/
def xorRange (n : Nat) (f : Nat → Bool) : Bool := (List.range n).foldl (fun acc t => acc != f t) false

theorem foldl_bne_init (n : Nat) (f : Nat → Bool) (b : Bool) :
    (List.range n).foldl (fun acc t => acc != f t) b = (b != xorRange n f) := by
  unfold xorRange
  induction n with
  | zero => simp
  | succ n ih =>
    simp only [List.range_succ, List.foldl_append, List.foldl_cons, List.foldl_nil]
    rw [ih]; cases b <;> simp

@[simp] theorem xorRange_zero (f : Nat → Bool) : xorRange 0 f = false := rfl

theorem xorRange_succ (n : Nat) (f : Nat → Bool) : xorRange (n + 1) f = (xorRange n f != f n) := by
  simp [xorRange, List.range_succ]

theorem xorRange_congr (n : Nat) (f g : Nat → Bool) (h : ∀ t, t < n → f t = g t) :
    xorRange n f = xorRange n g := by
  induction n with
  | zero => rfl
  | succ n ih =>
    rw [xorRange_succ, xorRange_succ, ih (fun t ht => h t (by omega)), h n (by omega)]

theorem xorRange_false (n : Nat) : xorRange n (fun _ => false) = false := by
  induction n with
  | zero => rfl
  | succ n ih => rw [xorRange_succ, ih]; rfl

theorem xorRange_bne (n : Nat) (f g : Nat → Bool) :
    xorRange n (fun t => f t != g t) = (xorRange n f != xorRange n g) := by
  induction n with
  | zero => rfl
  | succ n ih =>
    simp only [xorRange_succ, ih]
    cases xorRange n f <;> cases xorRange n g <;> cases f n <;> cases g n <;> rfl

/-- a sum with a single possibly non-zero term -/
theorem xorRange_single (n t : Nat) (g : Nat → Bool) :
    xorRange n (fun j => (j == t) && g j) = (decide (t < n) && g t) := by
  induction n with
  | zero => simp
  | succ n ih =>
    rw [xorRange_succ, ih]
    by_cases h : n = t
    · subst h; simp
    · have h1 : (n == t) = false := by simp [h]
      have h2 : decide (t < n + 1) = decide (t < n) := by
        have : (t < n + 1) = (t < n) := by apply propext; omega
        simp only [this]
      rw [h1, h2]; simp

/-- concatenation of ranges -/
theorem xorRange_add (n m : Nat) (f : Nat → Bool) :
    xorRange (n + m) f = (xorRange n f != xorRange m (fun t => f (n + t))) := by
  induction m with
  | zero => simp
  | succ m ih =>
    rw [← Nat.add_assoc, xorRange_succ, xorRange_succ, ih]
    cases xorRange n f <;> cases xorRange m (fun t => f (n + t)) <;> cases f (n + m) <;> rfl

/-- `testBit` of an XOR-fold of selected numbers -/
theorem testBit_foldl_xor (n : Nat) (s : Nat → Bool) (g : Nat → Nat) (c p : Nat) :
    ((List.range n).foldl (fun acc j => if s j then acc ^^^ g j else acc) c).testBit p
      = (c.testBit p != xorRange n (fun j => s j && (g j).testBit p)) := by
  induction n with
  | zero => simp
  | succ n ih =>
    simp only [List.range_succ, List.foldl_append, List.foldl_cons, List.foldl_nil]
    rw [xorRange_succ]
    by_cases h : s n
    · rw [if_pos h, Nat.testBit_xor, ih, h]
      cases c.testBit p <;> cases xorRange n (fun j => s j && (g j).testBit p) <;> simp
    · rw [if_neg h, ih]; simp [h]

/-- the initial value of an XOR-fold can be pulled out -/
theorem foldl_xor_init (n : Nat) (s : Nat → Bool) (g : Nat → Nat) (c : Nat) :
    (List.range n).foldl (fun acc j => if s j then acc ^^^ g j else acc) c
      = c ^^^ (List.range n).foldl (fun acc j => if s j then acc ^^^ g j else acc) 0 := by
  apply Nat.eq_of_testBit_eq; intro p
  rw [Nat.testBit_xor, testBit_foldl_xor, testBit_foldl_xor]; simp

end MulR
namespace BMat
open MulR

/-- the specification entry of the product: `⊕_{t < l} A[i,t] ∧ B[t,j]` -/
def dotSpec (A B : BMat) (i j : Nat) : Bool := xorRange A.ncols fun t => A.get i t && B.get t j

/-- `comb a rows n` is the XOR of the rows selected by the bits of `a` -/
theorem testBit_comb (a : Nat) (rows : Array Nat) (n p : Nat) :
    (comb a rows n).testBit p = xorRange n (fun t => a.testBit t && (rows.getD t 0).testBit p) := by
  unfold comb; rw [testBit_foldl_xor]; simp

theorem comb_zero_len (a : Nat) (rows : Array Nat) : comb a rows 0 = 0 := rfl

theorem comb_lt (a : Nat) (rows : Array Nat) (n w : Nat) (h : ∀ t, rows.getD t 0 < 2 ^ w) :
    comb a rows n < 2 ^ w := by
  apply Nat.lt_pow_two_of_testBit; intro p hp
  rw [testBit_comb, ← xorRange_false n]
  apply xorRange_congr; intro t _
  rw [Nat.testBit_lt_two_pow (Nat.lt_of_lt_of_le (h t) (Nat.pow_le_pow_right (by omega) hp))]; simp

@[simp] theorem nrows_mul (A B : BMat) : (A.mul B).nrows = A.nrows := rfl
@[simp] theorem ncols_mul (A B : BMat) : (A.mul B).ncols = B.ncols := rfl
@[simp] theorem nrows_zero (r c : Nat) : (zero r c).nrows = r := rfl
@[simp] theorem ncols_zero (r c : Nat) : (zero r c).ncols = c := rfl

theorem row_mul (A B : BMat) (i : Nat) (hi : i < A.nrows) :
    (A.mul B).row i = comb (A.row i) B.rows A.ncols := by
  simp [mul, row, hi]

theorem row_mul_of_ge (A B : BMat) (i : Nat) (hi : A.nrows ≤ i) : (A.mul B).row i = 0 := by
  simp [mul, row, Nat.not_lt.mpr hi]

theorem row_add (A B : BMat) (i : Nat) (hi : i < A.nrows) : (A.add B).row i = A.row i ^^^ B.row i := by
  simp [add, row, hi]

theorem row_zero (r c i : Nat) : (zero r c).row i = 0 := by
  simp only [zero, row, Array.getD]; by_cases h : i < r <;> simp [h]

/-- **spec of the product, entry-wise** (no well-formedness needed) -/
theorem get_mul (A B : BMat) (i j : Nat) (hi : i < A.nrows) : (A.mul B).get i j = dotSpec A B i j := by
  unfold get dotSpec; rw [row_mul A B i hi, testBit_comb]; rfl

theorem WF_mul (A B : BMat) (hB : B.WF) : (A.mul B).WF := by
  refine ⟨by simp [mul], fun i => ?_⟩
  by_cases hi : i < A.nrows
  · rw [row_mul A B i hi]; exact comb_lt _ _ _ _ hB.2
  · rw [row_mul_of_ge A B i (Nat.le_of_not_lt hi)]; exact Nat.two_pow_pos _

/-! ### the accumulated partial product -/

/-- `C` plus the product of the first `c` columns of `A` with the first `c` rows of `B` -/
def accUpTo (C A B : BMat) (c : Nat) : BMat :=
  { C with rows := C.rows.mapIdx fun j r => r ^^^ comb (A.row j) B.rows c }

theorem accUpTo_zero (C A B : BMat) : accUpTo C A B 0 = C := by
  obtain ⟨m, n, rows⟩ := C
  simp only [accUpTo, comb_zero_len, Nat.xor_zero]
  congr 1
  apply Array.ext <;> simp

theorem accUpTo_full_add (C A B : BMat) (hC : C.rows.size = C.nrows) (hr : C.nrows = A.nrows) :
    accUpTo C A B A.ncols = C.add (A.mul B) := by
  obtain ⟨m, n, rows⟩ := C
  simp only at hC hr
  simp only [accUpTo, add]
  congr 1
  apply Array.ext
  · simp [hC]
  · intro i h1 h2
    simp only [Array.size_mapIdx] at h1
    have hi : i < A.nrows := by omega
    simp only [Array.getElem_mapIdx, Array.getElem_map, Array.getElem_range]
    rw [row_mul A B i hi]
    simp [row, h1]

theorem accUpTo_full_zero (A B : BMat) : accUpTo (zero A.nrows B.ncols) A B A.ncols = A.mul B := by
  simp only [accUpTo, mul, zero]
  congr 1
  apply Array.ext
  · simp
  · intro i h1 h2
    simp


/-! ### 1. `_mzd_mul_va` -/

theorem mulVa_aux (C v A : BMat) (hA : ∀ t, A.row t < 2 ^ A.ncols) (hc : C.ncols = A.ncols)
    (hs : C.rows.size ≤ v.nrows) :
    ({ C with rows := C.rows.mapIdx fun i c =>
        if i < v.nrows then
          (List.range v.ncols).foldl (fun acc j => if v.get i j then acc ^^^ (A.row j % 2 ^ C.ncols) else acc) c
        else c } : BMat) = accUpTo C v A v.ncols := by
  unfold accUpTo
  congr 1
  apply Array.ext
  · simp
  · intro i h1 h2
    simp only [Array.size_mapIdx] at h1
    simp only [Array.getElem_mapIdx]
    rw [if_pos (by omega), foldl_xor_init]
    congr 1
    unfold comb
    congr 1
    funext acc j
    rw [hc, Nat.mod_eq_of_lt (hA j)]
    rfl

/-- `_mzd_mul_va` accumulates the full product onto `C` (or onto zero) -/
theorem mulVa_eq_accUpTo (C v A : BMat) (clear : Bool) (hA : A.WF) (hC : C.rows.size = C.nrows)
    (hr : C.nrows = v.nrows) (hc : C.ncols = A.ncols) :
    mulVa C v A clear = accUpTo (if clear then zero C.nrows C.ncols else C) v A v.ncols := by
  unfold mulVa
  cases clear
  · exact mulVa_aux C v A hA.2 hc (by omega)
  · exact mulVa_aux (zero C.nrows C.ncols) v A hA.2 hc (by simp [zero]; omega)

/-- **`_mzd_mul_va(C, v, A, 1)` is the product.** -/
theorem mulVa_clear (C v A : BMat) (hA : A.WF) (hC : C.rows.size = C.nrows)
    (hr : C.nrows = v.nrows) (hc : C.ncols = A.ncols) : mulVa C v A true = v.mul A := by
  rw [mulVa_eq_accUpTo C v A true hA hC hr hc, hr, hc]
  exact accUpTo_full_zero v A

/-- **`_mzd_mul_va(C, v, A, 0)` adds the product to `C`.** -/
theorem mulVa_noclear (C v A : BMat) (hA : A.WF) (hC : C.rows.size = C.nrows)
    (hr : C.nrows = v.nrows) (hc : C.ncols = A.ncols) : mulVa C v A false = C.add (v.mul A) := by
  rw [mulVa_eq_accUpTo C v A false hA hC hr hc]
  exact accUpTo_full_add C v A hC hr


/-! ### 2. `_mzd_mul_naive`, `mzd_mul_naive`, `mzd_addmul_naive` -/

theorem xorRange_testBit_extend (c n k : Nat) (h : c < 2 ^ n) :
    xorRange (n + k) c.testBit = xorRange n c.testBit := by
  induction k with
  | zero => rfl
  | succ k ih =>
    rw [← Nat.add_assoc, xorRange_succ, ih,
      Nat.testBit_lt_two_pow (Nat.lt_of_lt_of_le h (Nat.pow_le_pow_right (by omega) (by omega)))]
    simp

/-- the parity of `c` can be computed over any range that covers `c` -/
theorem xorRange_testBit_of_lt (c n m : Nat) (hn : c < 2 ^ n) (hm : c < 2 ^ m) :
    xorRange n c.testBit = xorRange m c.testBit := by
  rcases Nat.le_total n m with h | h
  · obtain ⟨k, rfl⟩ := Nat.exists_eq_add_of_le h
    exact (xorRange_testBit_extend c n k hn).symm
  · obtain ⟨k, rfl⟩ := Nat.exists_eq_add_of_le h
    exact xorRange_testBit_extend c m k hm

/-- **`dot a b` is the parity of `a &&& b`**: the XOR over all positions `t < l` of `a_t ∧ b_t`,
    for any `l` that covers one of the operands. -/
theorem dot_eq (a b l : Nat) (hb : b < 2 ^ l) :
    dot a b = xorRange l (fun t => a.testBit t && b.testBit t) := by
  have e : dot a b = xorRange ((a &&& b).log2 + 1) (a &&& b).testBit := rfl
  rw [e, xorRange_testBit_of_lt (a &&& b) _ l Nat.lt_log2_self (Nat.and_lt_two_pow a hb)]
  apply xorRange_congr; intro t _; exact Nat.testBit_and a b t

theorem dot_eq_left (a b l : Nat) (ha : a < 2 ^ l) :
    dot a b = xorRange l (fun t => a.testBit t && b.testBit t) := by
  have e : dot a b = xorRange ((a &&& b).log2 + 1) (a &&& b).testBit := rfl
  rw [e, xorRange_testBit_of_lt (a &&& b) _ l Nat.lt_log2_self
    (by rw [Nat.and_comm]; exact Nat.and_lt_two_pow b ha)]
  apply xorRange_congr; intro t _; exact Nat.testBit_and a b t

theorem testBit_mulNaiveT_row (A BT : BMat) (i n c p : Nat) :
    ((List.range n).foldl (fun acc j => if dot (A.row i) (BT.row j) then acc ^^^ (1 <<< j) else acc) c).testBit p
      = (c.testBit p != (decide (p < n) && dot (A.row i) (BT.row p))) := by
  rw [testBit_foldl_xor]
  congr 1
  rw [← xorRange_single n p (fun j => dot (A.row i) (BT.row j))]
  apply xorRange_congr; intro j _
  rw [Nat.one_shiftLeft, Nat.testBit_two_pow, Bool.and_comm]
  congr 1

/-- **`_mzd_mul_naive(C, A, BT, clear)`, entry-wise**: `C[i,j] = (clear ? 0 : C[i,j]) ⊕ ⊕_t A[i,t] ∧ BT[j,t]`
    for the entries `j < ncols`, and nothing else changes. (`l` is the common number of columns of `A`
    and `BT`; only `BT`'s rows need to fit.) -/
theorem get_mulNaiveT (C A BT : BMat) (clear : Bool) (l : Nat) (hBT : ∀ j, BT.row j < 2 ^ l)
    (hC : C.rows.size = C.nrows) (i j : Nat) (hi : i < C.nrows) :
    (mulNaiveT C A BT clear).get i j =
      ((!clear && C.get i j) != (decide (j < C.ncols) && xorRange l (fun t => A.get i t && BT.get j t))) := by
  unfold mulNaiveT get
  cases clear
  · simp only [Bool.false_eq_true, if_false]
    rw [row_eq_getElem _ _ (by simp; omega)]
    simp only [Array.getElem_mapIdx]
    rw [testBit_mulNaiveT_row, dot_eq _ _ l (hBT j), row_eq_getElem C i (by omega)]
    simp
  · simp only [if_true]
    rw [row_eq_getElem _ _ (by simp [zero]; omega)]
    simp only [Array.getElem_mapIdx]
    rw [testBit_mulNaiveT_row, dot_eq _ _ l (hBT j)]
    simp only [zero, Array.getElem_replicate, Nat.zero_testBit, Bool.not_true, Bool.false_and]
    rfl

theorem mulNaiveT_aux (C A B : BMat) (hB : B.WF) (hc : C.ncols = B.ncols) (hl : A.ncols = B.nrows) :
    ({ C with rows := C.rows.mapIdx fun i c =>
        (List.range C.ncols).foldl (fun acc j => if dot (A.row i) (B.transpose.row j) then acc ^^^ (1 <<< j) else acc) c } : BMat)
      = accUpTo C A B A.ncols := by
  unfold accUpTo
  congr 1
  apply Array.ext
  · simp
  · intro i h1 h2
    simp only [Array.getElem_mapIdx]
    apply Nat.eq_of_testBit_eq; intro p
    rw [testBit_mulNaiveT_row, Nat.testBit_xor, testBit_comb]
    congr 1
    by_cases hp : p < B.ncols
    · have hBT := (WF_transpose B).2 p
      simp only [ncols_transpose] at hBT
      rw [dot_eq _ _ A.ncols (by rw [hl]; exact hBT), hc]
      simp only [hp, decide_true, Bool.true_and]
      apply xorRange_congr; intro t ht
      congr 1
      exact get_transpose B p t hp (by omega)
    · rw [hc]
      simp only [hp, decide_false, Bool.false_and]
      rw [← xorRange_false A.ncols]
      apply xorRange_congr; intro t _
      have : (B.rows.getD t 0).testBit p = false :=
        Nat.testBit_lt_two_pow (Nat.lt_of_lt_of_le (hB.2 t) (Nat.pow_le_pow_right (by omega) (by omega)))
      rw [this]; simp

theorem mulNaiveT_transpose_eq_accUpTo (C A B : BMat) (clear : Bool) (hB : B.WF)
    (hc : C.ncols = B.ncols) (hl : A.ncols = B.nrows) :
    mulNaiveT C A B.transpose clear = accUpTo (if clear then zero C.nrows C.ncols else C) A B A.ncols := by
  unfold mulNaiveT
  cases clear
  · exact mulNaiveT_aux C A B hB hc hl
  · exact mulNaiveT_aux (zero C.nrows C.ncols) A B hB hc hl

/-- `mzd_mul_naive`/`mzd_addmul_naive`: both branches (whatever the threshold `thin`) accumulate the
    full product onto `C` (or onto zero) -/
theorem mulNaive_eq_accUpTo (C A B : BMat) (clear : Bool) (thin : Nat) (hB : B.WF)
    (hC : C.rows.size = C.nrows) (hr : C.nrows = A.nrows) (hc : C.ncols = B.ncols) (hl : A.ncols = B.nrows) :
    mulNaive C A B clear thin = accUpTo (if clear then zero C.nrows C.ncols else C) A B A.ncols := by
  unfold mulNaive
  split
  · exact mulNaiveT_transpose_eq_accUpTo C A B clear hB hc hl
  · exact mulVa_eq_accUpTo C A B clear hB hC hr hc

/-- **`mzd_mul_naive(C, A, B)` is the product, for every value of the `thin` threshold.** -/
theorem mulNaive_clear (C A B : BMat) (thin : Nat) (hB : B.WF)
    (hC : C.rows.size = C.nrows) (hr : C.nrows = A.nrows) (hc : C.ncols = B.ncols) (hl : A.ncols = B.nrows) :
    mulNaive C A B true thin = A.mul B := by
  rw [mulNaive_eq_accUpTo C A B true thin hB hC hr hc hl, hr, hc]
  exact accUpTo_full_zero A B

/-- **`mzd_addmul_naive(C, A, B)` adds the product to `C`, for every value of the `thin` threshold.** -/
theorem mulNaive_noclear (C A B : BMat) (thin : Nat) (hB : B.WF)
    (hC : C.rows.size = C.nrows) (hr : C.nrows = A.nrows) (hc : C.ncols = B.ncols) (hl : A.ncols = B.nrows) :
    mulNaive C A B false thin = C.add (A.mul B) := by
  rw [mulNaive_eq_accUpTo C A B false thin hB hC hr hc hl]
  exact accUpTo_full_add C A B hC hr

end BMat
namespace MulR

/-! ### 3. the table lemma for `mzd_make_table` -/

theorem buildOrd_getD (k i : Nat) (hi : i < 2 ^ k) : (buildOrd k).getD i 0 = grayCode i k := by
  simp [buildOrd, Array.getD, hi]

/-- the linear combination a table row holds: rows `r + j` (`j < k`, bit `j` of `x` set), masked -/
def tcomb (rows : Array Nat) (r mask k x : Nat) : Nat :=
  (List.range k).foldl (fun acc j => if x.testBit j then acc ^^^ (rows.getD (r + j) 0 &&& mask) else acc) 0

theorem testBit_tcomb (rows : Array Nat) (r mask k x p : Nat) :
    (tcomb rows r mask k x).testBit p
      = xorRange k (fun j => x.testBit j && (rows.getD (r + j) 0 &&& mask).testBit p) := by
  unfold tcomb; rw [testBit_foldl_xor]; simp

theorem tcomb_zero (rows : Array Nat) (r mask k : Nat) : tcomb rows r mask k 0 = 0 := by
  apply Nat.eq_of_testBit_eq; intro p
  rw [testBit_tcomb]; simp [xorRange_false]

theorem tcomb_xor_pow (rows : Array Nat) (r mask k x t : Nat) (ht : t < k) :
    tcomb rows r mask k (x ^^^ 2 ^ t) = tcomb rows r mask k x ^^^ (rows.getD (r + t) 0 &&& mask) := by
  apply Nat.eq_of_testBit_eq; intro p
  rw [Nat.testBit_xor, testBit_tcomb, testBit_tcomb]
  have e : ∀ j, ((x ^^^ 2 ^ t).testBit j && (rows.getD (r + j) 0 &&& mask).testBit p)
      = ((x.testBit j && (rows.getD (r + j) 0 &&& mask).testBit p)
          != ((j == t) && (rows.getD (r + j) 0 &&& mask).testBit p)) := by
    intro j
    rw [Nat.testBit_xor, Nat.testBit_two_pow]
    by_cases h : t = j
    · subst h; cases x.testBit t <;> cases (rows.getD (r + t) 0 &&& mask).testBit p <;> simp
    · have : (j == t) = false := by simp; omega
      simp [h, this]
  rw [xorRange_congr k _ _ (fun j _ => e j), xorRange_bne, xorRange_single]
  simp [ht]

/-- one iteration of the loop of `mzd_make_table` -/
def mtStep (rows : Array Nat) (nrows ncols r c k : Nat) (TL : Array Nat × Array Nat) (i0 : Nat) :
    Array Nat × Array Nat :=
  let i := i0 + 1
  let rowneeded := r + (buildInc k).getD (i - 1) 0
  let L := TL.2.setIfInBounds ((buildOrd k).getD i 0) i
  if rowneeded ≥ nrows then (TL.1, L) else
    (TL.1.setIfInBounds i (TL.1.getD (i - 1) 0 ^^^ (rows.getD rowneeded 0 &&& colMask c ncols)), L)

theorem makeTable_eq_foldl (rows : Array Nat) (nrows ncols r c k : Nat) (T0 L0 : Array Nat) :
    makeTable rows nrows ncols r c k T0 L0
      = (List.range (2 ^ k - 1)).foldl (mtStep rows nrows ncols r c k) (T0, L0.setIfInBounds 0 0) := rfl

theorem makeTable_inv (rows : Array Nat) (nrows ncols r c k : Nat) (T0 L0 : Array Nat)
    (hr : r + k ≤ nrows) (hT : T0.size = 2 ^ k) (hT0 : T0.getD 0 0 = 0) (hL : L0.size = 2 ^ k)
    (n : Nat) (hn : n < 2 ^ k) :
    let TL := (List.range n).foldl (mtStep rows nrows ncols r c k) (T0, L0.setIfInBounds 0 0)
    TL.1.size = 2 ^ k ∧ TL.2.size = 2 ^ k ∧
      ∀ i, i ≤ n → TL.1.getD i 0 = tcomb rows r (colMask c ncols) k (grayCode i k) ∧
        TL.2.getD (grayCode i k) 0 = i := by
  have hG : GrayOK k := GrayOK_all k
  induction n with
  | zero =>
    simp only [List.range_zero, List.foldl_nil]
    refine ⟨hT, by simpa using hL, ?_⟩
    intro i hi
    have : i = 0 := by omega
    subst this
    rw [hG.zero, tcomb_zero, getD_setIfInBounds]
    refine ⟨hT0, ?_⟩
    rw [if_pos ⟨rfl, by omega⟩]
  | succ n ih =>
    have ih := ih (by omega)
    simp only [List.range_succ, List.foldl_append, List.foldl_cons, List.foldl_nil]
    generalize (List.range n).foldl (mtStep rows nrows ncols r c k) (T0, L0.setIfInBounds 0 0) = TL at ih ⊢
    obtain ⟨hs1, hs2, hv⟩ := ih
    obtain ⟨hinc, hgray⟩ := hG.step n (by omega)
    have hlt : grayCode (n + 1) k < 2 ^ k := hG.lt _ hn
    simp only [mtStep, Nat.add_sub_cancel, buildOrd_getD k (n + 1) hn]
    rw [if_neg (by omega)]
    refine ⟨by simpa using hs1, by simpa using hs2, ?_⟩
    intro i hi
    simp only [getD_setIfInBounds]
    by_cases hin : i = n + 1
    · subst hin
      simp only [hs1, hs2, hn, hlt, and_self, if_true]
      rw [(hv n (by omega)).1, hgray, tcomb_xor_pow _ _ _ _ _ _ hinc]
      exact ⟨rfl, trivial⟩
    · have h1 : ¬ (n + 1 = i ∧ n + 1 < TL.1.size) := by omega
      have h2 : ¬ (grayCode (n + 1) k = grayCode i k ∧ grayCode (n + 1) k < TL.2.size) := by
        intro h
        have := hG.inj _ _ hn (by omega) h.1
        omega
      rw [if_neg h1, if_neg h2]
      exact hv i (by omega)

/-- **The table lemma for `mzd_make_table`**, for EVERY `k` (the code book is correct for every `k`:
    `GrayOK_all`). With `k` source rows available (`r + k ≤ nrows`), a table whose first row is zero and any prior content `L0` of the
    index array: `T[L[x]]` is the XOR of the rows `r + j` (`j < k`, bit `j` of `x` set) restricted to the
    columns `[c, ncols)` — for every `x < 2^k`. -/
theorem makeTable_spec (rows : Array Nat) (nrows ncols r c k : Nat) (T0 L0 : Array Nat)
    (hr : r + k ≤ nrows) (hT : T0.size = 2 ^ k) (hT0 : T0.getD 0 0 = 0) (hL : L0.size = 2 ^ k)
    (x : Nat) (hx : x < 2 ^ k) :
    let TL := makeTable rows nrows ncols r c k T0 L0
    TL.1.getD (TL.2.getD x 0) 0 = tcomb rows r (colMask c ncols) k x := by
  intro TL
  have hpos : 0 < 2 ^ k := Nat.two_pow_pos k
  obtain ⟨_, _, hv⟩ := makeTable_inv rows nrows ncols r c k T0 L0 hr hT hT0 hL (2 ^ k - 1) (by omega)
  obtain ⟨i, hi, rfl⟩ := (GrayOK_all k).surj x hx
  have := hv i (by omega)
  show (makeTable rows nrows ncols r c k T0 L0).1.getD ((makeTable rows nrows ncols r c k T0 L0).2.getD _ 0) 0 = _
  rw [makeTable_eq_foldl, this.2, this.1]

/-! ### 4. one table pass of M4RM -/

/-- XOR of the rows `lo … lo+n-1` selected by the bits `lo … lo+n-1` of `a` -/
def combSeg (a : Nat) (rows : Array Nat) (lo n : Nat) : Nat :=
  (List.range n).foldl (fun acc t => if a.testBit (lo + t) then acc ^^^ rows.getD (lo + t) 0 else acc) 0

theorem testBit_combSeg (a : Nat) (rows : Array Nat) (lo n p : Nat) :
    (combSeg a rows lo n).testBit p
      = xorRange n (fun t => a.testBit (lo + t) && (rows.getD (lo + t) 0).testBit p) := by
  unfold combSeg; rw [testBit_foldl_xor]; simp

/-- splitting the product at a column boundary -/
theorem comb_add (a : Nat) (rows : Array Nat) (c n : Nat) :
    BMat.comb a rows (c + n) = BMat.comb a rows c ^^^ combSeg a rows c n := by
  apply Nat.eq_of_testBit_eq; intro p
  rw [Nat.testBit_xor, BMat.testBit_comb, BMat.testBit_comb, testBit_combSeg, xorRange_add]

theorem testBit_bitsAt (a y n t : Nat) : (bitsAt a y n).testBit t = (decide (t < n) && a.testBit (y + t)) := by
  unfold bitsAt; rw [Nat.testBit_mod_two_pow, Nat.testBit_shiftRight]

theorem bitsAt_lt (a y n : Nat) : bitsAt a y n < 2 ^ n := Nat.mod_lt _ (Nat.two_pow_pos n)

theorem colMask_zero (n : Nat) : colMask 0 n = 2 ^ n - 1 := by simp [colMask]

/-- the table row selected by the bits of `a` is the segment combination -/
theorem tcomb_bitsAt (a : Nat) (rows : Array Nat) (lo n w : Nat) (hrows : ∀ t, rows.getD t 0 < 2 ^ w) :
    tcomb rows lo (colMask 0 w) n (bitsAt a lo n) = combSeg a rows lo n := by
  apply Nat.eq_of_testBit_eq; intro p
  rw [testBit_tcomb, testBit_combSeg]
  apply xorRange_congr; intro t ht
  rw [testBit_bitsAt, colMask_zero, Nat.and_two_pow_sub_one_eq_mod, Nat.mod_eq_of_lt (hrows _)]
  simp [ht]

end MulR
namespace BMat
open MulR

/-- **One M4RM table pass, row-wise**: row `j` of `C` becomes `C[j] ⊕ ⊕_{t < kbits, A[j, col+t]} B[col+t]`,
    whatever `junk` was in the index array. -/
theorem row_m4rmPass (C A B : BMat) (col kbits : Nat) (junk : Nat → Nat) (hB : B.WF)
    (hcol : col + kbits ≤ B.nrows) (j : Nat) (hj : j < C.rows.size) :
    (m4rmPass C A B col kbits junk).row j = C.row j ^^^ combSeg (A.row j) B.rows col kbits := by
  have hsz : j < (m4rmPass C A B col kbits junk).rows.size := by simpa [m4rmPass] using hj
  rw [row_eq_getElem _ _ hsz, row_eq_getElem _ _ hj]
  simp only [m4rmPass, Array.getElem_mapIdx, freshTable]
  rw [makeTable_spec B.rows B.nrows B.ncols col 0 kbits _ _ hcol (by simp) (by simp [Array.getD, Nat.two_pow_pos])
    (by simp) _ (bitsAt_lt _ _ _), tcomb_bitsAt _ _ _ _ _ hB.2]

theorem nrows_m4rmPass (C A B : BMat) (col kbits : Nat) (junk : Nat → Nat) :
    (m4rmPass C A B col kbits junk).nrows = C.nrows := rfl
theorem ncols_m4rmPass (C A B : BMat) (col kbits : Nat) (junk : Nat → Nat) :
    (m4rmPass C A B col kbits junk).ncols = C.ncols := rfl
theorem size_m4rmPass (C A B : BMat) (col kbits : Nat) (junk : Nat → Nat) :
    (m4rmPass C A B col kbits junk).rows.size = C.rows.size := by simp [m4rmPass]

/-- one pass moves the accumulated product from column boundary `c` to `c + kbits` -/
theorem m4rmPass_accUpTo (C A B : BMat) (c kbits : Nat) (junk : Nat → Nat) (hB : B.WF)
    (hcol : c + kbits ≤ B.nrows) :
    m4rmPass (accUpTo C A B c) A B c kbits junk = accUpTo C A B (c + kbits) := by
  have hrow := row_m4rmPass (accUpTo C A B c) A B c kbits junk hB hcol
  obtain ⟨m, n, rows⟩ := C
  have e : ∀ R : BMat, R = ⟨R.nrows, R.ncols, R.rows⟩ := fun R => rfl
  rw [e (m4rmPass _ _ _ _ _ _), e (accUpTo _ _ _ (c + kbits))]
  congr 1
  apply Array.ext
  · simp [m4rmPass, accUpTo]
  · intro i h1 h2
    have h3 : i < rows.size := by simpa [accUpTo] using h2
    have := hrow i (by simpa [accUpTo] using h3)
    rw [row_eq_getElem _ _ h1, row_eq_getElem _ _ (by simpa [accUpTo] using h3)] at this
    rw [this]
    simp only [accUpTo, Array.getElem_mapIdx]
    rw [comb_add, Nat.xor_assoc]

end BMat
namespace MulR

/-! ### 5. `_mzd_mul_m4rm` -/

theorem foldl_telescope {β : Type} (acc : Nat → β) (step : β → Nat → β) (b w n : Nat)
    (h : ∀ i, i < n → step (acc (b + w * i)) i = acc (b + w * (i + 1))) :
    (List.range n).foldl step (acc b) = acc (b + w * n) := by
  induction n with
  | zero => simp
  | succ n ih =>
    rw [List.range_succ, List.foldl_append, ih (fun i hi => h i (by omega))]
    simp only [List.foldl_cons, List.foldl_nil]
    exact h n (by omega)

end MulR
namespace BMat
open MulR

theorem m4rmClipK_bounds (k auto : Nat) : 2 ≤ m4rmClipK k auto ∧ m4rmClipK k auto ≤ 8 := by
  unfold m4rmClipK
  simp only
  split <;> split <;> (try split) <;> omega

theorem m4rm_core (C A B : BMat) (k ntables : Nat) (junk : Nat → Nat) (hk0 : 0 < k)
    (hB : B.WF) (hl : A.ncols = B.nrows) :
    (let kk := ntables * k
     let end_ := A.ncols / kk
     let C1 := (List.range end_).foldl (fun C i =>
        (List.range ntables).foldl (fun C z => m4rmPass C A B (kk * i + k * z) k junk) C) C
     if A.ncols % kk ≠ 0 then
       let lo := kk / k * end_
       let hi := A.ncols / k
       let C2 := (List.range' lo (hi - lo)).foldl (fun C i => m4rmPass C A B (k * i) k junk) C1
       if A.ncols % k ≠ 0 then m4rmPass C2 A B (k * (A.ncols / k)) (A.ncols % k) junk else C2
     else C1) = accUpTo C A B A.ncols := by
  extract_lets kk end_ C1 lo hi C2
  have hkkend : kk * end_ ≤ A.ncols := Nat.mul_div_le A.ncols kk
  -- the main passes reach the column boundary `kk * end_`
  have hC1 : C1 = accUpTo C A B (kk * end_) := by
    have h0 : C = accUpTo C A B 0 := (accUpTo_zero C A B).symm
    have := foldl_telescope (fun c => accUpTo C A B c)
      (fun C i => (List.range ntables).foldl (fun C z => m4rmPass C A B (kk * i + k * z) k junk) C)
      0 kk end_ ?_
    · simp only [Nat.zero_add] at this
      show (List.range end_).foldl _ C = _
      rw [← this, accUpTo_zero]
    · intro i hi
      simp only [Nat.zero_add]
      have := foldl_telescope (fun c => accUpTo C A B c)
        (fun C z => m4rmPass C A B (kk * i + k * z) k junk) (kk * i) k ntables ?_
      · rw [this]; congr 1
        show kk * i + k * ntables = ntables * k * (i + 1)
        rw [Nat.mul_succ, Nat.mul_comm k ntables]
      · intro z hz
        rw [m4rmPass_accUpTo C A B _ k junk hB]
        · congr 1; rw [Nat.mul_succ, Nat.add_assoc]
        · have h1 : k * (z + 1) ≤ k * ntables := Nat.mul_le_mul_left k (by omega)
          have h2 : kk * (i + 1) ≤ kk * end_ := Nat.mul_le_mul_left kk (by omega)
          have h3 : kk * (i + 1) = kk * i + k * ntables := by
            show ntables * k * (i + 1) = ntables * k * i + k * ntables
            rw [Nat.mul_succ, Nat.mul_comm k ntables]
          rw [Nat.mul_succ] at h1
          omega
  split
  · -- the remaining whole `k`-blocks, then the short block
    have hlo : k * lo = kk * end_ := by
      show k * (ntables * k / k * end_) = ntables * k * end_
      rw [Nat.mul_div_cancel _ hk0, ← Nat.mul_assoc, Nat.mul_comm k ntables]
    have hhi : k * hi ≤ A.ncols := Nat.mul_div_le A.ncols k
    have hlohi : lo ≤ hi := by
      apply (Nat.le_div_iff_mul_le hk0).2
      rw [Nat.mul_comm, hlo]; exact hkkend
    have hC2 : C2 = accUpTo C A B (k * hi) := by
      show (List.range' lo (hi - lo)).foldl _ C1 = _
      rw [List.range'_eq_map_range, List.foldl_map, hC1, ← hlo]
      have := foldl_telescope (fun c => accUpTo C A B c)
        (fun C i => m4rmPass C A B (k * (lo + i)) k junk) (k * lo) k (hi - lo) ?_
      · rw [this]; congr 1
        rw [← Nat.mul_add]; congr 1; omega
      · intro i hi'
        rw [← Nat.mul_add, m4rmPass_accUpTo C A B _ k junk hB]
        · congr 1; rw [Nat.mul_succ, ← Nat.add_assoc, Nat.mul_add]
        · have h1 : k * (lo + i + 1) ≤ k * hi := Nat.mul_le_mul_left k (by omega)
          rw [Nat.mul_succ] at h1
          omega
    have hdm : k * hi + A.ncols % k = A.ncols := Nat.div_add_mod A.ncols k
    split
    · rw [hC2, m4rmPass_accUpTo C A B _ _ junk hB (by omega), hdm]
    · rename_i h
      rw [hC2]; congr 1
      omega
  · rename_i h
    rw [hC1]; congr 1
    have := Nat.div_add_mod A.ncols kk
    show kk * (A.ncols / kk) = A.ncols
    omega

end BMat
namespace MulR

end MulR
namespace BMat
open MulR

/-- `_mzd_mul_m4rm` accumulates the full product onto `C` (or onto zero): every `k`, `auto`, `junk`,
    `ntables`, `thin` -/
theorem m4rm_eq_accUpTo (C A B : BMat) (k : Nat) (clear : Bool) (auto : Nat) (junk : Nat → Nat)
    (ntables thin : Nat) (hB : B.WF) (hC : C.rows.size = C.nrows) (hr : C.nrows = A.nrows)
    (hc : C.ncols = B.ncols) (hl : A.ncols = B.nrows) :
    m4rm C A B k clear auto junk ntables thin
      = accUpTo (if clear then zero C.nrows C.ncols else C) A B A.ncols := by
  unfold m4rm
  split
  · exact mulNaive_eq_accUpTo C A B clear thin hB hC hr hc hl
  · have hk := m4rmClipK_bounds k auto
    exact m4rm_core (if clear then zero C.nrows C.ncols else C) A B (m4rmClipK k auto) ntables junk
      (by omega) hB hl

/-- **C01, M4RM with `clear`: `mzd_mul_m4rm(C, A, B, k)` is the product `A·B`** — for every `k`, every value
    `auto` of the cache heuristic, every heap content `junk`, every number of tables and every `thin`. -/
theorem m4rm_clear (C A B : BMat) (k auto : Nat) (junk : Nat → Nat) (ntables thin : Nat) (hB : B.WF)
    (hC : C.rows.size = C.nrows) (hr : C.nrows = A.nrows) (hc : C.ncols = B.ncols) (hl : A.ncols = B.nrows) :
    m4rm C A B k true auto junk ntables thin = A.mul B := by
  rw [m4rm_eq_accUpTo C A B k true auto junk ntables thin hB hC hr hc hl, hr, hc]
  exact accUpTo_full_zero A B

/-- **C01, M4RM without `clear`: `mzd_addmul_m4rm(C, A, B, k)` is `C + A·B`.** -/
theorem m4rm_noclear (C A B : BMat) (k auto : Nat) (junk : Nat → Nat) (ntables thin : Nat) (hB : B.WF)
    (hC : C.rows.size = C.nrows) (hr : C.nrows = A.nrows) (hc : C.ncols = B.ncols) (hl : A.ncols = B.nrows) :
    m4rm C A B k false auto junk ntables thin = C.add (A.mul B) := by
  rw [m4rm_eq_accUpTo C A B k false auto junk ntables thin hB hC hr hc hl]
  exact accUpTo_full_add C A B hC hr

/-! ### the common value, entry-wise -/

/-- what every route returns -/
def mulResult (C A B : BMat) (clear : Bool) : BMat := if clear then A.mul B else C.add (A.mul B)

theorem get_mulResult (C A B : BMat) (clear : Bool) (hr : C.nrows = A.nrows) (i j : Nat) (hi : i < A.nrows) :
    (mulResult C A B clear).get i j = ((!clear && C.get i j) != dotSpec A B i j) := by
  unfold mulResult
  cases clear
  · simp only [Bool.false_eq_true, if_false]
    rw [get_add _ _ _ _ (by omega), get_mul _ _ _ _ hi]; simp
  · simp only [if_true]
    rw [get_mul _ _ _ _ hi]; simp

theorem WF_mulResult (C A B : BMat) (clear : Bool) (hC : C.WF) (hB : B.WF) (hc : C.ncols = B.ncols) :
    (mulResult C A B clear).WF := by
  unfold mulResult
  cases clear
  · exact WF_add hC (WF_mul A B hB) hc.symm
  · exact WF_mul A B hB

theorem nrows_mulResult (C A B : BMat) (clear : Bool) (hr : C.nrows = A.nrows) :
    (mulResult C A B clear).nrows = A.nrows := by
  unfold mulResult; cases clear <;> simp [hr]

theorem ncols_mulResult (C A B : BMat) (clear : Bool) (hc : C.ncols = B.ncols) :
    (mulResult C A B clear).ncols = B.ncols := by
  unfold mulResult; cases clear <;> simp [hc]

theorem mulVa_eq (C v A : BMat) (clear : Bool) (hA : A.WF) (hC : C.rows.size = C.nrows)
    (hr : C.nrows = v.nrows) (hc : C.ncols = A.ncols) : mulVa C v A clear = mulResult C v A clear := by
  cases clear
  · exact mulVa_noclear C v A hA hC hr hc
  · exact mulVa_clear C v A hA hC hr hc

theorem mulNaive_eq (C A B : BMat) (clear : Bool) (thin : Nat) (hB : B.WF) (hC : C.rows.size = C.nrows)
    (hr : C.nrows = A.nrows) (hc : C.ncols = B.ncols) (hl : A.ncols = B.nrows) :
    mulNaive C A B clear thin = mulResult C A B clear := by
  cases clear
  · exact mulNaive_noclear C A B thin hB hC hr hc hl
  · exact mulNaive_clear C A B thin hB hC hr hc hl

theorem m4rm_eq (C A B : BMat) (k : Nat) (clear : Bool) (auto : Nat) (junk : Nat → Nat)
    (ntables thin : Nat) (hB : B.WF) (hC : C.rows.size = C.nrows) (hr : C.nrows = A.nrows)
    (hc : C.ncols = B.ncols) (hl : A.ncols = B.nrows) :
    m4rm C A B k clear auto junk ntables thin = mulResult C A B clear := by
  cases clear
  · exact m4rm_noclear C A B k auto junk ntables thin hB hC hr hc hl
  · exact m4rm_clear C A B k auto junk ntables thin hB hC hr hc hl

/-- **`_mzd_mul_va`, entry-wise** -/
theorem get_mulVa (C v A : BMat) (clear : Bool) (hA : A.WF) (hC : C.rows.size = C.nrows)
    (hr : C.nrows = v.nrows) (hc : C.ncols = A.ncols) (i j : Nat) (hi : i < v.nrows) :
    (mulVa C v A clear).get i j = ((!clear && C.get i j) != dotSpec v A i j) := by
  rw [mulVa_eq C v A clear hA hC hr hc, get_mulResult C v A clear hr i j hi]

/-- **`mzd_mul_naive`/`mzd_addmul_naive`, entry-wise** -/
theorem get_mulNaive (C A B : BMat) (clear : Bool) (thin : Nat) (hB : B.WF) (hC : C.rows.size = C.nrows)
    (hr : C.nrows = A.nrows) (hc : C.ncols = B.ncols) (hl : A.ncols = B.nrows) (i j : Nat) (hi : i < A.nrows) :
    (mulNaive C A B clear thin).get i j = ((!clear && C.get i j) != dotSpec A B i j) := by
  rw [mulNaive_eq C A B clear thin hB hC hr hc hl, get_mulResult C A B clear hr i j hi]

/-- **`_mzd_mul_m4rm`, entry-wise** -/
theorem get_m4rm (C A B : BMat) (k : Nat) (clear : Bool) (auto : Nat) (junk : Nat → Nat)
    (ntables thin : Nat) (hB : B.WF) (hC : C.rows.size = C.nrows) (hr : C.nrows = A.nrows)
    (hc : C.ncols = B.ncols) (hl : A.ncols = B.nrows) (i j : Nat) (hi : i < A.nrows) :
    (m4rm C A B k clear auto junk ntables thin).get i j = ((!clear && C.get i j) != dotSpec A B i j) := by
  rw [m4rm_eq C A B k clear auto junk ntables thin hB hC hr hc hl, get_mulResult C A B clear hr i j hi]

end BMat
namespace MulR

/-! ### further corollaries: fresh tables, entry-wise pass, shape preservation -/

/-- the table lemma as `_mzd_mul_m4rm` uses it: a fresh table (`mzd_init` rows are zero), an index array
    with arbitrary heap content `junk`; the result does not depend on `junk`. -/
theorem makeTable_fresh (rows : Array Nat) (nrows ncols r c k : Nat) (junk : Nat → Nat)
    (hr : r + k ≤ nrows) (x : Nat) (hx : x < 2 ^ k) :
    let TL := makeTable rows nrows ncols r c k (freshTable k junk).1 (freshTable k junk).2
    TL.1.getD (TL.2.getD x 0) 0 = tcomb rows r (colMask c ncols) k x :=
  makeTable_spec rows nrows ncols r c k _ _ hr (by simp [freshTable])
    (by simp [freshTable, Array.getD, Nat.two_pow_pos]) (by simp [freshTable]) x hx

/-- the entry `p` of a table row: the XOR over the selected source rows of their entry `p`, if `p` is
    one of the columns `[c, ncols)` -/
theorem testBit_colMask (c n p : Nat) : (colMask c n).testBit p = (decide (c ≤ p) && decide (p < n)) := by
  unfold colMask
  rw [Nat.testBit_shiftLeft, Nat.testBit_shiftRight, Nat.testBit_two_pow_sub_one]
  by_cases h : c ≤ p
  · simp [h, show c + (p - c) = p by omega]
  · simp [h]

end MulR
namespace BMat
open MulR

/-- **One M4RM table pass, entry-wise.** -/
theorem get_m4rmPass (C A B : BMat) (col kbits : Nat) (junk : Nat → Nat) (hB : B.WF)
    (hcol : col + kbits ≤ B.nrows) (j p : Nat) (hj : j < C.rows.size) :
    (m4rmPass C A B col kbits junk).get j p
      = (C.get j p != xorRange kbits (fun t => A.get j (col + t) && B.get (col + t) p)) := by
  unfold get
  rw [row_m4rmPass C A B col kbits junk hB hcol j hj, Nat.testBit_xor, testBit_combSeg]
  rfl

theorem WF_m4rmPass (C A B : BMat) (col kbits : Nat) (junk : Nat → Nat) (hB : B.WF) (hC : C.WF)
    (hc : C.ncols = B.ncols) (hcol : col + kbits ≤ B.nrows) : (m4rmPass C A B col kbits junk).WF := by
  refine ⟨by rw [size_m4rmPass]; exact hC.1, fun j => ?_⟩
  by_cases hj : j < C.rows.size
  · rw [row_m4rmPass C A B col kbits junk hB hcol j hj]
    apply Nat.xor_lt_two_pow (hC.2 j)
    show combSeg _ _ _ _ < 2 ^ C.ncols
    rw [hc]
    apply Nat.lt_pow_two_of_testBit; intro p hp
    rw [testBit_combSeg, ← xorRange_false kbits]
    apply xorRange_congr; intro t _
    have : (B.rows.getD (col + t) 0).testBit p = false :=
      Nat.testBit_lt_two_pow (Nat.lt_of_lt_of_le (hB.2 _) (Nat.pow_le_pow_right (by omega) hp))
    rw [this]; simp
  · rw [row_of_ge _ _ (by rw [size_m4rmPass]; omega)]; exact Nat.two_pow_pos _

/-- `_mzd_mul_naive(C, A, BT, clear)` for an arbitrary well-formed `BT`: `(clear ? 0 : C) + A·BTᵀ` -/
theorem mulNaiveT_eq (C A BT : BMat) (clear : Bool) (hBT : BT.WF) (hC : C.rows.size = C.nrows)
    (hr : C.nrows = A.nrows) (hc : C.ncols = BT.nrows) (hl : A.ncols = BT.ncols) :
    mulNaiveT C A BT clear = mulResult C A BT.transpose clear := by
  have e : mulNaiveT C A BT clear = mulNaiveT C A BT.transpose.transpose clear := by
    rw [transpose_transpose hBT]
  rw [e, mulNaiveT_transpose_eq_accUpTo C A BT.transpose clear (WF_transpose BT) (by simpa using hc)
    (by simpa using hl)]
  unfold mulResult
  cases clear
  · exact accUpTo_full_add C A _ hC hr
  · simp only [if_true]
    rw [hr, hc]; exact accUpTo_full_zero A BT.transpose

theorem WF_mulVa (C v A : BMat) (clear : Bool) (hA : A.WF) (hC : C.WF)
    (hr : C.nrows = v.nrows) (hc : C.ncols = A.ncols) : (mulVa C v A clear).WF := by
  rw [mulVa_eq C v A clear hA hC.1 hr hc]; exact WF_mulResult C v A clear hC hA hc

theorem WF_mulNaive (C A B : BMat) (clear : Bool) (thin : Nat) (hB : B.WF) (hC : C.WF)
    (hr : C.nrows = A.nrows) (hc : C.ncols = B.ncols) (hl : A.ncols = B.nrows) :
    (mulNaive C A B clear thin).WF := by
  rw [mulNaive_eq C A B clear thin hB hC.1 hr hc hl]; exact WF_mulResult C A B clear hC hB hc

theorem WF_m4rm (C A B : BMat) (k : Nat) (clear : Bool) (auto : Nat) (junk : Nat → Nat)
    (ntables thin : Nat) (hB : B.WF) (hC : C.WF) (hr : C.nrows = A.nrows)
    (hc : C.ncols = B.ncols) (hl : A.ncols = B.nrows) :
    (m4rm C A B k clear auto junk ntables thin).WF := by
  rw [m4rm_eq C A B k clear auto junk ntables thin hB hC.1 hr hc hl]; exact WF_mulResult C A B clear hC hB hc

end BMat
namespace MulR

end MulR
namespace BMat
open MulR

/-! ### 6. the non-recursive routes agree -/

/-- **C01 (non-recursive routes)**: `_mzd_mul_va`, `mzd_(add)mul_naive` (any `thin`) and `_mzd_mul_m4rm`
    (any `k`, `auto`, `junk`, `ntables`, `thin`) return the same matrix — `A·B` resp. `C + A·B` — for the
    same well-formed operands of matching dimensions. -/
theorem C01_routes_agree_nonrecursive (C A B : BMat) (clear : Bool)
    (k auto : Nat) (junk : Nat → Nat) (ntables thin thin' : Nat)
    (hB : B.WF) (hC : C.rows.size = C.nrows)
    (hr : C.nrows = A.nrows) (hc : C.ncols = B.ncols) (hl : A.ncols = B.nrows) :
    mulVa C A B clear = mulResult C A B clear ∧
    mulNaive C A B clear thin' = mulResult C A B clear ∧
    m4rm C A B k clear auto junk ntables thin = mulResult C A B clear ∧
    (mulResult C A B clear).nrows = A.nrows ∧ (mulResult C A B clear).ncols = B.ncols ∧
    ∀ i j, i < A.nrows → (mulResult C A B clear).get i j = ((!clear && C.get i j) != dotSpec A B i j) :=
  ⟨mulVa_eq C A B clear hB hC hr hc, mulNaive_eq C A B clear thin' hB hC hr hc hl,
   m4rm_eq C A B k clear auto junk ntables thin hB hC hr hc hl,
   nrows_mulResult C A B clear hr, ncols_mulResult C A B clear hc,
   fun i j hi => get_mulResult C A B clear hr i j hi⟩

/-! non-vacuity: the hypotheses are satisfiable — a 16×4 · 4×60 product, large enough for `m4rm` to take
    its table branch with the default `thin = 54` — and the theorems apply to it. -/
def mulR_exA : BMat := ⟨16, 4, (Array.range 16).map fun i => i⟩
def mulR_exB : BMat := ⟨4, 60, #[1, 2 ^ 59, 3, 5]⟩

theorem mulR_exB_WF : mulR_exB.WF := by
  refine ⟨rfl, fun i => ?_⟩
  by_cases h : i < 4
  · have : i = 0 ∨ i = 1 ∨ i = 2 ∨ i = 3 := by omega
    rcases this with h | h | h | h <;> subst h <;> decide
  · simp [mulR_exB, row, Array.getD, h]

example : ¬ (mulR_exB.ncols < 54 ∨ mulR_exA.nrows < 16) := by decide

example (k auto : Nat) (junk : Nat → Nat) (ntables thin thin' : Nat) :
    m4rm (zero 16 60) mulR_exA mulR_exB k true auto junk ntables thin = mulR_exA.mul mulR_exB ∧
    m4rm (identity 16 |>.mul (zero 16 60)) mulR_exA mulR_exB k false auto junk ntables thin
      = (identity 16 |>.mul (zero 16 60)).add (mulR_exA.mul mulR_exB) ∧
    mulNaive (zero 16 60) mulR_exA mulR_exB true thin' = mulR_exA.mul mulR_exB ∧
    mulVa (zero 16 60) mulR_exA mulR_exB true = mulR_exA.mul mulR_exB :=
  ⟨m4rm_clear _ _ _ k auto junk ntables thin mulR_exB_WF (by simp [zero]) rfl rfl rfl,
   m4rm_noclear _ _ _ k auto junk ntables thin mulR_exB_WF (by simp [mul]) rfl rfl rfl,
   mulNaive_clear _ _ _ thin' mulR_exB_WF (by simp [zero]) rfl rfl rfl,
   mulVa_clear _ _ _ mulR_exB_WF (by simp [zero]) rfl rfl⟩

/-- the table lemma applies: 3 source rows at offset 1 in a 4-row matrix -/
example (L0 : Array Nat) (hL : L0.size = 2 ^ 3) (x : Nat) (hx : x < 2 ^ 3) :
    let TL := makeTable mulR_exB.rows 4 60 1 0 3 (Array.replicate (2 ^ 3) 0) L0
    TL.1.getD (TL.2.getD x 0) 0 = tcomb mulR_exB.rows 1 (colMask 0 60) 3 x :=
  makeTable_spec mulR_exB.rows 4 60 1 0 3 _ L0 (by omega) (by simp) (by simp [Array.getD]) hL x hx

end BMat
end M4ri
