/-
  GenTieClose4: THE WHOLE C FUNCTION `_mzd_ple` (ple.c) AS GENERATED TEXT (`Gen.C.pleFull`) tied to the model
  recursion `BMat.Rec.pleRec`, and its recursion closed by induction.  GenTieClose2 closed the recursive BRANCH
  (`Gen.C.pleRecStep`) under a hand-written dispatcher; here the dispatcher is the generated text itself:
  `nrows = mzd_first_zero_row(A)` (translated callee), the two initialisation loops, `if (!nrows) return 0`, the regime
  test `ncols <= m4ri_radix || A->width * A->nrows <= __M4RI_PLE_CUTOFF` (numeral expression), the base case through
  a copy, the recursive branch.

  §1  `firstZeroRow_bridge`     `Mzd.firstZeroRow A = Rec.firstZeroRow A.toB` (`A.WF`, `1 ≤ A.ncols`)
      `mzdFirstZeroRow_rec`     the translated `mzd_first_zero_row` on `memOf A` returns `Rec.firstZeroRow A.toB`
      `mzdFirstZeroRow_agree`   … and only looks at the rows and words of its matrix (width `≥ 1`)
  §2  `seg4F`, `seg3F`, `seg2F`, `recF`, `baseF`, `restF`: copies of the generated text with the bound variables as
      parameters, `pleFull_split` (`rfl`)
  §3  `recF_eq`                 the recursive branch of `pleFull` = `Gen.C.pleRecStep`.  The two texts differ in the
                                bound of the `P2[i] += r1` loop (`A->nrows` / `nrows`): equal because the rank `r1`
                                returned by the first recursive call is `≥ 0`, which is known as soon as the callee
                                cannot be told apart from a lifted model function on canonical records with `≥ 1`
                                column.  The callee comes out GUARDED (`guardF`: the model function on records with
                                no column; the generated text never calls it there: `n1 ≥ 64`, `ncols - n1 ≥ 1`).
  §4  `pleRecStep_perm`         the recursive branch (lifted callee) in its incoming `P`, `Q`: only `P[nrows, A->nrows)`
                                is used; results agree on `[0, A->nrows)`, `[0, A->ncols)`, equal rank and memory
                                (`seg4_perm`, `seg3_perm`, `schurMem_perm`, `seg2_perm`)
  §5  `liftCopyNew`, `baseF_eq` the base case through a copy = `base` on the value, written into `A`
  §6  `pleCutoff_eq`            `MIN(524288, 56623104 >> 3) = 524288`
      `pleFull_step`            one step on a memory that shows `A` on its rows and words, ARBITRARY incoming `P`, `Q`,
                                recursive callee any `f` with `PleAgree` against `liftPle (pleRec base 64 524288 br fuel)`
                                on canonical records with `≥ 1` column: rank, memory, `P` on `[0, A.nrows)`,
                                `Q` on `[0, A.ncols)` of `pleRec … (fuel + 1)`
      `pleFull_pleRec`          the same with `f := liftPle (pleRec … fuel)` on `memOf A` (memory: equality)
  §7  `cPleFull`                the generated `pleFull` bound to itself `n` levels deep (`unord` reorders the results)
      `cPleFull_raw` (induction), `cPleFull_view`, `cPleFull_correct` (= `pleRec base 64 524288 br n`), `cPleFull_spec`
      (`Rec.GoodOut`, under `Rec.GoodBase base`).
  Hypotheses throughout: `A.WF`, `1 ≤ A.ncols`.  `ncols = 0` is outside: with `width = 0` the generated
  `mzd_first_zero_row` reads the word `row[-1]` (C: an out-of-bounds read), so on an arbitrary memory its value is
  not determined by the matrix.  `nrows = 0` is inside.  Core Lean tactics only.
-/
import M4riProofs.GenTieClose2
import M4riProofs.GenTieEch
import M4riProofs.W.Observers
set_option linter.unusedVariables false
namespace M4ri.GenTieClose4
open M4ri M4ri.Gen M4ri.GenTieMem M4ri.GenTieView M4ri.BMat M4ri.GenTieAlg M4ri.GenTieRec M4ri.GenTieClose
  M4ri.GenTieGlue M4ri.GenTieClose2 M4ri.GenTiePle M4ri.GenTieTab M4ri.GenTieSlice

/-! ### 1. `mzd_first_zero_row`: word level = entry level -/

theorem exists_testBit_of_mod_ne (n c : Nat) (h : n % 2 ^ c ≠ 0) : ∃ j, j < c ∧ n.testBit j = true := by
  apply Classical.byContradiction
  intro hne
  apply h
  apply Nat.eq_of_testBit_eq
  intro j
  rw [Nat.testBit_mod_two_pow, Nat.zero_testBit]
  by_cases hj : j < c
  · cases hb : n.testBit j
    · simp
    · exact absurd ⟨j, hj, hb⟩ hne
  · simp [hj]

/-- the row before `firstZeroRow` (if any) is not zero -/
theorem firstZeroRow_pred_ne (A : BMat) (h : Rec.firstZeroRow A ≠ 0) :
    A.row (Rec.firstZeroRow A - 1) % 2 ^ A.ncols ≠ 0 := by
  unfold Rec.firstZeroRow at h ⊢
  have sp := Rec.revfind_spec (fun i => decide (A.row i % 2 ^ A.ncols ≠ 0)) A.nrows
  cases hf : (List.range A.nrows).reverse.find? (fun i => decide (A.row i % 2 ^ A.ncols ≠ 0)) with
  | none => rw [hf] at h; exact absurd rfl h
  | some i =>
    rw [hf] at sp
    have := sp.2.1
    simpa using this

/-- **`mzd_first_zero_row`, word level (`Mzd.firstZeroRow`: every word, the last one masked) = entry level
    (`Rec.firstZeroRow` on the value)** for a well-formed matrix with at least one column -/
theorem firstZeroRow_bridge (A : Mzd) (hA : A.WF) (hc : 1 ≤ A.ncols) :
    A.firstZeroRow = Rec.firstZeroRow A.toB := by
  rw [Mzd.firstZeroRow_eq_iff A (by omega)]
  refine ⟨by simpa using Rec.firstZeroRow_le A.toB, fun i hi hi2 j hj => ?_, ?_⟩
  · rw [← Mzd.get_toB_of_lt A i j hj]
    exact Rec.get_of_ge_firstZeroRow (Mzd.WF_toB hA) i j hi
  · by_cases h0 : Rec.firstZeroRow A.toB = 0
    · exact Or.inl h0
    · right
      obtain ⟨j, hj, hb⟩ := exists_testBit_of_mod_ne _ _ (firstZeroRow_pred_ne A.toB h0)
      rw [Mzd.ncols_toB] at hj
      refine ⟨j, hj, ?_⟩
      rw [← Mzd.get_toB_of_lt A _ j hj]
      exact hb

/-- the translated `mzd_first_zero_row` on the memory of `A` returns the model's `firstZeroRow` of the value -/
theorem mzdFirstZeroRow_rec (A : Mzd) (hA : A.WF) (hc : 1 ≤ A.ncols) :
    Gen.C.mzdFirstZeroRow A.ncols A.width A.nrows (memOf A) = ((Rec.firstZeroRow A.toB : Nat) : Int) := by
  rw [mzdFirstZeroRow_eq A hc, firstZeroRow_bridge A hA hc]

/-- the translated `mzd_first_zero_row` only looks at the rows and words of its matrix -/
theorem mzdFirstZeroRow_agree (c : Int) (r w : Nat) (hw : 1 ≤ w) {m m' : Mem} (h : AgreeOn r w m m') :
    Gen.C.mzdFirstZeroRow c w r m = Gen.C.mzdFirstZeroRow c w r m' := by
  unfold Gen.C.mzdFirstZeroRow
  dsimp only
  have h' := AgI.of h
  generalize hres : CLoop.loop _ _ _ _ = res
  generalize hres' : CLoop.loop _ _ _ _ = res'
  have key := loop_rel_eq hres hres' (fun s s' => s = s' ∧ s.1 < (r : Int)) ⟨rfl, by dsimp only; omega⟩ ?_ ?_
  · obtain ⟨k1, k2⟩ := key
    subst k1
    rfl
  · intro s s' hR
    obtain ⟨k1, k2⟩ := hR
    subst k1
    rfl
  · intro s s' hR hcs
    obtain ⟨i, ret⟩ := s
    obtain ⟨k1, k2⟩ := hR
    subst k1
    dsimp only at k2 hcs ⊢
    have hi : 0 ≤ i := by
      simp only [Bool.and_eq_true, decide_eq_true_eq] at hcs
      omega
    generalize hres2 : CLoop.loop _ _ _ _ = res2
    generalize hres2' : CLoop.loop _ _ _ _ = res2'
    have key2 := loop_rel_eq hres2 hres2' (fun s s' => s = s' ∧ 0 ≤ s.2) ⟨rfl, Int.le_refl _⟩ ?_ ?_
    · obtain ⟨q1, q2⟩ := key2
      subst q1
      obtain ⟨tmp, j⟩ := res2
      dsimp only
      rw [h'.read i (0 + ((w : Int) - 1)) hi k2 (by omega) (by omega)]
      split
      · exact ⟨rfl, k2⟩
      · exact ⟨rfl, by dsimp only; omega⟩
    · intro s s' hR
      obtain ⟨q1, q2⟩ := hR
      subst q1
      rfl
    · intro s s' hR hcs2
      obtain ⟨tmp, j⟩ := s
      obtain ⟨q1, q2⟩ := hR
      subst q1
      dsimp only at q2 hcs2 ⊢
      have hj : j < (w : Int) - 1 := by simpa using hcs2
      rw [h'.read i (0 + j) hi k2 (by omega) (by omega)]
      exact ⟨rfl, by omega⟩

/-! ### 2. the generated `_mzd_ple`, cut into parts (copies of the generated text, tied to it by `rfl`) -/

/-- `Gen.C.pleFull`, recursive branch, last part (text of the generated function): the three bookkeeping loops and `_mzd_compress_l` -/
def seg4F (v_mem_A : (Int → Int → BitVec 64)) (v_mem1_P_values v_mem1_Q_values : Int → Int) (v_nrows v_ncols v_r1 v_n1 v_r2 v_P2__begin v_Q2__begin : Int) (v_A_nrows v_A_ncols v_A_width : Int) (v_A_high_bitmask : BitVec 64) (f__mzd_compress_l : (CLoop.MView → Int → Int → Int → (Int → Int → BitVec 64))) : Int × (Int → Int) × (Int → Int) × (Int → Int → BitVec 64) :=
  let v_i : Int := (0 : Int)
  let (v_mem1_P_values, v_i) : (Int → Int) × Int := CLoop.loop ((v_A_nrows).toNat)
      (fun (st : (Int → Int) × Int) => match st with
      | (v_mem1_P_values, v_i) => (decide (v_i < (v_nrows - v_r1))))
      (fun (st : (Int → Int) × Int) => match st with
      | (v_mem1_P_values, v_i) => 
      let v_mem1_P_values : Int → Int := (CLoop.upd1 v_mem1_P_values (v_P2__begin + v_i) ((v_mem1_P_values  (v_P2__begin + v_i)) + v_r1))
      let v_i : Int := (v_i + (1 : Int))
      (v_mem1_P_values, v_i))
      (v_mem1_P_values, v_i)
  let v_i : Int := (0 : Int)
  let v_j : Int := v_n1
  let (v_mem1_Q_values, v_i, v_j) : (Int → Int) × Int × Int := CLoop.loop ((v_A_ncols).toNat)
      (fun (st : (Int → Int) × Int × Int) => match st with
      | (v_mem1_Q_values, v_i, v_j) => (decide (v_j < v_ncols)))
      (fun (st : (Int → Int) × Int × Int) => match st with
      | (v_mem1_Q_values, v_i, v_j) => 
      let v_mem1_Q_values : Int → Int := (CLoop.upd1 v_mem1_Q_values (v_Q2__begin + v_i) ((v_mem1_Q_values  (v_Q2__begin + v_i)) + v_n1))
      let v_i : Int := (v_i + (1 : Int))
      let v_j : Int := (v_j + (1 : Int))
      (v_mem1_Q_values, v_i, v_j))
      (v_mem1_Q_values, v_i, v_j)
  let v_i : Int := v_n1
  let v_j : Int := v_r1
  let (v_mem1_Q_values, v_i, v_j) : (Int → Int) × Int × Int := CLoop.loop ((v_A_ncols).toNat)
      (fun (st : (Int → Int) × Int × Int) => match st with
      | (v_mem1_Q_values, v_i, v_j) => (decide (v_i < (v_n1 + v_r2))))
      (fun (st : (Int → Int) × Int × Int) => match st with
      | (v_mem1_Q_values, v_i, v_j) => 
      let v_mem1_Q_values : Int → Int := (CLoop.upd1 v_mem1_Q_values v_j (v_mem1_Q_values v_i))
      let v_i : Int := (v_i + (1 : Int))
      let v_j : Int := (v_j + (1 : Int))
      (v_mem1_Q_values, v_i, v_j))
      (v_mem1_Q_values, v_i, v_j)
  let cres5__0 := (f__mzd_compress_l (CLoop.MView.mk v_mem_A v_A_nrows v_A_ncols v_A_width v_A_high_bitmask) v_r1 v_n1 v_r2)
  let v_mem_A : Int → Int → BitVec 64 := cres5__0
  ((v_r1 + v_r2), v_mem1_P_values, v_mem1_Q_values, v_mem_A)

/-- `Gen.C.pleFull`, recursive branch, third part: the second recursive call, its write-backs, `mzd_apply_p_left(A10, P2)` -/
def seg3F (v_mem_A : (Int → Int → BitVec 64)) (v_mem1_P_values v_mem1_Q_values : Int → Int) (v_nrows v_ncols v_r1 v_n1 v_cutoff : Int) (f__mzd_ple : (CLoop.MView → (Int → Int) → (Int → Int) → Int → Int × (Int → Int → BitVec 64) × (Int → Int) × (Int → Int))) (v_A11_nrows v_A11_ncols v_A11_width : Int) (v_A11_high_bitmask : BitVec 64) (v_A11__r0 v_A11__w0 : Int) (v_A10_nrows v_A10_ncols v_A10_width : Int) (v_A10_high_bitmask : BitVec 64) (v_A10__r0 v_A10__w0 : Int) (v_A_nrows v_A_ncols v_A_width : Int) (v_A_high_bitmask : BitVec 64) (f__mzd_compress_l : (CLoop.MView → Int → Int → Int → (Int → Int → BitVec 64))) : Int × (Int → Int) × (Int → Int) × (Int → Int → BitVec 64) :=
  let v_P2__begin : Int := v_r1
  let v_Q2__begin : Int := v_n1
  let (v_r2, cres2__0, cperm2__0, cperm2__1) := (f__mzd_ple (CLoop.MView.mk (CLoop.view v_mem_A v_A11__r0 v_A11__w0) v_A11_nrows v_A11_ncols v_A11_width v_A11_high_bitmask) (fun i => v_mem1_P_values (v_P2__begin + i)) (fun i => v_mem1_Q_values (v_Q2__begin + i)) v_cutoff)
  let v_mem_A : Int → Int → BitVec 64 := (CLoop.unview v_mem_A v_A11__r0 v_A11__w0 v_A11_nrows v_A11_width cres2__0)
  let v_mem1_P_values : Int → Int := (fun i => if v_P2__begin ≤ i ∧ i < v_P2__begin + (v_nrows - v_r1) then cperm2__0 (i - v_P2__begin) else v_mem1_P_values i)
  let v_mem1_Q_values : Int → Int := (fun i => if v_Q2__begin ≤ i ∧ i < v_Q2__begin + (v_ncols - v_n1) then cperm2__1 (i - v_Q2__begin) else v_mem1_Q_values i)
  let cres2__0 := (M4ri.Gen.C.mzdApplyPLeft (CLoop.view v_mem_A v_A10__r0 v_A10__w0) v_A10_ncols (v_nrows - v_r1) v_A10_nrows (fun i => v_mem1_P_values (v_P2__begin + i)) v_A10_width v_A10_high_bitmask)
  let v_mem_A : Int → Int → BitVec 64 := (CLoop.unview v_mem_A v_A10__r0 v_A10__w0 v_A10_nrows v_A10_width cres2__0)
  seg4F v_mem_A v_mem1_P_values v_mem1_Q_values v_nrows v_ncols v_r1 v_n1 v_r2 v_P2__begin v_Q2__begin v_A_nrows v_A_ncols v_A_width v_A_high_bitmask f__mzd_compress_l

/-- `Gen.C.pleFull`, recursive branch, second part: the windows `A00, A10, A01, A11`, the Schur complement (`GenTiePle.schurMem`), then `seg3F` -/
def seg2F (v_mem_A : (Int → Int → BitVec 64)) (v_mem1_P_values v_mem1_Q_values : Int → Int) (v_nrows v_ncols v_r1 v_n1 v_cutoff v_A_nrows v_A_rowstride v_P1__begin : Int) (v_A1_nrows v_A1_ncols v_A1_width : Int) (v_A1_high_bitmask : BitVec 64) (v_A1__r0 v_A1__w0 : Int) (f__mzd_ple : (CLoop.MView → (Int → Int) → (Int → Int) → Int → Int × (Int → Int → BitVec 64) × (Int → Int) × (Int → Int))) (f__mzd_trsm_lower_left_russian f__mzd_trsm_lower_left : (CLoop.MView → CLoop.MView → Int → (Int → Int → BitVec 64))) (f_mzd_addmul : (CLoop.MView → CLoop.MView → CLoop.MView → Int → (Int → Int → BitVec 64))) (v_A_ncols v_A_width : Int) (v_A_high_bitmask : BitVec 64) (f__mzd_compress_l : (CLoop.MView → Int → Int → Int → (Int → Int → BitVec 64))) : Int × (Int → Int) × (Int → Int) × (Int → Int → BitVec 64) :=
  let (v_A00_nrows, v_A00_ncols, v_A00_rowstride, v_A00_width, v_A00_high_bitmask, v_A00_flags, v_A00__data_row, v_A00__data_word) := (M4ri.Gen.C.mzdInitWindow (0 : Int) (0 : Int) v_r1 v_r1 v_A_nrows v_A_rowstride)
  let v_A00__r0 : Int := ((0 : Int) + v_A00__data_row)
  let v_A00__w0 : Int := ((0 : Int) + v_A00__data_word)
  let (v_A10_nrows, v_A10_ncols, v_A10_rowstride, v_A10_width, v_A10_high_bitmask, v_A10_flags, v_A10__data_row, v_A10__data_word) := (M4ri.Gen.C.mzdInitWindow v_r1 (0 : Int) v_nrows v_r1 v_A_nrows v_A_rowstride)
  let v_A10__r0 : Int := ((0 : Int) + v_A10__data_row)
  let v_A10__w0 : Int := ((0 : Int) + v_A10__data_word)
  let (v_A01_nrows, v_A01_ncols, v_A01_rowstride, v_A01_width, v_A01_high_bitmask, v_A01_flags, v_A01__data_row, v_A01__data_word) := (M4ri.Gen.C.mzdInitWindow (0 : Int) v_n1 v_r1 v_ncols v_A_nrows v_A_rowstride)
  let v_A01__r0 : Int := ((0 : Int) + v_A01__data_row)
  let v_A01__w0 : Int := ((0 : Int) + v_A01__data_word)
  let (v_A11_nrows, v_A11_ncols, v_A11_rowstride, v_A11_width, v_A11_high_bitmask, v_A11_flags, v_A11__data_row, v_A11__data_word) := (M4ri.Gen.C.mzdInitWindow v_r1 v_n1 v_nrows v_ncols v_A_nrows v_A_rowstride)
  let v_A11__r0 : Int := ((0 : Int) + v_A11__data_row)
  let v_A11__w0 : Int := ((0 : Int) + v_A11__data_word)
  let v_mem_A : Int → Int → BitVec 64 := schurMem v_mem_A v_mem1_P_values v_nrows v_r1 v_cutoff v_P1__begin v_A1_nrows v_A1_ncols v_A1_width v_A1_high_bitmask v_A1__r0 v_A1__w0 v_A00_nrows v_A00_ncols v_A00_width v_A00_high_bitmask v_A00__r0 v_A00__w0 v_A00_rowstride v_A01_nrows v_A01_ncols v_A01_width v_A01_high_bitmask v_A01__r0 v_A01__w0 v_A01_rowstride v_A10_nrows v_A10_ncols v_A10_width v_A10_high_bitmask v_A10__r0 v_A10__w0 v_A11_nrows v_A11_ncols v_A11_width v_A11_high_bitmask v_A11__r0 v_A11__w0 f__mzd_trsm_lower_left_russian f__mzd_trsm_lower_left f_mzd_addmul
  seg3F v_mem_A v_mem1_P_values v_mem1_Q_values v_nrows v_ncols v_r1 v_n1 v_cutoff f__mzd_ple v_A11_nrows v_A11_ncols v_A11_width v_A11_high_bitmask v_A11__r0 v_A11__w0 v_A10_nrows v_A10_ncols v_A10_width v_A10_high_bitmask v_A10__r0 v_A10__w0 v_A_nrows v_A_ncols v_A_width v_A_high_bitmask f__mzd_compress_l

/-- `Gen.C.pleFull`: the recursive branch (from `rci_t n1 = …` to `return r1 + r2`) -/
def recF (v_mem_A : (Int → Int → BitVec 64)) (v_mem1_P_values v_mem1_Q_values : Int → Int) (v_ncols v_nrows v_A_nrows v_A_rowstride v_cutoff : Int) (f__mzd_ple : (CLoop.MView → (Int → Int) → (Int → Int) → Int → Int × (Int → Int → BitVec 64) × (Int → Int) × (Int → Int))) (f__mzd_trsm_lower_left_russian f__mzd_trsm_lower_left : (CLoop.MView → CLoop.MView → Int → (Int → Int → BitVec 64))) (f_mzd_addmul : (CLoop.MView → CLoop.MView → CLoop.MView → Int → (Int → Int → BitVec 64))) (v_A_ncols v_A_width : Int) (v_A_high_bitmask : BitVec 64) (f__mzd_compress_l : (CLoop.MView → Int → Int → Int → (Int → Int → BitVec 64))) : Int × (Int → Int) × (Int → Int) × (Int → Int → BitVec 64) :=
  let v_n1 : Int := ((((Int.tdiv (v_ncols - (1 : Int)) (64 : Int)) + (1 : Int)) >>> ((1 : Int)).toNat) * (64 : Int))
  let (v_A0_nrows, v_A0_ncols, v_A0_rowstride, v_A0_width, v_A0_high_bitmask, v_A0_flags, v_A0__data_row, v_A0__data_word) := (M4ri.Gen.C.mzdInitWindow (0 : Int) (0 : Int) v_nrows v_n1 v_A_nrows v_A_rowstride)
  let v_A0__r0 : Int := ((0 : Int) + v_A0__data_row)
  let v_A0__w0 : Int := ((0 : Int) + v_A0__data_word)
  let (v_A1_nrows, v_A1_ncols, v_A1_rowstride, v_A1_width, v_A1_high_bitmask, v_A1_flags, v_A1__data_row, v_A1__data_word) := (M4ri.Gen.C.mzdInitWindow (0 : Int) v_n1 v_nrows v_ncols v_A_nrows v_A_rowstride)
  let v_A1__r0 : Int := ((0 : Int) + v_A1__data_row)
  let v_A1__w0 : Int := ((0 : Int) + v_A1__data_word)
  let v_P1__begin : Int := (0 : Int)
  let v_Q1__begin : Int := (0 : Int)
  let (v_r1, cres2__0, cperm2__0, cperm2__1) := (f__mzd_ple (CLoop.MView.mk (CLoop.view v_mem_A v_A0__r0 v_A0__w0) v_A0_nrows v_A0_ncols v_A0_width v_A0_high_bitmask) (fun i => v_mem1_P_values (v_P1__begin + i)) (fun i => v_mem1_Q_values (v_Q1__begin + i)) v_cutoff)
  let v_mem_A : Int → Int → BitVec 64 := (CLoop.unview v_mem_A v_A0__r0 v_A0__w0 v_A0_nrows v_A0_width cres2__0)
  let v_mem1_P_values : Int → Int := (fun i => if v_P1__begin ≤ i ∧ i < v_P1__begin + (v_nrows - (0 : Int)) then cperm2__0 (i - v_P1__begin) else v_mem1_P_values i)
  let v_mem1_Q_values : Int → Int := (fun i => if v_Q1__begin ≤ i ∧ i < v_Q1__begin + (v_A0_ncols - (0 : Int)) then cperm2__1 (i - v_Q1__begin) else v_mem1_Q_values i)
  seg2F v_mem_A v_mem1_P_values v_mem1_Q_values v_nrows v_ncols v_r1 v_n1 v_cutoff v_A_nrows v_A_rowstride v_P1__begin v_A1_nrows v_A1_ncols v_A1_width v_A1_high_bitmask v_A1__r0 v_A1__w0 f__mzd_ple f__mzd_trsm_lower_left_russian f__mzd_trsm_lower_left f_mzd_addmul v_A_ncols v_A_width v_A_high_bitmask f__mzd_compress_l

/-- `Gen.C.pleFull`: the base case through a copy (`mzd_copy(NULL, A)`, `_mzd_ple_russian(Abar, P, Q, 0)`, `mzd_copy(A, Abar)`) -/
def baseF (v_mem_A : (Int → Int → BitVec 64)) (v_mem1_P_values v_mem1_Q_values : Int → Int) (v_A_nrows v_A_ncols v_A_width : Int) (v_A_high_bitmask : BitVec 64) (f_mzd_copy_new : CLoop.MView → (Int → Int → BitVec 64) × Int × Int) (f__mzd_ple_russian : (CLoop.MView → (Int → Int) → (Int → Int) → Int → Int × (Int → Int → BitVec 64) × (Int → Int) × (Int → Int))) (f_mzd_copy : CLoop.MView → CLoop.MView → (Int → Int → BitVec 64)) : Int × (Int → Int) × (Int → Int) × (Int → Int → BitVec 64) :=
  let (v_mem_Abar, v_Abar_nrows, v_Abar_ncols) := (f_mzd_copy_new (CLoop.MView.mk v_mem_A v_A_nrows v_A_ncols v_A_width v_A_high_bitmask))
  let v_Abar_width : Int := (Int.tdiv (v_Abar_ncols + (63 : Int)) (64 : Int))
  let v_Abar_high_bitmask : BitVec 64 := ((BitVec.allOnes 64) >>> ((Int.tmod ((64 : Int) - (Int.tmod v_Abar_ncols (64 : Int))) (64 : Int))).toNat)
  let v_Abar_rowstride : Int := (if (CLoop.iand v_Abar_width (1 : Int)) = (0 : Int) then v_Abar_width else v_Abar_width + (1 : Int))
  let v_Abar_flags : BitVec 8 := (if v_Abar_high_bitmask ≠ (BitVec.allOnes 64) then (2#8) else (0#8))
  let (v_r, cres2__0, cperm2__0, cperm2__1) := (f__mzd_ple_russian (CLoop.MView.mk (CLoop.view v_mem_Abar (0 : Int) (0 : Int)) v_Abar_nrows v_Abar_ncols v_Abar_width v_Abar_high_bitmask) v_mem1_P_values v_mem1_Q_values (0 : Int))
  let v_mem_Abar : Int → Int → BitVec 64 := (CLoop.unview v_mem_Abar (0 : Int) (0 : Int) v_Abar_nrows v_Abar_width cres2__0)
  let v_mem1_P_values : Int → Int := cperm2__0
  let v_mem1_Q_values : Int → Int := cperm2__1
  let cres2__0 := (f_mzd_copy (CLoop.MView.mk v_mem_A v_A_nrows v_A_ncols v_A_width v_A_high_bitmask) (CLoop.MView.mk (CLoop.view v_mem_Abar (0 : Int) (0 : Int)) v_Abar_nrows v_Abar_ncols v_Abar_width v_Abar_high_bitmask))
  let v_mem_A : Int → Int → BitVec 64 := cres2__0
  (v_r, v_mem1_P_values, v_mem1_Q_values, v_mem_A)

/-- `Gen.C.pleFull` after the two initialisation loops: `if (!nrows) return 0`, the regime test, the two branches -/
def restF (v_cutoff : Int) (v_mem1_P_values v_mem1_Q_values : Int → Int) (v_mem_A : (Int → Int → BitVec 64)) (v_ncols v_nrows v_A_ncols v_A_width v_A_nrows : Int) (v_A_high_bitmask : BitVec 64) (f_mzd_copy_new : CLoop.MView → (Int → Int → BitVec 64) × Int × Int) (f__mzd_ple_russian : (CLoop.MView → (Int → Int) → (Int → Int) → Int → Int × (Int → Int → BitVec 64) × (Int → Int) × (Int → Int))) (f_mzd_copy : CLoop.MView → CLoop.MView → (Int → Int → BitVec 64)) (v_A_rowstride : Int) (f__mzd_ple : (CLoop.MView → (Int → Int) → (Int → Int) → Int → Int × (Int → Int → BitVec 64) × (Int → Int) × (Int → Int))) (f__mzd_trsm_lower_left_russian f__mzd_trsm_lower_left : (CLoop.MView → CLoop.MView → Int → (Int → Int → BitVec 64))) (f_mzd_addmul : (CLoop.MView → CLoop.MView → CLoop.MView → Int → (Int → Int → BitVec 64))) (f__mzd_compress_l : (CLoop.MView → Int → Int → Int → (Int → Int → BitVec 64))) : Int × (Int → Int) × (Int → Int) × (Int → Int → BitVec 64) :=
  if (!(decide (v_nrows ≠ (0 : Int)))) then
    ((0 : Int), v_mem1_P_values, v_mem1_Q_values, v_mem_A)
  else
    if ((decide (v_ncols ≤ (64 : Int))) || (decide ((v_A_width * v_A_nrows) ≤ (if (decide ((524288 : Int) < ((56623104 : Int) >>> ((3 : Int)).toNat))) then (524288 : Int) else ((56623104 : Int) >>> ((3 : Int)).toNat))))) then
      baseF v_mem_A v_mem1_P_values v_mem1_Q_values v_A_nrows v_A_ncols v_A_width v_A_high_bitmask f_mzd_copy_new f__mzd_ple_russian f_mzd_copy
    else
      recF v_mem_A v_mem1_P_values v_mem1_Q_values v_ncols v_nrows v_A_nrows v_A_rowstride v_cutoff f__mzd_ple f__mzd_trsm_lower_left_russian f__mzd_trsm_lower_left f_mzd_addmul v_A_ncols v_A_width v_A_high_bitmask f__mzd_compress_l

/-- the generated `_mzd_ple` is its top (zero-row test, the two initialisation loops) followed by `restF` -/
theorem pleFull_split (v_cutoff : Int) (v_mem1_P_values : Int → Int) (v_mem1_Q_values : Int → Int) (v_mem_A : Int → Int → BitVec 64) (v_A_ncols : Int) (v_A_width : Int) (v_A_nrows : Int) (v_A_high_bitmask : BitVec 64) (f_mzd_copy_new : CLoop.MView → (Int → Int → BitVec 64) × Int × Int) (f__mzd_ple_russian : CLoop.MView → (Int → Int) → (Int → Int) → Int → Int × (Int → Int → BitVec 64) × (Int → Int) × (Int → Int)) (f_mzd_copy : CLoop.MView → CLoop.MView → (Int → Int → BitVec 64)) (v_A_rowstride : Int) (f__mzd_ple : CLoop.MView → (Int → Int) → (Int → Int) → Int → Int × (Int → Int → BitVec 64) × (Int → Int) × (Int → Int)) (f__mzd_trsm_lower_left_russian : CLoop.MView → CLoop.MView → Int → (Int → Int → BitVec 64)) (f__mzd_trsm_lower_left : CLoop.MView → CLoop.MView → Int → (Int → Int → BitVec 64)) (f_mzd_addmul : CLoop.MView → CLoop.MView → CLoop.MView → Int → (Int → Int → BitVec 64)) (f__mzd_compress_l : CLoop.MView → Int → Int → Int → (Int → Int → BitVec 64)) :
    Gen.C.pleFull v_cutoff v_mem1_P_values v_mem1_Q_values v_mem_A v_A_ncols v_A_width v_A_nrows v_A_high_bitmask f_mzd_copy_new f__mzd_ple_russian f_mzd_copy v_A_rowstride f__mzd_ple f__mzd_trsm_lower_left_russian f__mzd_trsm_lower_left f_mzd_addmul f__mzd_compress_l = (
      let v_ncols : Int := v_A_ncols
      let v_nrows : Int := (M4ri.Gen.C.mzdFirstZeroRow v_A_ncols v_A_width v_A_nrows v_mem_A)
      let v_i : Int := v_nrows
      let (v_mem1_P_values, v_i) : (Int → Int) × Int := CLoop.loop ((v_A_nrows).toNat)
          (fun (st : (Int → Int) × Int) => match st with
          | (v_mem1_P_values, v_i) => (decide (v_i < v_A_nrows)))
          (fun (st : (Int → Int) × Int) => match st with
          | (v_mem1_P_values, v_i) => 
          let v_mem1_P_values : Int → Int := (CLoop.upd1 v_mem1_P_values v_i v_i)
          let v_i : Int := (v_i + (1 : Int))
          (v_mem1_P_values, v_i))
          (v_mem1_P_values, v_i)
      let v_i : Int := (0 : Int)
      let (v_mem1_Q_values, v_i) : (Int → Int) × Int := CLoop.loop ((v_A_ncols).toNat)
          (fun (st : (Int → Int) × Int) => match st with
          | (v_mem1_Q_values, v_i) => (decide (v_i < v_A_ncols)))
          (fun (st : (Int → Int) × Int) => match st with
          | (v_mem1_Q_values, v_i) => 
          let v_mem1_Q_values : Int → Int := (CLoop.upd1 v_mem1_Q_values v_i v_i)
          let v_i : Int := (v_i + (1 : Int))
          (v_mem1_Q_values, v_i))
          (v_mem1_Q_values, v_i)
      restF v_cutoff v_mem1_P_values v_mem1_Q_values v_mem_A v_ncols v_nrows v_A_ncols v_A_width v_A_nrows v_A_high_bitmask f_mzd_copy_new f__mzd_ple_russian f_mzd_copy v_A_rowstride f__mzd_ple f__mzd_trsm_lower_left_russian f__mzd_trsm_lower_left f_mzd_addmul f__mzd_compress_l) := rfl

/-! ### 3. the recursive branch of `pleFull` = `Gen.C.pleRecStep` (loop bounds `A->nrows` / `nrows`), with the
  recursive callee guarded on the column count of the record -/

/-- the results of `_mzd_ple` as a callee `(rank, A, P, Q)` in the order of the generated `pleFull` `(rank, P, Q, A)` -/
def reord (o : Int × Mem × (Int → Int) × (Int → Int)) : Int × (Int → Int) × (Int → Int) × Mem :=
  (o.1, o.2.2.1, o.2.2.2, o.2.1)

/-- … and back -/
def unord (o : Int × (Int → Int) × (Int → Int) × Mem) : Int × Mem × (Int → Int) × (Int → Int) :=
  (o.1, o.2.2.2, o.2.1, o.2.2.1)

/-- `f` on the records with at least one column, `g` elsewhere -/
def guardF (g f : PleFn) : PleFn := fun V P Q c => if 1 ≤ V.ncols then f V P Q c else g V P Q c

theorem seg4F_eq (m : Mem) (P Q : Int → Int) (nr nc r1 n1 r2 pb qb Anr Aw : Int) (hb : BitVec 64)
    (comp : CLoop.MView → Int → Int → Int → Mem) (h0 : 0 ≤ r1) (h1 : nr ≤ Anr) :
    seg4F m P Q nr nc r1 n1 r2 pb qb Anr nc Aw hb comp = reord (seg4 m P Q nr nc r1 n1 r2 pb qb Anr nc Aw hb comp) := by
  unfold seg4F seg4
  dsm
  generalize hres : CLoop.loop (Int.toNat Anr) _ _ _ = res
  generalize hres' : CLoop.loop (Int.toNat nr) _ _ _ = res'
  have k1 := write_loop hres (fun _ v => v + r1) pb (nr - r1).toNat (by omega)
    (by intro mm k; dsimp only; rw [decide_eq_decide]; omega)
    (by intro mm k hk; dsimp only; simp only [Int.zero_add])
  have k2 := write_loop hres' (fun _ v => v + r1) pb (nr - r1).toNat (by omega)
    (by intro mm k; dsimp only; rw [decide_eq_decide]; omega)
    (by intro mm k hk; dsimp only; simp only [Int.zero_add])
  subst k1 k2
  dsm
  generalize CLoop.loop _ _ _ _ = res2
  obtain ⟨a, b, c⟩ := res2
  dsm
  generalize CLoop.loop _ _ _ _ = res3
  obtain ⟨a', b', c'⟩ := res3
  rfl

theorem seg3F_eq (g f : PleFn) (m : Mem) (P Q : Int → Int) (nr nc r1 n1 cutoff : Int)
    (a11r a11c a11w : Int) (a11h : BitVec 64) (a11r0 a11w0 : Int) (a10r a10c a10w : Int) (a10h : BitVec 64)
    (a10r0 a10w0 : Int) (Anr Aw : Int) (hb : BitVec 64) (comp : CLoop.MView → Int → Int → Int → Mem)
    (h0 : 0 ≤ r1) (h1 : nr ≤ Anr) (hc : 1 ≤ a11c) :
    seg3F m P Q nr nc r1 n1 cutoff f a11r a11c a11w a11h a11r0 a11w0 a10r a10c a10w a10h a10r0 a10w0 Anr nc Aw hb comp
      = reord (seg3 m P Q nr nc r1 n1 cutoff (guardF g f) a11r a11c a11w a11h a11r0 a11w0 a10r a10c a10w a10h a10r0
          a10w0 Anr nc Aw hb comp) := by
  unfold seg3F seg3 guardF
  dsm
  rw [if_pos hc]
  generalize f _ _ _ _ = o
  obtain ⟨r2, res, p, q⟩ := o
  dsm
  exact seg4F_eq _ _ _ nr nc r1 n1 r2 _ _ Anr Aw hb comp h0 h1

theorem seg2F_eq (g f : PleFn) (m : Mem) (P Q : Int → Int) (nr nc r1 n1 cutoff Anr rs pb : Int)
    (a1r a1c a1w : Int) (a1h : BitVec 64) (a1r0 a1w0 : Int) (fruss frec : CLoop.MView → CLoop.MView → Int → Mem)
    (addmul : CLoop.MView → CLoop.MView → CLoop.MView → Int → Mem) (Aw : Int) (hb : BitVec 64)
    (comp : CLoop.MView → Int → Int → Int → Mem) (h0 : 0 ≤ r1) (h1 : nr ≤ Anr) (hc : 1 ≤ nc - n1) :
    seg2F m P Q nr nc r1 n1 cutoff Anr rs pb a1r a1c a1w a1h a1r0 a1w0 f fruss frec addmul nc Aw hb comp
      = reord (seg2 m P Q nr nc r1 n1 cutoff Anr rs pb a1r a1c a1w a1h a1r0 a1w0 (guardF g f) fruss frec addmul nc Aw
          hb comp) := by
  unfold seg2F seg2 Gen.C.mzdInitWindow
  dsm
  exact seg3F_eq g f _ _ _ nr nc r1 n1 cutoff _ _ _ _ _ _ _ _ _ _ _ _ Anr Aw hb comp h0 h1 hc

theorem guardF_pos (g f : PleFn) (V : CLoop.MView) (P Q : Int → Int) (c : Int) (h : 1 ≤ V.ncols) :
    guardF g f V P Q c = f V P Q c := by
  unfold guardF
  rw [if_pos h]

theorem splitPoint_ge (n : Nat) (h : 64 < n) : 64 ≤ Rec.splitPoint n := by
  unfold Rec.splitPoint; omega

/-- **the recursive branch of the generated `pleFull` is `Gen.C.pleRecStep`** (results in the order of `pleFull`)
    with the recursive callee guarded, whenever the callee cannot be told apart from a lifted model function with
    the contract `GoodOut` on canonical records with at least one column (this bounds the rank it returns, hence
    the trip count of the `P2[i] += r1` loop, whose bound is `A->nrows` in one text and `nrows` in the other) -/
theorem recF_eq (rec : BMat → Rec.Out) (hrec : ∀ W : BMat, W.WF → Rec.GoodOut W (rec W)) (cutoff rs : Int)
    (f : PleFn) (fruss frec : CLoop.MView → CLoop.MView → Int → Mem)
    (addmul : CLoop.MView → CLoop.MView → CLoop.MView → Int → Mem) (comp : CLoop.MView → Int → Int → Int → Mem)
    (nrows ncols nr : Nat) (hnr : nr ≤ nrows) (h64 : 64 < ncols) (m : Mem) (P Q : Int → Int) (hb : BitVec 64)
    (H : ∀ (r c : Nat) (mem : Mem) (P Q : Int → Int), 1 ≤ c → PleAgree r c
      (f ⟨mem, (r : Int), (c : Int), (((c + 63) / 64 : Nat) : Int), leftMask (c % 64)⟩ P Q cutoff)
      (liftPle rec ⟨mem, (r : Int), (c : Int), (((c + 63) / 64 : Nat) : Int), leftMask (c % 64)⟩ P Q cutoff)) :
    recF m P Q ncols nr nrows rs cutoff f fruss frec addmul ncols (((ncols + 63) / 64 : Nat) : Int) hb comp
      = reord (Gen.C.pleRecStep m P Q ncols nr nrows rs cutoff (guardF (liftPle rec) f) fruss frec addmul ncols
          (((ncols + 63) / 64 : Nat) : Int) hb comp) := by
  rw [pleRecStep_split]
  unfold recF
  dsm
  have hsp : ((Int.tdiv ((ncols : Int) - 1) 64 + 1) >>> (1 : Int).toNat) * 64
      = ((Rec.splitPoint ncols : Nat) : Int) := GenTie.pleSplit_eq ncols
  rw [hsp]
  have hk := Rec.splitPoint_le ncols
  have hk64 := GenTiePle.splitPoint_mod ncols
  have hklt : Rec.splitPoint ncols < ncols := Rec.splitPoint_lt ncols (by omega)
  have hkge := splitPoint_ge ncols h64
  generalize Rec.splitPoint ncols = n1 at *
  rw [mzdInitWindow_in 0 0 nr n1 nrows rs 0 0 nr n1 nrows rfl rfl rfl rfl rfl rfl (by omega) (by omega) hnr,
    mzdInitWindow_in 0 n1 nr ncols nrows rs 0 n1 nr ncols nrows rfl rfl rfl rfl rfl hk64 (by omega) hk hnr]
  dsm
  norm_win'
  rw [guardF_pos (liftPle rec) f _ _ _ _ (by show (1 : Int) ≤ (n1 : Int); omega)]
  have hH := H nr n1 (CLoop.view m ((0 : Nat) : Int) ((0 : Nat) : Int)) (fun i => P i) (fun i => Q i) (by omega)
  obtain ⟨r1, P1, Q1, res, e, r1r, r1c, p1s, p1l, q1s⟩ := liftPle_facts rec hrec
    (CLoop.view m ((0 : Nat) : Int) ((0 : Nat) : Int)) nr n1 (fun i => P i) (fun i => Q i) cutoff
  rw [e] at hH
  generalize f _ _ _ _ = o at hH ⊢
  obtain ⟨r1', res', p', q'⟩ := o
  obtain ⟨h1, h2, h3, h4⟩ := hH
  dsm at h1 ⊢
  subst h1
  exact seg2F_eq (liftPle rec) f _ _ _ nr ncols r1 n1 cutoff nrows rs 0 _ _ _ _ _ _ fruss frec addmul _ hb comp
    (by omega) (by omega) (by omega)

/-! ### 4. the recursive branch only uses the entries `[nrows, A->nrows)` of the incoming `P` and nothing of `Q`;
  whatever else they hold stays outside `[0, A->nrows)`, `[0, A->ncols)` -/

/-- two permutation memories that agree on `[0, N)` -/
def PAg (N : Int) (P P' : Int → Int) : Prop := ∀ i : Int, 0 ≤ i → i < N → P i = P' i

theorem PAg.upd1 {N : Int} {P P' : Int → Int} (h : PAg N P P') (x : Int) {v v' : Int}
    (hv : 0 ≤ x → x < N → v = v') : PAg N (CLoop.upd1 P x v) (CLoop.upd1 P' x v') := by
  intro i h0 h1
  unfold CLoop.upd1
  by_cases hi : i = x
  · rw [if_pos hi, if_pos hi]; subst hi; exact hv h0 h1
  · rw [if_neg hi, if_neg hi]; exact h i h0 h1

/-- two results `(rank, A, P, Q)` with the same rank and memory, `P` agreeing on `[0, N)`, `Q` on `[0, C)` -/
def PermAgree (N C : Int) (o o' : Int × Mem × (Int → Int) × (Int → Int)) : Prop :=
  o.1 = o'.1 ∧ o.2.1 = o'.2.1 ∧ PAg N o.2.2.1 o'.2.2.1 ∧ PAg C o.2.2.2 o'.2.2.2

theorem seg4_perm (m : Mem) (P P' Q Q' : Int → Int) (nr nc r1 n1 r2 pb qb Anr Anc Aw : Int) (hb : BitVec 64)
    (comp : CLoop.MView → Int → Int → Int → Mem) (N C : Int) (hP : PAg N P P') (hQ : PAg C Q Q') (hn1 : 0 ≤ n1)
    (hr2 : n1 + r2 ≤ C) :
    PermAgree N C (seg4 m P Q nr nc r1 n1 r2 pb qb Anr Anc Aw hb comp)
      (seg4 m P' Q' nr nc r1 n1 r2 pb qb Anr Anc Aw hb comp) := by
  unfold seg4
  dsm
  generalize hres : CLoop.loop _ _ _ (P, _) = res
  generalize hres' : CLoop.loop _ _ _ (P', _) = res'
  have key := loop_rel_eq hres hres' (fun s s' => s.2 = s'.2 ∧ PAg N s.1 s'.1) ⟨rfl, hP⟩ ?_ ?_
  · obtain ⟨P1, i1⟩ := res
    obtain ⟨P1', i1'⟩ := res'
    obtain ⟨-, kP⟩ := key
    dsm at kP ⊢
    generalize hres2 : CLoop.loop _ _ _ (Q, _, _) = res2
    generalize hres2' : CLoop.loop _ _ _ (Q', _, _) = res2'
    have key2 := loop_rel_eq hres2 hres2' (fun s s' => s.2 = s'.2 ∧ PAg C s.1 s'.1) ⟨rfl, hQ⟩ ?_ ?_
    · obtain ⟨Q2, i2, j2⟩ := res2
      obtain ⟨Q2', i2', j2'⟩ := res2'
      obtain ⟨-, kQ⟩ := key2
      dsm at kQ ⊢
      generalize hres3 : CLoop.loop _ _ _ (Q2, _, _) = res3
      generalize hres3' : CLoop.loop _ _ _ (Q2', _, _) = res3'
      have key3 := loop_rel_eq hres3 hres3' (fun s s' => s.2 = s'.2 ∧ n1 ≤ s.2.1 ∧ PAg C s.1 s'.1)
        ⟨rfl, Int.le_refl _, kQ⟩ ?_ ?_
      · obtain ⟨Q3, i3, j3⟩ := res3
        obtain ⟨Q3', i3', j3'⟩ := res3'
        exact ⟨rfl, rfl, kP, key3.2.2⟩
      · intro s s' hR
        obtain ⟨q, i, j⟩ := s
        obtain ⟨q', i', j'⟩ := s'
        obtain ⟨k1, k2, k3⟩ := hR
        dsimp only at k1 ⊢
        rw [Prod.mk.injEq] at k1
        obtain ⟨rfl, rfl⟩ := k1
        rfl
      · intro s s' hR hcs
        obtain ⟨q, i, j⟩ := s
        obtain ⟨q', i', j'⟩ := s'
        obtain ⟨k1, k2, k3⟩ := hR
        dsimp only at k1 k2 k3 hcs ⊢
        rw [Prod.mk.injEq] at k1
        obtain ⟨rfl, rfl⟩ := k1
        have hi : i < n1 + r2 := by simpa using hcs
        exact ⟨rfl, by omega, k3.upd1 j (fun _ _ => k3 i (by omega) (by omega))⟩
    · intro s s' hR
      obtain ⟨q, i, j⟩ := s
      obtain ⟨q', i', j'⟩ := s'
      obtain ⟨k1, k3⟩ := hR
      dsimp only at k1 ⊢
      rw [Prod.mk.injEq] at k1
      obtain ⟨rfl, rfl⟩ := k1
      rfl
    · intro s s' hR hcs
      obtain ⟨q, i, j⟩ := s
      obtain ⟨q', i', j'⟩ := s'
      obtain ⟨k1, k3⟩ := hR
      dsimp only at k1 k3 hcs ⊢
      rw [Prod.mk.injEq] at k1
      obtain ⟨rfl, rfl⟩ := k1
      exact ⟨rfl, k3.upd1 _ (fun h0 h1 => by rw [k3 _ h0 h1])⟩
  · intro s s' hR
    obtain ⟨q, i⟩ := s
    obtain ⟨q', i'⟩ := s'
    obtain ⟨k1, k3⟩ := hR
    dsimp only at k1 ⊢
    subst k1
    rfl
  · intro s s' hR hcs
    obtain ⟨q, i⟩ := s
    obtain ⟨q', i'⟩ := s'
    obtain ⟨k1, k3⟩ := hR
    dsimp only at k1 k3 hcs ⊢
    subst k1
    exact ⟨rfl, k3.upd1 _ (fun h0 h1 => by rw [k3 _ h0 h1])⟩

theorem seg3_perm (rec : BMat → Rec.Out) (hrec : ∀ W : BMat, W.WF → Rec.GoodOut W (rec W)) (cutoff : Int)
    (nrows ncols nr k n1 : Nat) (hnr : nr ≤ nrows) (hk : k ≤ nr) (hn1 : n1 ≤ ncols) (m : Mem)
    (P P' Q Q' : Int → Int) (hb : BitVec 64) (hP : PAg nrows P P') (hQ : PAg n1 Q Q') :
    PermAgree nrows ncols
      (seg3 m P Q nr ncols k n1 cutoff (liftPle rec)
        ((nr - k : Nat) : Int) ((ncols - n1 : Nat) : Int) (((ncols - n1 + 63) / 64 : Nat) : Int)
        (leftMask ((ncols - n1) % 64)) (k : Int) ((n1 / 64 : Nat) : Int)
        ((nr - k : Nat) : Int) ((k : Nat) : Int) (((k + 63) / 64 : Nat) : Int)
        (leftMask (k % 64)) (k : Int) ((0 : Nat) : Int)
        nrows ncols (((ncols + 63) / 64 : Nat) : Int) hb liftCompress)
      (seg3 m P' Q' nr ncols k n1 cutoff (liftPle rec)
        ((nr - k : Nat) : Int) ((ncols - n1 : Nat) : Int) (((ncols - n1 + 63) / 64 : Nat) : Int)
        (leftMask ((ncols - n1) % 64)) (k : Int) ((n1 / 64 : Nat) : Int)
        ((nr - k : Nat) : Int) ((k : Nat) : Int) (((k + 63) / 64 : Nat) : Int)
        (leftMask (k % 64)) (k : Int) ((0 : Nat) : Int)
        nrows ncols (((ncols + 63) / 64 : Nat) : Int) hb liftCompress) := by
  unfold seg3
  dsm
  obtain ⟨r2, P2, Q2, res, e, r2r, r2c, p2s, p2l, q2s⟩ := liftPle_facts rec hrec
    (CLoop.view m (k : Int) ((n1 / 64 : Nat) : Int)) (nr - k) (ncols - n1) (fun i => P ((k : Int) + i))
    (fun i => Q ((n1 : Int) + i)) cutoff
  have e' := liftPle_congr_nat rec (nr - k) ((ncols - n1 + 63) / 64) ((ncols - n1 : Nat) : Int)
    (leftMask ((ncols - n1) % 64)) (leftMask ((ncols - n1) % 64))
    (AgreeOn.refl _ _ (CLoop.view m (k : Int) ((n1 / 64 : Nat) : Int)))
    (fun i => P' ((k : Int) + i)) (fun i => Q' ((n1 : Int) + i)) (fun i => P ((k : Int) + i))
    (fun i => Q ((n1 : Int) + i)) cutoff cutoff
  rw [e', e]
  dsm
  have hPf : ∀ i : Int, 0 ≤ i → i < (nr : Int) - (k : Int) → i < ((nr - k : Nat) : Int) →
      (if (k : Int) ≤ (k : Int) + i ∧ (k : Int) + i < (k : Int) + ((nr : Int) - (k : Int))
          then arrOf P2 ((k : Int) + i - (k : Int)) else P ((k : Int) + i))
        = (if (k : Int) ≤ (k : Int) + i ∧ (k : Int) + i < (k : Int) + ((nr : Int) - (k : Int))
          then arrOf P2 ((k : Int) + i - (k : Int)) else P' ((k : Int) + i)) ∧
      0 ≤ (if (k : Int) ≤ (k : Int) + i ∧ (k : Int) + i < (k : Int) + ((nr : Int) - (k : Int))
          then arrOf P2 ((k : Int) + i - (k : Int)) else P' ((k : Int) + i)) ∧
      (if (k : Int) ≤ (k : Int) + i ∧ (k : Int) + i < (k : Int) + ((nr : Int) - (k : Int))
          then arrOf P2 ((k : Int) + i - (k : Int)) else P' ((k : Int) + i)) < ((nr - k : Nat) : Int) := by
    intro i h0 h1 _
    rw [if_pos (by omega), if_pos (by omega)]
    have := p2l i.toNat (by omega)
    unfold arrOf
    rw [show (k : Int) + i - (k : Int) = i by omega]
    exact ⟨rfl, by omega, by omega⟩
  rw [unview_congr _ _ _ (nr - k) ((k + 63) / 64) (AgI.to (mzdApplyPLeft_agree
    (AgI.of (AgreeOn.refl (nr - k) ((k + 63) / 64) _)) _ _ _ _ _ hPf))]
  apply seg4_perm
  · intro i h0 h1
    dsimp only
    split
    · rfl
    · exact hP i h0 h1
  · intro i h0 h1
    dsimp only
    split
    · rfl
    · exact hQ i h0 (by omega)
  · omega
  · omega

theorem schurMem_perm (m : Mem) (P P' : Int → Int) (nr r1 cutoff pb : Int) (a1r : Nat) (a1c : Int) (a1w : Nat)
    (a1h : BitVec 64) (a1r0 a1w0 : Int) (a00r a00c a00w : Int) (a00h : BitVec 64) (a00r0 a00w0 a00rs : Int)
    (a01r a01c a01w : Int) (a01h : BitVec 64) (a01r0 a01w0 a01rs : Int) (a10r a10c a10w : Int) (a10h : BitVec 64)
    (a10r0 a10w0 : Int) (a11r a11c a11w : Int) (a11h : BitVec 64) (a11r0 a11w0 : Int)
    (fruss frec : CLoop.MView → CLoop.MView → Int → Mem)
    (addmul : CLoop.MView → CLoop.MView → CLoop.MView → Int → Mem)
    (hPv : ∀ i : Int, 0 ≤ i → i < nr - 0 → i < (a1r : Int) →
      P (pb + i) = P' (pb + i) ∧ 0 ≤ P' (pb + i) ∧ P' (pb + i) < (a1r : Int)) :
    schurMem m P nr r1 cutoff pb a1r a1c a1w a1h a1r0 a1w0 a00r a00c a00w a00h a00r0 a00w0 a00rs a01r a01c a01w a01h
        a01r0 a01w0 a01rs a10r a10c a10w a10h a10r0 a10w0 a11r a11c a11w a11h a11r0 a11w0 fruss frec addmul
      = schurMem m P' nr r1 cutoff pb a1r a1c a1w a1h a1r0 a1w0 a00r a00c a00w a00h a00r0 a00w0 a00rs a01r a01c a01w
        a01h a01r0 a01w0 a01rs a10r a10c a10w a10h a10r0 a10w0 a11r a11c a11w a11h a11r0 a11w0 fruss frec addmul := by
  unfold schurMem
  dsm
  rw [unview_congr _ _ _ a1r a1w (AgI.to (mzdApplyPLeft_agree
    (AgI.of (AgreeOn.refl a1r a1w _)) _ _ (fun i => P (pb + i)) (fun i => P' (pb + i)) _ hPv))]

theorem seg2_perm (rec : BMat → Rec.Out) (hrec : ∀ W : BMat, W.WF → Rec.GoodOut W (rec W)) (cutoff rs : Int)
    (fruss frec : CLoop.MView → CLoop.MView → Int → Mem)
    (addmul : CLoop.MView → CLoop.MView → CLoop.MView → Int → Mem)
    (nrows ncols nr k n1 : Nat) (hnr : nr ≤ nrows) (hk : k ≤ nr) (hn1 : n1 ≤ ncols) (hn64 : n1 % 64 = 0) (m : Mem)
    (P P' Q Q' : Int → Int) (hb : BitVec 64) (hP : PAg nrows P P') (hQ : PAg n1 Q Q')
    (hPv : ∀ i : Int, 0 ≤ i → i < nr → 0 ≤ P' i ∧ P' i < nr) :
    PermAgree nrows ncols
      (seg2 m P Q nr ncols k n1 cutoff nrows rs 0
        ((nr : Nat) : Int) ((ncols - n1 : Nat) : Int) (((ncols - n1 + 63) / 64 : Nat) : Int)
        (leftMask ((ncols - n1) % 64)) ((0 : Nat) : Int) ((n1 / 64 : Nat) : Int)
        (liftPle rec) fruss frec addmul ncols (((ncols + 63) / 64 : Nat) : Int) hb liftCompress)
      (seg2 m P' Q' nr ncols k n1 cutoff nrows rs 0
        ((nr : Nat) : Int) ((ncols - n1 : Nat) : Int) (((ncols - n1 + 63) / 64 : Nat) : Int)
        (leftMask ((ncols - n1) % 64)) ((0 : Nat) : Int) ((n1 / 64 : Nat) : Int)
        (liftPle rec) fruss frec addmul ncols (((ncols + 63) / 64 : Nat) : Int) hb liftCompress) := by
  unfold seg2
  dsm
  rw [mzdInitWindow_in 0 0 k k nrows rs 0 0 k k nrows rfl rfl rfl rfl rfl rfl (by omega) (by omega)
      (by omega),
    mzdInitWindow_in k 0 nr k nrows rs k 0 nr k nrows rfl rfl rfl rfl rfl rfl (by omega) (by omega)
      (by omega),
    mzdInitWindow_in 0 n1 k ncols nrows rs 0 n1 k ncols nrows rfl rfl rfl rfl rfl hn64 (by omega)
      (by omega) (by omega),
    mzdInitWindow_in k n1 nr ncols nrows rs k n1 nr ncols nrows rfl rfl rfl rfl rfl hn64 (by omega)
      (by omega) (by omega)]
  dsm
  norm_win'
  rw [schurMem_perm m P P' nr k cutoff 0 nr _ ((ncols - n1 + 63) / 64) _ _ _ _ _ _ _ _ _ _ _ _ _ _ _ _ _ _ _ _ _ _ _
    _ _ _ _ _ _ fruss frec addmul (fun i h0 h1 _ => by
      rw [Int.zero_add]
      exact ⟨hP i h0 (by omega), hPv i h0 (by omega)⟩)]
  exact seg3_perm rec hrec cutoff nrows ncols nr k n1 hnr hk hn1 _ P P' Q Q' hb hP hQ

/-- **the generated recursive branch (recursive callee = a lifted model function) in its incoming permutation
    memories**: only the entries `[nrows, A->nrows)` of `P` are used (`[0, nrows)` is overwritten by the first
    recursive call), nothing of `Q` (`[0, n1)` and `[n1, ncols)` are overwritten by the two calls) -/
theorem pleRecStep_perm (rec : BMat → Rec.Out) (hrec : ∀ W : BMat, W.WF → Rec.GoodOut W (rec W)) (cutoff rs : Int)
    (fruss frec : CLoop.MView → CLoop.MView → Int → Mem)
    (addmul : CLoop.MView → CLoop.MView → CLoop.MView → Int → Mem)
    (nrows ncols nr : Nat) (hnr : nr ≤ nrows) (m : Mem) (P P' Q Q' : Int → Int) (hb : BitVec 64)
    (hP : ∀ i : Int, (nr : Int) ≤ i → i < nrows → P i = P' i) :
    PermAgree nrows ncols
      (Gen.C.pleRecStep m P Q ncols nr nrows rs cutoff (liftPle rec) fruss frec addmul ncols
        (((ncols + 63) / 64 : Nat) : Int) hb liftCompress)
      (Gen.C.pleRecStep m P' Q' ncols nr nrows rs cutoff (liftPle rec) fruss frec addmul ncols
        (((ncols + 63) / 64 : Nat) : Int) hb liftCompress) := by
  rw [pleRecStep_split, pleRecStep_split]
  dsm
  have hsp : ((Int.tdiv ((ncols : Int) - 1) 64 + 1) >>> (1 : Int).toNat) * 64
      = ((Rec.splitPoint ncols : Nat) : Int) := GenTie.pleSplit_eq ncols
  rw [hsp]
  have hk := Rec.splitPoint_le ncols
  have hk64 := GenTiePle.splitPoint_mod ncols
  generalize Rec.splitPoint ncols = n1 at *
  rw [mzdInitWindow_in 0 0 nr n1 nrows rs 0 0 nr n1 nrows rfl rfl rfl rfl rfl rfl (by omega) (by omega) hnr,
    mzdInitWindow_in 0 n1 nr ncols nrows rs 0 n1 nr ncols nrows rfl rfl rfl rfl rfl hk64 (by omega) hk hnr]
  dsm
  norm_win'
  obtain ⟨r1, P1, Q1, res, e, r1r, r1c, p1s, p1l, q1s⟩ := liftPle_facts rec hrec
    (CLoop.view m ((0 : Nat) : Int) ((0 : Nat) : Int)) nr n1 (fun i => P i) (fun i => Q i) cutoff
  have e' := liftPle_congr_nat rec nr ((n1 + 63) / 64) ((n1 : Nat) : Int)
    (leftMask (n1 % 64)) (leftMask (n1 % 64))
    (AgreeOn.refl _ _ (CLoop.view m ((0 : Nat) : Int) ((0 : Nat) : Int)))
    (fun i => P' i) (fun i => Q' i) (fun i => P i) (fun i => Q i) cutoff cutoff
  rw [e', e]
  dsm
  apply seg2_perm rec hrec cutoff rs fruss frec addmul nrows ncols nr r1 n1 hnr r1r hk hk64
  · intro i h0 h1
    dsimp only
    split
    · rfl
    · exact hP i (by omega) h1
  · intro i h0 h1
    dsimp only
    rw [if_pos (by omega), if_pos (by omega)]
  · intro i h0 h1
    rw [if_pos (by omega)]
    have := p1l i.toNat (by omega)
    unfold arrOf
    rw [show i - 0 = i by omega]
    omega

/-! ### 5. the base case through a copy -/

/-- `mzd_copy(NULL, A)`: a fresh matrix (own memory, zero padding) holding the value of `A`; returns memory,
    `nrows`, `ncols` -/
def liftCopyNew (V : CLoop.MView) : Mem × Int × Int :=
  (memOf (Mzd.ofB (Mzd.ofView V).toB), (((Mzd.ofView V).toB.nrows : Nat) : Int),
    (((Mzd.ofView V).toB.ncols : Nat) : Int))

theorem ofView_agree (A : Mzd) (hA : A.WF) (m : Mem) (hm : AgreeOn A.nrows A.width m (memOf A)) :
    Mzd.ofView ⟨m, (A.nrows : Int), (A.ncols : Int), (A.width : Int), A.hb⟩ = A := by
  rw [ofView_congr (A.nrows : Int) (A.ncols : Int) (A.width : Int) A.hb A.hb
    (by rw [toNat_cast, toNat_cast]; exact hm)]
  exact GenTieEch.ofView_whole A hA

/-- **the base case of the generated `pleFull`** (`Abar = mzd_copy(NULL, A)`, `_mzd_ple_russian(Abar, P, Q, 0)`,
    `mzd_copy(A, Abar)`, `mzd_free(Abar)`) with `_mzd_ple_russian := liftPle base`: what `base` returns on the
    value of `A`, written into `A` -/
theorem baseF_eq (base : BMat → Rec.Out) (A : Mzd) (hA : A.WF) (m : Mem)
    (hm : AgreeOn A.nrows A.width m (memOf A)) (P Q : Int → Int) :
    baseF m P Q A.nrows A.ncols A.width A.hb liftCopyNew (liftPle base) GenTieEch.liftCopy
      = ((((base A.toB).2.2.2 : Nat) : Int), arrOf (base A.toB).2.1, arrOf (base A.toB).2.2.1,
          memOf (A.putB (base A.toB).1)) := by
  unfold baseF liftCopyNew
  dsm
  rw [ofView_agree A hA m hm]
  have hX : A.toB.WF := Mzd.WF_toB hA
  unfold liftPle GenTieEch.liftCopy
  dsm
  rw [GenTieEch.ofView_fresh A.toB (Mzd.ofB A.toB) (Mzd.WF_ofB A.toB) rfl rfl, Mzd.toB_ofB hX,
    GenTieEch.unview_whole _ (Mzd.WF_ofB A.toB) _ (A.toB.nrows : Int) (Int.tdiv ((A.toB.ncols : Int) + 63) 64) rfl
      (GenTieEch.hdr_w _),
    GenTieEch.ofView_fresh A.toB _ (Mzd.WF_putB (Mzd.WF_ofB A.toB) _) rfl rfl, ofView_agree A hA m hm]
  congr 4
  apply Mzd.putB_congr hA
  intro i j hi hj
  rw [Mzd.get_toB_of_lt _ i j (by simpa using hj),
    Mzd.bit_putB_of_lt _ _ (Mzd.WF_ofB A.toB) i j (by simpa using hi) (by simpa using hj)]

/-! ### 6. one step of the whole generated `_mzd_ple` -/

/-- `__M4RI_PLE_CUTOFF = MIN(524288, __M4RI_CPU_L3_CACHE >> 3)` with the L3 size `56623104` of the translated
    configuration -/
theorem pleCutoff_eq : (if (decide ((524288 : Int) < ((56623104 : Int) >>> ((3 : Int)).toNat))) then (524288 : Int)
    else ((56623104 : Int) >>> ((3 : Int)).toNat)) = 524288 := by decide

theorem arrOf_range (n : Nat) (i : Int) (h0 : 0 ≤ i) (h1 : i < n) : arrOf (Array.range n) i = i := by
  obtain ⟨j, rfl⟩ : ∃ j : Nat, i = (j : Int) := ⟨i.toNat, by omega⟩
  have hj : j < n := by omega
  unfold arrOf
  rw [Int.toNat_natCast]
  simp [Array.getD, hj]

theorem guardF_agree (rec : BMat → Rec.Out) (f : PleFn) (cutoff : Int)
    (H : ∀ (r c : Nat) (mem : Mem) (P Q : Int → Int), 1 ≤ c → PleAgree r c
      (f ⟨mem, (r : Int), (c : Int), (((c + 63) / 64 : Nat) : Int), leftMask (c % 64)⟩ P Q cutoff)
      (liftPle rec ⟨mem, (r : Int), (c : Int), (((c + 63) / 64 : Nat) : Int), leftMask (c % 64)⟩ P Q cutoff))
    (r c : Nat) (mem : Mem) (P Q : Int → Int) :
    PleAgree r c
      (guardF (liftPle rec) f ⟨mem, (r : Int), (c : Int), (((c + 63) / 64 : Nat) : Int), leftMask (c % 64)⟩ P Q cutoff)
      (liftPle rec ⟨mem, (r : Int), (c : Int), (((c + 63) / 64 : Nat) : Int), leftMask (c % 64)⟩ P Q cutoff) := by
  by_cases hc : 1 ≤ c
  · rw [guardF_pos _ _ _ _ _ _ (by show (1 : Int) ≤ (c : Int); omega)]
    exact H r c mem P Q hc
  · unfold guardF
    rw [if_neg (by show ¬ (1 : Int) ≤ (c : Int); omega)]
    exact PleAgree.refl _ _ _

/-- the model recursion with the constants of the C build (`m4ri_radix = 64`, `__M4RI_PLE_CUTOFF = 524288`) -/
abbrev pleM (base : BMat → Rec.Out) (baseRows : Nat) (n : Nat) : BMat → Rec.Out :=
  Rec.pleRec base 64 524288 baseRows n

/-- **one step of the WHOLE generated `_mzd_ple`** (`Gen.C.pleFull`: `mzd_first_zero_row`, the two initialisation
    loops, `if (!nrows) return 0`, the regime test with the numeral cut-off, the base case through a copy, the
    recursive branch) on a memory that shows `A` on its rows and words, with ARBITRARY incoming permutation
    memories: callees `mzd_copy(NULL, ·) := liftCopyNew`, `_mzd_ple_russian := liftPle base`, `mzd_copy := liftCopy`,
    `_mzd_ple := f` — any function that cannot be told apart from the lifted model recursion at fuel `fuel` on
    canonical records with at least one column —, the callees of the translated `_mzd_trsm_lower_left` := the
    substitution form and the closed recursion `cTrsmLL … mt`, `mzd_addmul := C + A·B`, `_mzd_compress_l :=
    compressL`.  It returns what the model returns at fuel `fuel + 1`: the rank; the memory (`m` itself if there
    is no non-zero row, the memory of `A.putB …` otherwise); `P` on `[0, A.nrows)`, `Q` on `[0, A.ncols)`. -/
theorem pleFull_step (base : BMat → Rec.Out) (hbase : Rec.GoodBase base) (baseRows fuel mt : Nat) (cutoff rs : Int)
    (f : PleFn)
    (H : ∀ (r c : Nat) (mem : Mem) (P Q : Int → Int), 1 ≤ c → PleAgree r c
      (f ⟨mem, (r : Int), (c : Int), (((c + 63) / 64 : Nat) : Int), leftMask (c % 64)⟩ P Q cutoff)
      (liftPle (pleM base baseRows fuel) ⟨mem, (r : Int), (c : Int), (((c + 63) / 64 : Nat) : Int),
        leftMask (c % 64)⟩ P Q cutoff))
    (A : Mzd) (hA : A.WF) (hc : 1 ≤ A.ncols) (m : Mem) (hm : AgreeOn A.nrows A.width m (memOf A))
    (P Q : Int → Int) :
    (Gen.C.pleFull cutoff P Q m A.ncols A.width A.nrows A.hb liftCopyNew (liftPle base) GenTieEch.liftCopy rs f
        llRuss (cTrsmLL llRuss addmulM rs rs mt) addmulM liftCompress).1
      = (((pleM base baseRows (fuel + 1) A.toB).2.2.2 : Nat) : Int) ∧
    (Gen.C.pleFull cutoff P Q m A.ncols A.width A.nrows A.hb liftCopyNew (liftPle base) GenTieEch.liftCopy rs f
        llRuss (cTrsmLL llRuss addmulM rs rs mt) addmulM liftCompress).2.2.2
      = (if Rec.firstZeroRow A.toB = 0 then m else memOf (A.putB (pleM base baseRows (fuel + 1) A.toB).1)) ∧
    PAg A.nrows
      (Gen.C.pleFull cutoff P Q m A.ncols A.width A.nrows A.hb liftCopyNew (liftPle base) GenTieEch.liftCopy rs f
        llRuss (cTrsmLL llRuss addmulM rs rs mt) addmulM liftCompress).2.1
      (arrOf (pleM base baseRows (fuel + 1) A.toB).2.1) ∧
    PAg A.ncols
      (Gen.C.pleFull cutoff P Q m A.ncols A.width A.nrows A.hb liftCopyNew (liftPle base) GenTieEch.liftCopy rs f
        llRuss (cTrsmLL llRuss addmulM rs rs mt) addmulM liftCompress).2.2.1
      (arrOf (pleM base baseRows (fuel + 1) A.toB).2.2.1) := by
  have hw : 1 ≤ A.width := by unfold Mzd.width widthOf; omega
  have hww : A.width = (A.ncols + 63) / 64 := rfl
  rw [pleFull_split]
  dsm
  rw [mzdFirstZeroRow_agree A.ncols A.nrows A.width hw hm, mzdFirstZeroRow_rec A hA hc]
  have hnr : Rec.firstZeroRow A.toB ≤ A.nrows := by
    have := Rec.firstZeroRow_le A.toB
    simpa using this
  generalize hres : CLoop.loop _ _ _ _ = res
  generalize hres2 : CLoop.loop _ _ _ _ = res2
  have k1 := write_loop hres (fun i _ => i) ((Rec.firstZeroRow A.toB : Nat) : Int)
    (A.nrows - Rec.firstZeroRow A.toB) (by simp)
    (by intro mm k; dsimp only; rw [decide_eq_decide]; omega)
    (by intro mm k hk; rfl)
  have k2 := write_loop hres2 (fun i _ => i) (0 : Int) A.ncols (by simp)
    (by intro mm k; dsimp only; rw [decide_eq_decide]; omega)
    (by intro mm k hk; dsimp only)
  subst k1 k2
  dsm
  unfold restF
  clear hres hres2
  have fP0 : ∀ i : Int, ((Rec.firstZeroRow A.toB : Nat) : Int) ≤ i → i < A.nrows →
      mapMem P (fun i _ => i) ((Rec.firstZeroRow A.toB : Nat) : Int) (A.nrows - Rec.firstZeroRow A.toB) i = i := by
    intro i h0 h1
    unfold mapMem
    rw [if_pos (by omega)]
  have fQ0 : ∀ i : Int, 0 ≤ i → i < A.ncols → mapMem Q (fun i _ => i) 0 A.ncols i = i := by
    intro i h0 h1
    unfold mapMem
    rw [if_pos (by omega)]
  generalize mapMem P (fun i _ => i) ((Rec.firstZeroRow A.toB : Nat) : Int) (A.nrows - Rec.firstZeroRow A.toB) = P0
    at *
  generalize mapMem Q (fun i _ => i) 0 A.ncols = Q0 at *
  rw [pleCutoff_eq]
  by_cases h0 : Rec.firstZeroRow A.toB = 0
  · -- no non-zero row: `return 0`
    rw [if_pos (by rw [h0]; rfl), if_pos h0]
    unfold pleM
    rw [pleRec_succ_zero _ _ _ _ _ _ h0]
    dsm
    rw [Mzd.nrows_toB, Mzd.ncols_toB]
    refine ⟨rfl, rfl, fun i i0 i1 => ?_, fun i i0 i1 => ?_⟩
    · rw [fP0 i (by omega) i1, arrOf_range _ i i0 i1]
    · rw [fQ0 i i0 i1, arrOf_range _ i i0 i1]
  rw [if_neg (by
    rw [decide_eq_true (show ((Rec.firstZeroRow A.toB : Nat) : Int) ≠ 0 by omega)]; decide), if_neg h0]
  have hreg : ((((A.ncols + 63) / 64 : Nat) : Int) * (A.nrows : Int) ≤ 524288)
      ↔ ((A.ncols + 63) / 64) * A.nrows ≤ 524288 := by
    rw [← Int.natCast_mul]
    generalize ((A.ncols + 63) / 64) * A.nrows = z
    omega
  by_cases hb : A.ncols ≤ 64 ∨ ((A.ncols + 63) / 64) * A.nrows ≤ 524288
  · -- the base case through a copy
    rw [if_pos (by
      rw [hww, Bool.or_eq_true, decide_eq_true_eq, decide_eq_true_eq, hreg]
      rcases hb with hb | hb
      · left; omega
      · right; exact hb)]
    rw [baseF_eq base A hA m hm]
    unfold pleM
    rw [pleRec_succ_base _ _ _ _ _ _ h0 (by simpa using hb)]
    exact ⟨rfl, rfl, fun _ _ _ => rfl, fun _ _ _ => rfl⟩
  -- the recursive branch
  rw [if_neg (by
    rw [hww, Bool.or_eq_true, decide_eq_true_eq, decide_eq_true_eq, hreg]
    intro hb'
    apply hb
    rcases hb' with hb' | hb'
    · left; omega
    · right; exact hb')]
  have hrec : ∀ W : BMat, W.WF → Rec.GoodOut W (pleM base baseRows fuel W) :=
    fun W hW => Rec.pleRec_spec hbase 64 524288 baseRows fuel hW
  rw [hww, recF_eq (pleM base baseRows fuel) hrec cutoff rs f llRuss (cTrsmLL llRuss addmulM rs rs mt) addmulM
    liftCompress A.nrows A.ncols (Rec.firstZeroRow A.toB) hnr (by omega) m P0 Q0 A.hb H]
  rw [pleRecStep_congr (pleM base baseRows fuel) hrec cutoff rs _ llRuss _ llRuss
    (fun L B _ => liftM2 (Rec.trsmLowerLeftRec 2048 mt) L B) A.nrows A.ncols _ hnr
    (by rw [← hww]; exact hm) _ _ _
    (guardF_agree (pleM base baseRows fuel) f cutoff H) (trsmLL_HT cutoff rs mt)]
  have hp := pleRecStep_perm (pleM base baseRows fuel) hrec cutoff rs llRuss
    (fun L B _ => liftM2 (Rec.trsmLowerLeftRec 2048 mt) L B) addmulM A.nrows A.ncols (Rec.firstZeroRow A.toB) hnr
    (memOf A) P0 (arrOf (Array.range A.nrows)) Q0 (arrOf (Array.range A.ncols)) A.hb
    (fun i i0 i1 => by rw [fP0 i i0 i1, arrOf_range _ i (by omega) i1])
  have h := pleRecStep_pleRec_full base hbase 64 524288 baseRows fuel mt cutoff rs A hA h0 hb
  rw [hww] at h
  rw [h] at hp
  obtain ⟨p1, p2, p3, p4⟩ := hp
  generalize Gen.C.pleRecStep _ _ _ _ _ _ _ _ _ _ _ _ _ _ _ _ = o at p1 p2 p3 p4 ⊢
  obtain ⟨o1, o2, o3, o4⟩ := o
  unfold reord
  dsm at p1 p2 p3 p4 ⊢
  refine ⟨p1, p2, fun i i0 i1 => ?_, fun i i0 i1 => ?_⟩
  · rw [p3 i i0 i1, arrMem_nonneg _ _ i i0]
  · rw [p4 i i0 i1, arrMem_nonneg _ _ i i0]

/-- **one step of the whole generated `_mzd_ple` against the model** (whole matrix, the recursive calls
    instantiated by the lifted model recursion at fuel `fuel`): rank, memory (equality), `P` on `[0, A.nrows)`,
    `Q` on `[0, A.ncols)` of `pleRec base 64 524288 baseRows (fuel + 1)`, for arbitrary incoming `P`, `Q` -/
theorem pleFull_pleRec (base : BMat → Rec.Out) (hbase : Rec.GoodBase base) (baseRows fuel mt : Nat) (cutoff rs : Int)
    (A : Mzd) (hA : A.WF) (hc : 1 ≤ A.ncols) (P Q : Int → Int) :
    (Gen.C.pleFull cutoff P Q (memOf A) A.ncols A.width A.nrows A.hb liftCopyNew (liftPle base) GenTieEch.liftCopy rs
        (liftPle (Rec.pleRec base 64 524288 baseRows fuel)) llRuss (cTrsmLL llRuss addmulM rs rs mt) addmulM
        liftCompress).1
      = (((Rec.pleRec base 64 524288 baseRows (fuel + 1) A.toB).2.2.2 : Nat) : Int) ∧
    (Gen.C.pleFull cutoff P Q (memOf A) A.ncols A.width A.nrows A.hb liftCopyNew (liftPle base) GenTieEch.liftCopy rs
        (liftPle (Rec.pleRec base 64 524288 baseRows fuel)) llRuss (cTrsmLL llRuss addmulM rs rs mt) addmulM
        liftCompress).2.2.2
      = memOf (A.putB (Rec.pleRec base 64 524288 baseRows (fuel + 1) A.toB).1) ∧
    (∀ i : Int, 0 ≤ i → i < A.nrows →
      (Gen.C.pleFull cutoff P Q (memOf A) A.ncols A.width A.nrows A.hb liftCopyNew (liftPle base) GenTieEch.liftCopy rs
        (liftPle (Rec.pleRec base 64 524288 baseRows fuel)) llRuss (cTrsmLL llRuss addmulM rs rs mt) addmulM
        liftCompress).2.1 i
      = arrOf (Rec.pleRec base 64 524288 baseRows (fuel + 1) A.toB).2.1 i) ∧
    (∀ i : Int, 0 ≤ i → i < A.ncols →
      (Gen.C.pleFull cutoff P Q (memOf A) A.ncols A.width A.nrows A.hb liftCopyNew (liftPle base) GenTieEch.liftCopy rs
        (liftPle (Rec.pleRec base 64 524288 baseRows fuel)) llRuss (cTrsmLL llRuss addmulM rs rs mt) addmulM
        liftCompress).2.2.1 i
      = arrOf (Rec.pleRec base 64 524288 baseRows (fuel + 1) A.toB).2.2.1 i) := by
  obtain ⟨h1, h2, h3, h4⟩ := pleFull_step base hbase baseRows fuel mt cutoff rs
    (liftPle (Rec.pleRec base 64 524288 baseRows fuel)) (fun _ _ _ _ _ _ => PleAgree.refl _ _ _) A hA hc (memOf A)
    (AgreeOn.refl _ _ _) P Q
  refine ⟨h1, ?_, h3, h4⟩
  rw [h2]
  by_cases h0 : Rec.firstZeroRow A.toB = 0
  · rw [if_pos h0, pleRec_succ_zero _ _ _ _ _ _ h0]
    dsm
    rw [Mzd.putB_toB hA]
  · rw [if_neg h0]

/-! ### 7. closing the recursion -/

theorem liftPle_rawM (rec : BMat → Rec.Out) (mem : Mem) (r c : Nat) (P Q : Int → Int) (cu : Int) :
    liftPle rec ⟨mem, (r : Int), (c : Int), (((c + 63) / 64 : Nat) : Int), leftMask (c % 64)⟩ P Q cu
      = ((((rec (rawM mem r c).toB).2.2.2 : Nat) : Int), memOf ((rawM mem r c).putB (rec (rawM mem r c).toB).1),
          arrOf (rec (rawM mem r c).toB).2.1, arrOf (rec (rawM mem r c).toB).2.2.1) := rfl

/-- **the C recursion `_mzd_ple` unrolled `n` levels: THE GENERATED TEXT OF THE WHOLE FUNCTION bound to itself.**
    Depth 0: the lifted model at fuel 0 (`base`).  Depth `n + 1`: `Gen.C.pleFull` on the fields of the record, with
    `_mzd_ple :=` the depth-`n` function, `mzd_copy(NULL, ·) := liftCopyNew`, `_mzd_ple_russian := liftPle base`,
    `mzd_copy := liftCopy`, the callees of the translated `_mzd_trsm_lower_left` := the Four-Russians substitution
    form and the CLOSED recursion `cTrsmLL … mt`, `mzd_addmul := C + A·B`, `_mzd_compress_l := compressL`; `unord`
    only reorders the results `(rank, P, Q, A)` of the generated function into the order `(rank, A, P, Q)` in which
    the generated text receives them from a callee. -/
def cPleFull (base : BMat → Rec.Out) (baseRows : Nat) (rs : Int) (mt : Nat) : Nat → PleFn
  | 0 => liftPle (pleM base baseRows 0)
  | n + 1 => fun V P Q c =>
      unord (Gen.C.pleFull c P Q V.mem V.ncols V.width V.nrows V.hb liftCopyNew (liftPle base) GenTieEch.liftCopy rs
        (cPleFull base baseRows rs mt n) llRuss (cTrsmLL llRuss addmulM rs rs mt) addmulM liftCompress)

/-- **the induction**: at every depth, on the canonical record (at least one column) of an ARBITRARY memory, with
    arbitrary incoming permutation memories, the unrolled C recursion cannot be told apart from the lifted model
    recursion at fuel `n` -/
theorem cPleFull_raw (base : BMat → Rec.Out) (hbase : Rec.GoodBase base) (baseRows : Nat) (rs : Int) (mt : Nat)
    (n : Nat) : ∀ (cutoff : Int) (r c : Nat) (mem : Mem) (P Q : Int → Int), 1 ≤ c →
    PleAgree r c
      (cPleFull base baseRows rs mt n
        ⟨mem, (r : Int), (c : Int), (((c + 63) / 64 : Nat) : Int), leftMask (c % 64)⟩ P Q cutoff)
      (liftPle (pleM base baseRows n)
        ⟨mem, (r : Int), (c : Int), (((c + 63) / 64 : Nat) : Int), leftMask (c % 64)⟩ P Q cutoff) := by
  induction n with
  | zero => intro cutoff r c mem P Q _; exact PleAgree.refl _ _ _
  | succ n ih =>
    intro cutoff r c mem P Q hc
    have h := pleFull_step base hbase baseRows n mt cutoff rs (cPleFull base baseRows rs mt n) (ih cutoff)
      (rawM mem r c) (rawM_WF mem r c) (by simpa using hc) mem (by simpa using agree_rawM mem r c) P Q
    simp only [nrows_rawM, ncols_rawM, width_rawM, hb_rawM] at h
    obtain ⟨h1, h2, h3, h4⟩ := h
    rw [liftPle_rawM]
    unfold cPleFull unord
    refine ⟨h1, ?_, h3, h4⟩
    show AgreeOn r ((c + 63) / 64) (Gen.C.pleFull _ _ _ _ _ _ _ _ _ _ _ _ _ _ _ _ _).2.2.2 _
    rw [h2]
    by_cases h0 : Rec.firstZeroRow (rawM mem r c).toB = 0
    · rw [if_pos h0]
      unfold pleM
      rw [pleRec_succ_zero _ _ _ _ _ _ h0]
      dsm
      rw [Mzd.putB_toB (rawM_WF mem r c)]
      exact agree_rawM mem r c
    · rw [if_neg h0]
      exact AgreeOn.refl _ _ _

/-- **every depth, on views**: for a well-formed `A` with at least one column and a memory that coincides with its
    memory on the rows and words of `A`, the unrolled C recursion returns the model's rank, leaves the model's
    matrix on the rows and words of `A`, and the model's `P`, `Q` on `[0, nrows)`, `[0, ncols)` -/
theorem cPleFull_view (base : BMat → Rec.Out) (hbase : Rec.GoodBase base) (baseRows : Nat) (rs : Int)
    (mt n : Nat) (cutoff : Int) (A : Mzd) (hA : A.WF) (hc : 1 ≤ A.ncols) (mA : Mem)
    (hmA : AgreeOn A.nrows A.width mA (memOf A)) (P Q : Int → Int) :
    PleAgree A.nrows A.ncols
      (cPleFull base baseRows rs mt n ⟨mA, A.nrows, A.ncols, A.width, A.hb⟩ P Q cutoff)
      ((((Rec.pleRec base 64 524288 baseRows n A.toB).2.2.2 : Nat) : Int),
        memOf (A.putB (Rec.pleRec base 64 524288 baseRows n A.toB).1),
        arrOf (Rec.pleRec base 64 524288 baseRows n A.toB).2.1,
        arrOf (Rec.pleRec base 64 524288 baseRows n A.toB).2.2.1) := by
  have hw : A.width = (A.ncols + 63) / 64 := rfl
  have hh : A.hb = leftMask (A.ncols % 64) := rfl
  have e : liftPle (pleM base baseRows n)
      ⟨mA, A.nrows, A.ncols, (((A.ncols + 63) / 64 : Nat) : Int), leftMask (A.ncols % 64)⟩ P Q cutoff
      = ((((Rec.pleRec base 64 524288 baseRows n A.toB).2.2.2 : Nat) : Int),
        memOf (A.putB (Rec.pleRec base 64 524288 baseRows n A.toB).1),
        arrOf (Rec.pleRec base 64 524288 baseRows n A.toB).2.1,
        arrOf (Rec.pleRec base 64 524288 baseRows n A.toB).2.2.1) := by
    rw [liftPle_congr_nat _ A.nrows ((A.ncols + 63) / 64) _ _ A.hb (by rw [← hw]; exact hmA) P Q P Q cutoff cutoff]
    have eA := ofView_of A hA
    unfold CLoop.MView.of at eA
    unfold liftPle
    rw [← hw, eA]
  rw [hw, hh, ← e]
  exact cPleFull_raw base hbase baseRows rs mt n cutoff A.nrows A.ncols mA P Q hc

/-- **`_mzd_ple`, THE WHOLE GENERATED FUNCTION bound to itself `n` levels deep (any depth `mt` of the closed
    `_mzd_trsm_lower_left`), on a whole matrix with at least one column, arbitrary incoming `P`, `Q` = the model
    recursion `pleRec base 64 524288 baseRows` at fuel `n`**: the returned rank, the memory (EQUALITY), `P` on
    `[0, A.nrows)`, `Q` on `[0, A.ncols)` -/
theorem cPleFull_correct (base : BMat → Rec.Out) (hbase : Rec.GoodBase base) (baseRows : Nat) (rs : Int)
    (mt n : Nat) (cutoff : Int) (A : Mzd) (hA : A.WF) (hc : 1 ≤ A.ncols) (P Q : Int → Int) :
    (cPleFull base baseRows rs mt n (CLoop.MView.of A) P Q cutoff).1
        = (((Rec.pleRec base 64 524288 baseRows n A.toB).2.2.2 : Nat) : Int) ∧
    (cPleFull base baseRows rs mt n (CLoop.MView.of A) P Q cutoff).2.1
        = memOf (A.putB (Rec.pleRec base 64 524288 baseRows n A.toB).1) ∧
    (∀ i : Int, 0 ≤ i → i < A.nrows → (cPleFull base baseRows rs mt n (CLoop.MView.of A) P Q cutoff).2.2.1 i
        = arrOf (Rec.pleRec base 64 524288 baseRows n A.toB).2.1 i) ∧
    (∀ i : Int, 0 ≤ i → i < A.ncols → (cPleFull base baseRows rs mt n (CLoop.MView.of A) P Q cutoff).2.2.2 i
        = arrOf (Rec.pleRec base 64 524288 baseRows n A.toB).2.2.1 i) := by
  have eA := ofView_of A hA
  unfold CLoop.MView.of at eA ⊢
  cases n with
  | zero =>
    unfold cPleFull liftPle
    rw [eA]
    exact ⟨rfl, rfl, fun _ _ _ => rfl, fun _ _ _ => rfl⟩
  | succ n =>
    obtain ⟨h1, h2, h3, h4⟩ := pleFull_step base hbase baseRows n mt cutoff rs (cPleFull base baseRows rs mt n)
      (cPleFull_raw base hbase baseRows rs mt n cutoff) A hA hc (memOf A) (AgreeOn.refl _ _ _) P Q
    unfold cPleFull unord
    refine ⟨h1, ?_, h3, h4⟩
    show (Gen.C.pleFull _ _ _ _ _ _ _ _ _ _ _ _ _ _ _ _ _).2.2.2 = _
    rw [h2]
    by_cases h0 : Rec.firstZeroRow A.toB = 0
    · rw [if_pos h0, pleRec_succ_zero _ _ _ _ _ _ h0]
      dsm
      rw [Mzd.putB_toB hA]
    · rw [if_neg h0]

/-- … hence what the unrolled generated function leaves is a good PLE certificate of `A` (`Rec.GoodOut`: `IsPLE`,
    hence the rank and the rank profile, and the shape clauses), for every depth -/
theorem cPleFull_spec (base : BMat → Rec.Out) (hbase : Rec.GoodBase base) (baseRows : Nat) (rs : Int)
    (mt n : Nat) (cutoff : Int) (A : Mzd) (hA : A.WF) (hc : 1 ≤ A.ncols) (P Q : Int → Int) :
    ∃ o : Rec.Out, Rec.GoodOut A.toB o ∧
      (cPleFull base baseRows rs mt n (CLoop.MView.of A) P Q cutoff).1 = ((o.2.2.2 : Nat) : Int) ∧
      (cPleFull base baseRows rs mt n (CLoop.MView.of A) P Q cutoff).2.1 = memOf (A.putB o.1) ∧
      (∀ i : Int, 0 ≤ i → i < A.nrows → (cPleFull base baseRows rs mt n (CLoop.MView.of A) P Q cutoff).2.2.1 i
        = arrOf o.2.1 i) ∧
      (∀ i : Int, 0 ≤ i → i < A.ncols → (cPleFull base baseRows rs mt n (CLoop.MView.of A) P Q cutoff).2.2.2 i
        = arrOf o.2.2.1 i) :=
  ⟨_, Rec.pleRec_spec hbase 64 524288 baseRows n (Mzd.WF_toB hA),
    cPleFull_correct base hbase baseRows rs mt n cutoff A hA hc P Q⟩

end M4ri.GenTieClose4

#print axioms M4ri.GenTieClose4.firstZeroRow_bridge
#print axioms M4ri.GenTieClose4.mzdFirstZeroRow_rec
#print axioms M4ri.GenTieClose4.mzdFirstZeroRow_agree
#print axioms M4ri.GenTieClose4.pleFull_split
#print axioms M4ri.GenTieClose4.recF_eq
#print axioms M4ri.GenTieClose4.pleRecStep_perm
#print axioms M4ri.GenTieClose4.baseF_eq
#print axioms M4ri.GenTieClose4.pleFull_step
#print axioms M4ri.GenTieClose4.pleFull_pleRec
#print axioms M4ri.GenTieClose4.cPleFull_raw
#print axioms M4ri.GenTieClose4.cPleFull_view
#print axioms M4ri.GenTieClose4.cPleFull_correct
#print axioms M4ri.GenTieClose4.cPleFull_spec
