/-
  C08, transposition: the word-level kernels of mzd.c (model: `M4ri/Transpose.lean`) transpose.

  Kernel theorems (imported):
    `dswap_spec`                     (Tr/Swap.lean)   the delta swap, bit level
    `transpose64x64_spec`            (Tr/Swap.lean)   `_mzd_copy_transpose_64x64` (and `_64x64_2`)
    `transposeNxjx64_spec`           (Tr/Nxj.lean)    `_mzd_transpose_Nxjx64`, generic in `n`
    `le8xle8_spec`                   (Tr/Le8.lean)    `_mzd_copy_transpose_le8xle8`, all `1 ≤ n, m ≤ 8`
    `le16xle16_spec`, `le32xle32_spec`, `le64xle64_spec`, `copyTransposeSmall_spec`   (Tr/Small.lean)
    `copyTransposeLt64x64_spec`, `copyTranspose64xLt64_spec`                           (Tr/Lt.lean)
    `transposeBase_tiles`            (Tr/Base.lean)   `_mzd_transpose_base`, every size
  This file: `_mzd_transpose_notsmall`, `_mzd_transpose`, and `mzd_transpose(NULL, A)` as a matrix operation.
-/
import M4riProofs.Tr.Base
import M4riProofs.RowSwap
import M4riProofs.Bridge
namespace M4ri.Tr

/-! ### `_mzd_transpose_notsmall`, `_mzd_transpose` -/

theorem splitRound_facts (n : Nat) (h : n > 512) :
    Gen.splitRound n (if n ≤ 768 then 64 else 512) % 64 = 0 ∧
    0 < Gen.splitRound n (if n ≤ 768 then 64 else 512) ∧
    Gen.splitRound n (if n ≤ 768 then 64 else 512) < n := by
  unfold Gen.splitRound
  split <;> omega

/-- **`_mzd_transpose_notsmall`**: the recursive splitting tiles the same rectangle as the base case -/
theorem transposeNotsmall_tiles (S : Src) :
    ∀ fuel dc sc nrows ncols maxsize, maxsize = max nrows ncols →
      (nrows % 64 ≠ 0 → ∀ r c, 64 * dc + nrows ≤ r → S r c = 0) →
      (ncols % 64 ≠ 0 → ∀ r p, ncols % 64 ≤ p → (S r (sc + ncols / 64)).getLsbD p = false) →
      Tiles S (transposeNotsmall S fuel (64 * sc) dc (64 * dc) sc nrows ncols maxsize)
        (64 * sc) (64 * sc + ncols) dc (dc + widthOf nrows) := by
  intro fuel
  induction fuel with
  | zero =>
    intro dc sc nrows ncols maxsize _ hz hcl
    simp only [transposeNotsmall]
    exact transposeBase_tiles S dc sc nrows ncols hz hcl
  | succ fuel ih =>
    intro dc sc nrows ncols maxsize hmax hz hcl
    simp only [transposeNotsmall]
    by_cases h512 : maxsize ≤ 512
    · rw [if_pos h512]
      exact transposeBase_tiles S dc sc nrows ncols hz hcl
    · rw [if_neg h512]
      obtain ⟨hL64, hL0, hLlt⟩ := splitRound_facts maxsize (by omega)
      generalize Gen.splitRound maxsize (if maxsize ≤ 768 then 64 else 512) = L at hL64 hL0 hLlt
      by_cases hge : nrows ≥ ncols
      · rw [if_pos hge]
        have hmr : maxsize = nrows := by omega
        have hup := ih dc sc L ncols (max L ncols) rfl (fun h => absurd hL64 h) hcl
        have hdown := ih (dc + L / 64) sc (nrows - L) ncols (max (nrows - L) ncols) rfl
          (fun h r c hr => hz (by omega) r c (by omega)) hcl
        rw [show 64 * (dc + L / 64) = 64 * dc + L by omega] at hdown
        have e1 : dc + widthOf L = dc + L / 64 := by unfold widthOf; omega
        have e2 : dc + L / 64 + widthOf (nrows - L) = dc + widthOf nrows := by unfold widthOf; omega
        rw [e1] at hup
        rw [e2] at hdown
        exact hup.append_cols hdown (by omega) (by unfold widthOf; omega)
      · rw [if_neg hge]
        have hmr : maxsize = ncols := by omega
        have hleft := ih dc sc nrows L (max nrows L) rfl hz (fun h => absurd hL64 h)
        have hright := ih dc (sc + L / 64) nrows (ncols - L) (max nrows (ncols - L)) rfl hz
          (fun h r p hp => by
            have := hcl (by omega) r p (by omega)
            rw [show sc + L / 64 + (ncols - L) / 64 = sc + ncols / 64 by omega]
            exact this)
        rw [show 64 * (sc + L / 64) = 64 * sc + L by omega,
          show 64 * sc + L + (ncols - L) = 64 * sc + ncols by omega] at hright
        exact hleft.append_rows hright (by omega) (by omega)

/-- **`_mzd_transpose`** (both pointers at the matrix origins): the stores tile the whole destination -/
theorem transposeTop_tiles (S : Src) (nrows ncols : Nat) (hr : 1 ≤ nrows) (hc : 1 ≤ ncols)
    (hz : ∀ r c, nrows ≤ r → S r c = 0)
    (hcl : ncols % 64 ≠ 0 → ∀ r p, ncols % 64 ≤ p → (S r (ncols / 64)).getLsbD p = false) :
    Tiles S (transposeTop S nrows ncols (max nrows ncols)) 0 ncols 0 (widthOf nrows) := by
  unfold transposeTop
  by_cases hs : max nrows ncols < 64
  · rw [if_pos hs]
    have hn : ncols % 64 = ncols ∧ ncols / 64 = 0 := by omega
    have := small_tiles S 0 0 nrows ncols hr (by omega) (by omega) (fun r c h => hz r c (by omega))
      (fun r p h => by
        have := hcl (by omega) r p (by omega)
        rw [hn.2] at this
        exact this)
    have hw : widthOf nrows = 1 := by unfold widthOf; omega
    simpa [hw] using this
  · rw [if_neg hs]
    have := transposeNotsmall_tiles S (nrows + ncols) 0 0 nrows ncols (max nrows ncols) rfl
      (fun _ r c h => hz r c (by omega))
      (fun h r p hp => by simpa using hcl h r p hp)
    simpa using this

/-! ### applying the stores -/

/-- word `c` of row `r` of the destination -/
def getW (rows : Array Row) (r c : Nat) : Word := Row.w (rows.getD r #[]) c

theorem size_store (rows : Array Row) (w : Wr) : (store rows w).size = rows.size := by
  simp [store]

theorem getD_store (rows : Array Row) (w : Wr) (r : Nat) :
    (store rows w).getD r #[] =
      if w.1 = r then (rows.getD r #[]).setIfInBounds w.2.1 w.2.2 else rows.getD r #[] := by
  unfold store
  simp only [Array.getD_eq_getD_getElem?, Array.getElem?_modify]
  by_cases h : w.1 = r
  · subst h
    by_cases h2 : w.1 < rows.size
    · simp [h2]
    · simp [h2]
  · simp [h]

theorem rowsize_store (rows : Array Row) (w : Wr) (r : Nat) :
    ((store rows w).getD r #[]).size = (rows.getD r #[]).size := by
  rw [getD_store]; split <;> simp

theorem getW_store (rows : Array Row) (w : Wr) (r c : Nat) :
    getW (store rows w) r c =
      if w.1 = r ∧ w.2.1 = c ∧ c < (rows.getD r #[]).size then w.2.2 else getW rows r c := by
  unfold getW
  rw [getD_store]
  by_cases h : w.1 = r
  · rw [if_pos h]
    generalize rows.getD r #[] = row
    unfold Row.w
    simp only [Array.getD_eq_getD_getElem?, Array.getElem?_setIfInBounds]
    by_cases h2 : w.2.1 = c
    · by_cases h3 : c < row.size
      · simp [h, h2, h3]
      · have : row[c]? = none := Array.getElem?_eq_none (by omega)
        simp [h, h2, h3]
    · simp [h, h2]
  · simp [h]

theorem size_applyWrites (ws : List Wr) : ∀ rows : Array Row, (applyWrites rows ws).size = rows.size := by
  induction ws with
  | nil => intro rows; rfl
  | cons w ws ih => intro rows; simp only [applyWrites, List.foldl_cons] at ih ⊢; rw [ih, size_store]

theorem rowsize_applyWrites (ws : List Wr) (r : Nat) :
    ∀ rows : Array Row, ((applyWrites rows ws).getD r #[]).size = (rows.getD r #[]).size := by
  induction ws with
  | nil => intro rows; rfl
  | cons w ws ih => intro rows; simp only [applyWrites, List.foldl_cons] at ih ⊢; rw [ih, rowsize_store]

/-- a word no store addresses keeps its value -/
theorem getW_applyWrites_of_not_mem (ws : List Wr) (r c : Nat) (h : ∀ v, (r, c, v) ∉ ws) :
    ∀ rows : Array Row, getW (applyWrites rows ws) r c = getW rows r c := by
  induction ws with
  | nil => intro rows; rfl
  | cons w ws ih =>
    intro rows
    simp only [applyWrites, List.foldl_cons] at ih ⊢
    rw [ih (fun v hv => h v (List.mem_cons_of_mem _ hv)), getW_store]
    split
    · rename_i hh
      exfalso
      apply h w.2.2
      obtain ⟨w1, w2, w3⟩ := w
      simp only at hh
      obtain ⟨rfl, rfl, _⟩ := hh
      exact List.mem_cons_self
    · rfl

/-- a word some store addresses ends up with the value of one of the stores to it (the last one) -/
theorem getW_applyWrites_mem (ws : List Wr) (r c : Nat) :
    ∀ rows : Array Row, (∃ v, (r, c, v) ∈ ws) → c < (rows.getD r #[]).size →
      (r, c, getW (applyWrites rows ws) r c) ∈ ws := by
  induction ws with
  | nil => intro rows h; simp at h
  | cons w ws ih =>
    intro rows hex hc
    simp only [applyWrites, List.foldl_cons] at ih ⊢
    by_cases hlater : ∃ v, (r, c, v) ∈ ws
    · exact List.mem_cons_of_mem _ (ih (store rows w) hlater (by rw [rowsize_store]; exact hc))
    · have hno : ∀ v, (r, c, v) ∉ ws := fun v hv => hlater ⟨v, hv⟩
      have := getW_applyWrites_of_not_mem ws r c hno (store rows w)
      simp only [applyWrites] at this
      rw [this, getW_store]
      obtain ⟨v, hv⟩ := hex
      rcases List.mem_cons.mp hv with hv | hv
      · subst hv
        rw [if_pos ⟨rfl, rfl, hc⟩]
        exact List.mem_cons_self
      · exact absurd hv (hno v)

/-- stores that tile the destination leave exactly the transposed words behind -/
theorem applyWrites_tiles {S : Src} {ws : List Wr} {r1 c1 : Nat} (ht : Tiles S ws 0 r1 0 c1)
    (rows : Array Row) (r c : Nat) (hr : r < r1) (hc : c < c1) (hsz : c < (rows.getD r #[]).size) :
    ∀ p, p < 64 → (getW (applyWrites rows ws) r c).getLsbD p = (S (64 * c + p) (r / 64)).getLsbD (r % 64) := by
  have hmem := getW_applyWrites_mem ws r c rows (ht.covers r c (by omega) hr (by omega) hc) hsz
  exact (ht.sound _ hmem).2.2.2.2

/-! ### (4) `mzd_transpose(NULL, A)` -/

theorem transposeMzd_nrows (A : Mzd) : (transposeMzd A).nrows = A.ncols := by
  unfold transposeMzd; simp only []; split <;> rfl

theorem transposeMzd_ncols (A : Mzd) : (transposeMzd A).ncols = A.nrows := by
  unfold transposeMzd; simp only []; split <;> rfl

theorem zero_WF (r c : Nat) : (Mzd.zero r c).WF := by
  refine ⟨by simp [Mzd.zero], ?_⟩
  intro i hi
  have hi' : i < r := hi
  simp [Mzd.zero, Mzd.row, Mzd.width, Array.getD, hi']

theorem transposeMzd_WF (A : Mzd) : (transposeMzd A).WF := by
  unfold transposeMzd
  simp only []
  split
  · exact zero_WF _ _
  · have h0 := zero_WF A.ncols A.nrows
    refine ⟨?_, ?_⟩
    · simp only [Mzd.rows_withRows, Mzd.nrows_withRows, size_applyWrites]; exact h0.1
    · intro i hi
      simp only [Mzd.nrows_withRows] at hi
      simp only [Mzd.row, Mzd.rows_withRows, Mzd.width_withRows, rowsize_applyWrites]
      exact h0.2 i hi

/-- **`mzd_transpose(NULL, A)`** for an owned source (`padZero`), every shape: entry `(i, j)` of the result is
    entry `(j, i)` of `A`, and all excess bits of the destination words are zero — one `bit` equation over all
    stored positions `j < 64·width`. -/
theorem transposeMzd_bit (A : Mzd) (h : A.WF) (hp : A.padZero) (i j : Nat) (hi : i < A.ncols)
    (hj : j < 64 * widthOf A.nrows) :
    (transposeMzd A).bit i j = if j < A.nrows then A.bit j i else false := by
  have hrow0 : ∀ r, A.nrows ≤ r → A.row r = #[] := fun r hr => Mzd.row_of_ge A r (by rw [h.1]; exact hr)
  have hbit0 : ∀ r c, A.nrows ≤ r → A.bit r c = false := by
    intro r c hr
    rw [Mzd.bit_def, hrow0 r hr]; simp [Row.w]
  unfold transposeMzd
  simp only []
  by_cases hempty : A.nrows = 0 ∨ A.ncols = 0
  · have : widthOf A.nrows ≠ 0 := by omega
    have : A.nrows ≠ 0 := by unfold widthOf at this; omega
    omega
  · rw [if_neg hempty]
    let S : Src := fun r c => (A.row r).w c
    have hz : ∀ r c, A.nrows ≤ r → S r c = 0 := by
      intro r c hr
      simp only [S, hrow0 r hr]; rfl
    have hcl : A.ncols % 64 ≠ 0 → ∀ r p, A.ncols % 64 ≤ p → (S r (A.ncols / 64)).getLsbD p = false := by
      intro hne r p hpp
      by_cases hr : r < A.nrows
      · by_cases h64 : p < 64
        · have := hp r (64 * (A.ncols / 64) + p) hr (by omega) (by unfold Mzd.width widthOf; omega)
          rw [Mzd.bit_def] at this
          rw [show (64 * (A.ncols / 64) + p) / 64 = A.ncols / 64 by omega,
            show (64 * (A.ncols / 64) + p) % 64 = p by omega] at this
          exact this
        · exact BitVec.getLsbD_of_ge _ _ (by omega)
      · rw [hz r _ (by omega)]; simp
    have ht := transposeTop_tiles S A.nrows A.ncols (by omega) (by omega) hz hcl
    have h0 := zero_WF A.ncols A.nrows
    have hsz : j / 64 < ((Mzd.zero A.ncols A.nrows).rows.getD i #[]).size := by
      have := h0.2 i hi
      simp only [Mzd.row, Mzd.width] at this
      rw [this]; simp only [Mzd.zero]; omega
    have := applyWrites_tiles ht (Mzd.zero A.ncols A.nrows).rows i (j / 64) hi (by omega) hsz (j % 64)
      (Nat.mod_lt _ (by omega))
    show (getW (applyWrites (Mzd.zero A.ncols A.nrows).rows
      (transposeTop S A.nrows A.ncols (max A.nrows A.ncols))) i (j / 64)).getLsbD (j % 64) = _
    rw [this, show 64 * (j / 64) + j % 64 = j by omega]
    show A.bit j i = _
    by_cases hjn : j < A.nrows
    · rw [if_pos hjn]
    · rw [if_neg hjn, hbit0 j i (by omega)]

/-- the destination of `mzd_transpose(NULL, A)` has zero excess bits -/
theorem transposeMzd_padZero (A : Mzd) (h : A.WF) (hp : A.padZero) : (transposeMzd A).padZero := by
  intro i j hi hj hjw
  rw [transposeMzd_nrows] at hi
  rw [transposeMzd_ncols] at hj
  have : (transposeMzd A).width = widthOf A.nrows := by
    unfold Mzd.width; rw [transposeMzd_ncols]
  rw [this] at hjw
  rw [transposeMzd_bit A h hp i j hi hjw, if_neg (by omega)]

/-- entry form: `(Aᵀ)[i, j] = A[j, i]` -/
theorem transposeMzd_spec (A : Mzd) (h : A.WF) (hp : A.padZero) (i j : Nat) (hi : i < A.ncols)
    (hj : j < A.nrows) : (transposeMzd A).bit i j = A.bit j i := by
  rw [transposeMzd_bit A h hp i j hi (by unfold widthOf; omega), if_pos hj]

/-- the word-level kernels compute exactly the specification-level model of `mzd_transpose(NULL, A)` that the
    correspondence run uses (`Mzd.ofB A.toB.transpose`, `M4ri/Ops.lean`) -/
theorem transposeMzd_eq_ofB (A : Mzd) (h : A.WF) (hp : A.padZero) :
    transposeMzd A = Mzd.ofB A.toB.transpose := by
  apply Mzd.ext_bit (transposeMzd_WF A) (Mzd.WF_ofB _) (by rw [transposeMzd_nrows]; rfl)
    (by rw [transposeMzd_ncols]; rfl)
  intro i j hi hj
  rw [transposeMzd_nrows] at hi
  have hw : (transposeMzd A).width = widthOf A.nrows := by unfold Mzd.width; rw [transposeMzd_ncols]
  rw [hw] at hj
  rw [transposeMzd_bit A h hp i j hi hj, Mzd.bit_ofB' _ i j hi hj, BMat.get_transpose', Mzd.get_toB']
  show _ = (decide (j < A.nrows) && (decide (i < A.ncols ∧ j < A.nrows) && (decide (i < A.ncols) && A.bit j i)))
  by_cases hjn : j < A.nrows <;> simp [hjn, hi]

/-- non-vacuity: an owned 2 × 70 matrix satisfies the hypotheses -/
example : (⟨2, 70, #[#[0x1#64, 0x21#64], #[0x2#64, 0x02#64]]⟩ : Mzd).WF ∧
    (⟨2, 70, #[#[0x1#64, 0x21#64], #[0x2#64, 0x02#64]]⟩ : Mzd).padZero := by
  refine ⟨⟨rfl, ?_⟩, ?_⟩
  · intro i hi
    have : i = 0 ∨ i = 1 := by simp at hi; omega
    rcases this with rfl | rfl <;> rfl
  · intro i j hi hj hjw
    have hi' : i = 0 ∨ i = 1 := by simp at hi; omega
    have hj' : 70 ≤ j ∧ j < 128 := by
      simp [Mzd.width, widthOf] at hjw hj; omega
    have key : ∀ j, j < 128 → 70 ≤ j →
        (⟨2, 70, #[#[0x1#64, 0x21#64], #[0x2#64, 0x02#64]]⟩ : Mzd).bit 0 j = false ∧
        (⟨2, 70, #[#[0x1#64, 0x21#64], #[0x2#64, 0x02#64]]⟩ : Mzd).bit 1 j = false := by decide
    rcases hi' with rfl | rfl
    · exact (key j hj'.2 hj'.1).1
    · exact (key j hj'.2 hj'.1).2

end M4ri.Tr
