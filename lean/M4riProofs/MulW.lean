/-
  C09 / C10 / C01 — the WORD-LEVEL refinement of the Four-Russians machinery (`M4ri/MulW.lean`).

  The product theorems of C01 are proved on rows-as-`Nat` (`M4riProofs/MulR.lean`), where a matrix has no bits
  beyond its last column.  The C code works on 64-bit words of VIEWS; the last word of a windowed operand carries
  bits of the parent ("excess bits").  This file proves that the masking discipline of the C code makes those bits
  harmless — every theorem is for views with ARBITRARY excess bits and ends in the standard shape: entries as in
  the R-level function, excess bits of the destination unchanged (`… = C.putB (R-level result)`).

    1. `mzd_make_table`   : `makeTableW_masked` / `makeTableW_masked_all` (table rows are masked),
                            `makeTableW_padZero` (the zero padding of the table survives),
                            `makeTableW_sim` / `makeTableW_toB` (agreement with the R-level `makeTable`, arbitrary
                            prior contents, skipped rows included), `makeTableW_lookup` (the lookup lemma at bit
                            level, table storage possibly larger than `2^k`), `makeTableW_WF`, `makeTableW_row_keep`,
                            `makeTableW_low`;
    2. `mzd_process_rows` : `processRowsW_bit` (raw), `processRowsW_frame`, `processRowsW_spec` (make_table +
                            process_rows, one bit equation), `processRowsW_eq_R` (= `BMat.M4RI.processRows` via `putB`);
    3. `_mzd_mul_naive`   : `mulNaiveTW_bit`, `mulNaiveTW_spec`, and `mulNaiveTW_needs_padZero` (counterexample:
                            the zero padding of the transposed operand is necessary);
    4. `_mzd_mul_va`      : `mulVaW_bit`, `mulVaW_spec`;  `mzd_mul_naive`: `mulNaiveW_spec`;
       `_mzd_mul_m4rm`    : `m4rmPassW_bit`, `m4rmPassW_spec` (one table pass), `coreW_spec`, `m4rmW_spec`,
                            `m4rmW_bit` (the whole function; tables re-used across passes as in C).
-/
import M4ri.MulW
import M4ri.M4riElim
import M4riProofs.Bridge
import M4riProofs.Gray
import M4riProofs.MulR
import M4riProofs.W.RowCol
import M4riProofs.W.DataMove
import M4riProofs.Transpose
namespace M4ri
namespace Mzd
namespace W
open MulR (xorRange xorRange_succ xorRange_congr xorRange_false xorRange_bne xorRange_single)

/-! ### 0. helpers -/

/-- two folds over the same list stay related -/
theorem foldl_rel {α β γ : Type} (R : α → β → Prop) (P : γ → Prop) (f : α → γ → α) (g : β → γ → β)
    (h : ∀ a b x, P x → R a b → R (f a x) (g b x)) :
    ∀ (l : List γ), (∀ x, x ∈ l → P x) → ∀ a b, R a b → R (l.foldl f a) (l.foldl g b) := by
  intro l
  induction l with
  | nil => intro _ a b hab; exact hab
  | cons x t ih =>
    intro hl a b hab
    simp only [List.foldl_cons]
    exact ih (fun y hy => hl y (List.mem_cons_of_mem _ hy)) _ _ (h a b x (hl x List.mem_cons_self) hab)

/-- a fold keeps an invariant -/
theorem foldl_inv {α γ : Type} (R : α → Prop) (P : γ → Prop) (f : α → γ → α)
    (h : ∀ a x, P x → R a → R (f a x)) :
    ∀ (l : List γ), (∀ x, x ∈ l → P x) → ∀ a, R a → R (l.foldl f a) := by
  intro l
  induction l with
  | nil => intro _ a ha; exact ha
  | cons x t ih =>
    intro hl a ha
    simp only [List.foldl_cons]
    exact ih (fun y hy => hl y (List.mem_cons_of_mem _ hy)) _ (h a x (hl x List.mem_cons_self) ha)

theorem xorWordsFrom_size (m t : Row) (b w : Nat) : (xorWordsFrom m t b w).size = m.size := by
  simp [xorWordsFrom]

/-- whole-word XOR of the words `block .. width-1`, bit by bit -/
theorem xorWordsFrom_bit (m t : Row) (block width : Nat) (hm : width ≤ m.size) (j : Nat) :
    Row.bit (xorWordsFrom m t block width) j =
      if block ≤ j / 64 ∧ j / 64 < width then (Row.bit m j != Row.bit t j) else Row.bit m j := by
  rw [Row.bit_def, xorWordsFrom, Row.w_mapIdx']
  by_cases h : j / 64 < m.size
  · simp only [h, if_true]
    by_cases h1 : j / 64 < block ∨ j / 64 ≥ width
    · rw [if_pos h1, if_neg (by omega)]; rfl
    · rw [if_neg h1, if_pos (by omega), BitVec.getLsbD_xor]; simp [Row.bit_def]
  · rw [if_neg h, if_neg (by omega), Row.bit_def, Row.w_of_ge _ _ (by omega)]

/-- flipping bit `e` of the selector adds the `e`-th term -/
theorem xorRange_flip (k e x : Nat) (he : e < k) (f : Nat → Bool) :
    xorRange k (fun t => (x ^^^ 2 ^ e).testBit t && f t) = (xorRange k (fun t => x.testBit t && f t) != f e) := by
  have h1 : (fun t => (x ^^^ 2 ^ e).testBit t && f t) =
      fun t => ((x.testBit t && f t) != ((t == e) && f t)) := by
    funext t
    rw [Nat.testBit_xor, Nat.testBit_two_pow]
    by_cases h : e = t
    · subst h; cases x.testBit e <;> cases f e <;> simp
    · have h2 : (t == e) = false := by
        have : ¬ t = e := fun e' => h e'.symm
        simp [this]
      simp [h, h2]
  rw [h1, xorRange_bne, xorRange_single]
  simp [he]

/-! ### 1. `mzd_make_table` -/

theorem makeTableRowW_size (ti ti1 m : Row) (hb w : Nat) (mb me : Word) :
    (makeTableRowW ti ti1 m hb w mb me).size = ti.size := by
  simp [makeTableRowW]

/-- `mask_begin` of `mzd_make_table`, bit by bit: the columns `≥ c` of the home word that are columns of `M` -/
theorem tableMaskBegin_getLsbD (M : Mzd) (c p : Nat) (hp : p < 64) (hcw : c / 64 < M.width) :
    (tableMaskBegin M c).getLsbD p = (decide (c % 64 ≤ p) && decide (64 * (c / 64) + p < M.ncols)) := by
  have hc0 : 0 < M.ncols := by unfold width widthOf at hcw; omega
  unfold tableMaskBegin
  simp only []
  by_cases h1 : M.width - c / 64 ≠ 1
  · rw [if_pos h1, rightMask_getLsbD _ _ (by omega)]
    have : 64 * (c / 64) + p < M.ncols := by unfold width widthOf at hcw h1; omega
    simp only [this, decide_true, Bool.and_true]
    congr 1
    apply propext; omega
  · rw [if_neg h1, BitVec.getLsbD_and, rightMask_getLsbD _ _ (by omega), highMask_getLsbD _ _ hp hc0]
    have e : widthOf M.ncols - 1 = c / 64 := by unfold width at hcw h1; omega
    rw [e]
    congr 2
    apply propext; omega

/-- a written table row, bit by bit: words below the home block keep the prior content of `T[i]`; from the
    home block on, the bit is `m ⊕ T[i-1]` inside the columns `[c, ncols)` and ZERO outside. -/
theorem makeTableRowW_bit (M : Mzd) (ti ti1 m : Row) (c : Nat) (hti : ti.size = M.width)
    (j : Nat) (hj : j < 64 * M.width) :
    Row.bit (makeTableRowW ti ti1 m (c / 64) M.width (tableMaskBegin M c) (leftMask (M.ncols % 64))) j =
      if j / 64 < c / 64 then Row.bit ti j
      else (decide (c ≤ j ∧ j < M.ncols) && (Row.bit m j != Row.bit ti1 j)) := by
  have hjw : j / 64 < M.width := by omega
  have hp : j % 64 < 64 := Nat.mod_lt _ (by omega)
  have hc0 : 0 < M.ncols := by unfold width widthOf at hjw; omega
  rw [Row.bit_def, makeTableRowW, Row.w_mapIdx _ _ _ (by rw [hti]; exact hjw)]
  by_cases h1 : j / 64 < c / 64
  · rw [if_pos (Or.inl h1), if_pos h1]; rfl
  · rw [if_neg (by omega), if_neg h1]
    simp only []
    by_cases h2 : j / 64 = c / 64
    · rw [if_pos h2, BitVec.getLsbD_and, tableMaskBegin_getLsbD M c _ hp (by omega), BitVec.getLsbD_xor]
      have e1 : (c % 64 ≤ j % 64) = (c ≤ j) := by apply propext; omega
      have e2 : (64 * (c / 64) + j % 64 < M.ncols) = (j < M.ncols) := by apply propext; omega
      simp only [e1, e2, Row.bit_def]
      by_cases a : c ≤ j <;> by_cases b : j < M.ncols <;> simp [a, b]
    · rw [if_neg h2]
      have hcj : c ≤ j := by omega
      by_cases h3 : j / 64 + 1 = M.width
      · rw [if_pos h3, BitVec.getLsbD_and, highMask_getLsbD _ _ hp hc0, BitVec.getLsbD_xor]
        have e2 : (64 * (widthOf M.ncols - 1) + j % 64 < M.ncols) = (j < M.ncols) := by
          apply propext; unfold width at h3; omega
        simp only [e2, Row.bit_def]
        by_cases b : j < M.ncols <;> simp [hcj, b]
      · rw [if_neg h3, BitVec.getLsbD_xor]
        have b : j < M.ncols := by unfold width widthOf at hjw h3; omega
        simp [Row.bit_def, hcj, b]

/-- the state after `n` iterations of the loop of `mzd_make_table` -/
def mtIter (M : Mzd) (r c k : Nat) (T : Mzd) (L : Array Nat) (n : Nat) : Mzd × Array Nat :=
  (List.range n).foldl (makeTableStepW M r c k) (T, L.setIfInBounds 0 0)

theorem makeTableW_eq (M : Mzd) (r c k : Nat) (T : Mzd) (L : Array Nat) :
    makeTableW M r c k T L = mtIter M r c k T L (2 ^ k - 1) := rfl

theorem mtIter_zero (M : Mzd) (r c k : Nat) (T : Mzd) (L : Array Nat) :
    mtIter M r c k T L 0 = (T, L.setIfInBounds 0 0) := rfl

theorem mtIter_succ (M : Mzd) (r c k : Nat) (T : Mzd) (L : Array Nat) (n : Nat) :
    mtIter M r c k T L (n + 1) = makeTableStepW M r c k (mtIter M r c k T L n) n := by
  simp [mtIter, List.range_succ]

theorem step_snd (M : Mzd) (r c k : Nat) (TL : Mzd × Array Nat) (i0 : Nat) :
    (makeTableStepW M r c k TL i0).2 = TL.2.setIfInBounds ((buildOrd k).getD (i0 + 1) 0) (i0 + 1) := by
  unfold makeTableStepW; simp only []; split <;> rfl

theorem step_fst_skip (M : Mzd) (r c k : Nat) (TL : Mzd × Array Nat) (i0 : Nat)
    (h : M.nrows ≤ r + (buildInc k).getD i0 0) : (makeTableStepW M r c k TL i0).1 = TL.1 := by
  unfold makeTableStepW; simp only [Nat.add_sub_cancel]; rw [if_pos h]

theorem step_fst_write (M : Mzd) (r c k : Nat) (TL : Mzd × Array Nat) (i0 : Nat)
    (h : r + (buildInc k).getD i0 0 < M.nrows) :
    (makeTableStepW M r c k TL i0).1 =
      TL.1.setRow (i0 + 1) (makeTableRowW (TL.1.row (i0 + 1)) (TL.1.row i0)
        (M.row (r + (buildInc k).getD i0 0)) (c / 64) M.width (tableMaskBegin M c) (leftMask (M.ncols % 64))) := by
  unfold makeTableStepW; simp only [Nat.add_sub_cancel]; rw [if_neg (by omega)]

/-- the complete row-by-row description of the table after `n` iterations (no assumption on what was in
    the table before, rows whose source row does not exist are skipped) -/
structure MtInv (M : Mzd) (r c k : Nat) (T S : Mzd) (n : Nat) : Prop where
  wf : S.WF
  nrows : S.nrows = T.nrows
  ncols : S.ncols = T.ncols
  keep : ∀ i, (i = 0 ∨ n < i) → S.row i = T.row i
  skip : ∀ i, 1 ≤ i → i ≤ n → M.nrows ≤ r + (buildInc k).getD (i - 1) 0 → S.row i = T.row i
  wr : ∀ i, 1 ≤ i → i ≤ n → r + (buildInc k).getD (i - 1) 0 < M.nrows → i < T.nrows →
    ∀ j, j < 64 * M.width → S.bit i j =
      if j / 64 < c / 64 then T.bit i j
      else (decide (c ≤ j ∧ j < M.ncols) && (M.bit (r + (buildInc k).getD (i - 1) 0) j != S.bit (i - 1) j))

theorem mtIter_inv (M : Mzd) (r c k : Nat) (T : Mzd) (L : Array Nat) (hT : T.WF) (hc : T.ncols = M.ncols) :
    ∀ n, MtInv M r c k T (mtIter M r c k T L n).1 n := by
  have hw : T.width = M.width := by unfold width; rw [hc]
  intro n
  induction n with
  | zero =>
    rw [mtIter_zero]
    exact ⟨hT, rfl, rfl, fun _ _ => rfl, fun i h1 h2 => by omega, fun i h1 h2 => by omega⟩
  | succ n ih =>
    rw [mtIter_succ]
    generalize mtIter M r c k T L n = TL at ih ⊢
    by_cases hs : M.nrows ≤ r + (buildInc k).getD n 0
    · rw [step_fst_skip M r c k TL n hs]
      refine ⟨ih.wf, ih.nrows, ih.ncols, fun i hi => ih.keep i (by omega), fun i h1 h2 h3 => ?_,
        fun i h1 h2 h3 h4 => ?_⟩
      · by_cases e : i = n + 1
        · exact ih.keep i (by omega)
        · exact ih.skip i h1 (by omega) h3
      · by_cases e : i = n + 1
        · subst e; simp only [Nat.add_sub_cancel] at h3; omega
        · exact ih.wr i h1 (by omega) h3 h4
    · have hs' : r + (buildInc k).getD n 0 < M.nrows := by omega
      rw [step_fst_write M r c k TL n hs']
      generalize hnew : makeTableRowW (TL.1.row (n + 1)) (TL.1.row n) (M.row (r + (buildInc k).getD n 0))
        (c / 64) M.width (tableMaskBegin M c) (leftMask (M.ncols % 64)) = new
      by_cases hin : n + 1 < TL.1.rows.size
      · have hsz : (TL.1.row (n + 1)).size = M.width := by
          rw [ih.wf.2 (n + 1) (by rw [← ih.wf.1]; exact hin)]
          unfold width; rw [ih.ncols, hc]
        have hrow : ∀ i, i ≠ n + 1 → (TL.1.setRow (n + 1) new).row i = TL.1.row i := by
          intro i hi
          rw [row_setRow _ _ _ _ hin, if_neg (fun e => hi e.symm)]
        refine ⟨ih.wf.setRow _ _ ?_, ih.nrows, ih.ncols, fun i hi => ?_, fun i h1 h2 h3 => ?_,
          fun i h1 h2 h3 h4 j hj => ?_⟩
        · rw [← hnew, makeTableRowW_size, hsz]; unfold width; rw [ih.ncols, hc]
        · rw [hrow i (by omega)]; exact ih.keep i (by omega)
        · by_cases e : i = n + 1
          · subst e; simp only [Nat.add_sub_cancel] at h3; omega
          · rw [hrow i e]; exact ih.skip i h1 (by omega) h3
        · by_cases e : i = n + 1
          · subst e
            simp only [Nat.add_sub_cancel]
            rw [bit_setRow _ _ _ hin, if_pos rfl, bit_setRow _ _ _ hin, if_neg (show ¬ n = n + 1 by omega), ← hnew,
              makeTableRowW_bit M _ _ _ c hsz j hj]
            rw [← bit_eq_rowBit, ← bit_eq_rowBit, ← bit_eq_rowBit]
            have : TL.1.bit (n + 1) j = T.bit (n + 1) j := by
              rw [bit_eq_rowBit, ih.keep (n + 1) (by omega)]; rfl
            rw [this]
          · rw [bit_setRow _ _ _ hin, if_neg e, bit_setRow _ _ _ hin, if_neg (show ¬ i - 1 = n + 1 by omega)]
            exact ih.wr i h1 (by omega) h3 h4 j hj
      · rw [setRow_of_ge _ _ _ hin]
        have hge : T.nrows ≤ n + 1 := by rw [← ih.nrows, ← ih.wf.1]; omega
        refine ⟨ih.wf, ih.nrows, ih.ncols, fun i hi => ih.keep i (by omega), fun i h1 h2 h3 => ?_,
          fun i h1 h2 h3 h4 => ?_⟩
        · by_cases e : i = n + 1
          · exact ih.keep i (by omega)
          · exact ih.skip i h1 (by omega) h3
        · by_cases e : i = n + 1
          · omega
          · exact ih.wr i h1 (by omega) h3 h4

/-! #### consequences of the row-by-row description -/

theorem makeTableW_inv (M : Mzd) (r c k : Nat) (T : Mzd) (L : Array Nat) (hT : T.WF) (hc : T.ncols = M.ncols) :
    MtInv M r c k T (makeTableW M r c k T L).1 (2 ^ k - 1) := by
  rw [makeTableW_eq]; exact mtIter_inv M r c k T L hT hc _

/-- shape preservation -/
theorem makeTableW_WF (M : Mzd) (r c k : Nat) (T : Mzd) (L : Array Nat) (hT : T.WF) (hc : T.ncols = M.ncols) :
    (makeTableW M r c k T L).1.WF ∧ (makeTableW M r c k T L).1.nrows = T.nrows ∧
      (makeTableW M r c k T L).1.ncols = T.ncols :=
  have h := makeTableW_inv M r c k T L hT hc
  ⟨h.wf, h.nrows, h.ncols⟩

/-- row 0 of the table and the rows `≥ 2^k` are never written -/
theorem makeTableW_row_keep (M : Mzd) (r c k : Nat) (T : Mzd) (L : Array Nat) (hT : T.WF) (hc : T.ncols = M.ncols)
    (i : Nat) (hi : i = 0 ∨ 2 ^ k ≤ i) : (makeTableW M r c k T L).1.row i = T.row i :=
  (makeTableW_inv M r c k T L hT hc).keep i (by have := Nat.two_pow_pos k; omega)

/-- the words below the home block of every table row are not touched -/
theorem makeTableW_low (M : Mzd) (r c k : Nat) (T : Mzd) (L : Array Nat) (hT : T.WF) (hc : T.ncols = M.ncols)
    (i j : Nat) (hj : j / 64 < c / 64) : (makeTableW M r c k T L).1.bit i j = T.bit i j := by
  have h := makeTableW_inv M r c k T L hT hc
  have hw : T.width = M.width := by unfold width; rw [hc]
  by_cases h0 : i = 0 ∨ 2 ^ k - 1 < i
  · rw [bit_eq_rowBit, h.keep i h0]; rfl
  · by_cases hs : M.nrows ≤ r + (buildInc k).getD (i - 1) 0
    · rw [bit_eq_rowBit, h.skip i (by omega) (by omega) hs]; rfl
    · by_cases hi : i < T.nrows
      · by_cases hjw : j < 64 * M.width
        · rw [h.wr i (by omega) (by omega) (by omega) hi j hjw, if_pos hj]
        · have hjw2 : M.width ≤ j / 64 := by omega
          have e1 : ((makeTableW M r c k T L).1.row i).size = M.width := by
            rw [h.wf.2 i (by rw [h.nrows]; exact hi)]; unfold width; rw [h.ncols, hc]
          rw [bit_of_word_ge _ _ _ (by rw [e1]; exact hjw2),
            bit_of_word_ge _ _ _ (by rw [hT.2 i hi, hw]; exact hjw2)]
      · rw [bit_of_ge_rows _ _ _ (by rw [h.wf.1, h.nrows]; omega), bit_of_ge_rows _ _ _ (by rw [hT.1]; omega)]

/-- **(1) table rows are masked**: every table row written by `mzd_make_table(M, r, c, k, T, L)` has NO set bit,
    from the home block `c / 64` on, at a position `< c` or `≥ ncols` — for every view `M` (arbitrary excess bits
    in the last word of its rows) and arbitrary prior contents of the table.  Hence the whole-word XORs of
    `mzd_process_rows*` / `_mzd_combine*` leave the columns `< c` of the home word and the bits beyond the last
    column alone. -/
theorem makeTableW_masked (M : Mzd) (r c k : Nat) (T : Mzd) (L : Array Nat) (hT : T.WF) (hc : T.ncols = M.ncols)
    (i : Nat) (h1 : 1 ≤ i) (h2 : i < 2 ^ k) (hrow : r + (buildInc k).getD (i - 1) 0 < M.nrows)
    (j : Nat) (hj : j < 64 * M.width) (hhome : c / 64 ≤ j / 64) (hout : j < c ∨ M.ncols ≤ j) :
    (makeTableW M r c k T L).1.bit i j = false := by
  have h := makeTableW_inv M r c k T L hT hc
  by_cases hi : i < T.nrows
  · rw [h.wr i h1 (by omega) hrow hi j hj, if_neg (by omega)]
    have : ¬ (c ≤ j ∧ j < M.ncols) := by omega
    simp [this]
  · exact bit_of_ge_rows _ _ _ (by rw [h.wf.1, h.nrows]; omega)

/-- **(1) the zero padding of the table survives**: tables are owned matrices (`mzd_init`); whatever the excess
    bits of the source view `M` are, they do not leak into the padding of the table. -/
theorem makeTableW_padZero (M : Mzd) (r c k : Nat) (T : Mzd) (L : Array Nat) (hT : T.WF) (hc : T.ncols = M.ncols)
    (hp : T.padZero) : (makeTableW M r c k T L).1.padZero := by
  have h := makeTableW_inv M r c k T L hT hc
  have hw : T.width = M.width := by unfold width; rw [hc]
  intro i j hi hj hjw
  rw [h.nrows] at hi
  rw [h.ncols] at hj
  have hjw' : j < 64 * T.width := by unfold width at hjw ⊢; rw [h.ncols] at hjw; exact hjw
  have hpT := hp i j hi hj hjw'
  by_cases h0 : i = 0 ∨ 2 ^ k - 1 < i
  · rw [bit_eq_rowBit, h.keep i h0]; exact hpT
  · by_cases hs : M.nrows ≤ r + (buildInc k).getD (i - 1) 0
    · rw [bit_eq_rowBit, h.skip i (by omega) (by omega) hs]; exact hpT
    · rw [h.wr i (by omega) (by omega) (by omega) hi j (by omega)]
      split
      · exact hpT
      · have : ¬ (c ≤ j ∧ j < M.ncols) := by omega
        simp [this]

theorem ord_zero (k : Nat) : (buildOrd k).getD 0 0 = 0 := by
  rw [getD_buildOrd k 0 (Nat.two_pow_pos k)]; rfl

/-- the table entries when all `k` source rows exist: row `i` is the XOR of the rows `r + t` of `M` selected by the
    Gray code word `ord[i]`, restricted to the columns `[c, ncols)` — and ZERO elsewhere from the home block on. -/
theorem makeTableW_entry (M : Mzd) (r c k : Nat) (T : Mzd) (L : Array Nat) (hT : T.WF) (hc : T.ncols = M.ncols)
    (hr : r + k ≤ M.nrows) (hsz : 2 ^ k ≤ T.nrows) (h0 : ∀ j, c / 64 ≤ j / 64 → T.bit 0 j = false)
    (j : Nat) (hj : j < 64 * M.width) (hhome : c / 64 ≤ j / 64) :
    ∀ i, i < 2 ^ k → (makeTableW M r c k T L).1.bit i j =
      (decide (c ≤ j ∧ j < M.ncols) &&
        xorRange k (fun t => ((buildOrd k).getD i 0).testBit t && M.bit (r + t) j)) := by
  have h := makeTableW_inv M r c k T L hT hc
  intro i
  induction i with
  | zero =>
    intro _
    rw [bit_eq_rowBit, h.keep 0 (Or.inl rfl), ← bit_eq_rowBit, h0 j hhome, ord_zero]
    simp only [Nat.zero_testBit, Bool.false_and]
    rw [xorRange_false]; simp
  | succ i ih =>
    intro hi
    have hk : 1 ≤ k := by
      rcases Nat.eq_zero_or_pos k with e | e
      · subst e; simp at hi
      · exact e
    obtain ⟨hinc, hxor⟩ := buildInc_spec k hk i hi
    have hord : (buildOrd k).getD (i + 1) 0 = (buildOrd k).getD i 0 ^^^ 2 ^ (buildInc k).getD i 0 := by
      rw [← hxor, ← Nat.xor_assoc, Nat.xor_self, Nat.zero_xor]
    have hwr := h.wr (i + 1) (by omega) (by omega) (by simp only [Nat.add_sub_cancel]; omega) (by omega) j hj
    simp only [Nat.add_sub_cancel] at hwr
    rw [hwr, if_neg (by omega), ih (by omega), hord, xorRange_flip k _ _ hinc]
    generalize xorRange k (fun t => ((buildOrd k).getD i 0).testBit t && M.bit (r + t) j) = X
    generalize M.bit (r + (buildInc k).getD i 0) j = Y
    cases decide (c ≤ j ∧ j < M.ncols) <;> cases X <;> cases Y <;> rfl

/-- the index array: `L[ord[i]] = i` for all `i < 2^k` (only `2^k ≤ |L|` is needed: the storage may be larger) -/
theorem makeTableW_L (M : Mzd) (r c k : Nat) (T : Mzd) (L : Array Nat) (hL : 2 ^ k ≤ L.size) :
    ∀ n, n ≤ 2 ^ k - 1 → (mtIter M r c k T L n).2.size = L.size ∧
      ∀ i, i ≤ n → (mtIter M r c k T L n).2.getD ((buildOrd k).getD i 0) 0 = i := by
  have hpos := Nat.two_pow_pos k
  intro n
  induction n with
  | zero =>
    intro _
    rw [mtIter_zero]
    refine ⟨by simp, fun i hi => ?_⟩
    have : i = 0 := by omega
    subst this
    rw [ord_zero, Gray.getD_setIfInBounds, if_pos ⟨rfl, by omega⟩]
  | succ n ih =>
    intro hn
    obtain ⟨s, iL⟩ := ih (by omega)
    rw [mtIter_succ, step_snd]
    generalize (mtIter M r c k T L n).2 = L' at s iL ⊢
    refine ⟨by simp [s], fun i hi => ?_⟩
    rw [Gray.getD_setIfInBounds]
    have hb := buildOrd_bijective k
    by_cases e : n + 1 = i
    · subst e
      rw [if_pos ⟨rfl, by rw [s]; exact Nat.lt_of_lt_of_le (hb.2.1 _ (by omega)) hL⟩]
    · have hne : ¬ (buildOrd k).getD (n + 1) 0 = (buildOrd k).getD i 0 := fun h' =>
        e (hb.2.2.1 _ _ (by omega) (by omega) h')
      rw [if_neg (fun h' => hne h'.1)]
      exact iL i (by omega)

/-- **the lookup lemma at word level** (C19.4 on views).  After `mzd_make_table(M, r, c, k, T, L)` with all `k`
    source rows present and table row 0 zero from the home block on, for every `k`-bit pattern `x`:
    `L[x] < 2^k`, `ord[L[x]] = x`, and table row `L[x]` holds, from the home block on, the XOR of the rows `r + t`
    of `M` with bit `t` of `x` set — in the columns `[c, ncols)` — and ZERO everywhere else (columns `< c` of the
    home word, excess positions `≥ ncols`).  `M` is a view with arbitrary excess bits; the prior contents of
    `T` (rows `≥ 1`) and `L` are arbitrary, and the storage may be larger than `2^k`. -/
theorem makeTableW_lookup (M : Mzd) (r c k : Nat) (T : Mzd) (L : Array Nat) (hT : T.WF) (hc : T.ncols = M.ncols)
    (hr : r + k ≤ M.nrows) (hsz : 2 ^ k ≤ T.nrows) (hL : 2 ^ k ≤ L.size)
    (h0 : ∀ j, c / 64 ≤ j / 64 → T.bit 0 j = false) (x : Nat) (hx : x < 2 ^ k) :
    (makeTableW M r c k T L).2.getD x 0 < 2 ^ k ∧
    (buildOrd k).getD ((makeTableW M r c k T L).2.getD x 0) 0 = x ∧
    ∀ j, j < 64 * M.width → c / 64 ≤ j / 64 →
      (makeTableW M r c k T L).1.bit ((makeTableW M r c k T L).2.getD x 0) j =
        (decide (c ≤ j ∧ j < M.ncols) && xorRange k (fun t => x.testBit t && M.bit (r + t) j)) := by
  obtain ⟨i, hi, hix⟩ := (buildOrd_bijective k).2.2.2 x hx
  have hLi := (makeTableW_L M r c k T L hL (2 ^ k - 1) (Nat.le_refl _)).2 i (by omega)
  rw [← makeTableW_eq, hix] at hLi
  rw [hLi]
  refine ⟨hi, hix, fun j hj hhome => ?_⟩
  rw [makeTableW_entry M r c k T L hT hc hr hsz h0 j hj hhome i hi, hix]

theorem makeTableW_L_size (M : Mzd) (r c k : Nat) (T : Mzd) (L : Array Nat) :
    (makeTableW M r c k T L).2.size = L.size := by
  rw [makeTableW_eq]
  generalize 2 ^ k - 1 = n
  induction n with
  | zero => rw [mtIter_zero]; simp
  | succ n ih => rw [mtIter_succ, step_snd]; simp [ih]

/-! #### agreement with the R-level `makeTable` (step-by-step simulation; arbitrary prior contents, skipped rows
    included) -/

/-- simulation relation between the word-level and the rows-as-`Nat` table state -/
def TabSim (M : Mzd) (c : Nat) (TL : Mzd × Array Nat) (TR : Array Nat × Array Nat) : Prop :=
  TL.2 = TR.2 ∧ TL.1.WF ∧ TL.1.ncols = M.ncols ∧ TR.1.size = TL.1.nrows ∧
  (∀ i, TR.1.getD i 0 < 2 ^ M.ncols) ∧
  ∀ i j, c ≤ j → j < M.ncols → TL.1.bit i j = (TR.1.getD i 0).testBit j

theorem colMask_lt (c n : Nat) : colMask c n < 2 ^ n := by
  apply Nat.lt_pow_two_of_testBit
  intro p hp
  rw [colMask_testBit]
  have : ¬ p < n := by omega
  simp [this]

theorem step_sim (M : Mzd) (r c k : Nat) (TL : Mzd × Array Nat) (TR : Array Nat × Array Nat) (i0 : Nat)
    (h : TabSim M c TL TR) :
    TabSim M c (makeTableStepW M r c k TL i0) (makeTableStep M.toB.rows M.nrows M.ncols r c k TR i0) := by
  obtain ⟨hL, hwf, hnc, hsz, hlt, hbit⟩ := h
  by_cases hs : M.nrows ≤ r + (buildInc k).getD i0 0
  · have e2 : makeTableStep M.toB.rows M.nrows M.ncols r c k TR i0 =
        (TR.1, TR.2.setIfInBounds ((buildOrd k).getD (i0 + 1) 0) (i0 + 1)) := by
      simp only [makeTableStep, Nat.add_sub_cancel]; rw [if_pos hs]
    refine ⟨?_, ?_, ?_, ?_, ?_, ?_⟩
    · rw [step_snd, e2, hL]
    · rw [step_fst_skip _ _ _ _ _ _ hs]; exact hwf
    · rw [step_fst_skip _ _ _ _ _ _ hs]; exact hnc
    · rw [step_fst_skip _ _ _ _ _ _ hs, e2]; exact hsz
    · rw [e2]; exact hlt
    · rw [step_fst_skip _ _ _ _ _ _ hs, e2]; exact hbit
  · have hs' : r + (buildInc k).getD i0 0 < M.nrows := by omega
    have e2 : makeTableStep M.toB.rows M.nrows M.ncols r c k TR i0 =
        (TR.1.setIfInBounds (i0 + 1) (TR.1.getD i0 0 ^^^
            (M.toB.rows.getD (r + (buildInc k).getD i0 0) 0 &&& colMask c M.ncols)),
          TR.2.setIfInBounds ((buildOrd k).getD (i0 + 1) 0) (i0 + 1)) := by
      simp only [makeTableStep, Nat.add_sub_cancel]; rw [if_neg hs]
    have hw : TL.1.width = M.width := by unfold width; rw [hnc]
    rw [e2]
    refine ⟨?_, ?_, ?_, ?_, ?_, ?_⟩
    · rw [step_snd, hL]
    · rw [step_fst_write _ _ _ _ _ _ hs']
      by_cases hin : i0 + 1 < TL.1.rows.size
      · apply hwf.setRow
        rw [makeTableRowW_size]; exact hwf.2 _ (by rw [← hwf.1]; exact hin)
      · rw [setRow_of_ge _ _ _ hin]; exact hwf
    · rw [step_fst_write _ _ _ _ _ _ hs']; exact hnc
    · rw [step_fst_write _ _ _ _ _ _ hs', nrows_setRow]; simp only [Array.size_setIfInBounds]; exact hsz
    · intro i
      simp only []
      rw [Gray.getD_setIfInBounds]
      split
      · exact Nat.xor_lt_two_pow (hlt _) (Nat.and_lt_two_pow _ (colMask_lt c M.ncols))
      · exact hlt i
    · intro i j hcj hjn
      rw [step_fst_write _ _ _ _ _ _ hs']
      simp only []
      rw [Gray.getD_setIfInBounds]
      by_cases hin : i0 + 1 < TL.1.rows.size
      · rw [bit_setRow _ _ _ hin]
        by_cases e : i = i0 + 1
        · subst e
          have hsz' : i0 + 1 < TR.1.size := by rw [hsz, ← hwf.1]; exact hin
          rw [if_pos rfl, if_pos ⟨rfl, hsz'⟩]
          have hszr : (TL.1.row (i0 + 1)).size = M.width := by
            rw [hwf.2 _ (by rw [← hwf.1]; exact hin), hw]
          rw [makeTableRowW_bit M _ _ _ c hszr j (by unfold width widthOf; omega), if_neg (by omega)]
          rw [← bit_eq_rowBit, ← bit_eq_rowBit, hbit i0 j hcj hjn, Nat.testBit_xor, Nat.testBit_and,
            colMask_testBit]
          have : (M.toB.rows.getD (r + (buildInc k).getD i0 0) 0).testBit j
              = M.toB.get (r + (buildInc k).getD i0 0) j := rfl
          rw [this, get_toB']
          simp only [hcj, hjn, and_self, decide_true, Bool.true_and, Bool.and_true]
          cases M.bit (r + (buildInc k).getD i0 0) j <;> cases (TR.1.getD i0 0).testBit j <;> rfl
        · rw [if_neg e, if_neg (fun h' => e h'.1.symm)]
          exact hbit i j hcj hjn
      · rw [setRow_of_ge _ _ _ hin]
        have : ¬ (i0 + 1 = i ∧ i < TR.1.size) := by
          intro h'
          rw [hsz, ← hwf.1] at h'
          omega
        rw [if_neg this]
        exact hbit i j hcj hjn

/-- **(1) agreement with the R-level table.**  For every view `M` (arbitrary excess bits), every prior content of
    the table storage, every `r`, `c`, `k` (rows that do not exist are skipped on both sides): the index arrays
    are EQUAL, and the word-level table agrees with `makeTable` on `M.toB` in all columns `[c, ncols)`. -/
theorem makeTableW_sim (M : Mzd) (r c k : Nat) (T : Mzd) (L : Array Nat) (hT : T.WF) (hc : T.ncols = M.ncols) :
    (makeTableW M r c k T L).2 = (makeTable M.toB.rows M.nrows M.ncols r c k T.toB.rows L).2 ∧
    (makeTable M.toB.rows M.nrows M.ncols r c k T.toB.rows L).1.size = T.nrows ∧
    (∀ i, (makeTable M.toB.rows M.nrows M.ncols r c k T.toB.rows L).1.getD i 0 < 2 ^ M.ncols) ∧
    ∀ i j, c ≤ j → j < M.ncols →
      (makeTableW M r c k T L).1.bit i j =
        ((makeTable M.toB.rows M.nrows M.ncols r c k T.toB.rows L).1.getD i 0).testBit j := by
  have h0 : TabSim M c (T, L.setIfInBounds 0 0) (T.toB.rows, L.setIfInBounds 0 0) := by
    refine ⟨rfl, hT, hc, ?_, ?_, ?_⟩
    · show (T.rows.map _).size = T.nrows
      rw [Array.size_map]; exact hT.1
    · intro i
      have : T.toB.rows.getD i 0 = T.toB.row i := rfl
      rw [this, ← hc]
      exact (WF_toB hT).2 i
    · intro i j _ hjn
      have : (T.toB.rows.getD i 0).testBit j = T.toB.get i j := rfl
      rw [this, get_toB', hc]; simp [hjn]
  have key := foldl_rel (TabSim M c) (fun _ => True) (makeTableStepW M r c k)
    (makeTableStep M.toB.rows M.nrows M.ncols r c k) (fun a b x _ hab => step_sim M r c k a b x hab)
    (List.range (2 ^ k - 1)) (fun _ _ => trivial) _ _ h0
  obtain ⟨k1, k2, k3, k4, k5, k6⟩ := key
  rw [makeTable_eq_foldl]
  have hn := (makeTableW_WF M r c k T L hT hc).2.1
  exact ⟨k1, by rw [k4]; exact hn, k5, k6⟩

/-- **(1) `toB`-level agreement** for `c = 0` (the case of `_mzd_mul_m4rm`): the abstract value of the word-level
    table IS the R-level table built from the abstract values. -/
theorem makeTableW_toB (M : Mzd) (r k : Nat) (T : Mzd) (L : Array Nat) (hT : T.WF) (hc : T.ncols = M.ncols) :
    (makeTableW M r 0 k T L).1.toB.rows = (makeTable M.toB.rows M.nrows M.ncols r 0 k T.toB.rows L).1 ∧
    (makeTableW M r 0 k T L).2 = (makeTable M.toB.rows M.nrows M.ncols r 0 k T.toB.rows L).2 := by
  obtain ⟨s1, s2, s3, s4⟩ := makeTableW_sim M r 0 k T L hT hc
  obtain ⟨w1, w2, w3⟩ := makeTableW_WF M r 0 k T L hT hc
  refine ⟨?_, s1⟩
  have hsz : (makeTableW M r 0 k T L).1.toB.rows.size = T.nrows := by
    show ((makeTableW M r 0 k T L).1.rows.map _).size = T.nrows
    rw [Array.size_map, w1.1, w2]
  apply Array.ext
  · rw [hsz, s2]
  · intro i h1 h2
    have e1 : (makeTableW M r 0 k T L).1.toB.rows[i] = (makeTableW M r 0 k T L).1.toB.row i :=
      (BMat.row_eq_getElem _ i h1).symm
    have e2 : (makeTable M.toB.rows M.nrows M.ncols r 0 k T.toB.rows L).1[i] =
        (makeTable M.toB.rows M.nrows M.ncols r 0 k T.toB.rows L).1.getD i 0 := by
      simp [Array.getD, h2]
    rw [e1, e2]
    apply Nat.eq_of_testBit_eq
    intro j
    have : ((makeTableW M r 0 k T L).1.toB.row i).testBit j = (makeTableW M r 0 k T L).1.toB.get i j := rfl
    rw [this, get_toB', w3, hc]
    by_cases hj : j < M.ncols
    · rw [s4 i j (Nat.zero_le _) hj]; simp [hj]
    · rw [Nat.testBit_lt_two_pow (Nat.lt_of_lt_of_le (s3 i) (Nat.pow_le_pow_right (by omega) (by omega)))]
      simp [hj]

/-- non-vacuity / sanity: a 3×70 view whose excess bits are all ones, `k = 2`, junk in `L`: the table rows come
    out masked (last word `0x…`, no bit `≥ 70`) and agree with the R-level table -/
def exM : Mzd := ⟨3, 70, #[#[0x1#64, 0xFFFFFFFFFFFFFFC1#64], #[0x2#64, 0xFFFFFFFFFFFFFFC2#64],
  #[0x4#64, 0xFFFFFFFFFFFFFFE0#64]]⟩
theorem exM_WF : exM.WF := by
  refine ⟨rfl, ?_⟩
  intro i hi
  have : i = 0 ∨ i = 1 ∨ i = 2 := by simp [exM] at hi; omega
  rcases this with rfl | rfl | rfl <;> rfl
theorem zero_WF (r c : Nat) : (Mzd.zero r c).WF := Tr.zero_WF r c

example : (makeTableW exM 1 0 2 (Mzd.zero 4 70) #[9, 9, 9, 9]).1.rows =
    #[#[0#64, 0#64], #[2#64, 2#64], #[6#64, 0x22#64], #[4#64, 0x20#64]] := by decide
example : (makeTableW exM 1 0 2 (Mzd.zero 4 70) #[9, 9, 9, 9]).2 = #[0, 1, 3, 2] := by decide +kernel

/-! ### 2. `mzd_process_rows` -/

theorem processRowsW_WF (M : Mzd) (sr er sc k : Nat) (T : Mzd) (L : Array Nat) (h : M.WF) :
    (processRowsW M sr er sc k T L).WF := by
  refine ⟨by simp [processRowsW]; exact h.1, ?_⟩
  intro i hi
  have hi' : i < M.nrows := hi
  unfold processRowsW
  rw [row_withRows_mapIdx _ _ _ (by rw [h.1]; exact hi'), width_withRows]
  split
  · split
    · rw [xorWordsFrom_size]; exact h.2 i hi'
    · exact h.2 i hi'
  · exact h.2 i hi'

theorem nrows_processRowsW (M : Mzd) (sr er sc k : Nat) (T : Mzd) (L : Array Nat) :
    (processRowsW M sr er sc k T L).nrows = M.nrows := rfl
theorem ncols_processRowsW (M : Mzd) (sr er sc k : Nat) (T : Mzd) (L : Array Nat) :
    (processRowsW M sr er sc k T L).ncols = M.ncols := rfl

/-- the bit of the selected table row (`false` when the `k = 1` loop adds nothing) -/
def selBit (T : Mzd) (s : Option Nat) (j : Nat) : Bool :=
  match s with
  | some x => T.bit x j
  | none => false

/-- `mzd_process_rows`, raw form (no assumption on the table at all): in the rows `startrow ≤ i < stoprow` the
    WHOLE words from `startcol / 64` on get the selected table row XORed in — including the columns `< startcol`
    of the home word and the excess bits of the last word.  Everything else is unchanged. -/
theorem processRowsW_bit (M : Mzd) (sr er sc k : Nat) (T : Mzd) (L : Array Nat) (h : M.WF)
    (i j : Nat) (hi : i < M.nrows) (hj : j < 64 * M.width) :
    (processRowsW M sr er sc k T L).bit i j =
      if sr ≤ i ∧ i < er ∧ sc / 64 ≤ j / 64 then
        (M.bit i j != selBit T (processRowsSel (M.row i) i sr er sc k L) j)
      else M.bit i j := by
  unfold processRowsW
  rw [bit_eq_rowBit, row_withRows_mapIdx _ _ _ (by rw [h.1]; exact hi)]
  by_cases h1 : sr ≤ i ∧ i < er
  · rw [if_pos h1]
    cases hs : processRowsSel (M.row i) i sr er sc k L with
    | none =>
      simp only [selBit]
      by_cases h2 : sc / 64 ≤ j / 64
      · rw [if_pos ⟨h1.1, h1.2, h2⟩]; simp [bit_eq_rowBit]
      · rw [if_neg (fun h' => h2 h'.2.2)]; rfl
    | some x =>
      simp only [selBit]
      rw [xorWordsFrom_bit _ _ _ _ (by rw [h.2 i hi]; exact Nat.le_refl _)]
      by_cases h2 : sc / 64 ≤ j / 64
      · rw [if_pos ⟨h2, by omega⟩, if_pos ⟨h1.1, h1.2, h2⟩]; rfl
      · rw [if_neg (fun h' => h2 h'.1), if_neg (fun h' => h2 h'.2.2)]; rfl
  · rw [if_neg h1, if_neg (fun h' => h1 ⟨h'.1, h'.2.1⟩)]; rfl

/-- **(2) frame of `mzd_process_rows`**: if the table is an owned matrix with zero padding (which
    `mzd_make_table` preserves, `makeTableW_padZero`), the excess bits of EVERY row of the view `M` are unchanged. -/
theorem processRowsW_frame (M : Mzd) (sr er sc k : Nat) (T : Mzd) (L : Array Nat) (h : M.WF) (hT : T.WF)
    (hc : T.ncols = M.ncols) (hp : T.padZero)
    (i j : Nat) (hi : i < M.nrows) (hj : j < 64 * M.width) (hex : M.ncols ≤ j) :
    (processRowsW M sr er sc k T L).bit i j = M.bit i j := by
  rw [processRowsW_bit M sr er sc k T L h i j hi hj]
  split
  · have : selBit T (processRowsSel (M.row i) i sr er sc k L) j = false := by
      cases processRowsSel (M.row i) i sr er sc k L with
      | none => rfl
      | some x =>
        simp only [selBit]
        by_cases hx : x < T.nrows
        · exact hp x j hx (by omega) (by unfold width at hj ⊢; rw [hc]; exact hj)
        · exact bit_of_ge_rows _ _ _ (by rw [hT.1]; omega)
    rw [this]; simp
  · rfl

/-- a word ANDed with a one-hot mask is non-zero iff the bit is set -/
theorem and_oneHot_ne_zero (w : Word) (p : Nat) (hp : p < 64) :
    (w &&& ((1#64) <<< p)) ≠ 0 ↔ w.getLsbD p = true := by
  constructor
  · intro hne
    by_cases hb : w.getLsbD p = true
    · exact hb
    · exfalso
      apply hne
      apply BitVec.eq_of_getLsbD_eq
      intro q hq
      rw [BitVec.getLsbD_and, oneShl_getLsbD _ _ hq]
      by_cases e : q = p
      · subst e; simp [hb]
      · simp [e]
  · intro hb hz
    have := congrArg (fun v : Word => v.getLsbD p) hz
    simp only [BitVec.getLsbD_and, oneShl_getLsbD _ _ hp, hb] at this
    simp at this

theorem toNat_testBit (w : Word) (t : Nat) : w.toNat.testBit t = w.getLsbD t := by
  simp [BitVec.getLsbD]

theorem readBits_toNat_testBit (M : Mzd) (x y n : Nat) (hn : n ≤ 64) (t : Nat) :
    (M.readBits x y n).toNat.testBit t = (decide (t < n) && M.bit x (y + t)) := by
  rw [toNat_testBit, readBits_getLsbD _ _ _ _ hn]
  by_cases h : t < n <;> simp [h]

theorem readBits_toNat_lt (M : Mzd) (x y n : Nat) (hn : n ≤ 64) : (M.readBits x y n).toNat < 2 ^ n := by
  apply Nat.lt_pow_two_of_testBit
  intro p hp
  rw [readBits_toNat_testBit _ _ _ _ hn]
  have : ¬ p < n := by omega
  simp [this]

/-- what a table must satisfy for `mzd_process_rows`/`_mzd_mul_m4rm` (conclusion of `makeTableW_lookup`) -/
structure Lookup (B : Mzd) (r c k : Nat) (T : Mzd) (L : Array Nat) : Prop where
  lt : ∀ x, x < 2 ^ k → L.getD x 0 < 2 ^ k
  ord : ∀ x, x < 2 ^ k → (buildOrd k).getD (L.getD x 0) 0 = x
  bit : ∀ x, x < 2 ^ k → ∀ j, j < 64 * B.width → c / 64 ≤ j / 64 →
    T.bit (L.getD x 0) j = (decide (c ≤ j ∧ j < B.ncols) && xorRange k (fun t => x.testBit t && B.bit (r + t) j))

theorem makeTableW_Lookup (M : Mzd) (r c k : Nat) (T : Mzd) (L : Array Nat) (hT : T.WF) (hc : T.ncols = M.ncols)
    (hr : r + k ≤ M.nrows) (hsz : 2 ^ k ≤ T.nrows) (hL : 2 ^ k ≤ L.size)
    (h0 : ∀ j, c / 64 ≤ j / 64 → T.bit 0 j = false) :
    Lookup M r c k (makeTableW M r c k T L).1 (makeTableW M r c k T L).2 :=
  ⟨fun x hx => (makeTableW_lookup M r c k T L hT hc hr hsz hL h0 x hx).1,
   fun x hx => (makeTableW_lookup M r c k T L hT hc hr hsz hL h0 x hx).2.1,
   fun x hx => (makeTableW_lookup M r c k T L hT hc hr hsz hL h0 x hx).2.2⟩

theorem Lookup.zero {B : Mzd} {r c k : Nat} {T : Mzd} {L : Array Nat} (h : Lookup B r c k T L) :
    L.getD 0 0 = 0 := by
  have hpos := Nat.two_pow_pos k
  have h1 := h.ord 0 hpos
  have h2 := h.lt 0 hpos
  exact (buildOrd_bijective k).2.2.1 _ _ h2 hpos (by rw [h1, ord_zero])

theorem Lookup.one {B : Mzd} {r c : Nat} {T : Mzd} {L : Array Nat} (h : Lookup B r c 1 T L) :
    L.getD 1 0 = 1 := by
  have h1 := h.ord 1 (by decide)
  have h2 := h.lt 1 (by decide)
  have : L.getD 1 0 ≠ 0 := by
    intro e
    rw [e, ord_zero] at h1
    omega
  omega

/-- with a table that satisfies the lookup lemma, the `k = 1` fast path of `mzd_process_rows` adds the same row
    as the general path: `T[L[mzd_read_bits(M, i, startcol, k)]]` -/
theorem selBit_eq (M B : Mzd) (r sr er sc k : Nat) (T : Mzd) (L : Array Nat) (hk : k ≤ 64)
    (hl : Lookup B r sc k T L) (i j : Nat) (hj : j < 64 * B.width) (hhome : sc / 64 ≤ j / 64) :
    selBit T (processRowsSel (M.row i) i sr er sc k L) j = T.bit (L.getD (M.readBits i sc k).toNat 0) j := by
  unfold processRowsSel
  split
  · rename_i h1
    obtain ⟨rfl, _⟩ := h1
    have hx2 := readBits_toNat_lt M i sc 1 (by omega)
    have hx0 := readBits_toNat_testBit M i sc 1 (by omega) 0
    simp only [Nat.lt_add_one, decide_true, Bool.true_and, Nat.add_zero] at hx0
    rw [Nat.testBit_zero] at hx0
    have hb : ((M.row i).w (sc / 64) &&& ((1#64) <<< (sc % 64))) ≠ 0 ↔ M.bit i sc = true :=
      and_oneHot_ne_zero _ _ (Nat.mod_lt _ (by omega))
    by_cases hbit : M.bit i sc = true
    · rw [if_pos (hb.2 hbit)]
      have : (M.readBits i sc 1).toNat = 1 := by
        rw [hbit] at hx0; simp at hx0; omega
      rw [this, hl.one]; rfl
    · rw [if_neg (fun h' => hbit (hb.1 h'))]
      have : (M.readBits i sc 1).toNat = 0 := by
        have : M.bit i sc = false := by simpa using hbit
        rw [this] at hx0; simp at hx0; omega
      rw [this, hl.zero]
      simp only [selBit]
      have := hl.bit 0 (by decide) j hj hhome
      rw [hl.zero] at this
      rw [this]
      simp only [Nat.zero_testBit, Bool.false_and]
      rw [xorRange_false]; simp
  · rfl

/-- **(2) `mzd_make_table` + `mzd_process_rows`, entries and frame in one equation.**  The table is built from the
    rows `r .. r+k-1` of a view `B`, then the rows `startrow ≤ i < stoprow` of a view `M` (same number of columns)
    are processed.  For every stored position of `M`:
      * columns `c ≤ j < ncols` of a processed row: `M[i,j] ⊕ ⊕_{t<k} M[i,c+t] ∧ B[r+t,j]` — the R-level pass;
      * everything else — other rows, the columns `< c` (also those in the home word, which the whole-word XOR
        touches) and the EXCESS BITS `≥ ncols` of every row — is unchanged,
    whatever the excess bits of `M` and `B` and the prior contents of the table storage (rows `≥ 1`) and of `L`. -/
theorem processRowsW_spec (M B : Mzd) (r sr er c k : Nat) (T : Mzd) (L : Array Nat) (h : M.WF) (hT : T.WF)
    (hcT : T.ncols = B.ncols) (hcM : M.ncols = B.ncols) (hk : k ≤ 64)
    (hr : r + k ≤ B.nrows) (hsz : 2 ^ k ≤ T.nrows) (hL : 2 ^ k ≤ L.size)
    (h0 : ∀ j, c / 64 ≤ j / 64 → T.bit 0 j = false)
    (i j : Nat) (hi : i < M.nrows) (hj : j < 64 * M.width) :
    (processRowsW M sr er c k (makeTableW B r c k T L).1 (makeTableW B r c k T L).2).bit i j =
      if sr ≤ i ∧ i < er ∧ c ≤ j ∧ j < M.ncols then
        (M.bit i j != xorRange k (fun t => M.bit i (c + t) && B.bit (r + t) j))
      else M.bit i j := by
  have hl := makeTableW_Lookup B r c k T L hT hcT hr hsz hL h0
  have hw : M.width = B.width := by unfold width; rw [hcM]
  rw [processRowsW_bit M sr er c k _ _ h i j hi hj]
  by_cases h1 : sr ≤ i ∧ i < er ∧ c / 64 ≤ j / 64
  · rw [if_pos h1, selBit_eq M B r sr er c k _ _ hk hl i j (by rw [← hw]; exact hj) h1.2.2,
      hl.bit _ (readBits_toNat_lt M i c k hk) j (by rw [← hw]; exact hj) h1.2.2, ← hcM]
    by_cases h2 : c ≤ j ∧ j < M.ncols
    · rw [if_pos ⟨h1.1, h1.2.1, h2⟩]
      simp only [h2, and_self, decide_true, Bool.true_and]
      congr 1
      apply xorRange_congr
      intro t ht
      rw [readBits_toNat_testBit _ _ _ _ hk]; simp [ht]
    · rw [if_neg (fun h' => h2 h'.2.2)]
      simp [h2]
  · rw [if_neg h1, if_neg (by omega)]

theorem bit_zero (r c i j : Nat) : (Mzd.zero r c).bit i j = false := by
  rw [bit_def]
  have : ∀ k, Row.w ((Mzd.zero r c).row i) k = 0 := by
    intro k
    unfold Mzd.zero row Row.w
    simp only [Array.getD_eq_getD_getElem?, Array.getElem?_replicate]
    by_cases hi : i < r
    · by_cases hk : k < widthOf c <;> simp [hi, hk]
    · simp [hi]
  rw [this]; simp

/-- non-vacuity of `processRowsW_spec`, and a sanity check on a view with all excess bits set: the table of the
    rows 1, 2 of `exM` applied to row 0 (`k = 2`, bits `M[0,0..1] = 1,0` select row 1) — the excess bits
    `0xFF…C0` of row 0 survive -/
example : (processRowsW exM 0 1 0 2 (makeTableW exM 1 0 2 (Mzd.zero 4 70) #[9, 9, 9, 9]).1
      (makeTableW exM 1 0 2 (Mzd.zero 4 70) #[9, 9, 9, 9]).2).rows =
    #[#[0x3#64, 0xFFFFFFFFFFFFFFC3#64], #[0x2#64, 0xFFFFFFFFFFFFFFC2#64], #[0x4#64, 0xFFFFFFFFFFFFFFE0#64]] := by
  decide +kernel
example : exM.WF ∧ (Mzd.zero 4 70).WF ∧ (Mzd.zero 4 70).ncols = exM.ncols ∧ 1 + 2 ≤ exM.nrows ∧
    2 ^ 2 ≤ (Mzd.zero 4 70).nrows ∧ (∀ j, (Mzd.zero 4 70).bit 0 j = false) :=
  ⟨exM_WF, zero_WF 4 70, rfl, by decide, by decide, fun j => bit_zero 4 70 0 j⟩

/-! ### 4a. one table pass of `_mzd_mul_m4rm` -/

/-- the table storage of `_mzd_mul_m4rm` is fit for a table of `K` bits: an `mzd_init`ed matrix of at least `2^K`
    rows with the columns of `B` whose row 0 is (still) zero, and an index array of at least `2^K` entries -/
structure TableOK (B : Mzd) (K : Nat) (TL : Mzd × Array Nat) : Prop where
  wf : TL.1.WF
  ncols : TL.1.ncols = B.ncols
  nrows : 2 ^ K ≤ TL.1.nrows
  row0 : ∀ j, TL.1.bit 0 j = false
  lsize : 2 ^ K ≤ TL.2.size

theorem TableOK.makeTableW {B : Mzd} {K : Nat} {TL : Mzd × Array Nat} (h : TableOK B K TL) (r c k : Nat) :
    TableOK B K (makeTableW B r c k TL.1 TL.2) := by
  obtain ⟨w1, w2, w3⟩ := makeTableW_WF B r c k TL.1 TL.2 h.wf h.ncols
  refine ⟨w1, by rw [w3]; exact h.ncols, by rw [w2]; exact h.nrows, fun j => ?_, ?_⟩
  · rw [bit_eq_rowBit, makeTableW_row_keep B r c k TL.1 TL.2 h.wf h.ncols 0 (Or.inl rfl)]
    exact h.row0 j
  · rw [makeTableW_L_size]; exact h.lsize

theorem m4rmPassW_WF (C : Mzd) (sel : Nat → Nat) (B : Mzd) (col kbits : Nat) (T : Mzd) (L : Array Nat)
    (hC : C.WF) : (m4rmPassW C sel B col kbits T L).1.WF := by
  refine ⟨by simp [m4rmPassW]; exact hC.1, ?_⟩
  intro i hi
  have hi' : i < C.nrows := hi
  unfold m4rmPassW
  simp only []
  rw [row_withRows_mapIdx _ _ _ (by rw [hC.1]; exact hi'), width_withRows, xorWordsFrom_size]
  exact hC.2 i hi'

theorem nrows_m4rmPassW (C : Mzd) (sel : Nat → Nat) (B : Mzd) (col kbits : Nat) (T : Mzd) (L : Array Nat) :
    (m4rmPassW C sel B col kbits T L).1.nrows = C.nrows := rfl
theorem ncols_m4rmPassW (C : Mzd) (sel : Nat → Nat) (B : Mzd) (col kbits : Nat) (T : Mzd) (L : Array Nat) :
    (m4rmPassW C sel B col kbits T L).1.ncols = C.ncols := rfl
theorem tables_m4rmPassW (C : Mzd) (sel : Nat → Nat) (B : Mzd) (col kbits : Nat) (T : Mzd) (L : Array Nat) :
    (m4rmPassW C sel B col kbits T L).2 = makeTableW B col 0 kbits T L := rfl

/-- **(4, single pass) bit form.**  One table pass of `_mzd_mul_m4rm` with table storage of `K ≥ kbits` bits
    (re-used storage, arbitrary prior contents of rows `≥ 1` and of `L`): every row `i` of the view `C` gets
    `⊕_{t < kbits} sel(i)_t · B[col+t, j]` added in the columns `j < ncols`; the whole-word XOR over all `C->width`
    words leaves the EXCESS BITS of `C` unchanged because the table rows are masked.  `B` is a view with arbitrary
    excess bits. -/
theorem m4rmPassW_bit (C : Mzd) (sel : Nat → Nat) (B : Mzd) (col kbits K : Nat) (TL : Mzd × Array Nat)
    (hC : C.WF) (hcC : C.ncols = B.ncols) (hT : TableOK B K TL) (hK : kbits ≤ K)
    (hr : col + kbits ≤ B.nrows) (hsel : ∀ i, i < C.nrows → sel i < 2 ^ kbits)
    (i j : Nat) (hi : i < C.nrows) (hj : j < 64 * C.width) :
    (m4rmPassW C sel B col kbits TL.1 TL.2).1.bit i j =
      if j < C.ncols then (C.bit i j != xorRange kbits (fun t => (sel i).testBit t && B.bit (col + t) j))
      else C.bit i j := by
  have hpow : 2 ^ kbits ≤ 2 ^ K := Nat.pow_le_pow_right (by omega) hK
  have hl := makeTableW_Lookup B col 0 kbits TL.1 TL.2 hT.wf hT.ncols hr
    (Nat.le_trans hpow hT.nrows) (Nat.le_trans hpow hT.lsize) (fun j _ => hT.row0 j)
  have hw : C.width = B.width := by unfold width; rw [hcC]
  unfold m4rmPassW
  simp only []
  rw [bit_eq_rowBit, row_withRows_mapIdx _ _ _ (by rw [hC.1]; exact hi),
    xorWordsFrom_bit _ _ _ _ (by rw [hC.2 i hi]; exact Nat.le_refl _), if_pos ⟨Nat.zero_le _, by omega⟩,
    ← bit_eq_rowBit, ← bit_eq_rowBit,
    hl.bit (sel i) (hsel i hi) j (by rw [← hw]; exact hj) (Nat.zero_le _), ← hcC]
  by_cases hjn : j < C.ncols
  · simp [hjn]
  · simp [hjn]

/-- **(4, single pass) = the R-level pass through the lens.**  With `sel i` the `kbits` bits of row `i` of the view
    `A` at column `col`:  `C' = C.putB (m4rmPass C.toB A.toB B.toB col kbits junk)` — the entries are those of the
    R-level pass (for every `junk`), the excess bits of `C` are untouched — for views `A`, `B`, `C` with arbitrary
    excess bits. -/
theorem m4rmPassW_spec (C A B : Mzd) (sel : Nat → Nat) (col kbits K : Nat) (TL : Mzd × Array Nat)
    (junk : Nat → Nat) (hC : C.WF) (hB : B.WF) (hcC : C.ncols = B.ncols) (hl : A.ncols = B.nrows)
    (hT : TableOK B K TL) (hK : kbits ≤ K) (hr : col + kbits ≤ A.ncols)
    (hsel : ∀ i, i < C.nrows → sel i < 2 ^ kbits ∧ ∀ t, t < kbits → (sel i).testBit t = A.bit i (col + t)) :
    (m4rmPassW C sel B col kbits TL.1 TL.2).1 = C.putB (BMat.m4rmPass C.toB A.toB B.toB col kbits junk) := by
  apply eq_putB_of_bit (m4rmPassW_WF C sel B col kbits TL.1 TL.2 hC) hC rfl rfl
  intro i j hi hj
  rw [m4rmPassW_bit C sel B col kbits K TL hC hcC hT hK (by omega) (fun i hi => (hsel i hi).1) i j hi hj]
  by_cases hjn : j < C.ncols
  · rw [if_pos hjn, if_pos hjn, BMat.get_m4rmPass C.toB A.toB B.toB col kbits junk (WF_toB hB)
      (by rw [nrows_toB]; omega) i j (by rw [(WF_toB hC).1, nrows_toB]; exact hi), get_toB_of_lt C i j hjn]
    congr 1
    apply xorRange_congr
    intro t ht
    rw [(hsel i hi).2 t ht, get_toB_of_lt A i (col + t) (by omega), get_toB_of_lt B (col + t) j (by omega)]
  · rw [if_neg hjn, if_neg hjn]

/-- the selector of the remainder loops: `mzd_read_bits_int(A, i, col, kbits)` -/
theorem m4rmSelRest_ok (A : Mzd) (col kbits : Nat) (hk : kbits ≤ 64) (i : Nat) :
    m4rmSelRest A col kbits i < 2 ^ kbits ∧
      ∀ t, t < kbits → (m4rmSelRest A col kbits i).testBit t = A.bit i (col + t) := by
  refine ⟨readBits_toNat_lt A i col kbits hk, fun t ht => ?_⟩
  unfold m4rmSelRest
  rw [readBits_toNat_testBit _ _ _ _ hk]; simp [ht]

/-- the selector of the main loop: `(a >> z·k) & bm` with `a = mzd_read_bits(A, i, col, kk)`, `z·k + k ≤ kk ≤ 64` -/
theorem m4rmSelMain_ok (A : Mzd) (col kk z k : Nat) (hkk : kk ≤ 64) (hz : z * k + k ≤ kk) (i : Nat) :
    m4rmSelMain A col kk z k i < 2 ^ k ∧
      ∀ t, t < k → (m4rmSelMain A col kk z k i).testBit t = A.bit i (col + z * k + t) := by
  have hbit : ∀ t, (m4rmSelMain A col kk z k i).testBit t = (decide (t < k) && A.bit i (col + z * k + t)) := by
    intro t
    unfold m4rmSelMain
    rw [toNat_testBit, BitVec.getLsbD_and, BitVec.getLsbD_ushiftRight, readBits_getLsbD _ _ _ _ hkk,
      BitVec.getLsbD_ofNat, Nat.testBit_two_pow_sub_one]
    by_cases ht : t < k
    · have h1 : z * k + t < kk := by omega
      have h2 : t < 64 := by omega
      simp [ht, h1, h2, Nat.add_assoc]
    · simp [ht]
  refine ⟨?_, fun t ht => by rw [hbit]; simp [ht]⟩
  apply Nat.lt_pow_two_of_testBit
  intro p hp
  rw [hbit]
  have : ¬ p < k := by omega
  simp [this]

/-! ### 3. `_mzd_mul_naive` -/

theorem parityBit_eq (v : Word) : parityBit v = xorRange 64 (fun p => v.getLsbD p) := by
  unfold parityBit MulR.xorRange
  generalize List.range 64 = l
  generalize false = b
  induction l generalizing b with
  | nil => rfl
  | cons x t ih => simp only [List.foldl_cons]; first | done | exact ih _

/-- a sum whose terms vanish from `n` on -/
theorem xorRange_trunc (n m : Nat) (f : Nat → Bool) (hnm : n ≤ m) (h : ∀ t, n ≤ t → t < m → f t = false) :
    xorRange m f = xorRange n f := by
  obtain ⟨d, rfl⟩ := Nat.exists_eq_add_of_le hnm
  rw [MulR.xorRange_add]
  have : xorRange d (fun t => f (n + t)) = false := by
    rw [← xorRange_false d]
    apply xorRange_congr
    intro t ht
    exact h (n + t) (by omega) (by omega)
  rw [this]; simp

/-- exchanging the sum over the 64 bit positions with the sum over the words -/
theorem xorRange_words (W : Nat) (g : Nat → Nat → Bool) :
    xorRange 64 (fun p => xorRange W (fun ii => g ii p)) = xorRange (64 * W) (fun t => g (t / 64) (t % 64)) := by
  induction W with
  | zero =>
    simp only [MulR.xorRange_zero, Nat.mul_zero]
    exact xorRange_false 64
  | succ W ih =>
    have e : 64 * (W + 1) = 64 * W + 64 := by omega
    rw [e, MulR.xorRange_add, ← ih]
    have h1 : (fun p => xorRange (W + 1) (fun ii => g ii p)) =
        fun p => (xorRange W (fun ii => g ii p) != g W p) := by
      funext p; rw [xorRange_succ]
    have h2 : xorRange 64 (fun t => g ((64 * W + t) / 64) ((64 * W + t) % 64)) = xorRange 64 (fun p => g W p) := by
      apply xorRange_congr
      intro p hp
      rw [show (64 * W + p) / 64 = W by omega, show (64 * W + p) % 64 = p by omega]
    rw [h1, xorRange_bne, h2]

/-- bit `p` of `parity[k]`: the sum over the words -/
theorem andWords_getLsbD (a b : Row) (wide p : Nat) :
    (andWords a b wide).getLsbD p =
      xorRange (wide - 1 + 1) (fun ii => (a.w ii).getLsbD p && (b.w ii).getLsbD p) := by
  unfold andWords
  generalize wide - 1 = n
  have key : ∀ (n : Nat) (init : Word),
      ((List.range n).foldl (fun q ii => q ^^^ (a.w (ii + 1) &&& b.w (ii + 1))) init).getLsbD p =
        (init.getLsbD p != xorRange n (fun ii => (a.w (ii + 1)).getLsbD p && (b.w (ii + 1)).getLsbD p)) := by
    intro n
    induction n with
    | zero => intro init; simp
    | succ n ih =>
      intro init
      rw [List.range_succ, List.foldl_append]
      simp only [List.foldl_cons, List.foldl_nil]
      rw [BitVec.getLsbD_xor, ih, xorRange_succ, BitVec.getLsbD_and]
      generalize init.getLsbD p = x
      generalize xorRange n _ = y
      cases x <;> cases y <;> cases (a.w (n + 1)).getLsbD p <;> cases (b.w (n + 1)).getLsbD p <;> rfl
  rw [key, BitVec.getLsbD_and, Nat.add_comm n 1, MulR.xorRange_add]
  simp only [xorRange_succ, MulR.xorRange_zero, Bool.false_bne, Nat.add_comm 1]

/-- the parity of `parity[k]` is the dot product over ALL `64·wide` bit positions of the two rows — the excess
    bits of both rows take part -/
theorem parityBit_andWords (a b : Row) (wide : Nat) :
    parityBit (andWords a b wide) = xorRange (64 * (wide - 1 + 1)) (fun t => Row.bit a t && Row.bit b t) := by
  rw [parityBit_eq]
  have : (fun p => (andWords a b wide).getLsbD p) =
      fun p => xorRange (wide - 1 + 1) (fun ii => (a.w ii).getLsbD p && (b.w ii).getLsbD p) := by
    funext p; exact andWords_getLsbD a b wide p
  rw [this, xorRange_words (wide - 1 + 1) (fun ii p => (a.w ii).getLsbD p && (b.w ii).getLsbD p)]
  rfl

/-- an owned matrix has no set bit beyond its last column, anywhere -/
theorem padZero_bit_ge {M : Mzd} (hM : M.WF) (hp : M.padZero) (i t : Nat) (hi : i < M.nrows) (ht : M.ncols ≤ t) :
    M.bit i t = false := by
  by_cases h : t < 64 * M.width
  · exact hp i t hi ht h
  · exact bit_of_word_ge _ _ _ (by rw [hM.2 i hi]; omega)

/-- **why the padding of `BT` matters**: with `BT` owned (zero padding), the whole-word dot product of a row of
    the view `A` (ARBITRARY excess bits) with a row of `BT` is the dot product of the ENTRIES. -/
theorem parityBit_andWords_rows (A BT : Mzd) (hBT : BT.WF) (hp : BT.padZero) (hl : A.ncols = BT.ncols)
    (i j : Nat) (hj : j < BT.nrows) :
    parityBit (andWords (A.row i) (BT.row j) A.width) = xorRange A.ncols (fun t => A.bit i t && BT.bit j t) := by
  rw [parityBit_andWords]
  apply xorRange_trunc
  · unfold width widthOf; omega
  · intro t ht _
    have : Row.bit (BT.row j) t = false := padZero_bit_ge hBT hp j t hj (by omega)
    rw [this]; simp

theorem mulNaiveTW_clear (C A BT : Mzd) (stale : Nat → Nat → Word) :
    mulNaiveTW C A BT true stale = mulNaiveTW (C.setUi 0) A BT false stale := rfl

theorem mulNaiveTW_WF_noclear (C A BT : Mzd) (stale : Nat → Nat → Word) (hC : C.WF) :
    (mulNaiveTW C A BT false stale).WF := by
  unfold mulNaiveTW
  simp only [Bool.false_eq_true, if_false]
  refine ⟨by simp; exact hC.1, ?_⟩
  intro i hi
  have hi' : i < C.nrows := hi
  rw [row_withRows_mapIdx _ _ _ (by rw [hC.1]; exact hi'), width_withRows, Array.size_mapIdx]
  exact hC.2 i hi'

theorem mulNaiveTW_WF (C A BT : Mzd) (clear : Bool) (stale : Nat → Nat → Word) (hC : C.WF) :
    (mulNaiveTW C A BT clear stale).WF ∧ (mulNaiveTW C A BT clear stale).nrows = C.nrows ∧
      (mulNaiveTW C A BT clear stale).ncols = C.ncols := by
  cases clear
  · exact ⟨mulNaiveTW_WF_noclear C A BT stale hC, rfl, rfl⟩
  · rw [mulNaiveTW_clear]
    exact ⟨mulNaiveTW_WF_noclear _ A BT stale (setUi_WF C 0 hC), nrows_setUi C 0 hC, ncols_setUi C 0 hC⟩

theorem mulNaiveTW_bit_noclear (C A BT : Mzd) (stale : Nat → Nat → Word) (hC : C.WF) (hBT : BT.WF)
    (hc : BT.nrows = C.ncols) (hl : A.ncols = BT.ncols) (hp : BT.padZero)
    (i j : Nat) (hi : i < C.nrows) (hj : j < 64 * C.width) :
    (mulNaiveTW C A BT false stale).bit i j =
      if j < C.ncols then (C.bit i j != xorRange A.ncols (fun t => A.bit i t && BT.bit j t)) else C.bit i j := by
  have hjw : j / 64 < C.width := by omega
  have hq : j % 64 < 64 := Nat.mod_lt _ (by omega)
  have hc0 : 0 < C.ncols := by unfold width widthOf at hjw; omega
  have ej : 64 * (j / 64) + j % 64 = j := by omega
  unfold mulNaiveTW
  simp only [Bool.false_eq_true, if_false]
  rw [bit_def, row_withRows_mapIdx _ _ _ (by rw [hC.1]; exact hi),
    Row.w_mapIdx _ _ _ (by rw [hC.2 i hi]; exact hjw)]
  by_cases h1 : j / 64 < (if C.ncols % 64 ≠ 0 then C.width - 1 else C.width)
  · rw [if_pos h1]
    have hjn : j < C.ncols := by
      unfold width widthOf at h1 hjw
      split at h1 <;> omega
    rw [if_pos hjn, BitVec.getLsbD_xor, parity64_getLsbD _ _ hq, ej,
      parityBit_andWords_rows A BT hBT hp hl i j (by omega)]
    simp [bit_def]
  · rw [if_neg h1]
    have hne : C.ncols % 64 ≠ 0 := by
      intro e
      rw [if_neg (by omega)] at h1
      exact h1 hjw
    rw [if_pos hne] at h1
    have hlast : j / 64 = C.width - 1 := by omega
    simp only [if_pos hne]
    rw [if_pos ⟨hlast, by omega⟩, BitVec.getLsbD_xor, BitVec.getLsbD_and, hb_getLsbD C _ hq hc0,
      parity64_getLsbD _ _ hq]
    have ej2 : 64 * (C.width - 1) + j % 64 = j := by omega
    rw [ej2]
    by_cases hjn : j < C.ncols
    · have hk : j % 64 < C.ncols % 64 := by unfold width widthOf at hlast; omega
      simp only [hjn, if_true, hk, decide_true, Bool.and_true]
      rw [parityBit_andWords_rows A BT hBT hp hl i j (by omega)]
      simp [bit_def]
    · simp [hjn, bit_def]

/-- **(3) `_mzd_mul_naive` on views.**  `A` is a view with ARBITRARY excess bits, `BT` an owned matrix with zero
    padding (it is the fresh transpose made by `mzd_mul_naive`), `C` a view.  One equation for every stored position
    of `C`: inside the matrix `C[i,j] = (clear ? 0 : C[i,j]) ⊕ ⊕_t A[i,t] ∧ BT[j,t]`; the excess bits of `C` are
    unchanged — for every content `stale` of the left-over entries of the `parity` array. -/
theorem mulNaiveTW_bit (C A BT : Mzd) (clear : Bool) (stale : Nat → Nat → Word) (hC : C.WF) (hBT : BT.WF)
    (hc : BT.nrows = C.ncols) (hl : A.ncols = BT.ncols) (hp : BT.padZero)
    (i j : Nat) (hi : i < C.nrows) (hj : j < 64 * C.width) :
    (mulNaiveTW C A BT clear stale).bit i j =
      if j < C.ncols then ((!clear && C.bit i j) != xorRange A.ncols (fun t => A.bit i t && BT.bit j t))
      else C.bit i j := by
  cases clear
  · rw [mulNaiveTW_bit_noclear C A BT stale hC hBT hc hl hp i j hi hj]; simp
  · have hn := nrows_setUi C 0 hC
    have hcc := ncols_setUi C 0 hC
    have hw : (C.setUi 0).width = C.width := by unfold width; rw [hcc]
    rw [mulNaiveTW_clear, mulNaiveTW_bit_noclear (C.setUi 0) A BT stale (setUi_WF C 0 hC) hBT (by rw [hcc]; exact hc)
      hl hp i j (by rw [hn]; exact hi) (by rw [hw]; exact hj), hcc, setUi_bit C 0 hC i j hi hj]
    by_cases hjn : j < C.ncols
    · simp [hjn]
    · simp [hjn]

/-- **(3) `_mzd_mul_naive` = the R-level function through the lens**: entries from `mulNaiveT` on the abstract
    values (hence `(clear ? 0 : C) + A·BTᵀ` by `BMat.mulNaiveT_eq`), excess bits of `C` untouched. -/
theorem mulNaiveTW_spec (C A BT : Mzd) (clear : Bool) (stale : Nat → Nat → Word) (hC : C.WF) (hBT : BT.WF)
    (hc : BT.nrows = C.ncols) (hl : A.ncols = BT.ncols) (hp : BT.padZero) :
    mulNaiveTW C A BT clear stale = C.putB (BMat.mulNaiveT C.toB A.toB BT.toB clear) := by
  obtain ⟨w1, w2, w3⟩ := mulNaiveTW_WF C A BT clear stale hC
  apply eq_putB_of_bit w1 hC w2 w3
  intro i j hi hj
  rw [mulNaiveTW_bit C A BT clear stale hC hBT hc hl hp i j hi hj]
  by_cases hjn : j < C.ncols
  · rw [if_pos hjn, if_pos hjn, BMat.get_mulNaiveT C.toB A.toB BT.toB clear BT.ncols
      (fun j' => by have := (WF_toB hBT).2 j'; simpa using this) (WF_toB hC).1 i j
      (by rw [nrows_toB]; exact hi), get_toB_of_lt C i j hjn, ncols_toB]
    simp only [hjn, decide_true, Bool.true_and]
    congr 1
    rw [hl]
    apply xorRange_congr
    intro t ht
    rw [get_toB_of_lt A i t (by omega), get_toB_of_lt BT j t ht]
  · rw [if_neg hjn, if_neg hjn]

/-- **(3) `padZero BT` is necessary.**  A 1×1 view `A` whose entry is 0 but whose first excess bit is set, and a 1×1
    `BT` with entry 0 and the same excess bit set (not zero-padded): the whole-word AND sees `1·1` at the excess
    position, so the C code computes `C[0,0] = 1`, while the product of the entries is `0`.  All other hypotheses
    of `mulNaiveTW_spec` hold. -/
theorem mulNaiveTW_needs_padZero :
    ∃ C A BT : Mzd, C.WF ∧ A.WF ∧ BT.WF ∧ BT.nrows = C.ncols ∧ A.ncols = BT.ncols ∧ A.toB.get 0 0 = false ∧
      BT.toB.get 0 0 = false ∧ (mulNaiveTW C A BT true).bit 0 0 = true ∧
      (C.putB (BMat.mulNaiveT C.toB A.toB BT.toB true)).bit 0 0 = false := by
  refine ⟨⟨1, 1, #[#[0#64]]⟩, ⟨1, 1, #[#[2#64]]⟩, ⟨1, 1, #[#[2#64]]⟩, ?_, ?_, ?_, rfl, rfl, by decide +kernel, by decide +kernel,
    by decide +kernel, by decide +kernel⟩ <;>
  · refine ⟨rfl, ?_⟩
    intro i hi
    have : i = 0 := by simp at hi; omega
    subst this; rfl

/-- non-vacuity of `mulNaiveTW_spec` and a sanity check: `A` = row 0 of `exM` as a 1×70 view with all excess bits
    set, `BT` an owned 2×70 matrix, `C` a 1×2 view with all 62 excess bits set; they survive -/
example : (mulNaiveTW ⟨1, 2, #[#[0xFFFFFFFFFFFFFFFD#64]]⟩ ⟨1, 70, #[#[0x1#64, 0xFFFFFFFFFFFFFFC1#64]]⟩
      ⟨2, 70, #[#[0x1#64, 0x1#64], #[0x3#64, 0x0#64]]⟩ false (fun _ _ => 0xFFFFFFFFFFFFFFFF#64)).rows
    = #[#[0xFFFFFFFFFFFFFFFF#64]] := by decide +kernel

/-! ### 4b. `_mzd_mul_va` -/

theorem mulVaW_clear (C v A : Mzd) : mulVaW C v A true = mulVaW (C.setUi 0) v A false := rfl

/-- the inner loop of `_mzd_mul_va` on one destination row -/
theorem mulVa_row (A : Mzd) (s : Nat → Bool) (ncols : Nat) (hc0 : 0 < ncols) :
    ∀ (n : Nat) (c : Row), c.size = widthOf ncols →
      ((List.range n).foldl (fun c j =>
          if s j then combineEvenInPlaceWords c (A.row j) 0 0 (widthOf ncols) (leftMask (ncols % 64)) else c) c).size
        = widthOf ncols ∧
      ∀ j, Row.bit ((List.range n).foldl (fun c j =>
          if s j then combineEvenInPlaceWords c (A.row j) 0 0 (widthOf ncols) (leftMask (ncols % 64)) else c) c) j =
        if j < ncols then (Row.bit c j != xorRange n (fun t => s t && A.bit t j)) else Row.bit c j := by
  intro n
  induction n with
  | zero =>
    intro c hc
    refine ⟨hc, fun j => ?_⟩
    simp
  | succ n ih =>
    intro c hc
    obtain ⟨i1, i2⟩ := ih c hc
    rw [List.range_succ, List.foldl_append]
    simp only [List.foldl_cons, List.foldl_nil]
    generalize (List.range n).foldl (fun c j =>
          if s j then combineEvenInPlaceWords c (A.row j) 0 0 (widthOf ncols) (leftMask (ncols % 64)) else c) c = c'
      at i1 i2 ⊢
    by_cases hs : s n = true
    · rw [if_pos hs]
      refine ⟨by rw [combineEvenInPlaceWords_size]; exact i1, fun j => ?_⟩
      rw [combineEvenInPlaceWords_bit c' (A.row n) 0 0 ncols i1 hc0 j, i2 j, xorRange_succ, hs]
      by_cases hjn : j < ncols
      · simp only [Nat.mul_zero, Nat.zero_le, hjn, and_self, if_true, Nat.sub_zero, Nat.add_zero, Bool.true_and]
        rw [← bit_eq_rowBit]
        generalize Row.bit c j = x
        generalize xorRange n _ = y
        cases x <;> cases y <;> cases A.bit n j <;> rfl
      · simp [hjn]
    · rw [if_neg hs]
      refine ⟨i1, fun j => ?_⟩
      have hs' : s n = false := by simpa using hs
      rw [i2 j, xorRange_succ, hs']; simp

theorem mulVaW_WF_noclear (C v A : Mzd) (hC : C.WF) : (mulVaW C v A false).WF := by
  unfold mulVaW
  simp only [Bool.false_eq_true, if_false]
  refine ⟨by simp; exact hC.1, ?_⟩
  intro i hi
  have hi' : i < C.nrows := hi
  rw [row_withRows_mapIdx _ _ _ (by rw [hC.1]; exact hi'), width_withRows]
  split
  · by_cases hc0 : 0 < C.ncols
    · exact (mulVa_row A (fun j => v.readBit i j) C.ncols hc0 v.ncols (C.row i) (hC.2 i hi')).1
    · have hw : C.width = 0 := by unfold width widthOf; omega
      have hsz : (C.row i).size = 0 := by rw [hC.2 i hi', hw]
      have : ∀ (n : Nat) (c : Row), c.size = 0 → ((List.range n).foldl (fun c j =>
          if v.readBit i j = true then combineEvenInPlaceWords c (A.row j) 0 0 C.width C.hb else c) c).size = 0 := by
        intro n
        induction n with
        | zero => intro c hc; exact hc
        | succ n ih =>
          intro c hc
          rw [List.range_succ, List.foldl_append]
          simp only [List.foldl_cons, List.foldl_nil]
          split
          · rw [combineEvenInPlaceWords_size]; exact ih c hc
          · exact ih c hc
      rw [this _ _ hsz, hw]
  · exact hC.2 i hi'

theorem mulVaW_WF (C v A : Mzd) (clear : Bool) (hC : C.WF) :
    (mulVaW C v A clear).WF ∧ (mulVaW C v A clear).nrows = C.nrows ∧ (mulVaW C v A clear).ncols = C.ncols := by
  cases clear
  · exact ⟨mulVaW_WF_noclear C v A hC, rfl, rfl⟩
  · rw [mulVaW_clear]
    exact ⟨mulVaW_WF_noclear _ v A (setUi_WF C 0 hC), nrows_setUi C 0 hC, ncols_setUi C 0 hC⟩

theorem mulVaW_bit_noclear (C v A : Mzd) (hC : C.WF) (hr : C.nrows = v.nrows)
    (i j : Nat) (hi : i < C.nrows) (hj : j < 64 * C.width) :
    (mulVaW C v A false).bit i j =
      if j < C.ncols then (C.bit i j != xorRange v.ncols (fun t => v.bit i t && A.bit t j)) else C.bit i j := by
  have hc0 : 0 < C.ncols := by unfold width widthOf at hj; omega
  unfold mulVaW
  simp only [Bool.false_eq_true, if_false]
  rw [bit_eq_rowBit, row_withRows_mapIdx _ _ _ (by rw [hC.1]; exact hi), if_pos (by omega)]
  exact (mulVa_row A (fun j => v.readBit i j) C.ncols hc0 v.ncols (C.row i) (hC.2 i hi)).2 j

/-- **(4) `_mzd_mul_va` on views**, one equation for every stored position of `C`: entries
    `(clear ? 0 : C[i,j]) ⊕ ⊕_t v[i,t] ∧ A[t,j]`, excess bits of `C` unchanged; `v`, `A`, `C` are views with
    arbitrary excess bits (`mzd_combine_even_in_place` masks the last word with `C->high_bitmask`). -/
theorem mulVaW_bit (C v A : Mzd) (clear : Bool) (hC : C.WF) (hr : C.nrows = v.nrows)
    (i j : Nat) (hi : i < C.nrows) (hj : j < 64 * C.width) :
    (mulVaW C v A clear).bit i j =
      if j < C.ncols then ((!clear && C.bit i j) != xorRange v.ncols (fun t => v.bit i t && A.bit t j))
      else C.bit i j := by
  cases clear
  · rw [mulVaW_bit_noclear C v A hC hr i j hi hj]; simp
  · have hn := nrows_setUi C 0 hC
    have hcc := ncols_setUi C 0 hC
    have hw : (C.setUi 0).width = C.width := by unfold width; rw [hcc]
    rw [mulVaW_clear, mulVaW_bit_noclear (C.setUi 0) v A (setUi_WF C 0 hC) (by rw [hn]; exact hr) i j
      (by rw [hn]; exact hi) (by rw [hw]; exact hj), hcc, setUi_bit C 0 hC i j hi hj]
    by_cases hjn : j < C.ncols
    · simp [hjn]
    · simp [hjn]

/-- **(4) `_mzd_mul_va` = the R-level function through the lens** (hence `(clear ? 0 : C) + v·A` by
    `BMat.mulVa_eq`), excess bits of `C` untouched. -/
theorem mulVaW_spec (C v A : Mzd) (clear : Bool) (hC : C.WF) (hA : A.WF) (hr : C.nrows = v.nrows)
    (hc : C.ncols = A.ncols) :
    mulVaW C v A clear = C.putB (BMat.mulVa C.toB v.toB A.toB clear) := by
  obtain ⟨w1, w2, w3⟩ := mulVaW_WF C v A clear hC
  apply eq_putB_of_bit w1 hC w2 w3
  intro i j hi hj
  rw [mulVaW_bit C v A clear hC hr i j hi hj]
  by_cases hjn : j < C.ncols
  · rw [if_pos hjn, if_pos hjn, BMat.get_mulVa C.toB v.toB A.toB clear (WF_toB hA) (WF_toB hC).1
      (by simpa using hr) (by simpa using hc) i j (by rw [nrows_toB, ← hr]; exact hi), get_toB_of_lt C i j hjn]
    congr 1
    unfold BMat.dotSpec
    rw [ncols_toB]
    apply xorRange_congr
    intro t ht
    rw [get_toB_of_lt v i t ht, get_toB_of_lt A t j (by omega)]
  · rw [if_neg hjn, if_neg hjn]

/-- non-vacuity / sanity: `v` = a 1×3 view, `A = exM` (3×70, all excess bits set), `C` a 1×70 view with all excess
    bits set: `C + v·A`, the 58 excess bits survive -/
example : (mulVaW ⟨1, 70, #[#[0x0#64, 0xFFFFFFFFFFFFFFC0#64]]⟩ ⟨1, 3, #[#[0xFFFFFFFFFFFFFFFD#64]]⟩ exM false).rows
    = #[#[0x5#64, 0xFFFFFFFFFFFFFFE1#64]] := by decide +kernel

/-! ### 4c. `mzd_mul_naive` / `mzd_addmul_naive` (the dispatch for small operands) -/

/-- the masked copy that `mzd_transpose` takes of a dangerous window is the matrix itself when it is owned -/
theorem maskedCopy_of_padZero (B : Mzd) (hB : B.WF) (hp : B.padZero) : Mzd.ofB B.toB = B := ofB_toB hB hp

/-- the naive dispatch on views with ARBITRARY excess bits in `A`, `B`, `C`.  The thin branch transposes the masked
    copy of `B` (`mzd_transpose(NULL, B)` copies a window with a shared last word first), so the excess bits of `B`
    never reach the whole-word ANDs of `_mzd_mul_naive`; the other branch is `_mzd_mul_va`. -/
theorem mulNaiveW_spec (C A B : Mzd) (clear : Bool) (thin : Nat) (stale : Nat → Nat → Word) (hC : C.WF) (hB : B.WF)
    (hr : C.nrows = A.nrows) (hc : C.ncols = B.ncols) (hl : A.ncols = B.nrows) :
    mulNaiveW C A B clear thin stale = C.putB (BMat.mulNaive C.toB A.toB B.toB clear thin) := by
  unfold mulNaiveW BMat.mulNaive
  rw [ncols_toB]
  by_cases ht : B.ncols < thin
  · have hB' : (Mzd.ofB B.toB).WF := WF_ofB _
    have hp' : (Mzd.ofB B.toB).padZero := padZero_ofB _
    have ht' : (Mzd.ofB B.toB).toB = B.toB := toB_ofB (WF_toB hB)
    rw [if_pos ht, if_pos ht, mulNaiveTW_spec C A (Tr.transposeMzd (Mzd.ofB B.toB)) clear stale hC
      (Tr.transposeMzd_WF _)
      (by rw [Tr.transposeMzd_nrows, ncols_ofB, ncols_toB]; exact hc.symm)
      (by rw [Tr.transposeMzd_ncols, nrows_ofB, nrows_toB]; exact hl)
      (Tr.transposeMzd_padZero _ hB' hp'), Tr.transposeMzd_eq_ofB _ hB' hp', ht', toB_ofB (BMat.WF_transpose _)]
  · rw [if_neg ht, if_neg ht, mulVaW_spec C A B clear hC hB hr hc]

/-! ### 4d. the whole of `_mzd_mul_m4rm` -/

/-- the table part of `_mzd_mul_m4rm` (after the dispatch, the clearing and the clipping of `k`), word level -/
def coreW (C A B : Mzd) (k ntables : Nat) (junk : Nat → Nat) : Mzd :=
  let kk := ntables * k
  let end_ := A.ncols / kk
  let st : M4rmState := (C, m4rmTables k B.ncols ntables junk)
  let st := (List.range end_).foldl (fun st i =>
    (List.range ntables).foldl (fun st z =>
      m4rmStepW B st z (m4rmSelMain A (kk * i) kk z k) (kk * i + k * z) k) st) st
  if A.ncols % kk ≠ 0 then
    let lo := kk / k * end_
    let hi := A.ncols / k
    let st := (List.range' lo (hi - lo)).foldl (fun st i =>
      m4rmStepW B st 0 (m4rmSelRest A (k * i) k) (k * i) k) st
    if A.ncols % k ≠ 0 then
      (m4rmStepW B st 0 (m4rmSelRest A (k * (A.ncols / k)) (A.ncols % k)) (k * (A.ncols / k)) (A.ncols % k)).1
    else st.1
  else st.1

/-- the same part of the R-level model `BMat.m4rm` -/
def coreR (C A B : BMat) (k ntables : Nat) (junk : Nat → Nat) : BMat :=
  let kk := ntables * k
  let end_ := A.ncols / kk
  let C := (List.range end_).foldl (fun C i =>
    (List.range ntables).foldl (fun C z => BMat.m4rmPass C A B (kk * i + k * z) k junk) C) C
  if A.ncols % kk ≠ 0 then
    let lo := kk / k * end_
    let hi := A.ncols / k
    let C := (List.range' lo (hi - lo)).foldl (fun C i => BMat.m4rmPass C A B (k * i) k junk) C
    if A.ncols % k ≠ 0 then BMat.m4rmPass C A B (k * (A.ncols / k)) (A.ncols % k) junk else C
  else C

theorem m4rmW_eq_core (C A B : Mzd) (k : Nat) (clear : Bool) (auto : Nat) (junk : Nat → Nat)
    (ntables thin : Nat) (stale : Nat → Nat → Word) :
    m4rmW C A B k clear auto junk ntables thin stale =
      if B.ncols < thin ∨ A.nrows < 16 then mulNaiveW C A B clear thin stale else
        coreW (if clear then C.setUi 0 else C) A B (BMat.m4rmClipK k auto) ntables junk := rfl

theorem m4rm_eq_core (C A B : BMat) (k : Nat) (clear : Bool) (auto : Nat) (junk : Nat → Nat)
    (ntables thin : Nat) :
    BMat.m4rm C A B k clear auto junk ntables thin =
      if B.ncols < thin ∨ A.nrows < 16 then BMat.mulNaive C A B clear thin else
        coreR (if clear then BMat.zero C.nrows C.ncols else C) A B (BMat.m4rmClipK k auto) ntables junk := rfl

/-- the relation between the word-level state (destination + table storage) and the R-level destination -/
structure Rel (C0 B : Mzd) (K ntables : Nat) (st : M4rmState) (R : BMat) : Prop where
  dst : st.1 = C0.putB R
  wf : R.WF
  nrows : R.nrows = C0.nrows
  ncols : R.ncols = C0.ncols
  tsize : st.2.size = ntables
  tok : ∀ z, z < ntables → TableOK B K (st.2.getD z (Mzd.zero 0 0, #[]))

theorem getD_setIfInBounds_pair (a : Array (Mzd × Array Nat)) (i : Nat) (v d : Mzd × Array Nat) (p : Nat) :
    (a.setIfInBounds i v).getD p d = if i = p ∧ p < a.size then v else a.getD p d := by
  simp only [Array.getD_eq_getD_getElem?, Array.getElem?_setIfInBounds]
  by_cases h : i = p
  · subst h
    by_cases h2 : i < a.size <;> simp [h2]
  · simp [h]

/-- one pass keeps the relation -/
theorem m4rmStepW_rel (C0 A B : Mzd) (K ntables : Nat) (junk : Nat → Nat) (hC0 : C0.WF) (hB : B.WF)
    (hcC : C0.ncols = B.ncols) (hl : A.ncols = B.nrows)
    (st : M4rmState) (R : BMat) (h : Rel C0 B K ntables st R)
    (z col kbits : Nat) (sel : Nat → Nat) (hz : z < ntables) (hK : kbits ≤ K) (hr : col + kbits ≤ A.ncols)
    (hsel : ∀ i, sel i < 2 ^ kbits ∧ ∀ t, t < kbits → (sel i).testBit t = A.bit i (col + t)) :
    Rel C0 B K ntables (m4rmStepW B st z sel col kbits) (BMat.m4rmPass R A.toB B.toB col kbits junk) := by
  have hT := h.tok z hz
  have hR : (C0.putB R).toB = R := toB_putB hC0 h.wf h.nrows h.ncols
  refine ⟨?_, ?_, h.nrows, h.ncols, ?_, ?_⟩
  · show (m4rmPassW st.1 sel B col kbits _ _).1 = _
    rw [h.dst, m4rmPassW_spec (C0.putB R) A B sel col kbits K _ junk (WF_putB hC0 R) hB
      (by rw [ncols_putB]; exact hcC) hl hT hK hr (fun i _ => hsel i), hR, putB_putB hC0]
  · exact BMat.WF_m4rmPass R A.toB B.toB col kbits junk (WF_toB hB) h.wf (by rw [h.ncols, hcC]; rfl)
      (by rw [nrows_toB]; omega)
  · show (st.2.setIfInBounds z _).size = ntables
    rw [Array.size_setIfInBounds]; exact h.tsize
  · intro z' hz'
    show TableOK B K ((st.2.setIfInBounds z _).getD z' _)
    rw [getD_setIfInBounds_pair]
    split
    · exact hT.makeTableW col 0 kbits
    · exact h.tok z' hz'

theorem m4rmTables_ok (B : Mzd) (k ntables : Nat) (junk : Nat → Nat) :
    (m4rmTables k B.ncols ntables junk).size = ntables ∧
    ∀ z, z < ntables → TableOK B k ((m4rmTables k B.ncols ntables junk).getD z (Mzd.zero 0 0, #[])) := by
  refine ⟨by simp [m4rmTables], fun z hz => ?_⟩
  have : (m4rmTables k B.ncols ntables junk).getD z (Mzd.zero 0 0, #[]) =
      (Mzd.zero (2 ^ k) B.ncols, (Array.range (2 ^ k)).map junk) := by
    simp [m4rmTables, Array.getD, hz]
  rw [this]
  exact ⟨zero_WF _ _, rfl, Nat.le_refl _, fun j => bit_zero _ _ 0 j, by simp⟩

theorem main_bound (n ntables k i z : Nat) (hi : i < n / (ntables * k)) (hz : z < ntables) :
    ntables * k * i + k * z + k ≤ n ∧ z * k + k ≤ ntables * k := by
  have h1 : (z + 1) * k ≤ ntables * k := Nat.mul_le_mul_right k hz
  rw [Nat.succ_mul] at h1
  have h2 : ntables * k * (i + 1) ≤ ntables * k * (n / (ntables * k)) := Nat.mul_le_mul_left _ hi
  rw [Nat.mul_succ] at h2
  have h3 := Nat.mul_div_le n (ntables * k)
  have h4 : k * z = z * k := Nat.mul_comm k z
  omega

theorem rest_bound (n k i : Nat) (hi : i < n / k) : k * i + k ≤ n := by
  have h2 : k * (i + 1) ≤ k * (n / k) := Nat.mul_le_mul_left _ hi
  rw [Nat.mul_succ] at h2
  have h3 := Nat.mul_div_le n k
  omega

/-- **the table part of `_mzd_mul_m4rm`, word level = R level through the lens** -/
theorem coreW_spec (C A B : Mzd) (k ntables : Nat) (junk junk' : Nat → Nat) (hC : C.WF) (hB : B.WF)
    (hcC : C.ncols = B.ncols) (hl : A.ncols = B.nrows) (hk0 : 0 < k) (hk8 : k ≤ 8) (hnt0 : 0 < ntables)
    (hnt : ntables ≤ 8) :
    coreW C A B k ntables junk = C.putB (coreR C.toB A.toB B.toB k ntables junk') := by
  have hkk : ntables * k ≤ 64 := by
    have := Nat.mul_le_mul hnt hk8
    omega
  have h0 : Rel C B k ntables (C, m4rmTables k B.ncols ntables junk) C.toB :=
    ⟨(putB_toB hC).symm, WF_toB hC, rfl, rfl, (m4rmTables_ok B k ntables junk).1, (m4rmTables_ok B k ntables junk).2⟩
  -- main loop
  have hmain := foldl_rel (Rel C B k ntables) (fun i => i < A.ncols / (ntables * k))
    (fun st i => (List.range ntables).foldl (fun st z =>
      m4rmStepW B st z (m4rmSelMain A (ntables * k * i) (ntables * k) z k) (ntables * k * i + k * z) k) st)
    (fun R i => (List.range ntables).foldl (fun R z =>
      BMat.m4rmPass R A.toB B.toB (ntables * k * i + k * z) k junk') R)
    (fun st R i hi hrel =>
      foldl_rel (Rel C B k ntables) (fun z => z < ntables) _ _
        (fun st R z hz hrel => by
          obtain ⟨b1, b2⟩ := main_bound A.ncols ntables k i z hi hz
          refine m4rmStepW_rel C A B k ntables junk' hC hB hcC hl st R hrel z _ k _ hz (Nat.le_refl _) b1
            (fun i' => ?_)
          obtain ⟨s1, s2⟩ := m4rmSelMain_ok A (ntables * k * i) (ntables * k) z k hkk b2 i'
          refine ⟨s1, fun t ht => ?_⟩
          rw [s2 t ht, Nat.mul_comm z k])
        (List.range ntables) (fun z hz => List.mem_range.mp hz) st R hrel)
    (List.range (A.ncols / (ntables * k))) (fun i hi => List.mem_range.mp hi) _ _ h0
  unfold coreW coreR
  simp only [ncols_toB]
  generalize (List.range (A.ncols / (ntables * k))).foldl _ (C, m4rmTables k B.ncols ntables junk) = st1 at hmain ⊢
  generalize (List.range (A.ncols / (ntables * k))).foldl _ C.toB = R1 at hmain ⊢
  by_cases hrem : A.ncols % (ntables * k) ≠ 0
  · rw [if_pos hrem, if_pos hrem]
    have hrest := foldl_rel (Rel C B k ntables) (fun i => i < A.ncols / k)
      (fun st i => m4rmStepW B st 0 (m4rmSelRest A (k * i) k) (k * i) k)
      (fun R i => BMat.m4rmPass R A.toB B.toB (k * i) k junk')
      (fun st R i hi hrel =>
        m4rmStepW_rel C A B k ntables junk' hC hB hcC hl st R hrel 0 _ k _ hnt0 (Nat.le_refl _)
          (rest_bound A.ncols k i hi) (fun i' => m4rmSelRest_ok A (k * i) k (by omega) i'))
      (List.range' (ntables * k / k * (A.ncols / (ntables * k)))
        (A.ncols / k - ntables * k / k * (A.ncols / (ntables * k))))
      (fun i hi => by
        have := List.mem_range'_1.mp hi
        omega) _ _ hmain
    generalize (List.range' _ _).foldl _ st1 = st2 at hrest ⊢
    generalize (List.range' _ _).foldl _ R1 = R2 at hrest ⊢
    by_cases hlast : A.ncols % k ≠ 0
    · rw [if_pos hlast, if_pos hlast]
      have := m4rmStepW_rel C A B k ntables junk' hC hB hcC hl st2 R2 hrest 0 (k * (A.ncols / k)) (A.ncols % k) _
        hnt0 (Nat.le_of_lt (Nat.mod_lt _ hk0)) (by rw [Nat.div_add_mod]; exact Nat.le_refl _)
        (fun i' => m4rmSelRest_ok A (k * (A.ncols / k)) (A.ncols % k)
          (by have := Nat.mod_lt A.ncols hk0; omega) i')
      exact this.dst
    · rw [if_neg hlast, if_neg hlast]; exact hrest.dst
  · rw [if_neg hrem, if_neg hrem]; exact hmain.dst

/-- `mzd_set_ui(C, 0)` through the lens -/
theorem setUi_zero_eq (C : Mzd) (hC : C.WF) : C.setUi 0 = C.putB (BMat.zero C.nrows C.ncols) := by
  apply eq_putB_of_bit (setUi_WF C 0 hC) hC (nrows_setUi C 0 hC) (ncols_setUi C 0 hC)
  intro i j hi hj
  rw [setUi_bit C 0 hC i j hi hj]
  have : (BMat.zero C.nrows C.ncols).get i j = false := by
    unfold BMat.get; rw [BMat.row_zero]; simp
  simp [this]

/-- **(4, full) `_mzd_mul_m4rm` on views.**  For views `A`, `B`, `C` with ARBITRARY excess bits (also in the case
    `B.ncols < thin`, where the C code transposes a masked copy of `B`), every `k`, every value `auto` of the cache
    heuristic, every heap content `junk` behind the index arrays, every content `stale` of the parity buffer and
    `1 ≤ ntables ≤ 8` tables (so that `kk = ntables·k ≤ 64`, the `assert` of the C code):
    the result is `C.putB` of the R-level result — i.e. its entries are those of `BMat.m4rm` on the abstract values,
    which is `(clear ? 0 : C) + A·B` by `BMat.m4rm_eq`, and the excess bits of `C` are untouched. -/
theorem m4rmW_spec (C A B : Mzd) (k : Nat) (clear : Bool) (auto : Nat) (junk junk' : Nat → Nat)
    (ntables thin : Nat) (stale : Nat → Nat → Word) (hC : C.WF) (hB : B.WF)
    (hr : C.nrows = A.nrows) (hc : C.ncols = B.ncols) (hl : A.ncols = B.nrows)
    (hnt0 : 0 < ntables) (hnt : ntables ≤ 8) :
    m4rmW C A B k clear auto junk ntables thin stale =
      C.putB (BMat.m4rm C.toB A.toB B.toB k clear auto junk' ntables thin) := by
  rw [m4rmW_eq_core, m4rm_eq_core]
  simp only [ncols_toB, nrows_toB]
  by_cases hd : B.ncols < thin ∨ A.nrows < 16
  · rw [if_pos hd, if_pos hd]
    exact mulNaiveW_spec C A B clear thin stale hC hB hr hc hl
  · rw [if_neg hd, if_neg hd]
    have hk := BMat.m4rmClipK_bounds k auto
    cases clear
    · simp only [Bool.false_eq_true, if_false]
      exact coreW_spec C A B _ ntables junk junk' hC hB hc hl (by omega) hk.2 hnt0 hnt
    · simp only [if_true]
      have hz : (BMat.zero C.nrows C.ncols).WF := BMat.WF_zero _ _
      rw [coreW_spec (C.setUi 0) A B _ ntables junk junk' (setUi_WF C 0 hC) hB
        (by rw [ncols_setUi C 0 hC]; exact hc) hl (by omega) hk.2 hnt0 hnt, setUi_zero_eq C hC, putB_putB hC,
        toB_putB hC hz rfl rfl]

/-- **(4, full) the product on views**: entries `(clear ? 0 : C[i,j]) ⊕ ⊕_t A[i,t] ∧ B[t,j]`, excess bits of `C`
    unchanged — `m4rmW_spec` combined with the R-level product theorem `BMat.get_m4rm`. -/
theorem m4rmW_bit (C A B : Mzd) (k : Nat) (clear : Bool) (auto : Nat) (junk : Nat → Nat)
    (ntables thin : Nat) (stale : Nat → Nat → Word) (hC : C.WF) (hB : B.WF)
    (hr : C.nrows = A.nrows) (hc : C.ncols = B.ncols) (hl : A.ncols = B.nrows)
    (hnt0 : 0 < ntables) (hnt : ntables ≤ 8)
    (i j : Nat) (hi : i < C.nrows) (hj : j < 64 * C.width) :
    (m4rmW C A B k clear auto junk ntables thin stale).bit i j =
      if j < C.ncols then ((!clear && C.bit i j) != xorRange A.ncols (fun t => A.bit i t && B.bit t j))
      else C.bit i j := by
  rw [m4rmW_spec C A B k clear auto junk junk ntables thin stale hC hB hr hc hl hnt0 hnt,
    bit_putB C _ hC i j hi hj]
  by_cases hjn : j < C.ncols
  · rw [if_pos hjn, if_pos hjn, BMat.get_m4rm C.toB A.toB B.toB k clear auto junk ntables thin (WF_toB hB)
      (WF_toB hC).1 (by simpa using hr) (by simpa using hc) (by simpa using hl) i j
      (by rw [nrows_toB, ← hr]; exact hi), get_toB_of_lt C i j hjn]
    congr 1
    unfold BMat.dotSpec
    rw [ncols_toB]
    apply xorRange_congr
    intro t ht
    rw [get_toB_of_lt A i t ht, get_toB_of_lt B t j (by omega)]
  · rw [if_neg hjn, if_neg hjn]

/-- **(1) all `2^k` table rows are masked** when the `k` source rows exist and table row 0 is zero (it is never
    written; `mzd_init` made it zero): no set bit, from the home block on, at a position `< c` or `≥ ncols`. -/
theorem makeTableW_masked_all (M : Mzd) (r c k : Nat) (T : Mzd) (L : Array Nat) (hT : T.WF) (hc : T.ncols = M.ncols)
    (hr : r + k ≤ M.nrows) (h0 : ∀ j, c / 64 ≤ j / 64 → T.bit 0 j = false)
    (i : Nat) (hi : i < 2 ^ k) (j : Nat) (hj : j < 64 * M.width) (hhome : c / 64 ≤ j / 64)
    (hout : j < c ∨ M.ncols ≤ j) : (makeTableW M r c k T L).1.bit i j = false := by
  by_cases hi0 : i = 0
  · subst hi0
    rw [bit_eq_rowBit, makeTableW_row_keep M r c k T L hT hc 0 (Or.inl rfl)]
    exact h0 j hhome
  · have hk : 1 ≤ k := by
      rcases Nat.eq_zero_or_pos k with e | e
      · subst e; simp at hi; omega
      · exact e
    have := (buildInc_spec k hk (i - 1) (by omega)).1
    exact makeTableW_masked M r c k T L hT hc i (by omega) hi (by omega) j hj hhome hout

/-! ### non-vacuity of the multiplication theorems: concrete VIEWS with non-zero excess bits -/

/-- 16×4 view, entry row `i` = `i` in binary, all 60 excess bits set -/
def exA : Mzd := ⟨16, 4, (Array.range 16).map fun i => #[BitVec.ofNat 64 i ||| 0xFFFFFFFFFFFFFFF0#64]⟩
/-- 4×60 view, all 4 excess bits set -/
def exB : Mzd := ⟨4, 60, #[#[0xF000000000000001#64], #[0xF800000000000000#64], #[0xF000000000000003#64],
  #[0xF000000000000005#64]]⟩
/-- 16×60 view, excess bits `1010` -/
def exC : Mzd := ⟨16, 60, (Array.range 16).map fun i => #[BitVec.ofNat 64 (i * i) ||| 0xA000000000000000#64]⟩

theorem exA_WF : exA.WF := by
  show _ ∧ ∀ i, i < 16 → _
  decide +kernel
theorem exB_WF : exB.WF := by
  show _ ∧ ∀ i, i < 4 → _
  decide +kernel
theorem exC_WF : exC.WF := by
  show _ ∧ ∀ i, i < 16 → _
  decide +kernel

/-- the hypotheses of `m4rmW_spec` / `m4rmW_bit` hold for these views (`B.ncols = 60 ≥ 54`, 16 rows: the table
    path is taken) … -/
example : exC.WF ∧ exB.WF ∧ exC.nrows = exA.nrows ∧ exC.ncols = exB.ncols ∧ exA.ncols = exB.nrows ∧
    (0 < 8 ∧ 8 ≤ 8) :=
  ⟨exC_WF, exB_WF, rfl, rfl, rfl, by decide⟩

/-- … and a direct evaluation agrees with the theorem: `C + A·B` in the 60 columns, the excess nibble `1010` of
    every row of `C` intact although `A` and `B` carry set excess bits -/
example : (m4rmW exC exA exB 0 false).rows = (exC.putB (BMat.m4rm exC.toB exA.toB exB.toB 0 false)).rows := by
  decide +kernel
example : (m4rmW exC exA exB 0 false).rows.map (fun r => Row.w r 0 >>> 60) = Array.replicate 16 0xA#64 := by
  decide +kernel

/-- the hypotheses of `m4rmPassW_spec` hold: fresh table storage for `K = 2` bits, pass at column 2 -/
example : exC.WF ∧ exB.WF ∧ exC.ncols = exB.ncols ∧ exA.ncols = exB.nrows ∧
    TableOK exB 2 (Mzd.zero 4 60, #[7, 7, 7, 7]) ∧ 2 + 2 ≤ exA.ncols ∧
    ∀ i, m4rmSelRest exA 2 2 i < 2 ^ 2 ∧ ∀ t, t < 2 → (m4rmSelRest exA 2 2 i).testBit t = exA.bit i (2 + t) :=
  ⟨exC_WF, exB_WF, rfl, rfl, ⟨zero_WF _ _, rfl, by decide, fun j => bit_zero _ _ 0 j, by decide⟩, by decide,
    fun i => m4rmSelRest_ok exA 2 2 (by decide) i⟩

/-- the hypotheses of `makeTableW_lookup` / `makeTableW_masked_all` hold for `exM` (3×70, all excess bits set) -/
example : (Mzd.zero 4 70).WF ∧ (Mzd.zero 4 70).ncols = exM.ncols ∧ 1 + 2 ≤ exM.nrows ∧ 2 ^ 2 ≤ (Mzd.zero 4 70).nrows ∧
    2 ^ 2 ≤ (#[9, 9, 9, 9] : Array Nat).size ∧ ∀ j, 0 / 64 ≤ j / 64 → (Mzd.zero 4 70).bit 0 j = false :=
  ⟨zero_WF _ _, rfl, by decide, by decide, by decide, fun j _ => bit_zero _ _ 0 j⟩

/-! ### 2b. `mzd_process_rows` = the R-level `BMat.M4RI.processRows` through the lens -/

theorem bmat_row_setRow (M : BMat) (i v k : Nat) :
    (M.setRow i v).row k = if i = k ∧ k < M.rows.size then v else M.row k := by
  unfold BMat.setRow BMat.row
  exact Gray.getD_setIfInBounds M.rows i v k

/-- a row-wise update loop on rows-as-`Nat` -/
theorem foldl_setRow_rows (φ : Nat → Nat) :
    ∀ (n s : Nat) (M : BMat), s + n ≤ M.rows.size →
      ((List.range' s n).foldl (fun M i => M.setRow i (φ (M.row i))) M).rows.size = M.rows.size ∧
      ((List.range' s n).foldl (fun M i => M.setRow i (φ (M.row i))) M).nrows = M.nrows ∧
      ((List.range' s n).foldl (fun M i => M.setRow i (φ (M.row i))) M).ncols = M.ncols ∧
      ∀ k, ((List.range' s n).foldl (fun M i => M.setRow i (φ (M.row i))) M).row k =
        if s ≤ k ∧ k < s + n then φ (M.row k) else M.row k := by
  intro n
  induction n with
  | zero =>
    intro s M _
    simp only [List.range'_zero, List.foldl_nil]
    exact ⟨trivial, trivial, trivial, fun k => by rw [if_neg (by omega)]⟩
  | succ n ih =>
    intro s M hs
    rw [List.range'_succ, List.foldl_cons]
    have hsz : (M.setRow s (φ (M.row s))).rows.size = M.rows.size := by simp [BMat.setRow]
    obtain ⟨i1, i2, i3, i4⟩ := ih (s + 1) (M.setRow s (φ (M.row s))) (by rw [hsz]; omega)
    refine ⟨i1.trans hsz, i2, i3, fun k => ?_⟩
    rw [i4, bmat_row_setRow]
    by_cases e : k = s
    · subst e
      have h1 : ¬ (k + 1 ≤ k ∧ k < k + 1 + n) := by omega
      have h2 : k ≤ k ∧ k < k + (n + 1) := by omega
      have h3 : k = k ∧ k < M.rows.size := ⟨rfl, by omega⟩
      simp only [h1, h2, h3, and_self, if_true, if_false]
    · have h3 : ¬ (s = k ∧ k < M.rows.size) := fun h => e h.1.symm
      simp only [h3, if_false]
      by_cases h1 : s + 1 ≤ k ∧ k < s + 1 + n
      · have h2 : s ≤ k ∧ k < s + (n + 1) := by omega
        simp only [h1, h2, and_self, if_true]
      · have h2 : ¬ (s ≤ k ∧ k < s + (n + 1)) := by omega
        simp only [h1, h2, if_false]

theorem processRowsR_row (M : BMat) (sr er c k : Nat) (TR L : Array Nat) (her : er ≤ M.rows.size) (i : Nat) :
    (BMat.M4RI.processRows M sr er c k [(k, TR, L)]).row i =
      if sr ≤ i ∧ i < er then M.row i ^^^ TR.getD (L.getD (bitsAt (M.row i) c k) 0) 0 else M.row i := by
  have hstep : (fun (M : BMat) (i : Nat) =>
      let bits := bitsAt (M.row i) c k
      let vz := BMat.M4RI.applyTables [(k, TR, L)] bits
      if ([(k, TR, L)] : List BMat.M4RI.Table).length ≥ 2 && vz.2 then M else M.setRow i (M.row i ^^^ vz.1)) =
      fun M i => M.setRow i ((fun x => x ^^^ TR.getD (L.getD (bitsAt x c k) 0) 0) (M.row i)) := by
    funext M i
    simp [BMat.M4RI.applyTables, Nat.mod_eq_of_lt (MulR.bitsAt_lt _ _ _)]
  unfold BMat.M4RI.processRows
  rw [hstep]
  by_cases hse : sr ≤ er
  · have := (foldl_setRow_rows (fun x => x ^^^ TR.getD (L.getD (bitsAt x c k) 0) 0) (er - sr) sr M (by omega)).2.2.2 i
    rw [this]
    by_cases h : sr ≤ i ∧ i < er
    · rw [if_pos h, if_pos (by omega)]
    · rw [if_neg h, if_neg (by omega)]
  · have : er - sr = 0 := by omega
    rw [this, List.range'_zero, List.foldl_nil, if_neg (by omega)]

theorem processRowsR_shape (M : BMat) (sr er c k : Nat) (TR L : Array Nat) (her : er ≤ M.rows.size) :
    (BMat.M4RI.processRows M sr er c k [(k, TR, L)]).rows.size = M.rows.size := by
  have hstep : (fun (M : BMat) (i : Nat) =>
      let bits := bitsAt (M.row i) c k
      let vz := BMat.M4RI.applyTables [(k, TR, L)] bits
      if ([(k, TR, L)] : List BMat.M4RI.Table).length ≥ 2 && vz.2 then M else M.setRow i (M.row i ^^^ vz.1)) =
      fun M i => M.setRow i ((fun x => x ^^^ TR.getD (L.getD (bitsAt x c k) 0) 0) (M.row i)) := by
    funext M i
    simp [BMat.M4RI.applyTables, Nat.mod_eq_of_lt (MulR.bitsAt_lt _ _ _)]
  unfold BMat.M4RI.processRows
  rw [hstep]
  by_cases hse : sr ≤ er
  · exact (foldl_setRow_rows (fun x => x ^^^ TR.getD (L.getD (bitsAt x c k) 0) 0) (er - sr) sr M (by omega)).1
  · have : er - sr = 0 := by omega
    rw [this, List.range'_zero, List.foldl_nil]

/-- **(2) `mzd_make_table` + `mzd_process_rows` on views = the R-level pass through the lens.**  With the table
    storage zero below the home block (fresh `mzd_init` storage; the R-level table rows are whole numbers, the C
    loops never look below the home block), `startcol + k ≤ ncols` (the `k` bits are read inside the matrix) and
    `stoprow ≤ nrows`:  the processed view is `M.putB` of `BMat.M4RI.processRows` applied to the abstract values —
    entries as in the R-level pass, EXCESS BITS of every row untouched. -/
theorem processRowsW_eq_R (M B : Mzd) (r sr er c k : Nat) (T : Mzd) (L : Array Nat) (h : M.WF) (hT : T.WF)
    (hcT : T.ncols = B.ncols) (hcM : M.ncols = B.ncols) (hk : k ≤ 64) (hck : c + k ≤ M.ncols)
    (her : er ≤ M.nrows) (hr : r + k ≤ B.nrows) (hsz : 2 ^ k ≤ T.nrows) (hL : 2 ^ k ≤ L.size)
    (h0 : ∀ j, T.bit 0 j = false) (hlow : ∀ i j, j / 64 < c / 64 → T.bit i j = false) :
    processRowsW M sr er c k (makeTableW B r c k T L).1 (makeTableW B r c k T L).2 =
      M.putB (BMat.M4RI.processRows M.toB sr er c k
        [(k, (makeTableW B r c k T L).1.toB.rows, (makeTableW B r c k T L).2)]) := by
  have hl := makeTableW_Lookup B r c k T L hT hcT hr hsz hL (fun j _ => h0 j)
  have hw : M.width = B.width := by unfold width; rw [hcM]
  have hncT : (makeTableW B r c k T L).1.ncols = M.ncols := by
    rw [(makeTableW_WF B r c k T L hT hcT).2.2, hcT, hcM]
  apply eq_putB_of_bit (processRowsW_WF M sr er c k _ _ h) h rfl rfl
  intro i j hi hj
  rw [processRowsW_spec M B r sr er c k T L h hT hcT hcM hk hr hsz hL (fun j _ => h0 j) i j hi hj]
  by_cases hjn : j < M.ncols
  · rw [if_pos hjn]
    unfold BMat.get
    rw [processRowsR_row M.toB sr er c k _ _ (by rw [(WF_toB h).1, nrows_toB]; exact her) i]
    by_cases hrow : sr ≤ i ∧ i < er
    · rw [if_pos hrow, Nat.testBit_xor]
      have e1 : (M.toB.row i).testBit j = M.bit i j := by
        have : (M.toB.row i).testBit j = M.toB.get i j := rfl
        rw [this, get_toB_of_lt M i j hjn]
      have e2 : bitsAt (M.toB.row i) c k = (M.readBits i c k).toNat := by
        apply Nat.eq_of_testBit_eq
        intro t
        rw [MulR.testBit_bitsAt, readBits_toNat_testBit _ _ _ _ hk]
        by_cases ht : t < k
        · have : (M.toB.row i).testBit (c + t) = M.toB.get i (c + t) := rfl
          rw [this, get_toB_of_lt M i (c + t) (by omega)]
        · simp [ht]
      have e3 : ∀ x, ((makeTableW B r c k T L).1.toB.rows.getD x 0).testBit j =
          (makeTableW B r c k T L).1.bit x j := by
        intro x
        have : ((makeTableW B r c k T L).1.toB.rows.getD x 0).testBit j = (makeTableW B r c k T L).1.toB.get x j := rfl
        rw [this, get_toB_of_lt _ x j (by rw [hncT]; exact hjn)]
      rw [e1, e2, e3]
      by_cases hcj : c ≤ j
      · rw [if_pos ⟨hrow.1, hrow.2, hcj, hjn⟩,
          hl.bit _ (readBits_toNat_lt M i c k hk) j (by rw [← hw]; exact hj) (by omega), ← hcM]
        simp only [hcj, hjn, and_self, decide_true, Bool.true_and]
        congr 1
        apply xorRange_congr
        intro t ht
        rw [readBits_toNat_testBit _ _ _ _ hk]; simp [ht]
      · rw [if_neg (fun h' => hcj h'.2.2.1)]
        by_cases hjh : j / 64 < c / 64
        · rw [makeTableW_low B r c k T L hT hcT _ j hjh, hlow _ j hjh]; simp
        · rw [hl.bit _ (readBits_toNat_lt M i c k hk) j (by rw [← hw]; exact hj) (by omega)]
          have : ¬ (c ≤ j ∧ j < B.ncols) := fun h' => hcj h'.1
          simp [this]
    · rw [if_neg hrow, if_neg (fun h' => hrow ⟨h'.1, h'.2.1⟩)]
      have : (M.toB.row i).testBit j = M.toB.get i j := rfl
      rw [this, get_toB_of_lt M i j hjn]
  · rw [if_neg hjn, if_neg (fun h' => hjn h'.2.2.2)]

/-- non-vacuity of `processRowsW_eq_R` on `exM` (3×70, all excess bits set) -/
example : exM.WF ∧ (Mzd.zero 4 70).WF ∧ 0 + 2 ≤ exM.ncols ∧ 1 ≤ exM.nrows ∧ 1 + 2 ≤ exM.nrows ∧
    (∀ j, (Mzd.zero 4 70).bit 0 j = false) ∧ (∀ i j, j / 64 < 0 / 64 → (Mzd.zero 4 70).bit i j = false) :=
  ⟨exM_WF, zero_WF _ _, by decide, by decide, by decide, fun j => bit_zero _ _ 0 j, fun i j _ => bit_zero _ _ i j⟩

/-- the thin branch (`B.ncols = 10 < 54`) with a WINDOW `B` whose 54 excess bits are all set, `C` with excess bits
    `0x…AAAC00`-style junk: the hypotheses of `m4rmW_spec` hold, and a direct evaluation agrees with it (the C
    code transposes a masked copy of `B`) -/
def exBthin : Mzd := ⟨4, 10, #[#[0xFFFFFFFFFFFFFC01#64], #[0xFFFFFFFFFFFFFE00#64], #[0xFFFFFFFFFFFFFC03#64],
  #[0xFFFFFFFFFFFFFC05#64]]⟩
def exCthin : Mzd := ⟨16, 10, (Array.range 16).map fun i => #[BitVec.ofNat 64 (i * i) ||| 0xAAAAAAAAAAAAA800#64]⟩
theorem exBthin_WF : exBthin.WF := by
  show _ ∧ ∀ i, i < 4 → _
  decide +kernel
theorem exCthin_WF : exCthin.WF := by
  show _ ∧ ∀ i, i < 16 → _
  decide +kernel
example : exCthin.WF ∧ exBthin.WF ∧ exCthin.nrows = exA.nrows ∧ exCthin.ncols = exBthin.ncols ∧
    exA.ncols = exBthin.nrows ∧ exBthin.ncols < 54 ∧ ¬ exBthin.padZero :=
  ⟨exCthin_WF, exBthin_WF, rfl, rfl, rfl, by decide, fun h => by
    have := h 0 10 (by decide) (by decide) (by decide)
    revert this; decide +kernel⟩
example : (m4rmW exCthin exA exBthin 0 false).rows =
    (exCthin.putB (BMat.m4rm exCthin.toB exA.toB exBthin.toB 0 false)).rows := by
  decide +kernel

end W
end Mzd
end M4ri
