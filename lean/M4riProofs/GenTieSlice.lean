/-
  Tie between four mechanically generated SLICES of `M4ri/Gen/CFuns.lean` (loops cut out of larger C functions)
  and the hand-written model.

  1. `plePermInit`   (`_mzd_ple`, ple.c)   `P[i] = i` on `[nrows, A->nrows)`, `Q[i] = i` on `[0, A->ncols)`:
       `plePermInit_eq'` (arrays at least as long), `plePermInit_eq` (model form: `Q` becomes `Array.range A.ncols`).
  2. `plePermUpdate` (`_mzd_ple`, ple.c)   `P2 += r1; Q2 += n1; Q[r1+k] = Q[n1+k]` through the `mzp_init_window` aliases:
       `plePermUpdate_eq'` (only "every write is inside its array"), `plePermUpdate_eq` (call-site hypotheses),
       `plePermUpdate_model` (in `pleRec`'s own terms: `writeAt … (P2.map (· + r1))`, the `setIfInBounds` fold),
       `qMove_getD` (for `r1 ≤ n1` the sequential move is the parallel copy).
       C and model are BOTH sequential in the third loop, so they agree whenever the writes are in bounds
       (`r1 + r2 ≤ Q.size`); `r1 ≤ n1` is used for nothing else.
  4. `extractLClear` (`mzd_extract_l`, mzd.c) and 3. `extractUClear` (`mzd_extract_u`): the generated loop on `memOf M`
       is `memOf` of the fold of the model's own step (`Mzd.extractLStep` / `Mzd.extractUStep` of W/DataMove.lean):
       `extractLClear_eq'`, `extractUClear_eq'` (weakest shape hypotheses), pointwise `extractLClear_eq`,
       `extractLClear_square`, `extractUClear_eq`, and "clearing the model's copy = the model's function"
       `extractLClear_extractLInto`, `extractUClear_extractUInto`, `…_contract` (`k × k` destination).
-/
import M4ri.Gen.CFuns
import M4ri.Mzd
import M4ri.TrsmRec
import M4riProofs.Basic
import M4riProofs.GenTie
import M4riProofs.GenTieMem
import M4riProofs.GenTieTab
import M4riProofs.W.DataMove
namespace M4ri.GenTieSlice
open M4ri M4ri.Gen M4ri.GenTieMem M4ri.GenTieTab

/-- `dsimp only` / `simp only` without structure eta (a `match` on a loop result stays a `match`) -/
macro "dsm" loc:(Lean.Parser.Tactic.location)? : tactic =>
  `(tactic| dsimp (config := {etaStruct := .none}) only $[$loc]?)

/-! ### 0. one-dimensional write loops -/

/-- memory `m` with the positions `lo ≤ i < lo + k` rewritten through `g` -/
def mapMem (m : Int → Int) (g : Int → Int → Int) (lo : Int) (k : Nat) : Int → Int :=
  fun i => if lo ≤ i ∧ i < lo + (k : Int) then g i (m i) else m i

theorem mapMem_zero (m : Int → Int) (g : Int → Int → Int) (lo : Int) : mapMem m g lo 0 = m := by
  funext i
  unfold mapMem
  rw [if_neg (by omega)]

theorem mapMem_succ (m : Int → Int) (g : Int → Int → Int) (lo : Int) (k : Nat) (z : Int)
    (hz : z = lo + (k : Int)) :
    CLoop.upd1 (mapMem m g lo k) z (g z (mapMem m g lo k z)) = mapMem m g lo (k + 1) := by
  subst hz
  funext i
  unfold CLoop.upd1 mapMem
  by_cases hi : i = lo + (k : Int)
  · subst hi
    rw [if_pos rfl, if_neg (by omega), if_pos (by omega)]
  · rw [if_neg hi]
    by_cases h2 : lo ≤ i ∧ i < lo + (k : Int)
    · rw [if_pos h2, if_pos (by omega)]
    · rw [if_neg h2, if_neg (by omega)]

theorem getD_mapIdx (L : Array Nat) (f : Nat → Nat → Nat) (i : Nat) :
    (L.mapIdx f).getD i 0 = if i < L.size then f i (L.getD i 0) else 0 := by
  by_cases h : i < L.size
  · simp [Array.getD, h]
  · simp [Array.getD, h]

/-- a rewritten range inside the array is a `mapIdx` -/
theorem mapMem_arrMem (L0 L : Array Nat) (g : Int → Int → Int) (g' : Nat → Nat → Nat) (lo n : Nat)
    (hg : ∀ i v : Nat, g (i : Int) (v : Int) = ((g' i v : Nat) : Int)) (h : n = 0 ∨ lo + n ≤ L.size) :
    mapMem (arrMem L0 L) g (lo : Int) n
      = arrMem L0 (L.mapIdx fun i p => if lo ≤ i ∧ i < lo + n then g' i p else p) := by
  funext i
  unfold mapMem arrMem
  by_cases hi : i < 0
  · rw [if_neg (by omega), if_pos hi, if_pos hi]
  · rw [if_neg hi, if_neg hi, getD_mapIdx]
    obtain ⟨j, rfl⟩ : ∃ j : Nat, i = (j : Int) := ⟨i.toNat, by omega⟩
    rw [Int.toNat_natCast]
    by_cases h2 : lo ≤ j ∧ j < lo + n
    · rw [if_pos (by omega), if_pos (by omega), if_pos h2, hg]
    · rw [if_neg (by omega), if_neg h2]
      by_cases h3 : j < L.size
      · rw [if_pos h3]
      · rw [if_neg h3]; simp [Array.getD, h3]

/-- the counting loop `for (k = 0; k < n; ++k) m[lo + k] = g(lo + k, m[lo + k])`, state `(m, z)` with `z = z0 + k` -/
theorem write_loop {cond : (Int → Int) × Int → Bool} {body : (Int → Int) × Int → (Int → Int) × Int}
    {fuel : Nat} {m : Int → Int} {z0 : Int} {res : (Int → Int) × Int}
    (hres : CLoop.loop fuel cond body (m, z0) = res) (g : Int → Int → Int) (lo : Int) (n : Nat)
    (hf : n ≤ fuel)
    (hcond : ∀ (mm : Int → Int) (k : Nat), cond (mm, z0 + (k : Int)) = decide (k < n))
    (hbody : ∀ (mm : Int → Int) (k : Nat), k < n → body (mm, z0 + (k : Int)) =
      (CLoop.upd1 mm (lo + (k : Int)) (g (lo + (k : Int)) (mm (lo + (k : Int)))), z0 + (k : Int) + 1)) :
    res = (mapMem m g lo n, z0 + (n : Int)) := by
  have key := for_loop_eq hres n (fun k st => st = (mapMem m g lo k, z0 + (k : Int))) hf
    (by rw [mapMem_zero]; simp) ?_ ?_
  · exact key
  · intro k st _ hP
    subst hP
    exact hcond _ k
  · intro k st hk hP
    subst hP
    rw [hbody _ k hk, mapMem_succ m g lo k _ rfl]
    congr 1
    omega

/-! ### 1. `plePermInit` -/

/-- `_mzd_ple`: `P[i] = i` for `nrows ≤ i < A->nrows`, `Q[i] = i` for `i < A->ncols`.  Nothing else is written. -/
theorem plePermInit_eq' (P Q : Array Nat) (nrows Anrows Ancols : Nat) (hP : Anrows ≤ P.size)
    (hQ : Ancols ≤ Q.size) :
    Gen.C.plePermInit (arrOf P) (arrOf Q) nrows Anrows Ancols =
      (arrMem P (P.mapIdx fun i p => if nrows ≤ i ∧ i < Anrows then i else p),
       arrMem Q (Q.mapIdx fun i q => if i < Ancols then i else q)) := by
  unfold Gen.C.plePermInit
  dsm
  generalize hres : CLoop.loop _ _ _ _ = res
  generalize hres2 : CLoop.loop _ _ _ _ = res2
  have k1 := write_loop hres (fun i _ => i) (nrows : Int) (Anrows - nrows) (by simp)
    (by intro mm k; dsimp only; rw [decide_eq_decide]; omega)
    (by intro mm k hk; rfl)
  have k2 := write_loop hres2 (fun i _ => i) (0 : Int) Ancols (by simp)
    (by intro mm k; dsimp only; rw [decide_eq_decide]; omega)
    (by intro mm k hk; dsimp only)
  subst k1 k2
  dsimp only
  rw [arrOf_eq_arrMem, arrOf_eq_arrMem,
    mapMem_arrMem P P (fun i _ => i) (fun i _ => i) nrows (Anrows - nrows) (fun _ _ => rfl) (by omega)]
  have := mapMem_arrMem Q Q (fun i _ => i) (fun i _ => i) 0 Ancols (fun _ _ => rfl) (by omega)
  rw [Int.natCast_zero] at this
  rw [this]
  congr 2
  · congr 1; funext i p
    by_cases h : nrows ≤ i ∧ i < Anrows
    · rw [if_pos h, if_pos (by omega)]
    · rw [if_neg h, if_neg (by omega)]
  · congr 1; funext i q
    by_cases h : i < Ancols
    · rw [if_pos h, if_pos (by omega)]
    · rw [if_neg h, if_neg (by omega)]

/-- `plePermInit` in the model's terms (`P`, `Q` have exactly `A->nrows`, `A->ncols` entries): `Q` becomes
    `Array.range A.ncols`, `P` is kept below `nrows` and becomes the identity from `nrows` on -/
theorem plePermInit_eq (P Q : Array Nat) (nrows Anrows Ancols : Nat) (hP : P.size = Anrows)
    (hQ : Q.size = Ancols) (_hn : nrows ≤ Anrows) :
    Gen.C.plePermInit (arrOf P) (arrOf Q) nrows Anrows Ancols =
      (arrMem P (P.mapIdx fun i p => if nrows ≤ i then i else p), arrMem Q (Array.range Ancols)) := by
  rw [plePermInit_eq' P Q nrows Anrows Ancols (by omega) (by omega)]
  congr 2
  · apply Array.ext
    · simp
    · intro i h1 h2
      simp only [Array.size_mapIdx] at h1
      simp only [Array.getElem_mapIdx]
      by_cases h : nrows ≤ i
      · rw [if_pos ⟨h, by omega⟩, if_pos h]
      · rw [if_neg (by omega), if_neg h]
  · apply Array.ext
    · simp [hQ]
    · intro i h1 h2
      simp only [Array.size_mapIdx] at h1
      simp only [Array.getElem_mapIdx, Array.getElem_range]
      rw [if_pos (by omega)]

/-- the part of `P` that matters to `pleRec` (positions `≥ nrows`) is that of `Array.range A.nrows`;
    below `nrows` the old contents are kept -/
theorem plePermInit_P_getD (P : Array Nat) (nrows i : Nat) :
    (P.mapIdx fun i p => if nrows ≤ i then i else p).getD i 0 =
      if nrows ≤ i then (Array.range P.size).getD i 0 else P.getD i 0 := by
  rw [getD_mapIdx]
  by_cases h : i < P.size
  · by_cases h2 : nrows ≤ i
    · simp [Array.getD, h, h2]
    · simp [h, h2]
  · by_cases h2 : nrows ≤ i
    · simp [Array.getD, h, h2]
    · simp [Array.getD, h, h2]

/-! ### 2. `plePermUpdate` -/

theorem write_loop3 {cond : (Int → Int) × Int × Int → Bool}
    {body : (Int → Int) × Int × Int → (Int → Int) × Int × Int}
    {fuel : Nat} {m : Int → Int} {a0 b0 : Int} {res : (Int → Int) × Int × Int}
    (hres : CLoop.loop fuel cond body (m, a0, b0) = res) (g : Int → Int → Int) (lo : Int) (n : Nat)
    (hf : n ≤ fuel)
    (hcond : ∀ (mm : Int → Int) (k : Nat), cond (mm, a0 + (k : Int), b0 + (k : Int)) = decide (k < n))
    (hbody : ∀ (mm : Int → Int) (k : Nat), k < n → body (mm, a0 + (k : Int), b0 + (k : Int)) =
      (CLoop.upd1 mm (lo + (k : Int)) (g (lo + (k : Int)) (mm (lo + (k : Int)))),
        a0 + (k : Int) + 1, b0 + (k : Int) + 1)) :
    res = (mapMem m g lo n, a0 + (n : Int), b0 + (n : Int)) := by
  have key := for_loop_eq hres n
    (fun k st => st = (mapMem m g lo k, a0 + (k : Int), b0 + (k : Int))) hf
    (by rw [mapMem_zero]; simp) ?_ ?_
  · exact key
  · intro k st _ hP
    subst hP
    exact hcond _ k
  · intro k st hk hP
    subst hP
    rw [hbody _ k hk, mapMem_succ m g lo k _ rfl]
    have e1 : a0 + (k : Int) + 1 = a0 + ((k + 1 : Nat) : Int) := by omega
    have e2 : b0 + (k : Int) + 1 = b0 + ((k + 1 : Nat) : Int) := by omega
    rw [e1, e2]

/-- the third loop of the bookkeeping, as the model writes it: `Q[r1 + k] = Q[n1 + k]` for `k = 0 … n-1`, in this order -/
def qMove (Q : Array Nat) (r1 n1 n : Nat) : Array Nat :=
  (List.range n).foldl (fun Q k => Q.setIfInBounds (r1 + k) (Q.getD (n1 + k) 0)) Q

theorem qMove_succ (Q : Array Nat) (r1 n1 n : Nat) :
    qMove Q r1 n1 (n + 1) = (qMove Q r1 n1 n).setIfInBounds (r1 + n) ((qMove Q r1 n1 n).getD (n1 + n) 0) := by
  simp [qMove, List.range_succ]

theorem qMove_size (Q : Array Nat) (r1 n1 n : Nat) : (qMove Q r1 n1 n).size = Q.size := by
  induction n with
  | zero => rfl
  | succ n ih => rw [qMove_succ, Array.size_setIfInBounds, ih]

theorem arrMem_nat (L0 L : Array Nat) (i : Nat) (z : Int) (hz : z = (i : Int)) :
    arrMem L0 L z = ((L.getD i 0 : Nat) : Int) := by
  subst hz
  unfold arrMem
  rw [if_neg (by omega), Int.toNat_natCast]

/-- `_mzd_ple`, the permutation bookkeeping after the second recursive call (weakest hypotheses: every written
    index is inside its array; `r1 ≤ nrows`, `n1 ≤ ncols`, `n1 + r2 ≤ ncols`, `r1 ≤ n1` are not needed here) -/
theorem plePermUpdate_eq' (P Q : Array Nat) (r1 n1 nrows ncols r2 : Nat)
    (hP : nrows ≤ r1 ∨ nrows ≤ P.size) (hQ : ncols ≤ n1 ∨ ncols ≤ Q.size) (hW : r2 = 0 ∨ r1 + r2 ≤ Q.size) :
    Gen.C.plePermUpdate (arrOf P) (arrOf Q) r1 n1 nrows ncols r2 =
      (arrMem P (P.mapIdx fun i p => if r1 ≤ i ∧ i < nrows then p + r1 else p),
       arrMem Q (qMove (Q.mapIdx fun i q => if n1 ≤ i ∧ i < ncols then q + n1 else q) r1 n1 r2)) := by
  unfold Gen.C.plePermUpdate
  dsm
  generalize hres : CLoop.loop _ _ _ _ = res
  generalize hres2 : CLoop.loop _ _ _ _ = res2
  have k1 := write_loop hres (fun _ v => v + (r1 : Int)) (r1 : Int) (nrows - r1) (by simp)
    (by intro mm k; dsimp only; rw [decide_eq_decide]; omega)
    (by intro mm k hk; dsimp only; simp only [Int.zero_add])
  have k2 := write_loop3 hres2 (fun _ v => v + (n1 : Int)) (n1 : Int) (ncols - n1) (by simp)
    (by intro mm k; dsimp only; rw [decide_eq_decide]; omega)
    (by intro mm k hk; dsimp only; simp only [Int.zero_add])
  subst k1 k2
  dsm
  rw [arrOf_eq_arrMem, arrOf_eq_arrMem,
    mapMem_arrMem P P (fun _ v => v + (r1 : Int)) (fun _ v => v + r1) r1 (nrows - r1)
      (fun _ _ => by omega) (by omega),
    mapMem_arrMem Q Q (fun _ v => v + (n1 : Int)) (fun _ v => v + n1) n1 (ncols - n1)
      (fun _ _ => by omega) (by omega)]
  have eP : (P.mapIdx fun i p => if r1 ≤ i ∧ i < r1 + (nrows - r1) then p + r1 else p)
      = (P.mapIdx fun i p => if r1 ≤ i ∧ i < nrows then p + r1 else p) := by
    congr 1; funext i p
    by_cases h : r1 ≤ i ∧ i < nrows
    · rw [if_pos h, if_pos (by omega)]
    · rw [if_neg h, if_neg (by omega)]
  have eQ : (Q.mapIdx fun i q => if n1 ≤ i ∧ i < n1 + (ncols - n1) then q + n1 else q)
      = (Q.mapIdx fun i q => if n1 ≤ i ∧ i < ncols then q + n1 else q) := by
    congr 1; funext i q
    by_cases h : n1 ≤ i ∧ i < ncols
    · rw [if_pos h, if_pos (by omega)]
    · rw [if_neg h, if_neg (by omega)]
  rw [eP, eQ]
  generalize (Q.mapIdx fun i q => if n1 ≤ i ∧ i < ncols then q + n1 else q) = Q1 at *
  have hQ1 : Q1.size = Q.size := by subst_vars; simp
  generalize hres3 : CLoop.loop _ _ _ _ = res3
  have key := for_loop_eq hres3 r2
    (fun k st => st = (arrMem Q (qMove Q1 r1 n1 k), (n1 : Int) + (k : Int), (r1 : Int) + (k : Int)))
    (by simp) (by simp [qMove]) ?_ ?_
  · subst key
    rfl
  · intro k st _ hP
    subst hP
    dsimp only
    rw [decide_eq_decide]
    omega
  · intro k st hk hP
    subst hP
    dsimp only
    rw [arrMem_nat Q _ (n1 + k) _ (by omega)]
    have e : (r1 : Int) + (k : Int) = ((r1 + k : Nat) : Int) := by omega
    rw [e, upd1_arrMem Q _ (r1 + k) _ (by rw [qMove_size]; omega), qMove_succ]
    congr 2 <;> omega

/-- `plePermUpdate` under the hypotheses of the call site in `_mzd_ple` (`r1 ≤ n1`: the rank of the left block is at
    most its width; it is used only to keep the writes `Q[r1 + k]` inside the array) -/
theorem plePermUpdate_eq (P Q : Array Nat) (r1 n1 nrows ncols r2 : Nat)
    (_h1 : r1 ≤ nrows) (h2 : nrows ≤ P.size) (_h3 : n1 ≤ ncols) (h4 : ncols ≤ Q.size) (h5 : r1 ≤ n1)
    (h6 : n1 + r2 ≤ ncols) :
    Gen.C.plePermUpdate (arrOf P) (arrOf Q) r1 n1 nrows ncols r2 =
      (arrMem P (P.mapIdx fun i p => if r1 ≤ i ∧ i < nrows then p + r1 else p),
       arrMem Q ((List.range r2).foldl (fun Q k => Q.setIfInBounds (r1 + k) (Q.getD (n1 + k) 0))
         (Q.mapIdx fun i q => if n1 ≤ i ∧ i < ncols then q + n1 else q))) :=
  plePermUpdate_eq' P Q r1 n1 nrows ncols r2 (Or.inr h2) (Or.inr h4) (Or.inr (by omega))

/-- adding `off` on the window `[off, hi)` of an array into which `W` was written through the window is writing
    `W.map (· + off)` through the window (`pleRec`: `P := writeAt P r1 (P2.map (· + r1))`) -/
theorem mapIdx_writeAt (P0 W : Array Nat) (off hi : Nat) (hW : W.size = hi - off) :
    ((BMat.Rec.writeAt P0 off W).mapIdx fun i p => if off ≤ i ∧ i < hi then p + off else p)
      = BMat.Rec.writeAt P0 off (W.map (· + off)) := by
  unfold BMat.Rec.writeAt
  apply Array.ext
  · simp
  · intro i h1 h2
    simp only [Array.size_mapIdx] at h1
    simp only [Array.getElem_mapIdx, Array.size_map]
    by_cases h : off ≤ i ∧ i < hi
    · have hlt : i - off < W.size := by omega
      rw [if_pos h, if_pos (by omega), if_pos (by omega)]
      simp [Array.getD, hlt]
    · rw [if_neg h, if_neg (by omega), if_neg (by omega)]

/-- `plePermUpdate` in the model's own terms: the sub-call has written `P2`, `Q2` through the windows
    (`P = writeAt P0 r1 P2`, `Q = writeAt Q0 n1 Q2`); the result is `pleRec`'s `P`, `Q` -/
theorem plePermUpdate_model (P0 Q0 P2 Q2 : Array Nat) (r1 n1 nrows ncols r2 : Nat)
    (hP2 : P2.size = nrows - r1) (hQ2 : Q2.size = ncols - n1)
    (h1 : r1 ≤ nrows) (h2 : nrows ≤ P0.size) (h3 : n1 ≤ ncols) (h4 : ncols ≤ Q0.size) (h5 : r1 ≤ n1)
    (h6 : n1 + r2 ≤ ncols) :
    Gen.C.plePermUpdate (arrOf (BMat.Rec.writeAt P0 r1 P2)) (arrOf (BMat.Rec.writeAt Q0 n1 Q2))
        r1 n1 nrows ncols r2 =
      (arrMem (BMat.Rec.writeAt P0 r1 P2) (BMat.Rec.writeAt P0 r1 (P2.map (· + r1))),
       arrMem (BMat.Rec.writeAt Q0 n1 Q2)
         ((List.range r2).foldl (fun Q k => Q.setIfInBounds (r1 + k) (Q.getD (n1 + k) 0))
           (BMat.Rec.writeAt Q0 n1 (Q2.map (· + n1))))) := by
  rw [plePermUpdate_eq _ _ r1 n1 nrows ncols r2 h1 (by simp [BMat.Rec.writeAt]; exact h2) h3
    (by simp [BMat.Rec.writeAt]; exact h4) h5 h6,
    mapIdx_writeAt P0 P2 r1 nrows hP2, mapIdx_writeAt Q0 Q2 n1 ncols hQ2]

/-- for `r1 ≤ n1` (the algorithm's domain) the sequential loop `Q[r1 + k] = Q[n1 + k]` never reads a position it
    has already written: it is the parallel copy -/
theorem qMove_getD (Q : Array Nat) (r1 n1 n : Nat) (h : r1 ≤ n1) (hs : r1 + n ≤ Q.size) (i : Nat) :
    (qMove Q r1 n1 n).getD i 0 =
      if r1 ≤ i ∧ i < r1 + n then Q.getD (n1 + (i - r1)) 0 else Q.getD i 0 := by
  induction n generalizing i with
  | zero => rw [if_neg (by omega)]; rfl
  | succ n ih =>
    rw [qMove_succ]
    have hsz := qMove_size Q r1 n1 n
    by_cases hi : i = r1 + n
    · subst hi
      rw [if_pos (by omega)]
      have : r1 + n < (qMove Q r1 n1 n).size := by omega
      simp only [Array.getD_eq_getD_getElem?, Array.getElem?_setIfInBounds_self_of_lt this, Option.getD_some]
      have := ih (by omega) (n1 + n)
      simp only [Array.getD_eq_getD_getElem?] at this
      rw [this, if_neg (by omega)]
      congr 3; omega
    · have hne : r1 + n ≠ i := fun e => hi e.symm
      simp only [Array.getD_eq_getD_getElem?, Array.getElem?_setIfInBounds_ne hne]
      have := ih (by omega) i
      simp only [Array.getD_eq_getD_getElem?] at this
      rw [this]
      by_cases h2 : r1 ≤ i ∧ i < r1 + n
      · rw [if_pos h2, if_pos (by omega)]
      · rw [if_neg h2, if_neg (by omega)]

/-- outside the domain (`r1 > n1`, overlapping ranges) the sequential loop differs from the parallel copy —
    but the generated C and the model are both sequential and still agree (`plePermUpdate_eq'`) -/
example : qMove #[0, 1, 2] 1 0 2 = #[0, 0, 0] := by decide

/-! ### 4. `extractLClear` -/

/-- one row of the loop of `mzd_extract_l`, after the `mzd_clear_bits`: the zeroing loop and the `|= keep` -/
theorem lStep_mem (L : Mzd) (i : Nat) (hwf : L.WF) (hi : i < L.nrows) (hw : i + 1 < 64 * L.width)
    {cond : (Int → Int → BitVec 64) × Int → Bool}
    {body : (Int → Int → BitVec 64) × Int → (Int → Int → BitVec 64) × Int} {fuel : Nat}
    {res : (Int → Int → BitVec 64) × Int}
    (hres : CLoop.loop fuel cond body
      (memOf (L.clearBits i (i + 1) (64 - (i + 1) % 64)), ((i / 64 + 1 : Nat) : Int)) = res)
    (hf : L.width ≤ fuel)
    (hcond : ∀ st, cond st = decide (st.2 < (L.width : Int)))
    (hbody : ∀ st, body st = (CLoop.upd2 st.1 (i : Int) ((0 : Int) + st.2) (0#64), st.2 + 1)) :
    CLoop.upd2 res.1 (i : Int) ((0 : Int) + ((L.width : Int) - 1))
        (res.1 (i : Int) ((0 : Int) + ((L.width : Int) - 1)) ||| ((L.row i).w (L.width - 1) &&& ~~~L.hb))
      = memOf (Mzd.extractLStep L i) := by
  have hW := Mzd.clearBits_WF_D L i (i + 1) (64 - (i + 1) % 64) hwf hi
  generalize hL1 : L.clearBits i (i + 1) (64 - (i + 1) % 64) = L1 at hres hW
  have hw1 : L1.width = L.width := by subst hL1; rfl
  have hn1 : L1.nrows = L.nrows := by subst hL1; rfl
  have hsz : (L1.row i).size = L.width := by rw [← hw1]; exact hW.2 i (by omega)
  have key := for_loop_eq hres (L.width - (i / 64 + 1))
    (fun k st => st.2 = ((i / 64 + 1 : Nat) : Int) + (k : Int) ∧
      st.1 = zeroMem (memOf L1) i (i / 64 + 1) k)
    (by omega) ⟨by simp, (zeroMem_zero _ _ _).symm⟩ ?_ ?_
  · obtain ⟨m, j⟩ := res
    obtain ⟨k1, k2⟩ := key
    dsimp only at k1 k2 ⊢
    subst k1 k2
    clear hres
    have e : (0 : Int) + ((L.width : Int) - 1) = ((L.width - 1 : Nat) : Int) := by omega
    rw [e]
    have hstep : Mzd.extractLStep L i = L1.setRow i ((L1.row i).mapIdx fun j w =>
        let w := if j ≥ i / 64 + 1 ∧ j < L.width then 0 else w
        if j + 1 = L.width then w ||| ((L.row i).w (L.width - 1) &&& ~~~L.hb) else w) := by
      unfold Mzd.extractLStep
      simp only []
      rw [if_pos (by omega), hL1, hw1]
    rw [hstep]
    apply eq_memOf_setRow _ _ _ (by rw [hW.1, hn1]; exact hi)
    · intro k
      simp only [upd2_apply, zeroMem, memOf_nat, Row.w_mapIdx', hsz, true_and]
      by_cases hk : k < L.width
      · by_cases hkw : k = L.width - 1
        · subst hkw
          by_cases hz : L.width - 1 ≥ i / 64 + 1
          · ifs_omega; rfl
          · ifs_omega
        · by_cases hz : k ≥ i / 64 + 1
          · ifs_omega; rfl
          · ifs_omega
      · rw [Row.w_of_ge (L1.row i) k (by omega)]
        ifs_omega
    · intro z hz
      simp only [upd2_apply, zeroMem, true_and]
      rw [if_neg (by omega), if_neg (by omega), memOf_neg _ _ _ hz]
    · intro r' i' hr'
      simp only [upd2_apply, zeroMem]
      rw [if_neg (by omega), if_neg (by omega)]
  · intro k st hk hP
    rw [hcond, hP.1, decide_eq_decide]
    omega
  · intro k st hk hP
    obtain ⟨m, j⟩ := st
    obtain ⟨k1, k2⟩ := hP
    dsimp only at k1 k2
    subst k1 k2
    rw [hbody]
    refine ⟨by dsimp only; omega, ?_⟩
    exact zeroMem_succ _ _ _ _

/-- the matrix after `n` iterations of the loop of `mzd_extract_l` (the model's own step function) -/
def lIter (L : Mzd) (n : Nat) : Mzd := (List.range n).foldl Mzd.extractLStep L

theorem lIter_succ (L : Mzd) (n : Nat) : lIter L (n + 1) = Mzd.extractLStep (lIter L n) n := by
  simp [lIter, List.range_succ]

theorem lIter_shape (L : Mzd) (hwf : L.WF) (n : Nat) (hn : n ≤ L.nrows) :
    (lIter L n).WF ∧ (lIter L n).nrows = L.nrows ∧ (lIter L n).ncols = L.ncols := by
  induction n with
  | zero => exact ⟨hwf, rfl, rfl⟩
  | succ n ih =>
    obtain ⟨h1, h2, h3⟩ := ih (by omega)
    rw [lIter_succ]
    obtain ⟨k1, k2, k3, _⟩ := Mzd.extractLStep_spec (lIter L n) n h1 (by omega)
    exact ⟨k1, by rw [k2, h2], by rw [k3, h3]⟩

theorem extractLClear_eq' (L : Mzd) (hwf : L.WF) (hsq : L.nrows ≤ 1 ∨ L.nrows ≤ 64 * L.width) :
    Gen.C.extractLClear (memOf L) L.nrows L.width L.hb = memOf (lIter L (L.nrows - 1)) := by
  unfold Gen.C.extractLClear
  dsm
  generalize hres : CLoop.loop _ _ _ _ = res
  have key := for_loop_eq hres (L.nrows - 1) (fun k st => st = (memOf (lIter L k), (k : Int)))
    (by simp) rfl ?_ ?_
  · subst key; rfl
  · intro k st _ hP
    subst hP
    dsimp only
    rw [decide_eq_decide]
    omega
  · intro k st hk hP
    subst hP
    clear hres
    obtain ⟨s1, s2, s3⟩ := lIter_shape L hwf k (by omega)
    rw [lIter_succ]
    generalize lIter L k = Lk at s1 s2 s3 ⊢
    have hwk : Lk.width = L.width := width_of_ncols s3
    have hbk : Lk.hb = L.hb := hb_of_ncols s3
    rw [← hwk, ← hbk]
    dsm
    have hx : k < Lk.nrows := by omega
    have hkw : k + 1 < 64 * Lk.width := by rw [hwk]; omega
    have e1 : (k : Int) + 1 = ((k + 1 : Nat) : Int) := by omega
    rw [e1, tmod_nat, tdiv_nat]
    have e2 : (64 : Int) - (((k + 1) % 64 : Nat) : Int) = ((64 - (k + 1) % 64 : Nat) : Int) := by omega
    rw [e2, if_pos (by rw [decide_eq_true_eq]; omega),
      mzdClearBits_eq Lk k (k + 1) (64 - (k + 1) % 64) s1 hx (by omega) (by omega)]
    have e3 : ((k / 64 : Nat) : Int) + 1 = ((k / 64 + 1 : Nat) : Int) := by omega
    rw [e3, memOf_nat' Lk k (Lk.width - 1) _ (by omega)]
    generalize hres2 : CLoop.loop _ _ _ _ = res2
    have := lStep_mem Lk k s1 hx hkw hres2 (by simp) (fun _ => rfl) (fun _ => rfl)
    obtain ⟨m, j⟩ := res2
    dsm
    rw [← this]

/-- pointwise description of the cleared matrix: rows `0 … nrows-2` lose their entries right of the diagonal
    (columns `< ncols` only: the excess bits of the last word are kept), the last row and everything else is unchanged -/
theorem lIter_spec (L : Mzd) (hwf : L.WF) :
    (lIter L (L.nrows - 1)).WF ∧ (lIter L (L.nrows - 1)).nrows = L.nrows ∧
    (lIter L (L.nrows - 1)).ncols = L.ncols ∧
    ∀ i j, i < L.nrows → j < 64 * L.width →
      (lIter L (L.nrows - 1)).bit i j =
        if i + 1 < L.nrows ∧ i < j ∧ j < L.ncols then false else L.bit i j := by
  have key := Mzd.rowFold_spec Mzd.extractLStep L.nrows L.ncols
    (fun r c b => if r < c ∧ c < L.ncols then false else b)
    (by
      intro M i hM h1 h2 hi
      have := Mzd.extractLStep_spec M i hM (by omega)
      unfold Mzd.width at this
      rw [h1, h2] at this
      exact this)
    L hwf rfl rfl (L.nrows - 1) (by omega)
  obtain ⟨k1, k2, k3, k4⟩ := key
  refine ⟨k1, k2, k3, ?_⟩
  intro i j hi hj
  have := k4 i j hi hj
  unfold lIter
  rw [this]
  by_cases h : i < L.nrows - 1
  · rw [if_pos h]
    by_cases h2 : i < j ∧ j < L.ncols
    · rw [if_pos h2, if_pos ⟨by omega, h2⟩]
    · rw [if_neg h2, if_neg (fun e => h2 e.2)]
  · rw [if_neg h, if_neg (by omega)]

/-- `mzd_extract_l`, the clearing loop, for a matrix with at most as many rows as columns (so that every cleared
    bit is inside the row): the result is the image of a well-formed matrix of the same shape; in the rows
    `i < nrows - 1` the entries `i < j < ncols` are zero, everything else (entries left of / on the diagonal, the
    excess bits `j ≥ ncols`, and the whole LAST row, which the loop does not visit) is as in `L` -/
theorem extractLClear_eq (L : Mzd) (hwf : L.WF) (hsq : L.nrows ≤ L.ncols) :
    ∃ L' : Mzd, Gen.C.extractLClear (memOf L) L.nrows L.width L.hb = memOf L' ∧
      L'.WF ∧ L'.nrows = L.nrows ∧ L'.ncols = L.ncols ∧
      ∀ i j, i < L.nrows → j < 64 * L.width →
        L'.bit i j = if i + 1 < L.nrows ∧ i < j ∧ j < L.ncols then false else L.bit i j := by
  have hw : L.nrows ≤ 64 * L.width := by unfold Mzd.width widthOf; omega
  obtain ⟨k1, k2, k3, k4⟩ := lIter_spec L hwf
  exact ⟨lIter L (L.nrows - 1), extractLClear_eq' L hwf (Or.inr hw), k1, k2, k3, k4⟩

/-- the C precondition (`L` is `k × k`): lower triangle with diagonal kept, strictly upper triangle zero,
    excess bits unchanged -/
theorem extractLClear_square (L : Mzd) (hwf : L.WF) (hsq : L.nrows = L.ncols) :
    ∃ L' : Mzd, Gen.C.extractLClear (memOf L) L.nrows L.width L.hb = memOf L' ∧
      L'.WF ∧ L'.nrows = L.nrows ∧ L'.ncols = L.ncols ∧
      ∀ i j, i < L.nrows → j < 64 * L.width →
        L'.bit i j = if j < L.ncols then (decide (j ≤ i) && L.bit i j) else L.bit i j := by
  obtain ⟨L', h0, h1, h2, h3, h4⟩ := extractLClear_eq L hwf (by omega)
  refine ⟨L', h0, h1, h2, h3, ?_⟩
  intro i j hi hj
  rw [h4 i j hi hj]
  by_cases hj' : j < L.ncols
  · by_cases hij : j ≤ i
    · rw [if_neg (by omega), if_pos hj']; simp [hij]
    · rw [if_pos (by omega), if_pos hj']; simp [hij]
  · rw [if_neg (by omega), if_neg hj']

/-- clearing the copy is the model's `mzd_extract_l`: the generated loop on the image of the model's own
    `mzd_submatrix(L, A, 0, 0, k, k)` returns the image of `extractLInto L A` -/
theorem extractLClear_extractLInto (L A : Mzd) (hwf : L.WF) (hsq : L.nrows ≤ 1 ∨ L.nrows ≤ 64 * L.width) :
    Gen.C.extractLClear
        (memOf (Mzd.submatrixInto L A 0 0 (min A.nrows A.ncols) (min A.nrows A.ncols))) L.nrows L.width L.hb
      = memOf (Mzd.extractLInto L A) := by
  rw [Mzd.extractLInto_eq]
  generalize hS : Mzd.submatrixInto L A 0 0 (min A.nrows A.ncols) (min A.nrows A.ncols) = S
  have hSwf : S.WF := by subst hS; exact Mzd.submatrixInto_WF L A 0 0 _ _ hwf
  have hSr : S.nrows = L.nrows := by subst hS; simp
  have hSc : S.ncols = L.ncols := by subst hS; simp
  have hSw : S.width = L.width := width_of_ncols hSc
  have hSb : S.hb = L.hb := hb_of_ncols hSc
  rw [← hSr, ← hSw, ← hSb]
  exact extractLClear_eq' S hSwf (by rw [hSr, hSw]; exact hsq)

/-! ### 3. `extractUClear` -/

/-- one row of the loop of `mzd_extract_u`: the zeroing loop over the whole words and the `mzd_clear_bits` -/
theorem uStep_mem (U : Mzd) (i : Nat) (hwf : U.WF) (hi0 : i ≠ 0) (hi : i < U.nrows) (hw : i ≤ 64 * U.width)
    {cond : (Int → Int → BitVec 64) × Int → Bool}
    {body : (Int → Int → BitVec 64) × Int → (Int → Int → BitVec 64) × Int} {fuel : Nat}
    {res : (Int → Int → BitVec 64) × Int}
    (hres : CLoop.loop fuel cond body (memOf U, (0 : Int)) = res)
    (hf : i / 64 ≤ fuel)
    (hcond : ∀ st, cond st = decide (st.2 < ((i / 64 : Nat) : Int)))
    (hbody : ∀ st, body st = (CLoop.upd2 st.1 (i : Int) ((0 : Int) + st.2) (0#64), st.2 + 1)) :
    (if decide (((i % 64 : Nat) : Int) ≠ 0) = true then
        Gen.C.mzdClearBits (i : Int) (((i / 64 : Nat) : Int) * 64) ((i % 64 : Nat) : Int) res.1
      else res.1) = memOf (Mzd.extractUStep U i) := by
  have hsz : (U.row i).size = U.width := hwf.2 i hi
  have key := for_loop_eq hres (i / 64)
    (fun k st => st.2 = (k : Int) ∧ st.1 = zeroMem (memOf U) i 0 k)
    hf ⟨rfl, (zeroMem_zero _ _ _).symm⟩ ?_ ?_
  · obtain ⟨m, j⟩ := res
    obtain ⟨k1, k2⟩ := key
    dsimp only at k1 k2 ⊢
    subst k1 k2
    clear hres
    have hU1 : zeroMem (memOf U) i 0 (i / 64) =
        memOf (U.setRow i ((U.row i).mapIdx fun j w => if j < i / 64 then 0 else w)) := by
      apply eq_memOf_setRow _ _ _ (by rw [hwf.1]; exact hi)
      · intro k
        simp only [zeroMem, memOf_nat, Row.w_mapIdx', hsz, true_and]
        by_cases hk : k < i / 64
        · ifs_omega; rfl
        · by_cases hk2 : k < U.width
          · ifs_omega
          · rw [Row.w_of_ge (U.row i) k (by omega)]
            ifs_omega
      · intro z hz
        simp only [zeroMem, true_and]
        rw [if_neg (by omega), memOf_neg _ _ _ hz]
      · intro r' i' hr'
        simp only [zeroMem]
        rw [if_neg (by omega)]
    have hW : (U.setRow i ((U.row i).mapIdx fun j w => if j < i / 64 then 0 else w)).WF := by
      apply Mzd.WF.setRow hwf
      rw [Array.size_mapIdx]; exact hsz
    rw [hU1]
    unfold Mzd.extractUStep
    rw [if_neg hi0]
    simp only []
    by_cases hm : i % 64 ≠ 0
    · have e : ((i / 64 : Nat) : Int) * 64 = ((i / 64 * 64 : Nat) : Int) := by omega
      rw [if_pos hm, if_pos (by rw [decide_eq_true_eq]; omega), e,
        mzdClearBits_eq _ i (i / 64 * 64) (i % 64) hW hi (by omega) (by
          show i / 64 * 64 + i % 64 ≤ 64 * U.width
          omega)]
    · rw [if_neg hm, if_neg (by rw [decide_eq_true_eq]; omega)]
  · intro k st hk hP
    rw [hcond, hP.1, decide_eq_decide]
    omega
  · intro k st hk hP
    obtain ⟨m, j⟩ := st
    obtain ⟨k1, k2⟩ := hP
    dsimp only at k1 k2
    subst k1 k2
    rw [hbody]
    refine ⟨by dsimp only; omega, ?_⟩
    have := zeroMem_succ (memOf U) i 0 k
    simp only [Int.natCast_zero, Int.zero_add] at this
    dsimp only
    rw [Int.zero_add]
    exact this

/-- the matrix after the iterations `0 … n-1` of the loop of `mzd_extract_u` (the model's own step; step 0 is void) -/
def uIter (U : Mzd) (n : Nat) : Mzd := (List.range n).foldl Mzd.extractUStep U

theorem uIter_succ (U : Mzd) (n : Nat) : uIter U (n + 1) = Mzd.extractUStep (uIter U n) n := by
  simp [uIter, List.range_succ]

theorem uIter_one (U : Mzd) : uIter U 1 = U := by
  simp [uIter, Mzd.extractUStep]

theorem uIter_shape (U : Mzd) (hwf : U.WF) (n : Nat) (hn : n ≤ U.nrows) :
    (uIter U n).WF ∧ (uIter U n).nrows = U.nrows ∧ (uIter U n).ncols = U.ncols := by
  induction n with
  | zero => exact ⟨hwf, rfl, rfl⟩
  | succ n ih =>
    obtain ⟨h1, h2, h3⟩ := ih (by omega)
    rw [uIter_succ]
    obtain ⟨k1, k2, k3, _⟩ := Mzd.extractUStep_spec (uIter U n) n h1 (by omega)
    exact ⟨k1, by rw [k2, h2], by rw [k3, h3]⟩

theorem extractUClear_eq' (U : Mzd) (hwf : U.WF) (hsq : U.nrows ≤ 64 * U.width + 1) :
    Gen.C.extractUClear (memOf U) U.nrows = memOf (uIter U U.nrows) := by
  unfold Gen.C.extractUClear
  dsm
  generalize hres : CLoop.loop _ _ _ _ = res
  have key := for_loop_eq hres (U.nrows - 1)
    (fun k st => st = (memOf (uIter U (k + 1)), ((k + 1 : Nat) : Int)))
    (by simp) (by rw [uIter_one]; rfl) ?_ ?_
  · subst key
    by_cases h0 : U.nrows = 0
    · rw [h0]; exact congrArg memOf (uIter_one U)
    · have : U.nrows - 1 + 1 = U.nrows := by omega
      rw [this]
  · intro k st _ hP
    subst hP
    dsimp only
    rw [decide_eq_decide]
    omega
  · intro k st hk hP
    subst hP
    clear hres
    obtain ⟨s1, s2, s3⟩ := uIter_shape U hwf (k + 1) (by omega)
    rw [uIter_succ U (k + 1)]
    generalize uIter U (k + 1) = Uk at s1 s2 s3 ⊢
    have hwk : Uk.width = U.width := width_of_ncols s3
    dsm
    rw [tdiv_nat, tmod_nat]
    generalize hres2 : CLoop.loop _ _ _ _ = res2
    have := uStep_mem Uk (k + 1) s1 (by omega) (by omega) (by rw [hwk]; omega) hres2
      (by simp; omega) (fun _ => rfl) (fun _ => rfl)
    obtain ⟨m, j⟩ := res2
    dsm
    rw [← this]
    rfl

/-- pointwise description of the cleared matrix: entry `(i,j)` is zero for `j < i`, everything else is unchanged -/
theorem uIter_spec (U : Mzd) (hwf : U.WF) :
    (uIter U U.nrows).WF ∧ (uIter U U.nrows).nrows = U.nrows ∧ (uIter U U.nrows).ncols = U.ncols ∧
    ∀ i j, i < U.nrows → j < 64 * U.width →
      (uIter U U.nrows).bit i j = if j < i then false else U.bit i j := by
  have key := Mzd.rowFold_spec Mzd.extractUStep U.nrows U.ncols (fun r c b => if c < r then false else b)
    (by
      intro M i hM h1 h2 hi
      have := Mzd.extractUStep_spec M i hM (by omega)
      unfold Mzd.width at this
      rw [h1, h2] at this
      exact this)
    U hwf rfl rfl U.nrows (by omega)
  obtain ⟨k1, k2, k3, k4⟩ := key
  refine ⟨k1, k2, k3, ?_⟩
  intro i j hi hj
  have := k4 i j hi hj
  unfold uIter
  rw [this, if_pos hi]

/-- `mzd_extract_u`, the clearing loop, for a matrix with at most as many rows as columns (`k × k` in C; every cleared
    bit is then a proper entry): the result is the image of a well-formed matrix of the same shape with the entries
    of `U` on and right of the diagonal, zero left of it, and the excess bits of `U` -/
theorem extractUClear_eq (U : Mzd) (hwf : U.WF) (hsq : U.nrows ≤ U.ncols) :
    ∃ U' : Mzd, Gen.C.extractUClear (memOf U) U.nrows = memOf U' ∧
      U'.WF ∧ U'.nrows = U.nrows ∧ U'.ncols = U.ncols ∧
      ∀ i j, i < U.nrows → j < 64 * U.width →
        U'.bit i j = if j < U.ncols then (decide (i ≤ j) && U.bit i j) else U.bit i j := by
  have hw : U.nrows ≤ 64 * U.width + 1 := by unfold Mzd.width widthOf; omega
  obtain ⟨k1, k2, k3, k4⟩ := uIter_spec U hwf
  refine ⟨uIter U U.nrows, extractUClear_eq' U hwf hw, k1, k2, k3, ?_⟩
  intro i j hi hj
  rw [k4 i j hi hj]
  by_cases hj' : j < U.ncols
  · by_cases hij : i ≤ j
    · rw [if_neg (by omega), if_pos hj']; simp [hij]
    · rw [if_pos (by omega), if_pos hj']; simp [hij]
  · rw [if_neg (by omega), if_neg hj']

/-- clearing the copy is the model's `mzd_extract_u`: the generated loop on the image of the model's own
    `mzd_submatrix(U, A, 0, 0, k, k)` returns the image of `extractUInto U A` -/
theorem extractUClear_extractUInto (U A : Mzd) (hwf : U.WF) (hsq : U.nrows ≤ 64 * U.width + 1) :
    Gen.C.extractUClear
        (memOf (Mzd.submatrixInto U A 0 0 (min A.nrows A.ncols) (min A.nrows A.ncols))) U.nrows
      = memOf (Mzd.extractUInto U A) := by
  rw [Mzd.extractUInto_eq]
  generalize hS : Mzd.submatrixInto U A 0 0 (min A.nrows A.ncols) (min A.nrows A.ncols) = S
  have hSwf : S.WF := by subst hS; exact Mzd.submatrixInto_WF U A 0 0 _ _ hwf
  have hSr : S.nrows = U.nrows := by subst hS; simp
  have hSc : S.ncols = U.ncols := by subst hS; simp
  have hSw : S.width = U.width := width_of_ncols hSc
  rw [← hSr]
  exact extractUClear_eq' S hSwf (by rw [hSr, hSw]; exact hsq)

/-- `mzd_extract_u(U, A)` / `mzd_extract_l(L, A)` with the C contract (`U`, `L` are `k × k`, `k = min(A.nrows, A.ncols)`):
    copy (model) followed by the generated clearing loop is the model function -/
theorem extractUClear_contract (U A : Mzd) (hwf : U.WF) (hr : U.nrows = min A.nrows A.ncols)
    (hc : U.ncols = min A.nrows A.ncols) :
    Gen.C.extractUClear
        (memOf (Mzd.submatrixInto U A 0 0 (min A.nrows A.ncols) (min A.nrows A.ncols))) U.nrows
      = memOf (Mzd.extractUInto U A) :=
  extractUClear_extractUInto U A hwf (by unfold Mzd.width widthOf; omega)

theorem extractLClear_contract (L A : Mzd) (hwf : L.WF) (hr : L.nrows = min A.nrows A.ncols)
    (hc : L.ncols = min A.nrows A.ncols) :
    Gen.C.extractLClear
        (memOf (Mzd.submatrixInto L A 0 0 (min A.nrows A.ncols) (min A.nrows A.ncols))) L.nrows L.width L.hb
      = memOf (Mzd.extractLInto L A) :=
  extractLClear_extractLInto L A hwf (Or.inr (by unfold Mzd.width widthOf; omega))

/-! ### sharpness of the shape hypotheses (outside the C contract `k × k`) -/

/-- `mzd_extract_l` does not visit the last row: with fewer rows than columns its entries right of the diagonal stay -/
example : (lIter ⟨1, 2, #[#[3#64]]⟩ (1 - 1)).bit 0 1 = true := by decide

/-- `extractLClear` on a `2 × 0` "matrix" (`nrows > 64 * width`): `mzd_clear_bits(L, 0, 1, 63)` rewrites word 0 of
    row 0, which the matrix does not own (and `row[width - 1]` is `row[-1]`) -/
example (m : Int → Int → BitVec 64) (hb : BitVec 64) :
    Gen.C.extractLClear m 2 0 hb 0 0 = m 0 0 &&& 1#64 := rfl

/-- `extractUClear` on a `2 × 0` "matrix" (`nrows = 64 * width + 2`): `mzd_clear_bits(U, 1, 0, 1)` rewrites word 0
    of row 1, outside the row -/
example (m : Int → Int → BitVec 64) : Gen.C.extractUClear m 2 1 0 = m 1 0 &&& ~~~(1#64) := rfl

end M4ri.GenTieSlice

section Axioms
open M4ri.GenTieSlice
#print axioms plePermInit_eq'
#print axioms plePermInit_eq
#print axioms plePermUpdate_eq'
#print axioms plePermUpdate_eq
#print axioms plePermUpdate_model
#print axioms qMove_getD
#print axioms extractLClear_eq'
#print axioms extractLClear_eq
#print axioms extractLClear_square
#print axioms extractLClear_extractLInto
#print axioms extractLClear_contract
#print axioms extractUClear_eq'
#print axioms extractUClear_eq
#print axioms extractUClear_extractUInto
#print axioms extractUClear_contract
end Axioms
