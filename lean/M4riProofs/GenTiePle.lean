/-
  GenTiePle: ONE-STEP tie for the generated block-recursive step of `_mzd_ple` (`Gen.C.pleRecStep`, ple.c: from
  `rci_t n1 = …` to `return r1 + r2`) against the model recursion `BMat.Rec.pleRec` of `M4ri/TrsmRec.lean`.

  Instantiation of the function parameters (untranslated callees):
    `f__mzd_ple        := liftPle rec`        (`rec = pleRec base baseCols cutoff baseRows fuel`; rank, written-back
                                               memory, complete `P`, `Q` of the window as functions)
    `f_mzd_addmul      := liftM3 (C + A·B)`
    `f__mzd_compress_l := liftCompress`       (`compressL`)
  `_mzd_trsm_lower_left(A00, A01)` is NOT a parameter of `pleRecStep`: the generated text calls the TRANSLATED
  `Gen.C.trsmLowerLeftRec` on two views, and hands it the parameters `f__mzd_trsm_lower_left_russian`,
  `f__mzd_trsm_lower_left`, `f_mzd_addmul` for its own callees.  Its contract is the explicit hypothesis `TrsmOK`
  (on memories that show `L`, `B` on their rows and words it leaves `B.putB (trsm L B)` there);
  `trsmOK_of_whole` derives it from a tie on whole matrices (`memOf`), `trsmLowerLeftRec_agree` being the proof that
  the translated function (64-row kernel, Four-Russians call, block recursion) only sees the rows and words of its
  two matrices; `trsmOK_of_regimes` takes the three regime-wise ties; `TrsmOK.fuel`: any `baseRows`, `fuel`.

  Main theorems
    `pleRecStep_eq`      general: any `rec` with the contract `GoodOut` (TrsmRec.lean), any `trsm` with `TrsmOK`,
                         any `nr ≤ A.nrows`, any `P`, `Q` of lengths `A.nrows`, `A.ncols`
    `pleRecStep_pleRec`  `rec = pleRec … fuel`, `P`, `Q` the identity arrays, `nr = firstZeroRow`: the generated step
                         returns what `pleRec … (fuel + 1)` returns in its recursive case (`GoodBase base` gives
                         the contracts of the recursive calls through `pleRec_spec`)
  Stage theorems (each on an arbitrary well-formed state): `seg4_eq` (bookkeeping loops + compression),
  `seg3_eq` (second recursive call, `mzd_apply_p_left(A10, P2)`), `schurMem_eq` (Schur complement), `seg2_eq`.
  The generated function is cut into four parts (`seg2`, `schurMem`, `seg3`, `seg4`: copies of the generated text
  with the bound variables as parameters) that are tied to it by `rfl` (`pleRecStep_split`).
  Call rules for translated callees on views: `applyP_window`, `trsm_window`.
  Not needed (and not assumed): `64 < ncols`, `1 ≤ nrows`.  Core Lean tactics only.
-/
import M4riProofs.GenTieView
import M4riProofs.GenTieAlg
import M4riProofs.GenTieSlice
import M4riProofs.GenTieTab
import M4riProofs.TrsmRec
set_option linter.unusedVariables false
namespace M4ri.GenTiePle
open M4ri M4ri.Gen M4ri.GenTieMem M4ri.GenTieView M4ri.BMat M4ri.GenTieAlg M4ri.GenTieTab M4ri.GenTieSlice

/-! ### 0. relational loop rule, agreement on a region (integer form) -/

/-- two runs of two loops from related states stay related -/
theorem loop_rel {σ : Type} (R : σ → σ → Prop) {cond cond' : σ → Bool} {body body' : σ → σ}
    (hc : ∀ s s', R s s' → cond s = cond' s')
    (hb : ∀ s s', R s s' → cond s = true → R (body s) (body' s')) :
    ∀ (fuel : Nat) (s s' : σ), R s s' → R (CLoop.loop fuel cond body s) (CLoop.loop fuel cond' body' s') := by
  intro fuel
  induction fuel with
  | zero => intro s s' h; exact h
  | succ n ih =>
    intro s s' h
    rw [loop_succ, loop_succ, ← hc s s' h]
    by_cases hcs : cond s = true
    · rw [if_pos hcs, if_pos hcs]
      exact ih _ _ (hb s s' h hcs)
    · rw [if_neg hcs, if_neg hcs]
      exact h

/-- `AgreeOn` with integer indices -/
def AgI (nr nw : Int) (m m' : Int → Int → BitVec 64) : Prop :=
  ∀ r w : Int, 0 ≤ r → r < nr → 0 ≤ w → w < nw → m r w = m' r w

theorem AgI.of {nr nw : Nat} {m m' : Int → Int → BitVec 64} (h : AgreeOn nr nw m m') : AgI nr nw m m' := by
  intro r w h1 h2 h3 h4
  have := h r.toNat w.toNat (by omega) (by omega)
  rw [show ((r.toNat : Nat) : Int) = r by omega, show ((w.toNat : Nat) : Int) = w by omega] at this
  exact this

theorem AgI.to {nr nw : Nat} {m m' : Int → Int → BitVec 64} (h : AgI nr nw m m') : AgreeOn nr nw m m' :=
  fun i k hi hk => h i k (by omega) (by omega) (by omega) (by omega)

theorem AgI.upd2 {nr nw : Int} {m m' : Int → Int → BitVec 64} (h : AgI nr nw m m') (r i : Int) {v v' : BitVec 64}
    (hv : v = v') : AgI nr nw (CLoop.upd2 m r i v) (CLoop.upd2 m' r i v') := by
  subst hv
  intro r' w' h1 h2 h3 h4
  unfold CLoop.upd2
  split
  · rfl
  · exact h r' w' h1 h2 h3 h4

theorem AgI.read {nr nw : Int} {m m' : Int → Int → BitVec 64} (h : AgI nr nw m m') (r w : Int)
    (h1 : 0 ≤ r) (h2 : r < nr) (h3 : 0 ≤ w) (h4 : w < nw) : m r w = m' r w := h r w h1 h2 h3 h4

/-- `loop_rel` in equational form (the two loop terms are picked up from `generalize` hypotheses) -/
theorem loop_rel_eq {σ : Type} {cond cond' : σ → Bool} {body body' : σ → σ} {fuel : Nat} {s s' res res' : σ}
    (hres : CLoop.loop fuel cond body s = res) (hres' : CLoop.loop fuel cond' body' s' = res')
    (R : σ → σ → Prop) (h0 : R s s')
    (hc : ∀ s s', R s s' → cond s = cond' s')
    (hb : ∀ s s', R s s' → cond s = true → R (body s) (body' s')) : R res res' := by
  subst hres hres'
  exact loop_rel R hc hb fuel s s' h0

theorem shaped_toB' {M : Mzd} (hM : M.WF) : Shaped M.toB M.nrows M.ncols := ⟨Mzd.WF_toB hM, rfl, rfl⟩

/-! ### 1. `mzd_row_swap`, `mzd_apply_p_left` only see the rows and words of their matrix -/

theorem mzdRowSwap_agree {nr nw : Nat} {m m' : Int → Int → BitVec 64} (h : AgI nr nw m m') (a b : Int)
    (ha0 : 0 ≤ a) (ha : a < nr) (hb0 : 0 ≤ b) (hb : b < nr) (hbm : BitVec 64) :
    AgI nr nw (Gen.C.mzdRowSwap a b 0 m nw hbm) (Gen.C.mzdRowSwap a b 0 m' nw hbm) := by
  unfold Gen.C.mzdRowSwap
  by_cases hc : (decide (a = b) || decide ((0 : Int) ≥ (nw : Int))) = true
  · rw [if_pos hc, if_pos hc]; exact h
  · rw [if_neg hc, if_neg hc]
    have hw : (0 : Int) < nw := by
      simp only [Bool.or_eq_true, decide_eq_true_eq, not_or] at hc; omega
    dsimp_m
    generalize hres : CLoop.loop _ _ _ _ = res
    generalize hres' : CLoop.loop _ _ _ _ = res'
    have key := loop_rel_eq hres hres'
      (fun s s' => s.2.2 = s'.2.2 ∧ 0 ≤ s.2.2 ∧ AgI nr nw s.2.1 s'.2.1) ⟨rfl, Int.le_refl _, h⟩ ?_ ?_
    · obtain ⟨t, M, i⟩ := res
      obtain ⟨t', M', i'⟩ := res'
      obtain ⟨k1, k2, k3⟩ := key
      dsimp only at k1 k2 k3 ⊢
      have e1 := k3.read a (0 + 0 + ((nw : Int) - 0 - 1)) ha0 ha (by omega) (by omega)
      have e2 := k3.read b (0 + 0 + ((nw : Int) - 0 - 1)) hb0 hb (by omega) (by omega)
      intro r' w' h1 h2 h3 h4
      simp only [upd2_apply]
      rw [e1, e2, k3.read r' w' h1 h2 h3 h4]
    · intro s s' hR
      obtain ⟨t, M, i⟩ := s
      obtain ⟨t', M', i'⟩ := s'
      obtain ⟨k1, k2, k3⟩ := hR
      dsimp only at k1 k2 k3 ⊢
      subst k1
      rfl
    · intro s s' hR hcs
      obtain ⟨t, M, i⟩ := s
      obtain ⟨t', M', i'⟩ := s'
      obtain ⟨k1, k2, k3⟩ := hR
      dsimp only at k1 k2 k3 hcs ⊢
      subst k1
      have hi : i < (nw : Int) - 0 - 1 := by simpa using hcs
      refine ⟨rfl, by omega, ?_⟩
      have e1 := k3.read a (0 + 0 + i) ha0 ha (by omega) (by omega)
      have e2 := k3.read b (0 + 0 + i) hb0 hb (by omega) (by omega)
      exact (k3.upd2 a _ e2).upd2 b _ e1

/-- `mzd_apply_p_left` on two memories that agree on the matrix, with two permutation memories that agree on
    the entries that are used -/
theorem mzdApplyPLeft_agree {nr nw : Nat} {m m' : Int → Int → BitVec 64} (h : AgI nr nw m m') (nc len : Int)
    (Pf Pf' : Int → Int) (hbm : BitVec 64)
    (hP : ∀ i : Int, 0 ≤ i → i < len → i < nr → Pf i = Pf' i ∧ 0 ≤ Pf' i ∧ Pf' i < nr) :
    AgI nr nw (Gen.C.mzdApplyPLeft m nc len nr Pf nw hbm) (Gen.C.mzdApplyPLeft m' nc len nr Pf' nw hbm) := by
  unfold Gen.C.mzdApplyPLeft
  by_cases hc : decide (nc = 0) = true
  · rw [if_pos hc, if_pos hc]; exact h
  · rw [if_neg hc, if_neg hc]
    dsimp_m
    generalize hres : CLoop.loop _ _ _ _ = res
    generalize hres' : CLoop.loop _ _ _ _ = res'
    have hcond : ∀ i : Int, decide (i < if decide (len < (nr : Int)) = true then len else (nr : Int)) = true →
        i < len ∧ i < nr := by
      intro i hi
      rw [decide_eq_true_eq] at hi
      split at hi
      · rename_i h1; rw [decide_eq_true_eq] at h1; omega
      · rename_i h1; rw [decide_eq_true_eq] at h1; omega
    have key : res.2 = res'.2 ∧ 0 ≤ res.2 ∧ AgI nr nw res.1 res'.1 := by
      refine loop_rel_eq hres hres' (fun s s' => s.2 = s'.2 ∧ 0 ≤ s.2 ∧ AgI nr nw s.1 s'.1)
        ⟨rfl, Int.le_refl _, h⟩ ?_ ?_
      · intro s s' hR
        obtain ⟨M, i⟩ := s
        obtain ⟨M', i'⟩ := s'
        obtain ⟨k1, k2, k3⟩ := hR
        dsimp only at k1 k2 k3 ⊢
        subst k1
        rfl
      · intro s s' hR hcs
        obtain ⟨M, i⟩ := s
        obtain ⟨M', i'⟩ := s'
        obtain ⟨k1, k2, k3⟩ := hR
        dsimp only at k1 k2 k3 hcs ⊢
        subst k1
        obtain ⟨hi1, hi2⟩ := hcond i hcs
        obtain ⟨p1, p2, p3⟩ := hP i k2 hi1 hi2
        refine ⟨rfl, by omega, ?_⟩
        unfold Gen.C.mzdRowSwap0
        rw [p1]
        exact mzdRowSwap_agree k3 i (Pf' i) k2 hi2 p2 p3 hbm
    obtain ⟨M, i⟩ := res
    obtain ⟨M', i'⟩ := res'
    exact key.2.2

/-- `mzd_apply_p_left` through the lens -/
theorem applyPLeft_putB (M : Mzd) (X : BMat) (hM : M.WF) (hX : Good M X) (P : Array Nat)
    (hP : ∀ i, i < min P.size M.nrows → P.getD i 0 < M.nrows) :
    (M.putB X).applyPLeft P = M.putB (X.applyPLeft P) := by
  unfold Mzd.applyPLeft BMat.applyPLeft
  rw [hX.2.1]
  simp only [Mzd.ncols_putB, Mzd.nrows_putB]
  by_cases h0 : M.ncols = 0
  · rw [if_pos h0]
    apply Mzd.eq_putB_of_bit (Mzd.WF_putB hM X) hM rfl rfl
    intro i j hi hj
    have : M.width = 0 := by unfold Mzd.width widthOf; omega
    rw [this] at hj
    omega
  · rw [if_neg h0]
    generalize hn : min P.size M.nrows = n at hP
    have hn' : n ≤ M.nrows := by omega
    suffices hs : ∀ k, k ≤ n →
        (List.range k).foldl (fun M i => M.rowSwap i (P.getD i 0)) (M.putB X)
          = M.putB ((List.range k).foldl (fun M i => M.swapRows i (P.getD i 0)) X) ∧
        Good M ((List.range k).foldl (fun M i => M.swapRows i (P.getD i 0)) X) from (hs n (Nat.le_refl _)).1
    intro k
    induction k with
    | zero => intro _; exact ⟨rfl, hX⟩
    | succ k ih =>
      intro hk
      obtain ⟨e, g⟩ := ih (by omega)
      rw [List.range_succ, List.foldl_append, List.foldl_append, List.foldl_cons, List.foldl_nil, List.foldl_cons,
        List.foldl_nil, e]
      have hPk := hP k (by omega)
      have hk' : k < M.nrows := by omega
      exact ⟨rowSwap_putB M _ hM g k _ hk' hPk, good_swapRows g _ _⟩

/-! ### 2. translated callees on a window: the call rules -/

/-- a result that coincides on the window with a `putB` of the window matrix, written back -/
theorem unview_agree_putB (M : Mzd) (hM : M.WF) (lr lc hr hc : Nat) (hW : InWin M lr lc hr hc) (X : BMat)
    (hXr : X.nrows = hr - lr) (hXc : X.ncols = hc - lc) (res : Int → Int → BitVec 64)
    (hag : AgreeOn (hr - lr) ((hc - lc + 63) / 64) res (memOf ((M.window lr lc hr hc).putB X))) :
    CLoop.unview (memOf M) (lr : Int) ((lc / 64 : Nat) : Int) ((hr - lr : Nat) : Int)
        (((hc - lc + 63) / 64 : Nat) : Int) res
      = memOf (M.putB (M.toB.paste lr lc X)) := by
  rw [unview_congr _ _ _ _ _ hag]
  exact unview_window_putB M hM lr lc hr hc hW.lc hW.hr hW.hc X hXr hXc

/-- **call rule for `mzd_apply_p_left(window of M, P)`**: `len` is the length of the permutation window,
    `Pf` the permutation memory seen through the window (only its entries `0 .. len-1` matter) -/
theorem applyP_window (M : Mzd) (hM : M.WF) (lr lc hr hc : Nat) (hW : InWin M lr lc hr hc) (P : Array Nat)
    (hPs : P.size = hr - lr) (hP : ∀ i, i < hr - lr → P.getD i 0 < hr - lr) (Pf : Int → Int) (len : Int)
    (hlen : len = ((hr - lr : Nat) : Int)) (hPf : ∀ i : Nat, i < hr - lr → Pf (i : Int) = ((P.getD i 0 : Nat) : Int)) :
    CLoop.unview (memOf M) (lr : Int) ((lc / 64 : Nat) : Int) ((hr - lr : Nat) : Int)
        (((hc - lc + 63) / 64 : Nat) : Int)
        (Gen.C.mzdApplyPLeft (CLoop.view (memOf M) (lr : Int) ((lc / 64 : Nat) : Int)) ((hc - lc : Nat) : Int) len
          ((hr - lr : Nat) : Int) Pf (((hc - lc + 63) / 64 : Nat) : Int) (leftMask ((hc - lc) % 64)))
      = memOf (M.putB (M.toB.paste lr lc ((M.toB.sub lr lc hr hc).applyPLeft P))) := by
  subst hlen
  have hWW : (M.window lr lc hr hc).WF := window_WF M lr lc hr hc
  have hB := window_toB M lr lc hr hc hW.lc hW.hr hW.hc
  have hsh := BMat.applyPLeft_shape (M.toB.sub lr lc hr hc) P
  have hsub : Shaped (M.toB.sub lr lc hr hc) (hr - lr) (hc - lc) := (shaped_toB' hM).sub lr lc hr hc hW.hr
  apply unview_agree_putB M hM lr lc hr hc hW _ (by rw [hsh.1, hsub.nr]) (by rw [hsh.2.1, hsub.nc])
  have hP' : ∀ i, i < min P.size (M.window lr lc hr hc).nrows → P.getD i 0 < (M.window lr lc hr hc).nrows := by
    intro i hi
    rw [nrows_window] at hi ⊢
    exact hP i (by omega)
  have e2 := mzdApplyPLeft_eq (M.window lr lc hr hc) P hWW hP'
  rw [ncols_window, nrows_window, width_window, hb_window, hPs] at e2
  have e3 : (M.window lr lc hr hc).applyPLeft P
      = (M.window lr lc hr hc).putB ((M.toB.sub lr lc hr hc).applyPLeft P) := by
    rw [← hB]
    conv => lhs; rw [← Mzd.putB_toB hWW]
    exact applyPLeft_putB _ _ hWW (good_toB _ hWW) P hP'
  rw [← e3, ← e2]
  apply AgI.to
  apply mzdApplyPLeft_agree (AgI.of (view_agree_window M lr lc hr hc))
  intro i h0 h1 h2
  have := hPf i.toNat (by omega)
  rw [show ((i.toNat : Nat) : Int) = i by omega] at this
  have hp := hP i.toNat (by omega)
  refine ⟨this, by omega, by omega⟩

/-! ### 3. the model as callees -/

/-- the recursive call `_mzd_ple(window, P-window, Q-window, cutoff)` as the model function `ple`: the record is
    read as a matrix, the result is written back with `putB`; the returned permutations are complete (the
    incoming contents of the permutation windows are not used) -/
def liftPle (ple : BMat → Rec.Out) (V : CLoop.MView) (_P _Q : Int → Int) (_c : Int) :
    Int × (Int → Int → BitVec 64) × (Int → Int) × (Int → Int) :=
  ((((ple (Mzd.ofView V).toB).2.2.2 : Nat) : Int), memOf ((Mzd.ofView V).putB (ple (Mzd.ofView V).toB).1),
    arrOf (ple (Mzd.ofView V).toB).2.1, arrOf (ple (Mzd.ofView V).toB).2.2.1)

/-- `_mzd_compress_l(A, r1, n1, r2)` as the model function -/
def liftCompress (V : CLoop.MView) (r1 n1 r2 : Int) : Int → Int → BitVec 64 :=
  memOf ((Mzd.ofView V).putB (Rec.compressL (Mzd.ofView V).toB r1.toNat n1.toNat r2.toNat))

/-- the contract of the translated callee `Gen.C.trsmLowerLeftRec` (= the C function `_mzd_trsm_lower_left`, whose
    own callees are the parameters `fruss`, `frec`, `fadd`): on memories that show `L` and `B` on their rows and
    words it leaves `B.putB (trsm L B)` on the rows and words of `B` -/
def TrsmOK (cutoff rs : Int) (fruss frec : CLoop.MView → CLoop.MView → Int → (Int → Int → BitVec 64))
    (fadd : CLoop.MView → CLoop.MView → CLoop.MView → Int → (Int → Int → BitVec 64))
    (trsm : BMat → BMat → BMat) : Prop :=
  ∀ (L B : Mzd) (mL mB : Int → Int → BitVec 64), L.WF → B.WF → L.nrows = B.nrows → L.ncols = B.nrows →
    1 ≤ B.nrows → 1 ≤ B.ncols → AgreeOn L.nrows L.width mL (memOf L) → AgreeOn B.nrows B.width mB (memOf B) →
    AgreeOn B.nrows B.width
      (Gen.C.trsmLowerLeftRec cutoff mB B.nrows B.ncols mL B.width L.nrows L.ncols L.width L.hb B.hb fruss rs rs
        frec fadd)
      (memOf (B.putB (trsm L.toB B.toB)))

/-! ### 4. the generated step, cut into four parts (copies of the generated text, tied to it by `rfl`) -/

/-- `Gen.C.pleRecStep`, last part (text of the generated function): the three bookkeeping loops and `_mzd_compress_l` -/
def seg4 (v_mem_A : (Int → Int → BitVec 64)) (v_mem1_P_values v_mem1_Q_values : Int → Int) (v_nrows v_ncols v_r1 v_n1 v_r2 v_P2__begin v_Q2__begin : Int) (v_A_nrows v_A_ncols v_A_width : Int) (v_A_high_bitmask : BitVec 64) (f__mzd_compress_l : (CLoop.MView → Int → Int → Int → (Int → Int → BitVec 64))) : Int × (Int → Int → BitVec 64) × (Int → Int) × (Int → Int) :=
  let v_i : Int := (0 : Int)
  let (v_mem1_P_values, v_i) : (Int → Int) × Int := CLoop.loop ((v_nrows).toNat)
      (fun (st : (Int → Int) × Int) => match st with
      | (v_mem1_P_values, v_i) => (decide (v_i < (v_nrows - v_r1))))
      (fun (st : (Int → Int) × Int) => match st with
      | (v_mem1_P_values, v_i) => 
      let v_mem1_P_values : Int → Int := (CLoop.upd1 v_mem1_P_values (v_P2__begin + v_i) ((v_mem1_P_values  (v_P2__begin + v_i)) + v_r1))
      let v_i : Int := (v_i + (1 : Int))
      (v_mem1_P_values, v_i))
      (v_mem1_P_values, v_i)
  let v_i : Int := (0 : Int)
  let v_j : Int := v_n1
  let (v_mem1_Q_values, v_i, v_j) : (Int → Int) × Int × Int := CLoop.loop ((v_ncols).toNat)
      (fun (st : (Int → Int) × Int × Int) => match st with
      | (v_mem1_Q_values, v_i, v_j) => (decide (v_j < v_ncols)))
      (fun (st : (Int → Int) × Int × Int) => match st with
      | (v_mem1_Q_values, v_i, v_j) => 
      let v_mem1_Q_values : Int → Int := (CLoop.upd1 v_mem1_Q_values (v_Q2__begin + v_i) ((v_mem1_Q_values  (v_Q2__begin + v_i)) + v_n1))
      let v_i : Int := (v_i + (1 : Int))
      let v_j : Int := (v_j + (1 : Int))
      (v_mem1_Q_values, v_i, v_j))
      (v_mem1_Q_values, v_i, v_j)
  let v_i : Int := v_n1
  let v_j : Int := v_r1
  let (v_mem1_Q_values, v_i, v_j) : (Int → Int) × Int × Int := CLoop.loop ((v_ncols).toNat)
      (fun (st : (Int → Int) × Int × Int) => match st with
      | (v_mem1_Q_values, v_i, v_j) => (decide (v_i < (v_n1 + v_r2))))
      (fun (st : (Int → Int) × Int × Int) => match st with
      | (v_mem1_Q_values, v_i, v_j) => 
      let v_mem1_Q_values : Int → Int := (CLoop.upd1 v_mem1_Q_values v_j (v_mem1_Q_values v_i))
      let v_i : Int := (v_i + (1 : Int))
      let v_j : Int := (v_j + (1 : Int))
      (v_mem1_Q_values, v_i, v_j))
      (v_mem1_Q_values, v_i, v_j)
  let cres3__0 := (f__mzd_compress_l (CLoop.MView.mk v_mem_A v_A_nrows v_A_ncols v_A_width v_A_high_bitmask) v_r1 v_n1 v_r2)
  let v_mem_A : Int → Int → BitVec 64 := cres3__0
  ((v_r1 + v_r2), v_mem_A, v_mem1_P_values, v_mem1_Q_values)

/-- `Gen.C.pleRecStep`, third part: the second recursive call, its write-backs, `mzd_apply_p_left(A10, P2)` -/
def seg3 (v_mem_A : (Int → Int → BitVec 64)) (v_mem1_P_values v_mem1_Q_values : Int → Int) (v_nrows v_ncols v_r1 v_n1 v_cutoff : Int) (f__mzd_ple : (CLoop.MView → (Int → Int) → (Int → Int) → Int → Int × (Int → Int → BitVec 64) × (Int → Int) × (Int → Int))) (v_A11_nrows v_A11_ncols v_A11_width : Int) (v_A11_high_bitmask : BitVec 64) (v_A11__r0 v_A11__w0 : Int) (v_A10_nrows v_A10_ncols v_A10_width : Int) (v_A10_high_bitmask : BitVec 64) (v_A10__r0 v_A10__w0 : Int) (v_A_nrows v_A_ncols v_A_width : Int) (v_A_high_bitmask : BitVec 64) (f__mzd_compress_l : (CLoop.MView → Int → Int → Int → (Int → Int → BitVec 64))) : Int × (Int → Int → BitVec 64) × (Int → Int) × (Int → Int) :=
  let v_P2__begin : Int := v_r1
  let v_Q2__begin : Int := v_n1
  let (v_r2, cres0__0, cperm0__0, cperm0__1) := (f__mzd_ple (CLoop.MView.mk (CLoop.view v_mem_A v_A11__r0 v_A11__w0) v_A11_nrows v_A11_ncols v_A11_width v_A11_high_bitmask) (fun i => v_mem1_P_values (v_P2__begin + i)) (fun i => v_mem1_Q_values (v_Q2__begin + i)) v_cutoff)
  let v_mem_A : Int → Int → BitVec 64 := (CLoop.unview v_mem_A v_A11__r0 v_A11__w0 v_A11_nrows v_A11_width cres0__0)
  let v_mem1_P_values : Int → Int := (fun i => if v_P2__begin ≤ i ∧ i < v_P2__begin + (v_nrows - v_r1) then cperm0__0 (i - v_P2__begin) else v_mem1_P_values i)
  let v_mem1_Q_values : Int → Int := (fun i => if v_Q2__begin ≤ i ∧ i < v_Q2__begin + (v_ncols - v_n1) then cperm0__1 (i - v_Q2__begin) else v_mem1_Q_values i)
  let cres0__0 := (M4ri.Gen.C.mzdApplyPLeft (CLoop.view v_mem_A v_A10__r0 v_A10__w0) v_A10_ncols (v_nrows - v_r1) v_A10_nrows (fun i => v_mem1_P_values (v_P2__begin + i)) v_A10_width v_A10_high_bitmask)
  let v_mem_A : Int → Int → BitVec 64 := (CLoop.unview v_mem_A v_A10__r0 v_A10__w0 v_A10_nrows v_A10_width cres0__0)
  seg4 v_mem_A v_mem1_P_values v_mem1_Q_values v_nrows v_ncols v_r1 v_n1 v_r2 v_P2__begin v_Q2__begin v_A_nrows v_A_ncols v_A_width v_A_high_bitmask f__mzd_compress_l

/-- `Gen.C.pleRecStep`: the Schur-complement update (the `if (r1)` block) -/
def schurMem (v_mem_A : (Int → Int → BitVec 64)) (v_mem1_P_values : Int → Int) (v_nrows v_r1 v_cutoff v_P1__begin : Int) (v_A1_nrows v_A1_ncols v_A1_width : Int) (v_A1_high_bitmask : BitVec 64) (v_A1__r0 v_A1__w0 : Int) (v_A00_nrows v_A00_ncols v_A00_width : Int) (v_A00_high_bitmask : BitVec 64) (v_A00__r0 v_A00__w0 : Int) (v_A00_rowstride : Int) (v_A01_nrows v_A01_ncols v_A01_width : Int) (v_A01_high_bitmask : BitVec 64) (v_A01__r0 v_A01__w0 : Int) (v_A01_rowstride : Int) (v_A10_nrows v_A10_ncols v_A10_width : Int) (v_A10_high_bitmask : BitVec 64) (v_A10__r0 v_A10__w0 : Int) (v_A11_nrows v_A11_ncols v_A11_width : Int) (v_A11_high_bitmask : BitVec 64) (v_A11__r0 v_A11__w0 : Int) (f__mzd_trsm_lower_left_russian f__mzd_trsm_lower_left : (CLoop.MView → CLoop.MView → Int → (Int → Int → BitVec 64))) (f_mzd_addmul : (CLoop.MView → CLoop.MView → CLoop.MView → Int → (Int → Int → BitVec 64))) : (Int → Int → BitVec 64) :=
  if (decide (v_r1 ≠ (0 : Int))) then
    let cres0__0 := (M4ri.Gen.C.mzdApplyPLeft (CLoop.view v_mem_A v_A1__r0 v_A1__w0) v_A1_ncols (v_nrows - (0 : Int)) v_A1_nrows (fun i => v_mem1_P_values (v_P1__begin + i)) v_A1_width v_A1_high_bitmask)
    let v_mem_A : Int → Int → BitVec 64 := (CLoop.unview v_mem_A v_A1__r0 v_A1__w0 v_A1_nrows v_A1_width cres0__0)
    let cres0__0 := (M4ri.Gen.C.trsmLowerLeftRec v_cutoff (CLoop.view v_mem_A v_A01__r0 v_A01__w0) v_A01_nrows v_A01_ncols (CLoop.view v_mem_A v_A00__r0 v_A00__w0) v_A01_width v_A00_nrows v_A00_ncols v_A00_width v_A00_high_bitmask v_A01_high_bitmask f__mzd_trsm_lower_left_russian v_A01_rowstride v_A00_rowstride f__mzd_trsm_lower_left f_mzd_addmul)
    let v_mem_A : Int → Int → BitVec 64 := (CLoop.unview v_mem_A v_A01__r0 v_A01__w0 v_A01_nrows v_A01_width cres0__0)
    let cres0__0 := (f_mzd_addmul (CLoop.MView.mk (CLoop.view v_mem_A v_A11__r0 v_A11__w0) v_A11_nrows v_A11_ncols v_A11_width v_A11_high_bitmask) (CLoop.MView.mk (CLoop.view v_mem_A v_A10__r0 v_A10__w0) v_A10_nrows v_A10_ncols v_A10_width v_A10_high_bitmask) (CLoop.MView.mk (CLoop.view v_mem_A v_A01__r0 v_A01__w0) v_A01_nrows v_A01_ncols v_A01_width v_A01_high_bitmask) v_cutoff)
    let v_mem_A : Int → Int → BitVec 64 := (CLoop.unview v_mem_A v_A11__r0 v_A11__w0 v_A11_nrows v_A11_width cres0__0)
    v_mem_A
  else
    v_mem_A

/-- `Gen.C.pleRecStep`, second part: the windows `A00, A10, A01, A11`, the Schur complement, then `seg3` -/
def seg2 (v_mem_A : (Int → Int → BitVec 64)) (v_mem1_P_values v_mem1_Q_values : Int → Int) (v_nrows v_ncols v_r1 v_n1 v_cutoff v_A_nrows v_A_rowstride v_P1__begin : Int) (v_A1_nrows v_A1_ncols v_A1_width : Int) (v_A1_high_bitmask : BitVec 64) (v_A1__r0 v_A1__w0 : Int) (f__mzd_ple : (CLoop.MView → (Int → Int) → (Int → Int) → Int → Int × (Int → Int → BitVec 64) × (Int → Int) × (Int → Int))) (f__mzd_trsm_lower_left_russian f__mzd_trsm_lower_left : (CLoop.MView → CLoop.MView → Int → (Int → Int → BitVec 64))) (f_mzd_addmul : (CLoop.MView → CLoop.MView → CLoop.MView → Int → (Int → Int → BitVec 64))) (v_A_ncols v_A_width : Int) (v_A_high_bitmask : BitVec 64) (f__mzd_compress_l : (CLoop.MView → Int → Int → Int → (Int → Int → BitVec 64))) : Int × (Int → Int → BitVec 64) × (Int → Int) × (Int → Int) :=
  let (v_A00_nrows, v_A00_ncols, v_A00_rowstride, v_A00_width, v_A00_high_bitmask, v_A00_flags, v_A00__data_row, v_A00__data_word) := (M4ri.Gen.C.mzdInitWindow (0 : Int) (0 : Int) v_r1 v_r1 v_A_nrows v_A_rowstride)
  let v_A00__r0 : Int := ((0 : Int) + v_A00__data_row)
  let v_A00__w0 : Int := ((0 : Int) + v_A00__data_word)
  let (v_A10_nrows, v_A10_ncols, v_A10_rowstride, v_A10_width, v_A10_high_bitmask, v_A10_flags, v_A10__data_row, v_A10__data_word) := (M4ri.Gen.C.mzdInitWindow v_r1 (0 : Int) v_nrows v_r1 v_A_nrows v_A_rowstride)
  let v_A10__r0 : Int := ((0 : Int) + v_A10__data_row)
  let v_A10__w0 : Int := ((0 : Int) + v_A10__data_word)
  let (v_A01_nrows, v_A01_ncols, v_A01_rowstride, v_A01_width, v_A01_high_bitmask, v_A01_flags, v_A01__data_row, v_A01__data_word) := (M4ri.Gen.C.mzdInitWindow (0 : Int) v_n1 v_r1 v_ncols v_A_nrows v_A_rowstride)
  let v_A01__r0 : Int := ((0 : Int) + v_A01__data_row)
  let v_A01__w0 : Int := ((0 : Int) + v_A01__data_word)
  let (v_A11_nrows, v_A11_ncols, v_A11_rowstride, v_A11_width, v_A11_high_bitmask, v_A11_flags, v_A11__data_row, v_A11__data_word) := (M4ri.Gen.C.mzdInitWindow v_r1 v_n1 v_nrows v_ncols v_A_nrows v_A_rowstride)
  let v_A11__r0 : Int := ((0 : Int) + v_A11__data_row)
  let v_A11__w0 : Int := ((0 : Int) + v_A11__data_word)
  let v_mem_A : Int → Int → BitVec 64 := schurMem v_mem_A v_mem1_P_values v_nrows v_r1 v_cutoff v_P1__begin v_A1_nrows v_A1_ncols v_A1_width v_A1_high_bitmask v_A1__r0 v_A1__w0 v_A00_nrows v_A00_ncols v_A00_width v_A00_high_bitmask v_A00__r0 v_A00__w0 v_A00_rowstride v_A01_nrows v_A01_ncols v_A01_width v_A01_high_bitmask v_A01__r0 v_A01__w0 v_A01_rowstride v_A10_nrows v_A10_ncols v_A10_width v_A10_high_bitmask v_A10__r0 v_A10__w0 v_A11_nrows v_A11_ncols v_A11_width v_A11_high_bitmask v_A11__r0 v_A11__w0 f__mzd_trsm_lower_left_russian f__mzd_trsm_lower_left f_mzd_addmul
  seg3 v_mem_A v_mem1_P_values v_mem1_Q_values v_nrows v_ncols v_r1 v_n1 v_cutoff f__mzd_ple v_A11_nrows v_A11_ncols v_A11_width v_A11_high_bitmask v_A11__r0 v_A11__w0 v_A10_nrows v_A10_ncols v_A10_width v_A10_high_bitmask v_A10__r0 v_A10__w0 v_A_nrows v_A_ncols v_A_width v_A_high_bitmask f__mzd_compress_l

/-- the generated step is its first part (split, windows `A0`, `A1`, first recursive call, write-backs) followed by `seg2` -/
theorem pleRecStep_split (v_mem_A : Int → Int → BitVec 64) (v_mem1_P_values : Int → Int) (v_mem1_Q_values : Int → Int) (v_ncols : Int) (v_nrows : Int) (v_A_nrows : Int) (v_A_rowstride : Int) (v_cutoff : Int) (f__mzd_ple : CLoop.MView → (Int → Int) → (Int → Int) → Int → Int × (Int → Int → BitVec 64) × (Int → Int) × (Int → Int)) (f__mzd_trsm_lower_left_russian : CLoop.MView → CLoop.MView → Int → (Int → Int → BitVec 64)) (f__mzd_trsm_lower_left : CLoop.MView → CLoop.MView → Int → (Int → Int → BitVec 64)) (f_mzd_addmul : CLoop.MView → CLoop.MView → CLoop.MView → Int → (Int → Int → BitVec 64)) (v_A_ncols : Int) (v_A_width : Int) (v_A_high_bitmask : BitVec 64) (f__mzd_compress_l : CLoop.MView → Int → Int → Int → (Int → Int → BitVec 64)) :
    Gen.C.pleRecStep v_mem_A v_mem1_P_values v_mem1_Q_values v_ncols v_nrows v_A_nrows v_A_rowstride v_cutoff f__mzd_ple f__mzd_trsm_lower_left_russian f__mzd_trsm_lower_left f_mzd_addmul v_A_ncols v_A_width v_A_high_bitmask f__mzd_compress_l = (
      let v_n1 : Int := ((((Int.tdiv (v_ncols - (1 : Int)) (64 : Int)) + (1 : Int)) >>> ((1 : Int)).toNat) * (64 : Int))
      let (v_A0_nrows, v_A0_ncols, v_A0_rowstride, v_A0_width, v_A0_high_bitmask, v_A0_flags, v_A0__data_row, v_A0__data_word) := (M4ri.Gen.C.mzdInitWindow (0 : Int) (0 : Int) v_nrows v_n1 v_A_nrows v_A_rowstride)
      let v_A0__r0 : Int := ((0 : Int) + v_A0__data_row)
      let v_A0__w0 : Int := ((0 : Int) + v_A0__data_word)
      let (v_A1_nrows, v_A1_ncols, v_A1_rowstride, v_A1_width, v_A1_high_bitmask, v_A1_flags, v_A1__data_row, v_A1__data_word) := (M4ri.Gen.C.mzdInitWindow (0 : Int) v_n1 v_nrows v_ncols v_A_nrows v_A_rowstride)
      let v_A1__r0 : Int := ((0 : Int) + v_A1__data_row)
      let v_A1__w0 : Int := ((0 : Int) + v_A1__data_word)
      let v_P1__begin : Int := (0 : Int)
      let v_Q1__begin : Int := (0 : Int)
      let (v_r1, cres0__0, cperm0__0, cperm0__1) := (f__mzd_ple (CLoop.MView.mk (CLoop.view v_mem_A v_A0__r0 v_A0__w0) v_A0_nrows v_A0_ncols v_A0_width v_A0_high_bitmask) (fun i => v_mem1_P_values (v_P1__begin + i)) (fun i => v_mem1_Q_values (v_Q1__begin + i)) v_cutoff)
      let v_mem_A : Int → Int → BitVec 64 := (CLoop.unview v_mem_A v_A0__r0 v_A0__w0 v_A0_nrows v_A0_width cres0__0)
      let v_mem1_P_values : Int → Int := (fun i => if v_P1__begin ≤ i ∧ i < v_P1__begin + (v_nrows - (0 : Int)) then cperm0__0 (i - v_P1__begin) else v_mem1_P_values i)
      let v_mem1_Q_values : Int → Int := (fun i => if v_Q1__begin ≤ i ∧ i < v_Q1__begin + (v_A0_ncols - (0 : Int)) then cperm0__1 (i - v_Q1__begin) else v_mem1_Q_values i)
      seg2 v_mem_A v_mem1_P_values v_mem1_Q_values v_nrows v_ncols v_r1 v_n1 v_cutoff v_A_nrows v_A_rowstride v_P1__begin v_A1_nrows v_A1_ncols v_A1_width v_A1_high_bitmask v_A1__r0 v_A1__w0 f__mzd_ple f__mzd_trsm_lower_left_russian f__mzd_trsm_lower_left f_mzd_addmul v_A_ncols v_A_width v_A_high_bitmask f__mzd_compress_l) := rfl

/-! ### 5. the parts, one by one -/

/-- what the write-back of a permutation window leaves in the permutation memory -/
theorem write_window_arr (P0 P W : Array Nat) (off n : Nat) (hW : W.size = n) (h : off + n ≤ P.size) (len : Int)
    (hlen : len = (n : Int)) :
    (fun i : Int => if (off : Int) ≤ i ∧ i < (off : Int) + len then arrOf W (i - (off : Int)) else arrMem P0 P i)
      = arrMem P0 (Rec.writeAt P off W) := by
  subst hlen
  funext i
  unfold arrMem arrOf Rec.writeAt
  by_cases hi : i < 0
  · rw [if_neg (by omega), if_pos hi, if_pos hi]
  · obtain ⟨j, rfl⟩ : ∃ j : Nat, i = (j : Int) := ⟨i.toNat, by omega⟩
    rw [if_neg hi, if_neg hi, Int.toNat_natCast, getD_mapIdx]
    by_cases h2 : off ≤ j ∧ j < off + n
    · rw [if_pos (by omega), if_pos (by omega), if_pos (by omega)]
      congr 2
      omega
    · rw [if_neg (by omega)]
      by_cases h3 : j < P.size
      · rw [if_pos h3, if_neg (by omega)]
      · rw [if_neg h3]
        simp [Array.getD, h3]

/-- **last part**: the bookkeeping loops (on permutation memories `arrMem P0 P`, `arrMem Q0 Q`) and the lifted
    `_mzd_compress_l` -/
theorem seg4_eq (M : Mzd) (hM : M.WF) (P0 P Q0 Q : Array Nat) (nr nc r1 n1 r2 : Nat)
    (hP : nr ≤ r1 ∨ nr ≤ P.size) (hQ : nc ≤ n1 ∨ nc ≤ Q.size) (hW : r2 = 0 ∨ r1 + r2 ≤ Q.size) (hr2 : r2 ≤ nc)
    (Anr Anc Aw : Int) (Ahb : BitVec 64) (e1 : Anr = M.nrows) (e2 : Anc = M.ncols) (e3 : Aw = M.width)
    (e4 : Ahb = M.hb) :
    seg4 (memOf M) (arrMem P0 P) (arrMem Q0 Q) nr nc r1 n1 r2 r1 n1 Anr Anc Aw Ahb liftCompress =
      (((r1 : Int) + (r2 : Int)), memOf (M.putB (Rec.compressL M.toB r1 n1 r2)),
       arrMem P0 (P.mapIdx fun i p => if r1 ≤ i ∧ i < nr then p + r1 else p),
       arrMem Q0 (qMove (Q.mapIdx fun i q => if n1 ≤ i ∧ i < nc then q + n1 else q) r1 n1 r2)) := by
  subst e1 e2 e3 e4
  unfold seg4
  dsm
  generalize hres : CLoop.loop _ _ _ _ = res
  generalize hres2 : CLoop.loop _ _ _ _ = res2
  have k1 := write_loop hres (fun _ v => v + (r1 : Int)) (r1 : Int) (nr - r1) (by simp)
    (by intro mm k; dsimp only; rw [decide_eq_decide]; omega)
    (by intro mm k hk; dsimp only; simp only [Int.zero_add])
  have k2 := write_loop3 hres2 (fun _ v => v + (n1 : Int)) (n1 : Int) (nc - n1) (by simp)
    (by intro mm k; dsimp only; rw [decide_eq_decide]; omega)
    (by intro mm k hk; dsimp only; simp only [Int.zero_add])
  subst k1 k2
  dsm
  rw [mapMem_arrMem P0 P (fun _ v => v + (r1 : Int)) (fun _ v => v + r1) r1 (nr - r1)
      (fun _ _ => by omega) (by omega),
    mapMem_arrMem Q0 Q (fun _ v => v + (n1 : Int)) (fun _ v => v + n1) n1 (nc - n1)
      (fun _ _ => by omega) (by omega)]
  have eP : (P.mapIdx fun i p => if r1 ≤ i ∧ i < r1 + (nr - r1) then p + r1 else p)
      = (P.mapIdx fun i p => if r1 ≤ i ∧ i < nr then p + r1 else p) := by
    congr 1; funext i p
    by_cases h : r1 ≤ i ∧ i < nr
    · rw [if_pos h, if_pos (by omega)]
    · rw [if_neg h, if_neg (by omega)]
  have eQ : (Q.mapIdx fun i q => if n1 ≤ i ∧ i < n1 + (nc - n1) then q + n1 else q)
      = (Q.mapIdx fun i q => if n1 ≤ i ∧ i < nc then q + n1 else q) := by
    congr 1; funext i q
    by_cases h : n1 ≤ i ∧ i < nc
    · rw [if_pos h, if_pos (by omega)]
    · rw [if_neg h, if_neg (by omega)]
  rw [eP, eQ]
  generalize (Q.mapIdx fun i q => if n1 ≤ i ∧ i < nc then q + n1 else q) = Q1 at *
  have hQ1 : Q1.size = Q.size := by subst_vars; simp
  generalize hres3 : CLoop.loop _ _ _ _ = res3
  have key := for_loop_eq hres3 r2
    (fun k st => st = (arrMem Q0 (qMove Q1 r1 n1 k), (n1 : Int) + (k : Int), (r1 : Int) + (k : Int)))
    (by simpa using hr2) (by simp [qMove]) ?_ ?_
  · subst key
    dsm
    have e := ofView_of M hM
    unfold CLoop.MView.of at e
    unfold liftCompress
    rw [e]
    simp only [Int.toNat_natCast]
  · intro k st _ hP
    subst hP
    dsimp only
    rw [decide_eq_decide]
    omega
  · intro k st hk hP
    subst hP
    dsimp only
    rw [arrMem_nat Q0 _ (n1 + k) _ (by omega)]
    have e : (r1 : Int) + (k : Int) = ((r1 + k : Nat) : Int) := by omega
    rw [e, upd1_arrMem Q0 _ (r1 + k) _ (by rw [qMove_size]; omega), qMove_succ]
    congr 2

/-- the numeric part of the contract of a recursive call -/
theorem goodOut_facts {W : BMat} {r c : Nat} (hW : Shaped W r c) {o : Rec.Out} (h : Rec.GoodOut W o) :
    o.1.nrows = r ∧ o.1.ncols = c ∧ o.2.2.2 ≤ r ∧ o.2.2.2 ≤ c ∧ o.2.1.size = r ∧
      (∀ i, i < r → o.2.1.getD i 0 < r) ∧ o.2.2.1.size = c := by
  have g := h.ple
  refine ⟨by rw [g.nrows_eq, hW.nr], by rw [g.ncols_eq, hW.nc], by have := g.r_le_nrows; rwa [hW.nr] at this,
    by have := g.r_le_ncols; rwa [hW.nc] at this, by rw [g.P_size, hW.nr], fun i hi => ?_, by rw [g.Q_size, hW.nc]⟩
  have := g.P_lapack i (by rw [hW.nr]; exact hi)
  rw [hW.nr] at this
  exact this.2

/-- **third part**: second recursive call on `A11`, write-backs through the windows of `A`, `P`, `Q`,
    `mzd_apply_p_left(A10, P2)`, then the last part -/
theorem seg3_eq (rec : BMat → Rec.Out) (hrec : ∀ W : BMat, W.WF → Rec.GoodOut W (rec W)) (cutoff : Int)
    (M : Mzd) (hM : M.WF) (P0 P Q0 Q : Array Nat) (nr r1 n1 : Nat) (hP : P.size = M.nrows) (hQ : Q.size = M.ncols)
    (hnr : nr ≤ M.nrows) (hr1 : r1 ≤ nr) (hn1 : n1 ≤ M.ncols) (hn64 : n1 % 64 = 0) (hr1n1 : r1 ≤ n1) :
    seg3 (memOf M) (arrMem P0 P) (arrMem Q0 Q) nr M.ncols r1 n1 cutoff (liftPle rec)
      ((nr - r1 : Nat) : Int) ((M.ncols - n1 : Nat) : Int) (((M.ncols - n1 + 63) / 64 : Nat) : Int)
      (leftMask ((M.ncols - n1) % 64)) (r1 : Int) ((n1 / 64 : Nat) : Int)
      ((nr - r1 : Nat) : Int) ((r1 - 0 : Nat) : Int) (((r1 - 0 + 63) / 64 : Nat) : Int)
      (leftMask ((r1 - 0) % 64)) (r1 : Int) ((0 / 64 : Nat) : Int)
      M.nrows M.ncols M.width M.hb liftCompress
    = (((r1 : Int) + ((rec (M.toB.sub r1 n1 nr M.ncols)).2.2.2 : Int)),
       memOf (M.putB (Rec.finishStage M.toB nr n1 r1 (rec (M.toB.sub r1 n1 nr M.ncols)).1
         (rec (M.toB.sub r1 n1 nr M.ncols)).2.1 (rec (M.toB.sub r1 n1 nr M.ncols)).2.2.2)),
       arrMem P0 (Rec.writeAt P r1 ((rec (M.toB.sub r1 n1 nr M.ncols)).2.1.map (· + r1))),
       arrMem Q0 (Rec.rotQ (Rec.writeAt Q n1 ((rec (M.toB.sub r1 n1 nr M.ncols)).2.2.1.map (· + n1))) r1 n1
         (rec (M.toB.sub r1 n1 nr M.ncols)).2.2.2)) := by
  unfold seg3
  dsm
  unfold liftPle
  dsm
  have eW : Mzd.ofView ⟨CLoop.view (memOf M) (r1 : Int) ((n1 / 64 : Nat) : Int), ((nr - r1 : Nat) : Int),
      ((M.ncols - n1 : Nat) : Int), (((M.ncols - n1 + 63) / 64 : Nat) : Int), leftMask ((M.ncols - n1) % 64)⟩
      = M.window r1 n1 nr M.ncols := rfl
  rw [eW, window_toB M r1 n1 nr M.ncols hn64 hnr (Nat.le_refl _)]
  have hMs := shaped_toB' hM
  have hsub : Shaped (M.toB.sub r1 n1 nr M.ncols) (nr - r1) (M.ncols - n1) := hMs.sub _ _ _ _ hnr
  obtain ⟨s1r, s1c, r2r, r2c, p2s, p2l, q2s⟩ := goodOut_facts hsub (hrec _ hsub.wf)
  generalize rec (M.toB.sub r1 n1 nr M.ncols) = o2 at *
  obtain ⟨S1, P2, Q2, r2⟩ := o2
  dsimp only at s1r s1c r2r r2c p2s p2l q2s ⊢
  -- write-back of the second recursive call
  rw [unview_window_putB M hM r1 n1 nr M.ncols hn64 hnr (Nat.le_refl _) S1 s1r s1c]
  have hY5 : Shaped (M.toB.paste r1 n1 S1) M.nrows M.ncols := hMs.paste S1 r1 n1 (by rw [s1c]; omega)
  obtain ⟨M5W, M5B, M5r, M5c⟩ := putB_state hM hY5.wf hY5.nr hY5.nc
  generalize hM5 : M.putB (M.toB.paste r1 n1 S1) = M5 at *
  -- mzd_apply_p_left(A10, P2)
  rw [applyP_window M5 M5W r1 0 nr r1 ⟨rfl, by omega, by omega⟩ P2 p2s p2l _ _ (by omega)
    (by
      intro i hi
      rw [if_pos (by omega)]
      unfold arrOf
      congr 2
      omega)]
  have hsub10 : Shaped (M5.toB.sub r1 0 nr r1) (nr - r1) (r1 - 0) := by
    rw [M5B]; exact hY5.sub _ _ _ _ hnr
  have hsh := BMat.applyPLeft_shape (M5.toB.sub r1 0 nr r1) P2
  have hY6 : Shaped (M5.toB.paste r1 0 ((M5.toB.sub r1 0 nr r1).applyPLeft P2)) M.nrows M.ncols := by
    rw [M5B] at hsub10 hsh ⊢
    exact hY5.paste _ r1 0 (by rw [hsh.2.1, hsub10.nc]; omega)
  obtain ⟨M6W, M6B, M6r, M6c⟩ := putB_state M5W hY6.wf (by rw [hY6.nr, M5r]) (by rw [hY6.nc, M5c])
  -- the permutation memories
  rw [write_window_arr P0 P P2 r1 (nr - r1) p2s (by omega) _ (by omega),
    write_window_arr Q0 Q Q2 n1 (M.ncols - n1) q2s (by omega) _ (by omega)]
  rw [seg4_eq _ M6W P0 _ Q0 _ nr M.ncols r1 n1 r2 (Or.inr (by simp [Rec.writeAt]; omega))
    (Or.inr (by simp [Rec.writeAt]; omega)) (Or.inr (by simp [Rec.writeAt]; omega)) (by omega) _ _ _ _
    (by rw [Mzd.nrows_putB, M5r]) (by rw [Mzd.ncols_putB, M5c])
    (by rw [Mzd.width_putB]; exact congrArg _ (width_of_ncols M5c).symm)
    (by rw [Mzd.hb_putB]; exact (hb_of_ncols M5c).symm)]
  rw [mapIdx_writeAt P P2 r1 nr p2s, mapIdx_writeAt Q Q2 n1 M.ncols q2s, M6B, M5B, Mzd.putB_putB M5W, ← hM5,
    Mzd.putB_putB hM]
  rfl

/-- reading back the block that was just written -/
theorem sub_paste_self {D X : BMat} {m n : Nat} (hD : Shaped D m n) (r0 c0 r1 c1 : Nat)
    (hX : Shaped X (r1 - r0) (c1 - c0)) (hr : r1 ≤ m) (hc0 : c0 ≤ c1) (hc : c1 ≤ n) :
    (D.paste r0 c0 X).sub r0 c0 r1 c1 = X := by
  have hP : Shaped (D.paste r0 c0 X) m n := hD.paste X r0 c0 (by rw [hX.nc]; omega)
  apply (hP.sub r0 c0 r1 c1 hr).ext hX
  intro i j hi hj
  rw [hP.get_sub r0 c0 r1 c1 i j hr, hD.get_paste_window r0 c0 r1 c1 hX hr]
  have e1 : r0 + i - r0 = i := by omega
  have e2 : c0 + j - c0 = j := by omega
  rw [if_pos (by omega), e1, e2]
  simp [hi, hj]

/-- **call rule for the translated `_mzd_trsm_lower_left(A00, A01)`** (windows `A00 = [0,r1) × [0,r1)`,
    `A01 = [0,r1) × [n1,ncols)` of the same matrix), from the contract `TrsmOK` -/
theorem trsm_window {cutoff rs : Int} {fruss frec : CLoop.MView → CLoop.MView → Int → (Int → Int → BitVec 64)}
    {fadd : CLoop.MView → CLoop.MView → CLoop.MView → Int → (Int → Int → BitVec 64)} {trsm : BMat → BMat → BMat}
    (hT : TrsmOK cutoff rs fruss frec fadd trsm) (M : Mzd) (hM : M.WF) (r1 n1 : Nat) (hr1 : 1 ≤ r1)
    (hr1m : r1 ≤ M.nrows) (hr1c : r1 ≤ M.ncols) (hn64 : n1 % 64 = 0) (hn1 : n1 < M.ncols)
    (hXr : (trsm (M.toB.sub 0 0 r1 r1) (M.toB.sub 0 n1 r1 M.ncols)).nrows = r1 - 0)
    (hXc : (trsm (M.toB.sub 0 0 r1 r1) (M.toB.sub 0 n1 r1 M.ncols)).ncols = M.ncols - n1) :
    CLoop.unview (memOf M) ((0 : Nat) : Int) ((n1 / 64 : Nat) : Int) ((r1 - 0 : Nat) : Int)
        (((M.ncols - n1 + 63) / 64 : Nat) : Int)
        (Gen.C.trsmLowerLeftRec cutoff (CLoop.view (memOf M) ((0 : Nat) : Int) ((n1 / 64 : Nat) : Int))
          ((r1 - 0 : Nat) : Int) ((M.ncols - n1 : Nat) : Int)
          (CLoop.view (memOf M) ((0 : Nat) : Int) ((0 / 64 : Nat) : Int)) (((M.ncols - n1 + 63) / 64 : Nat) : Int)
          ((r1 - 0 : Nat) : Int) ((r1 - 0 : Nat) : Int) (((r1 - 0 + 63) / 64 : Nat) : Int)
          (leftMask ((r1 - 0) % 64)) (leftMask ((M.ncols - n1) % 64)) fruss rs rs frec fadd)
      = memOf (M.putB (M.toB.paste 0 n1 (trsm (M.toB.sub 0 0 r1 r1) (M.toB.sub 0 n1 r1 M.ncols)))) := by
  apply unview_agree_putB M hM 0 n1 r1 M.ncols ⟨hn64, hr1m, Nat.le_refl _⟩ _ hXr hXc
  have := hT (M.window 0 0 r1 r1) (M.window 0 n1 r1 M.ncols) _ _ (window_WF _ _ _ _ _) (window_WF _ _ _ _ _)
    (by simp) (by simp) (by simp; omega) (by simp; omega)
    (by rw [nrows_window, width_window]; exact view_agree_window M 0 0 r1 r1)
    (by rw [nrows_window, width_window]; exact view_agree_window M 0 n1 r1 M.ncols)
  rw [window_toB M 0 0 r1 r1 rfl hr1m hr1c, window_toB M 0 n1 r1 M.ncols hn64 hr1m (Nat.le_refl _)] at this
  simp only [nrows_window, ncols_window, width_window, hb_window] at this
  exact this

/-- the Schur-complement stage of the model on the state after the first write-back -/
def schurTail (trsm : BMat → BMat → BMat) (Y : BMat) (nr n1 ncols : Nat) (P1 : Array Nat) (r1 : Nat) : BMat :=
  if r1 ≠ 0 then
    let A := Y.paste 0 n1 ((Y.sub 0 n1 nr ncols).applyPLeft P1)
    let A01 := trsm (A.sub 0 0 r1 r1) (A.sub 0 n1 r1 ncols)
    let A := A.paste 0 n1 A01
    A.paste r1 n1 ((A.sub r1 n1 nr ncols).add ((A.sub r1 0 nr r1).mul A01))
  else Y

theorem schurStage_eq (trsm : BMat → BMat → BMat) (A : BMat) (nr n1 ncols : Nat) (S0 : BMat) (P1 : Array Nat)
    (r1 : Nat) : Rec.schurStage trsm A nr n1 ncols S0 P1 r1 = schurTail trsm (A.paste 0 0 S0) nr n1 ncols P1 r1 :=
  rfl

/-- **the Schur-complement block**: `mzd_apply_p_left(A1, P1)`, `_mzd_trsm_lower_left(A00, A01)`,
    `mzd_addmul(A11, A10, A01)` -/
theorem schurMem_eq {cutoff rs : Int} {fruss frec : CLoop.MView → CLoop.MView → Int → (Int → Int → BitVec 64)}
    {trsm : BMat → BMat → BMat}
    (hT : TrsmOK cutoff rs fruss frec (fun C A B _ => liftM3 (fun C A B => C.add (A.mul B)) C A B) trsm)
    (htrsm : ∀ (L B : BMat) (r c : Nat), Shaped B r c → L.nrows = r → Shaped (trsm L B) r c)
    (M : Mzd) (hM : M.WF) (nr n1 r1 : Nat) (hnr : nr ≤ M.nrows) (hr1 : r1 ≤ nr) (hr1n1 : r1 ≤ n1)
    (hn1 : n1 ≤ M.ncols) (hn64 : n1 % 64 = 0) (hn1lt : r1 ≠ 0 → n1 < M.ncols)
    (P1 : Array Nat) (p1s : P1.size = nr) (p1l : ∀ i, i < nr → P1.getD i 0 < nr) (Pv : Int → Int)
    (hPv : ∀ i : Nat, i < nr → Pv (0 + (i : Int)) = ((P1.getD i 0 : Nat) : Int)) :
    schurMem (memOf M) Pv nr r1 cutoff 0
      ((nr - 0 : Nat) : Int) ((M.ncols - n1 : Nat) : Int) (((M.ncols - n1 + 63) / 64 : Nat) : Int)
      (leftMask ((M.ncols - n1) % 64)) ((0 : Nat) : Int) ((n1 / 64 : Nat) : Int)
      ((r1 - 0 : Nat) : Int) ((r1 - 0 : Nat) : Int) (((r1 - 0 + 63) / 64 : Nat) : Int)
      (leftMask ((r1 - 0) % 64)) ((0 : Nat) : Int) ((0 / 64 : Nat) : Int) rs
      ((r1 - 0 : Nat) : Int) ((M.ncols - n1 : Nat) : Int) (((M.ncols - n1 + 63) / 64 : Nat) : Int)
      (leftMask ((M.ncols - n1) % 64)) ((0 : Nat) : Int) ((n1 / 64 : Nat) : Int) rs
      ((nr - r1 : Nat) : Int) ((r1 - 0 : Nat) : Int) (((r1 - 0 + 63) / 64 : Nat) : Int)
      (leftMask ((r1 - 0) % 64)) (r1 : Int) ((0 / 64 : Nat) : Int)
      ((nr - r1 : Nat) : Int) ((M.ncols - n1 : Nat) : Int) (((M.ncols - n1 + 63) / 64 : Nat) : Int)
      (leftMask ((M.ncols - n1) % 64)) (r1 : Int) ((n1 / 64 : Nat) : Int)
      fruss frec (fun C A B _ => liftM3 (fun C A B => C.add (A.mul B)) C A B)
    = memOf (M.putB (schurTail trsm M.toB nr n1 M.ncols P1 r1)) := by
  unfold schurMem schurTail
  by_cases h0 : r1 = 0
  · rw [if_neg (by simp [h0]), if_neg (by simp [h0]), Mzd.putB_toB hM]
  rw [if_pos (by simpa using (show (r1 : Int) ≠ 0 by omega)), if_pos h0]
  dsm
  have hn1' := hn1lt h0
  generalize hnc : M.ncols = nc at *
  have hMs : Shaped M.toB M.nrows nc := ⟨Mzd.WF_toB hM, rfl, hnc⟩
  -- mzd_apply_p_left(A1, P1)
  rw [applyP_window M hM 0 n1 nr nc ⟨hn64, hnr, by omega⟩ P1 (by omega) (fun i hi => by have := p1l i (by omega); omega)
    _ _ (by omega) (fun i hi => hPv i (by omega))]
  have hsub1 : Shaped (M.toB.sub 0 n1 nr nc) (nr - 0) (nc - n1) := hMs.sub _ _ _ _ hnr
  have hsh1 := BMat.applyPLeft_shape (M.toB.sub 0 n1 nr nc) P1
  have hY2 : Shaped (M.toB.paste 0 n1 ((M.toB.sub 0 n1 nr nc).applyPLeft P1)) M.nrows nc :=
    hMs.paste _ 0 n1 (by rw [hsh1.2.1, hsub1.nc]; omega)
  obtain ⟨M2W, M2B, M2r, M2c⟩ := putB_state hM hY2.wf hY2.nr (by rw [hY2.nc, hnc])
  generalize hY2' : M.toB.paste 0 n1 ((M.toB.sub 0 n1 nr nc).applyPLeft P1) = Y2 at *
  generalize hM2 : M.putB Y2 = M2 at *
  rw [hnc] at M2c
  -- _mzd_trsm_lower_left(A00, A01)
  have hX01 : Shaped (trsm (Y2.sub 0 0 r1 r1) (Y2.sub 0 n1 r1 nc)) (r1 - 0) (nc - n1) :=
    htrsm _ _ _ _ (hY2.sub 0 n1 r1 nc (by omega)) (by rw [nrows_sub, hY2.nr]; omega)
  have s2 := trsm_window hT M2 M2W r1 n1 (by omega) (by omega) (by omega) hn64 (by omega)
    (by rw [M2B, M2c]; exact hX01.nr) (by rw [M2B, M2c]; exact hX01.nc)
  rw [M2c, M2B] at s2
  rw [s2]
  generalize hX01' : trsm (Y2.sub 0 0 r1 r1) (Y2.sub 0 n1 r1 nc) = X01 at *
  have hY3 : Shaped (Y2.paste 0 n1 X01) M.nrows nc := hY2.paste _ 0 n1 (by rw [hX01.nc]; omega)
  obtain ⟨M3W, M3B, M3r, M3c⟩ := putB_state M2W hY3.wf (by rw [hY3.nr, M2r]) (by rw [hY3.nc, M2c])
  generalize hY3' : Y2.paste 0 n1 X01 = Y3 at *
  generalize hM3 : M2.putB Y3 = M3 at *
  rw [M2c] at M3c
  -- mzd_addmul(A11, A10, A01)
  have hX11 : Shaped ((Y3.sub r1 n1 nr nc).add ((Y3.sub r1 0 nr r1).mul (Y3.sub 0 n1 r1 nc))) (nr - r1) (nc - n1) :=
    (hY3.sub r1 n1 nr nc (by omega)).add ((hY3.sub r1 0 nr r1 (by omega)).mul (hY3.sub 0 n1 r1 nc (by omega)))
  have s3 := call3_window (fun C A B => C.add (A.mul B)) M3 M3 M3 M3W r1 n1 nr nc r1 0 nr r1 0 n1 r1 nc
    ⟨hn64, by omega, by omega⟩ ⟨rfl, by omega, by omega⟩ ⟨hn64, by omega, by omega⟩
    (by rw [M3B]; exact hX11.nr) (by rw [M3B]; exact hX11.nc)
  rw [M3B] at s3
  rw [s3]
  have e01 : Y3.sub 0 n1 r1 nc = X01 := by
    rw [← hY3']
    exact sub_paste_self hY2 0 n1 r1 nc hX01 (by omega) (by omega) (Nat.le_refl _)
  rw [e01, ← hM3, ← hM2, Mzd.putB_putB hM, Mzd.putB_putB hM]

theorem shaped_schurTail {trsm : BMat → BMat → BMat}
    (htrsm : ∀ (L B : BMat) (r c : Nat), Shaped B r c → L.nrows = r → Shaped (trsm L B) r c)
    {Y : BMat} {m n : Nat} (hY : Shaped Y m n) (nr n1 r1 : Nat) (hnr : nr ≤ m) (hr1 : r1 ≤ nr) (hn1 : n1 ≤ n)
    (P1 : Array Nat) : Shaped (schurTail trsm Y nr n1 n P1 r1) m n := by
  unfold schurTail
  by_cases h0 : r1 = 0
  · rw [if_neg (by simp [h0])]; exact hY
  rw [if_pos h0]
  dsimp only
  have hsub1 : Shaped (Y.sub 0 n1 nr n) (nr - 0) (n - n1) := hY.sub _ _ _ _ hnr
  have hsh1 := BMat.applyPLeft_shape (Y.sub 0 n1 nr n) P1
  have hY2 : Shaped (Y.paste 0 n1 ((Y.sub 0 n1 nr n).applyPLeft P1)) m n :=
    hY.paste _ 0 n1 (by rw [hsh1.2.1, hsub1.nc]; omega)
  generalize Y.paste 0 n1 ((Y.sub 0 n1 nr n).applyPLeft P1) = Y2 at *
  have hX01 : Shaped (trsm (Y2.sub 0 0 r1 r1) (Y2.sub 0 n1 r1 n)) (r1 - 0) (n - n1) :=
    htrsm _ _ _ _ (hY2.sub 0 n1 r1 n (by omega)) (by rw [nrows_sub, hY2.nr]; omega)
  generalize trsm (Y2.sub 0 0 r1 r1) (Y2.sub 0 n1 r1 n) = X01 at *
  have hY3 : Shaped (Y2.paste 0 n1 X01) m n := hY2.paste _ 0 n1 (by rw [hX01.nc]; omega)
  generalize Y2.paste 0 n1 X01 = Y3 at *
  have hX11 : Shaped ((Y3.sub r1 n1 nr n).add ((Y3.sub r1 0 nr r1).mul X01)) (nr - r1) (n - n1) :=
    (hY3.sub r1 n1 nr n (by omega)).add ((hY3.sub r1 0 nr r1 (by omega)).mul (by simpa using hX01))
  exact hY3.paste _ r1 n1 (by rw [hX11.nc]; omega)

/-- **second part**: the four windows, the Schur complement, then the third part -/
theorem seg2_eq (rec : BMat → Rec.Out) (hrec : ∀ W : BMat, W.WF → Rec.GoodOut W (rec W))
    {cutoff rs : Int} {fruss frec : CLoop.MView → CLoop.MView → Int → (Int → Int → BitVec 64)}
    {trsm : BMat → BMat → BMat}
    (hT : TrsmOK cutoff rs fruss frec (fun C A B _ => liftM3 (fun C A B => C.add (A.mul B)) C A B) trsm)
    (htrsm : ∀ (L B : BMat) (r c : Nat), Shaped B r c → L.nrows = r → Shaped (trsm L B) r c)
    (M : Mzd) (hM : M.WF) (P0 P Q0 Q : Array Nat) (nr n1 r1 : Nat) (hP : P.size = M.nrows) (hQ : Q.size = M.ncols)
    (hnr : nr ≤ M.nrows) (hr1 : r1 ≤ nr) (hr1n1 : r1 ≤ n1)
    (hn1 : n1 ≤ M.ncols) (hn64 : n1 % 64 = 0) (hn1lt : r1 ≠ 0 → n1 < M.ncols)
    (P1 : Array Nat) (p1s : P1.size = nr) (p1l : ∀ i, i < nr → P1.getD i 0 < nr)
    (hP1 : ∀ i, i < nr → P.getD i 0 = P1.getD i 0) :
    seg2 (memOf M) (arrMem P0 P) (arrMem Q0 Q) nr M.ncols r1 n1 cutoff M.nrows rs 0
      ((nr - 0 : Nat) : Int) ((M.ncols - n1 : Nat) : Int) (((M.ncols - n1 + 63) / 64 : Nat) : Int)
      (leftMask ((M.ncols - n1) % 64)) ((0 : Nat) : Int) ((n1 / 64 : Nat) : Int)
      (liftPle rec) fruss frec (fun C A B _ => liftM3 (fun C A B => C.add (A.mul B)) C A B)
      M.ncols M.width M.hb liftCompress
    = (((r1 : Int) + ((rec ((schurTail trsm M.toB nr n1 M.ncols P1 r1).sub r1 n1 nr M.ncols)).2.2.2 : Int)),
       memOf (M.putB (Rec.finishStage (schurTail trsm M.toB nr n1 M.ncols P1 r1) nr n1 r1
         (rec ((schurTail trsm M.toB nr n1 M.ncols P1 r1).sub r1 n1 nr M.ncols)).1
         (rec ((schurTail trsm M.toB nr n1 M.ncols P1 r1).sub r1 n1 nr M.ncols)).2.1
         (rec ((schurTail trsm M.toB nr n1 M.ncols P1 r1).sub r1 n1 nr M.ncols)).2.2.2)),
       arrMem P0 (Rec.writeAt P r1
         ((rec ((schurTail trsm M.toB nr n1 M.ncols P1 r1).sub r1 n1 nr M.ncols)).2.1.map (· + r1))),
       arrMem Q0 (Rec.rotQ (Rec.writeAt Q n1
         ((rec ((schurTail trsm M.toB nr n1 M.ncols P1 r1).sub r1 n1 nr M.ncols)).2.2.1.map (· + n1))) r1 n1
         (rec ((schurTail trsm M.toB nr n1 M.ncols P1 r1).sub r1 n1 nr M.ncols)).2.2.2)) := by
  unfold seg2
  dsm
  rw [mzdInitWindow_in 0 0 r1 r1 M.nrows rs 0 0 r1 r1 M.nrows rfl rfl rfl rfl rfl rfl (by omega) (by omega)
      (by omega),
    mzdInitWindow_in r1 0 nr r1 M.nrows rs r1 0 nr r1 M.nrows rfl rfl rfl rfl rfl rfl (by omega) (by omega)
      (by omega),
    mzdInitWindow_in 0 n1 r1 M.ncols M.nrows rs 0 n1 r1 M.ncols M.nrows rfl rfl rfl rfl rfl hn64 (by omega)
      (by omega) (by omega),
    mzdInitWindow_in r1 n1 nr M.ncols M.nrows rs r1 n1 nr M.ncols M.nrows rfl rfl rfl rfl rfl hn64 (by omega)
      (by omega) (by omega)]
  dsm
  simp only [Int.zero_add]
  rw [schurMem_eq hT htrsm M hM nr n1 r1 hnr hr1 hr1n1 hn1 hn64 hn1lt P1 p1s p1l (arrMem P0 P)
    (fun i hi => by rw [arrMem_nat P0 P i _ (by omega), hP1 i hi])]
  have hY4 : Shaped (schurTail trsm M.toB nr n1 M.ncols P1 r1) M.nrows M.ncols :=
    shaped_schurTail htrsm (shaped_toB' hM) nr n1 r1 hnr hr1 hn1 P1
  obtain ⟨M4W, M4B, M4r, M4c⟩ := putB_state hM hY4.wf hY4.nr hY4.nc
  have s3 := seg3_eq rec hrec cutoff (M.putB (schurTail trsm M.toB nr n1 M.ncols P1 r1)) M4W P0 P Q0 Q nr r1 n1
    (by rw [M4r]; exact hP) (by rw [M4c]; exact hQ) (by rw [M4r]; exact hnr) hr1 (by rw [M4c]; exact hn1) hn64 hr1n1
  rw [M4B, Mzd.putB_putB hM] at s3
  simp only [Mzd.nrows_putB, Mzd.ncols_putB, Mzd.width_putB, Mzd.hb_putB] at s3
  exact s3

theorem splitPoint_mod (n : Nat) : Rec.splitPoint n % 64 = 0 := by
  unfold Rec.splitPoint; omega

theorem write_window_arr0 (P0 P W : Array Nat) (n : Nat) (hW : W.size = n) (h : n ≤ P.size) (len : Int)
    (hlen : len = (n : Int)) :
    (fun i : Int => if (0 : Int) ≤ i ∧ i < len then arrOf W (i - (0 : Int)) else arrMem P0 P i)
      = arrMem P0 (Rec.writeAt P 0 W) := by
  have := write_window_arr P0 P W 0 n hW (by omega) len hlen
  simp only [Int.natCast_zero, Int.zero_add] at this
  exact this

/-! ### 6. the one-step theorem -/

/-- **one step of `_mzd_ple`, recursive branch** (general form: `rec` is any function with the contract
    `GoodOut`, `trsm` any function that the translated `_mzd_trsm_lower_left` computes; `P`, `Q` arbitrary arrays
    of the right lengths; `nr` any number of rows `≤ A.nrows`). -/
theorem pleRecStep_eq (rec : BMat → Rec.Out) (hrec : ∀ W : BMat, W.WF → Rec.GoodOut W (rec W))
    {cutoff rs : Int} {fruss frec : CLoop.MView → CLoop.MView → Int → (Int → Int → BitVec 64)}
    {trsm : BMat → BMat → BMat}
    (hT : TrsmOK cutoff rs fruss frec (fun C A B _ => liftM3 (fun C A B => C.add (A.mul B)) C A B) trsm)
    (htrsm : ∀ (L B : BMat) (r c : Nat), Shaped B r c → L.nrows = r → Shaped (trsm L B) r c)
    (A : Mzd) (hA : A.WF) (nr : Nat) (hnr : nr ≤ A.nrows) (P Q : Array Nat) (hP : P.size = A.nrows)
    (hQ : Q.size = A.ncols) :
    Gen.C.pleRecStep (memOf A) (arrOf P) (arrOf Q) A.ncols nr A.nrows rs cutoff (liftPle rec) fruss frec
      (fun C A B _ => liftM3 (fun C A B => C.add (A.mul B)) C A B) A.ncols A.width A.hb liftCompress
    = (let n1 := Rec.splitPoint A.ncols
       let o1 := rec (A.toB.sub 0 0 nr n1)
       let A4 := Rec.schurStage trsm A.toB nr n1 A.ncols o1.1 o1.2.1 o1.2.2.2
       let o2 := rec (A4.sub o1.2.2.2 n1 nr A.ncols)
       (((o1.2.2.2 : Nat) : Int) + ((o2.2.2.2 : Nat) : Int),
        memOf (A.putB (Rec.finishStage A4 nr n1 o1.2.2.2 o2.1 o2.2.1 o2.2.2.2)),
        arrMem P (Rec.writeAt (Rec.writeAt P 0 o1.2.1) o1.2.2.2 (o2.2.1.map (· + o1.2.2.2))),
        arrMem Q (Rec.rotQ (Rec.writeAt (Rec.writeAt Q 0 o1.2.2.1) n1 (o2.2.2.1.map (· + n1))) o1.2.2.2 n1
          o2.2.2.2))) := by
  rw [pleRecStep_split]
  dsm
  have hsp : ((Int.tdiv ((A.ncols : Int) - 1) 64 + 1) >>> (1 : Int).toNat) * 64
      = ((Rec.splitPoint A.ncols : Nat) : Int) := GenTie.pleSplit_eq A.ncols
  rw [hsp]
  have hk := Rec.splitPoint_le A.ncols
  have hk64 := splitPoint_mod A.ncols
  have hklt : 0 < A.ncols → Rec.splitPoint A.ncols < A.ncols := Rec.splitPoint_lt A.ncols
  generalize Rec.splitPoint A.ncols = n1 at *
  rw [mzdInitWindow_in 0 0 nr n1 A.nrows rs 0 0 nr n1 A.nrows rfl rfl rfl rfl rfl rfl (by omega) (by omega) hnr,
    mzdInitWindow_in 0 n1 nr A.ncols A.nrows rs 0 n1 nr A.ncols A.nrows rfl rfl rfl rfl rfl hk64 (by omega) hk hnr]
  dsm
  rw [liftPle]
  dsm
  simp only [Int.zero_add]
  have eW : Mzd.ofView ⟨CLoop.view (memOf A) ((0 : Nat) : Int) ((0 / 64 : Nat) : Int), ((nr - 0 : Nat) : Int),
      ((n1 - 0 : Nat) : Int), (((n1 - 0 + 63) / 64 : Nat) : Int), leftMask ((n1 - 0) % 64)⟩
      = A.window 0 0 nr n1 := rfl
  rw [eW, window_toB A 0 0 nr n1 rfl hnr hk]
  have hAs := shaped_toB' hA
  have hsub : Shaped (A.toB.sub 0 0 nr n1) (nr - 0) (n1 - 0) := hAs.sub _ _ _ _ hnr
  obtain ⟨s0r, s0c, r1r, r1c, p1s, p1l, q1s⟩ := goodOut_facts hsub (hrec _ hsub.wf)
  generalize rec (A.toB.sub 0 0 nr n1) = o1 at *
  obtain ⟨S0, P1, Q1, r1⟩ := o1
  dsimp only at s0r s0c r1r r1c p1s p1l q1s ⊢
  rw [unview_window_putB A hA 0 0 nr n1 rfl hnr hk S0 s0r s0c, arrOf_eq_arrMem P, arrOf_eq_arrMem Q,
    write_window_arr0 P P P1 (nr - 0) p1s (by omega) _ (by omega),
    write_window_arr0 Q Q Q1 (n1 - 0) q1s (by omega) _ (by omega)]
  have hY1 : Shaped (A.toB.paste 0 0 S0) A.nrows A.ncols := hAs.paste S0 0 0 (by rw [s0c]; omega)
  obtain ⟨M1W, M1B, M1r, M1c⟩ := putB_state hA hY1.wf hY1.nr hY1.nc
  have s2 := seg2_eq rec hrec hT htrsm (A.putB (A.toB.paste 0 0 S0)) M1W P (Rec.writeAt P 0 P1) Q
    (Rec.writeAt Q 0 Q1) nr n1 r1 (by rw [Rec.size_writeAt, M1r]; exact hP) (by rw [Rec.size_writeAt, M1c]; exact hQ)
    (by rw [M1r]; exact hnr) (by omega) (by omega) (by rw [M1c]; exact hk) hk64
    (by rw [M1c]; intro h; exact hklt (by omega)) P1 (by omega) (fun i hi => by have := p1l i (by omega); omega)
    (fun i hi => by rw [Rec.getD_writeAt P 0 P1 i (by omega), if_pos (by omega)]; rfl)
  rw [M1B, Mzd.putB_putB hA] at s2
  simp only [Mzd.nrows_putB, Mzd.ncols_putB, Mzd.width_putB, Mzd.hb_putB] at s2
  rw [schurStage_eq]
  exact s2

/-! ### 7. the contract `TrsmOK` from a whole-matrix tie: `Gen.C.trsmLowerLeftRec` only sees the rows and words
  of its two matrices -/

/-- a lifted two-operand callee through windows keeps two memories in agreement -/
theorem call2_agree (op : BMat → BMat → BMat) {R W RA WA : Nat} {m m' mA mA' : Int → Int → BitVec 64}
    (hag : AgreeOn R W m m') (hagA : AgreeOn RA WA mA mA') (ar aw anr anw br bw bnr bnw : Nat)
    (hA1 : ar + anr ≤ RA) (hA2 : aw + anw ≤ WA) (hB1 : br + bnr ≤ R) (hB2 : bw + bnw ≤ W) (ac bc : Int)
    (ah bh : BitVec 64) :
    AgreeOn R W
      (CLoop.unview m (br : Int) (bw : Int) (bnr : Int) (bnw : Int)
        (liftM2 op ⟨CLoop.view mA (ar : Int) (aw : Int), (anr : Int), ac, (anw : Int), ah⟩
          ⟨CLoop.view m (br : Int) (bw : Int), (bnr : Int), bc, (bnw : Int), bh⟩))
      (CLoop.unview m' (br : Int) (bw : Int) (bnr : Int) (bnw : Int)
        (liftM2 op ⟨CLoop.view mA' (ar : Int) (aw : Int), (anr : Int), ac, (anw : Int), ah⟩
          ⟨CLoop.view m' (br : Int) (bw : Int), (bnr : Int), bc, (bnw : Int), bh⟩)) := by
  apply hag.unview
  apply liftM2_congr
  · rw [Int.toNat_natCast, Int.toNat_natCast]; exact hagA.view ar aw anr anw hA1 hA2
  · rw [Int.toNat_natCast, Int.toNat_natCast]; exact hag.view br bw bnr bnw hB1 hB2

/-- a lifted three-operand callee (`mzd_addmul(C, A, B)`: `C`, `B` windows of the memory that is written, `A` a window
    of another one) keeps two memories in agreement -/
theorem call3_agree (op : BMat → BMat → BMat → BMat) {R W RA WA : Nat} {m m' mA mA' : Int → Int → BitVec 64}
    (hag : AgreeOn R W m m') (hagA : AgreeOn RA WA mA mA') (cr cw cnr cnw ar aw anr anw br bw bnr bnw : Nat)
    (hC1 : cr + cnr ≤ R) (hC2 : cw + cnw ≤ W) (hA1 : ar + anr ≤ RA) (hA2 : aw + anw ≤ WA) (hB1 : br + bnr ≤ R)
    (hB2 : bw + bnw ≤ W) (cc ac bc : Int) (ch ah bh : BitVec 64) :
    AgreeOn R W
      (CLoop.unview m (cr : Int) (cw : Int) (cnr : Int) (cnw : Int)
        (liftM3 op ⟨CLoop.view m (cr : Int) (cw : Int), (cnr : Int), cc, (cnw : Int), ch⟩
          ⟨CLoop.view mA (ar : Int) (aw : Int), (anr : Int), ac, (anw : Int), ah⟩
          ⟨CLoop.view m (br : Int) (bw : Int), (bnr : Int), bc, (bnw : Int), bh⟩))
      (CLoop.unview m' (cr : Int) (cw : Int) (cnr : Int) (cnw : Int)
        (liftM3 op ⟨CLoop.view m' (cr : Int) (cw : Int), (cnr : Int), cc, (cnw : Int), ch⟩
          ⟨CLoop.view mA' (ar : Int) (aw : Int), (anr : Int), ac, (anw : Int), ah⟩
          ⟨CLoop.view m' (br : Int) (bw : Int), (bnr : Int), bc, (bnw : Int), bh⟩)) := by
  apply hag.unview
  apply liftM3_congr
  · rw [Int.toNat_natCast, Int.toNat_natCast]; exact hag.view cr cw cnr cnw hC1 hC2
  · rw [Int.toNat_natCast, Int.toNat_natCast]; exact hagA.view ar aw anr anw hA1 hA2
  · rw [Int.toNat_natCast, Int.toNat_natCast]; exact hag.view br bw bnr bnw hB1 hB2

/-- `__M4RI_MUL_BLOCKSIZE` is 2048 in the translated configuration -/
theorem blocksize_eq : (if (decide ((Int.tdiv (Int.ofNat (Nat.sqrt (((4 : Int) * (56623104 : Int))).toNat)) (2 : Int)) < (2048 : Int))) then (Int.tdiv (Int.ofNat (Nat.sqrt (((4 : Int) * (56623104 : Int))).toNat)) (2 : Int)) else (2048 : Int)) = 2048 := by
  decide +kernel

theorem trsmLowerLeftRec_agree (opR opT : BMat → BMat → BMat) (cutoff rsB rsL : Int) (L B : Mzd)
    (hLr : L.nrows = B.nrows) (hLc : L.ncols = B.nrows) (h1 : 1 ≤ B.ncols)
    (mL mB : Int → Int → BitVec 64) (agL : AgreeOn L.nrows L.width mL (memOf L))
    (agB : AgreeOn B.nrows B.width mB (memOf B)) :
    AgreeOn B.nrows B.width
      (Gen.C.trsmLowerLeftRec cutoff mB B.nrows B.ncols mL B.width L.nrows L.ncols L.width L.hb B.hb
        (fun L B _ => liftM2 opR L B) rsB rsL (fun L B _ => liftM2 opT L B)
        (fun C A B _ => liftM3 (fun C A B => C.add (A.mul B)) C A B))
      (Gen.C.trsmLowerLeftRec cutoff (memOf B) B.nrows B.ncols (memOf L) B.width L.nrows L.ncols L.width L.hb B.hb
        (fun L B _ => liftM2 opR L B) rsB rsL (fun L B _ => liftM2 opT L B)
        (fun C A B _ => liftM3 (fun C A B => C.add (A.mul B)) C A B)) := by
  unfold Gen.C.trsmLowerLeftRec
  dsimp_m
  simp_m [blocksize_eq]
  by_cases hb64 : B.nrows ≤ 64
  · rw [if_pos (by simpa using (show (B.nrows : Int) ≤ 64 by omega)),
      if_pos (by simpa using (show (B.nrows : Int) ≤ 64 by omega))]
    -- the inline 64-row kernel: three nested loops
    have hwB : 1 ≤ B.width := by unfold Mzd.width widthOf; omega
    have agB' := AgI.of agB
    have agL' := AgI.of agL
    generalize hres : CLoop.loop _ _ _ _ = res
    generalize hres' : CLoop.loop _ _ _ _ = res'
    have key := loop_rel_eq hres hres'
      (fun s s' => s.2 = s'.2 ∧ 0 ≤ s.2 ∧ AgI B.nrows B.width s.1 s'.1) ⟨rfl, by omega, agB'⟩ ?_ ?_
    · obtain ⟨M, i⟩ := res
      obtain ⟨M', i'⟩ := res'
      exact key.2.2.to
    · intro s s' hR
      obtain ⟨M, i⟩ := s
      obtain ⟨M', i'⟩ := s'
      obtain ⟨k1, k2, k3⟩ := hR
      dsimp only at k1 k2 k3 ⊢
      subst k1
      rfl
    · intro s s' hR hcs
      obtain ⟨M, i⟩ := s
      obtain ⟨M', i'⟩ := s'
      obtain ⟨k1, k2, k3⟩ := hR
      dsimp_m at k1 k2 k3 hcs ⊢
      subst k1
      have hi : i < (B.nrows : Int) := by simpa using hcs
      generalize hres2 : CLoop.loop _ _ _ _ = res2
      generalize hres2' : CLoop.loop _ _ _ _ = res2'
      have key2 := loop_rel_eq hres2 hres2'
        (fun s s' => s.2 = s'.2 ∧ 0 ≤ s.2 ∧ AgI B.nrows B.width s.1 s'.1) ⟨rfl, Int.le_refl _, k3⟩ ?_ ?_
      · obtain ⟨M2, k⟩ := res2
        obtain ⟨M2', k'⟩ := res2'
        dsimp_m
        exact ⟨rfl, by omega, key2.2.2⟩
      · intro s s' hR
        obtain ⟨M2, k⟩ := s
        obtain ⟨M2', k'⟩ := s'
        obtain ⟨q1, q2, q3⟩ := hR
        dsimp only at q1 q2 q3 ⊢
        subst q1
        rfl
      · intro s s' hR hcs2
        obtain ⟨M2, k⟩ := s
        obtain ⟨M2', k'⟩ := s'
        obtain ⟨q1, q2, q3⟩ := hR
        dsimp_m at q1 q2 q3 hcs2 ⊢
        subst q1
        have hk : k < i := by simpa using hcs2
        have hLw : (0 : Int) + 0 < (L.width : Int) := by
          have : 2 ≤ L.ncols := by omega
          unfold Mzd.width widthOf; omega
        rw [agL'.read i (0 + 0) k2 (by omega) (by omega) hLw]
        refine ⟨rfl, by omega, ?_⟩
        split
        · generalize hres3 : CLoop.loop _ _ _ _ = res3
          generalize hres3' : CLoop.loop _ _ _ _ = res3'
          have key3 := loop_rel_eq hres3 hres3'
            (fun s s' => s.2 = s'.2 ∧ 0 ≤ s.2 ∧ AgI B.nrows B.width s.1 s'.1) ⟨rfl, Int.le_refl _, q3⟩ ?_ ?_
          · obtain ⟨M3, j⟩ := res3
            obtain ⟨M3', j'⟩ := res3'
            obtain ⟨t1, t2, t3⟩ := key3
            dsimp_m at t1 t2 t3 ⊢
            intro r' w' h1 h2 h3 h4
            simp only [upd2_apply]
            rw [t3.read i (0 + ((B.width : Int) - 1)) k2 hi (by omega) (by omega),
              t3.read k (0 + ((B.width : Int) - 1)) q2 (by omega) (by omega) (by omega),
              t3.read r' w' h1 h2 h3 h4]
          · intro s s' hR
            obtain ⟨M3, j⟩ := s
            obtain ⟨M3', j'⟩ := s'
            obtain ⟨t1, t2, t3⟩ := hR
            dsimp only at t1 t2 t3 ⊢
            subst t1
            rfl
          · intro s s' hR hcs3
            obtain ⟨M3, j⟩ := s
            obtain ⟨M3', j'⟩ := s'
            obtain ⟨t1, t2, t3⟩ := hR
            dsimp_m at t1 t2 t3 hcs3 ⊢
            subst t1
            have hj : j < (B.width : Int) - 1 := by simpa using hcs3
            refine ⟨rfl, by omega, ?_⟩
            intro r' w' h1 h2 h3 h4
            simp only [upd2_apply]
            rw [t3.read i (0 + j) k2 hi (by omega) (by omega),
              t3.read k (0 + j) q2 (by omega) (by omega) (by omega),
              t3.read r' w' h1 h2 h3 h4]
        · exact q3
  · have c64 : ¬ decide ((B.nrows : Int) ≤ 64) = true := by simp; omega
    rw [if_neg c64, if_neg c64]
    by_cases h2048 : B.nrows ≤ 2048
    · -- `_mzd_trsm_lower_left_russian`
      have c2048 : decide ((B.nrows : Int) ≤ 2048) = true := by simp; omega
      rw [if_pos c2048, if_pos c2048]
      rw [liftM2_congr opR _ _ _ _ _ _ L.hb L.hb B.hb B.hb
        (by rw [Int.toNat_natCast, Int.toNat_natCast]; exact agL)
        (by rw [Int.toNat_natCast, Int.toNat_natCast]; exact agB)]
      exact AgreeOn.refl _ _ _
    · -- the block recursion
      have c2048 : ¬ decide ((B.nrows : Int) ≤ 2048) = true := by simp; omega
      rw [if_neg c2048, if_neg c2048]
      have hsp : ((Int.tdiv ((B.nrows : Int) - 1) 64 + 1) >>> (1 : Int).toNat) * 64
          = ((Rec.splitPoint B.nrows : Nat) : Int) := GenTie.pleSplit_eq B.nrows
      rw [hsp]
      have hk := Rec.splitPoint_le B.nrows
      have hk64 := splitPoint_mod B.nrows
      generalize Rec.splitPoint B.nrows = mb1 at *
      rw [mzdInitWindow_in 0 0 mb1 B.ncols B.nrows rsB 0 0 mb1 B.ncols B.nrows rfl rfl rfl rfl rfl rfl (by omega)
          (by omega) (by omega),
        mzdInitWindow_in mb1 0 B.nrows B.ncols B.nrows rsB mb1 0 B.nrows B.ncols B.nrows rfl rfl rfl rfl rfl rfl
          (by omega) (by omega) (by omega),
        mzdInitWindow_in 0 0 mb1 mb1 L.nrows rsL 0 0 mb1 mb1 L.nrows rfl rfl rfl rfl rfl rfl (by omega) (by omega)
          (by omega),
        mzdInitWindow_in mb1 0 B.nrows mb1 L.nrows rsL mb1 0 B.nrows mb1 L.nrows rfl rfl rfl rfl rfl rfl (by omega)
          (by omega) (by omega),
        mzdInitWindow_in mb1 mb1 B.nrows B.nrows L.nrows rsL mb1 mb1 B.nrows B.nrows L.nrows rfl rfl rfl rfl rfl hk64
          (by omega) (by omega) (by omega)]
      dsimp_m
      simp only [Int.zero_add]
      have hLw : L.width = (B.nrows + 63) / 64 := by unfold Mzd.width widthOf; rw [hLc]
      have hBw : B.width = (B.ncols + 63) / 64 := rfl
      refine call2_agree opT (call3_agree _ (call2_agree opT agB agL 0 (0 / 64) (mb1 - 0) ((mb1 - 0 + 63) / 64)
        0 (0 / 64) (mb1 - 0) ((B.ncols - 0 + 63) / 64) ?_ ?_ ?_ ?_ _ _ _ _) agL
        mb1 (0 / 64) (B.nrows - mb1) ((B.ncols - 0 + 63) / 64) mb1 (0 / 64) (B.nrows - mb1) ((mb1 - 0 + 63) / 64)
        0 (0 / 64) (mb1 - 0) ((B.ncols - 0 + 63) / 64) ?_ ?_ ?_ ?_ ?_ ?_ _ _ _ _ _ _) agL
        mb1 (mb1 / 64) (B.nrows - mb1) ((B.nrows - mb1 + 63) / 64) mb1 (0 / 64) (B.nrows - mb1)
        ((B.ncols - 0 + 63) / 64) ?_ ?_ ?_ ?_ _ _ _ _
      all_goals omega

/-- the contract `TrsmOK` from a tie of the translated `_mzd_trsm_lower_left` on WHOLE matrices (the form of the
    one-step theorems for the `_mzd_trsm_*` recursions), its callees being lifted model operations -/
theorem trsmOK_of_whole (opR opT : BMat → BMat → BMat) (cutoff rs : Int) (trsm : BMat → BMat → BMat)
    (hW : ∀ L B : Mzd, L.WF → B.WF → L.nrows = B.nrows → L.ncols = B.nrows → 1 ≤ B.nrows → 1 ≤ B.ncols →
      Gen.C.trsmLowerLeftRec cutoff (memOf B) B.nrows B.ncols (memOf L) B.width L.nrows L.ncols L.width L.hb B.hb
        (fun L B _ => liftM2 opR L B) rs rs (fun L B _ => liftM2 opT L B)
        (fun C A B _ => liftM3 (fun C A B => C.add (A.mul B)) C A B)
      = memOf (B.putB (trsm L.toB B.toB))) :
    TrsmOK cutoff rs (fun L B _ => liftM2 opR L B) (fun L B _ => liftM2 opT L B)
      (fun C A B _ => liftM3 (fun C A B => C.add (A.mul B)) C A B) trsm := by
  intro L B mL mB hL hB hLr hLc h1 h2 agL agB
  rw [← hW L B hL hB hLr hLc h1 h2]
  exact trsmLowerLeftRec_agree opR opT cutoff rs rs L B hLr hLc h2 mL mB agL agB

/-- the contract only concerns well-formed operands with `L.nrows = B.nrows` -/
theorem TrsmOK.congr {cutoff rs : Int} {fruss frec : CLoop.MView → CLoop.MView → Int → (Int → Int → BitVec 64)}
    {fadd : CLoop.MView → CLoop.MView → CLoop.MView → Int → (Int → Int → BitVec 64)} {trsm trsm' : BMat → BMat → BMat}
    (h : TrsmOK cutoff rs fruss frec fadd trsm)
    (he : ∀ L B : BMat, B.WF → L.nrows = B.nrows → trsm L B = trsm' L B) :
    TrsmOK cutoff rs fruss frec fadd trsm' := by
  intro L B mL mB hL hB hLr hLc h1 h2 agL agB
  rw [← he L.toB B.toB (Mzd.WF_toB hB) (by simp [hLr])]
  exact h L B mL mB hL hB hLr hLc h1 h2 agL agB

/-- the model's `_mzd_trsm_lower_left` does not depend on `baseRows` and `fuel` (`trsmLowerLeftRec_eq`), so the
    contract can be stated for any of them -/
theorem TrsmOK.fuel {cutoff rs : Int} {fruss frec : CLoop.MView → CLoop.MView → Int → (Int → Int → BitVec 64)}
    {fadd : CLoop.MView → CLoop.MView → CLoop.MView → Int → (Int → Int → BitVec 64)} {br f : Nat}
    (h : TrsmOK cutoff rs fruss frec fadd (Rec.trsmLowerLeftRec br f)) (br' f' : Nat) :
    TrsmOK cutoff rs fruss frec fadd (Rec.trsmLowerLeftRec br' f') :=
  h.congr fun L B hB hLr => by
    rw [Rec.trsmLowerLeftRec_eq br f hB hLr, Rec.trsmLowerLeftRec_eq br' f' hB hLr]

/-- `TrsmOK` from the three regime-wise one-step ties of `Gen.C.trsmLowerLeftRec` on whole matrices (the 64-row
    kernel, the Four-Russians routine, the block recursion), for every `baseRows`, `fuel` of the model -/
theorem trsmOK_of_regimes (cutoff rs : Int) (f : Nat)
    (hK : ∀ L B : Mzd, L.WF → B.WF → L.nrows = B.nrows → L.ncols = B.nrows → 1 ≤ B.ncols → B.nrows ≤ 64 →
      Gen.C.trsmLowerLeftRec cutoff (memOf B) B.nrows B.ncols (memOf L) B.width L.nrows L.ncols L.width L.hb B.hb
        (fun L B _ => liftM2 trsmLowerLeft L B) rs rs (fun L B _ => liftM2 (Rec.trsmLowerLeftRec 2048 f) L B)
        (fun C A B _ => liftM3 (fun C A B => C.add (A.mul B)) C A B)
      = memOf (B.putB (trsmLowerLeft L.toB B.toB)))
    (hRuss : ∀ L B : Mzd, L.WF → B.WF → 64 < B.nrows → B.nrows ≤ 2048 →
      Gen.C.trsmLowerLeftRec cutoff (memOf B) B.nrows B.ncols (memOf L) B.width L.nrows L.ncols L.width L.hb B.hb
        (fun L B _ => liftM2 trsmLowerLeft L B) rs rs (fun L B _ => liftM2 (Rec.trsmLowerLeftRec 2048 f) L B)
        (fun C A B _ => liftM3 (fun C A B => C.add (A.mul B)) C A B)
      = memOf (B.putB (Rec.trsmLowerLeftRec 2048 (f + 1) L.toB B.toB)))
    (hRec : ∀ L B : Mzd, L.WF → B.WF → L.nrows = B.nrows → L.ncols = B.nrows → 2048 < B.nrows →
      Gen.C.trsmLowerLeftRec cutoff (memOf B) B.nrows B.ncols (memOf L) B.width L.nrows L.ncols L.width L.hb B.hb
        (fun L B _ => liftM2 trsmLowerLeft L B) rs rs (fun L B _ => liftM2 (Rec.trsmLowerLeftRec 2048 f) L B)
        (fun C A B _ => liftM3 (fun C A B => C.add (A.mul B)) C A B)
      = memOf (B.putB (Rec.trsmLowerLeftRec 2048 (f + 1) L.toB B.toB)))
    (baseRows fuel : Nat) :
    TrsmOK cutoff rs (fun L B _ => liftM2 trsmLowerLeft L B) (fun L B _ => liftM2 (Rec.trsmLowerLeftRec 2048 f) L B)
      (fun C A B _ => liftM3 (fun C A B => C.add (A.mul B)) C A B) (Rec.trsmLowerLeftRec baseRows fuel) := by
  refine TrsmOK.fuel (br := 2048) (f := f + 1) ?_ baseRows fuel
  apply trsmOK_of_whole
  intro L B hL hB hLr hLc h1 h2
  by_cases c1 : B.nrows ≤ 64
  · rw [hK L B hL hB hLr hLc h2 c1,
      Rec.trsmLowerLeftRec_eq 2048 (f + 1) (Mzd.WF_toB hB) (by simp [hLr])]
  · by_cases c2 : B.nrows ≤ 2048
    · exact hRuss L B hL hB (by omega) c2
    · exact hRec L B hL hB hLr hLc (by omega)

/-! ### 8. the step against `pleRec` -/

theorem shaped_trsmLowerLeftRec (baseRows fuel : Nat) (L B : BMat) (r c : Nat) (hB : Shaped B r c)
    (hL : L.nrows = r) : Shaped (Rec.trsmLowerLeftRec baseRows fuel L B) r c := by
  obtain ⟨h1, h2, h3⟩ := Rec.trsmLowerLeftRec_WF baseRows fuel hB.wf (by rw [hL, hB.nr])
  exact ⟨h1, by rw [h2, hB.nr], by rw [h3, hB.nc]⟩

/-- **one step of `_mzd_ple` against the model**: with the recursive calls instantiated by `pleRec … fuel`, the
    translated `_mzd_trsm_lower_left` computing `trsmLowerLeftRec baseRows fuel` (`TrsmOK`), `mzd_addmul` by `C + A·B`,
    `_mzd_compress_l` by `compressL`, the generated recursive branch on the memory images of `A`,
    `P = [0, …, A.nrows)`, `Q = [0, …, A.ncols)` returns exactly what `pleRec … (fuel + 1)` computes in its
    recursive case. -/
theorem pleRecStep_pleRec (base : BMat → Rec.Out) (hbase : Rec.GoodBase base) (baseCols cutoffN baseRows fuel : Nat)
    {cutoff rs : Int} {fruss frec : CLoop.MView → CLoop.MView → Int → (Int → Int → BitVec 64)}
    (hT : TrsmOK cutoff rs fruss frec (fun C A B _ => liftM3 (fun C A B => C.add (A.mul B)) C A B)
      (Rec.trsmLowerLeftRec baseRows fuel))
    (A : Mzd) (hA : A.WF) (hnz : Rec.firstZeroRow A.toB ≠ 0)
    (hbig : ¬ (A.ncols ≤ baseCols ∨ ((A.ncols + 63) / 64) * A.nrows ≤ cutoffN)) :
    Gen.C.pleRecStep (memOf A) (arrOf (Array.range A.nrows)) (arrOf (Array.range A.ncols)) A.ncols
      (Rec.firstZeroRow A.toB) A.nrows rs cutoff (liftPle (Rec.pleRec base baseCols cutoffN baseRows fuel)) fruss frec
      (fun C A B _ => liftM3 (fun C A B => C.add (A.mul B)) C A B) A.ncols A.width A.hb liftCompress
    = ((((Rec.pleRec base baseCols cutoffN baseRows (fuel + 1) A.toB).2.2.2 : Nat) : Int),
       memOf (A.putB (Rec.pleRec base baseCols cutoffN baseRows (fuel + 1) A.toB).1),
       arrMem (Array.range A.nrows) (Rec.pleRec base baseCols cutoffN baseRows (fuel + 1) A.toB).2.1,
       arrMem (Array.range A.ncols) (Rec.pleRec base baseCols cutoffN baseRows (fuel + 1) A.toB).2.2.1) := by
  rw [pleRecStep_eq _ (fun W hW => Rec.pleRec_spec hbase baseCols cutoffN baseRows fuel hW) hT
    (shaped_trsmLowerLeftRec baseRows fuel) A hA _ (Rec.firstZeroRow_le A.toB) _ _ (by simp) (by simp)]
  rw [Rec.pleRec_succ]
  unfold Rec.pleStep
  rw [if_neg hnz, if_neg (by simpa using hbig)]
  simp only [Mzd.nrows_toB, Mzd.ncols_toB, Rec.mergeP, Rec.mergeQ, Int.natCast_add]

#print axioms pleRecStep_eq
#print axioms pleRecStep_pleRec
#print axioms trsmLowerLeftRec_agree
#print axioms trsmOK_of_whole
#print axioms trsmOK_of_regimes
#print axioms seg2_eq
#print axioms seg3_eq
#print axioms seg4_eq
#print axioms schurMem_eq

end M4ri.GenTiePle
