/-
  C04 (triangular solves) and C05 (inversion) at the rows-as-`Nat` level.  Core Lean only.
  0   XOR-sums over an index range (`xsum`), the entry-wise product specification `dotSpec_T`,
      `(A.mul B).get i j = dotSpec_T A B i j` (`mul_get`), associativity / identity laws of `BMat.mul`
  1-4 the four triangular solves: `trsm…_spec` (T·X = B resp. X·T = B), `trsm…_congr` (only the named
      strict triangle is read), `trsm…_unique`, plus `…_WF`, `…_nrows`, `…_ncols`
  5   C05, triangular clause: `triInv U = trsmUpperRight U I` is the two-sided inverse of `unitUpper U`,
      again unit upper triangular, unique
  6   C05: `inverseSpec_spec` (the right half of the RREF of `[A | I]` is the inverse), relative to the two
      explicit hypotheses `hrow : RowEquiv …` and `hrref : isRREF … = true` about `rref`;
      `inverseSpec_unitUpper`, `invertNaive_identity`
-/
import M4riProofs.Bridge
import M4ri.Elim
namespace M4ri

/-! ### 0. XOR sums -/

/-- XOR of `f 0, …, f (n-1)` -/
def xsum : Nat → (Nat → Bool) → Bool
  | 0, _ => false
  | n + 1, f => xsum n f ^^ f n

@[simp] theorem xsum_zero (f : Nat → Bool) : xsum 0 f = false := rfl
theorem xsum_succ (n : Nat) (f : Nat → Bool) : xsum (n + 1) f = (xsum n f ^^ f n) := rfl

theorem xsum_congr {n : Nat} {f g : Nat → Bool} (h : ∀ t, t < n → f t = g t) : xsum n f = xsum n g := by
  induction n with
  | zero => rfl
  | succ n ih =>
    rw [xsum_succ, xsum_succ, ih (fun t ht => h t (by omega)), h n (by omega)]

theorem xsum_false {n : Nat} {f : Nat → Bool} (h : ∀ t, t < n → f t = false) : xsum n f = false := by
  induction n with
  | zero => rfl
  | succ n ih => rw [xsum_succ, ih (fun t ht => h t (by omega)), h n (by omega)]; rfl

theorem xsum_xor (n : Nat) (f g : Nat → Bool) :
    xsum n (fun t => f t ^^ g t) = (xsum n f ^^ xsum n g) := by
  induction n with
  | zero => rfl
  | succ n ih =>
    simp only [xsum_succ, ih]
    cases xsum n f <;> cases xsum n g <;> cases f n <;> cases g n <;> rfl

theorem xsum_and_right (n : Nat) (f : Nat → Bool) (b : Bool) :
    xsum n (fun t => f t && b) = (xsum n f && b) := by
  induction n with
  | zero => simp
  | succ n ih =>
    simp only [xsum_succ, ih]
    cases xsum n f <;> cases f n <;> cases b <;> rfl

theorem xsum_and_left (n : Nat) (f : Nat → Bool) (b : Bool) :
    xsum n (fun t => b && f t) = (b && xsum n f) := by
  induction n with
  | zero => simp
  | succ n ih =>
    simp only [xsum_succ, ih]
    cases xsum n f <;> cases f n <;> cases b <;> rfl

/-- only one index contributes -/
theorem xsum_single {n : Nat} {f : Nat → Bool} (i : Nat) (hi : i < n)
    (h : ∀ t, t < n → t ≠ i → f t = false) : xsum n f = f i := by
  induction n with
  | zero => omega
  | succ n ih =>
    rw [xsum_succ]
    by_cases hin : i = n
    · subst hin
      rw [xsum_false (fun t ht => h t (by omega) (by omega))]; simp
    · rw [ih (by omega) (fun t ht hne => h t (by omega) hne), h n (by omega) (fun e => hin e.symm)]; simp

/-- the range can be cut where the summand vanishes -/
theorem xsum_extend {n m : Nat} {f : Nat → Bool} (hnm : n ≤ m) (h : ∀ t, n ≤ t → t < m → f t = false) :
    xsum m f = xsum n f := by
  induction m with
  | zero => have : n = 0 := by omega
            subst this; rfl
  | succ m ih =>
    by_cases hn : n = m + 1
    · subst hn; rfl
    · rw [xsum_succ, ih (by omega) (fun t h1 h2 => h t h1 (by omega)), h m (by omega) (by omega)]; simp

/-- Fubini for XOR sums -/
theorem xsum_comm (n m : Nat) (f : Nat → Nat → Bool) :
    xsum n (fun s => xsum m (fun t => f s t)) = xsum m (fun t => xsum n (fun s => f s t)) := by
  induction n with
  | zero => rw [xsum_zero]; exact (xsum_false (fun _ _ => rfl)).symm
  | succ n ih =>
    rw [xsum_succ, ih]
    simp only [xsum_succ]
    rw [xsum_xor]

/-- split a sum at an index: below, at, above -/
theorem xsum_split3 (n : Nat) (f : Nat → Bool) (i : Nat) (hi : i < n) :
    xsum n f = (xsum i f ^^ f i ^^ xsum n (fun t => decide (i < t) && f t)) := by
  have e : ∀ t, f t = ((decide (t < i) && f t) ^^ (decide (t = i) && f t) ^^ (decide (i < t) && f t)) := by
    intro t
    by_cases h1 : t < i
    · have h2 : ¬ t = i := by omega
      have h3 : ¬ i < t := by omega
      simp [h1, h2, h3]
    · by_cases h2 : t = i
      · simp [h2]
      · have h3 : i < t := by omega
        simp [h1, h2, h3]
  rw [xsum_congr (fun t _ => e t), xsum_xor, xsum_xor]
  congr 1
  congr 1
  · rw [xsum_extend (n := i) (m := n) (by omega) (fun t h1 _ => by
      have : ¬ t < i := by omega
      simp [this])]
    exact xsum_congr (fun t ht => by simp [ht])
  · rw [xsum_single i hi (fun t _ hne => by simp [hne])]; simp

/-! XOR folds over lists -/

theorem foldl_bxor_init (l : List Nat) (f : Nat → Bool) (b0 : Bool) :
    l.foldl (fun b j => b ^^ f j) b0 = (b0 ^^ l.foldl (fun b j => b ^^ f j) false) := by
  induction l generalizing b0 with
  | nil => simp
  | cons a l ih =>
    simp only [List.foldl_cons]
    rw [ih (b0 ^^ f a), ih (false ^^ f a)]
    cases b0 <;> cases f a <;> simp

theorem xsum_eq_foldl (n : Nat) (f : Nat → Bool) :
    xsum n f = (List.range n).foldl (fun b j => b ^^ f j) false := by
  induction n with
  | zero => rfl
  | succ n ih => rw [List.range_succ, List.foldl_append, xsum_succ, ih]; rfl

theorem foldl_range'_eq_xsum (a k : Nat) (f : Nat → Bool) :
    (List.range' a k).foldl (fun b j => b ^^ f j) false = xsum (a + k) (fun t => decide (a ≤ t) && f t) := by
  induction k with
  | zero =>
    simp only [List.range'_zero, List.foldl_nil, Nat.add_zero]
    refine (xsum_false (fun t ht => ?_)).symm
    have : ¬ a ≤ t := by omega
    simp [this]
  | succ k ih =>
    rw [List.range'_concat, List.foldl_append, ih]
    simp only [List.foldl_cons, List.foldl_nil]
    rw [show a + (k + 1) = (a + k) + 1 from rfl, xsum_succ]
    simp

/-- the fold that XORs selected rows, bit by bit (general list) -/
theorem testBit_foldl_xor_sel (l : List Nat) (p : Nat → Bool) (r : Nat → Nat) (init c : Nat) :
    (l.foldl (fun acc j => if p j then acc ^^^ r j else acc) init).testBit c
      = (init.testBit c ^^ l.foldl (fun b j => b ^^ (p j && (r j).testBit c)) false) := by
  induction l generalizing init with
  | nil => simp
  | cons a l ih =>
    simp only [List.foldl_cons]
    rw [ih, foldl_bxor_init l _ (false ^^ _)]
    by_cases hp : p a
    · simp [hp, Nat.testBit_xor]
    · simp [hp]

/-! ### 0b. entry-wise product specification -/

namespace BMat

/-- entry `(i,j)` of the product: XOR over `t < A.ncols` of `A[i,t] ∧ B[t,j]` -/
def dotSpec_T (A B : BMat) (i j : Nat) : Bool := xsum A.ncols (fun t => A.get i t && B.get t j)

theorem testBit_comb_T (a : Nat) (rows : Array Nat) (n c : Nat) :
    (comb a rows n).testBit c = xsum n (fun t => a.testBit t && (rows.getD t 0).testBit c) := by
  unfold comb
  rw [testBit_foldl_xor_sel, xsum_eq_foldl]
  simp

theorem row_mk_range (r c : Nat) (f : Nat → Nat) (i : Nat) (hi : i < r) :
    BMat.row ⟨r, c, (Array.range r).map f⟩ i = f i := by
  simp [row, Array.getD, hi]

theorem row_mk_range_ge (r c : Nat) (f : Nat → Nat) (i : Nat) (hi : r ≤ i) :
    BMat.row ⟨r, c, (Array.range r).map f⟩ i = 0 := by
  have : ¬ i < r := by omega
  simp [row, Array.getD, this]

@[simp] theorem mul_nrows (A B : BMat) : (A.mul B).nrows = A.nrows := rfl
@[simp] theorem mul_ncols (A B : BMat) : (A.mul B).ncols = B.ncols := rfl

/-- unconditional entry lemma of the product -/
theorem mul_get' (A B : BMat) (i j : Nat) :
    (A.mul B).get i j = (decide (i < A.nrows) && dotSpec_T A B i j) := by
  unfold get mul
  by_cases hi : i < A.nrows
  · rw [row_mk_range _ _ _ _ hi, testBit_comb_T]
    simp [hi, dotSpec_T, get, row]
  · rw [row_mk_range_ge _ _ _ _ (by omega)]
    simp [hi]

/-- **product, entry-wise**: for `i < A.nrows` (any `j`), entry `(i,j)` of `A.mul B` is `dotSpec_T A B i j` -/
theorem mul_get (A B : BMat) (i j : Nat) (hi : i < A.nrows) :
    (A.mul B).get i j = dotSpec_T A B i j := by
  rw [mul_get']; simp [hi]

theorem mul_WF (A : BMat) {B : BMat} (hB : B.WF) : (A.mul B).WF := by
  apply WF_of_get
  · simp [mul]
  · intro i j hj
    rw [mul_get']
    have : dotSpec_T A B i j = false := by
      unfold dotSpec_T
      exact xsum_false (fun t _ => by rw [get_of_ge_ncols hB t j hj]; simp)
    rw [this]; simp

@[simp] theorem identity_nrows (n : Nat) : (identity n).nrows = n := rfl
@[simp] theorem identity_ncols (n : Nat) : (identity n).ncols = n := rfl

theorem identity_get (n i j : Nat) : (identity n).get i j = decide (i < n ∧ i = j) := by
  unfold get identity
  by_cases hi : i < n
  · rw [row_mk_range _ _ _ _ hi, Nat.testBit_two_pow]; simp [hi]
  · rw [row_mk_range_ge _ _ _ _ (by omega)]; simp [hi]

theorem identity_WF (n : Nat) : (identity n).WF := by
  apply WF_of_get
  · simp [identity]
  · intro i j hj
    rw [identity_get]
    simp only [identity_ncols] at hj
    have : ¬ (i < n ∧ i = j) := by omega
    simp [this]

theorem mul_identity {A : BMat} (hA : A.WF) : A.mul (identity A.ncols) = A := by
  apply ext_get (mul_WF A (identity_WF _)) hA rfl rfl
  intro i j hi hj
  simp only [mul_nrows, mul_ncols, identity_ncols] at hi hj
  rw [mul_get _ _ _ _ hi, dotSpec_T, xsum_single j hj (fun t _ hne => by rw [identity_get]; simp [hne])]
  rw [identity_get]; simp [hj]

theorem identity_mul {A : BMat} (hA : A.WF) : (identity A.nrows).mul A = A := by
  apply ext_get (mul_WF (identity A.nrows) hA) hA rfl rfl
  intro i j hi hj
  simp only [mul_nrows, mul_ncols, identity_nrows] at hi hj
  rw [mul_get _ _ _ _ (by simpa using hi), dotSpec_T, identity_ncols,
    xsum_single i hi (fun t _ hne => by rw [identity_get]; simp [Ne.symm hne])]
  rw [identity_get]; simp [hi]

/-- associativity, entry-wise -/
theorem dotSpec_assoc (A B C : BMat) (hB : B.rows.size = B.nrows) (i j : Nat) :
    dotSpec_T (A.mul B) C i j = (decide (i < A.nrows) && dotSpec_T A (B.mul C) i j) := by
  unfold dotSpec_T
  simp only [mul_ncols, mul_get']
  by_cases hi : i < A.nrows
  · simp only [hi, decide_true, Bool.true_and]
    have e1 : ∀ t, (dotSpec_T A B i t && C.get t j) = xsum A.ncols (fun s => A.get i s && (B.get s t && C.get t j)) := by
      intro t
      unfold dotSpec_T
      rw [← xsum_and_right]
      exact xsum_congr (fun s _ => by rw [Bool.and_assoc])
    have e2 : ∀ s, (A.get i s && (decide (s < B.nrows) && dotSpec_T B C s j))
        = xsum B.ncols (fun t => A.get i s && (B.get s t && C.get t j)) := by
      intro s
      unfold dotSpec_T
      rw [xsum_and_left]
      by_cases hs : s < B.nrows
      · simp [hs]
      · have : xsum B.ncols (fun t => B.get s t && C.get t j) = false :=
          xsum_false (fun t _ => by
            unfold get; rw [row_of_ge _ _ (by omega)]; simp)
        simp [hs, this]
    rw [xsum_congr (fun t _ => e1 t), xsum_congr (fun s _ => e2 s), xsum_comm]
  · simp only [hi, decide_false, Bool.false_and]
    exact xsum_false (fun _ _ => rfl)

theorem mul_assoc (A : BMat) {B C : BMat} (hB : B.WF) (hC : C.WF) :
    (A.mul B).mul C = A.mul (B.mul C) := by
  apply ext_get (mul_WF (A.mul B) hC) (mul_WF A (mul_WF B hC)) rfl rfl
  intro i j hi hj
  simp only [mul_nrows] at hi
  rw [mul_get _ _ _ _ (by simpa using hi), dotSpec_assoc _ _ _ hB.1, mul_get _ _ _ _ hi]
  simp [hi]

/-! ### 1. `trsmLowerLeft` -/

theorem foldl_congr_mem {α β : Type} (l : List β) (f g : α → β → α) (a : α)
    (h : ∀ a b, b ∈ l → f a b = g a b) : l.foldl f a = l.foldl g a := by
  induction l generalizing a with
  | nil => rfl
  | cons x l ih =>
    simp only [List.foldl_cons]
    rw [h a x (by simp), ih _ (fun a b hb => h a b (by simp [hb]))]

@[simp] theorem setRow_nrows (X : BMat) (i r : Nat) : (X.setRow i r).nrows = X.nrows := rfl
@[simp] theorem setRow_ncols (X : BMat) (i r : Nat) : (X.setRow i r).ncols = X.ncols := rfl
@[simp] theorem setRow_size (X : BMat) (i r : Nat) : (X.setRow i r).rows.size = X.rows.size := by
  simp [setRow]

theorem setRow_row (X : BMat) (i r k : Nat) :
    (X.setRow i r).row k = if k = i ∧ i < X.rows.size then r else X.row k := by
  unfold row setRow
  by_cases hk : k < X.rows.size
  · by_cases hki : k = i
    · subst hki; simp [Array.getD, hk]
    · have : ¬ i = k := fun e => hki e.symm
      simp [Array.getD, hk, hki, this]
  · have : ¬ (k = i ∧ i < X.rows.size) := by omega
    simp [Array.getD, hk, this]

theorem setRow_WF {X : BMat} (hX : X.WF) (i r : Nat) (hr : r < 2 ^ X.ncols) : (X.setRow i r).WF := by
  refine ⟨by rw [setRow_size]; exact hX.1, fun k => ?_⟩
  rw [setRow_row]
  split
  · exact hr
  · exact hX.2 k

/-- the new value of row `i` in step `i` of forward substitution -/
def lowRowStep (L X : BMat) (i : Nat) : Nat :=
  (List.range i).foldl (fun acc j => if L.get i j then acc ^^^ X.row j else acc) (X.row i)

def lowStep (L X : BMat) (i : Nat) : BMat := X.setRow i (lowRowStep L X i)

/-- state after the first `k` steps -/
def lowF (L B : BMat) (k : Nat) : BMat := (List.range k).foldl (lowStep L) B

theorem trsmLowerLeft_eq (L B : BMat) : trsmLowerLeft L B = lowF L B B.nrows := rfl

theorem lowF_succ (L B : BMat) (k : Nat) : lowF L B (k + 1) = lowStep L (lowF L B k) k := by
  unfold lowF; rw [List.range_succ, List.foldl_append]; rfl

theorem lowF_shape (L B : BMat) (k : Nat) :
    (lowF L B k).nrows = B.nrows ∧ (lowF L B k).ncols = B.ncols ∧ (lowF L B k).rows.size = B.rows.size := by
  induction k with
  | zero => exact ⟨rfl, rfl, rfl⟩
  | succ k ih => rw [lowF_succ]; simpa [lowStep] using ih

theorem xor_lt_two_pow' {a b c : Nat} (ha : a < 2 ^ c) (hb : b < 2 ^ c) : a ^^^ b < 2 ^ c :=
  Nat.xor_lt_two_pow ha hb

theorem lowRowStep_lt {L X : BMat} (hX : X.WF) (i : Nat) : lowRowStep L X i < 2 ^ X.ncols := by
  unfold lowRowStep
  generalize List.range i = l
  have : ∀ init, init < 2 ^ X.ncols →
      l.foldl (fun acc j => if L.get i j then acc ^^^ X.row j else acc) init < 2 ^ X.ncols := by
    induction l with
    | nil => intro init h; exact h
    | cons a l ih =>
      intro init h
      simp only [List.foldl_cons]
      apply ih
      split
      · exact Nat.xor_lt_two_pow h (hX.2 a)
      · exact h
  exact this _ (hX.2 i)

theorem lowF_WF (L : BMat) {B : BMat} (hB : B.WF) (k : Nat) : (lowF L B k).WF := by
  induction k with
  | zero => exact hB
  | succ k ih =>
    rw [lowF_succ]
    exact setRow_WF ih _ _ (lowRowStep_lt ih k)

theorem lowF_row_succ_ne (L B : BMat) (k i : Nat) (h : i ≠ k) :
    (lowF L B (k + 1)).row i = (lowF L B k).row i := by
  rw [lowF_succ, lowStep, setRow_row]
  have : ¬ (i = k ∧ k < (lowF L B k).rows.size) := fun e => h e.1
  rw [if_neg this]

/-- rows not yet reached still hold `B` -/
theorem lowF_row_ge (L B : BMat) (k i : Nat) (h : k ≤ i) : (lowF L B k).row i = B.row i := by
  induction k with
  | zero => rfl
  | succ k ih => rw [lowF_row_succ_ne _ _ _ _ (by omega), ih (by omega)]

/-- a finished row never changes again -/
theorem lowF_row_stable (L B : BMat) (i k : Nat) (h : i < k) :
    (lowF L B k).row i = (lowF L B (i + 1)).row i := by
  induction k with
  | zero => omega
  | succ k ih =>
    by_cases hik : i = k
    · subst hik; rfl
    · rw [lowF_row_succ_ne _ _ _ _ hik, ih (by omega)]

/-- the defining recurrence of forward substitution, row level -/
theorem lowF_row (L B : BMat) (k i : Nat) (hik : i < k) (hi : i < B.rows.size) :
    (lowF L B k).row i =
      (List.range i).foldl (fun acc j => if L.get i j then acc ^^^ (lowF L B k).row j else acc) (B.row i) := by
  rw [lowF_row_stable _ _ _ _ hik, lowF_succ, lowStep, setRow_row,
    if_pos ⟨rfl, by rw [(lowF_shape L B i).2.2]; exact hi⟩, lowRowStep, lowF_row_ge _ _ _ _ (Nat.le_refl i)]
  apply foldl_congr_mem
  intro a j hj
  have hji : j < i := List.mem_range.mp hj
  rw [lowF_row_stable _ _ j i hji, lowF_row_stable _ _ j k (by omega)]

/-- the defining recurrence, entry level -/
theorem trsmLowerLeft_get_rec (L B : BMat) (i c : Nat) (hi : i < B.nrows) (hsz : B.rows.size = B.nrows) :
    (trsmLowerLeft L B).get i c =
      (B.get i c ^^ xsum i (fun j => L.get i j && (trsmLowerLeft L B).get j c)) := by
  rw [trsmLowerLeft_eq]
  unfold get
  rw [lowF_row L B B.nrows i hi (by omega), testBit_foldl_xor_sel, ← xsum_eq_foldl]
  rfl

@[simp] theorem trsmLowerLeft_nrows (L B : BMat) : (trsmLowerLeft L B).nrows = B.nrows :=
  (lowF_shape L B B.nrows).1
@[simp] theorem trsmLowerLeft_ncols (L B : BMat) : (trsmLowerLeft L B).ncols = B.ncols :=
  (lowF_shape L B B.nrows).2.1
theorem trsmLowerLeft_WF (L : BMat) {B : BMat} (hB : B.WF) : (trsmLowerLeft L B).WF :=
  lowF_WF L hB _

@[simp] theorem unitLower_nrows (T : BMat) : (unitLower T).nrows = T.nrows := rfl
@[simp] theorem unitLower_ncols (T : BMat) : (unitLower T).ncols = T.ncols := rfl

theorem unitLower_get (T : BMat) (i j : Nat) :
    (unitLower T).get i j = (decide (i < T.nrows) && (if j < i then T.get i j else decide (j = i))) := by
  unfold get unitLower
  by_cases hi : i < T.nrows
  · rw [row_mk_range _ _ _ _ hi, Nat.testBit_or, Nat.testBit_mod_two_pow, Nat.one_shiftLeft, Nat.testBit_two_pow]
    by_cases hji : j < i
    · have : ¬ i = j := by omega
      simp [hi, hji, this]
    · by_cases hji' : j = i
      · subst hji'; simp [hi]
      · have : ¬ i = j := by omega
        simp [hi, hji, hji', this]
  · rw [row_mk_range_ge _ _ _ _ (by omega)]; simp [hi]

/-- a row of `unitLower L` times a matrix: the strictly-lower part of the row plus the diagonal one -/
theorem unitLower_dot (L Y : BMat) (i c : Nat) (hi : i < L.nrows) (hic : i < L.ncols) :
    dotSpec_T (unitLower L) Y i c = (xsum i (fun j => L.get i j && Y.get j c) ^^ Y.get i c) := by
  unfold dotSpec_T
  rw [unitLower_ncols, xsum_split3 _ _ i hic]
  have e3 : xsum L.ncols (fun t => decide (i < t) && ((unitLower L).get i t && Y.get t c)) = false := by
    apply xsum_false
    intro t _
    rw [unitLower_get]
    by_cases hit : i < t
    · have h1 : ¬ t < i := by omega
      have h2 : ¬ t = i := by omega
      simp [h1, h2]
    · simp [hit]
  rw [e3, unitLower_get]
  have e1 : xsum i (fun t => (unitLower L).get i t && Y.get t c) = xsum i (fun j => L.get i j && Y.get j c) := by
    apply xsum_congr
    intro t ht
    rw [unitLower_get]; simp [hi, ht]
  rw [e1]
  simp [hi]

/-- **C04, lower-left, entry-wise**: `unitLower(L) · X = B` for `X = trsmLowerLeft L B`.
    `L` is `n × n`, `B` has `n` rows (and its row array has that length); nothing else is assumed:
    the diagonal and the upper triangle of `L` are arbitrary. -/
theorem trsmLowerLeft_spec_get (L B : BMat) (hLr : L.nrows = B.nrows) (hLc : L.ncols = B.nrows)
    (hsz : B.rows.size = B.nrows) (i c : Nat) (hi : i < B.nrows) :
    dotSpec_T (unitLower L) (trsmLowerLeft L B) i c = B.get i c := by
  rw [unitLower_dot _ _ _ _ (by omega) (by omega), trsmLowerLeft_get_rec L B i c hi hsz]
  generalize xsum i (fun j => L.get i j && (trsmLowerLeft L B).get j c) = s
  cases s <;> cases B.get i c <;> rfl

/-- **C04, lower-left**: the solution is well-formed, has the shape of `B`, and `unitLower(L) · X = B`. -/
theorem trsmLowerLeft_spec {L B : BMat} (hLr : L.nrows = B.nrows) (hLc : L.ncols = B.nrows) (hB : B.WF) :
    (unitLower L).mul (trsmLowerLeft L B) = B := by
  apply ext_get (mul_WF (unitLower L) (trsmLowerLeft_WF L hB)) hB
  · simpa using hLr
  · simp
  · intro i j hi _
    simp only [mul_nrows, unitLower_nrows] at hi
    rw [mul_get _ _ _ _ (by simpa using hi)]
    exact trsmLowerLeft_spec_get L B hLr hLc hB.1 i j (by omega)

/-- **C04, lower-left, only the strictly lower triangle of `L` is read.** -/
theorem trsmLowerLeft_congr (L L' B : BMat)
    (h : ∀ i j, i < B.nrows → j < i → L.get i j = L'.get i j) :
    trsmLowerLeft L B = trsmLowerLeft L' B := by
  unfold trsmLowerLeft
  apply foldl_congr_mem
  intro X i hi
  congr 1
  apply foldl_congr_mem
  intro acc j hj
  rw [h i j (List.mem_range.mp hi) (List.mem_range.mp hj)]

/-- **C04, lower-left, uniqueness**: any well-formed `Y` of the right shape with `unitLower(L) · Y = B`
    is the computed solution. -/
theorem trsmLowerLeft_unique {L B Y : BMat} (hLr : L.nrows = B.nrows) (hLc : L.ncols = B.nrows) (hB : B.WF)
    (hY : Y.WF) (hYr : Y.nrows = B.nrows) (hYc : Y.ncols = B.ncols)
    (h : (unitLower L).mul Y = B) : Y = trsmLowerLeft L B := by
  apply ext_get hY (trsmLowerLeft_WF L hB) (by simpa using hYr) (by simpa using hYc)
  have key : ∀ i, i < B.nrows → ∀ c, Y.get i c = (trsmLowerLeft L B).get i c := by
    intro i
    induction i using Nat.strongRecOn with
    | _ i ih =>
      intro hi c
      have e : dotSpec_T (unitLower L) Y i c = B.get i c := by
        rw [← mul_get _ _ _ _ (by simpa [hLr] using hi), h]
      rw [unitLower_dot _ _ _ _ (by omega) (by omega)] at e
      rw [trsmLowerLeft_get_rec L B i c hi hB.1]
      have e2 : xsum i (fun j => L.get i j && Y.get j c)
          = xsum i (fun j => L.get i j && (trsmLowerLeft L B).get j c) :=
        xsum_congr (fun j hj => by rw [ih j hj (by omega) c])
      rw [← e2, ← e]
      generalize xsum i (fun j => L.get i j && Y.get j c) = s
      cases s <;> cases Y.get i c <;> rfl
  intro i j hi _
  exact key i (by omega) j

/-- non-vacuity: the hypotheses of the lower-left theorems are satisfiable -/
example : (unitLower (identity 3)).mul (trsmLowerLeft (identity 3) (identity 3)) = identity 3 :=
  trsmLowerLeft_spec rfl rfl (identity_WF 3)

/-! ### 2. `trsmUpperLeft` -/

/-- the new value of row `i` in step `i` of backward substitution (`n` rows in all) -/
def upRowStep (U : BMat) (n : Nat) (X : BMat) (i : Nat) : Nat :=
  (List.range' (i + 1) (n - (i + 1))).foldl (fun acc j => if U.get i j then acc ^^^ X.row j else acc) (X.row i)

def upStep (U : BMat) (n : Nat) (X : BMat) (i : Nat) : BMat := X.setRow i (upRowStep U n X i)

/-- run the steps `k-1, …, 0` from state `X` -/
def upH (U : BMat) (n k : Nat) (X : BMat) : BMat := (List.range k).reverse.foldl (upStep U n) X

theorem trsmUpperLeft_eq (U B : BMat) : trsmUpperLeft U B = upH U B.nrows B.nrows B := rfl

theorem upH_succ (U : BMat) (n k : Nat) (X : BMat) : upH U n (k + 1) X = upH U n k (upStep U n X k) := by
  unfold upH; rw [List.range_succ, List.reverse_append]; rfl

theorem upH_shape (U : BMat) (n k : Nat) (X : BMat) :
    (upH U n k X).nrows = X.nrows ∧ (upH U n k X).ncols = X.ncols ∧ (upH U n k X).rows.size = X.rows.size := by
  induction k generalizing X with
  | zero => exact ⟨rfl, rfl, rfl⟩
  | succ k ih => rw [upH_succ]; simpa [upStep] using ih (upStep U n X k)

theorem upRowStep_lt {U X : BMat} (n : Nat) (hX : X.WF) (i : Nat) : upRowStep U n X i < 2 ^ X.ncols := by
  unfold upRowStep
  generalize List.range' (i + 1) (n - (i + 1)) = l
  have : ∀ init, init < 2 ^ X.ncols →
      l.foldl (fun acc j => if U.get i j then acc ^^^ X.row j else acc) init < 2 ^ X.ncols := by
    induction l with
    | nil => intro init h; exact h
    | cons a l ih =>
      intro init h
      simp only [List.foldl_cons]
      apply ih
      split
      · exact Nat.xor_lt_two_pow h (hX.2 a)
      · exact h
  exact this _ (hX.2 i)

theorem upH_WF (U : BMat) (n k : Nat) {X : BMat} (hX : X.WF) : (upH U n k X).WF := by
  induction k generalizing X with
  | zero => exact hX
  | succ k ih =>
    rw [upH_succ]
    exact ih (setRow_WF hX _ _ (upRowStep_lt n hX k))

theorem upStep_row_ne (U : BMat) (n : Nat) (X : BMat) (k i : Nat) (h : i ≠ k) :
    (upStep U n X k).row i = X.row i := by
  rw [upStep, setRow_row]
  have : ¬ (i = k ∧ k < X.rows.size) := fun e => h e.1
  rw [if_neg this]

/-- rows `≥ k` are not touched by the steps `k-1, …, 0` -/
theorem upH_row_ge (U : BMat) (n k : Nat) (X : BMat) (i : Nat) (h : k ≤ i) : (upH U n k X).row i = X.row i := by
  induction k generalizing X with
  | zero => rfl
  | succ k ih => rw [upH_succ, ih _ (by omega), upStep_row_ne _ _ _ _ _ (by omega)]

/-- the defining recurrence of backward substitution, row level -/
theorem upH_row (U : BMat) (n k : Nat) (X : BMat) (hk : k ≤ X.rows.size) (i : Nat) (hik : i < k) :
    (upH U n k X).row i =
      (List.range' (i + 1) (n - (i + 1))).foldl
        (fun acc j => if U.get i j then acc ^^^ (upH U n k X).row j else acc) (X.row i) := by
  induction k generalizing X with
  | zero => omega
  | succ k ih =>
    rw [upH_succ]
    by_cases hi : i = k
    · subst hi
      rw [upH_row_ge _ _ _ _ _ (Nat.le_refl i), upStep, setRow_row, if_pos ⟨rfl, by omega⟩, upRowStep]
      apply foldl_congr_mem
      intro a j hj
      have hj' : i + 1 ≤ j := by
        obtain ⟨t, _, rfl⟩ := List.mem_range'.mp hj; omega
      rw [upH_row_ge _ _ _ _ _ (by omega), setRow_row]
      have : ¬ (j = i ∧ i < X.rows.size) := by omega
      rw [if_neg this]
    · rw [ih (upStep U n X k) (by simp [upStep]; omega) (by omega), upStep_row_ne _ _ _ _ _ hi]

/-- the defining recurrence, entry level -/
theorem trsmUpperLeft_get_rec (U B : BMat) (i c : Nat) (hi : i < B.nrows) (hsz : B.rows.size = B.nrows) :
    (trsmUpperLeft U B).get i c =
      (B.get i c ^^ xsum B.nrows (fun t => decide (i < t) && (U.get i t && (trsmUpperLeft U B).get t c))) := by
  rw [trsmUpperLeft_eq]
  unfold get
  rw [upH_row U B.nrows B.nrows B (by omega) i hi, testBit_foldl_xor_sel, foldl_range'_eq_xsum]
  rw [show i + 1 + (B.nrows - (i + 1)) = B.nrows by omega]
  rfl

@[simp] theorem trsmUpperLeft_nrows (U B : BMat) : (trsmUpperLeft U B).nrows = B.nrows :=
  (upH_shape U B.nrows B.nrows B).1
@[simp] theorem trsmUpperLeft_ncols (U B : BMat) : (trsmUpperLeft U B).ncols = B.ncols :=
  (upH_shape U B.nrows B.nrows B).2.1
theorem trsmUpperLeft_WF (U : BMat) {B : BMat} (hB : B.WF) : (trsmUpperLeft U B).WF :=
  upH_WF U _ _ hB

@[simp] theorem unitUpper_nrows (T : BMat) : (unitUpper T).nrows = T.nrows := rfl
@[simp] theorem unitUpper_ncols (T : BMat) : (unitUpper T).ncols = T.ncols := rfl

theorem unitUpper_get (T : BMat) (i j : Nat) :
    (unitUpper T).get i j =
      (decide (i < T.nrows) && (if i < j then decide (j < T.ncols) && T.get i j else decide (j = i))) := by
  unfold get unitUpper
  by_cases hi : i < T.nrows
  · rw [row_mk_range _ _ _ _ hi, Nat.testBit_or, Nat.testBit_shiftLeft, Nat.testBit_shiftRight,
      Nat.testBit_mod_two_pow, Nat.one_shiftLeft, Nat.testBit_two_pow]
    by_cases hij : i < j
    · have h1 : ¬ i = j := by omega
      have h2 : j ≥ i + 1 := by omega
      have h3 : i + 1 + (j - (i + 1)) = j := by omega
      simp [hi, hij, h1, h2, h3]
    · by_cases hji : j = i
      · subst hji; simp [hi]
      · have h1 : ¬ i = j := by omega
        have h2 : ¬ j ≥ i + 1 := by omega
        simp [hi, hij, hji, h1, h2]
  · rw [row_mk_range_ge _ _ _ _ (by omega)]; simp [hi]

/-- a row of `unitUpper U` times a matrix: the diagonal one plus the strictly-upper part of the row -/
theorem unitUpper_dot (U Y : BMat) (i c : Nat) (hi : i < U.nrows) (hic : i < U.ncols) :
    dotSpec_T (unitUpper U) Y i c =
      (Y.get i c ^^ xsum U.ncols (fun t => decide (i < t) && (U.get i t && Y.get t c))) := by
  unfold dotSpec_T
  rw [unitUpper_ncols, xsum_split3 _ _ i hic]
  have e1 : xsum i (fun t => (unitUpper U).get i t && Y.get t c) = false := by
    apply xsum_false
    intro t ht
    rw [unitUpper_get]
    have h1 : ¬ i < t := by omega
    have h2 : ¬ t = i := by omega
    simp [h1, h2]
  have e3 : xsum U.ncols (fun t => decide (i < t) && ((unitUpper U).get i t && Y.get t c))
      = xsum U.ncols (fun t => decide (i < t) && (U.get i t && Y.get t c)) := by
    apply xsum_congr
    intro t ht
    rw [unitUpper_get]
    by_cases hit : i < t
    · simp [hi, hit, ht]
    · simp [hit]
  rw [e1, e3, unitUpper_get]
  simp [hi]

/-- **C04, upper-left, entry-wise**: `unitUpper(U) · X = B` for `X = trsmUpperLeft U B`. -/
theorem trsmUpperLeft_spec_get (U B : BMat) (hUr : U.nrows = B.nrows) (hUc : U.ncols = B.nrows)
    (hsz : B.rows.size = B.nrows) (i c : Nat) (hi : i < B.nrows) :
    dotSpec_T (unitUpper U) (trsmUpperLeft U B) i c = B.get i c := by
  rw [unitUpper_dot _ _ _ _ (by omega) (by omega), trsmUpperLeft_get_rec U B i c hi hsz, hUc]
  generalize xsum B.nrows (fun t => decide (i < t) && (U.get i t && (trsmUpperLeft U B).get t c)) = s
  cases s <;> cases B.get i c <;> rfl

/-- **C04, upper-left**: `unitUpper(U) · X = B`. -/
theorem trsmUpperLeft_spec {U B : BMat} (hUr : U.nrows = B.nrows) (hUc : U.ncols = B.nrows) (hB : B.WF) :
    (unitUpper U).mul (trsmUpperLeft U B) = B := by
  apply ext_get (mul_WF (unitUpper U) (trsmUpperLeft_WF U hB)) hB
  · simpa using hUr
  · simp
  · intro i j hi _
    simp only [mul_nrows, unitUpper_nrows] at hi
    rw [mul_get _ _ _ _ (by simpa using hi)]
    exact trsmUpperLeft_spec_get U B hUr hUc hB.1 i j (by omega)

/-- **C04, upper-left, only the strictly upper triangle of `U` is read.** -/
theorem trsmUpperLeft_congr (U U' B : BMat)
    (h : ∀ i j, i < j → j < B.nrows → U.get i j = U'.get i j) :
    trsmUpperLeft U B = trsmUpperLeft U' B := by
  unfold trsmUpperLeft
  apply foldl_congr_mem
  intro X i hi
  congr 1
  apply foldl_congr_mem
  intro acc j hj
  obtain ⟨t, ht, rfl⟩ := List.mem_range'.mp hj
  rw [h i _ (by omega) (by omega)]

/-- **C04, upper-left, uniqueness.** -/
theorem trsmUpperLeft_unique {U B Y : BMat} (hUr : U.nrows = B.nrows) (hUc : U.ncols = B.nrows) (hB : B.WF)
    (hY : Y.WF) (hYr : Y.nrows = B.nrows) (hYc : Y.ncols = B.ncols)
    (h : (unitUpper U).mul Y = B) : Y = trsmUpperLeft U B := by
  apply ext_get hY (trsmUpperLeft_WF U hB) (by simpa using hYr) (by simpa using hYc)
  have key : ∀ m i, B.nrows - m ≤ i → i < B.nrows → ∀ c, Y.get i c = (trsmUpperLeft U B).get i c := by
    intro m
    induction m with
    | zero => intro i h1 h2; omega
    | succ m ih =>
      intro i h1 hi c
      have e : dotSpec_T (unitUpper U) Y i c = B.get i c := by
        rw [← mul_get _ _ _ _ (by simpa [hUr] using hi), h]
      rw [unitUpper_dot _ _ _ _ (by omega) (by omega), hUc] at e
      rw [trsmUpperLeft_get_rec U B i c hi hB.1]
      have e2 : xsum B.nrows (fun t => decide (i < t) && (U.get i t && Y.get t c))
          = xsum B.nrows (fun t => decide (i < t) && (U.get i t && (trsmUpperLeft U B).get t c)) := by
        apply xsum_congr
        intro t ht
        by_cases hit : i < t
        · rw [ih t (by omega) ht c]
        · simp [hit]
      rw [← e2, ← e]
      generalize xsum B.nrows (fun t => decide (i < t) && (U.get i t && Y.get t c)) = s
      cases s <;> cases Y.get i c <;> rfl
  intro i j hi _
  exact key B.nrows i (by omega) (by omega) j

/-- non-vacuity -/
example : (unitUpper (identity 3)).mul (trsmUpperLeft (identity 3) (identity 3)) = identity 3 :=
  trsmUpperLeft_spec rfl rfl (identity_WF 3)

/-! ### 3. `trsmUpperRight` (every row of `B` is solved on its own, column by column) -/

theorem bne_eq_bxor (p q : Bool) : (p != q) = (p ^^ q) := by cases p <;> cases q <;> rfl

theorem foldl_bne_eq_xsum (n : Nat) (f : Nat → Bool) :
    (List.range n).foldl (fun p i => p != f i) false = xsum n f := by
  rw [xsum_eq_foldl]

/-- a fold of row-wise maps is the row-wise map of the folds -/
theorem foldl_mapRows (l : List Nat) (g : Nat → Nat → Nat) (B : BMat) :
    l.foldl (fun X j => { X with rows := X.rows.map (g j) }) B
      = { B with rows := B.rows.map (fun x => l.foldl (fun x j => g j x) x) } := by
  induction l generalizing B with
  | nil => simp
  | cons a l ih =>
    simp only [List.foldl_cons]
    rw [ih]
    simp [Array.map_map, Function.comp_def]

theorem row_mapRows (B : BMat) (g : Nat → Nat) (i : Nat) (hi : i < B.rows.size) :
    BMat.row { B with rows := B.rows.map g } i = g (B.row i) := by
  simp [row, Array.getD, hi]

/-- step `j` on one row: fix bit `j` -/
def urStep (U : BMat) (j : Nat) (x : Nat) : Nat :=
  if xsum j (fun i => x.testBit i && U.get i j) then x ^^^ (1 <<< j) else x

def urF (U : BMat) (k : Nat) (x : Nat) : Nat := (List.range k).foldl (fun x j => urStep U j x) x

theorem trsmUpperRight_eq (U B : BMat) :
    trsmUpperRight U B = { B with rows := B.rows.map (urF U B.ncols) } := by
  unfold trsmUpperRight
  have : (fun (X : BMat) (j : Nat) => ({ X with rows := X.rows.map fun x =>
        let s := (List.range j).foldl (fun p i => p != (x.testBit i && U.get i j)) false
        if s then x ^^^ (1 <<< j) else x } : BMat))
      = (fun X j => { X with rows := X.rows.map (urStep U j) }) := by
    funext X j
    congr 1
    congr 1
    funext x
    simp only [urStep, foldl_bne_eq_xsum]
  rw [this, foldl_mapRows]
  rfl

theorem urStep_testBit (U : BMat) (j x c : Nat) :
    (urStep U j x).testBit c = (x.testBit c ^^ (decide (c = j) && xsum j (fun i => x.testBit i && U.get i j))) := by
  unfold urStep
  split
  · rename_i h
    rw [Nat.testBit_xor, Nat.one_shiftLeft, Nat.testBit_two_pow, h]
    by_cases hc : c = j
    · subst hc; simp
    · have : ¬ j = c := fun e => hc e.symm
      simp [hc, this]
  · rename_i h
    simp [h]

theorem urF_succ (U : BMat) (k x : Nat) : urF U (k + 1) x = urStep U k (urF U k x) := by
  unfold urF; rw [List.range_succ, List.foldl_append]; rfl

theorem urF_testBit_succ_ne (U : BMat) (k x c : Nat) (h : c ≠ k) :
    (urF U (k + 1) x).testBit c = (urF U k x).testBit c := by
  rw [urF_succ, urStep_testBit]; simp [h]

theorem urF_testBit_ge (U : BMat) (k x c : Nat) (h : k ≤ c) : (urF U k x).testBit c = x.testBit c := by
  induction k with
  | zero => rfl
  | succ k ih => rw [urF_testBit_succ_ne _ _ _ _ (by omega), ih (by omega)]

theorem urF_testBit_stable (U : BMat) (c k x : Nat) (h : c < k) :
    (urF U k x).testBit c = (urF U (c + 1) x).testBit c := by
  induction k with
  | zero => omega
  | succ k ih =>
    by_cases hck : c = k
    · subst hck; rfl
    · rw [urF_testBit_succ_ne _ _ _ _ hck, ih (by omega)]

/-- the defining recurrence for one row -/
theorem urF_testBit (U : BMat) (k x c : Nat) (h : c < k) :
    (urF U k x).testBit c = (x.testBit c ^^ xsum c (fun i => (urF U k x).testBit i && U.get i c)) := by
  rw [urF_testBit_stable _ _ _ _ h, urF_succ, urStep_testBit, urF_testBit_ge _ _ _ _ (Nat.le_refl c)]
  simp only [decide_true, Bool.true_and]
  congr 1
  apply xsum_congr
  intro i hi
  rw [urF_testBit_stable _ i c x hi, urF_testBit_stable _ i k x (by omega)]

theorem urF_lt (U : BMat) (k x : Nat) (h : x < 2 ^ k) : urF U k x < 2 ^ k := by
  apply Nat.lt_pow_two_of_testBit
  intro c hc
  rw [urF_testBit_ge _ _ _ _ hc]
  exact Nat.testBit_lt_two_pow (Nat.lt_of_lt_of_le h (Nat.pow_le_pow_right (by omega) hc))

@[simp] theorem trsmUpperRight_nrows (U B : BMat) : (trsmUpperRight U B).nrows = B.nrows := by
  rw [trsmUpperRight_eq]
@[simp] theorem trsmUpperRight_ncols (U B : BMat) : (trsmUpperRight U B).ncols = B.ncols := by
  rw [trsmUpperRight_eq]

theorem trsmUpperRight_row (U B : BMat) (i : Nat) : (trsmUpperRight U B).row i = urF U B.ncols (B.row i) := by
  rw [trsmUpperRight_eq]
  by_cases hi : i < B.rows.size
  · exact row_mapRows _ _ _ hi
  · rw [row_of_ge _ _ (by simp; omega), row_of_ge _ _ (by omega)]
    have : ∀ k, urF U k 0 = 0 := by
      intro k
      apply Nat.eq_of_testBit_eq
      intro c
      by_cases hc : c < k
      · induction c using Nat.strongRecOn with
        | _ c ih =>
          rw [urF_testBit _ _ _ _ hc]
          rw [xsum_false (fun i hi => by rw [ih i hi (by omega)]; simp)]
          simp
      · rw [urF_testBit_ge _ _ _ _ (by omega)]
    exact (this _).symm

theorem trsmUpperRight_WF (U : BMat) {B : BMat} (hB : B.WF) : (trsmUpperRight U B).WF := by
  refine ⟨by rw [trsmUpperRight_eq]; simpa using hB.1, fun i => ?_⟩
  rw [trsmUpperRight_row, trsmUpperRight_ncols]
  exact urF_lt _ _ _ (hB.2 i)

/-- the defining recurrence, entry level -/
theorem trsmUpperRight_get_rec (U B : BMat) (i c : Nat) (hc : c < B.ncols) :
    (trsmUpperRight U B).get i c =
      (B.get i c ^^ xsum c (fun t => (trsmUpperRight U B).get i t && U.get t c)) := by
  unfold get
  rw [trsmUpperRight_row, urF_testBit _ _ _ _ hc]
  rfl

/-- a matrix times a column of `unitUpper U` -/
theorem dot_unitUpper (Y U : BMat) (i c : Nat) (hn : Y.ncols = U.nrows) (hcr : c < U.nrows) (hcc : c < U.ncols) :
    dotSpec_T Y (unitUpper U) i c = (xsum c (fun t => Y.get i t && U.get t c) ^^ Y.get i c) := by
  unfold dotSpec_T
  rw [hn, xsum_split3 _ _ c hcr]
  have e3 : xsum U.nrows (fun t => decide (c < t) && (Y.get i t && (unitUpper U).get t c)) = false := by
    apply xsum_false
    intro t _
    rw [unitUpper_get]
    by_cases hct : c < t
    · have h1 : ¬ t < c := by omega
      have h2 : ¬ c = t := by omega
      simp [h1, h2]
    · simp [hct]
  have e1 : xsum c (fun t => Y.get i t && (unitUpper U).get t c) = xsum c (fun t => Y.get i t && U.get t c) := by
    apply xsum_congr
    intro t ht
    rw [unitUpper_get]
    have : t < U.nrows := by omega
    simp [this, ht, hcc]
  rw [e1, e3, unitUpper_get]
  simp [hcr]

/-- **C04, upper-right, entry-wise**: `X · unitUpper(U) = B` for `X = trsmUpperRight U B`
    (`U` is `n × n`, `B` has `n` columns; the diagonal and the lower triangle of `U` are arbitrary). -/
theorem trsmUpperRight_spec_get (U B : BMat) (hUr : U.nrows = B.ncols) (hUc : U.ncols = B.ncols)
    (i c : Nat) (hc : c < B.ncols) :
    dotSpec_T (trsmUpperRight U B) (unitUpper U) i c = B.get i c := by
  rw [dot_unitUpper _ _ _ _ (by simp [hUr]) (by omega) (by omega), trsmUpperRight_get_rec U B i c hc]
  generalize xsum c (fun t => (trsmUpperRight U B).get i t && U.get t c) = s
  cases s <;> cases B.get i c <;> rfl

theorem unitUpper_WF (T : BMat) (h : T.nrows ≤ T.ncols) : (unitUpper T).WF := by
  apply WF_of_get
  · simp [unitUpper]
  · intro i j hj
    rw [unitUpper_get]
    simp only [unitUpper_ncols] at hj
    by_cases hi : i < T.nrows
    · have h1 : ¬ j < T.ncols := by omega
      have h2 : ¬ j = i := by omega
      simp [h1, h2]
    · simp [hi]

theorem unitLower_WF (T : BMat) (h : T.nrows ≤ T.ncols) : (unitLower T).WF := by
  apply WF_of_get
  · simp [unitLower]
  · intro i j hj
    rw [unitLower_get]
    simp only [unitLower_ncols] at hj
    by_cases hi : i < T.nrows
    · have h1 : ¬ j < i := by omega
      have h2 : ¬ j = i := by omega
      simp [h1, h2]
    · simp [hi]

/-- **C04, upper-right**: `X · unitUpper(U) = B`. -/
theorem trsmUpperRight_spec {U B : BMat} (hUr : U.nrows = B.ncols) (hUc : U.ncols = B.ncols) (hB : B.WF) :
    (trsmUpperRight U B).mul (unitUpper U) = B := by
  apply ext_get (mul_WF _ (unitUpper_WF U (by omega))) hB
  · simp
  · simpa using hUc
  · intro i j hi hj
    simp only [mul_nrows, mul_ncols, unitUpper_ncols] at hi hj
    rw [mul_get _ _ _ _ (by simpa using hi)]
    exact trsmUpperRight_spec_get U B hUr hUc i j (by omega)

/-- **C04, upper-right, only the strictly upper triangle of `U` is read.** -/
theorem trsmUpperRight_congr (U U' B : BMat)
    (h : ∀ i j, i < j → j < B.ncols → U.get i j = U'.get i j) :
    trsmUpperRight U B = trsmUpperRight U' B := by
  unfold trsmUpperRight
  apply foldl_congr_mem
  intro X j hj
  congr 1
  congr 1
  funext x
  have : (List.range j).foldl (fun p i => p != (x.testBit i && U.get i j)) false
      = (List.range j).foldl (fun p i => p != (x.testBit i && U'.get i j)) false := by
    apply foldl_congr_mem
    intro p i hi
    rw [h i j (List.mem_range.mp hi) (List.mem_range.mp hj)]
  simp only [this]

/-- **C04, upper-right, uniqueness.** -/
theorem trsmUpperRight_unique {U B Y : BMat} (hUr : U.nrows = B.ncols) (hUc : U.ncols = B.ncols) (hB : B.WF)
    (hY : Y.WF) (hYr : Y.nrows = B.nrows) (hYc : Y.ncols = B.ncols)
    (h : Y.mul (unitUpper U) = B) : Y = trsmUpperRight U B := by
  apply ext_get hY (trsmUpperRight_WF U hB) (by simpa using hYr) (by simpa using hYc)
  have key : ∀ c, c < B.ncols → ∀ i, i < B.nrows → Y.get i c = (trsmUpperRight U B).get i c := by
    intro c
    induction c using Nat.strongRecOn with
    | _ c ih =>
      intro hc i hi
      have e : dotSpec_T Y (unitUpper U) i c = B.get i c := by
        rw [← mul_get _ _ _ _ (by omega), h]
      rw [dot_unitUpper _ _ _ _ (by omega) (by omega) (by omega)] at e
      rw [trsmUpperRight_get_rec U B i c hc]
      have e2 : xsum c (fun t => Y.get i t && U.get t c)
          = xsum c (fun t => (trsmUpperRight U B).get i t && U.get t c) :=
        xsum_congr (fun t ht => by rw [ih t ht (by omega) i hi])
      rw [← e2, ← e]
      generalize xsum c (fun t => Y.get i t && U.get t c) = s
      cases s <;> cases Y.get i c <;> rfl
  intro i j hi hj
  exact key j (by omega) i (by omega)

/-- non-vacuity -/
example : (trsmUpperRight (identity 3) (identity 3)).mul (unitUpper (identity 3)) = identity 3 :=
  trsmUpperRight_spec rfl rfl (identity_WF 3)

/-! ### 4. `trsmLowerRight` -/

/-- step `j` on one row (`n` columns in all): fix bit `j` from the bits above it -/
def lrStep (L : BMat) (n j x : Nat) : Nat :=
  if xsum n (fun i => decide (j < i) && (x.testBit i && L.get i j)) then x ^^^ (1 <<< j) else x

/-- run the steps `k-1, …, 0` on one row -/
def lrH (L : BMat) (n k x : Nat) : Nat := (List.range k).reverse.foldl (fun x j => lrStep L n j x) x

theorem foldl_range'_bne_eq_xsum (j n : Nat) (hj : j < n) (f : Nat → Bool) :
    (List.range' (j + 1) (n - (j + 1))).foldl (fun p i => p != f i) false
      = xsum n (fun i => decide (j < i) && f i) := by
  have : (List.range' (j + 1) (n - (j + 1))).foldl (fun p i => p != f i) false
      = (List.range' (j + 1) (n - (j + 1))).foldl (fun p i => p ^^ f i) false :=
    foldl_congr_mem _ _ _ _ (fun a b _ => bne_eq_bxor _ _)
  rw [this, foldl_range'_eq_xsum, show j + 1 + (n - (j + 1)) = n by omega]
  rfl

theorem trsmLowerRight_eq (L B : BMat) :
    trsmLowerRight L B = { B with rows := B.rows.map (lrH L B.ncols B.ncols) } := by
  unfold trsmLowerRight
  have : (List.range B.ncols).reverse.foldl (fun (X : BMat) (j : Nat) => ({ X with rows := X.rows.map fun x =>
        let s := (List.range' (j + 1) (B.ncols - (j + 1))).foldl (fun p i => p != (x.testBit i && L.get i j)) false
        if s then x ^^^ (1 <<< j) else x } : BMat)) B
      = (List.range B.ncols).reverse.foldl (fun X j => { X with rows := X.rows.map (lrStep L B.ncols j) }) B := by
    apply foldl_congr_mem
    intro X j hj
    have hj' : j < B.ncols := List.mem_range.mp (List.mem_reverse.mp hj)
    congr 1
    congr 1
    funext x
    simp only [lrStep, foldl_range'_bne_eq_xsum _ _ hj']
  rw [this, foldl_mapRows]
  rfl

theorem lrStep_testBit (L : BMat) (n j x c : Nat) :
    (lrStep L n j x).testBit c =
      (x.testBit c ^^ (decide (c = j) && xsum n (fun i => decide (j < i) && (x.testBit i && L.get i j)))) := by
  unfold lrStep
  split
  · rename_i h
    rw [Nat.testBit_xor, Nat.one_shiftLeft, Nat.testBit_two_pow, h]
    by_cases hc : c = j
    · subst hc; simp
    · have : ¬ j = c := fun e => hc e.symm
      simp [hc, this]
  · rename_i h
    simp [h]

theorem lrH_succ (L : BMat) (n k x : Nat) : lrH L n (k + 1) x = lrH L n k (lrStep L n k x) := by
  unfold lrH; rw [List.range_succ, List.reverse_append]; rfl

theorem lrH_testBit_ge (L : BMat) (n k x c : Nat) (h : k ≤ c) : (lrH L n k x).testBit c = x.testBit c := by
  induction k generalizing x with
  | zero => rfl
  | succ k ih =>
    rw [lrH_succ, ih _ (by omega), lrStep_testBit]
    have : ¬ c = k := by omega
    simp [this]

/-- the defining recurrence for one row -/
theorem lrH_testBit (L : BMat) (n k x c : Nat) (h : c < k) :
    (lrH L n k x).testBit c =
      (x.testBit c ^^ xsum n (fun i => decide (c < i) && ((lrH L n k x).testBit i && L.get i c))) := by
  induction k generalizing x with
  | zero => omega
  | succ k ih =>
    rw [lrH_succ]
    by_cases hc : c = k
    · subst hc
      rw [lrH_testBit_ge _ _ _ _ _ (Nat.le_refl c), lrStep_testBit]
      simp only [decide_true, Bool.true_and]
      congr 1
      apply xsum_congr
      intro i _
      by_cases hci : c < i
      · rw [lrH_testBit_ge _ _ _ _ _ (by omega), lrStep_testBit]
        have : ¬ i = c := by omega
        simp [this]
      · simp [hci]
    · rw [ih _ (by omega), lrStep_testBit]
      simp [hc]

theorem lrH_lt (L : BMat) (n k x : Nat) (h : x < 2 ^ k) : lrH L n k x < 2 ^ k := by
  apply Nat.lt_pow_two_of_testBit
  intro c hc
  rw [lrH_testBit_ge _ _ _ _ _ hc]
  exact Nat.testBit_lt_two_pow (Nat.lt_of_lt_of_le h (Nat.pow_le_pow_right (by omega) hc))

theorem lrH_zero (L : BMat) (n k : Nat) : lrH L n k 0 = 0 := by
  induction k with
  | zero => rfl
  | succ k ih =>
    rw [lrH_succ]
    have : lrStep L n k 0 = 0 := by
      unfold lrStep
      rw [xsum_false (fun i _ => by simp)]
      simp
    rw [this, ih]

@[simp] theorem trsmLowerRight_nrows (L B : BMat) : (trsmLowerRight L B).nrows = B.nrows := by
  rw [trsmLowerRight_eq]
@[simp] theorem trsmLowerRight_ncols (L B : BMat) : (trsmLowerRight L B).ncols = B.ncols := by
  rw [trsmLowerRight_eq]

theorem trsmLowerRight_row (L B : BMat) (i : Nat) :
    (trsmLowerRight L B).row i = lrH L B.ncols B.ncols (B.row i) := by
  rw [trsmLowerRight_eq]
  by_cases hi : i < B.rows.size
  · exact row_mapRows _ _ _ hi
  · rw [row_of_ge _ _ (by simp; omega), row_of_ge _ _ (by omega), lrH_zero]

theorem trsmLowerRight_WF (L : BMat) {B : BMat} (hB : B.WF) : (trsmLowerRight L B).WF := by
  refine ⟨by rw [trsmLowerRight_eq]; simpa using hB.1, fun i => ?_⟩
  rw [trsmLowerRight_row, trsmLowerRight_ncols]
  exact lrH_lt _ _ _ _ (hB.2 i)

/-- the defining recurrence, entry level -/
theorem trsmLowerRight_get_rec (L B : BMat) (i c : Nat) (hc : c < B.ncols) :
    (trsmLowerRight L B).get i c =
      (B.get i c ^^ xsum B.ncols (fun t => decide (c < t) && ((trsmLowerRight L B).get i t && L.get t c))) := by
  unfold get
  rw [trsmLowerRight_row, lrH_testBit _ _ _ _ _ hc]
  rfl

/-- a matrix times a column of `unitLower L` -/
theorem dot_unitLower (Y L : BMat) (i c : Nat) (hn : Y.ncols = L.nrows) (hcr : c < L.nrows) :
    dotSpec_T Y (unitLower L) i c =
      (Y.get i c ^^ xsum L.nrows (fun t => decide (c < t) && (Y.get i t && L.get t c))) := by
  unfold dotSpec_T
  rw [hn, xsum_split3 _ _ c hcr]
  have e1 : xsum c (fun t => Y.get i t && (unitLower L).get t c) = false := by
    apply xsum_false
    intro t ht
    rw [unitLower_get]
    have h1 : ¬ c < t := by omega
    have h2 : ¬ c = t := by omega
    simp [h1, h2]
  have e3 : xsum L.nrows (fun t => decide (c < t) && (Y.get i t && (unitLower L).get t c))
      = xsum L.nrows (fun t => decide (c < t) && (Y.get i t && L.get t c)) := by
    apply xsum_congr
    intro t ht
    rw [unitLower_get]
    by_cases hct : c < t
    · simp [ht, hct]
    · simp [hct]
  rw [e1, e3, unitLower_get]
  simp [hcr]

/-- **C04, lower-right, entry-wise**: `X · unitLower(L) = B` for `X = trsmLowerRight L B`. -/
theorem trsmLowerRight_spec_get (L B : BMat) (hLr : L.nrows = B.ncols)
    (i c : Nat) (hc : c < B.ncols) :
    dotSpec_T (trsmLowerRight L B) (unitLower L) i c = B.get i c := by
  rw [dot_unitLower _ _ _ _ (by simp [hLr]) (by omega), trsmLowerRight_get_rec L B i c hc, hLr]
  generalize xsum B.ncols (fun t => decide (c < t) && ((trsmLowerRight L B).get i t && L.get t c)) = s
  cases s <;> cases B.get i c <;> rfl

/-- **C04, lower-right**: `X · unitLower(L) = B`. -/
theorem trsmLowerRight_spec {L B : BMat} (hLr : L.nrows = B.ncols) (hLc : L.ncols = B.ncols) (hB : B.WF) :
    (trsmLowerRight L B).mul (unitLower L) = B := by
  apply ext_get (mul_WF _ (unitLower_WF L (by omega))) hB
  · simp
  · simpa using hLc
  · intro i j hi hj
    simp only [mul_nrows, mul_ncols, unitLower_ncols] at hi hj
    rw [mul_get _ _ _ _ (by simpa using hi)]
    exact trsmLowerRight_spec_get L B hLr i j (by omega)

/-- **C04, lower-right, only the strictly lower triangle of `L` is read.** -/
theorem trsmLowerRight_congr (L L' B : BMat)
    (h : ∀ i j, j < i → i < B.ncols → L.get i j = L'.get i j) :
    trsmLowerRight L B = trsmLowerRight L' B := by
  unfold trsmLowerRight
  apply foldl_congr_mem
  intro X j hj
  congr 1
  congr 1
  funext x
  have : (List.range' (j + 1) (B.ncols - (j + 1))).foldl (fun p i => p != (x.testBit i && L.get i j)) false
      = (List.range' (j + 1) (B.ncols - (j + 1))).foldl (fun p i => p != (x.testBit i && L'.get i j)) false := by
    apply foldl_congr_mem
    intro p i hi
    obtain ⟨t, ht, rfl⟩ := List.mem_range'.mp hi
    rw [h _ j (by omega) (by omega)]
  simp only [this]

/-- **C04, lower-right, uniqueness.** -/
theorem trsmLowerRight_unique {L B Y : BMat} (hLr : L.nrows = B.ncols) (hB : B.WF)
    (hY : Y.WF) (hYr : Y.nrows = B.nrows) (hYc : Y.ncols = B.ncols)
    (h : Y.mul (unitLower L) = B) : Y = trsmLowerRight L B := by
  apply ext_get hY (trsmLowerRight_WF L hB) (by simpa using hYr) (by simpa using hYc)
  have key : ∀ m c, B.ncols - m ≤ c → c < B.ncols → ∀ i, i < B.nrows →
      Y.get i c = (trsmLowerRight L B).get i c := by
    intro m
    induction m with
    | zero => intro c h1 h2; omega
    | succ m ih =>
      intro c h1 hc i hi
      have e : dotSpec_T Y (unitLower L) i c = B.get i c := by
        rw [← mul_get _ _ _ _ (by omega), h]
      rw [dot_unitLower _ _ _ _ (by omega) (by omega), hLr] at e
      rw [trsmLowerRight_get_rec L B i c hc]
      have e2 : xsum B.ncols (fun t => decide (c < t) && (Y.get i t && L.get t c))
          = xsum B.ncols (fun t => decide (c < t) && ((trsmLowerRight L B).get i t && L.get t c)) := by
        apply xsum_congr
        intro t ht
        by_cases hct : c < t
        · rw [ih t (by omega) ht i hi]
        · simp [hct]
      rw [← e2, ← e]
      generalize xsum B.ncols (fun t => decide (c < t) && (Y.get i t && L.get t c)) = s
      cases s <;> cases Y.get i c <;> rfl
  intro i j hi hj
  exact key B.ncols j (by omega) (by omega) i (by omega)

/-- non-vacuity -/
example : (trsmLowerRight (identity 3) (identity 3)).mul (unitLower (identity 3)) = identity 3 :=
  trsmLowerRight_spec rfl rfl (identity_WF 3)

/-! ### 5. C05, third clause: inverse of a unit upper-triangular matrix

  `triInv U := trsmUpperRight U (identity n)` is the two-sided inverse of `unitUpper U`, it is again unit
  upper triangular, and it is the only left / right inverse. -/

/-- the inverse of `unitUpper U` by back substitution on the identity -/
def triInv (U : BMat) : BMat := trsmUpperRight U (identity U.nrows)

@[simp] theorem triInv_nrows (U : BMat) : (triInv U).nrows = U.nrows := by simp [triInv]
@[simp] theorem triInv_ncols (U : BMat) : (triInv U).ncols = U.nrows := by simp [triInv]
theorem triInv_WF (U : BMat) : (triInv U).WF := trsmUpperRight_WF U (identity_WF _)

/-- `triInv U · unitUpper U = I` -/
theorem triInv_mul (U : BMat) (hsq : U.ncols = U.nrows) :
    (triInv U).mul (unitUpper U) = identity U.nrows :=
  trsmUpperRight_spec (by simp) (by simpa using hsq) (identity_WF _)

/-- `unitUpper U · triInv U = I` -/
theorem mul_triInv (U : BMat) (hsq : U.ncols = U.nrows) :
    (unitUpper U).mul (triInv U) = identity U.nrows := by
  have hW : (unitUpper U).WF := unitUpper_WF U (by omega)
  -- both `W·V` and `I` solve `Y · W = W`
  have h1 : ((unitUpper U).mul (triInv U)).mul (unitUpper U) = unitUpper U := by
    rw [mul_assoc _ (triInv_WF U) hW, triInv_mul U hsq]
    have := mul_identity hW
    simpa [hsq] using this
  have h2 : (identity U.nrows).mul (unitUpper U) = unitUpper U := by
    have := identity_mul hW
    simpa using this
  have u1 := trsmUpperRight_unique (U := U) (B := unitUpper U) (Y := (unitUpper U).mul (triInv U))
    (by simpa using hsq.symm) (by simp) hW (mul_WF _ (triInv_WF U)) (by simp) (by simpa using hsq.symm) h1
  have u2 := trsmUpperRight_unique (U := U) (B := unitUpper U) (Y := identity U.nrows)
    (by simpa using hsq.symm) (by simp) hW (identity_WF _) (by simp) (by simpa using hsq.symm) h2
  rw [u1, u2]

/-- entries of `triInv U` on and below the diagonal -/
theorem triInv_get_lower (U : BMat) (i c : Nat) (hi : i < U.nrows) (hc : c ≤ i) :
    (triInv U).get i c = decide (c = i) := by
  induction c using Nat.strongRecOn with
  | _ c ih =>
    unfold triInv
    rw [trsmUpperRight_get_rec _ _ _ _ (by simp; omega), identity_get]
    have : xsum c (fun t => (trsmUpperRight U (identity U.nrows)).get i t && U.get t c) = false := by
      apply xsum_false
      intro t ht
      have := ih t ht (by omega)
      unfold triInv at this
      rw [this]
      have : ¬ t = i := by omega
      simp [this]
    rw [this]
    by_cases hci : c = i
    · subst hci; simp [hi]
    · have : ¬ i = c := fun e => hci e.symm
      simp [hci, this]

/-- **C05 (triangular clause)**: the inverse is again unit upper triangular. -/
theorem unitUpper_triInv (U : BMat) : unitUpper (triInv U) = triInv U := by
  apply ext_get (unitUpper_WF _ (by simp)) (triInv_WF U) (by simp) (by simp)
  intro i j hi hj
  simp only [unitUpper_nrows, unitUpper_ncols, triInv_nrows, triInv_ncols] at hi hj
  rw [unitUpper_get]
  by_cases hij : i < j
  · simp [hi, hij, hj]
  · rw [triInv_get_lower U i j hi (by omega)]
    simp [hi, hij]

/-- uniqueness of the left inverse -/
theorem triInv_unique_left {U Y : BMat} (hsq : U.ncols = U.nrows) (hY : Y.WF) (hYr : Y.nrows = U.nrows)
    (hYc : Y.ncols = U.nrows) (h : Y.mul (unitUpper U) = identity U.nrows) : Y = triInv U :=
  trsmUpperRight_unique (by simp) (by simpa using hsq) (identity_WF _) hY (by simpa using hYr)
    (by simpa using hYc) h

/-- uniqueness of the right inverse -/
theorem triInv_unique_right {U Y : BMat} (hsq : U.ncols = U.nrows) (hY : Y.WF) (hYr : Y.nrows = U.nrows)
    (h : (unitUpper U).mul Y = identity U.nrows) : Y = triInv U := by
  have hW : (unitUpper U).WF := unitUpper_WF U (by omega)
  have e1 : ((triInv U).mul (unitUpper U)).mul Y = Y := by
    rw [triInv_mul U hsq]
    have := identity_mul hY
    rwa [hYr] at this
  rw [mul_assoc _ hW hY, h] at e1
  have := mul_identity (triInv_WF U)
  rw [triInv_ncols] at this
  rw [← e1, this]

/-- non-vacuity (a 3×3 matrix whose stored diagonal and lower triangle are garbage) -/
example : (triInv ⟨3, 3, #[6, 5, 7]⟩).mul (unitUpper ⟨3, 3, #[6, 5, 7]⟩) = identity 3 :=
  triInv_mul _ rfl

/-! ### 6. C05: `inverseSpec` (right half of the RREF of `[A | I]`) is the inverse of an invertible `A`

  The two facts about `gaussDelayed` that are proved elsewhere (`M4riProofs/Gauss.lean`) enter as the
  explicit hypotheses `hrow : RowEquiv H (rref H)` and `hrref : (rref H).isRREF = true`, `H = [A | I]`. -/

/-- `R = T · M` for a square `T` that has a right inverse (row operations) -/
def RowEquiv (M R : BMat) : Prop :=
  ∃ T T' : BMat, T.WF ∧ T'.WF ∧ T.nrows = M.nrows ∧ T.ncols = M.nrows ∧ T'.nrows = M.nrows ∧ T'.ncols = M.nrows ∧
    T.mul M = R ∧ T.mul T' = identity M.nrows

@[simp] theorem concat_nrows (A B : BMat) : (A.concat B).nrows = A.nrows := rfl
@[simp] theorem concat_ncols (A B : BMat) : (A.concat B).ncols = A.ncols + B.ncols := rfl

theorem concat_get (A B : BMat) (i j : Nat) :
    (A.concat B).get i j = (decide (i < A.nrows) &&
      (if j < A.ncols then A.get i j else (decide (j - A.ncols < B.ncols) && B.get i (j - A.ncols)))) := by
  unfold get concat
  by_cases hi : i < A.nrows
  · rw [row_mk_range _ _ _ _ hi, Nat.testBit_or, Nat.testBit_shiftLeft, Nat.testBit_mod_two_pow,
      Nat.testBit_mod_two_pow]
    by_cases hj : j < A.ncols
    · have : ¬ j ≥ A.ncols := by omega
      simp [hi, hj, this]
    · have : j ≥ A.ncols := by omega
      simp [hi, hj, this]
  · rw [row_mk_range_ge _ _ _ _ (by omega)]; simp [hi]

theorem concat_WF (A B : BMat) : (A.concat B).WF := by
  apply WF_of_get
  · simp [concat]
  · intro i j hj
    rw [concat_get]
    simp only [concat_ncols] at hj
    have h1 : ¬ j < A.ncols := by omega
    have h2 : ¬ j - A.ncols < B.ncols := by omega
    simp [h1, h2]

theorem sub_get (M : BMat) (lr lc hr hc i j : Nat) :
    (M.sub lr lc hr hc).get i j =
      (decide (i < min (hr - lr) (M.nrows - lr)) && (decide (j < hc - lc) && M.get (lr + i) (lc + j))) := by
  unfold get sub
  by_cases hi : i < min (hr - lr) (M.nrows - lr)
  · rw [row_mk_range _ _ _ _ hi, Nat.testBit_mod_two_pow, Nat.testBit_shiftRight]
    simp [hi]
  · rw [row_mk_range_ge _ _ _ _ (by omega)]; simp [hi]

theorem sub_WF (M : BMat) (lr lc hr hc : Nat) : (M.sub lr lc hr hc).WF := by
  apply WF_of_get
  · simp [sub]
  · intro i j hj
    rw [sub_get]
    have : ¬ j < hc - lc := by simp only [sub] at hj; omega
    simp [this]

/-! lowest set bit -/

theorem lowBit_succ (v n : Nat) :
    lowBit v (n + 1) = (lowBit v n).or (if v.testBit n then some n else none) := by
  unfold lowBit
  rw [List.range_succ, List.find?_append]
  congr 1
  by_cases h : v.testBit n <;> simp [h]

theorem lowBit_none (v n : Nat) (h : lowBit v n = none) (j : Nat) (hj : j < n) : v.testBit j = false := by
  unfold lowBit at h
  rw [List.find?_eq_none] at h
  have := h j (List.mem_range.mpr hj)
  simpa using this

theorem lowBit_some (v n c : Nat) (h : lowBit v n = some c) :
    c < n ∧ v.testBit c = true ∧ ∀ j, j < c → v.testBit j = false := by
  induction n with
  | zero => simp [lowBit] at h
  | succ n ih =>
    rw [lowBit_succ] at h
    cases hn : lowBit v n with
    | some c' =>
      rw [hn] at h
      rw [Option.some_or] at h
      cases h
      have := ih hn
      exact ⟨by omega, this.2⟩
    | none =>
      rw [hn] at h
      rw [Option.none_or] at h
      by_cases hb : v.testBit n
      · rw [if_pos hb] at h
        cases h
        exact ⟨by omega, hb, fun j hj => lowBit_none v c hn j hj⟩
      · rw [if_neg hb] at h; cases h

theorem lowBit_exists (v n j : Nat) (hj : j < n) (hb : v.testBit j = true) : ∃ c, c ≤ j ∧ lowBit v n = some c := by
  cases h : lowBit v n with
  | none => rw [lowBit_none v n h j hj] at hb; cases hb
  | some c =>
    refine ⟨c, ?_, rfl⟩
    have := (lowBit_some v n c h).2.2
    by_cases hc : c ≤ j
    · exact hc
    · rw [this j (by omega)] at hb; cases hb

/-! the echelon test on a list of leading columns without gaps -/

theorem go_all_some (l : List Nat) (prev : Option Nat) (sz : Bool)
    (h : isRowEchelon.go (l.map some) prev sz = true) :
    l.Pairwise (· < ·) ∧ ∀ p, prev = some p → ∀ c, c ∈ l → p < c := by
  induction l generalizing prev sz with
  | nil => exact ⟨List.Pairwise.nil, fun _ _ _ hc => by cases hc⟩
  | cons c rest ih =>
    simp only [List.map_cons] at h
    unfold isRowEchelon.go at h
    simp only [Bool.and_eq_true] at h
    obtain ⟨⟨_, hp⟩, hrest⟩ := h
    have ih' := ih (some c) false hrest
    refine ⟨List.Pairwise.cons (fun c' hc' => ih'.2 c rfl c' hc') ih'.1, ?_⟩
    intro p hprev c' hc'
    subst hprev
    simp only [decide_eq_true_eq] at hp
    rcases List.mem_cons.mp hc' with rfl | hmem
    · exact hp
    · exact Nat.lt_trans hp (ih'.2 c rfl c' hmem)

/-- what `isRREF` says about a matrix all of whose rows are non-zero, `lead i` being the leading column
    of row `i`: the leading columns increase strictly and each of them holds a single one -/
theorem isRREF_elim {M : BMat} (h : M.isRREF = true) (lead : Nat → Nat)
    (hlead : ∀ i, i < M.nrows → lowBit (M.row i % 2 ^ M.ncols) M.ncols = some (lead i)) :
    (∀ i j, i < j → j < M.nrows → lead i < lead j) ∧
    (∀ i i', i < M.nrows → i' < M.nrows → i' ≠ i → M.get i' (lead i) = false) := by
  unfold isRREF at h
  rw [Bool.and_eq_true] at h
  obtain ⟨h1, h2⟩ := h
  constructor
  · unfold isRowEchelon at h1
    simp only at h1
    have e : M.leads = ((List.range M.nrows).map lead).map some := by
      unfold leads
      rw [List.map_map]
      apply List.map_congr_left
      intro i hi
      exact hlead i (List.mem_range.mp hi)
    rw [e] at h1
    have := (go_all_some _ _ _ h1).1
    rw [List.pairwise_map, List.pairwise_iff_getElem] at this
    intro i j hij hj
    have := this i j (by simp; omega) (by simpa using hj) hij
    simpa using this
  · intro i i' hi hi' hne
    rw [List.all_eq_true] at h2
    have := h2 i (List.mem_range.mpr hi)
    rw [hlead i hi] at this
    simp only [List.all_eq_true] at this
    have := this i' (List.mem_range.mpr hi')
    simpa [hne] using this

/-- a strictly increasing map of `[0,n)` into itself is the identity -/
theorem strictMono_fin_id (n : Nat) (f : Nat → Nat) (hlt : ∀ i, i < n → f i < n)
    (hmono : ∀ i j, i < j → j < n → f i < f j) (i : Nat) (hi : i < n) : f i = i := by
  have hge : ∀ i, i < n → i ≤ f i := by
    intro i
    induction i with
    | zero => intro _; omega
    | succ i ih => intro h; have := ih (by omega); have := hmono i (i + 1) (by omega) h; omega
  have hle : ∀ d i, i < n → n - 1 - i = d → f i ≤ i := by
    intro d
    induction d with
    | zero => intro i h1 h2; have := hlt i h1; omega
    | succ d ih =>
      intro i h1 h2
      have := ih (i + 1) (by omega) (by omega)
      have := hmono i (i + 1) (by omega) (by omega)
      omega
  have := hge i hi
  have := hle (n - 1 - i) i hi rfl
  omega

theorem xsum_true_exists {n : Nat} {f : Nat → Bool} (h : xsum n f = true) : ∃ t, t < n ∧ f t = true := by
  apply Classical.byContradiction
  intro hne
  have : xsum n f = false := xsum_false (fun t ht => by
    cases hf : f t with
    | false => rfl
    | true => exact absurd ⟨t, ht, hf⟩ hne)
  rw [this] at h; cases h

/-- left block of `T · [A | I]` -/
theorem mul_concat_left (T A : BMat) (hTc : T.ncols = A.nrows) (i j : Nat) (hi : i < T.nrows) (hj : j < A.ncols) :
    (T.mul (A.concat (identity A.nrows))).get i j = (T.mul A).get i j := by
  rw [mul_get _ _ _ _ hi, mul_get _ _ _ _ hi]
  unfold dotSpec_T
  apply xsum_congr
  intro t ht
  rw [concat_get]
  have : t < A.nrows := by omega
  simp [this, hj]

/-- right block of `T · [A | I]` -/
theorem mul_concat_right (T A : BMat) (hTc : T.ncols = A.nrows) (i j : Nat) (hi : i < T.nrows) (hj : j < A.nrows) :
    (T.mul (A.concat (identity A.nrows))).get i (A.ncols + j) = T.get i j := by
  rw [mul_get _ _ _ _ hi]
  unfold dotSpec_T
  rw [xsum_single j (by omega)]
  · rw [concat_get, identity_get]
    have h1 : ¬ A.ncols + j < A.ncols := by omega
    have h2 : A.ncols + j - A.ncols = j := by omega
    simp [hj, h1, h2]
  · intro t _ hne
    rw [concat_get, identity_get]
    have h1 : ¬ A.ncols + j < A.ncols := by omega
    have h2 : A.ncols + j - A.ncols = j := by omega
    simp [h1, h2, hne]

/-- an `n × n` matrix in reduced row echelon form that has a right inverse is the identity;
    stated for the left block `M` of a wider RREF matrix `R = [M | …]` -/
theorem rref_left_block_identity {R M N : BMat} (n : Nat) (hR : R.WF) (hRr : R.nrows = n) (hRc : n ≤ R.ncols)
    (hM : M.WF) (hMr : M.nrows = n) (hMc : M.ncols = n)
    (hblock : ∀ i j, i < n → j < n → R.get i j = M.get i j)
    (hMN : M.mul N = identity n) (hrref : R.isRREF = true) : M = identity n := by
  -- every row of `M` is non-zero
  have hnz : ∀ i, i < n → ∃ j, j < n ∧ M.get i j = true := by
    intro i hi
    have : (M.mul N).get i i = true := by rw [hMN, identity_get]; simp [hi]
    rw [mul_get _ _ _ _ (by omega), dotSpec_T, hMc] at this
    obtain ⟨t, ht, hft⟩ := xsum_true_exists this
    exact ⟨t, ht, by simp only [Bool.and_eq_true] at hft; exact hft.1⟩
  have hmod : ∀ i, R.row i % 2 ^ R.ncols = R.row i := fun i => Nat.mod_eq_of_lt (hR.2 i)
  let lead : Nat → Nat := fun i => (lowBit (R.row i % 2 ^ R.ncols) R.ncols).getD 0
  have hlead' : ∀ i, i < n → ∃ c, c < n ∧ lowBit (R.row i % 2 ^ R.ncols) R.ncols = some c := by
    intro i hi
    obtain ⟨j, hj, hb⟩ := hnz i hi
    rw [← hblock i j hi hj] at hb
    obtain ⟨c, hc, hl⟩ := lowBit_exists (R.row i) R.ncols j (by omega) hb
    exact ⟨c, by omega, by rw [hmod]; exact hl⟩
  have hlead : ∀ i, i < R.nrows → lowBit (R.row i % 2 ^ R.ncols) R.ncols = some (lead i) := by
    intro i hi
    obtain ⟨c, _, hl⟩ := hlead' i (by omega)
    simp only [lead, hl, Option.getD_some]
  have hleadlt : ∀ i, i < n → lead i < n := by
    intro i hi
    obtain ⟨c, hc, hl⟩ := hlead' i hi
    simp only [lead, hl, Option.getD_some]; exact hc
  obtain ⟨hmono, hclean⟩ := isRREF_elim hrref lead hlead
  have hid : ∀ i, i < n → lead i = i :=
    strictMono_fin_id n lead hleadlt (fun i j hij hj => hmono i j hij (by omega))
  apply ext_get hM (identity_WF n) (by simpa using hMr) (by simpa using hMc)
  intro i j hi hj
  rw [hMr] at hi; rw [hMc] at hj
  rw [identity_get, ← hblock i j hi hj]
  by_cases hij : i = j
  · subst hij
    have := (lowBit_some _ _ _ (hlead i (by omega))).2.1
    rw [hmod, hid i hi] at this
    simp only [hi, and_self, decide_true]
    exact this
  · have := hclean j i (by omega) (by omega) hij
    rw [hid j hj] at this
    rw [this]; simp [hij]

/-- **C05**: if `A` (well-formed, `n × n`) has a right inverse `Binv`, then `inverseSpec A` — the right half
    of the RREF of `[A | I]` — equals `Binv` and is a two-sided inverse.
    `hrow`/`hrref` are the two facts about `rref` (Gauss–Jordan elimination) proved in `M4riProofs/Gauss.lean`:
    the result is reached by row operations, and it is in reduced row echelon form. -/
theorem inverseSpec_spec {A Binv : BMat} (hA : A.WF) (hsq : A.ncols = A.nrows)
    (hB : Binv.WF) (hBr : Binv.nrows = A.nrows) (hBc : Binv.ncols = A.nrows)
    (hAB : A.mul Binv = identity A.nrows)
    (hrow : RowEquiv (A.concat (identity A.nrows)) (A.concat (identity A.nrows)).rref)
    (hrref : (A.concat (identity A.nrows)).rref.isRREF = true) :
    inverseSpec A = Binv ∧ (inverseSpec A).mul A = identity A.nrows ∧
      A.mul (inverseSpec A) = identity A.nrows := by
  obtain ⟨T, T', hT, hT', hTr, hTc, hT'r, hT'c, hTH, hTT'⟩ := hrow
  simp only [concat_nrows] at hTr hTc hT'r hT'c hTT'
  have hH : (A.concat (identity A.nrows)).WF := concat_WF _ _
  have hRWF : (A.concat (identity A.nrows)).rref.WF := by rw [← hTH]; exact mul_WF _ hH
  have hRr : (A.concat (identity A.nrows)).rref.nrows = A.nrows := by rw [← hTH]; simpa using hTr
  have hRc : (A.concat (identity A.nrows)).rref.ncols = A.ncols + A.nrows := by rw [← hTH]; simp
  -- `T · A` has the right inverse `Binv · T'`
  have hMN : (T.mul A).mul (Binv.mul T') = identity A.nrows := by
    rw [mul_assoc _ hA (mul_WF _ hT'), ← mul_assoc _ hB hT', hAB]
    have := identity_mul hT'
    rw [hT'r] at this
    rw [this, hTT']
  have hTA : T.mul A = identity A.nrows := by
    apply rref_left_block_identity (R := (A.concat (identity A.nrows)).rref) (N := Binv.mul T') A.nrows
      hRWF hRr (by omega) (mul_WF _ hA) (by simpa using hTr) (by simpa using hsq) _ hMN hrref
    intro i j hi hj
    rw [← hTH]
    exact mul_concat_left T A hTc i j (by omega) (by omega)
  have hinv : inverseSpec A = T := by
    apply ext_get (sub_WF _ _ _ _ _) hT
    · simp only [sub]; rw [hRr, hTr]; omega
    · simp only [sub]; rw [hTc]; omega
    · intro i j hi hj
      simp only [sub] at hi hj
      rw [hRr] at hi
      rw [sub_get, hRr, ← hTH]
      have h1 : i < min (A.nrows - 0) (A.nrows - 0) := by omega
      have h2 : j < 2 * A.ncols - A.ncols := by omega
      simp only [h1, h2, decide_true, Bool.true_and, Nat.zero_add]
      exact mul_concat_right T A hTc i j (by omega) (by omega)
  have hTB : T = Binv := by
    have e1 : (T.mul A).mul Binv = Binv := by
      rw [hTA]; have := identity_mul hB; rwa [hBr] at this
    rw [mul_assoc _ hA hB, hAB] at e1
    have := mul_identity hT
    rw [hTc] at this
    rw [← e1, this]
  refine ⟨hinv.trans hTB, by rw [hinv]; exact hTA, by rw [hinv, hTB]; exact hAB⟩

/-- naive inversion handed an identity matrix returns the same matrix as `inverseSpec` (or `NULL` when the
    elimination finds no pivot at all, i.e. when the rank of `[A | I]` is reported as zero) -/
theorem invertNaive_identity (A : BMat) :
    invertNaive A (identity A.nrows) =
      if (A.concat (identity A.nrows)).rank = 0 then none else some (inverseSpec A) := rfl

/-- **C05 (triangular clause, as judged in the checks)**: for a genuinely unit upper-triangular `U` the judge
    `inverseSpec U` is the back-substitution inverse `triInv U`, which is again unit upper triangular. -/
theorem inverseSpec_unitUpper {U : BMat} (hU : U.WF) (hsq : U.ncols = U.nrows) (hut : unitUpper U = U)
    (hrow : RowEquiv (U.concat (identity U.nrows)) (U.concat (identity U.nrows)).rref)
    (hrref : (U.concat (identity U.nrows)).rref.isRREF = true) :
    inverseSpec U = triInv U ∧ unitUpper (inverseSpec U) = inverseSpec U ∧
      (inverseSpec U).mul U = identity U.nrows ∧ U.mul (inverseSpec U) = identity U.nrows := by
  have h := mul_triInv U hsq
  rw [hut] at h
  obtain ⟨e1, e2, e3⟩ := inverseSpec_spec hU hsq (triInv_WF U) (by simp) (by simp) h hrow hrref
  refine ⟨e1, ?_, e2, e3⟩
  rw [e1]; exact unitUpper_triInv U

deriving instance DecidableEq for BMat

/-- non-vacuity of `inverseSpec_spec`: the hypotheses hold for the 2×2 identity -/
example : inverseSpec (identity 2) = identity 2 := by
  have hr : ((identity 2).concat (identity (identity 2).nrows)).rref
      = (identity 2).concat (identity (identity 2).nrows) := by decide +kernel
  refine (inverseSpec_spec (A := identity 2) (Binv := identity 2) (identity_WF 2) rfl (identity_WF 2) rfl rfl
    (identity_mul (identity_WF 2)) ?_ ?_).1
  · refine ⟨identity 2, identity 2, identity_WF 2, identity_WF 2, rfl, rfl, rfl, rfl, ?_, identity_mul (identity_WF 2)⟩
    rw [hr]
    exact identity_mul (A := (identity 2).concat (identity (identity 2).nrows)) (concat_WF _ _)
  · decide +kernel

end BMat

end M4ri
