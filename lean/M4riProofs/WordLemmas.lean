import M4ri.Word
namespace M4ri

theorem leftMask_getLsbD (n i : Nat) (hn : 1 ≤ n) (hn' : n ≤ 64) :
    (leftMask n).getLsbD i = decide (i < n) := by
  unfold leftMask ffff
  simp only [BitVec.getLsbD_ushiftRight, BitVec.getLsbD_allOnes]
  have : (64 - n) % 64 = 64 - n := by omega
  rw [this]
  by_cases h : i < n <;> simp [h] <;> omega

theorem leftMask_zero : leftMask 0 = ffff := by
  unfold leftMask; simp

theorem rightMask_getLsbD (n i : Nat) (hn' : n ≤ 64) :
    (rightMask n).getLsbD i = decide (64 - n ≤ i ∧ i < 64) := by
  unfold rightMask ffff
  simp only [BitVec.getLsbD_shiftLeft, BitVec.getLsbD_allOnes]
  by_cases h : i < 64 <;> by_cases h2 : 64 - n ≤ i <;> simp [h, h2] <;> omega

theorem merge_getLsbD (c x m : Word) (i : Nat) :
    (merge c x m).getLsbD i = if m.getLsbD i then x.getLsbD i else c.getLsbD i := by
  unfold merge
  simp only [BitVec.getLsbD_xor, BitVec.getLsbD_and]
  cases m.getLsbD i <;> cases c.getLsbD i <;> cases x.getLsbD i <;> rfl

theorem merge'_eq_merge (c x m : Word) : merge' c x m = merge c x m := by
  apply BitVec.eq_of_getLsbD_eq
  intro i hi
  rw [merge_getLsbD]
  unfold merge'
  simp only [BitVec.getLsbD_or, BitVec.getLsbD_and, BitVec.getLsbD_not, hi, decide_true, Bool.true_and]
  cases m.getLsbD i <;> cases c.getLsbD i <;> cases x.getLsbD i <;> rfl

end M4ri
