/-
  GenTieEch: tie of the generated `Gen.C.echelonizePluq` (= the WHOLE C function `mzd_echelonize_pluq(A, full)` of
  m4ri/echelonform.c: fresh identity permutations, `mzd_pluq` / `mzd_ple`, the window `U`, the three `r mod 64`
  cases of the back substitution (window `B`; copy `B0` + window `B1` + copy back; copy `B` + copy back),
  `mzd_set_ui(U, 1)`, `mzd_apply_p_right(A0, Q)`; for `full = 0` the `mzd_clear_bits` loops and the pivot bits
  `mzd_write_bit(A, i, Q[i], 1)`; `mzd_set_ui(R, 0)` on the rows below the rank) with the model
  `BMat.PN.echelonizePluq` (M4ri/Glue.lean).

  The untranslated callees (function parameters of the generated code) are instantiated by lifted model operations:
    `f_mzd_pluq`, `f_mzd_ple`   := `GenTiePle.liftPle fact`   (`fact` = the model's factorisation routine)
    `f_mzd_trsm_upper_left`     := `fun U B _ => liftM2 trsmUpperLeft U B`
    `f_mzd_submatrix_new`       := `liftSubNew`  (fresh zero-padded matrix `Mzd.ofB (X.toB.sub lr lc hr hc)`)
    `f_mzd_copy`                := `liftCopy`    (`DST.putB SRC.toB`)
    `f_mzd_apply_p_right`       := `liftApplyPRight` (the model's `BMat.applyPRight`; array length = `ncols` of the view)

  Main theorems
    `echelonizePluq_eq`       both values of `full`.  Hypotheses: `A.WF`, `1 ≤ A.ncols`, and SHAPES only of
                              `(S, P, Q, r) = fact A.toB`: `S` well-formed of the shape of `A`, `r ≤ nrows`, `r ≤ ncols`,
                              `Q.size = ncols`, `Q[i] < ncols` for `i < r`.  No correctness of `fact` is used.
                              Result: `(r, memOf (A.putB (echelonizePluq fact A.toB full).1))`.
    `echelonizePluq_ple_eq`   `full = 0` (stage a; the other callees arbitrary; `Q.size` not needed)
    `echelonizePluq_full_eq`  `full = 1` (stages b, c: ALL three cases; `Q[i] < ncols` not needed, `f_mzd_ple` arbitrary)
  The crux (`solvedB_get_top`, from `trsm_col` = column-wise independence of `trsmUpperLeft`): whichever windows /
  copies the solve goes through, the columns `≥ r` of the first `r` rows end up as the columns of ONE reference
  solution `canon S r nc`; what the copy-back writes into the columns `r_radix..r` of `U` is irrelevant because
  `mzd_set_ui(U, 1)` overwrites `U` afterwards (`full_entries` never looks at those entries).
  New ties of translated callees: `mzdSetUi_one_eq` (`mzd_set_ui(A, 1)` = `Mzd.setUi A 1`), `mzdSetUi_one_agree`,
  `setUi_one_window`, `setUiOne_state`; new call rules `call2_fresh`, `copy_state`, `applyPRight_state`.
  No difference between C and the model was found.  Domain: `1 ≤ A.ncols` (for `ncols = 0` the C function
  `mzd_set_ui(R, 0)` reads `row[width - 1] = row[-1]`).
  Core Lean tactics only.
-/
import M4riProofs.GenTieView
import M4riProofs.GenTieAlg
import M4riProofs.GenTieSolve
import M4riProofs.GenTiePle
import M4riProofs.PleNaive
set_option linter.unusedVariables false
namespace M4ri.GenTieEch
open M4ri M4ri.Gen M4ri.GenTieMem M4ri.GenTieView M4ri.BMat M4ri.GenTieAlg M4ri.GenTieSolve M4ri.GenTieTab
open M4ri.BMat.PN

/-! ### 1. model level -/

/-- **column-wise independence of `trsmUpperLeft`**: the solution in a column only depends on that column of the
    right-hand side -/
theorem trsm_col (U B B' : BMat) (c c' : Nat) (hn : B'.nrows = B.nrows) (hsz : B.rows.size = B.nrows)
    (hsz' : B'.rows.size = B'.nrows) (h : ∀ i, i < B.nrows → B.get i c = B'.get i c') :
    ∀ i, i < B.nrows → (trsmUpperLeft U B).get i c = (trsmUpperLeft U B').get i c' := by
  have key : ∀ m i, B.nrows - m ≤ i → i < B.nrows →
      (trsmUpperLeft U B).get i c = (trsmUpperLeft U B').get i c' := by
    intro m
    induction m with
    | zero => intro i h1 h2; omega
    | succ m ih =>
      intro i h1 hi
      rw [trsmUpperLeft_get_rec U B i c hi hsz, trsmUpperLeft_get_rec U B' i c' (by omega) hsz', h i hi, hn]
      congr 1
      apply xsum_congr
      intro t ht
      by_cases hit : i < t
      · rw [ih t (by omega) ht]
      · simp [hit]
  intro i hi
  exact key B.nrows i (by omega) hi

/-- the solution for the whole top block `S[0..r, 0..nc)`: the reference all windows are compared with -/
def canon (S : BMat) (r nc : Nat) : BMat := trsmUpperLeft (S.sub 0 0 r r) (S.sub 0 0 r nc)

/-- solving through ANY column window gives the columns of the reference solution -/
theorem solveCol (S : BMat) (nr nc r : Nat) (hS : Shaped S nr nc) (hr1 : r ≤ nr) (c0 c1 i j : Nat) (hc0 : c0 ≤ j)
    (hj1 : j < c1) (hjn : j < nc) (hi : i < r) :
    (trsmUpperLeft (S.sub 0 0 r r) (S.sub 0 c0 r c1)).get i (j - c0) = (canon S r nc).get i j := by
  unfold canon
  have hB := hS.sub 0 c0 r c1 hr1
  have hB' := hS.sub 0 0 r nc hr1
  apply trsm_col (S.sub 0 0 r r) (S.sub 0 c0 r c1) (S.sub 0 0 r nc) (j - c0) j rfl hB.wf.1 hB'.wf.1
  · intro t ht
    rw [hS.get_sub 0 c0 r c1 t (j - c0) hr1, hS.get_sub 0 0 r nc t j hr1]
    have e : c0 + (j - c0) = j := by omega
    have h1 : t < r - 0 ∧ j - c0 < c1 - c0 := by rw [hB.nr] at ht; omega
    have h2 : t < r - 0 ∧ j < nc - 0 := by rw [hB.nr] at ht; omega
    rw [e, Nat.zero_add, Nat.zero_add, decide_eq_true h1, decide_eq_true h2]
  · rw [hB.nr]; omega

/-- what the three cases of the C code leave in `A` before `mzd_set_ui(U, 1)` -/
def solvedB (S : BMat) (r nc : Nat) : BMat :=
  if r = nc then S
  else if r % 64 = 0 then S.paste 0 r (trsmUpperLeft (S.sub 0 0 r r) (S.sub 0 r r nc))
  else if 64 * (r / 64) + 64 < nc then
    (S.paste 0 (64 * (r / 64) + 64) (trsmUpperLeft (S.sub 0 0 r r) (S.sub 0 (64 * (r / 64) + 64) r nc))).paste 0
      (64 * (r / 64)) (trsmUpperLeft (S.sub 0 0 r r) (S.sub 0 (64 * (r / 64)) r (64 * (r / 64) + 64)))
  else S.paste 0 (64 * (r / 64)) (trsmUpperLeft (S.sub 0 0 r r) (S.sub 0 (64 * (r / 64)) r nc))

theorem shaped_solve {S : BMat} {nr nc : Nat} (hS : Shaped S nr nc) (r c0 c1 : Nat) (hr1 : r ≤ nr) :
    Shaped (trsmUpperLeft (S.sub 0 0 r r) (S.sub 0 c0 r c1)) (r - 0) (c1 - c0) :=
  GenTieSolve.shaped_ul (hS.sub 0 c0 r c1 hr1)

theorem solvedB_shaped (S : BMat) (nr nc r : Nat) (hS : Shaped S nr nc) (hr1 : r ≤ nr) (hr2 : r ≤ nc) :
    Shaped (solvedB S r nc) nr nc := by
  unfold solvedB
  split
  · exact hS
  · split
    · exact GenTieSolve.shaped_paste_win hS 0 r r nc (shaped_solve hS r r nc hr1) hr2 (Nat.le_refl _)
    · split
      · exact GenTieSolve.shaped_paste_win
          (GenTieSolve.shaped_paste_win hS 0 (64 * (r / 64) + 64) r nc (shaped_solve hS r _ nc hr1) (by omega)
            (Nat.le_refl _)) 0 (64 * (r / 64)) r (64 * (r / 64) + 64) (shaped_solve hS r _ _ hr1) (by omega) (by omega)
      · exact GenTieSolve.shaped_paste_win hS 0 (64 * (r / 64)) r nc (shaped_solve hS r _ nc hr1) (by omega)
          (Nat.le_refl _)

/-- the rows from `r` on are not touched -/
theorem solvedB_get_bot (S : BMat) (nr nc r : Nat) (hS : Shaped S nr nc) (hr1 : r ≤ nr) (hr2 : r ≤ nc) (i j : Nat)
    (hi : r ≤ i) : (solvedB S r nc).get i j = S.get i j := by
  unfold solvedB
  split
  · rfl
  · split
    · rw [hS.get_paste_window 0 r r nc (shaped_solve hS r r nc hr1) hr1, if_neg (by omega)]
    · split
      · rw [(GenTieSolve.shaped_paste_win hS 0 (64 * (r / 64) + 64) r nc (shaped_solve hS r _ nc hr1) (by omega)
            (Nat.le_refl _)).get_paste_window 0 (64 * (r / 64)) r (64 * (r / 64) + 64) (shaped_solve hS r _ _ hr1) hr1,
          if_neg (by omega),
          hS.get_paste_window 0 (64 * (r / 64) + 64) r nc (shaped_solve hS r _ nc hr1) hr1, if_neg (by omega)]
      · rw [hS.get_paste_window 0 (64 * (r / 64)) r nc (shaped_solve hS r _ nc hr1) hr1, if_neg (by omega)]

/-- **the crux**: in the columns from `r` on, all three cases leave the reference solution `U⁻¹·B` -/
theorem solvedB_get_top (S : BMat) (nr nc r : Nat) (hS : Shaped S nr nc) (hr1 : r ≤ nr) (hr2 : r ≤ nc) (i j : Nat)
    (hi : i < r) (hj : r ≤ j) (hjn : j < nc) : (solvedB S r nc).get i j = (canon S r nc).get i j := by
  unfold solvedB
  rw [if_neg (by omega)]
  split
  · rw [hS.get_paste_window 0 r r nc (shaped_solve hS r r nc hr1) hr1, if_pos (by omega), Nat.sub_zero]
    exact solveCol S nr nc r hS hr1 r nc i j hj hjn hjn hi
  · split
    · rw [(GenTieSolve.shaped_paste_win hS 0 (64 * (r / 64) + 64) r nc (shaped_solve hS r _ nc hr1) (by omega)
          (Nat.le_refl _)).get_paste_window 0 (64 * (r / 64)) r (64 * (r / 64) + 64) (shaped_solve hS r _ _ hr1) hr1]
      by_cases hj2 : j < 64 * (r / 64) + 64
      · rw [if_pos (by omega), Nat.sub_zero]
        exact solveCol S nr nc r hS hr1 _ _ i j (by omega) hj2 hjn hi
      · rw [if_neg (by omega),
          hS.get_paste_window 0 (64 * (r / 64) + 64) r nc (shaped_solve hS r _ nc hr1) hr1, if_pos (by omega),
          Nat.sub_zero]
        exact solveCol S nr nc r hS hr1 _ _ i j (by omega) hjn hjn hi
    · rw [hS.get_paste_window 0 (64 * (r / 64)) r nc (shaped_solve hS r _ nc hr1) hr1, if_pos (by omega),
        Nat.sub_zero]
      exact solveCol S nr nc r hS hr1 _ _ i j (by omega) hjn hjn hi

/-- the right block of the model's `topFullPre` -/
def fullX (S : BMat) (r : Nat) : BMat :=
  if r ≠ S.ncols then trsmUpperLeft (S.sub 0 0 r r) (S.sub 0 r r S.ncols) else S.sub 0 r r S.ncols

theorem topFullPre_get (S : BMat) (r i j : Nat) (hi : i < S.nrows) :
    (topFullPre S r).get i j =
      if i < r then (decide (i = j) || (decide (r ≤ j) && (fullX S r).get i (j - r))) else S.get i j := by
  have e : topFullPre S r = ⟨S.nrows, S.ncols, (Array.range S.nrows).map fun i =>
      if i < r then (1 <<< i) ||| ((fullX S r).row i <<< r) else S.row i⟩ := rfl
  rw [e]
  unfold BMat.get
  rw [row_mk_range _ _ _ _ hi]
  split
  · rw [Nat.testBit_or, Nat.one_shiftLeft, Nat.testBit_two_pow, Nat.testBit_shiftLeft]
  · rfl

theorem fullX_shaped (S : BMat) (nr nc r : Nat) (hS : Shaped S nr nc) (hr1 : r ≤ nr) :
    Shaped (fullX S r) (r - 0) (nc - r) := by
  unfold fullX
  rw [hS.nc]
  split
  · exact shaped_solve hS r r nc hr1
  · exact hS.sub 0 r r nc hr1

theorem topFullPre_shaped (S : BMat) (nr nc r : Nat) (hS : Shaped S nr nc) (hr1 : r ≤ nr) (hr2 : r ≤ nc) :
    Shaped (topFullPre S r) nr nc := by
  refine ⟨?_, hS.nr, hS.nc⟩
  apply WF_of_get
  · simp [topFullPre, hS.nr]
  · intro i j hj
    have hj' : nc ≤ j := by rw [← hS.nc]; exact hj
    by_cases hi : i < S.nrows
    · rw [topFullPre_get _ _ _ _ hi]
      split
      · have hne : ¬ i = j := by omega
        rw [decide_eq_false hne, (fullX_shaped S nr nc r hS hr1).get_of_ge_col i (j - r) (by omega)]
        simp
      · exact hS.get_of_ge_col i j hj'
    · unfold topFullPre BMat.get
      rw [row_mk_range_ge _ _ _ _ (by omega)]
      simp

/-! ### 2. the untranslated callees as lifted model operations -/

/-- `mzd_submatrix(NULL, X, lowr, lowc, highr, highc)`: a fresh matrix (own memory, zero padding) holding the
    window's value; returns memory, `nrows`, `ncols` -/
def liftSubNew (V : CLoop.MView) (lr lc hr hc : Int) : (Int → Int → BitVec 64) × Int × Int :=
  (memOf (Mzd.ofB ((Mzd.ofView V).toB.sub lr.toNat lc.toNat hr.toNat hc.toNat)),
    ((((Mzd.ofView V).toB.sub lr.toNat lc.toNat hr.toNat hc.toNat).nrows : Nat) : Int),
    ((((Mzd.ofView V).toB.sub lr.toNat lc.toNat hr.toNat hc.toNat).ncols : Nat) : Int))

/-- `mzd_copy(DST, SRC)` with a given destination: the entries of `SRC` are written into `DST` -/
def liftCopy (D S : CLoop.MView) : Int → Int → BitVec 64 :=
  memOf ((Mzd.ofView D).putB (Mzd.ofView S).toB)

/-- `mzd_apply_p_right(A, Q)` as the model's column permutation; the permutation array has the length
    `A->ncols` (its length is not passed to the generated callee) -/
def liftApplyPRight (V : CLoop.MView) (q : Int → Int) : Int → Int → BitVec 64 :=
  memOf ((Mzd.ofView V).putB
    ((Mzd.ofView V).toB.applyPRight ((Array.range V.ncols.toNat).map fun (i : Nat) => (q (i : Int)).toNat)))

/-! ### 3. the generated function, cut into parts (copies of the generated text, tied to it by `rfl`) -/

/-- `r % 64 = 0`: one solve on the window `B` (text of the generated function) -/
def segCase1 (v_mem_A : Int → Int → BitVec 64) (v_r : Int) (v_A_ncols : Int) (v_A_nrows : Int) (v_A_rowstride : Int) (v_U__r0 : Int) (v_U__w0 : Int) (v_U_nrows : Int) (v_U_ncols : Int) (v_U_width : Int) (v_U_high_bitmask : BitVec 64) (f_mzd_trsm_upper_left : CLoop.MView → CLoop.MView → Int → (Int → Int → BitVec 64)) : Int → Int → BitVec 64 :=
  let (v_B_nrows, v_B_ncols, v_B_rowstride, v_B_width, v_B_high_bitmask, v_B_flags, v_B__data_row, v_B__data_word) := (M4ri.Gen.C.mzdInitWindow (0 : Int) v_r v_r v_A_ncols v_A_nrows v_A_rowstride)
  let v_B__r0 : Int := ((0 : Int) + v_B__data_row)
  let v_B__w0 : Int := ((0 : Int) + v_B__data_word)
  let v_mem_A : Int → Int → BitVec 64 :=
    if (decide (v_r ≠ v_A_ncols)) then
      let cres0__0 := (f_mzd_trsm_upper_left (CLoop.MView.mk (CLoop.view v_mem_A v_U__r0 v_U__w0) v_U_nrows v_U_ncols v_U_width v_U_high_bitmask) (CLoop.MView.mk (CLoop.view v_mem_A v_B__r0 v_B__w0) v_B_nrows v_B_ncols v_B_width v_B_high_bitmask) (0 : Int))
      let v_mem_A : Int → Int → BitVec 64 := (CLoop.unview v_mem_A v_B__r0 v_B__w0 v_B_nrows v_B_width cres0__0)
      v_mem_A
    else
      v_mem_A
  v_mem_A

/-- `r % 64 ≠ 0`, `ncols > r_radix + 64`: copy `B0`, window `B1`, two solves, copy back (text of the generated function) -/
def segCase2 (v_mem_A : Int → Int → BitVec 64) (v_r : Int) (v_r_radix : Int) (v_A_ncols : Int) (v_A_nrows : Int) (v_A_rowstride : Int) (v_A_width : Int) (v_A_high_bitmask : BitVec 64) (v_U__r0 : Int) (v_U__w0 : Int) (v_U_nrows : Int) (v_U_ncols : Int) (v_U_width : Int) (v_U_high_bitmask : BitVec 64) (f_mzd_trsm_upper_left : CLoop.MView → CLoop.MView → Int → (Int → Int → BitVec 64)) (f_mzd_submatrix_new : CLoop.MView → Int → Int → Int → Int → (Int → Int → BitVec 64) × Int × Int) (f_mzd_copy : CLoop.MView → CLoop.MView → (Int → Int → BitVec 64)) : Int → Int → BitVec 64 :=
  let (v_mem_B0, v_B0_nrows, v_B0_ncols) := (f_mzd_submatrix_new (CLoop.MView.mk v_mem_A v_A_nrows v_A_ncols v_A_width v_A_high_bitmask) (0 : Int) v_r_radix v_r (v_r_radix + (64 : Int)))
  let v_B0_width : Int := (Int.tdiv (v_B0_ncols + (63 : Int)) (64 : Int))
  let v_B0_high_bitmask : BitVec 64 := ((BitVec.allOnes 64) >>> ((Int.tmod ((64 : Int) - (Int.tmod v_B0_ncols (64 : Int))) (64 : Int))).toNat)
  let v_B0_rowstride : Int := (if (CLoop.iand v_B0_width (1 : Int)) = (0 : Int) then v_B0_width else v_B0_width + (1 : Int))
  let v_B0_flags : BitVec 8 := (if v_B0_high_bitmask ≠ (BitVec.allOnes 64) then (2#8) else (0#8))
  let (v_B0w_nrows, v_B0w_ncols, v_B0w_rowstride, v_B0w_width, v_B0w_high_bitmask, v_B0w_flags, v_B0w__data_row, v_B0w__data_word) := (M4ri.Gen.C.mzdInitWindow (0 : Int) v_r_radix v_r (v_r_radix + (64 : Int)) v_A_nrows v_A_rowstride)
  let v_B0w__r0 : Int := ((0 : Int) + v_B0w__data_row)
  let v_B0w__w0 : Int := ((0 : Int) + v_B0w__data_word)
  let (v_B1_nrows, v_B1_ncols, v_B1_rowstride, v_B1_width, v_B1_high_bitmask, v_B1_flags, v_B1__data_row, v_B1__data_word) := (M4ri.Gen.C.mzdInitWindow (0 : Int) (v_r_radix + (64 : Int)) v_r v_A_ncols v_A_nrows v_A_rowstride)
  let v_B1__r0 : Int := ((0 : Int) + v_B1__data_row)
  let v_B1__w0 : Int := ((0 : Int) + v_B1__data_word)
  let cres0__0 := (f_mzd_trsm_upper_left (CLoop.MView.mk (CLoop.view v_mem_A v_U__r0 v_U__w0) v_U_nrows v_U_ncols v_U_width v_U_high_bitmask) (CLoop.MView.mk (CLoop.view v_mem_B0 (0 : Int) (0 : Int)) v_B0_nrows v_B0_ncols v_B0_width v_B0_high_bitmask) (0 : Int))
  let v_mem_B0 : Int → Int → BitVec 64 := (CLoop.unview v_mem_B0 (0 : Int) (0 : Int) v_B0_nrows v_B0_width cres0__0)
  let cres0__0 := (f_mzd_trsm_upper_left (CLoop.MView.mk (CLoop.view v_mem_A v_U__r0 v_U__w0) v_U_nrows v_U_ncols v_U_width v_U_high_bitmask) (CLoop.MView.mk (CLoop.view v_mem_A v_B1__r0 v_B1__w0) v_B1_nrows v_B1_ncols v_B1_width v_B1_high_bitmask) (0 : Int))
  let v_mem_A : Int → Int → BitVec 64 := (CLoop.unview v_mem_A v_B1__r0 v_B1__w0 v_B1_nrows v_B1_width cres0__0)
  let cres0__0 := (f_mzd_copy (CLoop.MView.mk (CLoop.view v_mem_A v_B0w__r0 v_B0w__w0) v_B0w_nrows v_B0w_ncols v_B0w_width v_B0w_high_bitmask) (CLoop.MView.mk (CLoop.view v_mem_B0 (0 : Int) (0 : Int)) v_B0_nrows v_B0_ncols v_B0_width v_B0_high_bitmask))
  let v_mem_A : Int → Int → BitVec 64 := (CLoop.unview v_mem_A v_B0w__r0 v_B0w__w0 v_B0w_nrows v_B0w_width cres0__0)
  v_mem_A

/-- `r % 64 ≠ 0`, `ncols ≤ r_radix + 64`: copy `B`, one solve, copy back (text of the generated function) -/
def segCase3 (v_mem_A : Int → Int → BitVec 64) (v_r : Int) (v_r_radix : Int) (v_A_ncols : Int) (v_A_nrows : Int) (v_A_rowstride : Int) (v_A_width : Int) (v_A_high_bitmask : BitVec 64) (v_U__r0 : Int) (v_U__w0 : Int) (v_U_nrows : Int) (v_U_ncols : Int) (v_U_width : Int) (v_U_high_bitmask : BitVec 64) (f_mzd_trsm_upper_left : CLoop.MView → CLoop.MView → Int → (Int → Int → BitVec 64)) (f_mzd_submatrix_new : CLoop.MView → Int → Int → Int → Int → (Int → Int → BitVec 64) × Int × Int) (f_mzd_copy : CLoop.MView → CLoop.MView → (Int → Int → BitVec 64)) : Int → Int → BitVec 64 :=
  let (v_mem_B, v_B_nrows, v_B_ncols) := (f_mzd_submatrix_new (CLoop.MView.mk v_mem_A v_A_nrows v_A_ncols v_A_width v_A_high_bitmask) (0 : Int) v_r_radix v_r v_A_ncols)
  let v_B_width : Int := (Int.tdiv (v_B_ncols + (63 : Int)) (64 : Int))
  let v_B_high_bitmask : BitVec 64 := ((BitVec.allOnes 64) >>> ((Int.tmod ((64 : Int) - (Int.tmod v_B_ncols (64 : Int))) (64 : Int))).toNat)
  let v_B_rowstride : Int := (if (CLoop.iand v_B_width (1 : Int)) = (0 : Int) then v_B_width else v_B_width + (1 : Int))
  let v_B_flags : BitVec 8 := (if v_B_high_bitmask ≠ (BitVec.allOnes 64) then (2#8) else (0#8))
  let (v_Bw_nrows, v_Bw_ncols, v_Bw_rowstride, v_Bw_width, v_Bw_high_bitmask, v_Bw_flags, v_Bw__data_row, v_Bw__data_word) := (M4ri.Gen.C.mzdInitWindow (0 : Int) v_r_radix v_r v_A_ncols v_A_nrows v_A_rowstride)
  let v_Bw__r0 : Int := ((0 : Int) + v_Bw__data_row)
  let v_Bw__w0 : Int := ((0 : Int) + v_Bw__data_word)
  let cres0__0 := (f_mzd_trsm_upper_left (CLoop.MView.mk (CLoop.view v_mem_A v_U__r0 v_U__w0) v_U_nrows v_U_ncols v_U_width v_U_high_bitmask) (CLoop.MView.mk (CLoop.view v_mem_B (0 : Int) (0 : Int)) v_B_nrows v_B_ncols v_B_width v_B_high_bitmask) (0 : Int))
  let v_mem_B : Int → Int → BitVec 64 := (CLoop.unview v_mem_B (0 : Int) (0 : Int) v_B_nrows v_B_width cres0__0)
  let cres0__0 := (f_mzd_copy (CLoop.MView.mk (CLoop.view v_mem_A v_Bw__r0 v_Bw__w0) v_Bw_nrows v_Bw_ncols v_Bw_width v_Bw_high_bitmask) (CLoop.MView.mk (CLoop.view v_mem_B (0 : Int) (0 : Int)) v_B_nrows v_B_ncols v_B_width v_B_high_bitmask))
  let v_mem_A : Int → Int → BitVec 64 := (CLoop.unview v_mem_A v_Bw__r0 v_Bw__w0 v_Bw_nrows v_Bw_width cres0__0)
  v_mem_A

/-- the three `r mod 64` cases of the back substitution -/
def segSolve (v_mem_A : Int → Int → BitVec 64) (v_r : Int) (v_r_radix : Int) (v_A_ncols : Int) (v_A_nrows : Int) (v_A_rowstride : Int) (v_A_width : Int) (v_A_high_bitmask : BitVec 64) (v_U__r0 : Int) (v_U__w0 : Int) (v_U_nrows : Int) (v_U_ncols : Int) (v_U_width : Int) (v_U_high_bitmask : BitVec 64) (f_mzd_trsm_upper_left : CLoop.MView → CLoop.MView → Int → (Int → Int → BitVec 64)) (f_mzd_submatrix_new : CLoop.MView → Int → Int → Int → Int → (Int → Int → BitVec 64) × Int × Int) (f_mzd_copy : CLoop.MView → CLoop.MView → (Int → Int → BitVec 64)) : Int → Int → BitVec 64 :=
  if ((decide (v_r_radix = v_r)) && (decide (v_r ≠ v_A_ncols))) then
    segCase1 v_mem_A v_r v_A_ncols v_A_nrows v_A_rowstride v_U__r0 v_U__w0 v_U_nrows v_U_ncols v_U_width v_U_high_bitmask f_mzd_trsm_upper_left
  else
    let v_mem_A : Int → Int → BitVec 64 :=
      if ((decide (v_r_radix ≠ v_r)) && (decide (v_r ≠ v_A_ncols))) then
        let v_mem_A : Int → Int → BitVec 64 :=
          if (decide (v_A_ncols > (v_r_radix + (64 : Int)))) then
            segCase2 v_mem_A v_r v_r_radix v_A_ncols v_A_nrows v_A_rowstride v_A_width v_A_high_bitmask v_U__r0 v_U__w0 v_U_nrows v_U_ncols v_U_width v_U_high_bitmask f_mzd_trsm_upper_left f_mzd_submatrix_new f_mzd_copy
          else
            segCase3 v_mem_A v_r v_r_radix v_A_ncols v_A_nrows v_A_rowstride v_A_width v_A_high_bitmask v_U__r0 v_U__w0 v_U_nrows v_U_ncols v_U_width v_U_high_bitmask f_mzd_trsm_upper_left f_mzd_submatrix_new f_mzd_copy
        v_mem_A
      else
        v_mem_A
    v_mem_A

/-- `mzd_set_ui(U, 1)` and `mzd_apply_p_right(A0, Q)` -/
def segTail (v_mem_A : Int → Int → BitVec 64) (v_r : Int) (v_A_ncols : Int) (v_A_nrows : Int) (v_A_rowstride : Int) (v_U__r0 : Int) (v_U__w0 : Int) (v_U_nrows : Int) (v_U_ncols : Int) (v_U_width : Int) (v_U_high_bitmask : BitVec 64) (f_mzd_apply_p_right : CLoop.MView → (Int → Int) → (Int → Int → BitVec 64)) (v_mem1_Q_values : Int → Int) (v_Q__begin : Int) : Int → Int → BitVec 64 :=
  let cres0__0 := (M4ri.Gen.C.mzdSetUi (1#32) (CLoop.view v_mem_A v_U__r0 v_U__w0) v_U_high_bitmask v_U_nrows v_U_width v_U_ncols)
  let v_mem_A : Int → Int → BitVec 64 := (CLoop.unview v_mem_A v_U__r0 v_U__w0 v_U_nrows v_U_width cres0__0)
  let v_mem_A : Int → Int → BitVec 64 :=
    if (decide (v_r ≠ (0 : Int))) then
      let (v_A0_nrows, v_A0_ncols, v_A0_rowstride, v_A0_width, v_A0_high_bitmask, v_A0_flags, v_A0__data_row, v_A0__data_word) := (M4ri.Gen.C.mzdInitWindow (0 : Int) (0 : Int) v_r v_A_ncols v_A_nrows v_A_rowstride)
      let v_A0__r0 : Int := ((0 : Int) + v_A0__data_row)
      let v_A0__w0 : Int := ((0 : Int) + v_A0__data_word)
      let cres0__0 := (f_mzd_apply_p_right (CLoop.MView.mk (CLoop.view v_mem_A v_A0__r0 v_A0__w0) v_A0_nrows v_A0_ncols v_A0_width v_A0_high_bitmask) (fun i => v_mem1_Q_values (v_Q__begin + i)))
      let v_mem_A : Int → Int → BitVec 64 := (CLoop.unview v_mem_A v_A0__r0 v_A0__w0 v_A0_nrows v_A0_width cres0__0)
      v_mem_A
    else
      v_mem_A
  v_mem_A

/-- `full = 0`: the clearing loops and the pivot bits -/
def segPle (v_mem_A : Int → Int → BitVec 64) (v_r : Int) (v_A_nrows : Int) (v_A_ncols : Int) (v_mem1_Q_values : Int → Int) (v_Q__begin : Int) (v_i : Int) : (Int → Int → BitVec 64) × Int :=
  CLoop.loop ((v_A_nrows).toNat)
      (fun (st : (Int → Int → BitVec 64) × Int) => match st with
      | (v_mem_A, v_i) => (decide (v_i < v_r)))
      (fun (st : (Int → Int → BitVec 64) × Int) => match st with
      | (v_mem_A, v_i) => 
      let v_j : Int := (0 : Int)
      let (v_mem_A, v_j) : (Int → Int → BitVec 64) × Int := CLoop.loop ((v_A_ncols).toNat + 1)
          (fun (st : (Int → Int → BitVec 64) × Int) => match st with
          | (v_mem_A, v_j) => (decide (v_j ≤ v_i)))
          (fun (st : (Int → Int → BitVec 64) × Int) => match st with
          | (v_mem_A, v_j) => 
          let v_length : Int := (if (decide ((64 : Int) < ((v_i - v_j) + (1 : Int)))) then (64 : Int) else ((v_i - v_j) + (1 : Int)))
          let v_mem_A : Int → Int → BitVec 64 := (M4ri.Gen.C.mzdClearBits v_i v_j v_length v_mem_A)
          let v_j : Int := (v_j + (64 : Int))
          (v_mem_A, v_j))
          (v_mem_A, v_j)
      let v_mem_A : Int → Int → BitVec 64 := (M4ri.Gen.C.mzdWriteBit v_i (v_mem1_Q_values (v_Q__begin + v_i)) (1 : Int) v_mem_A)
      let v_i : Int := (v_i + (1 : Int))
      (v_mem_A, v_i))
      (v_mem_A, v_i)

/-- `mzd_set_ui(R, 0)` on the rows below the rank -/
def segZero (v_r : Int) (v_mem_A : Int → Int → BitVec 64) (v_A_nrows : Int) (v_A_ncols : Int) (v_A_rowstride : Int) : Int × (Int → Int → BitVec 64) :=
  let v_mem_A : Int → Int → BitVec 64 :=
    if (decide (v_r ≠ v_A_nrows)) then
      let (v_R_nrows, v_R_ncols, v_R_rowstride, v_R_width, v_R_high_bitmask, v_R_flags, v_R__data_row, v_R__data_word) := (M4ri.Gen.C.mzdInitWindow v_r (0 : Int) v_A_nrows v_A_ncols v_A_nrows v_A_rowstride)
      let v_R__r0 : Int := ((0 : Int) + v_R__data_row)
      let v_R__w0 : Int := ((0 : Int) + v_R__data_word)
      let cres2__0 := (M4ri.Gen.C.mzdSetUi (0#32) (CLoop.view v_mem_A v_R__r0 v_R__w0) v_R_high_bitmask v_R_nrows v_R_width v_R_ncols)
      let v_mem_A : Int → Int → BitVec 64 := (CLoop.unview v_mem_A v_R__r0 v_R__w0 v_R_nrows v_R_width cres2__0)
      v_mem_A
    else
      v_mem_A
  (v_r, v_mem_A)

/-- the generated function, cut into the parts above -/
theorem echelonizePluq_split (v_full : Int) (v_mem_A : Int → Int → BitVec 64) (v_A_nrows : Int) (v_A_ncols : Int) (v_A_width : Int) (v_A_high_bitmask : BitVec 64) (f_mzd_pluq : CLoop.MView → (Int → Int) → (Int → Int) → Int → Int × (Int → Int → BitVec 64) × (Int → Int) × (Int → Int)) (v_A_rowstride : Int) (f_mzd_trsm_upper_left : CLoop.MView → CLoop.MView → Int → (Int → Int → BitVec 64)) (f_mzd_submatrix_new : CLoop.MView → Int → Int → Int → Int → (Int → Int → BitVec 64) × Int × Int) (f_mzd_copy : CLoop.MView → CLoop.MView → (Int → Int → BitVec 64)) (f_mzd_apply_p_right : CLoop.MView → (Int → Int) → (Int → Int → BitVec 64)) (f_mzd_ple : CLoop.MView → (Int → Int) → (Int → Int) → Int → Int × (Int → Int → BitVec 64) × (Int → Int) × (Int → Int)) :
    Gen.C.echelonizePluq v_full v_mem_A v_A_nrows v_A_ncols v_A_width v_A_high_bitmask f_mzd_pluq v_A_rowstride f_mzd_trsm_upper_left f_mzd_submatrix_new f_mzd_copy f_mzd_apply_p_right f_mzd_ple = (
      let v_mem1_P_values : Int → Int := (fun i => i)
      let v_P__begin : Int := (0 : Int)
      let v_mem1_Q_values : Int → Int := (fun i => i)
      let v_Q__begin : Int := (0 : Int)
      let v_r : Int := (0 : Int)
      let (v_r, v_mem_A, v_mem1_P_values, v_mem1_Q_values) : Int × (Int → Int → BitVec 64) × (Int → Int) × (Int → Int) :=
        if (decide (v_full ≠ (0 : Int))) then
          let (v_r, cres0__0, cperm0__0, cperm0__1) := (f_mzd_pluq (CLoop.MView.mk v_mem_A v_A_nrows v_A_ncols v_A_width v_A_high_bitmask) (fun i => v_mem1_P_values (v_P__begin + i)) (fun i => v_mem1_Q_values (v_Q__begin + i)) (0 : Int))
          let v_mem_A : Int → Int → BitVec 64 := cres0__0
          let v_mem1_P_values : Int → Int := (fun i => if v_P__begin ≤ i ∧ i < v_P__begin + (v_A_nrows - (0 : Int)) then cperm0__0 (i - v_P__begin) else v_mem1_P_values i)
          let v_mem1_Q_values : Int → Int := (fun i => if v_Q__begin ≤ i ∧ i < v_Q__begin + (v_A_ncols - (0 : Int)) then cperm0__1 (i - v_Q__begin) else v_mem1_Q_values i)
          let (v_U_nrows, v_U_ncols, v_U_rowstride, v_U_width, v_U_high_bitmask, v_U_flags, v_U__data_row, v_U__data_word) := (M4ri.Gen.C.mzdInitWindow (0 : Int) (0 : Int) v_r v_r v_A_nrows v_A_rowstride)
          let v_U__r0 : Int := ((0 : Int) + v_U__data_row)
          let v_U__w0 : Int := ((0 : Int) + v_U__data_word)
          let v_r_radix : Int := ((64 : Int) * (Int.tdiv v_r (64 : Int)))
          let v_mem_A : Int → Int → BitVec 64 := segSolve v_mem_A v_r v_r_radix v_A_ncols v_A_nrows v_A_rowstride v_A_width v_A_high_bitmask v_U__r0 v_U__w0 v_U_nrows v_U_ncols v_U_width v_U_high_bitmask f_mzd_trsm_upper_left f_mzd_submatrix_new f_mzd_copy
          let v_mem_A : Int → Int → BitVec 64 := segTail v_mem_A v_r v_A_ncols v_A_nrows v_A_rowstride v_U__r0 v_U__w0 v_U_nrows v_U_ncols v_U_width v_U_high_bitmask f_mzd_apply_p_right v_mem1_Q_values v_Q__begin
          (v_r, v_mem_A, v_mem1_P_values, v_mem1_Q_values)
        else
          let (v_r, cres0__0, cperm0__0, cperm0__1) := (f_mzd_ple (CLoop.MView.mk v_mem_A v_A_nrows v_A_ncols v_A_width v_A_high_bitmask) (fun i => v_mem1_P_values (v_P__begin + i)) (fun i => v_mem1_Q_values (v_Q__begin + i)) (0 : Int))
          let v_mem_A : Int → Int → BitVec 64 := cres0__0
          let v_mem1_P_values : Int → Int := (fun i => if v_P__begin ≤ i ∧ i < v_P__begin + (v_A_nrows - (0 : Int)) then cperm0__0 (i - v_P__begin) else v_mem1_P_values i)
          let v_mem1_Q_values : Int → Int := (fun i => if v_Q__begin ≤ i ∧ i < v_Q__begin + (v_A_ncols - (0 : Int)) then cperm0__1 (i - v_Q__begin) else v_mem1_Q_values i)
          let v_i : Int := (0 : Int)
          let (v_mem_A, v_i) : (Int → Int → BitVec 64) × Int := segPle v_mem_A v_r v_A_nrows v_A_ncols v_mem1_Q_values v_Q__begin v_i
          (v_r, v_mem_A, v_mem1_P_values, v_mem1_Q_values)
      segZero v_r v_mem_A v_A_nrows v_A_ncols v_A_rowstride) := rfl

/-! ### 4. `mzd_set_ui(A, 1)` -/

/-- the second loop of `mzd_set_ui` (value odd): the diagonal bits -/
def diagLoop (m : Int → Int → BitVec 64) (nr nc : Int) : (Int → Int → BitVec 64) × Int :=
  CLoop.loop nr.toNat
    (fun (st : (Int → Int → BitVec 64) × Int) => match st with
      | (a, i) => decide (i < (if decide (nr < nc) then nr else nc)))
    (fun (st : (Int → Int → BitVec 64) × Int) => match st with
      | (a, i) => (Gen.C.mzdWriteBit i i (1 : Int) a, i + (1 : Int)))
    (m, (0 : Int))

theorem mzdSetUi_one_split (m : Int → Int → BitVec 64) (hb : BitVec 64) (nr nw nc : Int) :
    Gen.C.mzdSetUi (1#32) m hb nr nw nc = (diagLoop (Gen.C.mzdSetUi (0#32) m hb nr nw nc) nr nc).1 := rfl

theorem diagLoop_agree {R W : Nat} {m m' : Int → Int → BitVec 64} (h : AgreeOn R W m m') (nr nc : Nat)
    (h1 : nr ≤ R) (h2 : min nr nc ≤ 64 * W) :
    AgreeOn R W (diagLoop m nr nc).1 (diagLoop m' nr nc).1 := by
  unfold diagLoop
  have key := loop_sim (fun (s s' : (Int → Int → BitVec 64) × Int) => AgreeOn R W s.1 s'.1 ∧ s.2 = s'.2 ∧ 0 ≤ s.2)
    (cond := fun (st : (Int → Int → BitVec 64) × Int) => match st with
      | (a, i) => decide (i < (if decide ((nr : Int) < (nc : Int)) then (nr : Int) else (nc : Int))))
    (cond' := fun (st : (Int → Int → BitVec 64) × Int) => match st with
      | (a, i) => decide (i < (if decide ((nr : Int) < (nc : Int)) then (nr : Int) else (nc : Int))))
    (body := fun (st : (Int → Int → BitVec 64) × Int) => match st with
      | (a, i) => (Gen.C.mzdWriteBit i i (1 : Int) a, i + (1 : Int)))
    (body' := fun (st : (Int → Int → BitVec 64) × Int) => match st with
      | (a, i) => (Gen.C.mzdWriteBit i i (1 : Int) a, i + (1 : Int)))
    ?_ ?_ ((nr : Int)).toNat (m, 0) (m', 0) ⟨h, rfl, by simp⟩
  · exact key.1
  · intro s s' hR
    obtain ⟨a, i⟩ := s
    obtain ⟨a', i'⟩ := s'
    obtain ⟨_, e, _⟩ := hR
    dsimp only at e ⊢
    rw [e]
  · intro s s' hR hc
    obtain ⟨a, i⟩ := s
    obtain ⟨a', i'⟩ := s'
    obtain ⟨ha, e, h0⟩ := hR
    dsimp only at e h0 ha hc ⊢
    subst e
    have hi : i < (nr : Int) ∧ i < (nc : Int) := by
      simp only [decide_eq_true_eq] at hc
      split at hc <;> omega
    obtain ⟨k, rfl⟩ : ∃ k : Nat, i = (k : Int) := ⟨i.toNat, by omega⟩
    refine ⟨?_, rfl, by omega⟩
    unfold Gen.C.mzdWriteBit
    dsimp only
    apply AgreeOn.upd2 ha
    rw [ha.at (k : Int) (0 + Int.tdiv (k : Int) 64) (by omega) (by omega)
      (by rw [GenTieMem.tdiv_nat]; omega) (by rw [GenTieMem.tdiv_nat]; omega)]

theorem mzdSetUi_one_agree {m m' : Int → Int → BitVec 64} (hb : BitVec 64) (nr nw nc : Nat) (hw : 1 ≤ nw)
    (hnc : nc ≤ 64 * nw) (h : AgreeOn nr nw m m') :
    AgreeOn nr nw (Gen.C.mzdSetUi (1#32) m hb nr nw nc) (Gen.C.mzdSetUi (1#32) m' hb nr nw nc) := by
  rw [mzdSetUi_one_split, mzdSetUi_one_split, mzdSetUi_zero_closed _ _ _ _ _ hw, mzdSetUi_zero_closed _ _ _ _ _ hw]
  exact diagLoop_agree (clrMem_agree hb nr nw h) nr nc (Nat.le_refl _) (by omega)

/-- **`mzd_set_ui(A, 1)`**: the generated function is the model's `setUi` with value 1 -/
theorem mzdSetUi_one_eq (A : Mzd) (hwf : A.WF) (hc : 1 ≤ A.ncols) :
    Gen.C.mzdSetUi (1#32) (memOf A) A.hb A.nrows A.width A.ncols = memOf (A.setUi 1) := by
  rw [mzdSetUi_one_split, mzdSetUi_zero_eq A hwf hc]
  have e0 : A.setUi 0 = Mzd.setUiCleared A := by rw [Mzd.setUi_eq]; rfl
  have e1 : A.setUi 1 = (List.range (min A.nrows A.ncols)).foldl (fun M i => M.writeBit i i true)
      (Mzd.setUiCleared A) := by rw [Mzd.setUi_eq]; rfl
  rw [e0, e1]
  have hC := Mzd.setUiCleared_WF A hwf
  have hCr : (Mzd.setUiCleared A).nrows = A.nrows := rfl
  have hCc : (Mzd.setUiCleared A).ncols = A.ncols := rfl
  generalize Mzd.setUiCleared A = C at hC hCr hCc ⊢
  unfold diagLoop
  generalize hres : CLoop.loop _ _ _ _ = res
  have key := for_loop_eq hres (min A.nrows A.ncols)
    (fun k st => st.2 = (k : Int) ∧ st.1 = memOf ((List.range k).foldl (fun M i => M.writeBit i i true) C))
    (by simp only [Int.toNat_natCast]; omega) ⟨rfl, rfl⟩ ?_ ?_
  · exact key.2
  · intro k st hk hP
    obtain ⟨mm, i⟩ := st
    obtain ⟨k1, k2⟩ := hP
    dsimp only at k1 k2 ⊢
    subst k1
    congr 1
    apply propext
    simp only [decide_eq_true_eq]
    split <;> omega
  · intro k st hk hP
    obtain ⟨mm, i⟩ := st
    obtain ⟨k1, k2⟩ := hP
    dsimp only at k1 k2 ⊢
    subst k1 k2
    refine ⟨by omega, ?_⟩
    have hD := Mzd.diagFold_spec C hC k (by omega)
    have hw := mzdWriteBit_eq ((List.range k).foldl (fun M i => M.writeBit i i true) C) k k true hD.1
      (by rw [hD.2.1]; omega) (by unfold Mzd.width widthOf; rw [hD.2.2.1]; omega)
    rw [if_pos rfl] at hw
    rw [hw, List.range_succ, List.foldl_append]
    rfl

/-- **`mzd_set_ui(window, 1)`** applied to a view and written back: the window becomes the identity -/
theorem setUi_one_window (M : Mzd) (hM : M.WF) (lr lc hr hc : Nat) (hlc : lc % 64 = 0) (hr2 : hr ≤ M.nrows)
    (hc2 : hc ≤ M.ncols) (h1 : 1 ≤ hc - lc) :
    CLoop.unview (memOf M) (lr : Int) ((lc / 64 : Nat) : Int) ((hr - lr : Nat) : Int)
        (((hc - lc + 63) / 64 : Nat) : Int)
        (Gen.C.mzdSetUi (1#32) (CLoop.view (memOf M) (lr : Int) ((lc / 64 : Nat) : Int))
          (leftMask ((hc - lc) % 64)) ((hr - lr : Nat) : Int) (((hc - lc + 63) / 64 : Nat) : Int)
          ((hc - lc : Nat) : Int))
      = memOf (M.putB (M.toB.paste lr lc (ofFn (hr - lr) (hc - lc) fun i j => decide (i = j)))) := by
  have hW := window_WF M lr lc hr hc
  have hW1 : 1 ≤ (M.window lr lc hr hc).ncols := by rw [ncols_window]; exact h1
  have hw : 1 ≤ (hc - lc + 63) / 64 := by omega
  have hS := Mzd.setUi_WF _ 1 hW
  have hSr := Mzd.nrows_setUi _ 1 hW
  have hSc := Mzd.ncols_setUi _ 1 hW
  rw [nrows_window] at hSr
  rw [ncols_window] at hSc
  rw [unview_congr _ _ _ _ _ (mzdSetUi_one_agree _ _ _ _ hw (by omega) (view_agree_window M lr lc hr hc))]
  have h := mzdSetUi_one_eq (M.window lr lc hr hc) hW hW1
  rw [hb_window, nrows_window, width_window, ncols_window] at h
  rw [h, unview_window_of_excess M hM lr lc hr hc hlc hr2 hc2 _ hS hSr hSc]
  · congr 3
    apply BMat.ext_get (Mzd.WF_toB hS) (WF_ofFn _ _ _) (by simpa using hSr) (by simpa using hSc)
    intro i j hi hj
    simp only [Mzd.nrows_toB, Mzd.ncols_toB, hSr, hSc] at hi hj
    rw [Mzd.get_toB_of_lt _ _ _ (by rw [hSc]; exact hj), Mzd.setUi_bit _ 1 hW i j (by simpa using hi)
      (by simp; omega), get_ofFn _ _ _ _ _ hi hj]
    simp [hj]
  · intro i j hi hj hj'
    rw [Mzd.setUi_bit _ 1 hW i j (by simpa using hi) (by simpa using hj'), if_neg (by simp; omega)]

/-- `mzd_set_ui(window, 1)` on a `putB` state -/
theorem setUiOne_state (B : Mzd) (hB : B.WF) (X : BMat) (hX : Shaped X B.nrows B.ncols) (lr lc hr hc : Nat)
    (hW : InWin B lr lc hr hc) (h1 : 1 ≤ hc - lc) :
    CLoop.unview (memOf (B.putB X)) (lr : Int) ((lc / 64 : Nat) : Int) ((hr - lr : Nat) : Int)
        (((hc - lc + 63) / 64 : Nat) : Int)
        (Gen.C.mzdSetUi (1#32) (CLoop.view (memOf (B.putB X)) (lr : Int) ((lc / 64 : Nat) : Int))
          (leftMask ((hc - lc) % 64)) ((hr - lr : Nat) : Int) (((hc - lc + 63) / 64 : Nat) : Int)
          ((hc - lc : Nat) : Int))
      = memOf (B.putB (X.paste lr lc (ofFn (hr - lr) (hc - lc) fun i j => decide (i = j)))) := by
  have h := setUi_one_window (B.putB X) (Mzd.WF_putB hB X) lr lc hr hc hW.lc hW.hr hW.hc h1
  rw [Mzd.toB_putB hB hX.wf hX.nr hX.nc, Mzd.putB_putB hB] at h
  exact h

/-! ### 5. the parts, one by one -/

theorem zeroFrom_get (T : BMat) (r i j : Nat) (hi : i < T.nrows) :
    (zeroFrom T r).get i j = if i < r then T.get i j else false := by
  unfold zeroFrom BMat.get
  rw [row_mk_range _ _ _ _ hi]
  split
  · rfl
  · simp

/-- the final zeroing of the rows below the rank -/
theorem segZero_eq (A : Mzd) (hA : A.WF) (hc : 1 ≤ A.ncols) (X : BMat) (hX : Shaped X A.nrows A.ncols) (r : Nat)
    (hr : r ≤ A.nrows) (rs : Int) :
    segZero r (memOf (A.putB X)) A.nrows A.ncols rs = ((r : Int), memOf (A.putB (zeroFrom X r))) := by
  unfold segZero
  dsimp_m
  by_cases h : r = A.nrows
  · rw [if_neg (by simp only [decide_eq_true_eq]; omega)]
    congr 2
    apply Mzd.putB_congr hA
    intro i j hi hj
    rw [zeroFrom_get _ _ _ _ (by rw [hX.nr]; exact hi), if_pos (by omega)]
  · rw [if_pos (by simp only [decide_eq_true_eq]; omega)]
    rw [mzdInitWindow_in r 0 A.nrows A.ncols A.nrows rs r 0 A.nrows A.ncols A.nrows rfl rfl rfl rfl rfl (by omega)
      (by omega) (by omega) (by omega)]
    dsimp_m
    have s := setUi_state A hA X hX r 0 A.nrows A.ncols ⟨rfl, Nat.le_refl _, Nat.le_refl _⟩ (by omega)
    norm_win at s ⊢
    rw [s]
    congr 2
    apply Mzd.putB_congr hA
    intro i j hi hj
    have hz : Shaped (zero (A.nrows - r) A.ncols) (A.nrows - r) (A.ncols - 0) := Shaped.zero _ _
    rw [zeroFrom_get _ _ _ _ (by rw [hX.nr]; exact hi), hX.get_paste_window r 0 A.nrows A.ncols hz (Nat.le_refl _)]
    by_cases hir : i < r
    · rw [if_pos hir, if_neg (by omega)]
    · rw [if_neg hir, if_pos (by omega), get_zero]

/-- the first `k` rows in the `full = 0` form -/
def pleB (S : BMat) (Q : Array Nat) (nr nc k : Nat) : BMat :=
  ofFn nr nc fun a b => if a < k then (decide (b = Q.getD a 0) || (decide (a < b) && S.get a b)) else S.get a b

theorem topPle_get (S : BMat) (Q : Array Nat) (r i j : Nat) (hi : i < S.nrows) :
    (topPle S Q r).get i j =
      if i < r then (decide (j = Q.getD i 0) || (decide (i < j) && S.get i j)) else S.get i j := by
  unfold topPle BMat.get
  rw [row_mk_range _ _ _ _ hi]
  split
  · rw [Nat.testBit_or, Nat.testBit_shiftLeft, Nat.testBit_shiftRight, Nat.one_shiftLeft, Nat.testBit_two_pow]
    generalize Q.getD i 0 = q
    by_cases hij : i < j
    · have h2 : j ≥ i + 1 := by omega
      have h3 : i + 1 + (j - (i + 1)) = j := by omega
      by_cases hq : j = q
      · subst hq; simp
      · have hq' : ¬ q = j := fun e => hq e.symm
        simp [hij, h2, h3, hq, hq', Bool.or_comm]
    · have h2 : ¬ j ≥ i + 1 := by omega
      by_cases hq : j = q
      · subst hq; simp
      · have hq' : ¬ q = j := fun e => hq e.symm
        simp [hij, h2, hq, hq']
  · rfl

/-- `full = 0`: the clearing loops and the pivot bits -/
theorem segPle_eq (A : Mzd) (hA : A.WF) (S : BMat) (hS : Shaped S A.nrows A.ncols) (Q : Array Nat) (r : Nat)
    (hr1 : r ≤ A.nrows) (hr2 : r ≤ A.ncols) (hQ : ∀ i, i < r → Q.getD i 0 < A.ncols) (qv : Int → Int)
    (hqv : ∀ i : Nat, i < r → qv (0 + (i : Int)) = ((Q.getD i 0 : Nat) : Int)) :
    (segPle (memOf (A.putB S)) r A.nrows A.ncols qv 0 0).1 = memOf (A.putB (topPle S Q r)) := by
  unfold segPle
  simp_m [Int.toNat_natCast]
  generalize hres : CLoop.loop _ _ _ _ = res
  have key := for_loop_eq hres r
    (fun k st => st.2 = (k : Int) ∧ st.1 = memOf (A.putB (pleB S Q A.nrows A.ncols k))) hr1 ⟨rfl, ?_⟩ ?_ ?_
  · rw [key.2]
    congr 1
    apply Mzd.putB_congr hA
    intro i j hi hj
    unfold pleB
    rw [get_ofFn _ _ _ _ _ hi hj, topPle_get _ _ _ _ _ (by rw [hS.nr]; exact hi)]
  · dsimp only
    congr 1
    apply Mzd.putB_congr hA
    intro i j hi hj
    unfold pleB
    rw [get_ofFn _ _ _ _ _ hi hj, if_neg (by omega)]
  · intro k st hk hP
    obtain ⟨mm, i⟩ := st
    obtain ⟨k1, k2⟩ := hP
    dsimp only at k1 k2 ⊢
    subst k1
    simp
  · intro k st hk hP
    obtain ⟨mm, i⟩ := st
    obtain ⟨k1, k2⟩ := hP
    dsimp only at k1 k2
    subst k1 k2
    clear hres
    dsimp_m
    generalize hres2 : CLoop.loop _ _ _ _ = res2
    have hi : k < A.nrows := by omega
    have key2 := for_loop_eq hres2 (k / 64 + 1)
      (fun t st => st.2 = ((64 * t : Nat) : Int) ∧
        st.1 = memOf (A.putB (clrB (pleB S Q A.nrows A.ncols k) A.nrows A.ncols k k (min (64 * t) (k + 1)))))
      (by omega) ⟨rfl, ?_⟩ ?_ ?_
    · obtain ⟨mm, j⟩ := res2
      obtain ⟨j1, j2⟩ := key2
      dsimp only at j1 j2 ⊢
      subst j2
      refine ⟨by omega, ?_⟩
      have hq := hQ k hk
      rw [hqv k hk]
      have hw := mzdWriteBit_eq (A.putB (clrB (pleB S Q A.nrows A.ncols k) A.nrows A.ncols k k
        (min (64 * (k / 64 + 1)) (k + 1)))) k (Q.getD k 0) true (Mzd.WF_putB hA _) hi
        (by rw [Mzd.width_putB]; unfold Mzd.width widthOf; omega)
      rw [if_pos rfl] at hw
      rw [hw]
      congr 1
      apply Mzd.eq_putB_of_bit (Mzd.writeBit_WF_D _ _ _ _ (Mzd.WF_putB hA _) hi) hA rfl rfl
      intro a b ha hb
      rw [Mzd.writeBit_bit_D _ _ _ _ (Mzd.WF_putB hA _) hi a b ha hb, Mzd.bit_putB A _ hA a b ha hb]
      have hmin : min (64 * (k / 64 + 1)) (k + 1) = k + 1 := by omega
      rw [hmin]
      by_cases hbn : b < A.ncols
      · rw [if_pos hbn, if_pos hbn]
        unfold clrB pleB
        rw [get_ofFn _ _ _ _ _ ha hbn, get_ofFn _ _ _ _ _ ha hbn, get_ofFn _ _ _ _ _ ha hbn]
        by_cases hak : a = k
        · subst hak
          generalize Q.getD a 0 = q
          by_cases hbq : b = q
          · simp [hbq]
          · by_cases hba : b < a + 1
            · have : ¬ a < b := by omega
              simp [hbq, hba, this]
            · have : a < b := by omega
              simp [hbq, hba, this]
        · by_cases hak2 : a < k
          · have : a < k + 1 := by omega
            simp [hak, hak2, this]
          · have : ¬ a < k + 1 := by omega
            simp [hak, hak2, this]
      · rw [if_neg hbn, if_neg hbn, if_neg (by omega)]
    · dsimp only
      congr 1
      apply Mzd.putB_congr hA
      intro a b ha hb
      unfold clrB
      rw [get_ofFn _ _ _ _ _ ha hb, if_neg (by omega)]
    · intro t st ht hP
      obtain ⟨mm, j⟩ := st
      obtain ⟨t1, t2⟩ := hP
      dsimp only at t1 t2 ⊢
      subst t1
      congr 1
      apply propext
      omega
    · intro t st ht hP
      obtain ⟨mm, j⟩ := st
      obtain ⟨t1, t2⟩ := hP
      dsimp only at t1 t2
      subst t1 t2
      dsimp only
      refine ⟨by omega, ?_⟩
      have h64 : 64 * t ≤ k := by omega
      have hmin : min (64 * t) (k + 1) = 64 * t := by omega
      have en : (if decide ((64 : Int) < (k : Int) - ((64 * t : Nat) : Int) + 1) = true then (64 : Int)
          else (k : Int) - ((64 * t : Nat) : Int) + 1) = ((min 64 (k - 64 * t + 1) : Nat) : Int) := by
        simp only [decide_eq_true_eq]
        split <;> omega
      rw [en, hmin, mzdClearBits_eq _ _ _ _ (Mzd.WF_putB hA _) hi (by omega)
        (by rw [Mzd.width_putB]; unfold Mzd.width widthOf; omega),
        clearBits_clrB A hA _ k k (64 * t) _ hi (by omega) (by omega)]
      have : 64 * t + min 64 (k - 64 * t + 1) = min (64 * (t + 1)) (k + 1) := by omega
      rw [this]

theorem ofView_whole (A : Mzd) (hA : A.WF) :
    Mzd.ofView ⟨memOf A, (A.nrows : Int), (A.ncols : Int), (A.width : Int), A.hb⟩ = A := by
  have e := ofView_of A hA
  unfold CLoop.MView.of at e
  exact e

theorem ofView_state (A : Mzd) (hA : A.WF) (X : BMat) :
    Mzd.ofView ⟨memOf (A.putB X), (A.nrows : Int), (A.ncols : Int), (A.width : Int), A.hb⟩ = A.putB X :=
  ofView_whole (A.putB X) (Mzd.WF_putB hA X)

theorem view_zero (m : Int → Int → BitVec 64) : CLoop.view m 0 0 = m := by
  funext r w
  unfold CLoop.view
  rw [Int.zero_add, Int.zero_add]

theorem hdr_w (n : Nat) : Int.tdiv ((n : Int) + 63) 64 = (((n + 63) / 64 : Nat) : Int) := by
  rw [show (n : Int) + 63 = ((n + 63 : Nat) : Int) by omega, GenTieMem.tdiv_nat]

theorem hdr_hb (n : Nat) :
    BitVec.allOnes 64 >>> (Int.tmod ((64 : Int) - Int.tmod (n : Int) 64) 64).toNat = leftMask (n % 64) := by
  rw [GenTieMem.tmod_nat]
  unfold leftMask ffff
  rw [GenTie.leftShift_arg _ (by omega)]

/-- the record of a local matrix (`mzd_submatrix(NULL, …)` result, header recomputed from `ncols`) -/
theorem ofView_fresh (X : BMat) (N : Mzd) (hN : N.WF) (hr : N.nrows = X.nrows) (hc : N.ncols = X.ncols) :
    Mzd.ofView ⟨CLoop.view (memOf N) 0 0, (X.nrows : Int), (X.ncols : Int), Int.tdiv ((X.ncols : Int) + 63) 64,
      BitVec.allOnes 64 >>> (Int.tmod ((64 : Int) - Int.tmod (X.ncols : Int) 64) 64).toNat⟩ = N := by
  rw [view_zero, hdr_w, hdr_hb, ← hr, ← hc]
  exact ofView_whole N hN

/-- the write-back of a result for a whole (local) matrix -/
theorem unview_whole (N : Mzd) (hN : N.WF) (Y : BMat) (nr nw : Int) (hnr : nr = (N.nrows : Int))
    (hnw : nw = (N.width : Int)) :
    CLoop.unview (memOf N) 0 0 nr nw (memOf (N.putB Y)) = memOf (N.putB Y) := by
  subst hnr hnw
  funext r w
  unfold CLoop.unview
  split
  · rw [Int.sub_zero, Int.sub_zero]
  · rename_i h
    by_cases hneg : r < 0 ∨ w < 0
    · rw [memOf_of_neg _ _ _ hneg, memOf_of_neg _ _ _ hneg]
    · obtain ⟨x, rfl⟩ : ∃ x : Nat, r = (x : Int) := ⟨r.toNat, by omega⟩
      obtain ⟨k, rfl⟩ : ∃ k : Nat, w = (k : Int) := ⟨w.toNat, by omega⟩
      have ho : N.nrows ≤ x ∨ N.width ≤ k := by omega
      rw [memOf_nat, memOf_nat, w_of_out hN x k ho, w_of_out (Mzd.WF_putB hN Y) x k ho]

/-- call rule: `f(window of A, local matrix)`, the result written back into the local matrix -/
theorem call2_fresh (op : BMat → BMat → BMat) (A : Mzd) (ar ac ahr ahc : Nat) (hA : InWin A ar ac ahr ahc)
    (X : BMat) (hX : X.WF) :
    CLoop.unview (memOf (Mzd.ofB X)) 0 0 (X.nrows : Int) (Int.tdiv ((X.ncols : Int) + 63) 64)
        (liftM2 op (winView (memOf A) ar ac ahr ahc)
          ⟨CLoop.view (memOf (Mzd.ofB X)) 0 0, (X.nrows : Int), (X.ncols : Int), Int.tdiv ((X.ncols : Int) + 63) 64,
            BitVec.allOnes 64 >>> (Int.tmod ((64 : Int) - Int.tmod (X.ncols : Int) 64) 64).toNat⟩)
      = memOf ((Mzd.ofB X).putB (op (A.toB.sub ar ac ahr ahc) X)) := by
  unfold liftM2
  rw [ofView_fresh X (Mzd.ofB X) (Mzd.WF_ofB X) rfl rfl]
  have e : Mzd.ofView (winView (memOf A) ar ac ahr ahc) = A.window ar ac ahr ahc := rfl
  rw [e, window_toB A _ _ _ _ hA.lc hA.hr hA.hc, Mzd.toB_ofB hX]
  exact unview_whole _ (Mzd.WF_ofB X) _ _ _ rfl (hdr_w _)

/-- call rule: `mzd_copy(window of the state, local matrix)` written back -/
theorem copy_state (B : Mzd) (hB : B.WF) (X : BMat) (hX : Shaped X B.nrows B.ncols) (lr lc hr hc : Nat)
    (hW : InWin B lr lc hr hc) (X0 : BMat) (N : Mzd) (hN : N.WF) (hNr : N.nrows = X0.nrows)
    (hNc : N.ncols = X0.ncols) (hs : Shaped N.toB (hr - lr) (hc - lc)) :
    CLoop.unview (memOf (B.putB X)) (lr : Int) ((lc / 64 : Nat) : Int) ((hr - lr : Nat) : Int)
        (((hc - lc + 63) / 64 : Nat) : Int)
        (liftCopy (winView (memOf (B.putB X)) lr lc hr hc)
          ⟨CLoop.view (memOf N) 0 0, (X0.nrows : Int), (X0.ncols : Int), Int.tdiv ((X0.ncols : Int) + 63) 64,
            BitVec.allOnes 64 >>> (Int.tmod ((64 : Int) - Int.tmod (X0.ncols : Int) 64) 64).toNat⟩)
      = memOf (B.putB (X.paste lr lc N.toB)) := by
  unfold liftCopy
  rw [ofView_fresh X0 N hN hNr hNc]
  have e : Mzd.ofView (winView (memOf (B.putB X)) lr lc hr hc) = (B.putB X).window lr lc hr hc := rfl
  rw [e]
  have h := unview_window_putB (B.putB X) (Mzd.WF_putB hB X) lr lc hr hc hW.lc hW.hr hW.hc N.toB hs.nr hs.nc
  rw [Mzd.toB_putB hB hX.wf hX.nr hX.nc, Mzd.putB_putB hB] at h
  exact h

/-- **case 1** (`r % 64 = 0`): the right block is solved through the window `B` -/
theorem segCase1_eq (A : Mzd) (hA : A.WF) (S : BMat) (hS : Shaped S A.nrows A.ncols) (r : Nat) (rs : Int)
    (hr1 : r ≤ A.nrows) (hr2 : r < A.ncols) (h64 : r % 64 = 0) :
    segCase1 (memOf (A.putB S)) r A.ncols A.nrows rs 0 0 r r (((r + 63) / 64 : Nat) : Int) (leftMask (r % 64))
        (fun U B _ => liftM2 trsmUpperLeft U B)
      = memOf (A.putB (S.paste 0 r (trsmUpperLeft (S.sub 0 0 r r) (S.sub 0 r r A.ncols)))) := by
  unfold segCase1
  rw [mzdInitWindow_in 0 r r A.ncols A.nrows rs 0 r r A.ncols A.nrows rfl rfl rfl rfl rfl h64 (by omega) (by omega)
    hr1]
  dsimp_m
  rw [if_pos (by simp only [decide_eq_true_eq]; omega)]
  have hY : Shaped (trsmUpperLeft ((A.putB S).toB.sub 0 0 r r) (S.sub 0 r r A.ncols)) (r - 0) (A.ncols - r) :=
    shaped_ul (hS.sub 0 r r A.ncols hr1)
  have s1 := call2_state trsmUpperLeft (A.putB S) A hA S hS 0 0 r r 0 r r A.ncols
    ⟨rfl, hr1, by rw [Mzd.ncols_putB]; omega⟩ ⟨h64, hr1, Nat.le_refl _⟩ hY
  rw [Mzd.toB_putB hA hS.wf hS.nr hS.nc] at s1
  norm_win at s1 ⊢
  exact s1

/-- **case 3** (`r % 64 ≠ 0`, no full word column to the right): the block from the word column of column `r` on is
    solved in a copy and copied back -/
theorem segCase3_eq (A : Mzd) (hA : A.WF) (S : BMat) (hS : Shaped S A.nrows A.ncols) (r rr : Nat) (rs : Int)
    (hr1 : r ≤ A.nrows) (hr2 : r < A.ncols) (h64 : rr % 64 = 0) (hrr : rr ≤ r) :
    segCase3 (memOf (A.putB S)) r rr A.ncols A.nrows rs A.width A.hb 0 0 r r (((r + 63) / 64 : Nat) : Int)
        (leftMask (r % 64)) (fun U B _ => liftM2 trsmUpperLeft U B) liftSubNew liftCopy
      = memOf (A.putB (S.paste 0 rr (trsmUpperLeft (S.sub 0 0 r r) (S.sub 0 rr r A.ncols)))) := by
  unfold segCase3 liftSubNew
  rw [ofView_state A hA S, Mzd.toB_putB hA hS.wf hS.nr hS.nc,
    mzdInitWindow_in 0 rr r A.ncols A.nrows rs 0 rr r A.ncols A.nrows rfl rfl rfl rfl rfl h64 (by omega) (by omega)
      hr1]
  simp_m [Int.toNat_natCast, Int.toNat_zero]
  have hX0 : Shaped (S.sub 0 rr r A.ncols) (r - 0) (A.ncols - rr) := hS.sub 0 rr r A.ncols hr1
  have wU : InWin (A.putB S) 0 0 r r := ⟨rfl, hr1, by rw [Mzd.ncols_putB]; omega⟩
  have s1 := call2_fresh trsmUpperLeft (A.putB S) 0 0 r r wU _ hX0.wf
  rw [Mzd.toB_putB hA hS.wf hS.nr hS.nc] at s1
  have hY0 : Shaped (trsmUpperLeft (S.sub 0 0 r r) (S.sub 0 rr r A.ncols)) (r - 0) (A.ncols - rr) := shaped_ul hX0
  have hN := Mzd.WF_putB (Mzd.WF_ofB (S.sub 0 rr r A.ncols)) (trsmUpperLeft (S.sub 0 0 r r) (S.sub 0 rr r A.ncols))
  have eN : ((Mzd.ofB (S.sub 0 rr r A.ncols)).putB (trsmUpperLeft (S.sub 0 0 r r) (S.sub 0 rr r A.ncols))).toB
      = trsmUpperLeft (S.sub 0 0 r r) (S.sub 0 rr r A.ncols) :=
    Mzd.toB_putB (Mzd.WF_ofB _) hY0.wf (by rw [hY0.nr, Mzd.nrows_ofB, hX0.nr]) (by rw [hY0.nc, Mzd.ncols_ofB, hX0.nc])
  have s2 := copy_state A hA S hS 0 rr r A.ncols ⟨h64, hr1, Nat.le_refl _⟩ (S.sub 0 rr r A.ncols) _ hN rfl rfl
    (by rw [eN]; exact hY0)
  rw [eN] at s2
  norm_win at s1 s2 ⊢
  rw [s1, s2]

/-- **case 2** (`r % 64 ≠ 0`, at least one full word column to the right): the word column of column `r` is solved
    in a copy `B0`, the rest through the window `B1`, then `B0` is copied back -/
theorem segCase2_eq (A : Mzd) (hA : A.WF) (S : BMat) (hS : Shaped S A.nrows A.ncols) (r rr : Nat) (rs : Int)
    (hr1 : r ≤ A.nrows) (hr2 : r ≤ A.ncols) (h64 : rr % 64 = 0) (hrr : rr ≤ r) (hc64 : rr + 64 ≤ A.ncols) :
    segCase2 (memOf (A.putB S)) r rr A.ncols A.nrows rs A.width A.hb 0 0 r r (((r + 63) / 64 : Nat) : Int)
        (leftMask (r % 64)) (fun U B _ => liftM2 trsmUpperLeft U B) liftSubNew liftCopy
      = memOf (A.putB ((S.paste 0 (rr + 64) (trsmUpperLeft (S.sub 0 0 r r) (S.sub 0 (rr + 64) r A.ncols))).paste 0 rr
          (trsmUpperLeft (S.sub 0 0 r r) (S.sub 0 rr r (rr + 64))))) := by
  have e64 : ((rr : Nat) : Int) + 64 = ((rr + 64 : Nat) : Int) := by omega
  unfold segCase2 liftSubNew
  rw [ofView_state A hA S, Mzd.toB_putB hA hS.wf hS.nr hS.nc, e64,
    mzdInitWindow_in 0 rr r (rr + 64 : Nat) A.nrows rs 0 rr r (rr + 64) A.nrows rfl rfl rfl rfl rfl h64 (by omega)
      (by omega) hr1,
    mzdInitWindow_in 0 (rr + 64 : Nat) r A.ncols A.nrows rs 0 (rr + 64) r A.ncols A.nrows rfl rfl rfl rfl rfl
      (by omega) (by omega) (by omega) hr1]
  simp_m [Int.toNat_natCast, Int.toNat_zero]
  have hX0 : Shaped (S.sub 0 rr r (rr + 64)) (r - 0) (rr + 64 - rr) := hS.sub 0 rr r (rr + 64) hr1
  have wU : InWin (A.putB S) 0 0 r r := ⟨rfl, hr1, by rw [Mzd.ncols_putB]; omega⟩
  have s1 := call2_fresh trsmUpperLeft (A.putB S) 0 0 r r wU _ hX0.wf
  rw [Mzd.toB_putB hA hS.wf hS.nr hS.nc] at s1
  have hY0 : Shaped (trsmUpperLeft (S.sub 0 0 r r) (S.sub 0 rr r (rr + 64))) (r - 0) (rr + 64 - rr) := shaped_ul hX0
  have hN := Mzd.WF_putB (Mzd.WF_ofB (S.sub 0 rr r (rr + 64))) (trsmUpperLeft (S.sub 0 0 r r) (S.sub 0 rr r (rr + 64)))
  have eN : ((Mzd.ofB (S.sub 0 rr r (rr + 64))).putB (trsmUpperLeft (S.sub 0 0 r r) (S.sub 0 rr r (rr + 64)))).toB
      = trsmUpperLeft (S.sub 0 0 r r) (S.sub 0 rr r (rr + 64)) :=
    Mzd.toB_putB (Mzd.WF_ofB _) hY0.wf (by rw [hY0.nr, Mzd.nrows_ofB, hX0.nr]) (by rw [hY0.nc, Mzd.ncols_ofB, hX0.nc])
  -- the window `B1`
  have hY1 : Shaped (trsmUpperLeft ((A.putB S).toB.sub 0 0 r r) (S.sub 0 (rr + 64) r A.ncols)) (r - 0)
      (A.ncols - (rr + 64)) := shaped_ul (hS.sub 0 (rr + 64) r A.ncols hr1)
  have sB1 := call2_state trsmUpperLeft (A.putB S) A hA S hS 0 0 r r 0 (rr + 64) r A.ncols wU
    ⟨by omega, hr1, Nat.le_refl _⟩ hY1
  rw [Mzd.toB_putB hA hS.wf hS.nr hS.nc] at sB1 hY1
  have hX1 : Shaped (S.paste 0 (rr + 64) (trsmUpperLeft (S.sub 0 0 r r) (S.sub 0 (rr + 64) r A.ncols))) A.nrows
      A.ncols := shaped_paste_win hS 0 (rr + 64) r A.ncols hY1 hc64 (Nat.le_refl _)
  have s2 := copy_state A hA _ hX1 0 rr r (rr + 64) ⟨h64, hr1, hc64⟩ (S.sub 0 rr r (rr + 64)) _ hN rfl rfl
    (by rw [eN]; exact hY0)
  rw [eN] at s2
  norm_win at s1 sB1 s2 ⊢
  rw [s1, sB1, s2]

theorem radix_eq (r : Nat) : (64 : Int) * Int.tdiv (r : Int) 64 = ((64 * (r / 64) : Nat) : Int) := by
  rw [GenTieMem.tdiv_nat]; omega

/-- **the three cases together** -/
theorem segSolve_eq (A : Mzd) (hA : A.WF) (S : BMat) (hS : Shaped S A.nrows A.ncols) (r : Nat) (rs : Int)
    (hr1 : r ≤ A.nrows) (hr2 : r ≤ A.ncols) :
    segSolve (memOf (A.putB S)) r ((64 : Int) * Int.tdiv (r : Int) 64) A.ncols A.nrows rs A.width A.hb 0 0 r r
        (((r + 63) / 64 : Nat) : Int) (leftMask (r % 64)) (fun U B _ => liftM2 trsmUpperLeft U B) liftSubNew liftCopy
      = memOf (A.putB (solvedB S r A.ncols)) := by
  unfold segSolve solvedB
  rw [radix_eq]
  by_cases h0 : r = A.ncols
  · rw [if_neg (by simp only [Bool.and_eq_true, decide_eq_true_eq]; omega), if_pos h0]
    dsimp_m
    rw [if_neg (by simp only [Bool.and_eq_true, decide_eq_true_eq]; omega)]
  · rw [if_neg h0]
    by_cases h64 : r % 64 = 0
    · rw [if_pos (by simp only [Bool.and_eq_true, decide_eq_true_eq]; omega), if_pos h64]
      exact segCase1_eq A hA S hS r rs hr1 (by omega) h64
    · rw [if_neg (by simp only [Bool.and_eq_true, decide_eq_true_eq]; omega), if_neg h64]
      dsimp_m
      rw [if_pos (by simp only [Bool.and_eq_true, decide_eq_true_eq]; omega)]
      by_cases hc : 64 * (r / 64) + 64 < A.ncols
      · rw [if_pos (by simp only [decide_eq_true_eq]; omega), if_pos hc]
        exact segCase2_eq A hA S hS r (64 * (r / 64)) rs hr1 hr2 (by omega) (by omega) (by omega)
      · rw [if_neg (by simp only [decide_eq_true_eq]; omega), if_neg hc]
        exact segCase3_eq A hA S hS r (64 * (r / 64)) rs hr1 (by omega) (by omega) (by omega)

theorem applyPRight_eq_rows (M : BMat) (Q : Array Nat) : M.applyPRight Q = applyPRightRows M Q M.nrows := by
  unfold BMat.applyPRight applyPRightRows
  generalize (List.range (min Q.size M.ncols)).reverse = l
  have key : ∀ (l : List Nat) (M' : BMat), M'.nrows = M.nrows →
      l.foldl (fun M i => M.swapColsInRows i (Q.getD i 0) 0 M.nrows) M'
        = l.foldl (fun M' i => M'.swapColsInRows i (Q.getD i 0) 0 M.nrows) M' := by
    intro l
    induction l with
    | nil => intro M' _; rfl
    | cons a t ih =>
      intro M' h
      rw [List.foldl_cons, List.foldl_cons, h]
      exact ih _ ((swapColsInRows_shape M' _ _ _ _).1.trans h)
  exact key l M rfl

/-- call rule: `mzd_apply_p_right(window of the state, Q)` written back -/
theorem applyPRight_state (B : Mzd) (hB : B.WF) (X : BMat) (hX : Shaped X B.nrows B.ncols) (lr lc hr hc : Nat)
    (hW : InWin B lr lc hr hc) (q : Int → Int) :
    CLoop.unview (memOf (B.putB X)) (lr : Int) ((lc / 64 : Nat) : Int) ((hr - lr : Nat) : Int)
        (((hc - lc + 63) / 64 : Nat) : Int) (liftApplyPRight (winView (memOf (B.putB X)) lr lc hr hc) q)
      = memOf (B.putB (X.paste lr lc
          ((X.sub lr lc hr hc).applyPRight ((Array.range (hc - lc)).map fun (i : Nat) => (q (i : Int)).toNat)))) := by
  unfold liftApplyPRight
  have e : Mzd.ofView (winView (memOf (B.putB X)) lr lc hr hc) = (B.putB X).window lr lc hr hc := rfl
  rw [e]
  simp_m [Int.toNat_natCast]
  rw [window_toB (B.putB X) _ _ _ _ hW.lc hW.hr hW.hc, Mzd.toB_putB hB hX.wf hX.nr hX.nc]
  have hs := applyPRight_shape (X.sub lr lc hr hc) ((Array.range (hc - lc)).map fun (i : Nat) => (q (i : Int)).toNat)
  have hsub := hX.sub lr lc hr hc hW.hr
  have h := unview_window_putB (B.putB X) (Mzd.WF_putB hB X) lr lc hr hc hW.lc hW.hr hW.hc _
    (hs.1.trans hsub.nr) (hs.2.1.trans hsub.nc)
  rw [Mzd.toB_putB hB hX.wf hX.nr hX.nc, Mzd.putB_putB hB] at h
  exact h

theorem unview_zero_rows (m : Int → Int → BitVec 64) (r0 w0 nw : Int) (res : Int → Int → BitVec 64) :
    CLoop.unview m r0 w0 0 nw res = m := by
  funext r w
  unfold CLoop.unview
  rw [if_neg (by omega)]

/-- what `mzd_set_ui(U, 1)` and `mzd_apply_p_right(A0, Q)` leave -/
def tailB (X : BMat) (Q : Array Nat) (r nc : Nat) : BMat :=
  if r = 0 then X else
    (X.paste 0 0 (ofFn r r fun i j => decide (i = j))).paste 0 0
      (((X.paste 0 0 (ofFn r r fun i j => decide (i = j))).sub 0 0 r nc).applyPRight Q)

theorem segTail_eq (A : Mzd) (hA : A.WF) (X : BMat) (hX : Shaped X A.nrows A.ncols) (r : Nat) (rs : Int)
    (hr1 : r ≤ A.nrows) (hr2 : r ≤ A.ncols) (Q : Array Nat) (hQs : Q.size = A.ncols) (qv : Int → Int)
    (hqv : ∀ i : Nat, i < A.ncols → qv (0 + (i : Int)) = ((Q.getD i 0 : Nat) : Int)) :
    segTail (memOf (A.putB X)) r A.ncols A.nrows rs 0 0 r r (((r + 63) / 64 : Nat) : Int) (leftMask (r % 64))
        liftApplyPRight qv 0
      = memOf (A.putB (tailB X Q r A.ncols)) := by
  unfold segTail tailB
  dsimp_m
  by_cases h0 : r = 0
  · subst h0
    rw [if_neg (by simp), if_pos rfl]
    exact unview_zero_rows _ _ _ _ _
  · rw [if_pos (by simp only [decide_eq_true_eq]; omega), if_neg h0,
      mzdInitWindow_in 0 0 r A.ncols A.nrows rs 0 0 r A.ncols A.nrows rfl rfl rfl rfl rfl rfl (by omega) (by omega)
        hr1]
    dsimp_m
    have s1 := setUiOne_state A hA X hX 0 0 r r ⟨rfl, hr1, hr2⟩ (by omega)
    have hI : Shaped (ofFn (r - 0) (r - 0) fun i j => decide (i = j)) (r - 0) (r - 0) := ⟨WF_ofFn _ _ _, rfl, rfl⟩
    have hT : Shaped (X.paste 0 0 (ofFn (r - 0) (r - 0) fun i j => decide (i = j))) A.nrows A.ncols :=
      shaped_paste_win hX 0 0 r r hI (by omega) hr2
    have s2 := applyPRight_state A hA _ hT 0 0 r A.ncols ⟨rfl, hr1, Nat.le_refl _⟩ (fun i => qv (0 + i))
    have eQ : ((Array.range (A.ncols - 0)).map fun (i : Nat) => (qv (0 + (i : Int))).toNat) = Q := by
      apply Array.ext
      · simp [hQs]
      · intro i h1 h2
        have hi : i < A.ncols := by simpa using h1
        simp only [Array.getElem_map, Array.getElem_range]
        rw [hqv i hi, Int.toNat_natCast]
        simp [Array.getD, h2]
    rw [eQ] at s2
    norm_win at s1 s2 ⊢
    rw [s1, s2]

theorem tailB_shaped (X : BMat) (Q : Array Nat) (nr nc r : Nat) (hX : Shaped X nr nc) (hr1 : r ≤ nr) (hr2 : r ≤ nc) :
    Shaped (tailB X Q r nc) nr nc := by
  unfold tailB
  split
  · exact hX
  · have hI : Shaped (ofFn r r fun i j => decide (i = j)) (r - 0) (r - 0) := ⟨WF_ofFn _ _ _, rfl, rfl⟩
    have hT : Shaped (X.paste 0 0 (ofFn r r fun i j => decide (i = j))) nr nc :=
      shaped_paste_win hX 0 0 r r hI (by omega) hr2
    apply hT.paste _ 0 0
    rw [(applyPRight_shape _ Q).2.1, (hT.sub 0 0 r nc hr1).nc]
    omega

/-- **C = model on the first `r` rows**: the three window cases, `U := I` and the column permutation through the
    window `A0` give `applyPRightRows (topFullPre S r) Q r` -/
theorem full_entries (S : BMat) (Q : Array Nat) (nr nc r : Nat) (hS : Shaped S nr nc) (hr1 : r ≤ nr) (hr2 : r ≤ nc)
    (hQs : Q.size = nc) (i j : Nat) (hi : i < nr) (hj : j < nc) :
    (tailB (solvedB S r nc) Q r nc).get i j = (applyPRightRows (topFullPre S r) Q r).get i j := by
  have hXs := solvedB_shaped S nr nc r hS hr1 hr2
  have hT' := topFullPre_shaped S nr nc r hS hr1 hr2
  have hI : Shaped (ofFn r r fun i j => decide (i = j)) (r - 0) (r - 0) := ⟨WF_ofFn _ _ _, rfl, rfl⟩
  have hT : Shaped ((solvedB S r nc).paste 0 0 (ofFn r r fun i j => decide (i = j))) nr nc :=
    shaped_paste_win hXs 0 0 r r hI (by omega) hr2
  -- before the permutation: `topFullPre`
  have hTe : ∀ a c, a < nr → c < nc →
      ((solvedB S r nc).paste 0 0 (ofFn r r fun i j => decide (i = j))).get a c = (topFullPre S r).get a c := by
    intro a c ha hc
    rw [hXs.get_paste_window 0 0 r r hI hr1, topFullPre_get _ _ _ _ (by rw [hS.nr]; exact ha)]
    by_cases har : a < r
    · rw [if_pos har]
      by_cases hcr : c < r
      · rw [if_pos (by omega), Nat.sub_zero, Nat.sub_zero, get_ofFn _ _ _ _ _ har hcr]
        have : ¬ r ≤ c := by omega
        simp [this]
      · rw [if_neg (by omega), solvedB_get_top S nr nc r hS hr1 hr2 a c har (by omega) hc]
        have hne : ¬ a = c := by omega
        have hle : r ≤ c := by omega
        rw [decide_eq_false hne, decide_eq_true hle, Bool.false_or, Bool.true_and]
        unfold fullX
        rw [hS.nc, if_pos (by omega)]
        exact (solveCol S nr nc r hS hr1 r nc a c hle hc hc har).symm
    · rw [if_neg har, if_neg (by omega)]
      exact solvedB_get_bot S nr nc r hS hr1 hr2 a c (by omega)
  have hmod := (applyPRightRows_get (topFullPre S r) Q r (by rw [hQs]; exact hS.nc.symm)).2 i j
  have hT'c : (topFullPre S r).ncols = nc := hS.nc
  rw [hT'c] at hmod
  rw [hmod]
  unfold tailB
  by_cases h0 : r = 0
  · subst h0
    rw [if_pos rfl, if_neg (by omega), solvedB_get_bot S nr nc 0 hS hr1 hr2 i j (by omega),
      topFullPre_get _ _ _ _ (by rw [hS.nr]; exact hi), if_neg (by omega)]
  · rw [if_neg h0]
    have hM := hT.sub 0 0 r nc hr1
    have hsh := applyPRight_shape (((solvedB S r nc).paste 0 0 (ofFn r r fun i j => decide (i = j))).sub 0 0 r nc) Q
    rw [hT.get_paste, hsh.1, hsh.2.1, hM.nr, hM.nc]
    by_cases hir : i < r
    · rw [if_pos (by omega), if_pos hir, applyPRight_eq_rows,
        (applyPRightRows_get _ Q _ (by rw [hQs, hM.nc, Nat.sub_zero])).2, hM.nr, hM.nc, if_pos (by omega), Nat.sub_zero,
        Nat.sub_zero, Nat.sub_zero, hT.get_sub 0 0 r nc _ _ hr1, Nat.zero_add, Nat.zero_add, Nat.sub_zero, Nat.sub_zero]
      generalize rowPermInv Q nc j = c
      by_cases hc : c < nc
      · rw [decide_eq_true (show i < r ∧ c < nc from ⟨hir, hc⟩), Bool.true_and]
        exact hTe i c hi hc
      · rw [decide_eq_false (fun h => hc h.2), Bool.false_and, hT'.get_of_ge_col i c (by omega)]
    · rw [if_neg (by omega), if_neg hir]
      exact hTe i j hi hj

/-- **stage (a)**: `mzd_echelonize_pluq(A, 0)` -/
theorem echelonizePluq_ple_eq (fact : BMat → Rec.Out) (A : Mzd) (rs : Int) (hA : A.WF) (hc : 1 ≤ A.ncols)
    (S : BMat) (P Q : Array Nat) (r : Nat) (hf : fact A.toB = (S, P, Q, r))
    (hS : Shaped S A.nrows A.ncols) (hr1 : r ≤ A.nrows) (hr2 : r ≤ A.ncols)
    (hQ : ∀ i, i < r → Q.getD i 0 < A.ncols)
    (fpluq : CLoop.MView → (Int → Int) → (Int → Int) → Int → Int × (Int → Int → BitVec 64) × (Int → Int) × (Int → Int))
    (ftrsm : CLoop.MView → CLoop.MView → Int → (Int → Int → BitVec 64))
    (fsub : CLoop.MView → Int → Int → Int → Int → (Int → Int → BitVec 64) × Int × Int)
    (fcopy : CLoop.MView → CLoop.MView → (Int → Int → BitVec 64))
    (fapr : CLoop.MView → (Int → Int) → (Int → Int → BitVec 64)) :
    Gen.C.echelonizePluq 0 (memOf A) A.nrows A.ncols A.width A.hb fpluq rs ftrsm fsub fcopy fapr
        (GenTiePle.liftPle fact)
      = ((r : Int), memOf (A.putB (echelonizePluq fact A.toB false).1)) := by
  rw [echelonizePluq_split]
  unfold GenTiePle.liftPle echelonizePluq
  rw [ofView_whole A hA, hf]
  dsimp_m
  rw [if_neg (by simp)]
  have key := segPle_eq A hA S hS Q r hr1 hr2 hQ
    (fun i => if 0 ≤ i ∧ i < 0 + ((A.ncols : Int) - 0) then arrOf Q (i - 0) else i) (fun i hi => by
      rw [if_pos (by omega)]
      unfold arrOf
      rw [show (0 : Int) + (i : Int) - 0 = (i : Int) by omega, Int.toNat_natCast])
  generalize segPle _ _ _ _ _ _ _ = sp at key ⊢
  obtain ⟨m, i⟩ := sp
  dsimp only at key ⊢
  subst key
  have hT : Shaped (topPle S Q r) A.nrows A.ncols := by
    refine ⟨?_, hS.nr, hS.nc⟩
    apply WF_of_get
    · simp [topPle, hS.nr]
    · intro i j hj
      have hj' : A.ncols ≤ j := by rw [← hS.nc]; exact hj
      by_cases hi : i < S.nrows
      · rw [topPle_get _ _ _ _ _ hi]
        have e0 : S.get i j = false := hS.get_of_ge_col i j hj'
        split
        · rename_i hir
          have := hQ i hir
          have hne : ¬ j = Q.getD i 0 := by omega
          rw [e0, decide_eq_false hne]
          simp
        · exact e0
      · unfold topPle BMat.get
        rw [row_mk_range_ge _ _ _ _ (by omega)]
        simp
  exact segZero_eq A hA hc _ hT r hr1 rs

/-- **stages (b), (c)**: `mzd_echelonize_pluq(A, 1)`, all three `r mod 64` cases -/
theorem echelonizePluq_full_eq (fact : BMat → Rec.Out) (A : Mzd) (rs : Int) (hA : A.WF) (hc : 1 ≤ A.ncols)
    (S : BMat) (P Q : Array Nat) (r : Nat) (hf : fact A.toB = (S, P, Q, r))
    (hS : Shaped S A.nrows A.ncols) (hr1 : r ≤ A.nrows) (hr2 : r ≤ A.ncols) (hQs : Q.size = A.ncols)
    (fple : CLoop.MView → (Int → Int) → (Int → Int) → Int → Int × (Int → Int → BitVec 64) × (Int → Int) × (Int → Int)) :
    Gen.C.echelonizePluq 1 (memOf A) A.nrows A.ncols A.width A.hb (GenTiePle.liftPle fact) rs
        (fun U B _ => liftM2 trsmUpperLeft U B) liftSubNew liftCopy liftApplyPRight fple
      = ((r : Int), memOf (A.putB (echelonizePluq fact A.toB true).1)) := by
  have eR : (echelonizePluq fact A.toB true).1 = zeroFrom (applyPRightRows (topFullPre S r) Q r) r := by
    unfold echelonizePluq
    rw [hf]
    rfl
  rw [eR, echelonizePluq_split]
  unfold GenTiePle.liftPle
  rw [ofView_whole A hA, hf]
  dsimp_m
  rw [if_pos (by simp),
    mzdInitWindow_in 0 0 r r A.nrows rs 0 0 r r A.nrows rfl rfl rfl rfl rfl rfl (by omega) (by omega) hr1]
  dsimp_m
  norm_win
  have hXs := solvedB_shaped S A.nrows A.ncols r hS hr1 hr2
  have hXt := tailB_shaped _ Q A.nrows A.ncols r hXs hr1 hr2
  have e : A.putB (zeroFrom (tailB (solvedB S r A.ncols) Q r A.ncols) r)
      = A.putB (zeroFrom (applyPRightRows (topFullPre S r) Q r) r) := by
    apply Mzd.putB_congr hA
    intro i j hi hj
    have hsh := (applyPRightRows_get (topFullPre S r) Q r (by rw [hQs]; exact hS.nc.symm)).1
    rw [zeroFrom_get _ _ _ _ (by rw [hXt.nr]; exact hi),
      zeroFrom_get _ _ _ _ (by rw [hsh.1]; show i < S.nrows; rw [hS.nr]; exact hi),
      full_entries S Q A.nrows A.ncols r hS hr1 hr2 hQs i j hi hj]
  rw [segSolve_eq A hA S hS r rs hr1 hr2, segTail_eq A hA _ hXs r rs hr1 hr2 Q hQs _ ?_,
    segZero_eq A hA hc _ hXt r hr1 rs, e]
  intro i hi
  rw [if_pos (by omega)]
  unfold arrOf
  rw [show (0 : Int) + (i : Int) - 0 = (i : Int) by omega, Int.toNat_natCast]

/-- **the tie theorem for `mzd_echelonize_pluq(A, full)`** (echelonform.c), both values of `full`: the generated
    function, its untranslated callees instantiated by the lifted model operations, returns the rank and leaves
    in `A` the model's result (entries of the model, excess bits of `A` untouched).  Only SHAPES are asked of the
    factorisation routine `fact`. -/
theorem echelonizePluq_eq (fact : BMat → Rec.Out) (A : Mzd) (full : Bool) (rs : Int) (hA : A.WF) (hc : 1 ≤ A.ncols)
    (hS : Shaped (fact A.toB).1 A.nrows A.ncols) (hr1 : (fact A.toB).2.2.2 ≤ A.nrows)
    (hr2 : (fact A.toB).2.2.2 ≤ A.ncols) (hQs : (fact A.toB).2.2.1.size = A.ncols)
    (hQ : ∀ i, i < (fact A.toB).2.2.2 → (fact A.toB).2.2.1.getD i 0 < A.ncols) :
    Gen.C.echelonizePluq (if full then 1 else 0) (memOf A) A.nrows A.ncols A.width A.hb (GenTiePle.liftPle fact) rs
        (fun U B _ => liftM2 trsmUpperLeft U B) liftSubNew liftCopy liftApplyPRight (GenTiePle.liftPle fact)
      = ((((fact A.toB).2.2.2 : Nat) : Int), memOf (A.putB (echelonizePluq fact A.toB full).1)) := by
  cases full
  · exact echelonizePluq_ple_eq fact A rs hA hc _ _ _ _ rfl hS hr1 hr2 hQ _ _ _ _ _
  · exact echelonizePluq_full_eq fact A rs hA hc _ _ _ _ rfl hS hr1 hr2 hQs _

/-- non-vacuity: the hypotheses of `echelonizePluq_eq` are satisfiable in the copy case with two solves
    (`r = 3`, `r mod 64 ≠ 0`, `ncols = 200 > 64`) -/
example : ∃ (fact : BMat → Rec.Out) (A : Mzd), A.WF ∧ 1 ≤ A.ncols ∧ Shaped (fact A.toB).1 A.nrows A.ncols ∧
    (fact A.toB).2.2.2 ≤ A.nrows ∧ (fact A.toB).2.2.2 ≤ A.ncols ∧ (fact A.toB).2.2.1.size = A.ncols ∧
    (∀ i, i < (fact A.toB).2.2.2 → (fact A.toB).2.2.1.getD i 0 < A.ncols) ∧ (fact A.toB).2.2.2 % 64 ≠ 0 ∧
    64 * ((fact A.toB).2.2.2 / 64) + 64 < A.ncols :=
  ⟨fun B => (B, Array.range B.nrows, Array.range B.ncols, 3), Mzd.zero 5 200, Mzd.zero_WF 5 200, by decide,
    ⟨Mzd.WF_toB (Mzd.zero_WF 5 200), rfl, rfl⟩, by decide, by decide, by simp, by
      intro i hi
      have hi' : i < 3 := hi
      have : i < 200 := by omega
      simp [Array.getD, this], by decide, by decide⟩

#print axioms trsm_col
#print axioms solvedB_get_top
#print axioms full_entries
#print axioms mzdSetUi_one_eq
#print axioms setUi_one_window
#print axioms segCase1_eq
#print axioms segCase2_eq
#print axioms segCase3_eq
#print axioms echelonizePluq_split
#print axioms echelonizePluq_ple_eq
#print axioms echelonizePluq_full_eq
#print axioms echelonizePluq_eq

end M4ri.GenTieEch
