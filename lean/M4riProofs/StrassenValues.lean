/-
  Algebra of `BMat` values used by the Strassen–Winograd proofs (core Lean only):
  entry (`get`) lemmas for `zero`, `mul`, `add`, `addM`, `sub` (window as a value), `paste` (write a block
  back), shape/well-formedness bookkeeping (`Shaped`), and the finite XOR `xorN` in which the entries of a
  product are expressed.
-/
import M4riProofs.Bridge
import M4ri.Mul
namespace M4ri
namespace BMat

/-! ### finite XOR -/

/-- XOR of `f 0 … f (n-1)` -/
def xorN (f : Nat → Bool) : Nat → Bool
  | 0 => false
  | n + 1 => (xorN f n ^^ f n)

@[simp] theorem xorN_zero (f : Nat → Bool) : xorN f 0 = false := rfl
theorem xorN_succ (f : Nat → Bool) (n : Nat) : xorN f (n + 1) = (xorN f n ^^ f n) := rfl

theorem xorN_congr {f g : Nat → Bool} {n : Nat} (h : ∀ l, l < n → f l = g l) : xorN f n = xorN g n := by
  induction n with
  | zero => rfl
  | succ n ih =>
    rw [xorN_succ, xorN_succ, ih (fun l hl => h l (by omega)), h n (by omega)]

theorem xorN_false (n : Nat) : xorN (fun _ => false) n = false := by
  induction n with
  | zero => rfl
  | succ n ih => rw [xorN_succ, ih]; rfl

theorem xorN_eq_false {f : Nat → Bool} {n : Nat} (h : ∀ l, l < n → f l = false) : xorN f n = false := by
  rw [xorN_congr h, xorN_false]

theorem xorN_add (f : Nat → Bool) (a b : Nat) :
    xorN f (a + b) = (xorN f a ^^ xorN (fun l => f (a + l)) b) := by
  induction b with
  | zero => simp
  | succ b ih =>
    rw [← Nat.add_assoc, xorN_succ, ih, xorN_succ, Bool.xor_assoc]

theorem xorN_xor (f g : Nat → Bool) (n : Nat) :
    xorN (fun l => (f l ^^ g l)) n = (xorN f n ^^ xorN g n) := by
  induction n with
  | zero => rfl
  | succ n ih =>
    simp only [xorN_succ, ih]
    cases xorN f n <;> cases xorN g n <;> cases f n <;> cases g n <;> rfl

/-- split a XOR over `[0,k)` at `a ≤ k` -/
theorem xorN_split (f : Nat → Bool) {a k : Nat} (h : a ≤ k) :
    xorN f k = (xorN f a ^^ xorN (fun l => f (a + l)) (k - a)) := by
  have : k = a + (k - a) := by omega
  rw [this, xorN_add]
  congr 2
  omega

/-! ### rows of the constructions -/

theorem row_mk (r c : Nat) (rows : Array Nat) (i : Nat) : (BMat.mk r c rows).row i = rows.getD i 0 := rfl

theorem row_range_map (r c : Nat) (f : Nat → Nat) (i : Nat) :
    (BMat.mk r c ((Array.range r).map f)).row i = if i < r then f i else 0 := by
  unfold row
  by_cases h : i < r <;> simp [Array.getD, h]

theorem row_mapIdx (r c : Nat) (rows : Array Nat) (f : Nat → Nat → Nat) (i : Nat) :
    (BMat.mk r c (rows.mapIdx f)).row i = if i < rows.size then f i (rows.getD i 0) else 0 := by
  unfold row
  by_cases h : i < rows.size <;> simp [Array.getD, h]

/-! ### shapes -/

/-- well-formed with the given shape -/
structure Shaped (X : BMat) (r c : Nat) : Prop where
  wf : X.WF
  nr : X.nrows = r
  nc : X.ncols = c

theorem Shaped.of {X : BMat} (h : X.WF) : Shaped X X.nrows X.ncols := ⟨h, rfl, rfl⟩

theorem Shaped.ext {X Y : BMat} {r c : Nat} (hX : Shaped X r c) (hY : Shaped Y r c)
    (h : ∀ i j, i < r → j < c → X.get i j = Y.get i j) : X = Y := by
  apply ext_get hX.wf hY.wf (by rw [hX.nr, hY.nr]) (by rw [hX.nc, hY.nc])
  intro i j hi hj
  exact h i j (by rw [← hX.nr]; exact hi) (by rw [← hX.nc]; exact hj)

theorem Shaped.get_of_ge_row {X : BMat} {r c : Nat} (hX : Shaped X r c) (i j : Nat) (h : r ≤ i) :
    X.get i j = false := get_of_ge_nrows hX.wf i j (by rw [hX.nr]; exact h)

theorem Shaped.get_of_ge_col {X : BMat} {r c : Nat} (hX : Shaped X r c) (i j : Nat) (h : c ≤ j) :
    X.get i j = false := get_of_ge_ncols hX.wf i j (by rw [hX.nc]; exact h)

/-! ### `zero` -/

theorem Shaped.zero (r c : Nat) : Shaped (zero r c) r c := ⟨WF_zero r c, rfl, rfl⟩

/-! ### `mul` -/

@[simp] theorem nrows_mul_S (A B : BMat) : (A.mul B).nrows = A.nrows := rfl
@[simp] theorem ncols_mul_S (A B : BMat) : (A.mul B).ncols = B.ncols := rfl

theorem testBit_comb_S (a : Nat) (rows : Array Nat) (n j : Nat) :
    (comb a rows n).testBit j = xorN (fun l => a.testBit l && (rows.getD l 0).testBit j) n := by
  unfold comb
  induction n with
  | zero => simp
  | succ n ih =>
    rw [List.range_succ, List.foldl_append, xorN_succ, ← ih]
    simp only [List.foldl_cons, List.foldl_nil]
    by_cases h : a.testBit n
    · rw [if_pos h, Nat.testBit_xor, h]; simp
    · rw [if_neg h]; simp [h]

/-- entry of the textbook product -/
theorem get_mul_S (A B : BMat) (i j : Nat) :
    (A.mul B).get i j = (decide (i < A.nrows) && xorN (fun l => A.get i l && B.get l j) A.ncols) := by
  unfold get mul
  rw [row_range_map]
  by_cases h : i < A.nrows
  · rw [if_pos h, testBit_comb_S]; simp [h, row]
  · rw [if_neg h]; simp [h]

theorem WF_mul_S (A : BMat) {B : BMat} (hB : B.WF) : (A.mul B).WF := by
  apply WF_of_get
  · simp [mul]
  · intro i j hj
    rw [get_mul_S, xorN_eq_false]
    · simp
    · intro l _
      rw [get_of_ge_ncols hB l j hj]; simp

theorem Shaped.mul {X Y : BMat} {r k c : Nat} (hX : Shaped X r k) (hY : Shaped Y k c) :
    Shaped (X.mul Y) r c := ⟨WF_mul_S X hY.wf, hX.nr, hY.nc⟩

theorem Shaped.get_mul_S {X Y : BMat} {r k : Nat} (hX : Shaped X r k) (i j : Nat) :
    (X.mul Y).get i j = (decide (i < r) && xorN (fun l => X.get i l && Y.get l j) k) := by
  rw [BMat.get_mul_S, hX.nr, hX.nc]

/-! ### `add` and `addM` -/

@[simp] theorem nrows_addM (A B : BMat) : (A.addM B).nrows = min A.nrows B.nrows := rfl
@[simp] theorem ncols_addM (A B : BMat) : (A.addM B).ncols = A.ncols := rfl

theorem get_add_xor (A B : BMat) (i j : Nat) :
    (A.add B).get i j = (decide (i < A.nrows) && (A.get i j ^^ B.get i j)) := by
  unfold get add
  rw [row_range_map]
  by_cases h : i < A.nrows
  · rw [if_pos h, Nat.testBit_xor]; simp [h]
  · rw [if_neg h]; simp [h]

theorem get_addM (A B : BMat) (i j : Nat) :
    (A.addM B).get i j =
      (decide (i < min A.nrows B.nrows ∧ j < A.ncols) && (A.get i j ^^ B.get i j)) := by
  unfold get addM
  rw [row_range_map]
  by_cases h : i < min A.nrows B.nrows
  · rw [if_pos h, Nat.testBit_mod_two_pow, Nat.testBit_xor]; simp [h]
  · rw [if_neg h]; simp [h]

theorem WF_addM (A B : BMat) : (A.addM B).WF := by
  apply WF_of_get
  · simp [addM]
  · intro i j hj
    rw [get_addM]
    have : ¬ j < A.ncols := by simp only [ncols_addM] at hj; omega
    simp [this]

theorem Shaped.addM {X Y : BMat} {r c : Nat} (hX : Shaped X r c) (hY : Shaped Y r c) :
    Shaped (X.addM Y) r c :=
  ⟨WF_addM X Y, by rw [nrows_addM, hX.nr, hY.nr, Nat.min_self], hX.nc⟩

theorem Shaped.get_addM {X Y : BMat} {r c : Nat} (hX : Shaped X r c) (hY : Shaped Y r c) (i j : Nat) :
    (X.addM Y).get i j = (X.get i j ^^ Y.get i j) := by
  rw [BMat.get_addM, hX.nr, hY.nr, hX.nc, Nat.min_self]
  by_cases hi : i < r
  · by_cases hj : j < c
    · simp [hi, hj]
    · rw [hX.get_of_ge_col i j (by omega), hY.get_of_ge_col i j (by omega)]; simp
  · rw [hX.get_of_ge_row i j (by omega), hY.get_of_ge_row i j (by omega)]; simp

theorem Shaped.add {X Y : BMat} {r c : Nat} (hX : Shaped X r c) (hY : Shaped Y r c) :
    Shaped (X.add Y) r c := by
  refine ⟨?_, hX.nr, hX.nc⟩
  apply WF_of_get
  · simp [BMat.add]
  · intro i j hj
    simp only [ncols_add] at hj
    rw [BMat.get_add_xor, hX.get_of_ge_col i j (by rw [← hX.nc]; exact hj),
      hY.get_of_ge_col i j (by rw [← hX.nc]; exact hj)]
    simp

theorem Shaped.get_add {X Y : BMat} {r c : Nat} (hX : Shaped X r c) (hY : Shaped Y r c) (i j : Nat) :
    (X.add Y).get i j = (X.get i j ^^ Y.get i j) := by
  rw [BMat.get_add_xor, hX.nr]
  by_cases hi : i < r
  · simp [hi]
  · rw [hX.get_of_ge_row i j (by omega), hY.get_of_ge_row i j (by omega)]; simp

/-- on operands of one shape `_mzd_add` is the entry-wise sum -/
theorem Shaped.addM_eq_add {X Y : BMat} {r c : Nat} (hX : Shaped X r c) (hY : Shaped Y r c) :
    X.addM Y = X.add Y :=
  (hX.addM hY).ext (hX.add hY) fun i j _ _ => by rw [hX.get_addM hY, hX.get_add hY]

/-! ### `sub` (window) -/

@[simp] theorem nrows_sub (M : BMat) (lr lc hr hc : Nat) :
    (M.sub lr lc hr hc).nrows = min (hr - lr) (M.nrows - lr) := rfl
@[simp] theorem ncols_sub (M : BMat) (lr lc hr hc : Nat) : (M.sub lr lc hr hc).ncols = hc - lc := rfl

theorem get_sub (M : BMat) (lr lc hr hc i j : Nat) :
    (M.sub lr lc hr hc).get i j =
      (decide (i < min (hr - lr) (M.nrows - lr) ∧ j < hc - lc) && M.get (lr + i) (lc + j)) := by
  unfold get sub
  rw [row_range_map]
  by_cases h : i < min (hr - lr) (M.nrows - lr)
  · rw [if_pos h, Nat.testBit_mod_two_pow, Nat.testBit_shiftRight]; simp [h]
  · rw [if_neg h]; simp [h]

theorem WF_sub (M : BMat) (lr lc hr hc : Nat) : (M.sub lr lc hr hc).WF := by
  apply WF_of_get
  · simp [sub]
  · intro i j hj
    rw [get_sub]
    have : ¬ j < hc - lc := by simp only [ncols_sub] at hj; omega
    simp [this]

/-- a window inside the matrix has the requested shape -/
theorem Shaped.sub {M : BMat} {m n : Nat} (hM : Shaped M m n) (lr lc hr hc : Nat) (h : hr ≤ m) :
    Shaped (M.sub lr lc hr hc) (hr - lr) (hc - lc) :=
  ⟨WF_sub M lr lc hr hc, by rw [nrows_sub, hM.nr]; omega, rfl⟩

theorem Shaped.get_sub {M : BMat} {m n : Nat} (hM : Shaped M m n) (lr lc hr hc i j : Nat) (h : hr ≤ m) :
    (M.sub lr lc hr hc).get i j = (decide (i < hr - lr ∧ j < hc - lc) && M.get (lr + i) (lc + j)) := by
  rw [BMat.get_sub, hM.nr]
  have : min (hr - lr) (m - lr) = hr - lr := by omega
  rw [this]

/-! ### `paste` (write a block back) -/

@[simp] theorem nrows_paste (M : BMat) (lr lc : Nat) (S : BMat) : (M.paste lr lc S).nrows = M.nrows := rfl
@[simp] theorem ncols_paste (M : BMat) (lr lc : Nat) (S : BMat) : (M.paste lr lc S).ncols = M.ncols := rfl

theorem testBit_pasteRow (r s c lc j : Nat) :
    ((r ^^^ (r &&& ((2 ^ c - 1) <<< lc))) ||| ((s % 2 ^ c) <<< lc)).testBit j =
      if lc ≤ j ∧ j < lc + c then s.testBit (j - lc) else r.testBit j := by
  rw [Nat.testBit_or, Nat.testBit_xor, Nat.testBit_and, Nat.testBit_shiftLeft, Nat.testBit_shiftLeft,
    Nat.testBit_two_pow_sub_one, Nat.testBit_mod_two_pow]
  by_cases h1 : lc ≤ j
  · by_cases h2 : j < lc + c
    · have h3 : j - lc < c := by omega
      simp [h1, h2, h3]
    · have h3 : ¬ j - lc < c := by omega
      simp [h2, h3]
  · simp [h1]

/-- entry of a matrix after a block has been written back -/
theorem get_paste (M : BMat) (lr lc : Nat) (S : BMat) (i j : Nat) :
    (M.paste lr lc S).get i j =
      if i < M.rows.size ∧ lr ≤ i ∧ i < lr + S.nrows ∧ lc ≤ j ∧ j < lc + S.ncols then S.get (i - lr) (j - lc)
      else M.get i j := by
  unfold get paste
  rw [row_mapIdx]
  by_cases h : i < M.rows.size
  · rw [if_pos h]
    by_cases h2 : lr ≤ i ∧ i < lr + S.nrows
    · rw [if_pos h2]
      simp only []
      rw [testBit_pasteRow]
      simp only [h, h2.1, h2.2, true_and]
      rfl
    · rw [if_neg h2]
      have : ¬ (i < M.rows.size ∧ lr ≤ i ∧ i < lr + S.nrows ∧ lc ≤ j ∧ j < lc + S.ncols) := by
        intro hh; exact h2 ⟨hh.2.1, hh.2.2.1⟩
      rw [if_neg this]; rfl
  · rw [if_neg h]
    have : ¬ (i < M.rows.size ∧ lr ≤ i ∧ i < lr + S.nrows ∧ lc ≤ j ∧ j < lc + S.ncols) := fun hh => h hh.1
    rw [if_neg this, row_of_ge _ _ (by omega)]

/-- writing a block that fits keeps the matrix well-formed with the same shape -/
theorem Shaped.paste {M : BMat} {m n : Nat} (hM : Shaped M m n) (S : BMat) (lr lc : Nat)
    (hc : lc + S.ncols ≤ n) : Shaped (M.paste lr lc S) m n := by
  refine ⟨?_, hM.nr, hM.nc⟩
  apply WF_of_get
  · show (M.rows.mapIdx _).size = M.nrows
    rw [Array.size_mapIdx]; exact hM.wf.1
  · intro i j hj
    simp only [ncols_paste] at hj
    rw [get_paste]
    have : ¬ (i < M.rows.size ∧ lr ≤ i ∧ i < lr + S.nrows ∧ lc ≤ j ∧ j < lc + S.ncols) := by
      intro hh; have := hM.nc; omega
    rw [if_neg this]
    exact get_of_ge_ncols hM.wf i j hj

theorem Shaped.get_paste {M S : BMat} {m n : Nat} (hM : Shaped M m n) (lr lc i j : Nat) :
    (M.paste lr lc S).get i j =
      if lr ≤ i ∧ i < lr + S.nrows ∧ lc ≤ j ∧ j < lc + S.ncols ∧ i < m then S.get (i - lr) (j - lc)
      else M.get i j := by
  rw [BMat.get_paste, hM.wf.1, hM.nr]
  by_cases h : i < m ∧ lr ≤ i ∧ i < lr + S.nrows ∧ lc ≤ j ∧ j < lc + S.ncols
  · rw [if_pos h, if_pos ⟨h.2.1, h.2.2.1, h.2.2.2.1, h.2.2.2.2, h.1⟩]
  · rw [if_neg h, if_neg (fun hh => h ⟨hh.2.2.2.2, hh.1, hh.2.1, hh.2.2.1, hh.2.2.2.1⟩)]

/-- writing an empty block changes nothing -/
theorem Shaped.paste_empty {M S : BMat} {m n : Nat} (hM : Shaped M m n) (lr lc : Nat)
    (hc : lc + S.ncols ≤ n) (h : S.ncols = 0 ∨ S.nrows = 0) : M.paste lr lc S = M := by
  apply (hM.paste S lr lc hc).ext hM
  intro i j _ _
  rw [hM.get_paste]
  have : ¬ (lr ≤ i ∧ i < lr + S.nrows ∧ lc ≤ j ∧ j < lc + S.ncols ∧ i < m) := by
    intro hh; omega
  rw [if_neg this]

end BMat
end M4ri
