/-
  Tie between the generated `mzd_col_swap_in_rows` / `mzd_col_swap` of `M4ri/Gen/CFuns.lean` and the
  hand-written model `Mzd.colSwapInRows` / `Mzd.colSwap` (`M4ri/Mzd.lean`).

  Main theorems (C domain: `M.WF`, `cola < M.ncols`, `colb < M.ncols`, `stopRow ≤ M.nrows`; no
  `startRow ≤ stopRow`, the unused `rowstride` parameter is arbitrary):
    `mzdColSwapInRows_eq`  generated `mzdColSwapInRows` on `memOf M` = `memOf (M.colSwapInRows ..)`
    `mzdColSwap_eq`        generated `mzdColSwap` on `memOf M`, `M.nrows` = `memOf (M.colSwap ..)`
    `ColSwapTie` / `colSwapTie`  the first statement as a proposition, for ties of callers.

  Proof structure: a pointer walking down the rows, a row function `g` applied to every row passed
  (`rowsG`, `step`); `walk1` (one row per pass: the rest loop and the two-word loop) and `walk4` (the 4-fold
  unrolled loop) through `for_loop_eq`; `W1`/`W4`/`W2` are the generated stores, equal to `step`s of the row
  functions `g1` (same word) / `g2` (two words) (`W1_eq`, `W4_eq`, `W2_eq`); `rowsG_memOf` compares with the
  model's `mapIdx`; `colSwapRow_same` / `colSwapRow_two` read the model's row function through `memOf`.
  No bit-level reasoning: generated text and model use the same word formulas.  Core Lean only.
-/
import M4ri.Gen.CFuns
import M4ri.Mzd
import M4riProofs.Basic
import M4riProofs.GenTieMem
import M4riProofs.GenTieMove
namespace M4ri.GenTieColSwap
open M4ri M4ri.Gen M4ri.GenTieMem M4ri.GenTieMove

/-- one row of a memory -/
abbrev RowM := Int → BitVec 64

/-! ### generic: a pointer walking down the rows, one row function applied to each row passed -/

/-- memory `m0` with the rows `[start, start + k)` mapped through `g` -/
def rowsG (m0 : Mem) (g : RowM → RowM) (start : Int) (k : Nat) : Mem :=
  fun r => if start ≤ r ∧ r < start + (k : Int) then g (m0 r) else m0 r

/-- row `p` of `m` mapped through `g` -/
def step (m : Mem) (g : RowM → RowM) (p : Int) : Mem :=
  fun r => if r = p then g (m p) else m r

theorem rowsG_zero (m0 : Mem) (g : RowM → RowM) (start : Int) : rowsG m0 g start 0 = m0 := by
  funext r
  simp only [rowsG]
  rw [if_neg (by omega)]

theorem step_rowsG (m0 : Mem) (g : RowM → RowM) (start : Int) (k : Nat) :
    step (rowsG m0 g start k) g (start + (k : Int)) = rowsG m0 g start (k + 1) := by
  funext r
  simp only [step, rowsG]
  by_cases hr : r = start + (k : Int)
  · subst hr
    rw [if_pos rfl, if_neg (by omega), if_pos (by omega)]
  · rw [if_neg hr]
    by_cases h2 : start ≤ r ∧ r < start + (k : Int)
    · rw [if_pos h2, if_pos (by omega)]
    · rw [if_neg h2, if_neg (by omega)]

theorem rowsG_append (m0 : Mem) (g : RowM → RowM) (start : Int) (a b : Nat) :
    rowsG (rowsG m0 g start a) g (start + (a : Int)) b = rowsG m0 g start (a + b) := by
  funext r
  simp only [rowsG]
  by_cases h1 : start ≤ r ∧ r < start + (a : Int)
  · rw [if_neg (by omega), if_pos h1, if_pos (by omega)]
  · by_cases h2 : start + (a : Int) ≤ r ∧ r < start + (a : Int) + (b : Int)
    · rw [if_pos h2, if_neg h1, if_pos (by omega)]
    · rw [if_neg h2, if_neg h1, if_neg (by omega)]

/-- `while (n--) { row(p); p++ }` -/
theorem walk1 (m0 : Mem) (g : RowM → RowM) (W : Mem → Int → Mem) (start : Int) (n : Nat)
    {cond : Int × Mem × Int → Bool} {body : Int × Mem × Int → Int × Mem × Int} {fuel : Nat}
    {res : Int × Mem × Int}
    (hres : CLoop.loop fuel cond body ((n : Int), m0, start) = res) (hf : n ≤ fuel)
    (hW : ∀ m p, W m p = step m g p)
    (hcond : ∀ st, cond st = decide (st.1 ≠ 0))
    (hbody : ∀ st, body st = (st.1 - 1, W st.2.1 st.2.2, st.2.2 + 1)) :
    res.2.1 = rowsG m0 g start n := by
  have key := for_loop_eq hres n
    (fun k st => st.1 = (n : Int) - (k : Int) ∧ st.2.1 = rowsG m0 g start k ∧ st.2.2 = start + (k : Int))
    hf ⟨by simp, (rowsG_zero _ _ _).symm, by simp⟩ ?_ ?_
  · exact key.2.1
  · intro k st hk hP
    rw [hcond, hP.1]
    exact decide_eq_decide.mpr (by omega)
  · intro k st hk hP
    obtain ⟨c, L, p⟩ := st
    obtain ⟨k1, k2, k3⟩ := hP
    dsimp only at k1 k2 k3
    subst k1 k2 k3
    rw [hbody]
    dsimp only
    refine ⟨by omega, ?_, by omega⟩
    rw [hW]
    exact step_rowsG _ _ _ _

/-- the 4-fold unrolled `while (n--) { row(p); row(p+1); row(p+2); row(p+3); p += 4 }` -/
theorem walk4 (m0 : Mem) (g : RowM → RowM) (W : Mem → Int → Mem) (start : Int) (n : Nat)
    {cond : Int × BitVec 64 × BitVec 64 × BitVec 64 × BitVec 64 × Mem × Int → Bool}
    {body : Int × BitVec 64 × BitVec 64 × BitVec 64 × BitVec 64 × Mem × Int →
      Int × BitVec 64 × BitVec 64 × BitVec 64 × BitVec 64 × Mem × Int} {fuel : Nat}
    {res : Int × BitVec 64 × BitVec 64 × BitVec 64 × BitVec 64 × Mem × Int}
    {x0 x1 x2 x3 : BitVec 64}
    (hres : CLoop.loop fuel cond body ((n : Int), x0, x1, x2, x3, m0, start) = res) (hf : n ≤ fuel)
    (hW : ∀ m p, W m p = step (step (step (step m g p) g (p + 1)) g (p + 2)) g (p + 3))
    (hcond : ∀ st, cond st = decide (st.1 ≠ 0))
    (hb1 : ∀ st, (body st).1 = st.1 - 1)
    (hb2 : ∀ st, (body st).2.2.2.2.2.1 = W st.2.2.2.2.2.1 st.2.2.2.2.2.2)
    (hb3 : ∀ st, (body st).2.2.2.2.2.2 = st.2.2.2.2.2.2 + 4) :
    res.2.2.2.2.2.1 = rowsG m0 g start (4 * n) ∧ res.2.2.2.2.2.2 = start + ((4 * n : Nat) : Int) := by
  have key := for_loop_eq hres n
    (fun k st => st.1 = (n : Int) - (k : Int) ∧ st.2.2.2.2.2.1 = rowsG m0 g start (4 * k) ∧
      st.2.2.2.2.2.2 = start + ((4 * k : Nat) : Int))
    hf ⟨by simp, (rowsG_zero _ _ _).symm, by simp⟩ ?_ ?_
  · exact key.2
  · intro k st hk hP
    rw [hcond, hP.1]
    exact decide_eq_decide.mpr (by omega)
  · intro k st hk hP
    obtain ⟨k1, k2, k3⟩ := hP
    refine ⟨by rw [hb1, k1]; omega, ?_, by rw [hb3, k3]; omega⟩
    rw [hb2, k2, k3, hW]
    have e1 : start + ((4 * k : Nat) : Int) + 1 = start + ((4 * k + 1 : Nat) : Int) := by omega
    have e2 : start + ((4 * k : Nat) : Int) + 2 = start + ((4 * k + 1 + 1 : Nat) : Int) := by omega
    have e3 : start + ((4 * k : Nat) : Int) + 3 = start + ((4 * k + 1 + 1 + 1 : Nat) : Int) := by omega
    have e4 : 4 * k + 1 + 1 + 1 + 1 = 4 * (k + 1) := by omega
    rw [step_rowsG, e1, step_rowsG, e2, step_rowsG, e3, step_rowsG, e4]

theorem step_apply (m : Mem) (g : RowM → RowM) (p r z : Int) :
    step m g p r z = if r = p then g (m p) z else m r z := by
  simp only [step]
  by_cases h : r = p
  · rw [if_pos h, if_pos h]
  · rw [if_neg h, if_neg h]

/-! ### the row functions of `mzd_col_swap_in_rows` -/

/-- the xor pattern of the same-word case -/
def xv (w : BitVec 64) (off : Nat) (mask : BitVec 64) : BitVec 64 :=
  ((w ^^^ (w >>> off)) &&& mask) ||| (((w ^^^ (w >>> off)) &&& mask) <<< off)

/-- same-word case: word `aw` of the row -/
def g1 (aw : Int) (off : Nat) (mask : BitVec 64) : RowM → RowM :=
  fun row z => if z = aw then row aw ^^^ xv (row aw) off mask else row z

/-- two-word case: words `minp`, `maxp` of the row -/
def g2 (minp maxp : Int) (off : Nat) (mask : BitVec 64) : RowM → RowM :=
  fun row z =>
    if z = maxp then row maxp ^^^ (((row minp ^^^ (row maxp >>> off)) &&& mask) <<< off)
    else if z = minp then row minp ^^^ ((row minp ^^^ (row maxp >>> off)) &&& mask)
    else row z

/-- generated store of the rest loop -/
def W1 (ptr : Int) (off : Nat) (mask : BitVec 64) (m : Mem) (p : Int) : Mem :=
  CLoop.upd2 m p ptr (m p ptr ^^^ xv (m p ptr) off mask)

/-- generated stores of the unrolled loop -/
def W4 (ptr : Int) (off : Nat) (mask : BitVec 64) (m : Mem) (p : Int) : Mem :=
  let M1 := CLoop.upd2 m p ptr (m p ptr ^^^ xv (m p ptr) off mask)
  let M2 := CLoop.upd2 M1 (p + 1) ptr (M1 (p + 1) ptr ^^^ xv (m (p + 1) ptr) off mask)
  let M3 := CLoop.upd2 M2 (p + 2) ptr (M2 (p + 2) ptr ^^^ xv (m (p + 2) ptr) off mask)
  CLoop.upd2 M3 (p + 3) ptr (M3 (p + 3) ptr ^^^ xv (m (p + 3) ptr) off mask)

/-- generated stores of the two-word loop -/
def W2 (mp mo : Int) (off : Nat) (mask : BitVec 64) (m : Mem) (p : Int) : Mem :=
  let x := (m p mp ^^^ (m p (mp + mo) >>> off)) &&& mask
  let M1 := CLoop.upd2 m p mp (m p mp ^^^ x)
  CLoop.upd2 M1 p (mp + mo) (M1 p (mp + mo) ^^^ (x <<< off))

theorem W1_eq (ptr : Int) (off : Nat) (mask : BitVec 64) (m : Mem) (p : Int) :
    W1 ptr off mask m p = step m (g1 ptr off mask) p := by
  funext r z
  simp only [W1, step_apply, g1, upd2_apply]
  by_cases hr : r = p
  · subst hr
    by_cases hz : z = ptr
    · subst hz; ifs_omega
    · ifs_omega
  · ifs_omega

theorem W4_eq (ptr : Int) (off : Nat) (mask : BitVec 64) (m : Mem) (p : Int) :
    W4 ptr off mask m p =
      step (step (step (step m (g1 ptr off mask) p) (g1 ptr off mask) (p + 1)) (g1 ptr off mask) (p + 2))
        (g1 ptr off mask) (p + 3) := by
  funext r z
  simp only [W4, step_apply, g1, upd2_apply]
  by_cases hz : z = ptr
  · subst hz
    by_cases h0 : r = p
    · subst h0; ifs_omega
    by_cases h1 : r = p + 1
    · subst h1; ifs_omega
    by_cases h2 : r = p + 2
    · subst h2; ifs_omega
    by_cases h3 : r = p + 3
    · subst h3; ifs_omega
    ifs_omega
  · by_cases h0 : r = p
    · subst h0; ifs_omega
    by_cases h1 : r = p + 1
    · subst h1; ifs_omega
    by_cases h2 : r = p + 2
    · subst h2; ifs_omega
    by_cases h3 : r = p + 3
    · subst h3; ifs_omega
    ifs_omega

theorem W2_eq (mp mo : Int) (off : Nat) (mask : BitVec 64) (m : Mem) (p : Int) (h : mo ≠ 0) :
    W2 mp mo off mask m p = step m (g2 mp (mp + mo) off mask) p := by
  funext r z
  simp only [W2, step_apply, g2, upd2_apply]
  by_cases hr : r = p
  · subst hr
    by_cases hz : z = mp + mo
    · subst hz; ifs_omega
    · by_cases hz2 : z = mp
      · subst hz2; ifs_omega
      · ifs_omega
  · ifs_omega

/-- the memory image of the model's row-range `mapIdx` -/
theorem rowsG_memOf (M : Mzd) (g : RowM → RowM) (f : Row → Row) (s e : Nat) (he : e ≤ M.rows.size)
    (hg : ∀ i j : Nat, i < M.rows.size → g (memOf M (i : Int)) (j : Int) = (f (M.row i)).w j)
    (hneg : ∀ (row : RowM) (z : Int), z < 0 → g row z = row z) :
    rowsG (memOf M) g (s : Int) (e - s) =
      memOf (M.withRows (M.rows.mapIdx fun i r => if s ≤ i ∧ i < e then f r else r)) := by
  apply eq_memOf_mapIdx
  · intro i j hi
    simp only [rowsG]
    by_cases hin : s ≤ i ∧ i < e
    · rw [if_pos (by omega), if_pos hin, hg i j hi]
    · rw [if_neg (by omega), if_neg hin, memOf_nat]
  · intro r z h
    simp only [rowsG]
    by_cases hin : (s : Int) ≤ r ∧ r < (s : Int) + ((e - s : Nat) : Int)
    · rw [if_pos hin]
      have hz : z < 0 := by omega
      exact hneg _ _ hz
    · rw [if_neg hin]

/-! ### the model's row function, read through `memOf` -/

theorem colSwapRow_same (M : Mzd) (cola colb i j : Nat) (hw : cola / 64 = colb / 64)
    (hsz : (M.row i).size = M.width) (ha : cola / 64 < M.width) :
    g1 ((cola / 64 : Nat) : Int)
        (max (cola % 64) (colb % 64) - (cola % 64 + colb % 64 - max (cola % 64) (colb % 64)))
        ((1#64) <<< (cola % 64 + colb % 64 - max (cola % 64) (colb % 64))) (memOf M (i : Int)) (j : Int)
      = (Mzd.colSwapRow (M.row i) cola colb).w j := by
  unfold Mzd.colSwapRow
  dsimp only
  rw [if_pos hw, Row.w_modify', hsz]
  simp only [g1, xv, memOf_nat]
  by_cases hj : j = cola / 64
  · subst hj; rw [if_pos rfl, if_pos ⟨rfl, ha⟩]
  · rw [if_neg (by omega), if_neg (by omega)]

theorem colSwapRow_two (M : Mzd) (cola colb i j minW maxW : Nat) (hw : cola / 64 ≠ colb / 64)
    (hsz : (M.row i).size = M.width) (hmin : minW < M.width) (hmax : maxW < M.width) (hne : minW ≠ maxW)
    (hmm : (if cola % 64 + colb % 64 - max (cola % 64) (colb % 64) = cola % 64
      then (cola / 64, colb / 64) else (colb / 64, cola / 64)) = (minW, maxW)) :
    g2 (minW : Int) (maxW : Int)
        (max (cola % 64) (colb % 64) - (cola % 64 + colb % 64 - max (cola % 64) (colb % 64)))
        ((1#64) <<< (cola % 64 + colb % 64 - max (cola % 64) (colb % 64))) (memOf M (i : Int)) (j : Int)
      = (Mzd.colSwapRow (M.row i) cola colb).w j := by
  unfold Mzd.colSwapRow
  dsimp only
  rw [if_neg hw, hmm]
  dsimp only
  rw [Row.w_modify', Row.size_modify, Row.w_modify', hsz]
  simp only [g2, memOf_nat]
  by_cases hj : j = maxW
  · subst hj
    ifs_omega
  · by_cases hj2 : j = minW
    · subst hj2
      ifs_omega
    · ifs_omega

theorem g1_neg (aw : Nat) (off : Nat) (mask : BitVec 64) (row : RowM) (z : Int) (hz : z < 0) :
    g1 (aw : Int) off mask row z = row z := by
  simp only [g1]
  rw [if_neg (by omega)]

theorem g2_neg (a b : Nat) (off : Nat) (mask : BitVec 64) (row : RowM) (z : Int) (hz : z < 0) :
    g2 (a : Int) (b : Int) off mask row z = row z := by
  simp only [g2]
  rw [if_neg (by omega), if_neg (by omega)]

/-! ### the tie -/

theorem maxbit_cast (x y : Nat) :
    (if (decide ((x : Int) > (y : Int))) then (x : Int) else (y : Int)) = ((max x y : Nat) : Int) := by
  by_cases h : (x : Int) > (y : Int)
  · rw [if_pos (decide_eq_true h)]; omega
  · rw [if_neg (by rw [decide_eq_true_eq]; exact h)]; omega

theorem width_of_lt (M : Mzd) (c : Nat) (h : c < M.ncols) : c / 64 < M.width := by
  unfold Mzd.width widthOf; omega

theorem mzdColSwapInRows_pos (M : Mzd) (cola colb s e : Nat) (rs : Int) (hwf : M.WF) (ha : cola < M.ncols)
    (hb : colb < M.ncols) (he : e ≤ M.nrows) (hab : cola ≠ colb) (hse : s < e) :
    Gen.C.mzdColSwapInRows cola colb s e (memOf M) rs = memOf (M.colSwapInRows cola colb s e) := by
  have haw := width_of_lt M cola ha
  have hbw := width_of_lt M colb hb
  have hsize : e ≤ M.rows.size := by rw [hwf.1]; exact he
  unfold Gen.C.mzdColSwapInRows Mzd.colSwapInRows
  rw [if_neg (by rw [decide_eq_true_eq]; omega), if_neg hab]
  dsimp (config := {etaStruct := .none}) only
  rw [tdiv_nat, tdiv_nat, tmod_nat, tmod_nat, maxbit_cast]
  have hmin : ((cola % 64 : Nat) : Int) + ((colb % 64 : Nat) : Int) - ((max (cola % 64) (colb % 64) : Nat) : Int)
      = ((cola % 64 + colb % 64 - max (cola % 64) (colb % 64) : Nat) : Int) := by omega
  rw [hmin]
  have hoff : ((max (cola % 64) (colb % 64) : Nat) : Int)
        - ((cola % 64 + colb % 64 - max (cola % 64) (colb % 64) : Nat) : Int)
      = ((max (cola % 64) (colb % 64) - (cola % 64 + colb % 64 - max (cola % 64) (colb % 64)) : Nat) : Int) := by
    omega
  rw [hoff]
  have hfc : ((e : Int) - (s : Int)).tdiv 4 = (((e - s) / 4 : Nat) : Int) := by
    rw [Int.tdiv_eq_ediv_of_nonneg (by omega)]; omega
  rw [hfc]
  have hrc : (e : Int) - (s : Int) - 4 * (((e - s) / 4 : Nat) : Int) = (((e - s) % 4 : Nat) : Int) := by omega
  rw [hrc]
  simp only [Int.toNat_natCast, Int.zero_add, Int.add_zero]
  rw [if_neg (by rw [decide_eq_true_eq]; omega)]
  have hf4 : (e - s) / 4 ≤ ((e : Int) - (s : Int)).toNat := by omega
  have hf1 : (e - s) % 4 ≤ ((e : Int) - (s : Int)).toNat := by omega
  have hfuel : e - s ≤ ((e : Int) - (s : Int)).toNat := by omega
  by_cases hw : cola / 64 = colb / 64
  · rw [if_pos (decide_eq_true (by omega))]
    generalize hres : CLoop.loop _ _ _ ((((e - s) / 4 : Nat) : Int), _, _, _, _, _, _) = res
    have key := walk4 (memOf M) _ (W4 ((cola / 64 : Nat) : Int) _ _) (s : Int) ((e - s) / 4) hres hf4
      (W4_eq _ _ _) (fun _ => rfl) (fun _ => rfl) (fun _ => rfl) (fun _ => rfl)
    rw [key.1, key.2]
    clear key hres
    generalize hres2 : CLoop.loop _ _ _ _ = res2
    have key2 := walk1 _ _ (W1 ((cola / 64 : Nat) : Int) _ _) _ ((e - s) % 4) hres2 hf1
      (W1_eq _ _ _) (fun _ => rfl) (fun _ => rfl)
    rw [key2]
    rw [rowsG_append]
    have hn : 4 * ((e - s) / 4) + (e - s) % 4 = e - s := by omega
    rw [hn]
    exact rowsG_memOf M _ (fun r => Mzd.colSwapRow r cola colb) s e hsize
      (fun i j hi => colSwapRow_same M cola colb i j hw (hwf.2 i (by rw [← hwf.1]; exact hi)) haw)
      (g1_neg _ _ _)
  · rw [if_neg (by rw [decide_eq_true_eq]; omega)]
    have hcnt : (e : Int) - (s : Int) = ((e - s : Nat) : Int) := by omega
    rw [hcnt]
    simp only [Int.toNat_natCast]
    by_cases hm : cola % 64 + colb % 64 - max (cola % 64) (colb % 64) = cola % 64
    · rw [if_pos (decide_eq_true (by omega))]
      dsimp (config := {etaStruct := .none}) only
      generalize hres : CLoop.loop _ _ _ _ = res
      have key := walk1 _ (g2 ((cola / 64 : Nat) : Int) ((colb / 64 : Nat) : Int) (max (cola % 64) (colb % 64) - (cola % 64 + colb % 64 - max (cola % 64) (colb % 64)))
          ((1#64) <<< (cola % 64 + colb % 64 - max (cola % 64) (colb % 64))))
        (W2 ((cola / 64 : Nat) : Int) (((colb / 64 : Nat) : Int) - ((cola / 64 : Nat) : Int))
          (max (cola % 64) (colb % 64) - (cola % 64 + colb % 64 - max (cola % 64) (colb % 64)))
          ((1#64) <<< (cola % 64 + colb % 64 - max (cola % 64) (colb % 64)))) _ (e - s) hres
        (Nat.le_refl _) ?_ (fun _ => rfl) (fun _ => rfl)
      · rw [key]
        exact rowsG_memOf M _ (fun r => Mzd.colSwapRow r cola colb) s e hsize
          (fun i j hi => colSwapRow_two M cola colb i j (cola / 64) (colb / 64) hw
            (hwf.2 i (by rw [← hwf.1]; exact hi)) (by omega) (by omega) (by omega) (by rw [if_pos hm]))
          (g2_neg _ _ _ _)
      · intro m p
        rw [W2_eq _ _ _ _ _ _ (by omega)]
        have e1 : ((cola / 64 : Nat) : Int) + (((colb / 64 : Nat) : Int) - ((cola / 64 : Nat) : Int))
            = ((colb / 64 : Nat) : Int) := by omega
        rw [e1]
    · rw [if_neg (by rw [decide_eq_true_eq]; omega)]
      dsimp (config := {etaStruct := .none}) only
      generalize hres : CLoop.loop _ _ _ _ = res
      have key := walk1 _ (g2 ((colb / 64 : Nat) : Int) ((cola / 64 : Nat) : Int) (max (cola % 64) (colb % 64) - (cola % 64 + colb % 64 - max (cola % 64) (colb % 64)))
          ((1#64) <<< (cola % 64 + colb % 64 - max (cola % 64) (colb % 64))))
        (W2 ((colb / 64 : Nat) : Int) (((cola / 64 : Nat) : Int) - ((colb / 64 : Nat) : Int))
          (max (cola % 64) (colb % 64) - (cola % 64 + colb % 64 - max (cola % 64) (colb % 64)))
          ((1#64) <<< (cola % 64 + colb % 64 - max (cola % 64) (colb % 64)))) _ (e - s) hres
        (Nat.le_refl _) ?_ (fun _ => rfl) (fun _ => rfl)
      · rw [key]
        exact rowsG_memOf M _ (fun r => Mzd.colSwapRow r cola colb) s e hsize
          (fun i j hi => colSwapRow_two M cola colb i j (colb / 64) (cola / 64) hw
            (hwf.2 i (by rw [← hwf.1]; exact hi)) (by omega) (by omega) (by omega) (by rw [if_neg hm]))
          (g2_neg _ _ _ _)
      · intro m p
        rw [W2_eq _ _ _ _ _ _ (by omega)]
        have e1 : ((colb / 64 : Nat) : Int) + (((cola / 64 : Nat) : Int) - ((colb / 64 : Nat) : Int))
            = ((cola / 64 : Nat) : Int) := by omega
        rw [e1]

/-- `mzd_col_swap_in_rows(M, cola, colb, start_row, stop_row)`.  `startRow ≤ stopRow` is not needed: for
    `stop_row ≤ start_row` the C function returns at `count <= 0` and the model's row condition is empty. -/
theorem mzdColSwapInRows_eq (M : Mzd) (cola colb startRow stopRow : Nat) (rs : Int) (hwf : M.WF)
    (ha : cola < M.ncols) (hb : colb < M.ncols) (he : stopRow ≤ M.nrows) :
    Gen.C.mzdColSwapInRows cola colb startRow stopRow (memOf M) rs =
      memOf (M.colSwapInRows cola colb startRow stopRow) := by
  by_cases hab : cola = colb
  · unfold Gen.C.mzdColSwapInRows Mzd.colSwapInRows
    rw [if_pos (decide_eq_true (by omega)), if_pos hab]
  by_cases hse : startRow < stopRow
  · exact mzdColSwapInRows_pos M cola colb startRow stopRow rs hwf ha hb he hab hse
  · unfold Gen.C.mzdColSwapInRows Mzd.colSwapInRows
    rw [if_neg (by rw [decide_eq_true_eq]; omega), if_neg hab]
    dsimp (config := {etaStruct := .none}) only
    rw [if_pos (decide_eq_true (by omega))]
    apply eq_memOf_mapIdx
    · intro i j _
      rw [if_neg (by omega), memOf_nat]
    · intro r z _
      rfl

/-- `mzd_col_swap(M, cola, colb)` -/
theorem mzdColSwap_eq (M : Mzd) (cola colb : Nat) (rs : Int) (hwf : M.WF)
    (ha : cola < M.ncols) (hb : colb < M.ncols) :
    Gen.C.mzdColSwap cola colb (memOf M) M.nrows rs = memOf (M.colSwap cola colb) := by
  unfold Gen.C.mzdColSwap Mzd.colSwap
  exact mzdColSwapInRows_eq M cola colb 0 M.nrows rs hwf ha hb (Nat.le_refl _)

/-- the tie of `mzd_col_swap_in_rows` as a proposition (hypothesis of ties of its callers) -/
def ColSwapTie : Prop :=
  ∀ (M : Mzd) (cola colb s e : Nat) (rs : Int), M.WF → cola < M.ncols → colb < M.ncols → e ≤ M.nrows →
    Gen.C.mzdColSwapInRows cola colb s e (memOf M) rs = memOf (M.colSwapInRows cola colb s e)

theorem colSwapTie : ColSwapTie :=
  fun M cola colb s e rs hwf ha hb he => mzdColSwapInRows_eq M cola colb s e rs hwf ha hb he

end M4ri.GenTieColSwap

#print axioms M4ri.GenTieColSwap.mzdColSwapInRows_eq
#print axioms M4ri.GenTieColSwap.mzdColSwap_eq
#print axioms M4ri.GenTieColSwap.colSwapTie
