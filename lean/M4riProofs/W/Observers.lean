/-
  W-level observers: `mzd_is_zero`, `mzd_equal`, `mzd_cmp`, `mzd_first_zero_row`, `m4ri_lesser_LSB`,
  `mzd_find_pivot`.  All statements are about views: the excess bits of the last word are ARBITRARY
  (no `padZero` hypothesis); the observers must ignore them.
-/
import M4riProofs.Basic
import M4riProofs.RowSwap

/-! ## 1. `mzd_is_zero` (and the masked-word view of a row shared by all observers) -/
namespace M4ri

theorem word_eq_zero_iff (w : Word) : w = 0 ↔ ∀ p, p < 64 → w.getLsbD p = false := by
  constructor
  · intro h p _; subst h; simp
  · intro h; apply BitVec.eq_of_getLsbD_eq; intro i hi; simp [h i hi]

theorem word_eq_iff (a b : Word) : a = b ↔ ∀ p, p < 64 → a.getLsbD p = b.getLsbD p := by
  constructor
  · intro h p _; rw [h]
  · intro h; exact BitVec.eq_of_getLsbD_eq h

namespace Mzd

theorem bit_split (A : Mzd) (i j p : Nat) (hp : p < 64) :
    A.bit i (64 * j + p) = ((A.row i).w j).getLsbD p := by
  rw [bit_def]
  have h1 : (64 * j + p) / 64 = j := by omega
  have h2 : (64 * j + p) % 64 = p := by omega
  rw [h1, h2]

theorem width_pos (A : Mzd) (hc : 0 < A.ncols) : 0 < A.width := by
  unfold width widthOf; omega

theorem lt_ncols_of_word_lt (A : Mzd) (k p : Nat) (hk : k + 1 < A.width) (hp : p < 64) :
    64 * k + p < A.ncols := by
  unfold width widthOf at hk; omega

/-- the "masked word" `k` of row `i`: the last word is taken under `high_bitmask` -/
def mword (A : Mzd) (i k : Nat) : Word :=
  if k + 1 = A.width then (A.row i).w k &&& A.hb else (A.row i).w k

theorem mword_getLsbD (A : Mzd) (hc : 0 < A.ncols) (i k p : Nat) (hk : k < A.width) (hp : p < 64) :
    (A.mword i k).getLsbD p = (decide (64 * k + p < A.ncols) && A.bit i (64 * k + p)) := by
  unfold mword
  by_cases h : k + 1 = A.width
  · rw [if_pos h, BitVec.getLsbD_and, hb_getLsbD A p hp hc, bit_split A i k p hp]
    have : A.width - 1 = k := by omega
    rw [this, Bool.and_comm]
  · rw [if_neg h, bit_split A i k p hp]
    have := lt_ncols_of_word_lt A k p (by omega) hp
    simp [this]

/-- all masked words of row `i` vanish iff the row is zero in all columns `< ncols` -/
theorem mword_all_zero_iff (A : Mzd) (hc : 0 < A.ncols) (i : Nat) :
    (∀ k, k < A.width → A.mword i k = 0) ↔ ∀ j, j < A.ncols → A.bit i j = false := by
  constructor
  · intro h j hj
    have hk := word_lt_width A j hj
    have := (word_eq_zero_iff _).mp (h _ hk) (j % 64) (Nat.mod_lt _ (by omega))
    rw [mword_getLsbD A hc i _ _ hk (Nat.mod_lt _ (by omega))] at this
    have e : 64 * (j / 64) + j % 64 = j := by omega
    rw [e] at this
    simpa [hj] using this
  · intro h k hk
    rw [word_eq_zero_iff]
    intro p hp
    rw [mword_getLsbD A hc i k p hk hp]
    by_cases hj : 64 * k + p < A.ncols
    · simp [h _ hj]
    · simp [hj]

theorem isZero_row_iff (A : Mzd) (hc : 0 < A.ncols) (i : Nat) :
    ((List.range (A.width - 1)).all (fun j => (A.row i).w j == 0) &&
      (((A.row i).w (A.width - 1)) &&& A.hb) == 0) = true ↔ ∀ k, k < A.width → A.mword i k = 0 := by
  have hw := width_pos A hc
  simp only [Bool.and_eq_true, List.all_eq_true, List.mem_range, beq_iff_eq]
  constructor
  · rintro ⟨h1, h2⟩ k hk
    unfold mword
    by_cases h : k + 1 = A.width
    · rw [if_pos h]; have : A.width - 1 = k := by omega
      rw [← this]; exact h2
    · rw [if_neg h]; exact h1 k (by omega)
  · intro h
    constructor
    · intro k hk
      have := h k (by omega)
      unfold mword at this
      rwa [if_neg (by omega)] at this
    · have := h (A.width - 1) (by omega)
      unfold mword at this
      rwa [if_pos (by omega)] at this

/-- **`mzd_is_zero`**: true iff every entry inside the matrix is zero; excess bits are ignored. -/
theorem isZero_iff (A : Mzd) (hc : 0 < A.ncols) :
    A.isZero = true ↔ ∀ i, i < A.nrows → ∀ j, j < A.ncols → A.bit i j = false := by
  unfold isZero
  rw [List.all_eq_true]
  simp only [List.mem_range]
  constructor
  · intro h i hi
    exact (mword_all_zero_iff A hc i).mp ((isZero_row_iff A hc i).mp (h i hi))
  · intro h i hi
    exact (isZero_row_iff A hc i).mpr ((mword_all_zero_iff A hc i).mpr (h i hi))


/-- non-vacuity / excess bits are ignored: a 2×70 view with all-ones excess bits is zero -/
example : (⟨2, 70, #[#[0#64, 0xFFFFFFFFFFFFFFC0#64], #[0#64, 0xFFFFFFFFFFFFFFC0#64]]⟩ : Mzd).isZero = true := by
  decide

end Mzd
end M4ri

/-! ## 2. `mzd_equal` -/
namespace M4ri

theorem xor_and_eq_zero_iff (x y m : Word) : (x ^^^ y) &&& m = 0 ↔ x &&& m = y &&& m := by
  rw [word_eq_zero_iff, word_eq_iff]
  constructor
  · intro h p hp
    have := h p hp
    simp only [BitVec.getLsbD_and, BitVec.getLsbD_xor] at this ⊢
    revert this
    cases x.getLsbD p <;> cases y.getLsbD p <;> cases m.getLsbD p <;> simp
  · intro h p hp
    have := h p hp
    simp only [BitVec.getLsbD_and, BitVec.getLsbD_xor] at this ⊢
    revert this
    cases x.getLsbD p <;> cases y.getLsbD p <;> cases m.getLsbD p <;> simp

namespace Mzd

theorem mword_all_eq_iff (A B : Mzd) (hc : 0 < A.ncols) (hcols : A.ncols = B.ncols) (i : Nat) :
    (∀ k, k < A.width → A.mword i k = B.mword i k) ↔ ∀ j, j < A.ncols → A.bit i j = B.bit i j := by
  have hwid : B.width = A.width := by unfold width; rw [hcols]
  have hcB : 0 < B.ncols := hcols ▸ hc
  constructor
  · intro h j hj
    have hk := word_lt_width A j hj
    have hp : j % 64 < 64 := Nat.mod_lt _ (by omega)
    have := (word_eq_iff _ _).mp (h _ hk) (j % 64) hp
    rw [mword_getLsbD A hc i _ _ hk hp, mword_getLsbD B hcB i _ _ (hwid ▸ hk) hp] at this
    have e : 64 * (j / 64) + j % 64 = j := by omega
    rw [e, ← hcols] at this
    simpa [hj] using this
  · intro h k hk
    rw [word_eq_iff]
    intro p hp
    rw [mword_getLsbD A hc i k p hk hp, mword_getLsbD B hcB i k p (hwid ▸ hk) hp, ← hcols]
    by_cases hj : 64 * k + p < A.ncols
    · simp [h _ hj]
    · simp [hj]

theorem equal_row_iff (A B : Mzd) (hc : 0 < A.ncols) (hcols : A.ncols = B.ncols) (i : Nat) :
    ((List.range (A.width - 1)).all (fun j => (A.row i).w j == (B.row i).w j) &&
      ((((A.row i).w (A.width - 1)) ^^^ ((B.row i).w (A.width - 1))) &&& A.hb) == 0) = true ↔
    ∀ k, k < A.width → A.mword i k = B.mword i k := by
  have hw := width_pos A hc
  have hwid : B.width = A.width := by unfold width; rw [hcols]
  have hhb : B.hb = A.hb := by unfold hb; rw [hcols]
  simp only [Bool.and_eq_true, List.all_eq_true, List.mem_range, beq_iff_eq, xor_and_eq_zero_iff]
  constructor
  · rintro ⟨h1, h2⟩ k hk
    unfold mword
    rw [hwid, hhb]
    by_cases h : k + 1 = A.width
    · rw [if_pos h, if_pos h]; have : A.width - 1 = k := by omega
      rw [← this]; exact h2
    · rw [if_neg h, if_neg h]; exact h1 k (by omega)
  · intro h
    constructor
    · intro k hk
      have := h k (by omega)
      unfold mword at this
      rwa [hwid, if_neg (by omega), if_neg (by omega)] at this
    · have := h (A.width - 1) (by omega)
      unfold mword at this
      rwa [hwid, hhb, if_pos (by omega), if_pos (by omega)] at this

/-- **`mzd_equal`**: true iff the dimensions agree and all entries inside the matrices agree;
    the excess bits of either argument are ignored. -/
theorem equal_iff (A B : Mzd) (hc : 0 < A.ncols) :
    A.equal B = true ↔
      A.nrows = B.nrows ∧ A.ncols = B.ncols ∧ ∀ i, i < A.nrows → ∀ j, j < A.ncols → A.bit i j = B.bit i j := by
  unfold equal
  by_cases hr : A.nrows = B.nrows
  · by_cases hcols : A.ncols = B.ncols
    · simp only [hr, hcols, ne_eq, not_true_eq_false, if_false, true_and]
      rw [← hr, ← hcols, List.all_eq_true]
      simp only [List.mem_range]
      constructor
      · intro h i hi
        exact (mword_all_eq_iff A B hc hcols i).mp ((equal_row_iff A B hc hcols i).mp (h i hi))
      · intro h i hi
        exact (equal_row_iff A B hc hcols i).mpr ((mword_all_eq_iff A B hc hcols i).mpr (h i hi))
    · simp [hr, hcols]
  · simp [hr]

example : (⟨2, 70, #[#[5#64, 0xFFFFFFFFFFFFFFC1#64], #[7#64, 0xFFFFFFFFFFFFFFC2#64]]⟩ : Mzd).equal
          ⟨2, 70, #[#[5#64, 0x1#64], #[7#64, 0xAAAAAAAAAAAAAA82#64]]⟩ = true := by decide

end Mzd
end M4ri

/-! ## 3. `mzd_cmp` -/
namespace M4ri

/-! ### `mzd_cmp`: a lexicographic fold of three-way word comparisons -/

/-- first non-zero value of `f` along `l` (0 if none): the shape of both loops of `mzd_cmp` -/
def lexFold {α : Type} (l : List α) (f : α → Int) : Int :=
  l.foldl (fun acc x => if acc ≠ 0 then acc else f x) 0

theorem lexFold_foldl_of_ne {α : Type} (l : List α) (f : α → Int) (acc : Int) (h : acc ≠ 0) :
    l.foldl (fun acc x => if acc ≠ 0 then acc else f x) acc = acc := by
  induction l with
  | nil => rfl
  | cons x l ih => simp only [List.foldl_cons, h, ne_eq, not_false_eq_true, if_true]; exact ih

@[simp] theorem lexFold_nil {α : Type} (f : α → Int) : lexFold [] f = 0 := rfl

theorem lexFold_cons {α : Type} (x : α) (l : List α) (f : α → Int) :
    lexFold (x :: l) f = if f x ≠ 0 then f x else lexFold l f := by
  unfold lexFold
  simp only [List.foldl_cons, ne_eq, not_true_eq_false, if_false]
  by_cases h : f x = 0
  · simp [h]
  · simp only [h, not_false_eq_true, if_true]
    exact lexFold_foldl_of_ne l f _ h

theorem lexFold_congr {α : Type} (l : List α) (f g : α → Int) (h : ∀ x, x ∈ l → f x = g x) :
    lexFold l f = lexFold l g := by
  induction l with
  | nil => rfl
  | cons x l ih =>
    rw [lexFold_cons, lexFold_cons, h x (by simp), ih (fun y hy => h y (by simp [hy]))]

theorem lexFold_eq_zero_iff {α : Type} (l : List α) (f : α → Int) :
    lexFold l f = 0 ↔ ∀ x, x ∈ l → f x = 0 := by
  induction l with
  | nil => simp
  | cons x l ih =>
    rw [lexFold_cons]
    by_cases h : f x = 0
    · simp [h, ih]
    · simp [h]

theorem lexFold_neg {α : Type} (l : List α) (f : α → Int) :
    lexFold l (fun x => - f x) = - lexFold l f := by
  induction l with
  | nil => rfl
  | cons x l ih =>
    rw [lexFold_cons, lexFold_cons, ih]
    by_cases h : f x = 0
    · simp [h]
    · have : - f x ≠ 0 := by omega
      simp [h]

theorem lexFold_mem {α : Type} (l : List α) (f : α → Int) (P : Int → Prop) (h0 : P 0)
    (h : ∀ x, x ∈ l → P (f x)) : P (lexFold l f) := by
  induction l with
  | nil => exact h0
  | cons x l ih =>
    rw [lexFold_cons]
    split
    · exact h x (by simp)
    · exact ih (fun y hy => h y (by simp [hy]))

/-- the three facts that make three-way comparisons `f = cmp a b`, `g = cmp b c`, `h = cmp a c` transitive -/
def Coh3 (f g h : Int) : Prop := (f = 0 → h = g) ∧ (g = 0 → h = f) ∧ (f < 0 → g < 0 → h < 0)

theorem lexFold_coh3 {α : Type} (l : List α) (f g h : α → Int) (H : ∀ x, Coh3 (f x) (g x) (h x)) :
    Coh3 (lexFold l f) (lexFold l g) (lexFold l h) := by
  induction l with
  | nil => exact ⟨fun _ => rfl, fun _ => rfl, fun h => absurd h (by simp)⟩
  | cons x l ih =>
    obtain ⟨a0, a1, a2⟩ := H x
    obtain ⟨i0, i1, i2⟩ := ih
    rw [lexFold_cons, lexFold_cons, lexFold_cons]
    by_cases hf : f x = 0
    · have e := a0 hf
      by_cases hg : g x = 0
      · have : h x = 0 := by omega
        simp only [hf, hg, this, ne_eq, not_true_eq_false, if_false]
        exact ⟨i0, i1, i2⟩
      · have : h x ≠ 0 := by omega
        simp only [hf, hg, this, ne_eq, not_true_eq_false, not_false_eq_true, if_false, if_true]
        refine ⟨fun _ => e, fun h' => absurd h' hg, fun h' _ => ?_⟩
        -- lexFold l f < 0 and g x < 0
        omega
    · by_cases hg : g x = 0
      · have e := a1 hg
        have : h x ≠ 0 := by omega
        simp only [hf, hg, this, ne_eq, not_true_eq_false, not_false_eq_true, if_false, if_true]
        refine ⟨fun h' => absurd h' hf, fun _ => e, fun h' _ => by omega⟩
      · simp only [hf, hg, ne_eq, not_false_eq_true, if_true]
        refine ⟨fun h' => absurd h' hf, fun h' => absurd h' hg, fun h1 h2 => ?_⟩
        have h3 := a2 h1 h2
        have : h x ≠ 0 := by omega
        simp only [this, not_false_eq_true, if_true]
        exact h3

/-- three-way comparison of two words as unsigned numbers -/
def cw (x y : Word) : Int := if x < y then -1 else if x > y then 1 else 0

theorem cw_eq_zero_iff (x y : Word) : cw x y = 0 ↔ x = y := by
  unfold cw
  constructor
  · intro h
    apply BitVec.eq_of_toNat_eq
    by_cases h1 : x < y
    · simp [h1] at h
    · by_cases h2 : x > y
      · simp [h1, h2] at h
      · simp only [BitVec.lt_def, gt_iff_lt] at h1 h2; omega
  · intro h; subst h; simp [BitVec.lt_irrefl]

theorem cw_neg_iff (x y : Word) : cw x y < 0 ↔ x < y := by
  unfold cw
  by_cases h1 : x < y
  · simp [h1]
  · by_cases h2 : x > y <;> simp [h1, h2]

theorem cw_antisymm (x y : Word) : cw x y = - cw y x := by
  unfold cw
  by_cases h1 : x < y
  · have : ¬ y < x := by simp only [BitVec.lt_def] at h1 ⊢; omega
    simp [h1, this]
  · by_cases h2 : y < x
    · simp [h1, h2]
    · simp [h1, h2]

theorem cw_range (x y : Word) : cw x y = -1 ∨ cw x y = 0 ∨ cw x y = 1 := by
  unfold cw
  by_cases h1 : x < y
  · simp [h1]
  · by_cases h2 : x > y <;> simp [h1, h2]

theorem cw_coh3 (a b c : Word) : Coh3 (cw a b) (cw b c) (cw a c) := by
  refine ⟨fun h => ?_, fun h => ?_, fun h1 h2 => ?_⟩
  · rw [(cw_eq_zero_iff a b).mp h]
  · rw [(cw_eq_zero_iff b c).mp h]
  · rw [cw_neg_iff] at h1 h2 ⊢
    exact BitVec.lt_trans h1 h2

end M4ri
namespace M4ri
namespace Mzd

/-- word indices in the order `mzd_cmp` looks at them: the last word first, then downwards -/
def cmpOrder (A : Mzd) : List Nat := (A.width - 1) :: (List.range (A.width - 1)).reverse

theorem mem_cmpOrder (A : Mzd) (hc : 0 < A.ncols) (k : Nat) : k ∈ A.cmpOrder ↔ k < A.width := by
  have := width_pos A hc
  unfold cmpOrder
  simp only [List.mem_cons, List.mem_reverse, List.mem_range]
  omega

theorem cmpRow_eq (A B : Mzd) (hc : 0 < A.ncols) (hcols : A.ncols = B.ncols) (i : Nat) :
    cmpRow (A.row i) (B.row i) (A.width - 1) A.hb =
      lexFold A.cmpOrder (fun k => cw (A.mword i k) (B.mword i k)) := by
  have hw := width_pos A hc
  have hwid : B.width = A.width := by unfold width; rw [hcols]
  have hhb : B.hb = A.hb := by unfold hb; rw [hcols]
  unfold cmpOrder
  rw [lexFold_cons]
  have e1 : A.mword i (A.width - 1) = (A.row i).w (A.width - 1) &&& A.hb := by
    unfold mword; rw [if_pos (by omega)]
  have e2 : B.mword i (A.width - 1) = (B.row i).w (A.width - 1) &&& A.hb := by
    unfold mword; rw [hwid, hhb, if_pos (by omega)]
  rw [e1, e2]
  have e3 : lexFold (List.range (A.width - 1)).reverse (fun k => cw (A.mword i k) (B.mword i k)) =
      lexFold (List.range (A.width - 1)).reverse (fun k => cw ((A.row i).w k) ((B.row i).w k)) := by
    apply lexFold_congr
    intro k hk
    simp only [List.mem_reverse, List.mem_range] at hk
    unfold mword
    rw [hwid, if_neg (by omega), if_neg (by omega)]
  rw [e3]
  unfold cmpRow cw lexFold
  simp only
  split
  · simp
  · split
    · simp
    · simp

theorem cmp_eq (A B : Mzd) (hc : 0 < A.ncols) (hrows : A.nrows = B.nrows) (hcols : A.ncols = B.ncols) :
    A.cmp B = lexFold (List.range A.nrows)
      (fun i => lexFold A.cmpOrder (fun k => cw (A.mword i k) (B.mword i k))) := by
  unfold cmp
  rw [if_neg (by omega), if_neg (by omega), if_neg (by omega), if_neg (by omega)]
  have : (fun (acc : Int) i => if acc ≠ 0 then acc else cmpRow (A.row i) (B.row i) (A.width - 1) A.hb) =
      (fun (acc : Int) i => if acc ≠ 0 then acc else
        (fun i => lexFold A.cmpOrder (fun k => cw (A.mword i k) (B.mword i k))) i) := by
    funext acc i
    rw [cmpRow_eq A B hc hcols i]
  rw [this]
  rfl


/-- **`mzd_cmp` = 0** exactly when `mzd_equal` holds (equal dimensions). -/
theorem cmp_eq_zero_iff (A B : Mzd) (hc : 0 < A.ncols) (hrows : A.nrows = B.nrows) (hcols : A.ncols = B.ncols) :
    A.cmp B = 0 ↔ A.equal B = true := by
  rw [cmp_eq A B hc hrows hcols, equal_iff A B hc, lexFold_eq_zero_iff]
  simp only [List.mem_range, lexFold_eq_zero_iff, mem_cmpOrder A hc, cw_eq_zero_iff]
  constructor
  · intro h
    exact ⟨hrows, hcols, fun i hi => (mword_all_eq_iff A B hc hcols i).mp (h i hi)⟩
  · rintro ⟨_, _, h⟩ i hi
    exact (mword_all_eq_iff A B hc hcols i).mpr (h i hi)

/-- `mzd_cmp` in terms of entries: 0 iff all entries inside the matrices agree. -/
theorem cmp_eq_zero_iff_bit (A B : Mzd) (hc : 0 < A.ncols) (hrows : A.nrows = B.nrows)
    (hcols : A.ncols = B.ncols) :
    A.cmp B = 0 ↔ ∀ i, i < A.nrows → ∀ j, j < A.ncols → A.bit i j = B.bit i j := by
  rw [cmp_eq_zero_iff A B hc hrows hcols, equal_iff A B hc]
  exact ⟨fun h => h.2.2, fun h => ⟨hrows, hcols, h⟩⟩

/-- **antisymmetry** of `mzd_cmp` (equal dimensions) -/
theorem cmp_antisymm (A B : Mzd) (hc : 0 < A.ncols) (hrows : A.nrows = B.nrows) (hcols : A.ncols = B.ncols) :
    A.cmp B = - B.cmp A := by
  have hwid : B.width = A.width := by unfold width; rw [hcols]
  rw [cmp_eq A B hc hrows hcols, cmp_eq B A (hcols ▸ hc) hrows.symm hcols.symm, ← lexFold_neg, hrows]
  apply lexFold_congr
  intro i _
  have : B.cmpOrder = A.cmpOrder := by unfold cmpOrder; rw [hwid]
  rw [this, ← lexFold_neg]
  apply lexFold_congr
  intro k _
  exact cw_antisymm _ _

/-- antisymmetry for arbitrary dimensions (the dimension tests are antisymmetric as well) -/
theorem cmp_antisymm' (A B : Mzd) (hcA : 0 < A.ncols) : A.cmp B = - B.cmp A := by
  by_cases hrows : A.nrows = B.nrows
  · by_cases hcols : A.ncols = B.ncols
    · exact cmp_antisymm A B hcA hrows hcols
    · unfold cmp
      by_cases h : A.ncols < B.ncols
      · have h' : ¬ B.ncols < A.ncols := by omega
        simp [hrows, h, h']
      · have h' : B.ncols < A.ncols := by omega
        simp [hrows, h, h']
  · unfold cmp
    by_cases h : A.nrows < B.nrows
    · have h' : ¬ B.nrows < A.nrows := by omega
      simp [h, h']
    · have h' : B.nrows < A.nrows := by omega
      simp [h, h']

/-- the result of `mzd_cmp` is -1, 0 or 1 -/
theorem cmp_range (A B : Mzd) (hc : 0 < A.ncols) : A.cmp B = -1 ∨ A.cmp B = 0 ∨ A.cmp B = 1 := by
  by_cases hrows : A.nrows = B.nrows
  · by_cases hcols : A.ncols = B.ncols
    · rw [cmp_eq A B hc hrows hcols]
      apply lexFold_mem _ _ (fun z => z = -1 ∨ z = 0 ∨ z = 1) (by simp)
      intro i _
      apply lexFold_mem _ _ (fun z => z = -1 ∨ z = 0 ∨ z = 1) (by simp)
      intro k _
      exact cw_range _ _
    · unfold cmp
      by_cases h : A.ncols < B.ncols
      · simp [hrows, h]
      · have h' : B.ncols < A.ncols := by omega
        simp [hrows, h, h']
  · unfold cmp
    by_cases h : A.nrows < B.nrows
    · simp [h]
    · have h' : B.nrows < A.nrows := by omega
      simp [h, h']

theorem cmp_coh3 (A B C : Mzd) (hc : 0 < A.ncols) (hAB : A.nrows = B.nrows) (hAB' : A.ncols = B.ncols)
    (hBC : B.nrows = C.nrows) (hBC' : B.ncols = C.ncols) :
    Coh3 (A.cmp B) (B.cmp C) (A.cmp C) := by
  have hwid : B.width = A.width := by unfold width; rw [hAB']
  have hord : B.cmpOrder = A.cmpOrder := by unfold cmpOrder; rw [hwid]
  rw [cmp_eq A B hc hAB hAB', cmp_eq B C (hAB' ▸ hc) hBC hBC', cmp_eq A C hc (hAB.trans hBC) (hAB'.trans hBC'),
    ← hAB, hord]
  apply lexFold_coh3
  intro i
  apply lexFold_coh3
  intro k
  exact cw_coh3 _ _ _

/-- **transitivity** of `mzd_cmp` (`≤` form) for three matrices of equal dimensions -/
theorem cmp_trans_le (A B C : Mzd) (hc : 0 < A.ncols) (hAB : A.nrows = B.nrows) (hAB' : A.ncols = B.ncols)
    (hBC : B.nrows = C.nrows) (hBC' : B.ncols = C.ncols)
    (h1 : A.cmp B ≤ 0) (h2 : B.cmp C ≤ 0) : A.cmp C ≤ 0 := by
  obtain ⟨c0, c1, c2⟩ := cmp_coh3 A B C hc hAB hAB' hBC hBC'
  by_cases e1 : A.cmp B = 0
  · rw [c0 e1]; exact h2
  · by_cases e2 : B.cmp C = 0
    · rw [c1 e2]; exact h1
    · have := c2 (by omega) (by omega); omega

/-- **transitivity** of `mzd_cmp` (strict form) -/
theorem cmp_trans_lt (A B C : Mzd) (hc : 0 < A.ncols) (hAB : A.nrows = B.nrows) (hAB' : A.ncols = B.ncols)
    (hBC : B.nrows = C.nrows) (hBC' : B.ncols = C.ncols)
    (h1 : A.cmp B < 0) (h2 : B.cmp C < 0) : A.cmp C < 0 :=
  (cmp_coh3 A B C hc hAB hAB' hBC hBC').2.2 h1 h2

/-- mixed forms: `<` then `≤`, `≤` then `<` -/
theorem cmp_trans_lt_le (A B C : Mzd) (hc : 0 < A.ncols) (hAB : A.nrows = B.nrows) (hAB' : A.ncols = B.ncols)
    (hBC : B.nrows = C.nrows) (hBC' : B.ncols = C.ncols)
    (h1 : A.cmp B < 0) (h2 : B.cmp C ≤ 0) : A.cmp C < 0 := by
  obtain ⟨c0, c1, c2⟩ := cmp_coh3 A B C hc hAB hAB' hBC hBC'
  by_cases e2 : B.cmp C = 0
  · rw [c1 e2]; exact h1
  · exact c2 h1 (by omega)

theorem cmp_trans_le_lt (A B C : Mzd) (hc : 0 < A.ncols) (hAB : A.nrows = B.nrows) (hAB' : A.ncols = B.ncols)
    (hBC : B.nrows = C.nrows) (hBC' : B.ncols = C.ncols)
    (h1 : A.cmp B ≤ 0) (h2 : B.cmp C < 0) : A.cmp C < 0 := by
  obtain ⟨c0, c1, c2⟩ := cmp_coh3 A B C hc hAB hAB' hBC hBC'
  by_cases e1 : A.cmp B = 0
  · rw [c0 e1]; exact h2
  · exact c2 (by omega) h2

/-- different dimensions: the result is decided by the dimensions, rows first -/
theorem cmp_of_nrows_lt (A B : Mzd) (h : A.nrows < B.nrows) : A.cmp B = -1 := by
  unfold cmp; simp [h]

theorem cmp_of_nrows_gt (A B : Mzd) (h : B.nrows < A.nrows) : A.cmp B = 1 := by
  unfold cmp; have : ¬ A.nrows < B.nrows := by omega
  simp [h, this]

theorem cmp_of_ncols_lt (A B : Mzd) (hr : A.nrows = B.nrows) (h : A.ncols < B.ncols) : A.cmp B = -1 := by
  unfold cmp; simp [hr, h]

theorem cmp_of_ncols_gt (A B : Mzd) (hr : A.nrows = B.nrows) (h : B.ncols < A.ncols) : A.cmp B = 1 := by
  unfold cmp; have : ¬ A.ncols < B.ncols := by omega
  simp [hr, h, this]

/-- non-vacuity: two 2×70 views that differ inside (and arbitrarily in the excess bits) -/
example : (⟨2, 70, #[#[5#64, 0xFFFFFFFFFFFFFFC1#64], #[7#64, 0x2#64]]⟩ : Mzd).cmp
          ⟨2, 70, #[#[5#64, 0x1#64], #[8#64, 0xAAAAAAAAAAAAAA82#64]]⟩ = -1 := by decide

/-- non-vacuity of the transitivity theorems: three 1×70 views `A < B < C` with different excess bits -/
example :
    let A : Mzd := ⟨1, 70, #[#[5#64, 0xFFFFFFFFFFFFFFC1#64]]⟩
    let B : Mzd := ⟨1, 70, #[#[4#64, 0x0000000000000002#64]]⟩
    let C : Mzd := ⟨1, 70, #[#[9#64, 0xAAAAAAAAAAAAAA82#64]]⟩
    0 < A.ncols ∧ A.nrows = B.nrows ∧ A.ncols = B.ncols ∧ B.nrows = C.nrows ∧ B.ncols = C.ncols ∧
      A.cmp B = -1 ∧ B.cmp C = -1 ∧ A.cmp C = -1 ∧ B.cmp A = 1 := by decide

end Mzd
end M4ri

/-! ## 4. `mzd_first_zero_row` -/
namespace M4ri

theorem find?_range_reverse (p : Nat → Bool) (n : Nat) :
    match (List.range n).reverse.find? p with
    | some i => i < n ∧ p i = true ∧ ∀ k, i < k → k < n → p k = false
    | none => ∀ k, k < n → p k = false := by
  induction n with
  | zero => simp
  | succ n ih =>
    rw [List.range_succ, List.reverse_append, List.reverse_singleton, List.singleton_append, List.find?_cons]
    by_cases hp : p n = true
    · simp only [hp]
      exact ⟨by omega, trivial, fun k h1 h2 => by omega⟩
    · simp only [hp]
      split at ih
      · rename_i i heq
        rw [heq]
        obtain ⟨h1, h2, h3⟩ := ih
        refine ⟨by omega, h2, fun k hk1 hk2 => ?_⟩
        by_cases hkn : k = n
        · subst hkn; simpa using hp
        · exact h3 k hk1 (by omega)
      · rename_i heq
        rw [heq]
        intro k hk
        by_cases hkn : k = n
        · subst hkn; simpa using hp
        · exact ih k (by omega)

namespace Mzd

theorem nz_row_iff (A : Mzd) (hc : 0 < A.ncols) (i : Nat) :
    ((List.range (A.width - 1)).any (fun j => (A.row i).w j != 0) ||
      (((A.row i).w (A.width - 1)) &&& A.hb) != 0) = true ↔ ∃ j, j < A.ncols ∧ A.bit i j = true := by
  have h := isZero_row_iff A hc i
  rw [mword_all_zero_iff A hc i] at h
  have hnot : (∃ j, j < A.ncols ∧ A.bit i j = true) ↔ ¬ ∀ j, j < A.ncols → A.bit i j = false := by
    constructor
    · rintro ⟨j, hj, hb⟩ hall; rw [hall j hj] at hb; exact Bool.false_ne_true hb
    · intro hn
      apply Classical.byContradiction
      intro hne
      apply hn
      intro j hj
      cases hb : A.bit i j
      · rfl
      · exact absurd ⟨j, hj, hb⟩ hne
  rw [hnot, ← h]
  simp only [Bool.or_eq_true, List.any_eq_true, List.mem_range, bne_iff_ne, ne_eq, Bool.and_eq_true,
    List.all_eq_true, beq_iff_eq]
  constructor
  · rintro (⟨j, hj, hne⟩ | hl) ⟨h1, h2⟩
    · exact hne (h1 j hj)
    · exact hl h2
  · intro hn
    by_cases hl : (A.row i).w (A.width - 1) &&& A.hb = 0
    · left
      apply Classical.byContradiction
      intro hne
      apply hn
      refine ⟨fun j hj => ?_, hl⟩
      apply Classical.byContradiction
      intro hj0
      exact hne ⟨j, hj, hj0⟩
    · right; exact hl

/-- **`mzd_first_zero_row`** (repaired form): `r = firstZeroRow A` iff `r ≤ nrows`, all rows from `r` on are
    zero inside the matrix, and row `r - 1` (if any) is not. Excess bits are ignored. -/
theorem firstZeroRow_eq_iff (A : Mzd) (hc : 0 < A.ncols) (r : Nat) :
    A.firstZeroRow = r ↔
      r ≤ A.nrows ∧ (∀ i, r ≤ i → i < A.nrows → ∀ j, j < A.ncols → A.bit i j = false) ∧
      (r = 0 ∨ ∃ j, j < A.ncols ∧ A.bit (r - 1) j = true) := by
  -- first: the value satisfies the three conditions
  have key : ∀ r0, A.firstZeroRow = r0 →
      r0 ≤ A.nrows ∧ (∀ i, r0 ≤ i → i < A.nrows → ∀ j, j < A.ncols → A.bit i j = false) ∧
      (r0 = 0 ∨ ∃ j, j < A.ncols ∧ A.bit (r0 - 1) j = true) := by
    intro r0 h0
    unfold firstZeroRow at h0
    simp only at h0
    have hf := find?_range_reverse (fun i => (List.range (A.width - 1)).any (fun j => (A.row i).w j != 0) ||
      (((A.row i).w (A.width - 1)) &&& A.hb) != 0) A.nrows
    split at h0
    · rename_i i heq
      rw [heq] at hf
      obtain ⟨h1, h2, h3⟩ := hf
      subst h0
      refine ⟨by omega, fun k hk1 hk2 j hj => ?_, Or.inr ?_⟩
      · have := h3 k (by omega) hk2
        cases hb : A.bit k j
        · rfl
        · have e := (nz_row_iff A hc k).mpr ⟨j, hj, hb⟩
          exact absurd (e.symm.trans this) (by decide)
      · exact (nz_row_iff A hc i).mp h2
    · rename_i heq
      rw [heq] at hf
      subst h0
      refine ⟨by omega, fun k _ hk2 j hj => ?_, Or.inl rfl⟩
      have := hf k hk2
      cases hb : A.bit k j
      · rfl
      · have e := (nz_row_iff A hc k).mpr ⟨j, hj, hb⟩
        exact absurd (e.symm.trans this) (by decide)
  constructor
  · exact key r
  · rintro ⟨h1, h2, h3⟩
    obtain ⟨g1, g2, g3⟩ := key A.firstZeroRow rfl
    generalize A.firstZeroRow = r0 at g1 g2 g3
    by_cases hlt : r0 < r
    · rcases h3 with h3 | ⟨j, hj, hb⟩
      · omega
      · rw [g2 (r - 1) (by omega) (by omega) j hj] at hb; exact absurd hb Bool.false_ne_true
    · by_cases hgt : r < r0
      · rcases g3 with g3 | ⟨j, hj, hb⟩
        · omega
        · rw [h2 (r0 - 1) (by omega) (by omega) j hj] at hb; exact absurd hb Bool.false_ne_true
      · omega

/-- the three properties of the value of `mzd_first_zero_row` -/
theorem firstZeroRow_spec (A : Mzd) (hc : 0 < A.ncols) :
    A.firstZeroRow ≤ A.nrows ∧
    (∀ i, A.firstZeroRow ≤ i → i < A.nrows → ∀ j, j < A.ncols → A.bit i j = false) ∧
    (A.firstZeroRow = 0 ∨ ∃ j, j < A.ncols ∧ A.bit (A.firstZeroRow - 1) j = true) :=
  (firstZeroRow_eq_iff A hc _).mp rfl

/-- non-vacuity: 3×70 view, row 1 is the last non-zero row; excess bits of the zero row are ones -/
example : (⟨3, 70, #[#[1#64, 0x0#64], #[0#64, 0x20#64], #[0#64, 0xFFFFFFFFFFFFFFC0#64]]⟩ : Mzd).firstZeroRow = 2 := by
  decide

end Mzd
end M4ri

/-! ## 5. `m4ri_lesser_LSB` -/
namespace M4ri

/-- `(a - 1) ^ a` is the mask of the positions up to and including the lowest set bit of `a` -/
theorem sub_one_xor_getLsbD (a : Word) (k : Nat) (hbit : a.getLsbD k = true)
    (hlow : ∀ l, l < k → a.getLsbD l = false) (l : Nat) :
    ((a - 1) ^^^ a).getLsbD l = (decide (l < 64) && decide (l ≤ k)) := by
  have hk : k < 64 := by
    apply Classical.byContradiction; intro h
    rw [BitVec.getLsbD_of_ge a k (by omega)] at hbit; exact Bool.false_ne_true hbit
  have hr : a.toNat % 2 ^ (k + 1) = 2 ^ k := by
    apply Nat.eq_of_testBit_eq; intro i
    rw [Nat.testBit_mod_two_pow, Nat.testBit_two_pow, BitVec.testBit_toNat]
    by_cases hik : i < k
    · rw [hlow i hik]; simp; omega
    · by_cases hik2 : i = k
      · subst hik2; simp [hbit]
      · have h1 : ¬ i < k + 1 := by omega
        have h2 : ¬ k = i := by omega
        simp [h1, h2]
  have hq : 2 ^ (k + 1) * (a.toNat / 2 ^ (k + 1)) + 2 ^ k = a.toNat := by
    rw [← hr]; exact Nat.div_add_mod _ _
  have hpos : 0 < 2 ^ k := Nat.two_pow_pos k
  have hlt1 : 2 ^ k < 2 ^ (k + 1) := Nat.pow_lt_pow_right (by omega) (by omega)
  have ha1 : (a - 1).toNat = 2 ^ (k + 1) * (a.toNat / 2 ^ (k + 1)) + (2 ^ k - 1) := by
    rw [BitVec.toNat_sub]
    have : a.toNat < 2 ^ 64 := a.isLt
    have h1 : BitVec.toNat (1 : Word) = 1 := rfl
    rw [h1]
    generalize 2 ^ (k + 1) * (a.toNat / 2 ^ (k + 1)) = X at hq ⊢
    omega
  by_cases hl : l < 64
  · rw [BitVec.getLsbD_xor, ← BitVec.testBit_toNat, ← BitVec.testBit_toNat, ha1]
    conv => lhs; rhs; rw [← hq]
    rw [Nat.testBit_two_pow_mul_add _ (by omega), Nat.testBit_two_pow_mul_add _ hlt1]
    by_cases h1 : l < k + 1
    · rw [if_pos h1, if_pos h1, Nat.testBit_two_pow_sub_one, Nat.testBit_two_pow]
      by_cases h2 : l < k
      · have : ¬ k = l := by omega
        have : l ≤ k := by omega
        simp [*]
      · have : k = l := by omega
        have : l ≤ k := by omega
        simp [*]
    · rw [if_neg h1, if_neg h1]
      have : ¬ l ≤ k := by omega
      simp [this]
  · rw [BitVec.getLsbD_of_ge _ _ (by omega)]; simp [hl]

end M4ri
namespace M4ri

theorem find?_range (p : Nat → Bool) (n : Nat) :
    match (List.range n).find? p with
    | some i => i < n ∧ p i = true ∧ ∀ k, k < i → p k = false
    | none => ∀ k, k < n → p k = false := by
  induction n with
  | zero => simp
  | succ n ih =>
    rw [List.range_succ, List.find?_append]
    split at ih
    · rename_i i heq
      rw [heq]
      obtain ⟨h1, h2, h3⟩ := ih
      exact ⟨by omega, h2, h3⟩
    · rename_i heq
      rw [heq]
      simp only [Option.none_or, List.find?_cons]
      by_cases hp : p n = true
      · simp only [hp]
        exact ⟨by omega, trivial, fun k hk => ih k hk⟩
      · simp only [hp, List.find?_nil]
        intro k hk
        by_cases hkn : k = n
        · subst hkn; simpa using hp
        · exact ih k (by omega)

namespace Mzd

theorem lowestBit_spec (d : Word) (len : Nat) :
    match lowestBit d len with
    | some l => l < len ∧ d.getLsbD l = true ∧ ∀ k, k < l → d.getLsbD k = false
    | none => ∀ k, k < len → d.getLsbD k = false := by
  unfold lowestBit
  exact find?_range (fun l => d.getLsbD l) len

theorem lowestBit_eq_some (d : Word) (len l : Nat) (hl : l < len) (hbit : d.getLsbD l = true)
    (hlow : ∀ k, k < l → d.getLsbD k = false) : lowestBit d len = some l := by
  have h := lowestBit_spec d len
  split at h
  · rename_i l' heq
    obtain ⟨h1, h2, h3⟩ := h
    rw [heq]
    congr 1
    by_cases h4 : l' < l
    · rw [hlow l' h4] at h2; exact absurd h2 Bool.false_ne_true
    · by_cases h5 : l < l'
      · rw [h3 l h5] at hbit; exact absurd hbit Bool.false_ne_true
      · omega
  · rw [h l hl] at hbit; exact absurd hbit Bool.false_ne_true

end Mzd

/-- position of the lowest set bit of a word; 64 for the zero word -/
def lsbIdx (w : Word) : Nat := (Mzd.lowestBit w 64).getD 64

theorem lsbIdx_le (w : Word) : lsbIdx w ≤ 64 := by
  unfold lsbIdx
  have h := Mzd.lowestBit_spec w 64
  split at h
  · rename_i l heq; rw [heq]; simp; omega
  · rename_i heq; rw [heq]; simp

theorem lsbIdx_low (w : Word) (l : Nat) (hl : l < lsbIdx w) : w.getLsbD l = false := by
  unfold lsbIdx at hl
  have h := Mzd.lowestBit_spec w 64
  split at h
  · rename_i l' heq; rw [heq] at hl; simp at hl; exact h.2.2 l hl
  · rename_i heq; rw [heq] at hl; simp at hl; exact h l hl

theorem lsbIdx_bit (w : Word) (h64 : lsbIdx w < 64) : w.getLsbD (lsbIdx w) = true := by
  unfold lsbIdx at h64 ⊢
  have h := Mzd.lowestBit_spec w 64
  split at h
  · rename_i l' heq; rw [heq]; simp; exact h.2.1
  · rename_i heq; rw [heq] at h64; simp at h64

theorem lsbIdx_eq_of (w : Word) (k : Nat) (hbit : w.getLsbD k = true)
    (hlow : ∀ l, l < k → w.getLsbD l = false) : lsbIdx w = k := by
  have hk : k < 64 := by
    apply Classical.byContradiction; intro h
    rw [BitVec.getLsbD_of_ge w k (by omega)] at hbit; exact Bool.false_ne_true hbit
  unfold lsbIdx
  rw [Mzd.lowestBit_eq_some w 64 k hk hbit hlow]; rfl

theorem lsbIdx_eq_64_iff (w : Word) : lsbIdx w = 64 ↔ w = 0 := by
  constructor
  · intro h
    rw [word_eq_zero_iff]
    intro p hp
    exact lsbIdx_low w p (by omega)
  · intro h
    subst h
    have := lsbIdx_le 0
    apply Classical.byContradiction; intro hne
    have := lsbIdx_bit 0 (by omega)
    simp at this

/-- `k ≤ lsbIdx w` iff the `k` lowest bits of `w` are clear -/
theorem le_lsbIdx_iff (w : Word) (k : Nat) (hk : k ≤ 64) :
    k ≤ lsbIdx w ↔ ∀ l, l < k → w.getLsbD l = false := by
  constructor
  · intro h l hl; exact lsbIdx_low w l (by omega)
  · intro h
    apply Classical.byContradiction; intro hlt
    have hle := lsbIdx_le w
    have := lsbIdx_bit w (by omega)
    rw [h _ (by omega)] at this
    exact Bool.false_ne_true this

theorem lesserLSB_true_iff_raw (a b : Word) :
    lesserLSB a b = true ↔ (if b ≠ 0 then ((a - 1) ^^^ a) &&& b = 0 else a ≠ 0) := by
  unfold lesserLSB
  by_cases hb : b = 0 <;> simp [hb]

theorem lesserLSB_true_iff (a b : Word) : lesserLSB a b = true ↔ lsbIdx a < lsbIdx b := by
  have hla := lsbIdx_le a
  have hlb := lsbIdx_le b
  rw [lesserLSB_true_iff_raw]
  by_cases ha : a = 0
  · have e := (lsbIdx_eq_64_iff a).mpr ha
    have hn : ¬ lsbIdx a < lsbIdx b := by omega
    by_cases hb : b = 0
    · rw [if_neg (fun h => h hb)]
      exact ⟨fun h => absurd ha h, fun h => absurd h hn⟩
    · rw [if_pos hb]
      constructor
      · intro h
        exfalso; apply hb
        rw [word_eq_zero_iff] at h ⊢
        intro p hp
        have := h p hp
        subst ha
        have e1 : ((0 : Word) - 1) = BitVec.allOnes 64 := by decide
        rw [e1, BitVec.getLsbD_and, BitVec.getLsbD_xor, BitVec.getLsbD_allOnes] at this
        simpa [hp] using this
      · intro h; exact absurd h hn
  · have hk : lsbIdx a < 64 := by
      have := mt (lsbIdx_eq_64_iff a).mp ha; omega
    have hbit := lsbIdx_bit a hk
    have hlow := lsbIdx_low a
    by_cases hb : b = 0
    · have e := (lsbIdx_eq_64_iff b).mpr hb
      rw [if_neg (fun h => h hb)]
      exact ⟨fun _ => by omega, fun _ => ha⟩
    · rw [if_pos hb, word_eq_zero_iff]
      have : lsbIdx a < lsbIdx b ↔ lsbIdx a + 1 ≤ lsbIdx b := by omega
      rw [this, le_lsbIdx_iff b _ (by omega)]
      constructor
      · intro h l hl
        have := h l (by omega)
        rw [BitVec.getLsbD_and, sub_one_xor_getLsbD a _ hbit hlow l] at this
        have h1 : l < 64 := by omega
        have h2 : l ≤ lsbIdx a := by omega
        simpa [h1, h2] using this
      · intro h l hl
        rw [BitVec.getLsbD_and, sub_one_xor_getLsbD a _ hbit hlow l]
        by_cases h2 : l ≤ lsbIdx a
        · rw [h l (by omega)]; simp
        · simp [h2]

/-- **`m4ri_lesser_LSB`** compares the positions of the lowest set bits (64 for the zero word). -/
theorem lesserLSB_eq (a b : Word) : lesserLSB a b = decide (lsbIdx a < lsbIdx b) := by
  by_cases h : lsbIdx a < lsbIdx b
  · rw [decide_eq_true h]; exact (lesserLSB_true_iff a b).mpr h
  · rw [decide_eq_false h]
    cases hl : lesserLSB a b
    · rfl
    · exact absurd ((lesserLSB_true_iff a b).mp hl) h

/-- `m4ri_lesser_LSB(a, b)`: `a` is non-zero and its lowest set bit lies strictly below every set bit of `b` -/
theorem lesserLSB_iff (a b : Word) :
    lesserLSB a b = true ↔
      ∃ k, a.getLsbD k = true ∧ (∀ l, l < k → a.getLsbD l = false) ∧ ∀ l, l ≤ k → b.getLsbD l = false := by
  rw [lesserLSB_eq, decide_eq_true_eq]
  have hla := lsbIdx_le a
  have hlb := lsbIdx_le b
  constructor
  · intro h
    refine ⟨lsbIdx a, lsbIdx_bit a (by omega), lsbIdx_low a, fun l hl => lsbIdx_low b l (by omega)⟩
  · rintro ⟨k, h1, h2, h3⟩
    rw [lsbIdx_eq_of a k h1 h2]
    have hk : k < 64 := by
      apply Classical.byContradiction; intro h
      rw [BitVec.getLsbD_of_ge a k (by omega)] at h1; exact Bool.false_ne_true h1
    have := (le_lsbIdx_iff b (k + 1) (by omega)).mpr (fun l hl => h3 l (by omega))
    omega

/-- the documented reading: `a ≠ 0` and (`b = 0` or lowest set bit of `a` strictly below that of `b`) -/
theorem lesserLSB_iff' (a b : Word) :
    lesserLSB a b = true ↔ a ≠ 0 ∧ (b = 0 ∨ lsbIdx a < lsbIdx b) := by
  rw [lesserLSB_eq, decide_eq_true_eq]
  have hla := lsbIdx_le a
  have hlb := lsbIdx_le b
  constructor
  · intro h
    refine ⟨fun ha => ?_, Or.inr h⟩
    have := (lsbIdx_eq_64_iff a).mpr ha; omega
  · rintro ⟨ha, hb | hlt⟩
    · have := (lsbIdx_eq_64_iff b).mpr hb
      have := mt (lsbIdx_eq_64_iff a).mp ha
      omega
    · exact hlt

example : lesserLSB 0x8#64 0x30#64 = true ∧ lesserLSB 0x10#64 0x30#64 = false ∧ lesserLSB 0#64 0#64 = false
    ∧ lesserLSB 1#64 0#64 = true := by decide

end M4ri

/-! ## 6. `mzd_find_pivot`: the row scan `pivotScan`, chunks, and the four code paths -/
namespace M4ri
namespace Mzd

/-- what the row scan returns, in terms of `get`:
    the lowest bit of the final `data` is minimal among the scanned rows, and either nothing beat the
    initial `(data, cand)`, or `cand` is the FIRST scanned row whose word has the minimal lowest bit and `data` is
    that word.  `brk` (the early exit) must only fire on words whose lowest bit cannot be beaten. -/
theorem pivotScan_go_spec (nrows : Nat) (get : Nat → Word) (brk : Word → Bool)
    (hbrk : ∀ i1, brk (get i1) = true → ∀ i2, lsbIdx (get i1) ≤ lsbIdx (get i2)) :
    ∀ (fuel i : Nat) (data : Word) (cand : Nat), nrows ≤ fuel + i →
      (∀ i', i ≤ i' → i' < nrows → lsbIdx (pivotScan.go nrows get brk fuel i data cand).1 ≤ lsbIdx (get i')) ∧
      (pivotScan.go nrows get brk fuel i data cand = (data, cand) ∨
        (i ≤ (pivotScan.go nrows get brk fuel i data cand).2 ∧
         (pivotScan.go nrows get brk fuel i data cand).2 < nrows ∧
         (pivotScan.go nrows get brk fuel i data cand).1 = get (pivotScan.go nrows get brk fuel i data cand).2 ∧
         lsbIdx (pivotScan.go nrows get brk fuel i data cand).1 < lsbIdx data ∧
         ∀ i', i ≤ i' → i' < (pivotScan.go nrows get brk fuel i data cand).2 →
           lsbIdx (pivotScan.go nrows get brk fuel i data cand).1 < lsbIdx (get i'))) := by
  intro fuel
  induction fuel with
  | zero =>
    intro i data cand h
    simp only [pivotScan.go]
    exact ⟨fun i' h1 h2 => by omega, Or.inl (by first | rfl | trivial)⟩
  | succ fuel ih =>
    intro i data cand h
    simp only [pivotScan.go]
    by_cases hi : i ≥ nrows
    · rw [if_pos hi]
      exact ⟨fun i' h1 h2 => by omega, Or.inl rfl⟩
    · rw [if_neg hi]
      by_cases hl : lesserLSB (get i) data = true
      · rw [if_pos hl]
        have hlt := (lesserLSB_true_iff _ _).mp hl
        by_cases hb : brk (get i) = true
        · rw [if_pos hb]
          refine ⟨fun i' _ _ => hbrk i hb i', Or.inr ⟨Nat.le_refl _, by omega, rfl, hlt, fun i' h1 h2 => ?_⟩⟩
          simp only at h2; omega
        · rw [if_neg hb]
          obtain ⟨c1, c2⟩ := ih (i + 1) (get i) i (by omega)
          generalize pivotScan.go nrows get brk fuel (i + 1) (get i) i = r at c1 c2 ⊢
          rcases c2 with c2 | ⟨d1, d2, d3, d4, d5⟩
          · subst c2
            refine ⟨fun i' h1 h2 => ?_, Or.inr ⟨Nat.le_refl _, by omega, rfl, hlt, fun i' h1 h2 => ?_⟩⟩
            · by_cases e : i' = i
              · subst e; exact Nat.le_refl _
              · exact c1 i' (by omega) h2
            · simp only at h2; omega
          · refine ⟨fun i' h1 h2 => ?_, Or.inr ⟨by omega, d2, d3, by omega, fun i' h1 h2 => ?_⟩⟩
            · by_cases e : i' = i
              · subst e; omega
              · exact c1 i' (by omega) h2
            · by_cases e : i' = i
              · subst e; exact d4
              · exact d5 i' (by omega) h2
      · rw [if_neg hl]
        have hge : lsbIdx data ≤ lsbIdx (get i) := by
          have := mt (lesserLSB_true_iff _ _).mpr hl; omega
        obtain ⟨c1, c2⟩ := ih (i + 1) data cand (by omega)
        generalize pivotScan.go nrows get brk fuel (i + 1) data cand = r at c1 c2 ⊢
        rcases c2 with c2 | ⟨d1, d2, d3, d4, d5⟩
        · subst c2
          refine ⟨fun i' h1 h2 => ?_, Or.inl rfl⟩
          by_cases e : i' = i
          · subst e; exact hge
          · exact c1 i' (by omega) h2
        · refine ⟨fun i' h1 h2 => ?_, Or.inr ⟨by omega, d2, d3, d4, fun i' h1 h2 => ?_⟩⟩
          · by_cases e : i' = i
            · subst e; omega
            · exact c1 i' (by omega) h2
          · by_cases e : i' = i
            · subst e; omega
            · exact d5 i' (by omega) h2

end Mzd
end M4ri
namespace M4ri
namespace Mzd

/-- `pivotScan` from the initial state `data = 0`, `row_candidate = 0` -/
theorem pivotScan_spec (nrows sr : Nat) (get : Nat → Word) (brk : Word → Bool)
    (hbrk : ∀ i1, brk (get i1) = true → ∀ i2, lsbIdx (get i1) ≤ lsbIdx (get i2)) :
    ((pivotScan nrows sr get brk 0 0).1 = 0 ∧ ∀ i, sr ≤ i → i < nrows → get i = 0) ∨
    ((pivotScan nrows sr get brk 0 0).1 ≠ 0 ∧ sr ≤ (pivotScan nrows sr get brk 0 0).2 ∧
      (pivotScan nrows sr get brk 0 0).2 < nrows ∧
      (pivotScan nrows sr get brk 0 0).1 = get (pivotScan nrows sr get brk 0 0).2 ∧
      (∀ i, sr ≤ i → i < nrows → lsbIdx (pivotScan nrows sr get brk 0 0).1 ≤ lsbIdx (get i)) ∧
      ∀ i, sr ≤ i → i < (pivotScan nrows sr get brk 0 0).2 →
        lsbIdx (pivotScan nrows sr get brk 0 0).1 < lsbIdx (get i)) := by
  unfold pivotScan
  obtain ⟨c1, c2⟩ := pivotScan_go_spec nrows get brk hbrk (nrows - sr) sr 0 0 (by omega)
  generalize pivotScan.go nrows get brk (nrows - sr) sr 0 0 = r at c1 c2 ⊢
  have h0 : lsbIdx (0 : Word) = 64 := (lsbIdx_eq_64_iff 0).mpr rfl
  rcases c2 with c2 | ⟨d1, d2, d3, d4, d5⟩
  · left
    subst c2
    refine ⟨rfl, fun i h1 h2 => ?_⟩
    have := c1 i h1 h2
    have hle := lsbIdx_le (get i)
    exact (lsbIdx_eq_64_iff _).mp (by simp only at this; omega)
  · right
    refine ⟨fun h => ?_, d1, d2, d3, c1, d5⟩
    rw [h] at d4; omega

/-- a word-valued row function that shows the columns `base + lo .. base + hi - 1` of `A` at the bit
    positions `lo .. hi - 1` and zeros elsewhere -/
structure Chunk (A : Mzd) (get : Nat → Word) (base lo hi : Nat) : Prop where
  hhi : hi ≤ 64
  bits : ∀ i p, p < 64 → (get i).getLsbD p = (decide (lo ≤ p ∧ p < hi) && A.bit i (base + p))

/-- result shape of a pivot search over rows `sr .. nrows-1` and columns `c0 .. c1-1`:
    `none` = the region is zero; `some (r, c)` = `c` is the left-most non-zero column of the region and
    `r` the first row of the region with a one in that column -/
def ScanRes (A : Mzd) (nrows sr c0 c1 : Nat) (res : Option (Nat × Nat)) : Prop :=
  match res with
  | none => ∀ i j, sr ≤ i → i < nrows → c0 ≤ j → j < c1 → A.bit i j = false
  | some (r, c) => sr ≤ r ∧ r < nrows ∧ c0 ≤ c ∧ c < c1 ∧ A.bit r c = true ∧
      (∀ i j, sr ≤ i → i < nrows → c0 ≤ j → j < c → A.bit i j = false) ∧
      (∀ i, sr ≤ i → i < r → A.bit i c = false)

theorem ScanRes.append {A : Mzd} {nrows sr c0 c1 c1' c2 : Nat} {res : Option (Nat × Nat)}
    (h1 : ScanRes A nrows sr c0 c1 none) (h2 : ScanRes A nrows sr c1' c2 res)
    (ha : c0 ≤ c1') (hb : c1' ≤ c1) : ScanRes A nrows sr c0 c2 res := by
  unfold ScanRes at h1 h2 ⊢
  match res, h2 with
  | none, h2 =>
    intro i j hi1 hi2 hj1 hj2
    by_cases h : j < c1
    · exact h1 i j hi1 hi2 hj1 h
    · exact h2 i j hi1 hi2 (by omega) hj2
  | some (r, c), ⟨g1, g2, g3, g4, g5, g6, g7⟩ =>
    refine ⟨g1, g2, by omega, g4, g5, fun i j hi1 hi2 hj1 hj2 => ?_, g7⟩
    by_cases h : j < c1
    · exact h1 i j hi1 hi2 hj1 h
    · exact g6 i j hi1 hi2 (by omega) hj2

theorem ScanRes.extend {A : Mzd} {nrows sr c0 c1 c2 : Nat} {rc : Nat × Nat}
    (h1 : ScanRes A nrows sr c0 c1 (some rc)) (h : c1 ≤ c2) : ScanRes A nrows sr c0 c2 (some rc) := by
  obtain ⟨r, c⟩ := rc
  unfold ScanRes at h1 ⊢
  obtain ⟨g1, g2, g3, g4, g5, g6, g7⟩ := h1
  exact ⟨g1, g2, g3, by omega, g5, g6, g7⟩

/-- the early-exit test `GET_BIT(data, lo)` only fires on words whose lowest bit cannot be beaten -/
theorem Chunk.hbrk {A : Mzd} {get : Nat → Word} {base lo hi : Nat} (hc : Chunk A get base lo hi) :
    ∀ i1, (fun d : Word => d.getLsbD lo) (get i1) = true → ∀ i2, lsbIdx (get i1) ≤ lsbIdx (get i2) := by
  intro i1 h1 i2
  simp only at h1
  have hlo : lo < 64 := by
    apply Classical.byContradiction; intro h
    rw [BitVec.getLsbD_of_ge _ _ (by omega)] at h1; exact Bool.false_ne_true h1
  have a1 : lsbIdx (get i1) ≤ lo := by
    apply Classical.byContradiction; intro h
    rw [lsbIdx_low _ lo (by omega)] at h1; exact Bool.false_ne_true h1
  have a2 : lo ≤ lsbIdx (get i2) := by
    rw [le_lsbIdx_iff _ _ (by omega)]
    intro l hl
    rw [hc.bits i2 l (by omega)]
    have : ¬ (lo ≤ l ∧ l < hi) := by omega
    simp [this]
  omega

/-- one row scan over a chunk, as a `ScanRes` over the columns of the chunk -/
theorem Chunk.scan {A : Mzd} {get : Nat → Word} {base lo hi : Nat} (hc : Chunk A get base lo hi)
    (nrows sr : Nat) (brk : Word → Bool)
    (hbrk : ∀ i1, brk (get i1) = true → ∀ i2, lsbIdx (get i1) ≤ lsbIdx (get i2)) :
    ((pivotScan nrows sr get brk 0 0).1 = 0 ∧ ScanRes A nrows sr (base + lo) (base + hi) none) ∨
    ((pivotScan nrows sr get brk 0 0).1 ≠ 0 ∧
      lo ≤ lsbIdx (pivotScan nrows sr get brk 0 0).1 ∧ lsbIdx (pivotScan nrows sr get brk 0 0).1 < hi ∧
      ScanRes A nrows sr (base + lo) (base + hi)
        (some ((pivotScan nrows sr get brk 0 0).2, base + lsbIdx (pivotScan nrows sr get brk 0 0).1))) := by
  have hhi := hc.hhi
  rcases pivotScan_spec nrows sr get brk hbrk with ⟨z1, z2⟩ | ⟨n1, n2, n3, n4, n5, n6⟩
  · left
    refine ⟨z1, ?_⟩
    unfold ScanRes
    intro i j hi1 hi2 hj1 hj2
    have hb := hc.bits i (j - base) (by omega)
    rw [z2 i hi1 hi2] at hb
    have e : base + (j - base) = j := by omega
    have : lo ≤ j - base ∧ j - base < hi := by omega
    rw [e] at hb
    simpa [this] using hb.symm
  · right
    generalize pivotScan nrows sr get brk 0 0 = r at n1 n2 n3 n4 n5 n6 ⊢
    obtain ⟨d, c⟩ := r
    simp only at n1 n2 n3 n4 n5 n6 ⊢
    have hl64 : lsbIdx d < 64 := by
      have := lsbIdx_le d
      have := mt (lsbIdx_eq_64_iff d).mp n1
      omega
    have hbit := lsbIdx_bit d hl64
    have hb := hc.bits c (lsbIdx d) hl64
    rw [← n4, hbit] at hb
    have hrange : lo ≤ lsbIdx d ∧ lsbIdx d < hi := by
      apply Classical.byContradiction; intro h
      simp [h] at hb
    refine ⟨n1, hrange.1, hrange.2, ?_⟩
    unfold ScanRes
    refine ⟨n2, n3, by omega, by omega, ?_, fun i j hi1 hi2 hj1 hj2 => ?_, fun i hi1 hi2 => ?_⟩
    · simpa [hrange] using hb.symm
    · have hb' := hc.bits i (j - base) (by omega)
      rw [lsbIdx_low (get i) (j - base) (by have := n5 i hi1 hi2; omega)] at hb'
      have e : base + (j - base) = j := by omega
      have : lo ≤ j - base ∧ j - base < hi := by omega
      rw [e] at hb'
      simpa [this] using hb'.symm
    · have hb' := hc.bits i (lsbIdx d) hl64
      rw [lsbIdx_low (get i) (lsbIdx d) (n6 i hi1 hi2)] at hb'
      simpa [hrange] using hb'.symm

end Mzd
end M4ri
namespace M4ri
namespace Mzd

/-- `mzd_read_bits` on a row: bit `p` of the result is column `y + p` for `p < n`, zero above -/
theorem readBitsRow_getLsbD_O (r : Row) (y n p : Nat) (hn1 : 1 ≤ n) (hn : n ≤ 64) (hp : p < 64) :
    (readBitsRow r y n).getLsbD p = (decide (p < n) && (r.w ((y + p) / 64)).getLsbD ((y + p) % 64)) := by
  unfold readBitsRow
  simp only
  by_cases hpn : p < n
  · by_cases hs : y % 64 + n ≤ 64
    · rw [if_pos hs, BitVec.getLsbD_ushiftRight, BitVec.getLsbD_shiftLeft]
      have e1 : (y + p) / 64 = y / 64 := by omega
      have e2 : (y + p) % 64 = y % 64 + p := by omega
      have e3 : 64 - n + p - (64 - (y % 64 + n)) = y % 64 + p := by omega
      have h1 : 64 - n + p < 64 := by omega
      have h2 : ¬ 64 - n + p < 64 - (y % 64 + n) := by omega
      rw [e1, e2, e3]
      simp [hpn, h1, h2]
    · rw [if_neg hs, BitVec.getLsbD_ushiftRight, BitVec.getLsbD_or, BitVec.getLsbD_shiftLeft,
        BitVec.getLsbD_ushiftRight]
      have h1 : 64 - n + p < 64 := by omega
      by_cases hsp : y % 64 + p < 64
      · have e1 : (y + p) / 64 = y / 64 := by omega
        have e2 : (y + p) % 64 = y % 64 + p := by omega
        have e3 : y % 64 + n - 64 + (64 - n + p) = y % 64 + p := by omega
        have h2 : 64 - n + p < 64 - (y % 64 + n - 64) := by omega
        rw [e1, e2, e3]
        simp [hpn, h1, h2]
      · have e1 : (y + p) / 64 = y / 64 + 1 := by omega
        have e2 : (y + p) % 64 = y % 64 + p - 64 := by omega
        have e3 : 64 - n + p - (64 - (y % 64 + n - 64)) = y % 64 + p - 64 := by omega
        have h2 : ¬ 64 - n + p < 64 - (y % 64 + n - 64) := by omega
        have h3 : 64 ≤ y % 64 + n - 64 + (64 - n + p) := by omega
        rw [e1, e2, e3, BitVec.getLsbD_of_ge _ _ h3]
        simp [hpn, h1, h2]
  · rw [BitVec.getLsbD_ushiftRight, BitVec.getLsbD_of_ge _ _ (by omega)]
    simp [hpn]

/-- short tail: `mzd_read_bits(A, i, start_col, length)` -/
theorem chunk_readBits (A : Mzd) (sc len : Nat) (h1 : 1 ≤ len) (h2 : len ≤ 64) :
    Chunk A (fun i => A.readBits i sc len) sc 0 len := by
  refine ⟨h2, fun i p hp => ?_⟩
  simp only [readBits]
  rw [readBitsRow_getLsbD_O _ _ _ _ h1 h2 hp, bit_def]
  simp

/-- first word: `row[word_offset] & mask_begin` -/
theorem chunk_first (A : Mzd) (wo bo : Nat) (hbo : bo < 64) :
    Chunk A (fun i => (A.row i).w wo &&& rightMask (64 - bo)) (64 * wo) bo 64 := by
  refine ⟨Nat.le_refl _, fun i p hp => ?_⟩
  rw [BitVec.getLsbD_and, rightMask_getLsbD _ _ (by omega), bit_split A i wo p hp, Bool.and_comm]
  congr 1
  have : 64 - (64 - bo) = bo := by omega
  rw [this]

/-- middle words: `row[wi]` -/
theorem chunk_mid (A : Mzd) (wi : Nat) : Chunk A (fun i => (A.row i).w wi) (64 * wi) 0 64 := by
  refine ⟨Nat.le_refl _, fun i p hp => ?_⟩
  rw [bit_split A i wi p hp]
  simp [hp]

/-- last word: `row[width-1] & mask_end` -/
theorem chunk_last (A : Mzd) (wi eo : Nat) (h1 : 1 ≤ eo) (h2 : eo ≤ 64) :
    Chunk A (fun i => (A.row i).w wi &&& leftMask (eo % 64)) (64 * wi) 0 eo := by
  refine ⟨h2, fun i p hp => ?_⟩
  rw [BitVec.getLsbD_and, bit_split A i wi p hp, Bool.and_comm]
  congr 1
  by_cases h : eo = 64
  · subst h
    have : 64 % 64 = 0 := rfl
    rw [this, leftMask_zero]
    unfold ffff
    rw [BitVec.getLsbD_allOnes]
    simp [hp]
  · have : eo % 64 = eo := by omega
    rw [this, leftMask_getLsbD _ _ h1 h2]
    simp

/-- the column search `for l in 0..len: if GET_BIT(data, l) ...` finds the lowest set bit -/
theorem lowestBit_eq_lsbIdx (d : Word) (len : Nat) (h : lsbIdx d < len) (h64 : lsbIdx d < 64) :
    lowestBit d len = some (lsbIdx d) :=
  lowestBit_eq_some d len _ h (lsbIdx_bit d h64) (lsbIdx_low d)

theorem lowestBit_shift (d : Word) (s len : Nat) (hs : s ≤ lsbIdx d) (h : lsbIdx d < s + len)
    (h64 : lsbIdx d < 64) : lowestBit (d >>> s) len = some (lsbIdx d - s) := by
  apply lowestBit_eq_some _ _ _ (by omega)
  · rw [BitVec.getLsbD_ushiftRight]
    have : s + (lsbIdx d - s) = lsbIdx d := by omega
    rw [this]; exact lsbIdx_bit d h64
  · intro k hk
    rw [BitVec.getLsbD_ushiftRight]
    exact lsbIdx_low d _ (by omega)

end Mzd
end M4ri
namespace M4ri
namespace Mzd

/-- the loop over the complete middle words `wi .. width-2` -/
theorem findPivot_mid_spec (A : Mzd) (sr nrows : Nat) :
    ∀ (fuel wi : Nat), A.width ≤ fuel + wi + 1 →
      (∀ res, findPivot.mid A sr nrows fuel wi = .inl res →
        ∃ rc, res = some rc ∧ ScanRes A nrows sr (64 * wi) (64 * (A.width - 1)) (some rc)) ∧
      (findPivot.mid A sr nrows fuel wi = .inr () → ScanRes A nrows sr (64 * wi) (64 * (A.width - 1)) none) := by
  intro fuel
  induction fuel with
  | zero =>
    intro wi h
    simp only [findPivot.mid]
    refine ⟨fun res hres => (by cases hres), fun _ => ?_⟩
    unfold ScanRes
    intro i j _ _ h1 h2; omega
  | succ fuel ih =>
    intro wi h
    simp only [findPivot.mid]
    by_cases hw : wi + 1 ≥ A.width
    · rw [if_pos hw]
      refine ⟨fun res hres => (by cases hres), fun _ => ?_⟩
      unfold ScanRes
      intro i j _ _ h1 h2; omega
    · rw [if_neg hw]
      have hc := chunk_mid A wi
      rcases hc.scan nrows sr (fun d => d.getLsbD 0) hc.hbrk with ⟨z1, z2⟩ | ⟨n1, n2, n3, n4⟩
      · rw [if_neg (fun h => h z1)]
        obtain ⟨i1, i2⟩ := ih (wi + 1) (by omega)
        refine ⟨fun res hres => ?_, fun hres => ?_⟩
        · obtain ⟨rc, e, hs⟩ := i1 res hres
          exact ⟨rc, e, ScanRes.append z2 hs (by omega) (by omega)⟩
        · exact ScanRes.append z2 (i2 hres) (by omega) (by omega)
      · rw [if_pos n1]
        generalize pivotScan nrows sr (fun i => (A.row i).w wi) (fun d => d.getLsbD 0) 0 0 = P at n1 n2 n3 n4 ⊢
        have hl64 : lsbIdx P.1 < 64 := by omega
        rw [lowestBit_eq_lsbIdx _ _ hl64 hl64]
        refine ⟨fun res hres => ?_, fun hres => by cases hres⟩
        simp only [Option.map_some, Sum.inl.injEq] at hres
        subst hres
        refine ⟨_, rfl, ?_⟩
        have e : wi * 64 + lsbIdx P.1 = 64 * wi + lsbIdx P.1 := by omega
        rw [e]
        exact ScanRes.extend n4 (by omega)

end Mzd
end M4ri
namespace M4ri
namespace Mzd

/-- **`mzd_find_pivot`**, all four code paths: the result is a `ScanRes` for the region
    rows `start_row .. nrows-1`, columns `start_col .. ncols-1`. No precondition is needed in the model
    (reads are total); excess bits are never looked at. -/
theorem findPivot_scanRes (A : Mzd) (sr sc : Nat) :
    ScanRes A A.nrows sr sc A.ncols (A.findPivot sr sc) := by
  unfold findPivot
  simp only []
  by_cases hshort : A.ncols - sc < 64
  · rw [if_pos hshort]
    by_cases hsc : sc ≥ A.ncols
    · rw [if_pos hsc]
      unfold ScanRes
      intro i j _ _ h1 h2; omega
    · rw [if_neg hsc]
      have hlen : min 64 (A.ncols - sc) = A.ncols - sc := by omega
      rw [hlen]
      have hc := chunk_readBits A sc (A.ncols - sc) (by omega) (by omega)
      have hbrk : ∀ i1, (fun _ : Word => false) ((fun i => A.readBits i sc (A.ncols - sc)) i1) = true →
          ∀ i2, lsbIdx ((fun i => A.readBits i sc (A.ncols - sc)) i1) ≤
            lsbIdx ((fun i => A.readBits i sc (A.ncols - sc)) i2) := by
        intro i1 h; exact absurd h Bool.false_ne_true
      have e : sc + (A.ncols - sc) = A.ncols := by omega
      rcases hc.scan A.nrows sr (fun _ => false) hbrk with ⟨z1, z2⟩ | ⟨n1, n2, n3, n4⟩
      · rw [if_neg (fun h => h z1)]
        rw [Nat.add_zero, e] at z2
        exact z2
      · rw [if_pos n1]
        generalize pivotScan A.nrows sr (fun i => A.readBits i sc (A.ncols - sc)) (fun _ => false) 0 0 = P
          at n1 n2 n3 n4 ⊢
        rw [lowestBit_eq_lsbIdx _ _ n3 (by omega)]
        rw [Nat.add_zero, e] at n4
        exact n4
  · rw [if_neg hshort]
    have hbo : sc % 64 < 64 := Nat.mod_lt _ (by omega)
    have hwidth : A.width = (A.ncols + 63) / 64 := rfl
    have hc := chunk_first A (sc / 64) (sc % 64) hbo
    have e1 : 64 * (sc / 64) + sc % 64 = sc := by omega
    rcases hc.scan A.nrows sr (fun d => d.getLsbD (sc % 64)) hc.hbrk with ⟨z1, z2⟩ | ⟨n1, n2, n3, n4⟩
    · rw [if_neg (fun h => h z1)]
      rw [e1] at z2
      obtain ⟨m1, m2⟩ := findPivot_mid_spec A sr A.nrows A.width (sc / 64 + 1) (by omega)
      cases hmid : findPivot.mid A sr A.nrows A.width (sc / 64 + 1) with
      | inl res =>
        simp only
        obtain ⟨rc, e, hs⟩ := m1 res hmid
        subst e
        exact ScanRes.append z2 (ScanRes.extend hs (by omega)) (by omega) (by omega)
      | inr u =>
        simp only
        have z3 := ScanRes.append z2 (m2 hmid) (by omega) (by omega)
        have heo1 : 1 ≤ (if A.ncols % 64 ≠ 0 then A.ncols % 64 else 64) := by split <;> omega
        have heo2 : (if A.ncols % 64 ≠ 0 then A.ncols % 64 else 64) ≤ 64 := by split <;> omega
        have e2 : 64 * (A.width - 1) + (if A.ncols % 64 ≠ 0 then A.ncols % 64 else 64) = A.ncols := by
          split <;> omega
        have hcl := chunk_last A (A.width - 1) _ heo1 heo2
        generalize (if A.ncols % 64 ≠ 0 then A.ncols % 64 else 64) = eo at heo1 heo2 e2 hcl ⊢
        rcases hcl.scan A.nrows sr (fun d => d.getLsbD 0) hcl.hbrk with ⟨y1, y2⟩ | ⟨k1, k2, k3, k4⟩
        · rw [if_neg (fun h => h y1)]
          rw [Nat.add_zero, e2] at y2
          exact ScanRes.append z3 y2 (by omega) (by omega)
        · rw [if_pos k1]
          generalize pivotScan A.nrows sr (fun i => (A.row i).w (A.width - 1) &&& leftMask (eo % 64))
            (fun d => d.getLsbD 0) 0 0 = P at k1 k2 k3 k4 ⊢
          rw [lowestBit_eq_lsbIdx _ _ k3 (by omega)]
          rw [Nat.add_zero, e2] at k4
          simp only [Option.map_some]
          have e3 : (A.width - 1) * 64 + lsbIdx P.1 = 64 * (A.width - 1) + lsbIdx P.1 := by omega
          rw [e3]
          exact ScanRes.append z3 k4 (by omega) (by omega)
    · rw [if_pos n1]
      generalize pivotScan A.nrows sr (fun i => (A.row i).w (sc / 64) &&& rightMask (64 - sc % 64))
        (fun d => d.getLsbD (sc % 64)) 0 0 = P at n1 n2 n3 n4 ⊢
      rw [lowestBit_shift _ _ _ n2 (by omega) n3]
      simp only [Option.map_some]
      have e3 : sc + (lsbIdx P.1 - sc % 64) = 64 * (sc / 64) + lsbIdx P.1 := by omega
      rw [e3]
      rw [e1] at n4
      exact ScanRes.extend n4 (by omega)

end Mzd
end M4ri
namespace M4ri
namespace Mzd

/-- `mzd_find_pivot` returns 0 iff the region `[start_row, nrows) × [start_col, ncols)` is zero -/
theorem findPivot_eq_none_iff (A : Mzd) (sr sc : Nat) :
    A.findPivot sr sc = none ↔
      ∀ i, sr ≤ i → i < A.nrows → ∀ j, sc ≤ j → j < A.ncols → A.bit i j = false := by
  have h := findPivot_scanRes A sr sc
  constructor
  · intro hn
    rw [hn] at h
    unfold ScanRes at h
    exact fun i h1 h2 j h3 h4 => h i j h1 h2 h3 h4
  · intro hz
    cases hres : A.findPivot sr sc with
    | none => rfl
    | some rc =>
      obtain ⟨r, c⟩ := rc
      rw [hres] at h
      unfold ScanRes at h
      obtain ⟨g1, g2, g3, g4, g5, _, _⟩ := h
      rw [hz r g1 g2 c g3 g4] at g5
      exact absurd g5 Bool.false_ne_true

/-- `mzd_find_pivot` returning `(r, c)`: the entry is a one inside the region, `c` is the left-most
    non-zero column of the region, and `r` is the first row of the region with a one in column `c`. -/
theorem findPivot_eq_some (A : Mzd) (sr sc r c : Nat) (h : A.findPivot sr sc = some (r, c)) :
    sr ≤ r ∧ r < A.nrows ∧ sc ≤ c ∧ c < A.ncols ∧ A.bit r c = true ∧
      (∀ i j, sr ≤ i → i < A.nrows → sc ≤ j → j < c → A.bit i j = false) ∧
      (∀ i, sr ≤ i → i < r → A.bit i c = false) := by
  have hs := findPivot_scanRes A sr sc
  rw [h] at hs
  exact hs

/-- the conditions determine the result: full characterisation of the `some` case -/
theorem findPivot_eq_some_iff (A : Mzd) (sr sc r c : Nat) :
    A.findPivot sr sc = some (r, c) ↔
      sr ≤ r ∧ r < A.nrows ∧ sc ≤ c ∧ c < A.ncols ∧ A.bit r c = true ∧
      (∀ i j, sr ≤ i → i < A.nrows → sc ≤ j → j < c → A.bit i j = false) ∧
      (∀ i, sr ≤ i → i < r → A.bit i c = false) := by
  constructor
  · exact findPivot_eq_some A sr sc r c
  · rintro ⟨g1, g2, g3, g4, g5, g6, g7⟩
    cases hres : A.findPivot sr sc with
    | none =>
      have := (findPivot_eq_none_iff A sr sc).mp hres r g1 g2 c g3 g4
      rw [this] at g5; exact absurd g5 Bool.false_ne_true
    | some rc =>
      obtain ⟨r', c'⟩ := rc
      obtain ⟨k1, k2, k3, k4, k5, k6, k7⟩ := findPivot_eq_some A sr sc r' c' hres
      have hc : c' = c := by
        by_cases h1 : c' < c
        · rw [g6 r' c' k1 k2 k3 h1] at k5; exact absurd k5 Bool.false_ne_true
        · by_cases h2 : c < c'
          · rw [k6 r c g1 g2 g3 h2] at g5; exact absurd g5 Bool.false_ne_true
          · omega
      subst hc
      have hr : r' = r := by
        by_cases h1 : r' < r
        · rw [g7 r' k1 h1] at k5; exact absurd k5 Bool.false_ne_true
        · by_cases h2 : r < r'
          · rw [k7 r g1 h2] at g5; exact absurd g5 Bool.false_ne_true
          · omega
      subst hr
      rfl

/-- non-vacuity, one example per code path (3×200 view; the excess bits of the last word are all ones):
    first word with early exit, middle word, last word under `mask_end`, short tail via `mzd_read_bits`,
    and a zero region. -/
def pivEx : Mzd := ⟨3, 200,
  #[#[0x0#64, 0x0#64, 0x10#64, 0xFFFFFFFFFFFFFF00#64],
    #[0x8#64, 0x4#64, 0x0#64,  0xFFFFFFFFFFFFFF20#64],
    #[0x8#64, 0x2#64, 0x0#64,  0xFFFFFFFFFFFFFF40#64]]⟩

example : pivEx.findPivot 0 3 = some (1, 3) := by decide
example : pivEx.findPivot 0 4 = some (2, 65) := by decide
example : pivEx.findPivot 0 133 = some (1, 197) := by decide
example : pivEx.findPivot 2 140 = some (2, 198) := by decide
example : pivEx.findPivot 0 199 = none := by decide

end Mzd
end M4ri
