/-
  W-level specifications of addition and data movement (mzd.c):
  `mzd_init`, `_mzd_add`, `mzd_copy`, `mzd_copy_row`, `mzd_set_ui`, `mzd_stack`, `mzd_concat`,
  `mzd_submatrix`, `mzd_extract_u`, `mzd_extract_l`.
  Standard shape (see RowSwap.lean): one `bit` equation for all `i < nrows`, `j < 64 * width` covering
  entries, excess bits (unchanged) and untouched rows/columns; plus `WF`.
  Hypotheses that the proofs do not need (e.g. `WF` of a matrix that is only read through the total
  accessor `Mzd.bit`) are omitted: the theorems are then stronger than the documented contract.
-/
import M4riProofs.Basic
import M4riProofs.RowSwap
namespace M4ri
namespace Mzd

/-! ### generic infrastructure -/

theorem row_withRows_mapIdx_D (M : Mzd) (f : Nat → Row → Row) (i : Nat) (hi : i < M.rows.size) :
    (M.withRows (M.rows.mapIdx f)).row i = f i (M.row i) := by
  simp [row, Array.getD, hi]

theorem WF_withRows_mapIdx (M : Mzd) (f : Nat → Row → Row) (h : M.WF)
    (hf : ∀ i r, (f i r).size = r.size) : (M.withRows (M.rows.mapIdx f)).WF := by
  refine ⟨by simpa using h.1, ?_⟩
  intro i hi
  simp only [nrows_withRows] at hi
  rw [row_withRows_mapIdx_D _ _ _ (by rw [h.1]; exact hi), hf, width_withRows]
  exact h.2 i hi

/-- inside-the-matrix test for bit `p` of word `j`, in the form the word loops produce it -/
theorem inCols_iff (nc j p : Nat) (hp : p < 64) :
    (j + 1 < widthOf nc ∨ (j + 1 = widthOf nc ∧ (leftMask (nc % 64)).getLsbD p = true)) ↔
      64 * j + p < nc := by
  unfold widthOf
  by_cases h0 : nc % 64 = 0
  · rw [h0, leftMask_zero]
    simp only [ffff, BitVec.getLsbD_allOnes, hp, decide_true, and_true]
    omega
  · rw [leftMask_getLsbD _ _ (by omega) (by omega)]
    simp only [decide_eq_true_eq]
    omega

/-- the word written by the loops "whole words below `width - 1`, last word merged under the mask" -/
theorem copyWord_getLsbD (nc : Nat) (x w : Word) (j p : Nat) (hp : p < 64) :
    (if j + 1 < widthOf nc then x
      else if j + 1 = widthOf nc then merge w x (leftMask (nc % 64)) else w).getLsbD p =
      if 64 * j + p < nc then x.getLsbD p else w.getLsbD p := by
  have key := inCols_iff nc j p hp
  by_cases h1 : j + 1 < widthOf nc
  · have : 64 * j + p < nc := key.mp (Or.inl h1)
    simp [h1, this]
  · by_cases h2 : j + 1 = widthOf nc
    · rw [if_neg h1, if_pos h2, merge_getLsbD]
      by_cases hm : (leftMask (nc % 64)).getLsbD p = true
      · have : 64 * j + p < nc := key.mp (Or.inr ⟨h2, hm⟩)
        simp [hm, this]
      · have : ¬ 64 * j + p < nc := fun h => by
          rcases key.mpr h with h | ⟨_, h⟩
          · exact h1 h
          · exact hm h
        simp [hm, this]
    · have : ¬ 64 * j + p < nc := fun h => by
        rcases key.mpr h with h | ⟨h, _⟩
        · exact h1 h
        · exact h2 h
      simp [h1, h2, this]

theorem copyWord'_getLsbD (nc : Nat) (x w : Word) (j p : Nat) (hp : p < 64) :
    (if j + 1 < widthOf nc then x
      else if j + 1 = widthOf nc then merge' w x (leftMask (nc % 64)) else w).getLsbD p =
      if 64 * j + p < nc then x.getLsbD p else w.getLsbD p := by
  rw [merge'_eq_merge]; exact copyWord_getLsbD nc x w j p hp

theorem div_mod_64 (j : Nat) : 64 * (j / 64) + j % 64 = j := by omega

/-- `WF` is decidable (used for the closed non-vacuity examples) -/
instance instDecidableWF (M : Mzd) : Decidable M.WF := by unfold Mzd.WF; infer_instance

/-! ### 1. `mzd_init` -/

theorem row_zero (r c i : Nat) (hi : i < r) : (zero r c).row i = Array.replicate (widthOf c) 0 := by
  simp [zero, row, Array.getD, hi]

theorem zero_WF (r c : Nat) : (zero r c).WF := by
  refine ⟨by simp [zero], ?_⟩
  intro i hi
  have hi' : i < r := hi
  rw [row_zero r c i hi']
  simp [zero, width]

theorem zero_bit (r c i j : Nat) : (zero r c).bit i j = false := by
  unfold bit Row.w row zero
  by_cases hi : i < r
  · by_cases hj : j / 64 < widthOf c <;> simp [Array.getD, hi, hj]
  · simp [Array.getD, hi]

theorem zero_padZero (r c : Nat) : (zero r c).padZero := fun i j _ _ _ => zero_bit r c i j

@[simp] theorem nrows_zero (r c : Nat) : (zero r c).nrows = r := rfl
@[simp] theorem ncols_zero (r c : Nat) : (zero r c).ncols = c := rfl

example : (zero 3 70).WF ∧ (zero 3 70).padZero := ⟨zero_WF 3 70, zero_padZero 3 70⟩

/-! ### 2. `_mzd_add` -/

theorem addInto_WF (C A B : Mzd) (h : C.WF) : (addInto C A B).WF := by
  unfold addInto
  apply WF_withRows_mapIdx _ _ h
  intro i r; split <;> simp

@[simp] theorem nrows_addInto (C A B : Mzd) : (addInto C A B).nrows = C.nrows := rfl
@[simp] theorem ncols_addInto (C A B : Mzd) : (addInto C A B).ncols = C.ncols := rfl

/-- `_mzd_add(C, A, B)` as the C function is written (rows `< min` of the three row counts; `A` and `C`
    of the same number of columns): entries are the XOR of the entries of `A` and `B`; everything else,
    in particular the excess bits of `C`, is unchanged (and the excess bits of `A`, `B` are irrelevant). -/
theorem addInto_bit_gen (C A B : Mzd) (h : C.WF) (hcA : A.ncols = C.ncols)
    (i j : Nat) (hi : i < C.nrows) (hj : j < 64 * C.width) :
    (addInto C A B).bit i j =
      if i < min A.nrows B.nrows ∧ j < C.ncols then (A.bit i j != B.bit i j) else C.bit i j := by
  have hjw : j / 64 < (C.row i).size := by rw [h.2 i hi]; omega
  have hp : j % 64 < 64 := Nat.mod_lt _ (by omega)
  unfold addInto
  simp only []
  rw [bit_def, row_withRows_mapIdx_D _ _ _ (by rw [h.1]; exact hi)]
  by_cases hmin : i < min A.nrows B.nrows
  · rw [if_pos (by omega), Row.w_mapIdx _ _ _ hjw]
    unfold width hb
    rw [hcA, copyWord_getLsbD _ _ _ _ _ hp, div_mod_64]
    simp [bit_def, hmin]
  · rw [if_neg (by omega)]
    simp [hmin, bit_def]

/-- `_mzd_add(C, A, B)` for equal dimensions (the contract of `mzd_add`): entries are the XOR of the
    entries of `A` and `B`; the excess bits of `C` are unchanged. -/
theorem addInto_bit (C A B : Mzd) (h : C.WF) (hrA : A.nrows = C.nrows) (hrB : B.nrows = C.nrows)
    (hcA : A.ncols = C.ncols) (i j : Nat) (hi : i < C.nrows) (hj : j < 64 * C.width) :
    (addInto C A B).bit i j = if j < C.ncols then (A.bit i j != B.bit i j) else C.bit i j := by
  rw [addInto_bit_gen C A B h hcA i j hi hj]
  have : i < min A.nrows B.nrows := by omega
  simp [this]

/-- non-vacuity: a 1×3 window with non-zero excess bits as destination -/
example : ∃ C A B : Mzd, C.WF ∧ A.nrows = C.nrows ∧ B.nrows = C.nrows ∧ A.ncols = C.ncols ∧
    0 < C.nrows ∧ C.bit 0 4 = true :=
  ⟨⟨1, 3, #[#[0xF0#64]]⟩, ⟨1, 3, #[#[0xF5#64]]⟩, ⟨1, 3, #[#[0x3#64]]⟩, by decide, rfl, rfl, rfl,
    by decide, by decide⟩

/-- aliasing form `C == A` (`mzd_add(A, A, B)`) -/
theorem addInto_self_left (A B : Mzd) (h : A.WF) (hr : B.nrows = A.nrows)
    (i j : Nat) (hi : i < A.nrows) (hj : j < 64 * A.width) :
    (addInto A A B).bit i j = if j < A.ncols then (A.bit i j != B.bit i j) else A.bit i j :=
  addInto_bit A A B h rfl hr rfl i j hi hj

/-- aliasing form `C == B` (`mzd_add(B, A, B)`; the C code swaps the operands, XOR commutes) -/
theorem addInto_self_right (A B : Mzd) (h : B.WF) (hr : A.nrows = B.nrows) (hc : A.ncols = B.ncols)
    (i j : Nat) (hi : i < B.nrows) (hj : j < 64 * B.width) :
    (addInto B A B).bit i j = if j < B.ncols then (A.bit i j != B.bit i j) else B.bit i j :=
  addInto_bit B A B h hr rfl hc i j hi hj

/-- the operand swap of the C code is invisible -/
theorem addInto_comm (C A B : Mzd) (hc : A.ncols = B.ncols) : addInto C A B = addInto C B A := by
  unfold addInto width
  simp only [hc, BitVec.xor_comm, Nat.min_comm]

/-- aliasing form `C == A == B`: all entries become zero, the excess bits stay -/
theorem addInto_self_self (A : Mzd) (h : A.WF)
    (i j : Nat) (hi : i < A.nrows) (hj : j < 64 * A.width) :
    (addInto A A A).bit i j = if j < A.ncols then false else A.bit i j := by
  rw [addInto_bit A A A h rfl rfl rfl i j hi hj]; simp

/-- `mzd_add(NULL, A, B)`: the freshly allocated result has zero padding whatever the excess bits of
    `A` and `B` are -/
theorem addInto_zero_padZero (A B : Mzd) : (addInto (zero A.nrows A.ncols) A B).padZero := by
  intro i j hi hc hj
  simp only [nrows_addInto, ncols_addInto, nrows_zero, ncols_zero] at hi hc
  have hj' : j < 64 * (zero A.nrows A.ncols).width := hj
  have hn : ¬ (i < min A.nrows B.nrows ∧ j < (zero A.nrows A.ncols).ncols) := fun e => by
    have := e.2; rw [ncols_zero] at this; omega
  rw [addInto_bit_gen _ A B (zero_WF _ _) rfl i j hi hj', if_neg hn, zero_bit]

theorem addInto_zero_bit (A B : Mzd) (hr : B.nrows = A.nrows)
    (i j : Nat) (hi : i < A.nrows) (hj : j < 64 * A.width) :
    (addInto (zero A.nrows A.ncols) A B).bit i j =
      if j < A.ncols then (A.bit i j != B.bit i j) else false := by
  rw [addInto_bit _ A B (zero_WF _ _) rfl hr rfl i j hi hj, zero_bit]; rfl

/-! ### 3. `mzd_copy` -/

theorem copyInto_WF (N P : Mzd) (h : N.WF) : (copyInto N P).WF := by
  unfold copyInto
  apply WF_withRows_mapIdx _ _ h
  intro i r; split <;> simp

@[simp] theorem nrows_copyInto (N P : Mzd) : (copyInto N P).nrows = N.nrows := rfl
@[simp] theorem ncols_copyInto (N P : Mzd) : (copyInto N P).ncols = N.ncols := rfl

/-- `mzd_copy(N, P)` into a destination at least as large as `P` (`P.nrows ≤ N.nrows`,
    `P.ncols ≤ N.ncols` are the documented preconditions; the equation holds even without them):
    the `P.nrows × P.ncols` corner is overwritten by the entries of `P`, every other bit of `N` — other
    rows, other columns, excess bits — is unchanged; excess bits of `P` are never copied. -/
theorem copyInto_bit (N P : Mzd) (h : N.WF) (i j : Nat) (hi : i < N.nrows) (hj : j < 64 * N.width) :
    (copyInto N P).bit i j = if i < P.nrows ∧ j < P.ncols then P.bit i j else N.bit i j := by
  have hjw : j / 64 < (N.row i).size := by rw [h.2 i hi]; omega
  have hp : j % 64 < 64 := Nat.mod_lt _ (by omega)
  unfold copyInto
  rw [bit_def, row_withRows_mapIdx_D _ _ _ (by rw [h.1]; exact hi)]
  by_cases hiP : i < P.nrows
  · rw [if_pos hiP, Row.w_mapIdx _ _ _ hjw]
    unfold width hb
    rw [copyWord'_getLsbD _ _ _ _ _ hp, div_mod_64]
    simp [bit_def, hiP]
  · simp [hiP, bit_def]

example : ∃ N P : Mzd, N.WF ∧ P.nrows ≤ N.nrows ∧ P.ncols ≤ N.ncols ∧ 0 < P.nrows ∧ N.bit 0 70 = true :=
  ⟨⟨2, 67, #[#[0x1#64, 0xF1#64], #[0x2#64, 0xF2#64]]⟩, ⟨1, 3, #[#[0xF5#64]]⟩, by decide, by decide,
    by decide, by decide, by decide⟩

theorem copyNew_WF (P : Mzd) : (copyNew P).WF := copyInto_WF _ _ (zero_WF _ _)

@[simp] theorem nrows_copyNew (P : Mzd) : (copyNew P).nrows = P.nrows := rfl
@[simp] theorem ncols_copyNew (P : Mzd) : (copyNew P).ncols = P.ncols := rfl

/-- `mzd_copy(NULL, P)`: the entries of `P`, zero padding — also when `P` is a window whose excess
    bits are not zero. No hypothesis on `P` at all. -/
theorem copyNew_bit (P : Mzd) (i j : Nat) (hi : i < P.nrows) (hj : j < 64 * P.width) :
    (copyNew P).bit i j = if j < P.ncols then P.bit i j else false := by
  unfold copyNew
  rw [copyInto_bit _ P (zero_WF _ _) i j hi hj, zero_bit]
  simp [hi]

theorem copyNew_padZero (P : Mzd) : (copyNew P).padZero := by
  intro i j hi hc hj
  rw [copyNew_bit P i j hi hj, if_neg (by simp at hc; omega)]

example : ∃ P : Mzd, P.WF ∧ 0 < P.nrows ∧ ¬ P.padZero :=
  ⟨⟨1, 3, #[#[0xF5#64]]⟩, by decide, by decide, fun h => by
    have := h 0 4 (by decide) (by decide) (by decide); revert this; decide⟩

/-! ### 4. `mzd_copy_row` -/

theorem copyRow_WF (B : Mzd) (i : Nat) (A : Mzd) (j : Nat) (h : B.WF) (hi : i < B.nrows) :
    (copyRow B i A j).WF := by
  unfold copyRow
  apply WF.setRow h
  rw [Array.size_mapIdx]
  exact h.2 i hi

@[simp] theorem nrows_copyRow (B : Mzd) (i : Nat) (A : Mzd) (j : Nat) : (copyRow B i A j).nrows = B.nrows := rfl
@[simp] theorem ncols_copyRow (B : Mzd) (i : Nat) (A : Mzd) (j : Nat) : (copyRow B i A j).ncols = B.ncols := rfl

theorem width_mono {a b : Nat} (h : a ≤ b) : widthOf a ≤ widthOf b := by unfold widthOf; omega

/-- `mzd_copy_row(B, i, A, j)` for `0 < A.ncols ≤ B.ncols`: row `i` of `B` receives the entries of row
    `j` of `A` in the columns `< A.ncols`; all other bits of `B` (other rows, later columns, excess bits)
    are unchanged.  (`j < A.nrows` is a documented precondition that the equation does not need.) -/
theorem copyRow_bit_of_pos (B : Mzd) (i : Nat) (A : Mzd) (j : Nat) (h : B.WF) (hc : A.ncols ≤ B.ncols)
    (hpos : 0 < A.ncols) (hi : i < B.nrows) (r c : Nat) (hr : r < B.nrows) (hcw : c < 64 * B.width) :
    (copyRow B i A j).bit r c = if r = i ∧ c < A.ncols then A.bit j c else B.bit r c := by
  have hp : c % 64 < 64 := Nat.mod_lt _ (by omega)
  have hAw : 1 ≤ A.width := by unfold width widthOf; omega
  have hmin : min B.width A.width = A.width := Nat.min_eq_right (width_mono hc)
  unfold copyRow
  simp only []
  rw [bit_def, row_setRow _ _ _ _ (by rw [h.1]; exact hi)]
  by_cases hri : i = r
  · subst hri
    rw [if_pos rfl, Row.w_mapIdx _ _ _ (by rw [h.2 i hi]; omega), hmin]
    have e1 : (c / 64 < A.width - 1) = (c / 64 + 1 < A.width) := by apply propext; omega
    have e2 : (c / 64 = A.width - 1) = (c / 64 + 1 = A.width) := by apply propext; omega
    simp only [e1, e2]
    unfold width
    rw [copyWord'_getLsbD _ _ _ _ _ hp, div_mod_64]
    simp [bit_def]
  · have : ¬ r = i := fun e => hri e.symm
    simp [hri, this, bit_def]

/-- The general behaviour of the model, including `A.ncols = 0` (where the C code is undefined: it
    writes `b[-1]`; the model, with truncated subtraction, overwrites word 0 of the row with
    `A`'s (absent, hence zero for a well-formed `A`) word 0).  See `copyRow_counterexample`. -/
theorem copyRow_bit_partial (B : Mzd) (i : Nat) (A : Mzd) (j : Nat) (h : B.WF) (hc : A.ncols ≤ B.ncols)
    (hi : i < B.nrows) (r c : Nat) (hr : r < B.nrows) (hcw : c < 64 * B.width) :
    (copyRow B i A j).bit r c =
      if r = i ∧ (c < A.ncols ∨ (A.ncols = 0 ∧ c < 64)) then A.bit j c else B.bit r c := by
  by_cases hpos : 0 < A.ncols
  · rw [copyRow_bit_of_pos B i A j h hc hpos hi r c hr hcw]
    have : ¬ A.ncols = 0 := by omega
    simp [this]
  · have h0 : A.ncols = 0 := by omega
    have hp : c % 64 < 64 := Nat.mod_lt _ (by omega)
    have hAw : A.width = 0 := by unfold width widthOf; omega
    unfold copyRow
    simp only []
    rw [bit_def, row_setRow _ _ _ _ (by rw [h.1]; exact hi)]
    by_cases hri : i = r
    · subst hri
      rw [if_pos rfl, Row.w_mapIdx _ _ _ (by rw [h.2 i hi]; omega), hAw, h0]
      simp only [Nat.min_zero, Nat.zero_sub, Nat.not_lt_zero, if_false, Nat.zero_mod, leftMask_zero]
      by_cases hc0 : c / 64 = 0
      · have : c < 64 := by omega
        have hf : ffff.getLsbD (c % 64) = true := by
          unfold ffff; rw [BitVec.getLsbD_allOnes]; simp [hp]
        rw [if_pos hc0, merge'_eq_merge, merge_getLsbD, hf]
        simp [this, bit_def, hc0]
      · have : ¬ c < 64 := by omega
        simp [hc0, this, bit_def]
    · have : ¬ r = i := fun e => hri e.symm
      simp [hri, this, bit_def]

/-- with `A.ncols = 0` the model clears word 0 of the destination row instead of leaving it alone -/
theorem copyRow_counterexample :
    (copyRow ⟨1, 3, #[#[0x5#64]]⟩ 0 ⟨1, 0, #[#[]]⟩ 0).bit 0 0 = false ∧
      (⟨1, 3, #[#[0x5#64]]⟩ : Mzd).bit 0 0 = true := by decide

example : ∃ (B A : Mzd) (i j : Nat), B.WF ∧ A.ncols ≤ B.ncols ∧ 0 < A.ncols ∧ i < B.nrows ∧
    j < A.nrows ∧ B.bit i 70 = true :=
  ⟨⟨2, 67, #[#[0x1#64, 0xF1#64], #[0x2#64, 0xF2#64]]⟩, ⟨1, 3, #[#[0xF5#64]]⟩, 1, 0, by decide,
    by decide, by decide, by decide, by decide, by decide⟩

/-! ### `mzd_write_bit` -/

theorem setBit_getLsbD (w : Word) (s p : Nat) (v : Bool) (hs : s < 64) (hp : p < 64) :
    ((w &&& ~~~((1#64) <<< s)) ||| ((if v then 1#64 else 0#64) <<< s)).getLsbD p =
      if p = s then v else w.getLsbD p := by
  by_cases hps : p = s
  · subst hps
    cases v <;> simp [hp]
  · have h1 : ((1#64) <<< s).getLsbD p = false := by
      simp only [BitVec.getLsbD_shiftLeft, BitVec.getLsbD_one]
      by_cases h : p < s <;> simp [h]; omega
    have h2 : ((if v then 1#64 else 0#64) <<< s).getLsbD p = false := by
      cases v
      · simp
      · exact h1
    simp only [BitVec.getLsbD_or, BitVec.getLsbD_and, BitVec.getLsbD_not, h1, h2, hp, hps]
    simp

theorem writeBit_WF_D (M : Mzd) (r c : Nat) (v : Bool) (h : M.WF) (hr : r < M.nrows) :
    (M.writeBit r c v).WF := by
  unfold writeBit writeBitRow
  apply WF.setRow h
  rw [Array.size_modify]
  exact h.2 r hr

@[simp] theorem nrows_writeBit (M : Mzd) (r c : Nat) (v : Bool) : (M.writeBit r c v).nrows = M.nrows := rfl
@[simp] theorem ncols_writeBit (M : Mzd) (r c : Nat) (v : Bool) : (M.writeBit r c v).ncols = M.ncols := rfl
@[simp] theorem width_writeBit (M : Mzd) (r c : Nat) (v : Bool) : (M.writeBit r c v).width = M.width := rfl

/-- `mzd_write_bit(M, r, c, v)` changes exactly the addressed bit -/
theorem writeBit_bit_D (M : Mzd) (r c : Nat) (v : Bool) (h : M.WF) (hr : r < M.nrows)
    (i j : Nat) (hi : i < M.nrows) (hj : j < 64 * M.width) :
    (M.writeBit r c v).bit i j = if i = r ∧ j = c then v else M.bit i j := by
  unfold writeBit writeBitRow
  rw [bit_def, row_setRow _ _ _ _ (by rw [h.1]; exact hr)]
  by_cases hri : r = i
  · subst hri
    rw [if_pos rfl, Row.w_modify _ _ _ _ (by rw [h.2 r hr]; omega)]
    by_cases hw : c / 64 = j / 64
    · rw [if_pos hw, setBit_getLsbD _ _ _ _ (Nat.mod_lt _ (by omega)) (Nat.mod_lt _ (by omega))]
      by_cases hm : j % 64 = c % 64
      · have : j = c := by omega
        simp [this]
      · have : ¬ j = c := fun e => hm (by rw [e])
        simp [hm, this, bit_def]
    · have : ¬ j = c := fun e => hw (by rw [e])
      simp [hw, this, bit_def]
  · have : ¬ i = r := fun e => hri e.symm
    simp [hri, this, bit_def]

/-! ### 5. `mzd_set_ui` -/

theorem and_not_eq_merge (w m : Word) : w &&& ~~~m = merge w 0 m := by
  apply BitVec.eq_of_getLsbD_eq
  intro i hi
  rw [merge_getLsbD]
  simp only [BitVec.getLsbD_and, BitVec.getLsbD_not, hi, decide_true, Bool.true_and]
  cases m.getLsbD i <;> simp

/-- the diagonal-writing loop of `mzd_set_ui` -/
theorem diagFold_spec (M : Mzd) (h : M.WF) (n : Nat) (hn : n ≤ M.nrows) :
    ((List.range n).foldl (fun M i => M.writeBit i i true) M).WF ∧
    ((List.range n).foldl (fun M i => M.writeBit i i true) M).nrows = M.nrows ∧
    ((List.range n).foldl (fun M i => M.writeBit i i true) M).ncols = M.ncols ∧
    ∀ i j, i < M.nrows → j < 64 * M.width →
      ((List.range n).foldl (fun M i => M.writeBit i i true) M).bit i j =
        if i = j ∧ i < n then true else M.bit i j := by
  induction n with
  | zero => simp [h]
  | succ n ih =>
    obtain ⟨ih1, ih2, ih3, ih4⟩ := ih (by omega)
    rw [List.range_succ, List.foldl_append]
    simp only [List.foldl_cons, List.foldl_nil]
    refine ⟨writeBit_WF_D _ _ _ _ ih1 (by omega), by simp [ih2], by simp [ih3], ?_⟩
    intro i j hi hj
    have hw : ((List.range n).foldl (fun M i => M.writeBit i i true) M).width = M.width := by
      unfold width; rw [ih3]
    rw [writeBit_bit_D _ _ _ _ ih1 (by omega) i j (by omega) (by omega), ih4 i j hi hj]
    by_cases hij : i = j
    · subst hij
      by_cases hin : i = n
      · simp [hin]
      · by_cases hlt : i < n
        · have : i < n + 1 := by omega
          simp [hlt, this]
        · have : ¬ i < n + 1 := by omega
          simp [hin, hlt, this]
    · have : ¬ (i = n ∧ j = n) := by omega
      simp [hij, this]

theorem row_withRows_map (M : Mzd) (f : Row → Row) (i : Nat) (hi : i < M.rows.size) :
    (M.withRows (M.rows.map f)).row i = f (M.row i) := by
  simp [row, Array.getD, hi]

/-- the first loop of `mzd_set_ui`: all entries cleared -/
def setUiCleared (A : Mzd) : Mzd :=
  A.withRows (A.rows.map fun r =>
      r.mapIdx fun j w => if j + 1 < A.width then 0 else if j + 1 = A.width then w &&& ~~~A.hb else w)

theorem setUi_eq (A : Mzd) (v : Nat) :
    setUi A v = if v % 2 = 0 then setUiCleared A else
      (List.range (min A.nrows A.ncols)).foldl (fun M i => M.writeBit i i true) (setUiCleared A) := rfl

theorem setUiCleared_WF (A : Mzd) (h : A.WF) : (setUiCleared A).WF := by
  refine ⟨by simpa [setUiCleared] using h.1, ?_⟩
  intro i hi
  have hi' : i < A.nrows := hi
  unfold setUiCleared
  rw [row_withRows_map _ _ _ (by rw [h.1]; exact hi'), Array.size_mapIdx, width_withRows]
  exact h.2 i hi'

theorem setUi_WF (A : Mzd) (v : Nat) (h : A.WF) : (setUi A v).WF := by
  rw [setUi_eq]
  split
  · exact setUiCleared_WF A h
  · exact (diagFold_spec (setUiCleared A) (setUiCleared_WF A h) (min A.nrows A.ncols)
      (Nat.min_le_left A.nrows A.ncols)).1

theorem nrows_setUi (A : Mzd) (v : Nat) (h : A.WF) : (setUi A v).nrows = A.nrows := by
  rw [setUi_eq]
  split
  · rfl
  · exact (diagFold_spec (setUiCleared A) (setUiCleared_WF A h) (min A.nrows A.ncols)
      (Nat.min_le_left A.nrows A.ncols)).2.1

theorem ncols_setUi (A : Mzd) (v : Nat) (h : A.WF) : (setUi A v).ncols = A.ncols := by
  rw [setUi_eq]
  split
  · rfl
  · exact (diagFold_spec (setUiCleared A) (setUiCleared_WF A h) (min A.nrows A.ncols)
      (Nat.min_le_left A.nrows A.ncols)).2.2.1

theorem setUiCleared_bit (A : Mzd) (h : A.WF) (i j : Nat) (hi : i < A.nrows) (hj : j < 64 * A.width) :
    (setUiCleared A).bit i j = if j < A.ncols then false else A.bit i j := by
  have hjw : j / 64 < (A.row i).size := by rw [h.2 i hi]; omega
  have hp : j % 64 < 64 := Nat.mod_lt _ (by omega)
  unfold setUiCleared
  rw [bit_def, row_withRows_map _ _ _ (by rw [h.1]; exact hi), Row.w_mapIdx _ _ _ hjw]
  simp only [and_not_eq_merge]
  unfold width hb
  rw [copyWord_getLsbD _ _ _ _ _ hp, div_mod_64]
  simp [bit_def]

/-- `mzd_set_ui(A, v)`: `A` becomes `v mod 2` times the identity; the excess bits are unchanged. -/
theorem setUi_bit (A : Mzd) (v : Nat) (h : A.WF) (i j : Nat) (hi : i < A.nrows) (hj : j < 64 * A.width) :
    (setUi A v).bit i j = if j < A.ncols then decide (v % 2 = 1 ∧ i = j) else A.bit i j := by
  rw [setUi_eq]
  split
  · rename_i hv
    rw [setUiCleared_bit A h i j hi hj]
    have : ¬ v % 2 = 1 := by omega
    simp [this]
  · rename_i hv
    have hv1 : v % 2 = 1 := by omega
    have key := (diagFold_spec (setUiCleared A) (setUiCleared_WF A h) (min A.nrows A.ncols)
      (Nat.min_le_left A.nrows A.ncols)).2.2.2 i j hi hj
    rw [key, setUiCleared_bit A h i j hi hj]
    by_cases hij : i = j
    · subst hij
      by_cases hc : i < A.ncols
      · have : i < min A.nrows A.ncols := by simp [Nat.lt_min]; omega
        simp [hv1, hc, this]
      · have : ¬ i < min A.nrows A.ncols := by simp [Nat.lt_min]; omega
        simp [hc, this]
    · simp [hij]

example : ∃ A : Mzd, A.WF ∧ 0 < A.nrows ∧ A.bit 0 70 = true :=
  ⟨⟨2, 67, #[#[0x1#64, 0xF1#64], #[0x2#64, 0xF2#64]]⟩, by decide, by decide, by decide⟩

/-! ### 6. `mzd_stack`, `mzd_concat` -/

theorem stackInto_WF (C A B : Mzd) (h : C.WF) : (stackInto C A B).WF := by
  unfold stackInto
  apply WF_withRows_mapIdx _ _ h
  intro i r; split
  · simp
  · split <;> simp

@[simp] theorem nrows_stackInto (C A B : Mzd) : (stackInto C A B).nrows = C.nrows := rfl
@[simp] theorem ncols_stackInto (C A B : Mzd) : (stackInto C A B).ncols = C.ncols := rfl

/-- `mzd_stack(C, A, B)` with the dimensions the C wrapper checks: `A` on top of `B`; the excess bits of
    `C` are unchanged, those of `A` and `B` are not read. -/
theorem stackInto_bit (C A B : Mzd) (h : C.WF) (hr : C.nrows = A.nrows + B.nrows)
    (hcA : C.ncols = A.ncols) (hcB : B.ncols = A.ncols)
    (i j : Nat) (hi : i < C.nrows) (hj : j < 64 * C.width) :
    (stackInto C A B).bit i j =
      if j < C.ncols then (if i < A.nrows then A.bit i j else B.bit (i - A.nrows) j) else C.bit i j := by
  have hjw : j / 64 < (C.row i).size := by rw [h.2 i hi]; omega
  have hp : j % 64 < 64 := Nat.mod_lt _ (by omega)
  unfold stackInto
  rw [bit_def, row_withRows_mapIdx_D _ _ _ (by rw [h.1]; exact hi)]
  unfold width hb
  rw [hcA, hcB]
  by_cases hiA : i < A.nrows
  · rw [if_pos hiA, Row.w_mapIdx _ _ _ hjw, copyWord'_getLsbD _ _ _ _ _ hp, div_mod_64]
    simp [bit_def, hiA]
  · rw [if_neg hiA, if_pos (by omega), Row.w_mapIdx _ _ _ hjw, copyWord'_getLsbD _ _ _ _ _ hp,
      div_mod_64]
    simp [bit_def, hiA]

example : ∃ C A B : Mzd, C.WF ∧ C.nrows = A.nrows + B.nrows ∧ C.ncols = A.ncols ∧ B.ncols = A.ncols ∧
    0 < C.nrows ∧ C.bit 0 4 = true ∧ A.bit 0 4 = true :=
  ⟨⟨2, 3, #[#[0xF0#64], #[0xF1#64]]⟩, ⟨1, 3, #[#[0xF5#64]]⟩, ⟨1, 3, #[#[0x3#64]]⟩, by decide, rfl, rfl,
    rfl, by decide, by decide, by decide⟩

theorem stackNew_WF (A B : Mzd) : (stackNew A B).WF := stackInto_WF _ _ _ (zero_WF _ _)

@[simp] theorem nrows_stackNew (A B : Mzd) : (stackNew A B).nrows = A.nrows + B.nrows := rfl
@[simp] theorem ncols_stackNew (A B : Mzd) : (stackNew A B).ncols = A.ncols := rfl

theorem stackNew_bit (A B : Mzd) (hc : B.ncols = A.ncols)
    (i j : Nat) (hi : i < A.nrows + B.nrows) (hj : j < 64 * A.width) :
    (stackNew A B).bit i j =
      if j < A.ncols then (if i < A.nrows then A.bit i j else B.bit (i - A.nrows) j) else false := by
  unfold stackNew
  rw [stackInto_bit _ A B (zero_WF _ _) rfl rfl hc i j hi hj, zero_bit]; rfl

/-- `mzd_stack(NULL, A, B)` has zero padding whatever the excess bits of `A`, `B` are -/
theorem stackNew_padZero (A B : Mzd) (hc : B.ncols = A.ncols) : (stackNew A B).padZero := by
  intro i j hi hcj hj
  rw [stackNew_bit A B hc i j hi hj, if_neg (by simp at hcj; omega)]

/-- writing a run of bits of one row with `mzd_write_bit` (inner loop of `mzd_concat`) -/
theorem writeRowFold_spec (M : Mzd) (h : M.WF) (g : Nat → Bool) (i off n : Nat) (hi : i < M.nrows) :
    ((List.range n).foldl (fun M j => M.writeBit i (j + off) (g j)) M).WF ∧
    ((List.range n).foldl (fun M j => M.writeBit i (j + off) (g j)) M).nrows = M.nrows ∧
    ((List.range n).foldl (fun M j => M.writeBit i (j + off) (g j)) M).ncols = M.ncols ∧
    ∀ r c, r < M.nrows → c < 64 * M.width →
      ((List.range n).foldl (fun M j => M.writeBit i (j + off) (g j)) M).bit r c =
        if r = i ∧ off ≤ c ∧ c < off + n then g (c - off) else M.bit r c := by
  induction n with
  | zero =>
    refine ⟨by simpa using h, by simp, by simp, ?_⟩
    intro r c _ _
    have : ¬ (r = i ∧ off ≤ c ∧ c < off + 0) := by omega
    rw [if_neg this]; rfl
  | succ n ih =>
    obtain ⟨ih1, ih2, ih3, ih4⟩ := ih
    rw [List.range_succ, List.foldl_append]
    simp only [List.foldl_cons, List.foldl_nil]
    refine ⟨writeBit_WF_D _ _ _ _ ih1 (by omega), by simp [ih2], by simp [ih3], ?_⟩
    intro r c hr hc
    have hw : ((List.range n).foldl (fun M j => M.writeBit i (j + off) (g j)) M).width = M.width := by
      unfold width; rw [ih3]
    rw [writeBit_bit_D _ _ _ _ ih1 (by omega) r c (by omega) (by omega), ih4 r c hr hc]
    by_cases h1 : r = i ∧ c = n + off
    · obtain ⟨h1a, h1b⟩ := h1
      subst h1a h1b
      have e : n + off - off = n := by omega
      have : off ≤ n + off ∧ n + off < off + (n + 1) := by omega
      simp [e, this]
    · rw [if_neg h1]
      by_cases h2 : r = i ∧ off ≤ c ∧ c < off + n
      · have : r = i ∧ off ≤ c ∧ c < off + (n + 1) := by omega
        rw [if_pos h2, if_pos this]
      · have : ¬ (r = i ∧ off ≤ c ∧ c < off + (n + 1)) := by omega
        rw [if_neg h2, if_neg this]

/-- the double loop of `mzd_concat` -/
theorem writeBlockFold_spec (M : Mzd) (h : M.WF) (g : Nat → Nat → Bool) (off m n : Nat) (hn : n ≤ M.nrows) :
    ((List.range n).foldl (fun M i =>
        (List.range m).foldl (fun M j => M.writeBit i (j + off) (g i j)) M) M).WF ∧
    ((List.range n).foldl (fun M i =>
        (List.range m).foldl (fun M j => M.writeBit i (j + off) (g i j)) M) M).nrows = M.nrows ∧
    ((List.range n).foldl (fun M i =>
        (List.range m).foldl (fun M j => M.writeBit i (j + off) (g i j)) M) M).ncols = M.ncols ∧
    ∀ r c, r < M.nrows → c < 64 * M.width →
      ((List.range n).foldl (fun M i =>
        (List.range m).foldl (fun M j => M.writeBit i (j + off) (g i j)) M) M).bit r c =
        if r < n ∧ off ≤ c ∧ c < off + m then g r (c - off) else M.bit r c := by
  induction n with
  | zero => simp [h]
  | succ n ih =>
    obtain ⟨ih1, ih2, ih3, ih4⟩ := ih (by omega)
    rw [List.range_succ, List.foldl_append]
    simp only [List.foldl_cons, List.foldl_nil]
    obtain ⟨k1, k2, k3, k4⟩ := writeRowFold_spec _ ih1 (g n) n off m (by omega)
    refine ⟨k1, by rw [k2, ih2], by rw [k3, ih3], ?_⟩
    intro r c hr hc
    have hw : ((List.range n).foldl (fun M i =>
        (List.range m).foldl (fun M j => M.writeBit i (j + off) (g i j)) M) M).width = M.width := by
      unfold width; rw [ih3]
    rw [k4 r c (by omega) (by omega), ih4 r c hr hc]
    by_cases h1 : r = n ∧ off ≤ c ∧ c < off + m
    · have : r < n + 1 ∧ off ≤ c ∧ c < off + m := by omega
      rw [if_pos h1, if_pos this, h1.1]
    · rw [if_neg h1]
      by_cases h2 : r < n ∧ off ≤ c ∧ c < off + m
      · have : r < n + 1 ∧ off ≤ c ∧ c < off + m := by omega
        rw [if_pos h2, if_pos this]
      · have : ¬ (r < n + 1 ∧ off ≤ c ∧ c < off + m) := by omega
        rw [if_neg h2, if_neg this]

theorem concatInto_eq (C A B : Mzd) :
    concatInto C A B = (List.range B.nrows).foldl (fun M i =>
      (List.range B.ncols).foldl (fun M j => M.writeBit i (j + A.ncols) (B.bit i j)) M) (copyInto C A) := rfl

theorem concatInto_WF (C A B : Mzd) (h : C.WF) (hrB : B.nrows = C.nrows) : (concatInto C A B).WF := by
  rw [concatInto_eq]
  exact (writeBlockFold_spec (copyInto C A) (copyInto_WF C A h) B.bit A.ncols B.ncols B.nrows
    (by rw [hrB]; exact Nat.le_refl _)).1

theorem nrows_concatInto (C A B : Mzd) (h : C.WF) (hrB : B.nrows = C.nrows) :
    (concatInto C A B).nrows = C.nrows := by
  rw [concatInto_eq]
  exact (writeBlockFold_spec (copyInto C A) (copyInto_WF C A h) B.bit A.ncols B.ncols B.nrows
    (by rw [hrB]; exact Nat.le_refl _)).2.1

theorem ncols_concatInto (C A B : Mzd) (h : C.WF) (hrB : B.nrows = C.nrows) :
    (concatInto C A B).ncols = C.ncols := by
  rw [concatInto_eq]
  exact (writeBlockFold_spec (copyInto C A) (copyInto_WF C A h) B.bit A.ncols B.ncols B.nrows
    (by rw [hrB]; exact Nat.le_refl _)).2.2.1

/-- `mzd_concat(C, A, B)` with the dimensions the C wrapper checks: `A` to the left of `B`; the excess
    bits of `C` are unchanged, those of `A` and `B` are not read. -/
theorem concatInto_bit (C A B : Mzd) (h : C.WF) (hrA : A.nrows = C.nrows) (hrB : B.nrows = C.nrows)
    (hc : C.ncols = A.ncols + B.ncols) (i j : Nat) (hi : i < C.nrows) (hj : j < 64 * C.width) :
    (concatInto C A B).bit i j =
      if j < A.ncols then A.bit i j else if j < C.ncols then B.bit i (j - A.ncols) else C.bit i j := by
  rw [concatInto_eq]
  have key := (writeBlockFold_spec (copyInto C A) (copyInto_WF C A h) B.bit A.ncols B.ncols B.nrows
    (by rw [hrB]; exact Nat.le_refl _)).2.2.2 i j hi hj
  rw [key, copyInto_bit C A h i j hi hj]
  by_cases h1 : j < A.ncols
  · have : ¬ (i < B.nrows ∧ A.ncols ≤ j ∧ j < A.ncols + B.ncols) := by omega
    have h2 : i < A.nrows ∧ j < A.ncols := by omega
    rw [if_neg this, if_pos h2, if_pos h1]
  · rw [if_neg h1]
    by_cases h2 : j < C.ncols
    · have : i < B.nrows ∧ A.ncols ≤ j ∧ j < A.ncols + B.ncols := by omega
      rw [if_pos this, if_pos h2]
    · have : ¬ (i < B.nrows ∧ A.ncols ≤ j ∧ j < A.ncols + B.ncols) := by omega
      have h3 : ¬ (i < A.nrows ∧ j < A.ncols) := by omega
      rw [if_neg this, if_neg h2, if_neg h3]

example : ∃ C A B : Mzd, C.WF ∧ A.nrows = C.nrows ∧ B.nrows = C.nrows ∧ C.ncols = A.ncols + B.ncols ∧
    0 < C.nrows ∧ C.bit 0 7 = true ∧ A.bit 0 4 = true :=
  ⟨⟨1, 5, #[#[0xF0#64]]⟩, ⟨1, 3, #[#[0xF5#64]]⟩, ⟨1, 2, #[#[0x7#64]]⟩, by decide, rfl, rfl,
    rfl, by decide, by decide, by decide⟩

theorem concatNew_WF (A B : Mzd) (hr : B.nrows = A.nrows) : (concatNew A B).WF :=
  concatInto_WF _ _ _ (zero_WF _ _) hr

theorem nrows_concatNew (A B : Mzd) (hr : B.nrows = A.nrows) : (concatNew A B).nrows = A.nrows :=
  nrows_concatInto _ _ _ (zero_WF _ _) hr

theorem ncols_concatNew (A B : Mzd) (hr : B.nrows = A.nrows) :
    (concatNew A B).ncols = A.ncols + B.ncols :=
  ncols_concatInto _ _ _ (zero_WF _ _) hr

theorem concatNew_bit (A B : Mzd) (hr : B.nrows = A.nrows)
    (i j : Nat) (hi : i < A.nrows) (hj : j < 64 * widthOf (A.ncols + B.ncols)) :
    (concatNew A B).bit i j =
      if j < A.ncols then A.bit i j else if j < A.ncols + B.ncols then B.bit i (j - A.ncols) else false := by
  unfold concatNew
  rw [concatInto_bit _ A B (zero_WF _ _) rfl hr rfl i j hi hj, zero_bit]; rfl

/-- `mzd_concat(NULL, A, B)` has zero padding whatever the excess bits of `A`, `B` are -/
theorem concatNew_padZero (A B : Mzd) (hr : B.nrows = A.nrows) : (concatNew A B).padZero := by
  intro i j hi hcj hj
  rw [nrows_concatNew A B hr] at hi
  rw [ncols_concatNew A B hr] at hcj
  have hj' : j < 64 * widthOf (A.ncols + B.ncols) := by
    have : (concatNew A B).width = widthOf (A.ncols + B.ncols) := by
      unfold width; rw [ncols_concatNew A B hr]
    rw [this] at hj; exact hj
  rw [concatNew_bit A B hr i j hi hj', if_neg (by omega), if_neg (by omega)]

/-! ### `mzd_read_bits` -/

/-- `mzd_read_bits`: bit `k` of the result is bit `y + k` of the row for `k < n`, zero above -/
theorem readBitsRow_getLsbD_D (r : Row) (y n k : Nat) (hn : 1 ≤ n) (hn' : n ≤ 64) :
    (readBitsRow r y n).getLsbD k =
      (decide (k < n) && (r.w ((y + k) / 64)).getLsbD ((y + k) % 64)) := by
  unfold readBitsRow
  simp only []
  by_cases hk : k < n
  · by_cases hs : y % 64 + n ≤ 64
    · rw [if_pos hs]
      simp only [BitVec.getLsbD_ushiftRight, BitVec.getLsbD_shiftLeft]
      have e1 : (y + k) / 64 = y / 64 := by omega
      have e2 : (y + k) % 64 = y % 64 + k := by omega
      have e3 : 64 - n + k - (64 - (y % 64 + n)) = y % 64 + k := by omega
      have e4 : 64 - n + k < 64 := by omega
      have e5 : ¬ 64 - n + k < 64 - (y % 64 + n) := by omega
      rw [e1, e2, e3]
      simp [hk, e4, e5]
    · rw [if_neg hs]
      simp only [BitVec.getLsbD_ushiftRight, BitVec.getLsbD_shiftLeft, BitVec.getLsbD_or]
      have e4 : 64 - n + k < 64 := by omega
      by_cases hlo : y % 64 + k < 64
      · have e1 : (y + k) / 64 = y / 64 := by omega
        have e2 : (y + k) % 64 = y % 64 + k := by omega
        have e3 : y % 64 + n - 64 + (64 - n + k) = y % 64 + k := by omega
        have e5 : 64 - n + k < 64 - (y % 64 + n - 64) := by omega
        rw [e1, e2, e3]
        simp [hk, e4, e5]
      · have e1 : (y + k) / 64 = y / 64 + 1 := by omega
        have e2 : (y + k) % 64 = y % 64 + k - 64 := by omega
        have e3 : y % 64 + n - 64 + (64 - n + k) = y % 64 + k := by omega
        have e5 : ¬ 64 - n + k < 64 - (y % 64 + n - 64) := by omega
        have e6 : 64 - n + k - (64 - (y % 64 + n - 64)) = y % 64 + k - 64 := by omega
        have e7 : (r.w (y / 64)).getLsbD (y % 64 + k) = false := by
          apply BitVec.getLsbD_of_ge; omega
        rw [e1, e2, e3, e6, e7]
        simp [hk, e4, e5]
  · have : (64 - n + k) ≥ 64 := by omega
    simp only [BitVec.getLsbD_ushiftRight]
    rw [BitVec.getLsbD_of_ge _ _ this]
    simp [hk]

theorem readBits_getLsbD_D (M : Mzd) (x y n k : Nat) (hn : 1 ≤ n) (hn' : n ≤ 64) :
    (M.readBits x y n).getLsbD k = (decide (k < n) && M.bit x (y + k)) :=
  readBitsRow_getLsbD_D (M.row x) y n k hn hn'

/-! ### 7. `mzd_submatrix` -/

theorem submatrixInto_WF (S M : Mzd) (lr lc hr hc : Nat) (h : S.WF) :
    (submatrixInto S M lr lc hr hc).WF := by
  unfold submatrixInto
  simp only []
  split
  · apply WF_withRows_mapIdx _ _ h
    intro i r; split <;> simp
  · apply WF_withRows_mapIdx _ _ h
    intro i r; split <;> simp

@[simp] theorem nrows_submatrixInto (S M : Mzd) (lr lc hr hc : Nat) :
    (submatrixInto S M lr lc hr hc).nrows = S.nrows := by
  unfold submatrixInto; simp only []; split <;> rfl

@[simp] theorem ncols_submatrixInto (S M : Mzd) (lr lc hr hc : Nat) :
    (submatrixInto S M lr lc hr hc).ncols = S.ncols := by
  unfold submatrixInto; simp only []; split <;> rfl

/-- aligned path (`startcol % 64 = 0`) -/
theorem submatrixInto_bit_aligned (S M : Mzd) (lr lc hr hc : Nat) (h : S.WF)
    (hnr : S.nrows = hr - lr) (hnc : S.ncols = hc - lc) (hal : lc % 64 = 0)
    (i j : Nat) (hi : i < S.nrows) (hj : j < 64 * S.width) :
    (submatrixInto S M lr lc hr hc).bit i j =
      if j < S.ncols then M.bit (lr + i) (lc + j) else S.bit i j := by
  have hjw : j / 64 < (S.row i).size := by rw [h.2 i hi]; omega
  have hp : j % 64 < 64 := Nat.mod_lt _ (by omega)
  unfold submatrixInto
  simp only []
  rw [if_pos hal, bit_def, row_withRows_mapIdx_D _ _ _ (by rw [h.1]; exact hi), if_pos (by omega),
    Row.w_mapIdx _ _ _ hjw, ← hnc]
  have e1 : (lc + j) / 64 = lc / 64 + j / 64 := by omega
  have e2 : (lc + j) % 64 = j % 64 := by omega
  by_cases h1 : j / 64 < S.ncols / 64
  · have : j < S.ncols := by omega
    rw [if_pos h1, if_pos this, bit_def, e1, e2]
  · rw [if_neg h1]
    by_cases h2 : j / 64 = S.ncols / 64 ∧ S.ncols % 64 ≠ 0
    · rw [if_pos h2]
      have hm := merge'_eq_merge ((S.row i).w (j / 64)) ((M.row (lr + i)).w (lc / 64 + j / 64))
        (leftMask (S.ncols % 64))
      unfold merge' at hm
      rw [hm, merge_getLsbD, leftMask_getLsbD _ _ (by omega) (by omega)]
      by_cases h3 : j % 64 < S.ncols % 64
      · have : j < S.ncols := by omega
        simp [h3, this, bit_def, e1, e2]
      · have : ¬ j < S.ncols := by omega
        simp [h3, this, bit_def]
    · have : ¬ j < S.ncols := by omega
      rw [if_neg h2, if_neg this, bit_def]

/-- unaligned path (`startcol % 64 ≠ 0`), through `mzd_read_bits` -/
theorem submatrixInto_bit_unaligned (S M : Mzd) (lr lc hr hc : Nat) (h : S.WF)
    (hnr : S.nrows = hr - lr) (hnc : S.ncols = hc - lc) (hal : ¬ lc % 64 = 0)
    (i j : Nat) (hi : i < S.nrows) (hj : j < 64 * S.width) :
    (submatrixInto S M lr lc hr hc).bit i j =
      if j < S.ncols then M.bit (lr + i) (lc + j) else S.bit i j := by
  have hjw : j / 64 < (S.row i).size := by rw [h.2 i hi]; omega
  have hp : j % 64 < 64 := Nat.mod_lt _ (by omega)
  have hpos : 0 < S.ncols := by unfold width widthOf at hj; omega
  have hwd : S.width = (S.ncols - 1) / 64 + 1 := by unfold width widthOf; omega
  unfold submatrixInto
  simp only []
  rw [if_neg hal, bit_def, row_withRows_mapIdx_D _ _ _ (by rw [h.1]; exact hi), if_pos (by omega),
    Row.w_mapIdx _ _ _ hjw, ← hnc]
  have e0 : lc + 64 * (j / 64) + j % 64 = lc + j := by omega
  by_cases h1 : j / 64 < (S.ncols - 1) / 64
  · have : j < S.ncols := by omega
    rw [if_pos h1, if_pos this, readBitsRow_getLsbD_D _ _ _ _ (by omega) (by omega), e0, bit_def]
    simp [hp]
  · have h2 : j / 64 = (S.ncols - 1) / 64 := by omega
    rw [if_neg h1, if_pos h2]
    have hm := merge'_eq_merge ((S.row i).w (j / 64))
      (readBitsRow (M.row (lr + i)) (lc + 64 * (j / 64)) (S.ncols - 64 * (j / 64))) S.hb
    unfold merge' at hm
    rw [hm, merge_getLsbD, hb_getLsbD S _ hp hpos,
      readBitsRow_getLsbD_D _ _ _ _ (by omega) (by omega), e0]
    have e3 : 64 * (S.width - 1) + j % 64 = j := by omega
    rw [e3]
    by_cases h3 : j < S.ncols
    · have : j % 64 < S.ncols - 64 * (j / 64) := by omega
      simp [h3, this, bit_def]
    · simp [h3, bit_def]

/-- `mzd_submatrix(S, M, lr, lc, hr, hc)` into an `S` of exactly `(hr - lr) × (hc - lc)`:
    `S[i, j] = M[lr + i, lc + j]`; the excess bits of `S` are unchanged.
    (The documented `lr ≤ hr ≤ M.nrows`, `lc < hc ≤ M.ncols` and `M.WF` are not needed by the
    equation: `Mzd.bit` is total.) -/
theorem submatrixInto_bit (S M : Mzd) (lr lc hr hc : Nat) (h : S.WF)
    (hnr : S.nrows = hr - lr) (hnc : S.ncols = hc - lc)
    (i j : Nat) (hi : i < S.nrows) (hj : j < 64 * S.width) :
    (submatrixInto S M lr lc hr hc).bit i j =
      if j < S.ncols then M.bit (lr + i) (lc + j) else S.bit i j := by
  by_cases hal : lc % 64 = 0
  · exact submatrixInto_bit_aligned S M lr lc hr hc h hnr hnc hal i j hi hj
  · exact submatrixInto_bit_unaligned S M lr lc hr hc h hnr hnc hal i j hi hj

/-- non-vacuity, unaligned: a 1×3 window `S` with excess bits set, columns 3..6 of a 1×70 matrix -/
example : ∃ (S M : Mzd) (lr lc hr hc : Nat), S.WF ∧ M.WF ∧ S.nrows = hr - lr ∧ S.ncols = hc - lc ∧
    lr ≤ hr ∧ hr ≤ M.nrows ∧ lc < hc ∧ hc ≤ M.ncols ∧ lc % 64 ≠ 0 ∧ 0 < S.nrows ∧ S.bit 0 4 = true :=
  ⟨⟨1, 3, #[#[0xF0#64]]⟩, ⟨1, 70, #[#[0xFF#64, 0x3F#64]]⟩, 0, 3, 1, 6, by decide, by decide, by decide,
    by decide, by decide, by decide, by decide, by decide, by decide, by decide, by decide⟩

/-- non-vacuity, aligned -/
example : ∃ (S M : Mzd) (lr lc hr hc : Nat), S.WF ∧ M.WF ∧ S.nrows = hr - lr ∧ S.ncols = hc - lc ∧
    lr ≤ hr ∧ hr ≤ M.nrows ∧ lc < hc ∧ hc ≤ M.ncols ∧ lc % 64 = 0 ∧ 0 < S.nrows ∧ S.bit 0 4 = true :=
  ⟨⟨1, 3, #[#[0xF0#64]]⟩, ⟨1, 70, #[#[0xFF#64, 0x3F#64]]⟩, 0, 64, 1, 67, by decide, by decide,
    by decide, by decide, by decide, by decide, by decide, by decide, by decide, by decide, by decide⟩

theorem submatrixNew_WF (M : Mzd) (lr lc hr hc : Nat) : (submatrixNew M lr lc hr hc).WF :=
  submatrixInto_WF _ _ _ _ _ _ (zero_WF _ _)

@[simp] theorem nrows_submatrixNew (M : Mzd) (lr lc hr hc : Nat) :
    (submatrixNew M lr lc hr hc).nrows = hr - lr := by unfold submatrixNew; simp

@[simp] theorem ncols_submatrixNew (M : Mzd) (lr lc hr hc : Nat) :
    (submatrixNew M lr lc hr hc).ncols = hc - lc := by unfold submatrixNew; simp

theorem submatrixNew_bit (M : Mzd) (lr lc hr hc : Nat)
    (i j : Nat) (hi : i < hr - lr) (hj : j < 64 * widthOf (hc - lc)) :
    (submatrixNew M lr lc hr hc).bit i j =
      if j < hc - lc then M.bit (lr + i) (lc + j) else false := by
  unfold submatrixNew
  rw [submatrixInto_bit _ M lr lc hr hc (zero_WF _ _) rfl rfl i j hi hj, zero_bit]; rfl

/-- `mzd_submatrix(NULL, M, …)` has zero padding whatever lies to the right of the block in `M` -/
theorem submatrixNew_padZero (M : Mzd) (lr lc hr hc : Nat) : (submatrixNew M lr lc hr hc).padZero := by
  intro i j hi hcj hj
  simp only [nrows_submatrixNew, ncols_submatrixNew] at hi hcj
  have hj' : j < 64 * widthOf (hc - lc) := by
    have : (submatrixNew M lr lc hr hc).width = widthOf (hc - lc) := by
      unfold width; rw [ncols_submatrixNew]
    rw [this] at hj; exact hj
  rw [submatrixNew_bit M lr lc hr hc i j hi hj', if_neg (by omega)]

/-! ### `mzd_clear_bits` -/

theorem lowMask_getLsbD (n k : Nat) (hn : n ≤ 64) : (ffff >>> (64 - n)).getLsbD k = decide (k < n) := by
  unfold ffff
  simp only [BitVec.getLsbD_ushiftRight, BitVec.getLsbD_allOnes]
  by_cases h : k < n <;> simp [h] <;> omega

theorem size_clearBitsRow (r : Row) (y n : Nat) : (clearBitsRow r y n).size = r.size := by
  unfold clearBitsRow
  simp only []
  split <;> simp

/-- `mzd_clear_bits` on one row: exactly the bits `y ≤ · < y + n` are cleared -/
theorem clearBitsRow_getLsbD (r : Row) (y n q p : Nat) (hn' : n ≤ 64) (hq : q < r.size) (hp : p < 64) :
    (Row.w (clearBitsRow r y n) q).getLsbD p =
      (!decide (y ≤ 64 * q + p ∧ 64 * q + p < y + n) && (r.w q).getLsbD p) := by
  unfold clearBitsRow
  simp only []
  have hA : ∀ w : Word, (w &&& ~~~((ffff >>> (64 - n)) <<< (y % 64))).getLsbD p =
      (!decide (y % 64 ≤ p ∧ p - y % 64 < n) && w.getLsbD p) := by
    intro w
    simp only [BitVec.getLsbD_and, BitVec.getLsbD_not, BitVec.getLsbD_shiftLeft, lowMask_getLsbD _ _ hn']
    by_cases h1 : p < y % 64 <;> by_cases h2 : p - y % 64 < n <;> simp [hp, h1, h2] <;> omega
  have hB : ∀ w : Word, (w &&& ~~~((ffff >>> (64 - n)) >>> (64 - y % 64))).getLsbD p =
      (!decide (64 - y % 64 + p < n) && w.getLsbD p) := by
    intro w
    simp only [BitVec.getLsbD_and, BitVec.getLsbD_not, BitVec.getLsbD_ushiftRight, lowMask_getLsbD _ _ hn']
    simp [hp, Bool.and_comm]
  by_cases hs : n > 64 - y % 64
  · rw [if_pos hs, Row.w_modify _ _ _ _ (by simpa using hq), Row.w_modify _ _ _ _ hq]
    by_cases h1 : y / 64 + 1 = q
    · have h2 : ¬ y / 64 = q := by omega
      rw [if_pos h1, if_neg h2, hB]
      congr 2
      rw [decide_eq_decide]; omega
    · rw [if_neg h1]
      by_cases h2 : y / 64 = q
      · rw [if_pos h2, hA]
        congr 2
        rw [decide_eq_decide]; omega
      · rw [if_neg h2]
        have : ¬ (y ≤ 64 * q + p ∧ 64 * q + p < y + n) := by omega
        simp [this]
  · rw [if_neg hs, Row.w_modify _ _ _ _ hq]
    by_cases h2 : y / 64 = q
    · rw [if_pos h2, hA]
      congr 2
      rw [decide_eq_decide]; omega
    · rw [if_neg h2]
      have : ¬ (y ≤ 64 * q + p ∧ 64 * q + p < y + n) := by omega
      simp [this]

theorem clearBits_WF_D (M : Mzd) (x y n : Nat) (h : M.WF) (hx : x < M.nrows) : (M.clearBits x y n).WF := by
  unfold clearBits
  apply WF.setRow h
  rw [size_clearBitsRow]
  exact h.2 x hx

/-- `mzd_clear_bits(M, x, y, n)`, `n ≤ 64`: exactly the bits `y ≤ · < y + n` of row `x` are cleared -/
theorem clearBits_bit_D (M : Mzd) (x y n : Nat) (h : M.WF) (hx : x < M.nrows) (hn' : n ≤ 64)
    (i j : Nat) (hi : i < M.nrows) (hj : j < 64 * M.width) :
    (M.clearBits x y n).bit i j = if i = x ∧ y ≤ j ∧ j < y + n then false else M.bit i j := by
  unfold clearBits
  rw [bit_def, row_setRow _ _ _ _ (by rw [h.1]; exact hx)]
  by_cases hxi : x = i
  · subst hxi
    rw [if_pos rfl, clearBitsRow_getLsbD _ _ _ _ _ hn' (by rw [h.2 x hx]; omega) (Nat.mod_lt _ (by omega)),
      div_mod_64]
    by_cases hc : y ≤ j ∧ j < y + n
    · simp [hc]
    · have : ¬ (x = x ∧ y ≤ j ∧ j < y + n) := fun e => hc e.2
      rw [if_neg this]
      simp [hc, bit_def]
  · have : ¬ (i = x ∧ y ≤ j ∧ j < y + n) := fun e => hxi e.1.symm
    rw [if_neg hxi, if_neg this, bit_def]

/-- a loop over the rows `0 .. n-1` whose `i`-th step rewrites only row `i`, bit by bit -/
theorem rowFold_spec (f : Mzd → Nat → Mzd) (nr nc : Nat) (g : Nat → Nat → Bool → Bool)
    (hf : ∀ (M : Mzd) (i : Nat), M.WF → M.nrows = nr → M.ncols = nc → i < nr →
      (f M i).WF ∧ (f M i).nrows = nr ∧ (f M i).ncols = nc ∧
      ∀ r c, r < nr → c < 64 * widthOf nc →
        (f M i).bit r c = if r = i then g r c (M.bit r c) else M.bit r c)
    (M : Mzd) (h : M.WF) (h1 : M.nrows = nr) (h2 : M.ncols = nc) (n : Nat) (hn : n ≤ nr) :
    ((List.range n).foldl f M).WF ∧ ((List.range n).foldl f M).nrows = nr ∧
    ((List.range n).foldl f M).ncols = nc ∧
    ∀ r c, r < nr → c < 64 * widthOf nc →
      ((List.range n).foldl f M).bit r c = if r < n then g r c (M.bit r c) else M.bit r c := by
  induction n with
  | zero => simp [h, h1, h2]
  | succ n ih =>
    obtain ⟨ih1, ih2, ih3, ih4⟩ := ih (by omega)
    rw [List.range_succ, List.foldl_append]
    simp only [List.foldl_cons, List.foldl_nil]
    obtain ⟨k1, k2, k3, k4⟩ := hf _ n ih1 ih2 ih3 (by omega)
    refine ⟨k1, k2, k3, ?_⟩
    intro r c hr hc
    rw [k4 r c hr hc, ih4 r c hr hc]
    by_cases hrn : r = n
    · subst hrn
      simp
    · by_cases hlt : r < n
      · have : r < n + 1 := by omega
        simp [hrn, hlt, this]
      · have : ¬ r < n + 1 := by omega
        simp [hrn, hlt, this]

/-! ### 8. `mzd_extract_u`, `mzd_extract_l` -/

/-- one iteration of the loop of `mzd_extract_u` -/
def extractUStep (U : Mzd) (i : Nat) : Mzd :=
  if i = 0 then U else
    let U := U.setRow i ((U.row i).mapIdx fun j w => if j < i / 64 then 0 else w)
    if i % 64 ≠ 0 then U.clearBits i ((i / 64) * 64) (i % 64) else U

theorem extractUInto_eq (U A : Mzd) :
    extractUInto U A =
      (List.range (submatrixInto U A 0 0 (min A.nrows A.ncols) (min A.nrows A.ncols)).nrows).foldl
        extractUStep (submatrixInto U A 0 0 (min A.nrows A.ncols) (min A.nrows A.ncols)) := rfl

theorem extractUStep_spec (U : Mzd) (i : Nat) (h : U.WF) (hi : i < U.nrows) :
    (extractUStep U i).WF ∧ (extractUStep U i).nrows = U.nrows ∧ (extractUStep U i).ncols = U.ncols ∧
    ∀ r c, r < U.nrows → c < 64 * U.width →
      (extractUStep U i).bit r c = if r = i then (if c < r then false else U.bit r c) else U.bit r c := by
  unfold extractUStep
  by_cases h0 : i = 0
  · rw [if_pos h0]
    refine ⟨h, rfl, rfl, ?_⟩
    intro r c _ _
    by_cases hr : r = i
    · have : ¬ c < r := by omega
      rw [if_pos hr, if_neg this]
    · rw [if_neg hr]
  · rw [if_neg h0]
    simp only []
    have hW : (U.setRow i ((U.row i).mapIdx fun j w => if j < i / 64 then 0 else w)).WF := by
      apply WF.setRow h
      rw [Array.size_mapIdx]; exact h.2 i hi
    have hB : ∀ r c, r < U.nrows → c < 64 * U.width →
        (U.setRow i ((U.row i).mapIdx fun j w => if j < i / 64 then 0 else w)).bit r c =
          if r = i ∧ c < (i / 64) * 64 then false else U.bit r c := by
      intro r c hr hc
      rw [bit_def, row_setRow _ _ _ _ (by rw [h.1]; exact hi)]
      by_cases hri : i = r
      · subst hri
        rw [if_pos rfl, Row.w_mapIdx _ _ _ (by rw [h.2 i hi]; omega)]
        by_cases hlt : c / 64 < i / 64
        · have : c < i / 64 * 64 := by omega
          simp [hlt, this]
        · have : ¬ c < i / 64 * 64 := by omega
          simp [hlt, this, bit_def]
      · have : ¬ r = i := fun e => hri e.symm
        simp [hri, this, bit_def]
    by_cases hm : i % 64 ≠ 0
    · rw [if_pos hm]
      refine ⟨clearBits_WF_D _ _ _ _ hW hi, rfl, rfl, ?_⟩
      intro r c hr hc
      rw [clearBits_bit_D _ _ _ _ hW hi (by omega) r c hr hc, hB r c hr hc]
      by_cases hri : r = i
      · subst hri
        by_cases hcr : c < r
        · by_cases h3 : r / 64 * 64 ≤ c
          · have : r / 64 * 64 ≤ c ∧ c < r / 64 * 64 + r % 64 := by omega
            simp [this, hcr]
          · have h4 : c < r / 64 * 64 := by omega
            simp [h4, hcr]
        · have h3 : ¬ (r / 64 * 64 ≤ c ∧ c < r / 64 * 64 + r % 64) := by omega
          have h4 : ¬ c < r / 64 * 64 := by omega
          simp [h3, h4, hcr]
      · simp [hri]
    · rw [if_neg hm]
      refine ⟨hW, rfl, rfl, ?_⟩
      intro r c hr hc
      rw [hB r c hr hc]
      by_cases hri : r = i
      · subst hri
        have : (c < r / 64 * 64) = (c < r) := by apply propext; omega
        simp [this]
      · simp [hri]

theorem extractUInto_spec (U A : Mzd) (h : U.WF) (hr : U.nrows = min A.nrows A.ncols)
    (hc : U.ncols = min A.nrows A.ncols) :
    (extractUInto U A).WF ∧ (extractUInto U A).nrows = U.nrows ∧ (extractUInto U A).ncols = U.ncols ∧
    ∀ i j, i < U.nrows → j < 64 * U.width →
      (extractUInto U A).bit i j =
        if j < U.ncols then (decide (i ≤ j) && A.bit i j) else U.bit i j := by
  rw [extractUInto_eq]
  have hS := submatrixInto_WF U A 0 0 (min A.nrows A.ncols) (min A.nrows A.ncols) h
  have key := rowFold_spec extractUStep U.nrows U.ncols (fun r c b => if c < r then false else b)
    (by
      intro M i hM h1 h2 hi
      have := extractUStep_spec M i hM (by omega)
      unfold width at this
      rw [h1, h2] at this
      exact this)
    _ hS (by simp) (by simp) (submatrixInto U A 0 0 (min A.nrows A.ncols) (min A.nrows A.ncols)).nrows
    (by simp)
  obtain ⟨k1, k2, k3, k4⟩ := key
  refine ⟨k1, k2, k3, ?_⟩
  intro i j hi hj
  rw [k4 i j hi hj, submatrixInto_bit U A 0 0 _ _ h (by omega) (by omega) i j hi hj]
  simp only [nrows_submatrixInto, hi, if_true, Nat.zero_add]
  by_cases hj' : j < U.ncols
  · by_cases hij : j < i
    · have : ¬ i ≤ j := by omega
      simp [hj', hij, this]
    · have : i ≤ j := by omega
      simp [hj', hij, this]
  · have : ¬ j < i := by omega
    simp [hj', this]

/-- one iteration of the loop of `mzd_extract_l` -/
def extractLStep (L : Mzd) (i : Nat) : Mzd :=
  let keep := (L.row i).w (L.width - 1) &&& ~~~L.hb
  let L := if 64 - (i + 1) % 64 ≠ 0 then L.clearBits i (i + 1) (64 - (i + 1) % 64) else L
  L.setRow i ((L.row i).mapIdx fun j w =>
    let w := if j ≥ i / 64 + 1 ∧ j < L.width then 0 else w
    if j + 1 = L.width then w ||| keep else w)

theorem extractLInto_eq (L A : Mzd) :
    extractLInto L A =
      (List.range ((submatrixInto L A 0 0 (min A.nrows A.ncols) (min A.nrows A.ncols)).nrows - 1)).foldl
        extractLStep (submatrixInto L A 0 0 (min A.nrows A.ncols) (min A.nrows A.ncols)) := rfl

theorem width_clearBits (M : Mzd) (x y n : Nat) : (M.clearBits x y n).width = M.width := rfl

theorem extractLStep_spec (L : Mzd) (i : Nat) (h : L.WF) (hi : i < L.nrows) :
    (extractLStep L i).WF ∧ (extractLStep L i).nrows = L.nrows ∧ (extractLStep L i).ncols = L.ncols ∧
    ∀ r c, r < L.nrows → c < 64 * L.width →
      (extractLStep L i).bit r c =
        if r = i then (if r < c ∧ c < L.ncols then false else L.bit r c) else L.bit r c := by
  unfold extractLStep
  simp only []
  have hne : 64 - (i + 1) % 64 ≠ 0 := by omega
  rw [if_pos hne]
  have hW := clearBits_WF_D L i (i + 1) (64 - (i + 1) % 64) h hi
  refine ⟨?_, rfl, rfl, ?_⟩
  · apply WF.setRow hW
    rw [Array.size_mapIdx]; exact hW.2 i hi
  · intro r c hr hc
    have hsz : (L.clearBits i (i + 1) (64 - (i + 1) % 64)).rows.size = L.nrows := hW.1
    rw [bit_def, row_setRow _ _ _ _ (by rw [hsz]; exact hi)]
    by_cases hri : i = r
    · subst hri
      have hq : c / 64 < L.width := by omega
      have hp : c % 64 < 64 := Nat.mod_lt _ (by omega)
      have hpos : 0 < L.ncols := by unfold width widthOf at hc; omega
      rw [if_pos rfl, if_pos rfl, Row.w_mapIdx _ _ _ (by rw [hW.2 i hi]; exact hq), width_clearBits]
      -- the word before the `|= keep`
      have hw' : (if c / 64 ≥ i / 64 + 1 ∧ c / 64 < L.width then (0 : Word)
            else Row.w ((L.clearBits i (i + 1) (64 - (i + 1) % 64)).row i) (c / 64)).getLsbD (c % 64) =
          (decide (c ≤ i) && L.bit i c) := by
        by_cases hz : c / 64 ≥ i / 64 + 1 ∧ c / 64 < L.width
        · have : ¬ c ≤ i := by omega
          simp [hz, this]
        · rw [if_neg hz]
          have := clearBits_bit_D L i (i + 1) (64 - (i + 1) % 64) h hi (by omega) i c hi hc
          rw [bit_def] at this
          rw [this]
          by_cases hci : c ≤ i
          · have h3 : ¬ (i = i ∧ i + 1 ≤ c ∧ c < i + 1 + (64 - (i + 1) % 64)) := by omega
            rw [if_neg h3]; simp [hci]
          · have h3 : i = i ∧ i + 1 ≤ c ∧ c < i + 1 + (64 - (i + 1) % 64) := by omega
            rw [if_pos h3]; simp [hci]
      by_cases hlast : c / 64 + 1 = L.width
      · rw [if_pos hlast, BitVec.getLsbD_or, hw']
        simp only [BitVec.getLsbD_and, BitVec.getLsbD_not, hp, decide_true, Bool.true_and]
        rw [hb_getLsbD L _ hp hpos]
        have e1 : L.width - 1 = c / 64 := by omega
        have e2 : 64 * (c / 64) + c % 64 = c := by omega
        rw [e1, e2, ← bit_def]
        by_cases hci : c ≤ i <;> by_cases hcn : c < L.ncols <;> simp [hci, hcn] <;> omega
      · rw [if_neg hlast, hw']
        have hcn : c < L.ncols := by unfold width widthOf at hq hlast; omega
        by_cases hci : c ≤ i
        · have : ¬ (i < c ∧ c < L.ncols) := by omega
          simp [hci, this]
        · have : i < c ∧ c < L.ncols := by omega
          simp [hci, this]
    · have hne' : ¬ r = i := fun e => hri e.symm
      rw [if_neg hri, if_neg hne', ← bit_def,
        clearBits_bit_D L i (i + 1) (64 - (i + 1) % 64) h hi (by omega) r c hr hc]
      simp [hne']

theorem extractLInto_spec (L A : Mzd) (h : L.WF) (hr : L.nrows = min A.nrows A.ncols)
    (hc : L.ncols = min A.nrows A.ncols) :
    (extractLInto L A).WF ∧ (extractLInto L A).nrows = L.nrows ∧ (extractLInto L A).ncols = L.ncols ∧
    ∀ i j, i < L.nrows → j < 64 * L.width →
      (extractLInto L A).bit i j =
        if j < L.ncols then (decide (j ≤ i) && A.bit i j) else L.bit i j := by
  rw [extractLInto_eq]
  have hS := submatrixInto_WF L A 0 0 (min A.nrows A.ncols) (min A.nrows A.ncols) h
  have key := rowFold_spec extractLStep L.nrows L.ncols
    (fun r c b => if r < c ∧ c < L.ncols then false else b)
    (by
      intro M i hM h1 h2 hi
      have := extractLStep_spec M i hM (by omega)
      unfold width at this
      rw [h1, h2] at this
      exact this)
    _ hS (by simp) (by simp)
    ((submatrixInto L A 0 0 (min A.nrows A.ncols) (min A.nrows A.ncols)).nrows - 1)
    (by simp)
  obtain ⟨k1, k2, k3, k4⟩ := key
  refine ⟨k1, k2, k3, ?_⟩
  intro i j hi hj
  rw [k4 i j hi hj, submatrixInto_bit L A 0 0 _ _ h (by omega) (by omega) i j hi hj]
  simp only [nrows_submatrixInto, Nat.zero_add]
  by_cases hj' : j < L.ncols
  · by_cases hij : j ≤ i
    · simp [hj', hij]
    · have h1 : i < j ∧ j < L.ncols := by omega
      have h2 : i < L.nrows - 1 := by omega
      simp [hj', hij, h1, h2]
  · simp [hj']

/-- `mzd_extract_u(U, A)` for `U` of size `k × k`, `k = min(A.nrows, A.ncols)`: the upper triangle
    (with diagonal) of the leading `k × k` block of `A`; excess bits of `U` unchanged. -/
theorem extractUInto_bit (U A : Mzd) (h : U.WF) (hr : U.nrows = min A.nrows A.ncols)
    (hc : U.ncols = min A.nrows A.ncols) (i j : Nat) (hi : i < U.nrows) (hj : j < 64 * U.width) :
    (extractUInto U A).bit i j = if j < U.ncols then (decide (i ≤ j) && A.bit i j) else U.bit i j :=
  (extractUInto_spec U A h hr hc).2.2.2 i j hi hj

theorem extractUInto_WF (U A : Mzd) (h : U.WF) (hr : U.nrows = min A.nrows A.ncols)
    (hc : U.ncols = min A.nrows A.ncols) : (extractUInto U A).WF := (extractUInto_spec U A h hr hc).1

theorem nrows_extractUInto (U A : Mzd) (h : U.WF) (hr : U.nrows = min A.nrows A.ncols)
    (hc : U.ncols = min A.nrows A.ncols) : (extractUInto U A).nrows = U.nrows :=
  (extractUInto_spec U A h hr hc).2.1

theorem ncols_extractUInto (U A : Mzd) (h : U.WF) (hr : U.nrows = min A.nrows A.ncols)
    (hc : U.ncols = min A.nrows A.ncols) : (extractUInto U A).ncols = U.ncols :=
  (extractUInto_spec U A h hr hc).2.2.1

/-- `mzd_extract_l(L, A)` for `L` of size `k × k`, `k = min(A.nrows, A.ncols)`: the lower triangle
    (with diagonal) of the leading `k × k` block of `A`; excess bits of `L` unchanged. -/
theorem extractLInto_bit (L A : Mzd) (h : L.WF) (hr : L.nrows = min A.nrows A.ncols)
    (hc : L.ncols = min A.nrows A.ncols) (i j : Nat) (hi : i < L.nrows) (hj : j < 64 * L.width) :
    (extractLInto L A).bit i j = if j < L.ncols then (decide (j ≤ i) && A.bit i j) else L.bit i j :=
  (extractLInto_spec L A h hr hc).2.2.2 i j hi hj

theorem extractLInto_WF (L A : Mzd) (h : L.WF) (hr : L.nrows = min A.nrows A.ncols)
    (hc : L.ncols = min A.nrows A.ncols) : (extractLInto L A).WF := (extractLInto_spec L A h hr hc).1

theorem nrows_extractLInto (L A : Mzd) (h : L.WF) (hr : L.nrows = min A.nrows A.ncols)
    (hc : L.ncols = min A.nrows A.ncols) : (extractLInto L A).nrows = L.nrows :=
  (extractLInto_spec L A h hr hc).2.1

theorem ncols_extractLInto (L A : Mzd) (h : L.WF) (hr : L.nrows = min A.nrows A.ncols)
    (hc : L.ncols = min A.nrows A.ncols) : (extractLInto L A).ncols = L.ncols :=
  (extractLInto_spec L A h hr hc).2.2.1

/-- non-vacuity: a 3×3 window with excess bits set as destination, a 3×70 source -/
example : ∃ U A : Mzd, U.WF ∧ A.WF ∧ U.nrows = min A.nrows A.ncols ∧ U.ncols = min A.nrows A.ncols ∧
    0 < U.nrows ∧ U.bit 1 5 = true :=
  ⟨⟨3, 3, #[#[0xF0#64], #[0xF7#64], #[0xF7#64]]⟩,
    ⟨3, 70, #[#[0xFF#64, 0x3F#64], #[0xFF#64, 0x3F#64], #[0xFF#64, 0x3F#64]]⟩,
    by decide, by decide, by decide, by decide, by decide, by decide⟩

/-- non-vacuity for `extractLInto_bit` (same shape of hypotheses) -/
example : ∃ L A : Mzd, L.WF ∧ A.WF ∧ L.nrows = min A.nrows A.ncols ∧ L.ncols = min A.nrows A.ncols ∧
    0 < L.nrows ∧ L.bit 0 5 = true :=
  ⟨⟨2, 2, #[#[0xF0#64], #[0xF3#64]]⟩, ⟨2, 70, #[#[0xFF#64, 0x3F#64], #[0xFF#64, 0x3F#64]]⟩,
    by decide, by decide, by decide, by decide, by decide, by decide⟩

/-- `mzd_extract_u(NULL, A)` / `mzd_extract_l(NULL, A)`: entries as above, zero padding -/
theorem extractUNew_bit (A : Mzd) (i j : Nat) (hi : i < min A.nrows A.ncols)
    (hj : j < 64 * widthOf (min A.nrows A.ncols)) :
    (extractUNew A).bit i j =
      if j < min A.nrows A.ncols then (decide (i ≤ j) && A.bit i j) else false := by
  unfold extractUNew
  simp only []
  rw [extractUInto_bit _ A (zero_WF _ _) rfl rfl i j hi hj, zero_bit]; rfl

theorem extractLNew_bit (A : Mzd) (i j : Nat) (hi : i < min A.nrows A.ncols)
    (hj : j < 64 * widthOf (min A.nrows A.ncols)) :
    (extractLNew A).bit i j =
      if j < min A.nrows A.ncols then (decide (j ≤ i) && A.bit i j) else false := by
  unfold extractLNew
  simp only []
  rw [extractLInto_bit _ A (zero_WF _ _) rfl rfl i j hi hj, zero_bit]; rfl

theorem extractUNew_padZero (A : Mzd) : (extractUNew A).padZero := by
  have hn : (extractUNew A).nrows = min A.nrows A.ncols :=
    nrows_extractUInto _ A (zero_WF _ _) rfl rfl
  have hc : (extractUNew A).ncols = min A.nrows A.ncols :=
    ncols_extractUInto _ A (zero_WF _ _) rfl rfl
  intro i j hi hcj hj
  unfold width at hj
  rw [hn] at hi; rw [hc] at hcj hj
  rw [extractUNew_bit A i j hi hj, if_neg (by omega)]

theorem extractLNew_padZero (A : Mzd) : (extractLNew A).padZero := by
  have hn : (extractLNew A).nrows = min A.nrows A.ncols :=
    nrows_extractLInto _ A (zero_WF _ _) rfl rfl
  have hc : (extractLNew A).ncols = min A.nrows A.ncols :=
    ncols_extractLInto _ A (zero_WF _ _) rfl rfl
  intro i j hi hcj hj
  unfold width at hj
  rw [hn] at hi; rw [hc] at hcj hj
  rw [extractLNew_bit A i j hi hj, if_neg (by omega)]

/-! ### independence of the excess bits of the sources; an observation on `mzd_submatrix` -/

/-- same dimensions and same entries; the excess bits may differ -/
def EntriesEq (A A' : Mzd) : Prop :=
  A.nrows = A'.nrows ∧ A.ncols = A'.ncols ∧ ∀ i j, i < A.nrows → j < A.ncols → A.bit i j = A'.bit i j

/-- `mzd_stack` does not depend on the excess bits of its sources -/
theorem stackInto_congr (C A B A' B' : Mzd) (h : C.WF) (hr : C.nrows = A.nrows + B.nrows)
    (hcA : C.ncols = A.ncols) (hcB : B.ncols = A.ncols) (hA : EntriesEq A A') (hB : EntriesEq B B')
    (i j : Nat) (hi : i < C.nrows) (hj : j < 64 * C.width) :
    (stackInto C A B).bit i j = (stackInto C A' B').bit i j := by
  obtain ⟨a1, a2, a3⟩ := hA
  obtain ⟨b1, b2, b3⟩ := hB
  rw [stackInto_bit C A B h hr hcA hcB i j hi hj,
    stackInto_bit C A' B' h (by omega) (by omega) (by omega) i j hi hj, ← a1]
  by_cases hjc : j < C.ncols
  · rw [if_pos hjc, if_pos hjc]
    by_cases hiA : i < A.nrows
    · rw [if_pos hiA, if_pos hiA, a3 i j hiA (by omega)]
    · rw [if_neg hiA, if_neg hiA, b3 _ j (by omega) (by omega)]
  · rw [if_neg hjc, if_neg hjc]

/-- `mzd_concat` does not depend on the excess bits of its sources -/
theorem concatInto_congr (C A B A' B' : Mzd) (h : C.WF) (hrA : A.nrows = C.nrows) (hrB : B.nrows = C.nrows)
    (hc : C.ncols = A.ncols + B.ncols) (hA : EntriesEq A A') (hB : EntriesEq B B')
    (i j : Nat) (hi : i < C.nrows) (hj : j < 64 * C.width) :
    (concatInto C A B).bit i j = (concatInto C A' B').bit i j := by
  obtain ⟨a1, a2, a3⟩ := hA
  obtain ⟨b1, b2, b3⟩ := hB
  rw [concatInto_bit C A B h hrA hrB hc i j hi hj,
    concatInto_bit C A' B' h (by omega) (by omega) (by omega) i j hi hj, ← a2]
  by_cases hjA : j < A.ncols
  · rw [if_pos hjA, if_pos hjA, a3 i j (by omega) hjA]
  · rw [if_neg hjA, if_neg hjA]
    by_cases hjc : j < C.ncols
    · rw [if_pos hjc, if_pos hjc, b3 i _ (by omega) (by omega)]
    · rw [if_neg hjc, if_neg hjc]

/-- `_mzd_add` does not depend on the excess bits of its sources -/
theorem addInto_congr (C A B A' B' : Mzd) (h : C.WF) (hrA : A.nrows = C.nrows) (hrB : B.nrows = C.nrows)
    (hcA : A.ncols = C.ncols) (hcB : B.ncols = C.ncols) (hA : EntriesEq A A') (hB : EntriesEq B B')
    (i j : Nat) (hi : i < C.nrows) (hj : j < 64 * C.width) :
    (addInto C A B).bit i j = (addInto C A' B').bit i j := by
  obtain ⟨a1, a2, a3⟩ := hA
  obtain ⟨b1, b2, b3⟩ := hB
  rw [addInto_bit C A B h hrA hrB hcA i j hi hj,
    addInto_bit C A' B' h (by omega) (by omega) (by omega) i j hi hj]
  by_cases hjc : j < C.ncols
  · rw [if_pos hjc, if_pos hjc, a3 i j (by omega) (by omega), b3 i j (by omega) (by omega)]
  · rw [if_neg hjc, if_neg hjc]

/-- Observation (outside the EXACT-size contract proved above): `mzd_submatrix` accepts a larger `S`,
    but its two paths then disagree on the columns `ncols ≤ j < S.ncols`: the aligned path keeps them,
    the unaligned path (masking with `S->high_bitmask`) clears them. -/
theorem submatrixInto_larger_observation :
    (submatrixInto ⟨1, 10, #[#[0x3FF#64]]⟩ ⟨1, 70, #[#[0#64, 0#64]]⟩ 0 64 1 67).bit 0 5 = true ∧
    (submatrixInto ⟨1, 10, #[#[0x3FF#64]]⟩ ⟨1, 70, #[#[0#64, 0#64]]⟩ 0 1 1 4).bit 0 5 = false := by
  decide

end Mzd
end M4ri
