/-
  Permutation application (mzp.c): `mzd_apply_p_left`, `mzd_apply_p_left_trans`,
  `_mzd_apply_p_right_even` (with `mzd_write_col_to_rows_blockd`), `mzd_apply_p_right(_trans)(_even_capped)`,
  `mzd_apply_p_right_trans_tri`, and `mzd_col_swap_in_rows`.

  A permutation is given LAPACK-style as a sequence of transpositions `k ↔ P[k]`.  The abstract action of a
  list of transpositions on indices is `swapsIdx`; every theorem below states the result of an operation
  as "`bit i j` of the result is `bit (σ i) j` (rows) / `bit i (π j)` (columns) of the argument" in the
  standard shape (entries inside the matrix / excess bits unchanged / untouched rows; plus `WF`).
-/
import M4riProofs.Basic
import M4riProofs.RowSwap
namespace M4ri

/-! ### transpositions acting on indices -/

/-- the transposition `a ↔ b` -/
def swapIdx (a b i : Nat) : Nat := if i = a then b else if i = b then a else i

/-- the composition `τ₁ ∘ τ₂ ∘ … ∘ τₙ` of the transpositions of the list `[τ₁, …, τₙ]`; this is what
    the identity array becomes when the swaps `τ₁, …, τₙ` are performed on it in this order, and it is the
    index read by entry `i` after the rows (columns) of a matrix have been swapped by `τ₁, …, τₙ` in this
    order. -/
def swapsIdx : List (Nat × Nat) → Nat → Nat
  | [], i => i
  | p :: l, i => swapIdx p.1 p.2 (swapsIdx l i)

theorem swapIdx_swapIdx (a b i : Nat) : swapIdx a b (swapIdx a b i) = i := by
  unfold swapIdx; split <;> split <;> (try split) <;> (try split) <;> omega

theorem swapIdx_lt (a b i n : Nat) (ha : a < n) (hb : b < n) (hi : i < n) : swapIdx a b i < n := by
  unfold swapIdx; split <;> (try split) <;> omega

theorem swapIdx_of_ge (a b i n : Nat) (ha : a < n) (hb : b < n) (hi : n ≤ i) : swapIdx a b i = i := by
  unfold swapIdx; split <;> (try split) <;> omega

theorem swapIdx_self (a i : Nat) : swapIdx a a i = i := by
  unfold swapIdx; split <;> (try split) <;> omega

@[simp] theorem swapsIdx_nil (i : Nat) : swapsIdx [] i = i := rfl
@[simp] theorem swapsIdx_cons (p : Nat × Nat) (l : List (Nat × Nat)) (i : Nat) :
    swapsIdx (p :: l) i = swapIdx p.1 p.2 (swapsIdx l i) := rfl

theorem swapsIdx_append (l₁ l₂ : List (Nat × Nat)) (i : Nat) :
    swapsIdx (l₁ ++ l₂) i = swapsIdx l₁ (swapsIdx l₂ i) := by
  induction l₁ with
  | nil => rfl
  | cons p l ih => simp [ih]

/-- performing the swaps and then the same swaps in the opposite order is the identity -/
theorem swapsIdx_reverse_cancel (l : List (Nat × Nat)) (i : Nat) :
    swapsIdx l.reverse (swapsIdx l i) = i := by
  induction l generalizing i with
  | nil => rfl
  | cons p l ih =>
    rw [List.reverse_cons, swapsIdx_append]
    simp only [swapsIdx_cons, swapsIdx_nil, swapIdx_swapIdx]
    exact ih i

theorem swapsIdx_cancel_reverse (l : List (Nat × Nat)) (i : Nat) :
    swapsIdx l (swapsIdx l.reverse i) = i := by
  have := swapsIdx_reverse_cancel l.reverse i
  rwa [List.reverse_reverse] at this

theorem swapsIdx_lt (l : List (Nat × Nat)) (n i : Nat) (hl : ∀ p ∈ l, p.1 < n ∧ p.2 < n) (hi : i < n) :
    swapsIdx l i < n := by
  induction l with
  | nil => exact hi
  | cons p l ih =>
    simp only [swapsIdx_cons]
    have hp := hl p (List.mem_cons_self ..)
    exact swapIdx_lt _ _ _ _ hp.1 hp.2 (ih fun q hq => hl q (List.mem_cons_of_mem _ hq))

theorem swapsIdx_of_ge (l : List (Nat × Nat)) (n i : Nat) (hl : ∀ p ∈ l, p.1 < n ∧ p.2 < n) (hi : n ≤ i) :
    swapsIdx l i = i := by
  induction l with
  | nil => rfl
  | cons p l ih =>
    simp only [swapsIdx_cons]
    have hp := hl p (List.mem_cons_self ..)
    rw [ih fun q hq => hl q (List.mem_cons_of_mem _ hq)]
    exact swapIdx_of_ge _ _ _ _ hp.1 hp.2 hi

namespace Mzd

/-! ### extensionality: a well-formed view is determined by its bits -/

theorem ext_of_bit (A B : Mzd) (hA : A.WF) (hB : B.WF) (hr : A.nrows = B.nrows) (hc : A.ncols = B.ncols)
    (h : ∀ i j, i < A.nrows → j < 64 * A.width → A.bit i j = B.bit i j) : A = B := by
  obtain ⟨ar, ac, arows⟩ := A
  obtain ⟨br, bc, brows⟩ := B
  simp only at hr hc
  subst hr hc
  congr 1
  have hsA : arows.size = ar := hA.1
  have hsB : brows.size = ar := hB.1
  apply Array.ext (by omega)
  intro i h1 h2
  have hi : i < ar := by omega
  have hwA := hA.2 i hi
  have hwB := hB.2 i hi
  have e1 : arows[i] = Mzd.row ⟨ar, ac, arows⟩ i := by rw [row_eq_getElem _ _ h1]
  have e2 : brows[i] = Mzd.row ⟨ar, ac, brows⟩ i := by rw [row_eq_getElem _ _ h2]
  have hw : Mzd.width ⟨ar, ac, brows⟩ = Mzd.width ⟨ar, ac, arows⟩ := rfl
  apply Array.ext (by rw [e1, e2, hwA, hwB, hw])
  intro k k1 k2
  apply BitVec.eq_of_getLsbD_eq
  intro p hp
  have hk : k < Mzd.width ⟨ar, ac, arows⟩ := by rw [← hwA, ← e1]; exact k1
  have := h i (64 * k + p) hi (by omega)
  simp only [bit_def] at this
  have d1 : (64 * k + p) / 64 = k := by omega
  have d2 : (64 * k + p) % 64 = p := by omega
  rw [d1, d2, ← e1, ← e2, Row.w_eq_getElem _ _ k1, Row.w_eq_getElem _ _ k2] at this
  exact this

/-! ### 1. row side: `mzd_apply_p_left`, `mzd_apply_p_left_trans` -/

/-- a sequence of row swaps -/
def rowSwaps (M : Mzd) (l : List (Nat × Nat)) : Mzd := l.foldl (fun M p => M.rowSwap p.1 p.2) M

theorem rowSwap_WF (M : Mzd) (a b : Nat) (h : M.WF) (ha : a < M.nrows) (hb : b < M.nrows) :
    (M.rowSwap a b).WF := rowSwapFrom_WF M a b 0 h ha hb

theorem rowSwapFrom_nrows (M : Mzd) (a b sb : Nat) : (M.rowSwapFrom a b sb).nrows = M.nrows := by
  unfold rowSwapFrom; split <;> rfl
theorem rowSwapFrom_ncols (M : Mzd) (a b sb : Nat) : (M.rowSwapFrom a b sb).ncols = M.ncols := by
  unfold rowSwapFrom; split <;> rfl

/-- `mzd_row_swap`: rows `a` and `b` are exchanged inside the matrix, excess bits stay -/
theorem rowSwap_bit (M : Mzd) (a b : Nat) (h : M.WF) (ha : a < M.nrows) (hb : b < M.nrows)
    (i j : Nat) (hi : i < M.nrows) (hj : j < 64 * M.width) :
    (M.rowSwap a b).bit i j = if j < M.ncols then M.bit (swapIdx a b i) j else M.bit i j := by
  unfold rowSwap
  rw [rowSwapFrom_bit M a b 0 h ha hb i j hi hj]
  simp only [Nat.zero_le, and_true, swapIdx]

theorem rowSwaps_shape (M : Mzd) (l : List (Nat × Nat)) :
    (M.rowSwaps l).nrows = M.nrows ∧ (M.rowSwaps l).ncols = M.ncols := by
  unfold rowSwaps
  induction l generalizing M with
  | nil => exact ⟨rfl, rfl⟩
  | cons p l ih =>
    simp only [List.foldl_cons]
    have := ih (M.rowSwap p.1 p.2)
    simp only [rowSwap, rowSwapFrom_nrows, rowSwapFrom_ncols] at this
    exact this

theorem rowSwaps_WF (M : Mzd) (l : List (Nat × Nat)) (h : M.WF)
    (hl : ∀ p ∈ l, p.1 < M.nrows ∧ p.2 < M.nrows) : (M.rowSwaps l).WF := by
  unfold rowSwaps
  induction l generalizing M with
  | nil => exact h
  | cons p l ih =>
    simp only [List.foldl_cons]
    have hp := hl p (List.mem_cons_self ..)
    apply ih _ (rowSwap_WF M _ _ h hp.1 hp.2)
    intro q hq
    simp only [rowSwap, rowSwapFrom_nrows]
    exact hl q (List.mem_cons_of_mem _ hq)

/-- a sequence of row swaps `τ₁, …, τₙ`: row `i` of the result is row `τ₁(τ₂(…τₙ(i)))` of the argument
    inside the matrix; excess bits are unchanged -/
theorem rowSwaps_bit (M : Mzd) (l : List (Nat × Nat)) (h : M.WF)
    (hl : ∀ p ∈ l, p.1 < M.nrows ∧ p.2 < M.nrows)
    (i j : Nat) (hi : i < M.nrows) (hj : j < 64 * M.width) :
    (M.rowSwaps l).bit i j = if j < M.ncols then M.bit (swapsIdx l i) j else M.bit i j := by
  unfold rowSwaps
  induction l generalizing M with
  | nil => simp
  | cons p l ih =>
    simp only [List.foldl_cons, swapsIdx_cons]
    have hp := hl p (List.mem_cons_self ..)
    have hl' : ∀ q ∈ l, q.1 < M.nrows ∧ q.2 < M.nrows := fun q hq => hl q (List.mem_cons_of_mem _ hq)
    have hn : (M.rowSwap p.1 p.2).nrows = M.nrows := rowSwapFrom_nrows ..
    have hc : (M.rowSwap p.1 p.2).ncols = M.ncols := rowSwapFrom_ncols ..
    have hw : (M.rowSwap p.1 p.2).width = M.width := by unfold width; rw [hc]
    rw [ih (M.rowSwap p.1 p.2) (rowSwap_WF M _ _ h hp.1 hp.2) (by rw [hn]; exact hl')
      (by rw [hn]; exact hi) (by rw [hw]; exact hj), hc]
    have hlt : swapsIdx l i < M.nrows := swapsIdx_lt l _ i hl' hi
    rw [rowSwap_bit M _ _ h hp.1 hp.2 _ j hlt hj, rowSwap_bit M _ _ h hp.1 hp.2 _ j hi hj]
    split <;> rfl

/-- the LAPACK-style swap list `[(0,P[0]), (1,P[1]), …, (n-1,P[n-1])]` -/
def pSwaps (P : Array Nat) (n : Nat) : List (Nat × Nat) := (List.range n).map fun k => (k, P.getD k 0)

theorem mem_pSwaps (P : Array Nat) (n : Nat) (p : Nat × Nat) (hp : p ∈ pSwaps P n) :
    p.1 < n ∧ p.2 = P.getD p.1 0 := by
  unfold pSwaps at hp
  simp only [List.mem_map, List.mem_range] at hp
  obtain ⟨k, hk, rfl⟩ := hp
  exact ⟨hk, rfl⟩

theorem applyPLeft_eq (A : Mzd) (P : Array Nat) (hc : A.ncols ≠ 0) :
    A.applyPLeft P = A.rowSwaps (pSwaps P (min P.size A.nrows)) := by
  unfold applyPLeft rowSwaps pSwaps
  rw [if_neg hc, List.foldl_map]

theorem applyPLeftTrans_eq (A : Mzd) (P : Array Nat) (hc : A.ncols ≠ 0) :
    A.applyPLeftTrans P = A.rowSwaps (pSwaps P (min P.size A.nrows)).reverse := by
  unfold applyPLeftTrans rowSwaps pSwaps
  rw [if_neg hc, ← List.map_reverse, List.foldl_map]

theorem width_eq_zero_of_ncols (A : Mzd) (hc : A.ncols = 0) : A.width = 0 := by
  unfold width widthOf; omega

theorem pSwaps_inrange (P : Array Nat) (n m : Nat) (hP : ∀ k, k < n → P.getD k 0 < m) (hn : n ≤ m) :
    ∀ p ∈ pSwaps P n, p.1 < m ∧ p.2 < m := by
  intro p hp
  obtain ⟨h1, h2⟩ := mem_pSwaps P n p hp
  rw [h2]
  exact ⟨by omega, hP _ h1⟩

theorem applyPLeft_shape (A : Mzd) (P : Array Nat) :
    (A.applyPLeft P).nrows = A.nrows ∧ (A.applyPLeft P).ncols = A.ncols := by
  by_cases hc : A.ncols = 0
  · unfold applyPLeft; rw [if_pos hc]; exact ⟨rfl, rfl⟩
  · rw [applyPLeft_eq A P hc]; exact rowSwaps_shape ..

theorem applyPLeftTrans_shape (A : Mzd) (P : Array Nat) :
    (A.applyPLeftTrans P).nrows = A.nrows ∧ (A.applyPLeftTrans P).ncols = A.ncols := by
  by_cases hc : A.ncols = 0
  · unfold applyPLeftTrans; rw [if_pos hc]; exact ⟨rfl, rfl⟩
  · rw [applyPLeftTrans_eq A P hc]; exact rowSwaps_shape ..

theorem applyPLeft_WF (A : Mzd) (P : Array Nat) (h : A.WF)
    (hP : ∀ k, k < min P.size A.nrows → P.getD k 0 < A.nrows) : (A.applyPLeft P).WF := by
  by_cases hc : A.ncols = 0
  · unfold applyPLeft; rw [if_pos hc]; exact h
  · rw [applyPLeft_eq A P hc]
    exact rowSwaps_WF _ _ h (pSwaps_inrange P _ _ hP (by omega))

theorem applyPLeftTrans_WF (A : Mzd) (P : Array Nat) (h : A.WF)
    (hP : ∀ k, k < min P.size A.nrows → P.getD k 0 < A.nrows) : (A.applyPLeftTrans P).WF := by
  by_cases hc : A.ncols = 0
  · unfold applyPLeftTrans; rw [if_pos hc]; exact h
  · rw [applyPLeftTrans_eq A P hc]
    apply rowSwaps_WF _ _ h
    intro p hp
    exact pSwaps_inrange P _ _ hP (by omega) p (List.mem_reverse.mp hp)

/-- `mzd_apply_p_left(A, P)`: row `i` of the result is row `σ i` of `A`, where `σ = τ₀ ∘ τ₁ ∘ … ∘ τₙ₋₁`,
    `τₖ = (k ↔ P[k])`, `n = min(P.length, nrows)` (the swaps are performed for ascending `k`);
    excess bits are unchanged. -/
theorem applyPLeft_bit (A : Mzd) (P : Array Nat) (h : A.WF)
    (hP : ∀ k, k < min P.size A.nrows → P.getD k 0 < A.nrows)
    (i j : Nat) (hi : i < A.nrows) (hj : j < 64 * A.width) :
    (A.applyPLeft P).bit i j =
      if j < A.ncols then A.bit (swapsIdx (pSwaps P (min P.size A.nrows)) i) j else A.bit i j := by
  by_cases hc : A.ncols = 0
  · have := width_eq_zero_of_ncols A hc; omega
  · rw [applyPLeft_eq A P hc]
    exact rowSwaps_bit _ _ h (pSwaps_inrange P _ _ hP (by omega)) i j hi hj

/-- `mzd_apply_p_left_trans(A, P)`: the same swaps performed for descending `k`:
    row `i` of the result is row `(τₙ₋₁ ∘ … ∘ τ₁ ∘ τ₀) i` of `A`; excess bits are unchanged. -/
theorem applyPLeftTrans_bit (A : Mzd) (P : Array Nat) (h : A.WF)
    (hP : ∀ k, k < min P.size A.nrows → P.getD k 0 < A.nrows)
    (i j : Nat) (hi : i < A.nrows) (hj : j < 64 * A.width) :
    (A.applyPLeftTrans P).bit i j =
      if j < A.ncols then A.bit (swapsIdx (pSwaps P (min P.size A.nrows)).reverse i) j else A.bit i j := by
  by_cases hc : A.ncols = 0
  · have := width_eq_zero_of_ncols A hc; omega
  · rw [applyPLeftTrans_eq A P hc]
    apply rowSwaps_bit _ _ h _ i j hi hj
    intro p hp
    exact pSwaps_inrange P _ _ hP (by omega) p (List.mem_reverse.mp hp)

/-- `P^T (P A) = A`, bit by bit (entries and excess bits) -/
theorem applyPLeftTrans_applyPLeft_bit (A : Mzd) (P : Array Nat) (h : A.WF)
    (hP : ∀ k, k < min P.size A.nrows → P.getD k 0 < A.nrows)
    (i j : Nat) (hi : i < A.nrows) (hj : j < 64 * A.width) :
    ((A.applyPLeft P).applyPLeftTrans P).bit i j = A.bit i j := by
  obtain ⟨hn, hc⟩ := applyPLeft_shape A P
  have hw : (A.applyPLeft P).width = A.width := by unfold width; rw [hc]
  have hin := pSwaps_inrange P _ _ hP (Nat.min_le_right _ _)
  rw [applyPLeftTrans_bit _ P (applyPLeft_WF A P h hP) (by rw [hn]; exact hP) i j (by rw [hn]; exact hi)
    (by rw [hw]; exact hj), hc, hn]
  have hlt : swapsIdx (pSwaps P (min P.size A.nrows)).reverse i < A.nrows :=
    swapsIdx_lt _ _ i (fun p hp => hin p (List.mem_reverse.mp hp)) hi
  rw [applyPLeft_bit A P h hP _ j hlt hj, applyPLeft_bit A P h hP i j hi hj, swapsIdx_cancel_reverse]
  split <;> rfl

/-- `P (P^T A) = A`, bit by bit (entries and excess bits) -/
theorem applyPLeft_applyPLeftTrans_bit (A : Mzd) (P : Array Nat) (h : A.WF)
    (hP : ∀ k, k < min P.size A.nrows → P.getD k 0 < A.nrows)
    (i j : Nat) (hi : i < A.nrows) (hj : j < 64 * A.width) :
    ((A.applyPLeftTrans P).applyPLeft P).bit i j = A.bit i j := by
  obtain ⟨hn, hc⟩ := applyPLeftTrans_shape A P
  have hw : (A.applyPLeftTrans P).width = A.width := by unfold width; rw [hc]
  have hin := pSwaps_inrange P _ _ hP (Nat.min_le_right _ _)
  rw [applyPLeft_bit _ P (applyPLeftTrans_WF A P h hP) (by rw [hn]; exact hP) i j (by rw [hn]; exact hi)
    (by rw [hw]; exact hj), hc, hn]
  have hlt : swapsIdx (pSwaps P (min P.size A.nrows)) i < A.nrows := swapsIdx_lt _ _ i hin hi
  rw [applyPLeftTrans_bit A P h hP _ j hlt hj, applyPLeftTrans_bit A P h hP i j hi hj,
    swapsIdx_reverse_cancel]
  split <;> rfl

/-- each application is undone by its transposed counterpart (equality of views) -/
theorem applyPLeftTrans_applyPLeft (A : Mzd) (P : Array Nat) (h : A.WF)
    (hP : ∀ k, k < min P.size A.nrows → P.getD k 0 < A.nrows) :
    (A.applyPLeft P).applyPLeftTrans P = A := by
  obtain ⟨hn, hc⟩ := applyPLeft_shape A P
  obtain ⟨hn', hc'⟩ := applyPLeftTrans_shape (A.applyPLeft P) P
  have hw : ((A.applyPLeft P).applyPLeftTrans P).width = A.width := by unfold width; rw [hc', hc]
  apply ext_of_bit _ _ (applyPLeftTrans_WF _ P (applyPLeft_WF A P h hP) (by rw [hn]; exact hP)) h
    (by rw [hn', hn]) (by rw [hc', hc])
  intro i j hi hj
  exact applyPLeftTrans_applyPLeft_bit A P h hP i j (by rw [← hn, ← hn']; exact hi) (by rw [← hw]; exact hj)

theorem applyPLeft_applyPLeftTrans (A : Mzd) (P : Array Nat) (h : A.WF)
    (hP : ∀ k, k < min P.size A.nrows → P.getD k 0 < A.nrows) :
    (A.applyPLeftTrans P).applyPLeft P = A := by
  obtain ⟨hn, hc⟩ := applyPLeftTrans_shape A P
  obtain ⟨hn', hc'⟩ := applyPLeft_shape (A.applyPLeftTrans P) P
  have hw : ((A.applyPLeftTrans P).applyPLeft P).width = A.width := by unfold width; rw [hc', hc]
  apply ext_of_bit _ _ (applyPLeft_WF _ P (applyPLeftTrans_WF A P h hP) (by rw [hn]; exact hP)) h
    (by rw [hn', hn]) (by rw [hc', hc])
  intro i j hi hj
  exact applyPLeft_applyPLeftTrans_bit A P h hP i j (by rw [← hn, ← hn']; exact hi) (by rw [← hw]; exact hj)

/-- non-vacuity of the hypotheses of the row-side theorems (3×70 view with non-zero excess bits,
    `P = [2,1,2]`), and a sanity check of the statement on it -/
example : ∃ (A : Mzd) (P : Array Nat), A.WF ∧ 1 ≤ A.ncols ∧
    (∀ k, k < min P.size A.nrows → k ≤ P.getD k 0 ∧ P.getD k 0 < A.nrows) ∧
    (A.applyPLeft P).bit 0 0 = A.bit 2 0 :=
  ⟨⟨3, 70, #[#[0x1#64, 0xFFFFFFFFFFFFFFC1#64], #[0x2#64, 0xFFFFFFFFFFFFFFC2#64], #[0x4#64, 0xC4#64]]⟩,
    #[2, 1, 2], by
    refine ⟨⟨rfl, ?_⟩, by decide, ?_, by decide⟩
    · intro i hi
      have : i = 0 ∨ i = 1 ∨ i = 2 := by simp at hi; omega
      rcases this with rfl | rfl | rfl <;> rfl
    · intro k hk
      have : k = 0 ∨ k = 1 ∨ k = 2 := by simp at hk; omega
      rcases this with rfl | rfl | rfl <;> decide⟩

end Mzd


/-! ### 2. `mzd_col_swap_in_rows` -/

theorem one_shl_getLsbD (m p : Nat) : ((1#64) <<< m).getLsbD p = (decide (p = m) && decide (p < 64)) := by
  simp only [BitVec.getLsbD_shiftLeft, BitVec.getLsbD_one]
  by_cases h : p = m
  · subst h; by_cases h2 : p < 64 <;> simp [h2]
  · by_cases h2 : p < m
    · simp [h, h2]
    · have : ¬ (p - m = 0) := by omega
      simp [h, this]

theorem xmask_getLsbD (u v : Word) (off m p : Nat) :
    ((u ^^^ (v >>> off)) &&& ((1#64) <<< m)).getLsbD p =
      (decide (p = m) && decide (p < 64) && (u.getLsbD p ^^ v.getLsbD (off + p))) := by
  rw [BitVec.getLsbD_and, one_shl_getLsbD, BitVec.getLsbD_xor, BitVec.getLsbD_ushiftRight]
  cases decide (p = m) <;> cases decide (p < 64) <;> simp

theorem xmask_shl_getLsbD (u v : Word) (off m p : Nat) (hm : m + off < 64) :
    (((u ^^^ (v >>> off)) &&& ((1#64) <<< m)) <<< off).getLsbD p =
      (decide (p = m + off) && (u.getLsbD m ^^ v.getLsbD (m + off))) := by
  rw [BitVec.getLsbD_shiftLeft, xmask_getLsbD]
  by_cases h : p = m + off
  · subst h
    have h1 : m + off - off = m := by omega
    have h2 : ¬ (m + off < off) ∨ off = 0 := by omega
    have h3 : off + m = m + off := by omega
    by_cases h4 : m + off < off
    · omega
    · simp [h1, hm, h4, h3]; omega
  · by_cases h4 : p < off
    · simp [h, h4]
    · have : ¬ (p - off = m) := by omega
      simp [h, this]
theorem word_swap_min (u v : Word) (off m p : Nat) :
    (u ^^^ ((u ^^^ (v >>> off)) &&& ((1#64) <<< m))).getLsbD p =
      if p = m ∧ p < 64 then v.getLsbD (m + off) else u.getLsbD p := by
  rw [BitVec.getLsbD_xor, xmask_getLsbD]
  by_cases h : p = m
  · subst h
    by_cases h2 : p < 64
    · simp [h2, Nat.add_comm]
    · simp [h2]
  · simp [h]

theorem word_swap_max (u v : Word) (off m p : Nat) (hm : m + off < 64) :
    (v ^^^ (((u ^^^ (v >>> off)) &&& ((1#64) <<< m)) <<< off)).getLsbD p =
      if p = m + off then u.getLsbD m else v.getLsbD p := by
  rw [BitVec.getLsbD_xor, xmask_shl_getLsbD _ _ _ _ _ hm]
  by_cases h : p = m + off
  · subst h; simp
    cases v.getLsbD (m + off) <;> cases u.getLsbD m <;> rfl
  · simp [h]

theorem word_swap_same (w : Word) (off m p : Nat) (hm : m + off < 64) :
    (w ^^^ (((w ^^^ (w >>> off)) &&& ((1#64) <<< m)) |||
        (((w ^^^ (w >>> off)) &&& ((1#64) <<< m)) <<< off))).getLsbD p =
      w.getLsbD (if p = m then m + off else if p = m + off then m else p) := by
  rw [BitVec.getLsbD_xor, BitVec.getLsbD_or, xmask_shl_getLsbD _ _ _ _ _ hm, xmask_getLsbD]
  by_cases h : p = m
  · subst h
    have : p < 64 := by omega
    by_cases h0 : off = 0
    · subst h0; simp
    · have : ¬ (p = p + off) := by omega
      simp [Nat.add_comm, *]
  · by_cases h2 : p = m + off
    · subst h2
      have h0 : ¬ off = 0 := by omega
      simp [h0]
      cases w.getLsbD (m + off) <;> cases w.getLsbD m <;> rfl
    · simp [h, h2]

namespace Mzd
theorem colSwapRow_size_P (r : Row) (a b : Nat) : (colSwapRow r a b).size = r.size := by
  unfold colSwapRow
  simp only
  split
  · simp
  · split <;> simp

theorem colSwapRow_bit_P (r : Row) (a b j : Nat) (hj : j / 64 < r.size) :
    (Row.w (colSwapRow r a b) (j / 64)).getLsbD (j % 64) =
      (r.w (swapIdx a b j / 64)).getLsbD (swapIdx a b j % 64) := by
  unfold colSwapRow
  simp only
  generalize hm : a % 64 + b % 64 - max (a % 64) (b % 64) = m
  generalize hoff : max (a % 64) (b % 64) - m = off
  have hmo : m + off < 64 := by omega
  have hcase : (a % 64 = m ∧ b % 64 = m + off) ∨ (b % 64 = m ∧ a % 64 = m + off) := by omega
  split
  · rename_i hw
    rw [Row.w_modify _ _ _ _ hj]
    by_cases hjw : a / 64 = j / 64
    · rw [if_pos hjw, word_swap_same _ _ _ _ hmo]
      by_cases h1 : j = a
      · have e : swapIdx a b j = b := by simp [swapIdx, h1]
        rw [e, ← hw, hjw]
        congr 1
        split <;> (try split) <;> omega
      · by_cases h2 : j = b
        · have e : swapIdx a b j = a := by simp [swapIdx, h2]
          rw [e, hjw]
          congr 1
          split <;> (try split) <;> omega
        · have e : swapIdx a b j = j := by simp [swapIdx, h1, h2]
          rw [e]
          congr 1
          split <;> (try split) <;> omega
    · rw [if_neg hjw]
      have e : swapIdx a b j = j := by
        unfold swapIdx; split <;> (try split) <;> omega
      rw [e]
  · rename_i hw
    split
    · rename_i hma
      simp only
      rw [Row.w_modify _ _ _ _ (by simpa using hj), Row.w_modify _ _ _ _ hj]
      by_cases hjb : b / 64 = j / 64
      · have hja : ¬ a / 64 = j / 64 := by omega
        rw [if_pos hjb, if_neg hja, ← hjb, word_swap_max _ _ _ _ _ hmo]
        by_cases h2 : j = b
        · have h1 : ¬ j = a := by omega
          have e : swapIdx a b j = a := by simp [swapIdx, h2]
          have : j % 64 = m + off := by omega
          rw [e, if_pos this, ← hma]
        · have h1 : ¬ j = a := by omega
          have e : swapIdx a b j = j := by simp [swapIdx, h1, h2]
          have : ¬ j % 64 = m + off := by omega
          rw [e, if_neg this, hjb]
      · rw [if_neg hjb]
        by_cases hja : a / 64 = j / 64
        · rw [if_pos hja, ← hja, word_swap_min]
          by_cases h1 : j = a
          · have e : swapIdx a b j = b := by simp [swapIdx, h1]
            have : j % 64 = m ∧ j % 64 < 64 := by omega
            have hb' : b % 64 = m + off := by omega
            rw [e, if_pos this, hb']
          · have h2 : ¬ j = b := by omega
            have e : swapIdx a b j = j := by simp [swapIdx, h1, h2]
            have : ¬ (j % 64 = m ∧ j % 64 < 64) := by omega
            rw [e, if_neg this, hja]
        · rw [if_neg hja]
          have e : swapIdx a b j = j := by
            unfold swapIdx; split <;> (try split) <;> omega
          rw [e]
    · rename_i hma
      have hmb : b % 64 = m := by omega
      have hab : a % 64 = m + off := by omega
      simp only
      rw [Row.w_modify _ _ _ _ (by simpa using hj), Row.w_modify _ _ _ _ hj]
      by_cases hja : a / 64 = j / 64
      · have hjb : ¬ b / 64 = j / 64 := by omega
        rw [if_pos hja, if_neg hjb, ← hja, word_swap_max _ _ _ _ _ hmo]
        by_cases h1 : j = a
        · have e : swapIdx a b j = b := by simp [swapIdx, h1]
          have : j % 64 = m + off := by omega
          rw [e, if_pos this, ← hmb]
        · have h2 : ¬ j = b := by omega
          have e : swapIdx a b j = j := by simp [swapIdx, h1, h2]
          have : ¬ j % 64 = m + off := by omega
          rw [e, if_neg this, hja]
      · rw [if_neg hja]
        by_cases hjb : b / 64 = j / 64
        · rw [if_pos hjb, ← hjb, word_swap_min]
          by_cases h2 : j = b
          · have h1 : ¬ j = a := by omega
            have e : swapIdx a b j = a := by simp [swapIdx, h2]
            have : j % 64 = m ∧ j % 64 < 64 := by omega
            rw [e, if_pos this, hab]
          · have h1 : ¬ j = a := by omega
            have e : swapIdx a b j = j := by simp [swapIdx, h1, h2]
            have : ¬ (j % 64 = m ∧ j % 64 < 64) := by omega
            rw [e, if_neg this, hjb]
        · rw [if_neg hjb]
          have e : swapIdx a b j = j := by
            unfold swapIdx; split <;> (try split) <;> omega
          rw [e]

theorem colSwapInRows_shape (M : Mzd) (a b s e : Nat) :
    (M.colSwapInRows a b s e).nrows = M.nrows ∧ (M.colSwapInRows a b s e).ncols = M.ncols := by
  unfold colSwapInRows; split <;> exact ⟨rfl, rfl⟩

theorem colSwapInRows_row (M : Mzd) (a b s e i : Nat) (hab : a ≠ b) (hi : i < M.rows.size) :
    (M.colSwapInRows a b s e).row i = if s ≤ i ∧ i < e then colSwapRow (M.row i) a b else M.row i := by
  unfold colSwapInRows
  rw [if_neg hab, row_eq_getElem _ _ (by simpa using hi), row_eq_getElem _ _ hi]
  simp

theorem colSwapInRows_WF_P (M : Mzd) (a b s e : Nat) (h : M.WF) : (M.colSwapInRows a b s e).WF := by
  by_cases hab : a = b
  · unfold colSwapInRows; rw [if_pos hab]; exact h
  · obtain ⟨hn, hc⟩ := colSwapInRows_shape M a b s e
    have hw : (M.colSwapInRows a b s e).width = M.width := by unfold width; rw [hc]
    refine ⟨?_, ?_⟩
    · rw [hn, ← h.1]; unfold colSwapInRows; rw [if_neg hab]; simp
    · intro i hi
      rw [hn] at hi
      rw [colSwapInRows_row M a b s e i hab (by rw [h.1]; exact hi), hw]
      split
      · rw [colSwapRow_size_P]; exact h.2 i hi
      · exact h.2 i hi

/-- `mzd_col_swap_in_rows`, index form (no range condition on the columns: reads are total) -/
theorem colSwapInRows_bit_swapIdx (M : Mzd) (a b s e : Nat) (h : M.WF)
    (i j : Nat) (hi : i < M.nrows) (hj : j < 64 * M.width) :
    (M.colSwapInRows a b s e).bit i j = if s ≤ i ∧ i < e then M.bit i (swapIdx a b j) else M.bit i j := by
  by_cases hab : a = b
  · unfold colSwapInRows; rw [if_pos hab, hab]; simp [swapIdx_self]
  · rw [bit_def, colSwapInRows_row M a b s e i hab (by rw [h.1]; exact hi)]
    split
    · rw [colSwapRow_bit_P _ _ _ _ (by rw [h.2 i hi]; omega)]; rfl
    · rfl

/-- `mzd_col_swap_in_rows(M, cola, colb, start_row, stop_row)`: in the rows `start_row ≤ i < stop_row` the
    entries of columns `a` and `b` are exchanged; every other bit — other rows, other columns, and the
    excess bits of the last word — is unchanged. -/
theorem colSwapInRows_bit_P (M : Mzd) (a b s e : Nat) (h : M.WF) (ha : a < M.ncols) (hb : b < M.ncols)
    (i j : Nat) (hi : i < M.nrows) (hj : j < 64 * M.width) :
    (M.colSwapInRows a b s e).bit i j =
      if s ≤ i ∧ i < e ∧ j < M.ncols then
        (if j = a then M.bit i b else if j = b then M.bit i a else M.bit i j)
      else M.bit i j := by
  rw [colSwapInRows_bit_swapIdx M a b s e h i j hi hj]
  by_cases hjc : j < M.ncols
  · by_cases h1 : s ≤ i ∧ i < e
    · have : s ≤ i ∧ i < e ∧ j < M.ncols := ⟨h1.1, h1.2, hjc⟩
      rw [if_pos h1, if_pos this]
      unfold swapIdx
      split
      · rfl
      · split <;> rfl
    · have : ¬ (s ≤ i ∧ i < e ∧ j < M.ncols) := fun c => h1 ⟨c.1, c.2.1⟩
      rw [if_neg h1, if_neg this]
  · have : ¬ (s ≤ i ∧ i < e ∧ j < M.ncols) := fun c => hjc c.2.2
    rw [if_neg this, swapIdx_of_ge a b j M.ncols ha hb (by omega)]
    split <;> rfl

/-- non-vacuity for `colSwapInRows_bit_P`, with a sanity check of the statement across two words -/
example : ∃ (M : Mzd) (a b s e : Nat), M.WF ∧ a < M.ncols ∧ b < M.ncols ∧
    (M.colSwapInRows a b s e).bit 1 69 = M.bit 1 1 ∧ (M.colSwapInRows a b s e).bit 1 70 = M.bit 1 70 :=
  ⟨⟨2, 70, #[#[0x1#64, 0xFFFFFFFFFFFFFFC1#64], #[0x2#64, 0xFFFFFFFFFFFFFFC2#64]]⟩, 1, 69, 1, 2, by
    refine ⟨⟨rfl, ?_⟩, by decide, by decide, by decide, by decide⟩
    intro i hi
    have : i = 0 ∨ i = 1 := by simp at hi; omega
    rcases this with rfl | rfl <;> rfl⟩

/-! ### 3. column side: `_mzd_apply_p_right_even` -/

/-- a fold of `mzd_col_swap_in_rows` calls (each with its own row range): in row `i`, exactly the swaps
    whose row range contains `i` act, in the order of the list -/
theorem colSwapsFold_bit_swapsIdx {κ : Type} (ks : List κ) (a b s e : κ → Nat) (M : Mzd) (h : M.WF)
    (hk : ∀ k ∈ ks, a k < M.ncols ∧ b k < M.ncols)
    (i j : Nat) (hi : i < M.nrows) (hj : j < 64 * M.width) :
    (ks.foldl (fun M k => M.colSwapInRows (a k) (b k) (s k) (e k)) M).bit i j =
      M.bit i (swapsIdx ((ks.filter fun k => decide (s k ≤ i ∧ i < e k)).map fun k => (a k, b k)) j) := by
  induction ks generalizing M with
  | nil => rfl
  | cons k ks ih =>
    simp only [List.foldl_cons]
    have hk0 := hk k (List.mem_cons_self ..)
    have hk' : ∀ q ∈ ks, a q < M.ncols ∧ b q < M.ncols := fun q hq => hk q (List.mem_cons_of_mem _ hq)
    obtain ⟨hn, hc⟩ := colSwapInRows_shape M (a k) (b k) (s k) (e k)
    have hw : (M.colSwapInRows (a k) (b k) (s k) (e k)).width = M.width := by unfold width; rw [hc]
    rw [ih _ (colSwapInRows_WF_P M _ _ _ _ h) (by rw [hc]; exact hk') (by rw [hn]; exact hi)
      (by rw [hw]; exact hj)]
    have hcw : M.ncols ≤ 64 * M.width := by unfold width widthOf; omega
    have hlt : swapsIdx ((ks.filter fun k => decide (s k ≤ i ∧ i < e k)).map fun k => (a k, b k)) j
        < 64 * M.width := by
      apply swapsIdx_lt _ _ _ _ hj
      intro p hp
      simp only [List.mem_map, List.mem_filter] at hp
      obtain ⟨q, ⟨hq, _⟩, rfl⟩ := hp
      have := hk' q hq
      exact ⟨by omega, by omega⟩
    rw [colSwapInRows_bit_swapIdx M _ _ _ _ h i _ hi hlt]
    by_cases hr : s k ≤ i ∧ i < e k
    · rw [if_pos hr, List.filter_cons_of_pos (by simpa using hr)]; rfl
    · rw [if_neg hr, List.filter_cons_of_neg (by simpa using hr)]

theorem colSwapsFold_shape {κ : Type} (ks : List κ) (a b s e : κ → Nat) (M : Mzd) :
    (ks.foldl (fun M k => M.colSwapInRows (a k) (b k) (s k) (e k)) M).nrows = M.nrows ∧
    (ks.foldl (fun M k => M.colSwapInRows (a k) (b k) (s k) (e k)) M).ncols = M.ncols := by
  induction ks generalizing M with
  | nil => exact ⟨rfl, rfl⟩
  | cons k ks ih =>
    simp only [List.foldl_cons]
    obtain ⟨hn, hc⟩ := colSwapInRows_shape M (a k) (b k) (s k) (e k)
    rw [(ih _).1, (ih _).2, hn, hc]; exact ⟨rfl, rfl⟩

theorem colSwapsFold_WF {κ : Type} (ks : List κ) (a b s e : κ → Nat) (M : Mzd) (h : M.WF) :
    (ks.foldl (fun M k => M.colSwapInRows (a k) (b k) (s k) (e k)) M).WF := by
  induction ks generalizing M with
  | nil => exact h
  | cons k ks ih =>
    simp only [List.foldl_cons]
    exact ih _ (colSwapInRows_WF_P M _ _ _ _ h)

/-- a sequence of column swaps, all on the rows `s ≤ i < e` -/
def colSwaps (M : Mzd) (l : List (Nat × Nat)) (s e : Nat) : Mzd :=
  l.foldl (fun M p => M.colSwapInRows p.1 p.2 s e) M

theorem colSwaps_shape (M : Mzd) (l : List (Nat × Nat)) (s e : Nat) :
    (M.colSwaps l s e).nrows = M.nrows ∧ (M.colSwaps l s e).ncols = M.ncols :=
  colSwapsFold_shape l (·.1) (·.2) (fun _ => s) (fun _ => e) M

theorem colSwaps_WF (M : Mzd) (l : List (Nat × Nat)) (s e : Nat) (h : M.WF) : (M.colSwaps l s e).WF :=
  colSwapsFold_WF l (·.1) (·.2) (fun _ => s) (fun _ => e) M h

/-- a sequence of column swaps `τ₁, …, τₙ` on the rows `s ≤ i < e`: column `j` of the result is column
    `τ₁(τ₂(…τₙ(j)))` of the argument in these rows; other rows and the excess bits are unchanged -/
theorem colSwaps_bit (M : Mzd) (l : List (Nat × Nat)) (s e : Nat) (h : M.WF)
    (hl : ∀ p ∈ l, p.1 < M.ncols ∧ p.2 < M.ncols)
    (i j : Nat) (hi : i < M.nrows) (hj : j < 64 * M.width) :
    (M.colSwaps l s e).bit i j =
      if s ≤ i ∧ i < e ∧ j < M.ncols then M.bit i (swapsIdx l j) else M.bit i j := by
  unfold colSwaps
  rw [colSwapsFold_bit_swapsIdx l (·.1) (·.2) (fun _ => s) (fun _ => e) M h hl i j hi hj]
  by_cases hr : s ≤ i ∧ i < e
  · have e1 : (l.filter fun _ => decide (s ≤ i ∧ i < e)) = l := by
      apply List.filter_eq_self.mpr; intro _ _; simpa using hr
    have e2 : (l.map fun k => (k.1, k.2)) = l := by simp
    rw [e1, e2]
    by_cases hjc : j < M.ncols
    · rw [if_pos ⟨hr.1, hr.2, hjc⟩]
    · rw [if_neg (fun c => hjc c.2.2), swapsIdx_of_ge l M.ncols j hl (by omega)]
  · have e1 : (l.filter fun _ => decide (s ≤ i ∧ i < e)) = [] := by
      apply List.filter_eq_nil_iff.mpr; intro _ _; simpa using hr
    rw [e1, if_neg (fun c => hr ⟨c.1, c.2.1⟩)]; rfl


/-- one swap step of the permutation set-up loop of `_mzd_apply_p_right_even` -/
def permSwp (P perm : Array Nat) (i : Nat) : Array Nat :=
  (perm.setIfInBounds i (perm.getD (P.getD i 0) 0)).setIfInBounds (P.getD i 0) (perm.getD i 0)

/-- the column indices `k` visited by the set-up loop, in order -/
def pRightIdx (startCol length : Nat) (notrans : Bool) : List Nat :=
  if notrans then (List.range' startCol (length - startCol)).map fun i => length - i - 1
  else List.range' startCol (length - startCol)

theorem buildPermutation_eq (ncols : Nat) (P : Array Nat) (startCol length : Nat) (notrans : Bool) :
    buildPermutation ncols P startCol length notrans =
      (pRightIdx startCol length notrans).foldl (permSwp P) (Array.range ncols) := by
  unfold buildPermutation pRightIdx
  cases notrans
  · rfl
  · simp only [Bool.not_true, Bool.false_eq_true, if_false, if_true, List.foldl_map]
    rfl

theorem permSwp_spec (P perm : Array Nat) (i n : Nat) (f : Nat → Nat) (hs : perm.size = n)
    (hi : i < n) (hpi : P.getD i 0 < n) (hf : ∀ j, j < n → perm.getD j 0 = f j) :
    (permSwp P perm i).size = n ∧ ∀ j, j < n → (permSwp P perm i).getD j 0 = f (swapIdx i (P.getD i 0) j) := by
  refine ⟨by simp [permSwp, hs], ?_⟩
  intro j hj
  generalize hq : P.getD i 0 = q at hpi ⊢
  unfold permSwp swapIdx
  rw [hq]
  simp only [Array.getD_eq_getD_getElem?, Array.getElem?_setIfInBounds, Array.size_setIfInBounds, hs,
    hpi, hi, if_true]
  simp only [← Array.getD_eq_getD_getElem?]
  by_cases h1 : q = j
  · subst h1
    rw [if_pos rfl]
    by_cases h2 : q = i
    · subst h2; simp [hf _ hi]
    · have : ¬ i = q := fun c => h2 c.symm
      simp [h2, hf _ hi]
  · rw [if_neg h1]
    have h1' : ¬ j = q := fun c => h1 c.symm
    by_cases h2 : i = j
    · subst h2; simp [hf _ hpi]
    · have : ¬ j = i := fun c => h2 c.symm
      simp only [h2, this, h1', if_false]
      rw [← Array.getD_eq_getD_getElem?]; exact hf _ hj

/-- the set-up loop performs the swaps on the identity array: afterwards
    `perm[j] = (τ₁ ∘ … ∘ τₙ) j` for the visited `k₁, …, kₙ`, `τₘ = (kₘ ↔ P[kₘ])` -/
theorem foldl_permSwp_spec (P : Array Nat) (ks : List Nat) (n : Nat) (perm : Array Nat) (f : Nat → Nat)
    (hs : perm.size = n) (hk : ∀ k ∈ ks, k < n ∧ P.getD k 0 < n) (hf : ∀ j, j < n → perm.getD j 0 = f j) :
    (ks.foldl (permSwp P) perm).size = n ∧
    ∀ j, j < n → (ks.foldl (permSwp P) perm).getD j 0 = f (swapsIdx (ks.map fun k => (k, P.getD k 0)) j) := by
  induction ks generalizing perm f with
  | nil => exact ⟨hs, hf⟩
  | cons k ks ih =>
    simp only [List.foldl_cons, List.map_cons, swapsIdx_cons]
    have hk0 := hk k (List.mem_cons_self ..)
    obtain ⟨h1, h2⟩ := permSwp_spec P perm k n f hs hk0.1 hk0.2 hf
    exact ih (permSwp P perm k) (fun j => f (swapIdx k (P.getD k 0) j)) h1
      (fun q hq => hk q (List.mem_cons_of_mem _ hq)) h2

theorem mem_pRightIdx (startCol length : Nat) (notrans : Bool) (k : Nat)
    (hk : k ∈ pRightIdx startCol length notrans) : k < length := by
  unfold pRightIdx at hk
  cases notrans
  · simp only [Bool.false_eq_true, if_false, List.mem_range'_1] at hk; omega
  · simp only [if_true, List.mem_map, List.mem_range'_1] at hk
    obtain ⟨i, hi, rfl⟩ := hk; omega

/-- the swap list of `_mzd_apply_p_right_even(A, P, ·, start_col, notrans)`:
    `k ↔ P[k]` for `k = start_col, …, length-1` ascending when `notrans = false`, and for
    `k = length-1-start_col, …, 0` descending when `notrans = true`; `length = min(P.length, ncols)` -/
def pRightSwaps (P : Array Nat) (ncols startCol : Nat) (notrans : Bool) : List (Nat × Nat) :=
  (pRightIdx startCol (min P.size ncols) notrans).map fun k => (k, P.getD k 0)

theorem pRightSwaps_inrange (P : Array Nat) (ncols startCol : Nat) (notrans : Bool)
    (hP : ∀ k, k < min P.size ncols → P.getD k 0 < ncols) :
    ∀ p ∈ pRightSwaps P ncols startCol notrans, p.1 < ncols ∧ p.2 < ncols := by
  intro p hp
  unfold pRightSwaps at hp
  simp only [List.mem_map] at hp
  obtain ⟨k, hk, rfl⟩ := hp
  have := mem_pRightIdx _ _ _ _ hk
  exact ⟨by simp only; omega, hP k this⟩

theorem buildPermutation_spec (ncols : Nat) (P : Array Nat) (startCol : Nat) (notrans : Bool)
    (hP : ∀ k, k < min P.size ncols → P.getD k 0 < ncols) (j : Nat) (hj : j < ncols) :
    (buildPermutation ncols P startCol (min P.size ncols) notrans).getD j 0 =
      swapsIdx (pRightSwaps P ncols startCol notrans) j := by
  rw [buildPermutation_eq]
  refine (foldl_permSwp_spec P _ ncols (Array.range ncols) id (by simp) ?_ ?_).2 j hj
  · intro k hk
    have := mem_pRightIdx _ _ _ _ hk
    exact ⟨by omega, hP k this⟩
  · intro q hq; simp [Array.getD, hq]
end Mzd


/-- a fold that ORs at most one bit `k` into the accumulator at step `k` -/
theorem foldl_or_bits (f : Word → Nat → Word) (s : Nat → Bool)
    (hf : ∀ m k p, k < 64 → (f m k).getLsbD p = (m.getLsbD p || (decide (p = k) && s k)))
    (n : Nat) (hn : n ≤ 64) (p : Nat) :
    ((List.range n).foldl f 0).getLsbD p = (decide (p < n) && s p) := by
  induction n with
  | zero => simp
  | succ n ih =>
    rw [List.range_succ, List.foldl_append, List.foldl_cons, List.foldl_nil, hf _ _ _ (by omega),
      ih (by omega)]
    by_cases h1 : p = n
    · subst h1; simp
    · by_cases h2 : p < n
      · have : p < n + 1 := by omega
        simp [h1, h2, this]
      · have : ¬ p < n + 1 := by omega
        simp [h1, h2, this]

namespace Mzd

/-- word `j` of `write_mask` -/
def wmWord (perm : Array Nat) (ncols width : Nat) (hb : Word) (j : Nat) : Word :=
  let m : Word := (List.range (min 64 (ncols - 64 * j))).foldl
    (fun m k => if perm.getD (64 * j + k) 0 = 64 * j + k then m ||| ((1#64) <<< k) else m) 0
  if j + 1 = width then m ||| ~~~hb else m

/-- the word gathered by `mzd_write_col_to_rows_blockd` for destination word `j` -/
def gatherWord (perm : Array Nat) (arow : Row) (ncols j : Nat) : Word :=
  (List.range (min 64 (ncols - 64 * j))).foldl (fun v k =>
    let colb := perm.getD (64 * j + k) 0
    v ||| ((((arow.w (colb / 64)) &&& ((1#64) <<< (colb % 64))) >>> (colb % 64)) <<< k)) 0

theorem applyPRightEven_eq (A : Mzd) (P : Array Nat) (startRow startCol : Nat) (notrans : Bool) :
    applyPRightEven A P startRow startCol notrans =
      if A.nrows - startRow = 0 then A else
      A.withRows (A.rows.mapIdx fun r arow =>
        if r < startRow then arow else
          arow.mapIdx fun j w =>
            if j ≥ A.width then w else
            if 64 * j ≥ A.ncols ∨ ((Array.range A.width).map
                (wmWord (buildPermutation A.ncols P startCol (min P.size A.ncols) notrans)
                  A.ncols A.width A.hb)).getD j 0 = ffff then
              w &&& ((Array.range A.width).map
                (wmWord (buildPermutation A.ncols P startCol (min P.size A.ncols) notrans)
                  A.ncols A.width A.hb)).getD j 0
            else
              (w &&& ((Array.range A.width).map
                (wmWord (buildPermutation A.ncols P startCol (min P.size A.ncols) notrans)
                  A.ncols A.width A.hb)).getD j 0) |||
                gatherWord (buildPermutation A.ncols P startCol (min P.size A.ncols) notrans) arow A.ncols j) := rfl

theorem wmWord_getLsbD (A : Mzd) (perm : Array Nat) (j p : Nat) (hj : j < A.width) (hp : p < 64) :
    (wmWord perm A.ncols A.width A.hb j).getLsbD p =
      if 64 * j + p < A.ncols then decide (perm.getD (64 * j + p) 0 = 64 * j + p) else true := by
  have hc : 0 < A.ncols := by unfold width widthOf at hj; omega
  have hcw : 64 * (A.width - 1) < A.ncols ∧ A.ncols ≤ 64 * A.width := by unfold width widthOf; omega
  unfold wmWord
  simp only
  have hfold := foldl_or_bits
    (fun m k => if perm.getD (64 * j + k) 0 = 64 * j + k then m ||| ((1#64) <<< k) else m)
    (fun k => decide (perm.getD (64 * j + k) 0 = 64 * j + k))
    (by
      intro m k q hk
      generalize perm.getD (64 * j + k) 0 = c
      split
      · rename_i hc
        rw [BitVec.getLsbD_or, one_shl_getLsbD]
        by_cases hq : q = k
        · subst hq; simp [hk, hc]
        · simp [hq]
      · rename_i hc
        simp [hc])
    (min 64 (A.ncols - 64 * j)) (Nat.min_le_left _ _) p
  by_cases hl : j + 1 = A.width
  · rw [if_pos hl, BitVec.getLsbD_or, hfold, BitVec.getLsbD_not, hb_getLsbD A p hp hc]
    have e : 64 * (A.width - 1) + p = 64 * j + p := by omega
    rw [e]
    by_cases h1 : 64 * j + p < A.ncols
    · have : p < min 64 (A.ncols - 64 * j) := by omega
      simp [h1, this, hp]
    · have : ¬ p < min 64 (A.ncols - 64 * j) := by omega
      simp [h1, this, hp]
  · rw [if_neg hl, hfold]
    have h1 : 64 * j + p < A.ncols := by omega
    have : p < min 64 (A.ncols - 64 * j) := by omega
    simp [h1, this]

theorem gatherWord_getLsbD (perm : Array Nat) (arow : Row) (ncols j p : Nat) (hp : p < 64) :
    (gatherWord perm arow ncols j).getLsbD p =
      (decide (64 * j + p < ncols) &&
        (arow.w (perm.getD (64 * j + p) 0 / 64)).getLsbD (perm.getD (64 * j + p) 0 % 64)) := by
  unfold gatherWord
  have hfold := foldl_or_bits
    (fun v k =>
      let colb := perm.getD (64 * j + k) 0
      v ||| ((((arow.w (colb / 64)) &&& ((1#64) <<< (colb % 64))) >>> (colb % 64)) <<< k))
    (fun k => (arow.w (perm.getD (64 * j + k) 0 / 64)).getLsbD (perm.getD (64 * j + k) 0 % 64))
    (by
      intro m k q hk
      simp only
      generalize perm.getD (64 * j + k) 0 = c
      rw [BitVec.getLsbD_or, BitVec.getLsbD_shiftLeft, BitVec.getLsbD_ushiftRight, BitVec.getLsbD_and,
        one_shl_getLsbD]
      have hb : c % 64 < 64 := Nat.mod_lt _ (by omega)
      by_cases hq : q = k
      · subst hq; simp [hk, hb]
      · by_cases hq2 : q < k
        · simp [hq, hq2]
        · have : ¬ (q - k = 0) := by omega
          simp [hq, this])
    (min 64 (ncols - 64 * j)) (Nat.min_le_left _ _) p
  simp only at hfold
  rw [hfold]
  congr 1
  have : p < min 64 (ncols - 64 * j) ↔ 64 * j + p < ncols := by omega
  simp [this]


theorem getD_map_range (w : Nat) (g : Nat → Word) (k : Nat) (hk : k < w) :
    ((Array.range w).map g).getD k 0 = g k := by
  simp [Array.getD, hk]

theorem applyPRightEven_shape (A : Mzd) (P : Array Nat) (startRow startCol : Nat) (notrans : Bool) :
    (A.applyPRightEven P startRow startCol notrans).nrows = A.nrows ∧
    (A.applyPRightEven P startRow startCol notrans).ncols = A.ncols := by
  rw [applyPRightEven_eq]; split <;> exact ⟨rfl, rfl⟩

theorem applyPRightEven_WF (A : Mzd) (P : Array Nat) (startRow startCol : Nat) (notrans : Bool)
    (h : A.WF) : (A.applyPRightEven P startRow startCol notrans).WF := by
  rw [applyPRightEven_eq]
  split
  · exact h
  · refine ⟨by simp [h.1], ?_⟩
    intro i hi
    simp only [nrows_withRows] at hi
    have hi' : i < A.rows.size := by rw [h.1]; exact hi
    rw [row_eq_getElem _ _ (by simpa using hi')]
    simp only [rows_withRows, Array.getElem_mapIdx, width_withRows]
    have := h.2 i hi
    rw [row_eq_getElem _ _ hi'] at this
    split
    · exact this
    · simpa using this

/-- `_mzd_apply_p_right_even` in terms of the explicit permutation array it builds -/
theorem applyPRightEven_bit_perm (A : Mzd) (P : Array Nat) (startRow startCol : Nat) (notrans : Bool)
    (h : A.WF) (i j : Nat) (hi : i < A.nrows) (hj : j < 64 * A.width) :
    (A.applyPRightEven P startRow startCol notrans).bit i j =
      if startRow ≤ i ∧ j < A.ncols then
        A.bit i ((buildPermutation A.ncols P startCol (min P.size A.ncols) notrans).getD j 0)
      else A.bit i j := by
  rw [applyPRightEven_eq]
  by_cases h0 : A.nrows - startRow = 0
  · have : ¬ (startRow ≤ i ∧ j < A.ncols) := by omega
    rw [if_pos h0, if_neg this]
  rw [if_neg h0]
  generalize buildPermutation A.ncols P startCol (min P.size A.ncols) notrans = perm
  have hi' : i < A.rows.size := by rw [h.1]; exact hi
  have hsz : (A.rows[i]).size = A.width := by
    have := h.2 i hi
    rwa [row_eq_getElem _ _ hi'] at this
  have hwi : j / 64 < A.width := by omega
  have hp : j % 64 < 64 := Nat.mod_lt _ (by omega)
  have hjj : 64 * (j / 64) + j % 64 = j := by omega
  have hbit : ∀ c, (A.rows[i].w (c / 64)).getLsbD (c % 64) = A.bit i c := by
    intro c; rw [bit_def, row_eq_getElem _ _ hi']
  rw [bit_def, row_eq_getElem _ _ (by simpa using hi')]
  simp only [rows_withRows, Array.getElem_mapIdx]
  by_cases hr : i < startRow
  · have : ¬ (startRow ≤ i ∧ j < A.ncols) := by omega
    rw [if_pos hr, if_neg this, hbit]
  rw [if_neg hr, Row.w_mapIdx _ _ _ (by rw [hsz]; exact hwi), if_neg (by omega),
    getD_map_range _ _ _ hwi]
  have hwm := wmWord_getLsbD A perm (j / 64) (j % 64) hwi hp
  have hg := gatherWord_getLsbD perm A.rows[i] A.ncols (j / 64) (j % 64) hp
  rw [hjj] at hwm hg
  rw [hbit] at hg
  have hcw : A.ncols ≤ 64 * A.width := by unfold width widthOf; omega
  have hw0 : 64 * (j / 64) < A.ncols := by unfold width widthOf at hwi; omega
  split
  · rename_i hcond
    have hff : wmWord perm A.ncols A.width A.hb (j / 64) = ffff := by
      rcases hcond with hc | hc
      · omega
      · exact hc
    rw [hff] at hwm ⊢
    have e : (A.rows[i].w (j / 64) &&& ffff) = A.rows[i].w (j / 64) := by
      unfold ffff; rw [BitVec.and_allOnes]
    have e2 : ffff.getLsbD (j % 64) = true := by
      unfold ffff; rw [BitVec.getLsbD_allOnes]; simp [hp]
    rw [e, hbit]
    by_cases hjc : j < A.ncols
    · have hfix : perm.getD j 0 = j := by
        rw [if_pos hjc, e2] at hwm
        exact of_decide_eq_true hwm.symm
      rw [hfix]; split <;> rfl
    · have : ¬ (startRow ≤ i ∧ j < A.ncols) := fun c => hjc c.2
      rw [if_neg this]
  · rw [BitVec.getLsbD_or, BitVec.getLsbD_and, hwm, hg, hbit]
    by_cases hjc : j < A.ncols
    · have : startRow ≤ i ∧ j < A.ncols := ⟨by omega, hjc⟩
      rw [if_pos this, if_pos hjc]
      generalize perm.getD j 0 = c
      by_cases hfix : c = j
      · simp [hfix, hjc]
      · simp [hfix, hjc]
    · have : ¬ (startRow ≤ i ∧ j < A.ncols) := fun c => hjc c.2
      rw [if_neg this, if_neg hjc]
      simp [hjc]


theorem pRightIdx_false (startCol length : Nat) :
    pRightIdx startCol length false = List.range' startCol (length - startCol) := by
  simp [pRightIdx]

theorem pRightIdx_true (startCol length : Nat) :
    pRightIdx startCol length true = (List.range (length - startCol)).reverse := by
  unfold pRightIdx
  rw [if_pos rfl, List.range_eq_range', List.reverse_range', List.range'_eq_map_range, List.map_map]
  apply List.map_congr_left
  intro x _
  simp only [Function.comp]
  omega

/-- `_mzd_apply_p_right_even(A, P, start_row, start_col, notrans)` — the main theorem.
    For the rows `i ≥ start_row`, column `j < ncols` of the result is column `π j` of `A`, where `π` is what
    the identity becomes under the swaps `k ↔ P[k]` performed for `k = start_col, …, length-1` (ascending)
    when `notrans = false`, and for `k = length-1-start_col, …, 0` (descending) when `notrans = true`;
    `length = min(P.length, ncols)`.  Rows `< start_row` and all excess bits are unchanged. -/
theorem applyPRightEven_bit (A : Mzd) (P : Array Nat) (startRow startCol : Nat) (notrans : Bool)
    (h : A.WF) (hP : ∀ k, k < min P.size A.ncols → P.getD k 0 < A.ncols)
    (i j : Nat) (hi : i < A.nrows) (hj : j < 64 * A.width) :
    (A.applyPRightEven P startRow startCol notrans).bit i j =
      if startRow ≤ i ∧ j < A.ncols then
        A.bit i (swapsIdx (pRightSwaps P A.ncols startCol notrans) j)
      else A.bit i j := by
  rw [applyPRightEven_bit_perm A P startRow startCol notrans h i j hi hj]
  split
  · rename_i hc
    rw [buildPermutation_spec A.ncols P startCol notrans hP j hc.2]
  · rfl

/-- swap-sequence form: `_mzd_apply_p_right_even` is the sequence of `mzd_col_swap_in_rows(A, k, P[k],
    start_row, nrows)` for the same `k` in the same order -/
theorem applyPRightEven_eq_colSwaps (A : Mzd) (P : Array Nat) (startRow startCol : Nat) (notrans : Bool)
    (h : A.WF) (hP : ∀ k, k < min P.size A.ncols → P.getD k 0 < A.ncols) :
    A.applyPRightEven P startRow startCol notrans =
      A.colSwaps (pRightSwaps P A.ncols startCol notrans) startRow A.nrows := by
  obtain ⟨hn, hc⟩ := applyPRightEven_shape A P startRow startCol notrans
  obtain ⟨hn', hc'⟩ := colSwaps_shape A (pRightSwaps P A.ncols startCol notrans) startRow A.nrows
  have hw : (A.applyPRightEven P startRow startCol notrans).width = A.width := by unfold width; rw [hc]
  apply ext_of_bit _ _ (applyPRightEven_WF A P _ _ _ h) (colSwaps_WF A _ _ _ h) (by rw [hn, hn'])
    (by rw [hc, hc'])
  intro i j hi hj
  rw [hn] at hi
  rw [hw] at hj
  rw [applyPRightEven_bit A P _ _ _ h hP i j hi hj,
    colSwaps_bit A _ _ _ h (pRightSwaps_inrange P A.ncols startCol notrans hP) i j hi hj]
  by_cases hc : startRow ≤ i ∧ j < A.ncols
  · rw [if_pos hc, if_pos ⟨hc.1, hi, hc.2⟩]
  · rw [if_neg hc, if_neg (fun c => hc ⟨c.1, c.2.2⟩)]

/-- bit form of the same statement -/
theorem applyPRightEven_bit_colSwaps (A : Mzd) (P : Array Nat) (startRow startCol : Nat) (notrans : Bool)
    (h : A.WF) (hP : ∀ k, k < min P.size A.ncols → P.getD k 0 < A.ncols) (i j : Nat) :
    (A.applyPRightEven P startRow startCol notrans).bit i j =
      (A.colSwaps (pRightSwaps P A.ncols startCol notrans) startRow A.nrows).bit i j := by
  rw [applyPRightEven_eq_colSwaps A P startRow startCol notrans h hP]

/-- non-vacuity for the column-side theorems (2×70 view with non-zero excess bits, `P = [69, 1, 5]`) and
    a sanity check of the statement: with `notrans = false` the swaps are `0↔69, 1↔1, 2↔5` ascending -/
example : ∃ (A : Mzd) (P : Array Nat), A.WF ∧ 1 ≤ A.ncols ∧
    (∀ k, k < min P.size A.ncols → k ≤ P.getD k 0 ∧ P.getD k 0 < A.ncols) ∧
    (A.applyPRightEven P 0 0 false).bit 1 69 = A.bit 1 0 ∧
    (A.applyPRightEven P 0 0 false).bit 1 70 = A.bit 1 70 :=
  ⟨⟨2, 70, #[#[0x1#64, 0xFFFFFFFFFFFFFFC1#64], #[0x3#64, 0xFFFFFFFFFFFFFFC2#64]]⟩, #[69, 1, 5], by
    refine ⟨⟨rfl, ?_⟩, by decide, ?_, by decide +kernel, by decide +kernel⟩
    · intro i hi
      have : i = 0 ∨ i = 1 := by simp at hi; omega
      rcases this with rfl | rfl <;> rfl
    · intro k hk
      have : k = 0 ∨ k = 1 ∨ k = 2 := by simp at hk; omega
      rcases this with rfl | rfl | rfl <;> decide⟩


/-! ### 4. `mzd_apply_p_right`, `mzd_apply_p_right_trans`, the capped variants, `mzd_apply_p_right_trans_tri` -/

theorem pRightSwaps_zero_false (P : Array Nat) (ncols : Nat) :
    pRightSwaps P ncols 0 false = pSwaps P (min P.size ncols) := by
  unfold pRightSwaps pSwaps
  rw [pRightIdx_false, Nat.sub_zero, ← List.range_eq_range']

theorem pRightSwaps_zero_true (P : Array Nat) (ncols : Nat) :
    pRightSwaps P ncols 0 true = (pSwaps P (min P.size ncols)).reverse := by
  unfold pRightSwaps pSwaps
  rw [pRightIdx_true, Nat.sub_zero, List.map_reverse]

theorem applyPRight_eq (A : Mzd) (P : Array Nat) : A.applyPRight P = A.applyPRightEven P 0 0 true := by
  unfold applyPRight
  split
  · rename_i h0
    rw [applyPRightEven_eq, if_pos (by omega)]
  · rfl

theorem applyPRightTrans_eq (A : Mzd) (P : Array Nat) :
    A.applyPRightTrans P = A.applyPRightEven P 0 0 false := by
  unfold applyPRightTrans
  split
  · rename_i h0
    rw [applyPRightEven_eq, if_pos (by omega)]
  · rfl

theorem applyPRightEvenCapped_eq (A : Mzd) (P : Array Nat) (startRow startCol : Nat) :
    A.applyPRightEvenCapped P startRow startCol = A.applyPRightEven P startRow startCol true := by
  unfold applyPRightEvenCapped
  split
  · rename_i h0
    rw [applyPRightEven_eq, if_pos (by omega)]
  · rfl

theorem applyPRightTransEvenCapped_eq (A : Mzd) (P : Array Nat) (startRow startCol : Nat) :
    A.applyPRightTransEvenCapped P startRow startCol = A.applyPRightEven P startRow startCol false := by
  unfold applyPRightTransEvenCapped
  split
  · rename_i h0
    rw [applyPRightEven_eq, if_pos (by omega)]
  · rfl

theorem applyPRight_shape (A : Mzd) (P : Array Nat) :
    (A.applyPRight P).nrows = A.nrows ∧ (A.applyPRight P).ncols = A.ncols := by
  rw [applyPRight_eq]; exact applyPRightEven_shape ..
theorem applyPRightTrans_shape (A : Mzd) (P : Array Nat) :
    (A.applyPRightTrans P).nrows = A.nrows ∧ (A.applyPRightTrans P).ncols = A.ncols := by
  rw [applyPRightTrans_eq]; exact applyPRightEven_shape ..

theorem applyPRight_WF (A : Mzd) (P : Array Nat) (h : A.WF) : (A.applyPRight P).WF := by
  rw [applyPRight_eq]; exact applyPRightEven_WF A P 0 0 true h
theorem applyPRightTrans_WF (A : Mzd) (P : Array Nat) (h : A.WF) : (A.applyPRightTrans P).WF := by
  rw [applyPRightTrans_eq]; exact applyPRightEven_WF A P 0 0 false h
theorem applyPRightEvenCapped_WF (A : Mzd) (P : Array Nat) (sr sc : Nat) (h : A.WF) :
    (A.applyPRightEvenCapped P sr sc).WF := by
  rw [applyPRightEvenCapped_eq]; exact applyPRightEven_WF A P sr sc true h
theorem applyPRightTransEvenCapped_WF (A : Mzd) (P : Array Nat) (sr sc : Nat) (h : A.WF) :
    (A.applyPRightTransEvenCapped P sr sc).WF := by
  rw [applyPRightTransEvenCapped_eq]; exact applyPRightEven_WF A P sr sc false h

/-- `mzd_apply_p_right_trans(A, P)`: column `j` of the result is column `(τ₀ ∘ τ₁ ∘ … ∘ τₙ₋₁) j` of `A`,
    `τₖ = (k ↔ P[k])`, `n = min(P.length, ncols)`; excess bits unchanged -/
theorem applyPRightTrans_bit (A : Mzd) (P : Array Nat) (h : A.WF)
    (hP : ∀ k, k < min P.size A.ncols → P.getD k 0 < A.ncols)
    (i j : Nat) (hi : i < A.nrows) (hj : j < 64 * A.width) :
    (A.applyPRightTrans P).bit i j =
      if j < A.ncols then A.bit i (swapsIdx (pSwaps P (min P.size A.ncols)) j) else A.bit i j := by
  rw [applyPRightTrans_eq, applyPRightEven_bit A P 0 0 false h hP i j hi hj, pRightSwaps_zero_false]
  simp only [Nat.zero_le, true_and]

/-- `mzd_apply_p_right(A, P)`: column `j` of the result is column `(τₙ₋₁ ∘ … ∘ τ₁ ∘ τ₀) j` of `A`;
    excess bits unchanged -/
theorem applyPRight_bit (A : Mzd) (P : Array Nat) (h : A.WF)
    (hP : ∀ k, k < min P.size A.ncols → P.getD k 0 < A.ncols)
    (i j : Nat) (hi : i < A.nrows) (hj : j < 64 * A.width) :
    (A.applyPRight P).bit i j =
      if j < A.ncols then A.bit i (swapsIdx (pSwaps P (min P.size A.ncols)).reverse j) else A.bit i j := by
  rw [applyPRight_eq, applyPRightEven_bit A P 0 0 true h hP i j hi hj, pRightSwaps_zero_true]
  simp only [Nat.zero_le, true_and]

/-- transposed right application = the column swaps `k ↔ P[k]` for ascending `k` -/
theorem applyPRightTrans_eq_colSwaps (A : Mzd) (P : Array Nat) (h : A.WF)
    (hP : ∀ k, k < min P.size A.ncols → P.getD k 0 < A.ncols) :
    A.applyPRightTrans P = A.colSwaps (pSwaps P (min P.size A.ncols)) 0 A.nrows := by
  rw [applyPRightTrans_eq, applyPRightEven_eq_colSwaps A P 0 0 false h hP, pRightSwaps_zero_false]

/-- plain right application = the column swaps `k ↔ P[k]` for descending `k` -/
theorem applyPRight_eq_colSwaps (A : Mzd) (P : Array Nat) (h : A.WF)
    (hP : ∀ k, k < min P.size A.ncols → P.getD k 0 < A.ncols) :
    A.applyPRight P = A.colSwaps (pSwaps P (min P.size A.ncols)).reverse 0 A.nrows := by
  rw [applyPRight_eq, applyPRightEven_eq_colSwaps A P 0 0 true h hP, pRightSwaps_zero_true]

/-- `mzd_apply_p_right_trans_even_capped(A, P, start_row, start_col)` -/
theorem applyPRightTransEvenCapped_bit (A : Mzd) (P : Array Nat) (startRow startCol : Nat) (h : A.WF)
    (hP : ∀ k, k < min P.size A.ncols → P.getD k 0 < A.ncols)
    (i j : Nat) (hi : i < A.nrows) (hj : j < 64 * A.width) :
    (A.applyPRightTransEvenCapped P startRow startCol).bit i j =
      if startRow ≤ i ∧ j < A.ncols then
        A.bit i (swapsIdx ((List.range' startCol (min P.size A.ncols - startCol)).map
          fun k => (k, P.getD k 0)) j)
      else A.bit i j := by
  rw [applyPRightTransEvenCapped_eq, applyPRightEven_bit A P _ _ false h hP i j hi hj]
  unfold pRightSwaps; rw [pRightIdx_false]

/-- `mzd_apply_p_right_even_capped(A, P, start_row, start_col)`: NB the swaps performed are those for
    `k = length-1-start_col, …, 0`, i.e. `start_col` caps the *top* of the index range here -/
theorem applyPRightEvenCapped_bit (A : Mzd) (P : Array Nat) (startRow startCol : Nat) (h : A.WF)
    (hP : ∀ k, k < min P.size A.ncols → P.getD k 0 < A.ncols)
    (i j : Nat) (hi : i < A.nrows) (hj : j < 64 * A.width) :
    (A.applyPRightEvenCapped P startRow startCol).bit i j =
      if startRow ≤ i ∧ j < A.ncols then
        A.bit i (swapsIdx (pSwaps P (min P.size A.ncols - startCol)).reverse j)
      else A.bit i j := by
  rw [applyPRightEvenCapped_eq, applyPRightEven_bit A P _ _ true h hP i j hi hj]
  unfold pRightSwaps pSwaps; rw [pRightIdx_true, List.map_reverse]

/-- `(A P) P^T = A`, bit by bit (entries and excess bits) -/
theorem applyPRightTrans_applyPRight_bit (A : Mzd) (P : Array Nat) (h : A.WF)
    (hP : ∀ k, k < min P.size A.ncols → P.getD k 0 < A.ncols)
    (i j : Nat) (hi : i < A.nrows) (hj : j < 64 * A.width) :
    ((A.applyPRight P).applyPRightTrans P).bit i j = A.bit i j := by
  obtain ⟨hn, hc⟩ := applyPRight_shape A P
  have hw : (A.applyPRight P).width = A.width := by unfold width; rw [hc]
  have hcw : A.ncols ≤ 64 * A.width := by unfold width widthOf; omega
  have hin := pSwaps_inrange P _ _ hP (Nat.min_le_right _ _)
  rw [applyPRightTrans_bit _ P (applyPRight_WF A P h) (by rw [hc]; exact hP) i j (by rw [hn]; exact hi)
    (by rw [hw]; exact hj), hc]
  by_cases hjc : j < A.ncols
  · have hlt : swapsIdx (pSwaps P (min P.size A.ncols)) j < A.ncols := swapsIdx_lt _ _ j hin hjc
    rw [if_pos hjc, applyPRight_bit A P h hP i _ hi (by omega), if_pos hlt, swapsIdx_reverse_cancel]
  · rw [if_neg hjc, applyPRight_bit A P h hP i j hi hj, if_neg hjc]

/-- `(A P^T) P = A`, bit by bit (entries and excess bits) -/
theorem applyPRight_applyPRightTrans_bit (A : Mzd) (P : Array Nat) (h : A.WF)
    (hP : ∀ k, k < min P.size A.ncols → P.getD k 0 < A.ncols)
    (i j : Nat) (hi : i < A.nrows) (hj : j < 64 * A.width) :
    ((A.applyPRightTrans P).applyPRight P).bit i j = A.bit i j := by
  obtain ⟨hn, hc⟩ := applyPRightTrans_shape A P
  have hw : (A.applyPRightTrans P).width = A.width := by unfold width; rw [hc]
  have hcw : A.ncols ≤ 64 * A.width := by unfold width widthOf; omega
  have hin := pSwaps_inrange P _ _ hP (Nat.min_le_right _ _)
  rw [applyPRight_bit _ P (applyPRightTrans_WF A P h) (by rw [hc]; exact hP) i j (by rw [hn]; exact hi)
    (by rw [hw]; exact hj), hc]
  by_cases hjc : j < A.ncols
  · have hlt : swapsIdx (pSwaps P (min P.size A.ncols)).reverse j < A.ncols :=
      swapsIdx_lt _ _ j (fun p hp => hin p (List.mem_reverse.mp hp)) hjc
    rw [if_pos hjc, applyPRightTrans_bit A P h hP i _ hi (by omega), if_pos hlt, swapsIdx_cancel_reverse]
  · rw [if_neg hjc, applyPRightTrans_bit A P h hP i j hi hj, if_neg hjc]

/-- each right application is undone by its transposed counterpart (equality of views) -/
theorem applyPRightTrans_applyPRight (A : Mzd) (P : Array Nat) (h : A.WF)
    (hP : ∀ k, k < min P.size A.ncols → P.getD k 0 < A.ncols) :
    (A.applyPRight P).applyPRightTrans P = A := by
  obtain ⟨hn, hc⟩ := applyPRight_shape A P
  obtain ⟨hn', hc'⟩ := applyPRightTrans_shape (A.applyPRight P) P
  have hw : ((A.applyPRight P).applyPRightTrans P).width = A.width := by unfold width; rw [hc', hc]
  apply ext_of_bit _ _ (applyPRightTrans_WF _ P (applyPRight_WF A P h)) h (by rw [hn', hn]) (by rw [hc', hc])
  intro i j hi hj
  exact applyPRightTrans_applyPRight_bit A P h hP i j (by rw [← hn, ← hn']; exact hi) (by rw [← hw]; exact hj)

theorem applyPRight_applyPRightTrans (A : Mzd) (P : Array Nat) (h : A.WF)
    (hP : ∀ k, k < min P.size A.ncols → P.getD k 0 < A.ncols) :
    (A.applyPRightTrans P).applyPRight P = A := by
  obtain ⟨hn, hc⟩ := applyPRightTrans_shape A P
  obtain ⟨hn', hc'⟩ := applyPRight_shape (A.applyPRightTrans P) P
  have hw : ((A.applyPRightTrans P).applyPRight P).width = A.width := by unfold width; rw [hc', hc]
  apply ext_of_bit _ _ (applyPRight_WF _ P (applyPRightTrans_WF A P h)) h (by rw [hn', hn]) (by rw [hc', hc])
  intro i j hi hj
  exact applyPRight_applyPRightTrans_bit A P h hP i j (by rw [← hn, ← hn']; exact hi) (by rw [← hw]; exact hj)


theorem triFold_eq (ks : List Nat) (P : Array Nat) (M : Mzd) (n : Nat) (hn : M.nrows = n) :
    ks.foldl (fun M i => M.colSwapInRows i (P.getD i 0) 0 (min M.nrows i)) M =
      ks.foldl (fun M i => M.colSwapInRows i (P.getD i 0) 0 (min n i)) M := by
  induction ks generalizing M with
  | nil => rfl
  | cons k ks ih =>
    simp only [List.foldl_cons]
    rw [ih _ (by rw [(colSwapInRows_shape ..).1]; exact hn), hn]

/-- `mzd_apply_p_right_trans_tri(A, P)` is the sequence of `mzd_col_swap_in_rows(A, k, P[k], 0, min(nrows,k))`
    for `k = 0, …, ncols-1` ascending (the strip decomposition of the C code does not matter) -/
theorem applyPRightTransTri_eq (A : Mzd) (P : Array Nat) :
    A.applyPRightTransTri P =
      (List.range A.ncols).foldl (fun M k => M.colSwapInRows k (P.getD k 0) 0 (min A.nrows k)) A := by
  unfold applyPRightTransTri
  exact triFold_eq _ P A A.nrows rfl

theorem applyPRightTransTri_shape (A : Mzd) (P : Array Nat) :
    (A.applyPRightTransTri P).nrows = A.nrows ∧ (A.applyPRightTransTri P).ncols = A.ncols := by
  rw [applyPRightTransTri_eq]
  exact colSwapsFold_shape _ (fun k => k) (fun k => P.getD k 0) (fun _ => 0) (fun k => min A.nrows k) A

theorem applyPRightTransTri_WF (A : Mzd) (P : Array Nat) (h : A.WF) : (A.applyPRightTransTri P).WF := by
  rw [applyPRightTransTri_eq]
  exact colSwapsFold_WF _ (fun k => k) (fun k => P.getD k 0) (fun _ => 0) (fun k => min A.nrows k) A h

theorem filter_lt_range (n i : Nat) :
    (List.range n).filter (fun k => decide (i < k)) = List.range' (i + 1) (n - (i + 1)) := by
  induction n with
  | zero => simp
  | succ n ih =>
    rw [List.range_succ, List.filter_append, ih]
    by_cases h : i < n
    · have : n + 1 - (i + 1) = (n - (i + 1)) + 1 := by omega
      rw [this, List.range'_concat]
      have : i + 1 + (n - (i + 1)) = n := by omega
      simp [h, this]
    · have e1 : n - (i + 1) = 0 := by omega
      have e2 : n + 1 - (i + 1) = 0 := by omega
      simp [h, e1, e2]

/-- `mzd_apply_p_right_trans_tri(A, P)`, bit-level meaning: the swap `k ↔ P[k]` acts on the rows `< k`
    only, so row `i` of the result is row `i` of `A` with its columns permuted by the swaps
    `k = i+1, i+2, …, ncols-1` (ascending): column `j` of the result is column
    `(τᵢ₊₁ ∘ τᵢ₊₂ ∘ … ∘ τ_{ncols-1}) j` of `A`; excess bits are unchanged.
    (`P->length == A->ncols` is asserted by the C code; only `P[k] < ncols` for `k < ncols` is used.) -/
theorem applyPRightTransTri_bit (A : Mzd) (P : Array Nat) (h : A.WF)
    (hP : ∀ k, k < A.ncols → P.getD k 0 < A.ncols)
    (i j : Nat) (hi : i < A.nrows) (hj : j < 64 * A.width) :
    (A.applyPRightTransTri P).bit i j =
      if j < A.ncols then
        A.bit i (swapsIdx ((List.range' (i + 1) (A.ncols - (i + 1))).map fun k => (k, P.getD k 0)) j)
      else A.bit i j := by
  rw [applyPRightTransTri_eq,
    colSwapsFold_bit_swapsIdx _ (fun k => k) (fun k => P.getD k 0) (fun _ => 0) (fun k => min A.nrows k) A h
      (by intro k hk; rw [List.mem_range] at hk; exact ⟨hk, hP k hk⟩) i j hi hj]
  have e : (List.range A.ncols).filter (fun k => decide (0 ≤ i ∧ i < min A.nrows k)) =
      (List.range A.ncols).filter (fun k => decide (i < k)) := by
    apply List.filter_congr
    intro k _
    have : (0 ≤ i ∧ i < min A.nrows k) ↔ i < k := by omega
    exact decide_eq_decide.mpr this
  rw [e, filter_lt_range]
  split
  · rfl
  · rename_i hjc
    rw [swapsIdx_of_ge _ A.ncols j _ (by omega)]
    intro p hp
    simp only [List.mem_map, List.mem_range'_1] at hp
    obtain ⟨k, hk, rfl⟩ := hp
    exact ⟨by simp only; omega, hP k (by omega)⟩

/-- the same as a sequence of swaps per row: the result restricted to row `i` is what the full-height
    column swaps `k ↔ P[k]`, `k = i+1, …, ncols-1` ascending, give on row `i` -/
theorem applyPRightTransTri_bit_colSwaps (A : Mzd) (P : Array Nat) (h : A.WF)
    (hP : ∀ k, k < A.ncols → P.getD k 0 < A.ncols)
    (i j : Nat) (hi : i < A.nrows) (hj : j < 64 * A.width) :
    (A.applyPRightTransTri P).bit i j =
      (A.colSwaps ((List.range' (i + 1) (A.ncols - (i + 1))).map fun k => (k, P.getD k 0)) 0 A.nrows).bit i j := by
  rw [applyPRightTransTri_bit A P h hP i j hi hj, colSwaps_bit A _ 0 A.nrows h _ i j hi hj]
  · by_cases hjc : j < A.ncols
    · rw [if_pos hjc, if_pos ⟨Nat.zero_le _, hi, hjc⟩]
    · rw [if_neg hjc, if_neg (fun c => hjc c.2.2)]
  · intro p hp
    simp only [List.mem_map, List.mem_range'_1] at hp
    obtain ⟨k, hk, rfl⟩ := hp
    exact ⟨by simp only; omega, hP k (by omega)⟩

/-- non-vacuity for `applyPRightTransTri_bit` (3×3, `P = [2,2,2]`, `P.length = ncols`) and a sanity
    check: row 0 sees the swaps `1↔2, 2↔2`, row 1 sees `2↔2`, row 2 none -/
example : ∃ (A : Mzd) (P : Array Nat), A.WF ∧ P.size = A.ncols ∧
    (∀ k, k < A.ncols → k ≤ P.getD k 0 ∧ P.getD k 0 < A.ncols) ∧
    (A.applyPRightTransTri P).bit 0 1 = A.bit 0 2 ∧ (A.applyPRightTransTri P).bit 0 0 = A.bit 0 0 ∧
    (A.applyPRightTransTri P).bit 0 5 = A.bit 0 5 :=
  ⟨⟨3, 3, #[#[0xF4#64], #[0xF2#64], #[0xF1#64]]⟩, #[2, 2, 2], by
    refine ⟨⟨rfl, ?_⟩, rfl, ?_, by decide +kernel, by decide +kernel, by decide +kernel⟩
    · intro i hi
      have : i = 0 ∨ i = 1 ∨ i = 2 := by simp at hi; omega
      rcases this with rfl | rfl | rfl <;> rfl
    · intro k hk
      have : k = 0 ∨ k = 1 ∨ k = 2 := by simp at hk; omega
      rcases this with rfl | rfl | rfl <;> decide⟩

end Mzd

end M4ri
