/-
  W-level specifications of the row / column / bit-range primitives of `M4ri/Mzd.lean`
  (mirroring mzd.h:265-582 and mzd.c:188-207):
    writeBit/readBit, readBits, xorBits, clearBits, colSwapInRows/colSwap, rowAddOffset/rowAdd,
    rowClearOffset, combineEvenInPlaceWords, combineEvenWords.
  Standard shape (see RowSwap.lean): one `bit` equation covering entries, excess bits and untouched
  rows/columns, plus a `WF` theorem; a closed `example` beside each main theorem for non-vacuity.
-/
import M4riProofs.Basic
import M4riProofs.RowSwap
namespace M4ri

/-! ### generic helpers -/

/-- bit `j` of a row of words (row-level analogue of `Mzd.bit`) -/
def Row.bit (r : Row) (j : Nat) : Bool := (r.w (j / 64)).getLsbD (j % 64)

theorem Row.bit_def (r : Row) (j : Nat) : Row.bit r j = (r.w (j / 64)).getLsbD (j % 64) := rfl

/-- total version of `Row.w_modify` (no range hypothesis) -/
theorem Row.w_modify' (r : Row) (k : Nat) (f : Word → Word) (i : Nat) :
    Row.w (r.modify k f) i = if k = i ∧ i < r.size then f (r.w i) else r.w i := by
  by_cases h : i < r.size
  · rw [Row.w_modify _ _ _ _ h]; simp [h]
  · rw [Row.w_of_ge _ _ (by simp; omega), Row.w_of_ge _ _ (by omega)]; simp [h]

/-- total version of `Row.w_mapIdx` -/
theorem Row.w_mapIdx' (r : Row) (f : Nat → Word → Word) (i : Nat) :
    Row.w (r.mapIdx f) i = if i < r.size then f i (r.w i) else 0 := by
  by_cases h : i < r.size
  · rw [Row.w_mapIdx _ _ _ h]; simp [h]
  · rw [Row.w_of_ge _ _ (by simp; omega)]; simp [h]

theorem Row.bit_of_ge (r : Row) (j : Nat) (h : r.size ≤ j / 64) : Row.bit r j = false := by
  rw [Row.bit_def, Row.w_of_ge _ _ h]; simp

/-- bits of a row after one word was replaced through `f` -/
theorem Row.bit_modify (r : Row) (b : Nat) (f : Word → Word) (j : Nat) (hj : j / 64 < r.size) :
    Row.bit (r.modify b f) j =
      if j / 64 = b then (f (r.w (j / 64))).getLsbD (j % 64) else Row.bit r j := by
  rw [Row.bit_def, Row.w_modify']
  by_cases h : b = j / 64
  · subst h; simp [hj]
  · have : ¬ j / 64 = b := fun e => h e.symm
    simp [h, this, Row.bit_def]

/-- two positions coincide iff word index and bit index coincide -/
theorem pos_eq_iff (j c : Nat) : j = c ↔ (j / 64 = c / 64 ∧ j % 64 = c % 64) := by omega

namespace Mzd

theorem bit_eq_rowBit (M : Mzd) (i j : Nat) : M.bit i j = Row.bit (M.row i) j := rfl

/-- reading a bit after replacing row `x` -/
theorem bit_setRow (M : Mzd) (x : Nat) (r : Row) (hx : x < M.rows.size) (i j : Nat) :
    (M.setRow x r).bit i j = if i = x then Row.bit r j else M.bit i j := by
  rw [bit_eq_rowBit, row_setRow _ _ _ _ hx]
  by_cases h : x = i
  · subst h; simp
  · have : ¬ i = x := fun e => h e.symm
    simp [h, this, bit_eq_rowBit]

theorem lt_width_of_le_ncols (M : Mzd) (y n : Nat) (h : y + n ≤ M.ncols) : y + n ≤ 64 * M.width := by
  unfold width widthOf; omega

/-! ### 1. `mzd_read_bit` / `mzd_write_bit` -/

theorem readBit_eq (M : Mzd) (r c : Nat) : M.readBit r c = M.bit r c := rfl

/-- word level: `__M4RI_WRITE_BIT` -/
theorem writeBit_word_getLsbD (w : Word) (p q : Nat) (v : Bool) (hp : p < 64) (hq : q < 64) :
    ((w &&& ~~~((1#64) <<< p)) ||| ((if v then 1#64 else 0#64) <<< p)).getLsbD q =
      if q = p then v else w.getLsbD q := by
  simp only [BitVec.getLsbD_or, BitVec.getLsbD_and, BitVec.getLsbD_not, BitVec.getLsbD_shiftLeft,
    BitVec.getLsbD_one, hq, decide_true, Bool.true_and]
  by_cases h : q = p
  · subst h; cases v <;> simp
  · by_cases h2 : q < p
    · simp [h, h2]
    · have : ¬ q - p = 0 := by omega
      cases v <;> simp [h, h2, this]

theorem writeBitRow_size (r : Row) (c : Nat) (v : Bool) : (writeBitRow r c v).size = r.size := by
  simp [writeBitRow]

theorem writeBitRow_bit (r : Row) (c : Nat) (v : Bool) (hc : c / 64 < r.size) (j : Nat) :
    Row.bit (writeBitRow r c v) j = if j = c then v else Row.bit r j := by
  unfold writeBitRow
  rw [Row.bit_def, Row.w_modify']
  by_cases hw : c / 64 = j / 64
  · have hj : j / 64 < r.size := by omega
    simp only [hw, hj, and_self, if_true]
    rw [writeBit_word_getLsbD _ _ _ _ (Nat.mod_lt _ (by omega)) (Nat.mod_lt _ (by omega))]
    by_cases hb : j % 64 = c % 64
    · have : j = c := by omega
      simp [this]
    · have : ¬ j = c := by omega
      simp [hb, this, Row.bit_def]
  · have : ¬ j = c := by omega
    simp [hw, this, Row.bit_def]

theorem writeBit_WF (M : Mzd) (r c : Nat) (v : Bool) (h : M.WF) (hr : r < M.nrows) :
    (M.writeBit r c v).WF := by
  unfold writeBit
  apply WF.setRow h
  rw [writeBitRow_size]; exact h.2 r hr

/-- `mzd_write_bit`: entry `(r,c)` becomes `v`; every other bit of the view (including the excess bits of
    the last word) is unchanged. -/
theorem writeBit_bit (M : Mzd) (r c : Nat) (v : Bool) (h : M.WF) (hr : r < M.nrows) (hc : c < M.ncols)
    (i j : Nat) :
    (M.writeBit r c v).bit i j = if i = r ∧ j = c then v else M.bit i j := by
  unfold writeBit
  rw [bit_setRow _ _ _ (by rw [h.1]; exact hr)]
  by_cases hi : i = r
  · subst hi
    rw [writeBitRow_bit _ _ _ (by rw [h.2 _ hr]; exact word_lt_width M c hc)]
    simp [bit_eq_rowBit]
  · simp [hi]

/-- reading back what was written -/
theorem readBit_writeBit (M : Mzd) (r c : Nat) (v : Bool) (h : M.WF) (hr : r < M.nrows) (hc : c < M.ncols) :
    (M.writeBit r c v).readBit r c = v := by
  rw [readBit_eq, writeBit_bit M r c v h hr hc]; simp

/-- the 2×70 view with all-ones excess bits used for the non-vacuity examples -/
def exM : Mzd := ⟨2, 70, #[#[0x1#64, 0xFFFFFFFFFFFFFFC1#64], #[0x2#64, 0xFFFFFFFFFFFFFFC2#64]]⟩

theorem exM_WF : exM.WF := by
  refine ⟨rfl, ?_⟩
  intro i hi
  have : i = 0 ∨ i = 1 := by simp [exM] at hi; omega
  rcases this with rfl | rfl <;> rfl

/-- non-vacuity of `writeBit_bit` -/
example : exM.WF ∧ 1 < exM.nrows ∧ 69 < exM.ncols := ⟨exM_WF, by decide, by decide⟩

/-! ### 2. `mzd_read_bits` -/

/-- row level: bit `k` of `mzd_read_bits(…, y, n)` is the row bit `y + k` for `k < n`, and `0` above. No range
    hypothesis is needed because word reads are total. -/
theorem readBitsRow_getLsbD (r : Row) (y n : Nat) (hn : n ≤ 64) (k : Nat) :
    (readBitsRow r y n).getLsbD k = if k < n then Row.bit r (y + k) else false := by
  unfold readBitsRow
  simp only [Row.bit_def]
  by_cases hk : k < n
  · simp only [hk, if_true]
    by_cases hs : y % 64 + n ≤ 64
    · simp only [hs, if_true, BitVec.getLsbD_ushiftRight, BitVec.getLsbD_shiftLeft]
      have e1 : (y + k) / 64 = y / 64 := by omega
      have e2 : 64 - n + k - (64 - (y % 64 + n)) = (y + k) % 64 := by omega
      have e3 : 64 - n + k < 64 := by omega
      have e4 : ¬ 64 - n + k < 64 - (y % 64 + n) := by omega
      simp [e1, e2, e3, e4]
    · simp only [hs, if_false, BitVec.getLsbD_ushiftRight, BitVec.getLsbD_or, BitVec.getLsbD_shiftLeft]
      have e3 : 64 - n + k < 64 := by omega
      by_cases hlo : y % 64 + k < 64
      · have e1 : (y + k) / 64 = y / 64 := by omega
        have e2 : y % 64 + n - 64 + (64 - n + k) = (y + k) % 64 := by omega
        have e4 : 64 - n + k < 64 - (y % 64 + n - 64) := by omega
        simp [e1, e2, e3, e4]
      · have e1 : (y + k) / 64 = y / 64 + 1 := by omega
        have e2 : 64 - n + k - (64 - (y % 64 + n - 64)) = (y + k) % 64 := by omega
        have e4 : ¬ 64 - n + k < 64 - (y % 64 + n - 64) := by omega
        have e5 : 64 ≤ y % 64 + n - 64 + (64 - n + k) := by omega
        simp [e1, e2, e3, e4, BitVec.getLsbD_of_ge _ _ e5]
  · simp only [hk, if_false, BitVec.getLsbD_ushiftRight]
    exact BitVec.getLsbD_of_ge _ _ (by omega)

/-- `mzd_read_bits(M, x, y, n)` (`1 ≤ n ≤ 64`, `y + n ≤ ncols`): bit `k` of the result is the entry `(x, y + k)`
    for `k < n` and zero for `n ≤ k` (in particular nothing of the next word leaks in after the spill).
    The C preconditions `x < nrows`, `1 ≤ n`, `y + n ≤ ncols` only guard the memory accesses; in the model
    word reads are total, so the equation holds without them. -/
theorem readBits_getLsbD (M : Mzd) (x y n : Nat) (hn : n ≤ 64) (k : Nat) :
    (M.readBits x y n).getLsbD k = if k < n then M.bit x (y + k) else false := by
  unfold readBits
  rw [readBitsRow_getLsbD _ _ _ hn]; rfl

/-- non-vacuity / sanity: a read that spills into the second word of row 1 of `exM` -/
example : exM.readBits 1 60 10 = 0x20#64 := by decide

/-! ### 3. `mzd_xor_bits`, `mzd_clear_bits` -/

theorem xorBitsRow_size (r : Row) (y n : Nat) (v : Word) : (xorBitsRow r y n v).size = r.size := by
  simp only [xorBitsRow]; split <;> simp

theorem xorBitsRow_bit (r : Row) (y n : Nat) (v : Word) (hn : n ≤ 64) (hy : y + n ≤ 64 * r.size)
    (hv : ∀ k, n ≤ k → v.getLsbD k = false) (j : Nat) :
    Row.bit (xorBitsRow r y n v) j =
      if y ≤ j ∧ j < y + n then (Row.bit r j != v.getLsbD (j - y)) else Row.bit r j := by
  by_cases hjs : j / 64 < r.size
  case neg =>
    have : ¬ (y ≤ j ∧ j < y + n) := by omega
    rw [Row.bit_of_ge _ _ (by rw [xorBitsRow_size]; omega), Row.bit_of_ge _ _ (by omega)]
    simp [this]
  have hm : j % 64 < 64 := Nat.mod_lt _ (by omega)
  simp only [xorBitsRow]
  by_cases hs : n > 64 - y % 64
  · simp only [hs, if_true]
    rw [Row.bit_modify _ _ _ _ (by simpa using hjs), Row.bit_modify _ _ _ _ hjs]
    by_cases h1 : j / 64 = y / 64 + 1
    · have h1' : ¬ j / 64 = y / 64 := by omega
      have e0 : ¬ (y / 64 = j / 64 ∧ j / 64 < r.size) := by omega
      simp only [h1, if_true, Row.w_modify', BitVec.getLsbD_xor, BitVec.getLsbD_ushiftRight]
      rw [← h1]
      simp only [e0, if_false]
      by_cases hin : j < y + n
      · have : y ≤ j := by omega
        have e : 64 - y % 64 + j % 64 = j - y := by omega
        simp [hin, this, e, Row.bit_def]
      · have e : v.getLsbD (64 - y % 64 + j % 64) = false := by
          apply hv; omega
        simp [hin, e, Row.bit_def]
    · simp only [h1, if_false]
      by_cases h0 : j / 64 = y / 64
      · simp only [h0, if_true, BitVec.getLsbD_xor, BitVec.getLsbD_shiftLeft]
        rw [← h0]
        by_cases hlo : j % 64 < y % 64
        · have : ¬ y ≤ j := by omega
          simp [hlo, this, Row.bit_def]
        · have e1 : y ≤ j := by omega
          have e2 : j < y + n := by omega
          have e3 : j % 64 - y % 64 = j - y := by omega
          simp [hlo, e1, e2, e3, hm, Row.bit_def]
      · have : ¬ (y ≤ j ∧ j < y + n) := by omega
        simp [h0, this]
  · simp only [hs, if_false]
    rw [Row.bit_modify _ _ _ _ hjs]
    by_cases h0 : j / 64 = y / 64
    · simp only [h0, if_true, BitVec.getLsbD_xor, BitVec.getLsbD_shiftLeft]
      rw [← h0]
      by_cases hlo : j % 64 < y % 64
      · have : ¬ y ≤ j := by omega
        simp [hlo, this, Row.bit_def]
      · have e1 : y ≤ j := by omega
        have e3 : j % 64 - y % 64 = j - y := by omega
        by_cases e2 : j < y + n
        · simp [hlo, e1, e2, e3, hm, Row.bit_def]
        · have e : v.getLsbD (j - y) = false := by apply hv; omega
          simp [hlo, e2, e3, e, Row.bit_def]
    · have : ¬ (y ≤ j ∧ j < y + n) := by omega
      simp [h0, this]

theorem clearBitsRow_size (r : Row) (y n : Nat) : (clearBitsRow r y n).size = r.size := by
  simp only [clearBitsRow]; split <;> simp

theorem lowOnes_getLsbD (n p : Nat) (hn : n ≤ 64) :
    ((ffff : Word) >>> (64 - n)).getLsbD p = decide (p < n) := by
  simp only [ffff, BitVec.getLsbD_ushiftRight, BitVec.getLsbD_allOnes]
  congr 1; apply propext; omega

theorem clearBitsRow_bit (r : Row) (y n : Nat) (hn : n ≤ 64) (hy : y + n ≤ 64 * r.size) (j : Nat) :
    Row.bit (clearBitsRow r y n) j = if y ≤ j ∧ j < y + n then false else Row.bit r j := by
  by_cases hjs : j / 64 < r.size
  case neg =>
    have : ¬ (y ≤ j ∧ j < y + n) := by omega
    rw [Row.bit_of_ge _ _ (by rw [clearBitsRow_size]; omega), Row.bit_of_ge _ _ (by omega)]
    simp
  have hm : j % 64 < 64 := Nat.mod_lt _ (by omega)
  simp only [clearBitsRow]
  by_cases hs : n > 64 - y % 64
  · simp only [hs, if_true]
    rw [Row.bit_modify _ _ _ _ (by simpa using hjs), Row.bit_modify _ _ _ _ hjs]
    by_cases h1 : j / 64 = y / 64 + 1
    · have h1' : ¬ j / 64 = y / 64 := by omega
      have e0 : ¬ (y / 64 = j / 64 ∧ j / 64 < r.size) := by omega
      simp only [h1, if_true, Row.w_modify', BitVec.getLsbD_and, BitVec.getLsbD_not,
        BitVec.getLsbD_ushiftRight (_ >>> _), lowOnes_getLsbD _ _ hn]
      rw [← h1]
      simp only [e0, if_false]
      by_cases hin : j < y + n
      · have : y ≤ j := by omega
        have e : 64 - y % 64 + j % 64 < n := by omega
        simp [hin, this, e, hm]
      · have e : ¬ 64 - y % 64 + j % 64 < n := by omega
        simp [hin, e, hm, Row.bit_def]
    · simp only [h1, if_false]
      by_cases h0 : j / 64 = y / 64
      · simp only [h0, if_true, BitVec.getLsbD_and, BitVec.getLsbD_not, BitVec.getLsbD_shiftLeft,
          lowOnes_getLsbD _ _ hn]
        rw [← h0]
        by_cases hlo : j % 64 < y % 64
        · have : ¬ y ≤ j := by omega
          simp [hlo, this, hm, Row.bit_def]
        · have e1 : y ≤ j := by omega
          have e2 : j < y + n := by omega
          have e3 : j % 64 - y % 64 < n := by omega
          simp [hlo, e1, e2, e3, hm]
      · have : ¬ (y ≤ j ∧ j < y + n) := by omega
        simp [h0, this]
  · simp only [hs, if_false]
    rw [Row.bit_modify _ _ _ _ hjs]
    by_cases h0 : j / 64 = y / 64
    · simp only [h0, if_true, BitVec.getLsbD_and, BitVec.getLsbD_not, BitVec.getLsbD_shiftLeft,
          lowOnes_getLsbD _ _ hn]
      rw [← h0]
      by_cases hlo : j % 64 < y % 64
      · have : ¬ y ≤ j := by omega
        simp [hlo, this, hm, Row.bit_def]
      · have e1 : y ≤ j := by omega
        by_cases e2 : j < y + n
        · have e3 : j % 64 - y % 64 < n := by omega
          simp [hlo, e1, e2, e3, hm]
        · have e3 : ¬ j % 64 - y % 64 < n := by omega
          simp [hlo, e2, e3, hm, Row.bit_def]
    · have : ¬ (y ≤ j ∧ j < y + n) := by omega
      simp [h0, this]


theorem xorBits_WF (M : Mzd) (x y n : Nat) (v : Word) (h : M.WF) (hx : x < M.nrows) :
    (M.xorBits x y n v).WF := by
  unfold xorBits
  apply WF.setRow h
  rw [xorBitsRow_size]; exact h.2 x hx

/-- `mzd_xor_bits(M, x, y, n, values)`, general form: the range may extend into the excess bits of the last
    word (`y + n ≤ 64·width`); exactly the positions `(x, y) … (x, y+n-1)` are xored with the value bits. -/
theorem xorBits_bit' (M : Mzd) (x y n : Nat) (v : Word) (h : M.WF) (hx : x < M.nrows) (hn : n ≤ 64)
    (hy : y + n ≤ 64 * M.width) (hv : ∀ k, n ≤ k → v.getLsbD k = false) (i j : Nat) :
    (M.xorBits x y n v).bit i j =
      if i = x ∧ y ≤ j ∧ j < y + n then (M.bit i j != v.getLsbD (j - y)) else M.bit i j := by
  unfold xorBits
  rw [bit_setRow _ _ _ (by rw [h.1]; exact hx)]
  by_cases hi : i = x
  · subst hi
    rw [xorBitsRow_bit _ _ _ _ hn (by rw [h.2 _ hx]; exact hy) hv]
    simp [bit_eq_rowBit]
  · simp [hi]

/-- `mzd_xor_bits(M, x, y, n, values)` (`n ≤ 64`, `y + n ≤ ncols`, no value bits at or above `n`): exactly the
    entries `(x, y) … (x, y+n-1)` are xored with the value bits; other rows, other columns and the excess bits
    are unchanged.  (`1 ≤ n` is a C precondition only because of the shift; the equation also holds for `n = 0`.) -/
theorem xorBits_bit (M : Mzd) (x y n : Nat) (v : Word) (h : M.WF) (hx : x < M.nrows) (hn : n ≤ 64)
    (hy : y + n ≤ M.ncols) (hv : ∀ k, n ≤ k → v.getLsbD k = false) (i j : Nat) :
    (M.xorBits x y n v).bit i j =
      if i = x ∧ y ≤ j ∧ j < y + n then (M.bit i j != v.getLsbD (j - y)) else M.bit i j :=
  xorBits_bit' M x y n v h hx hn (lt_width_of_le_ncols M y n hy) hv i j

/-- non-vacuity of `xorBits_bit`: a 10-bit value written across the word boundary of `exM` -/
example : exM.WF ∧ 1 < exM.nrows ∧ 10 ≤ 64 ∧ 60 + 10 ≤ exM.ncols ∧
    (∀ k, 10 ≤ k → (0x2AB#64).getLsbD k = false) := by
  refine ⟨exM_WF, by decide, by decide, by decide, ?_⟩
  intro k hk
  by_cases h : k < 64
  · have : ∀ k : Fin 64, 10 ≤ k.val → (0x2AB#64).getLsbD k.val = false := by decide
    exact this ⟨k, h⟩ hk
  · exact BitVec.getLsbD_of_ge _ _ (by omega)

theorem clearBits_WF (M : Mzd) (x y n : Nat) (h : M.WF) (hx : x < M.nrows) : (M.clearBits x y n).WF := by
  unfold clearBits
  apply WF.setRow h
  rw [clearBitsRow_size]; exact h.2 x hx

/-- `mzd_clear_bits(M, x, y, n)`, general form (`y + n ≤ 64·width`, as used by `mzd_extract_l`, which clears up
    to the end of a word). -/
theorem clearBits_bit' (M : Mzd) (x y n : Nat) (h : M.WF) (hx : x < M.nrows) (hn : n ≤ 64)
    (hy : y + n ≤ 64 * M.width) (i j : Nat) :
    (M.clearBits x y n).bit i j = if i = x ∧ y ≤ j ∧ j < y + n then false else M.bit i j := by
  unfold clearBits
  rw [bit_setRow _ _ _ (by rw [h.1]; exact hx)]
  by_cases hi : i = x
  · subst hi
    rw [clearBitsRow_bit _ _ _ hn (by rw [h.2 _ hx]; exact hy)]
    simp [bit_eq_rowBit]
  · simp [hi]

/-- `mzd_clear_bits(M, x, y, n)` (`n ≤ 64`, `y + n ≤ ncols`): exactly the entries `(x, y) … (x, y+n-1)` become
    zero; other rows, other columns and the excess bits are unchanged. -/
theorem clearBits_bit (M : Mzd) (x y n : Nat) (h : M.WF) (hx : x < M.nrows) (hn : n ≤ 64)
    (hy : y + n ≤ M.ncols) (i j : Nat) :
    (M.clearBits x y n).bit i j = if i = x ∧ y ≤ j ∧ j < y + n then false else M.bit i j :=
  clearBits_bit' M x y n h hx hn (lt_width_of_le_ncols M y n hy) i j

/-- non-vacuity of `clearBits_bit` -/
example : exM.WF ∧ 1 < exM.nrows ∧ 10 ≤ 64 ∧ 60 + 10 ≤ exM.ncols := ⟨exM_WF, by decide, by decide, by decide⟩

/-! ### 4. `mzd_col_swap_in_rows`, `mzd_col_swap` -/

theorem oneShl_getLsbD (m p : Nat) (hp : p < 64) : ((1#64) <<< m).getLsbD p = decide (p = m) := by
  simp only [BitVec.getLsbD_shiftLeft, BitVec.getLsbD_one, hp, decide_true, Bool.true_and]
  by_cases h : p = m
  · subst h; simp
  · by_cases h2 : p < m
    · simp [h, h2]
    · have : ¬ p - m = 0 := by omega
      simp [h, h2, this]

/-- same-word exchange of bits `mn` and `mn + off` -/
theorem swapWord_same (w : Word) (mn off p : Nat) (h0 : 0 < off) (h : mn + off < 64) (hp : p < 64) :
    (w ^^^ (((w ^^^ (w >>> off)) &&& ((1#64) <<< mn)) ||| (((w ^^^ (w >>> off)) &&& ((1#64) <<< mn)) <<< off))).getLsbD p =
      if p = mn then w.getLsbD (mn + off) else if p = mn + off then w.getLsbD mn else w.getLsbD p := by
  have hpo : p - off < 64 := by omega
  simp only [BitVec.getLsbD_xor, BitVec.getLsbD_or, BitVec.getLsbD_and, BitVec.getLsbD_shiftLeft _ off,
    BitVec.getLsbD_ushiftRight, hp, decide_true, Bool.true_and, oneShl_getLsbD _ _ hp,
    oneShl_getLsbD _ _ hpo]
  by_cases h1 : p = mn
  · subst h1
    by_cases h3 : p < off
    · simp [h3, Nat.add_comm]
    · have h4 : ¬ p - off = p := by omega
      simp [h4, Nat.add_comm]
  · by_cases h2 : p = mn + off
    · subst h2
      have h3 : ¬ mn + off < off := by omega
      have h4 : mn + off - off = mn := by omega
      simp only [h1, h3, h4, decide_false, decide_true, Bool.and_false, Bool.false_or, Bool.not_false,
        Bool.true_and, Bool.and_true, if_false, if_true, Nat.add_comm off]
      cases w.getLsbD mn <;> cases w.getLsbD (mn + off) <;> rfl
    · by_cases h3 : p < off
      · simp [h1, h2, h3]
      · have h4 : ¬ p - off = mn := by omega
        simp [h1, h2, h4]

/-- different-word exchange, the word holding the lower bit index -/
theorem swapWord_low (u v : Word) (mn off p : Nat) (hp : p < 64) :
    (u ^^^ ((u ^^^ (v >>> off)) &&& ((1#64) <<< mn))).getLsbD p =
      if p = mn then v.getLsbD (mn + off) else u.getLsbD p := by
  simp only [BitVec.getLsbD_xor, BitVec.getLsbD_and, BitVec.getLsbD_ushiftRight]
  rw [oneShl_getLsbD _ _ hp]
  by_cases h1 : p = mn
  · subst h1; simp [Nat.add_comm]
  · simp [h1]

/-- different-word exchange, the word holding the higher bit index -/
theorem swapWord_high (u v : Word) (mn off p : Nat) (h : mn + off < 64) (hp : p < 64) :
    (v ^^^ (((u ^^^ (v >>> off)) &&& ((1#64) <<< mn)) <<< off)).getLsbD p =
      if p = mn + off then u.getLsbD mn else v.getLsbD p := by
  simp only [BitVec.getLsbD_xor, BitVec.getLsbD_and, BitVec.getLsbD_shiftLeft _ off,
    BitVec.getLsbD_ushiftRight, hp, decide_true, Bool.true_and]
  by_cases h3 : p < off
  · have : ¬ p = mn + off := by omega
    simp [h3, this]
  · rw [oneShl_getLsbD _ _ (by omega)]
    by_cases h2 : p = mn + off
    · subst h2
      have h4 : mn + off - off = mn := by omega
      simp only [h3, h4, decide_false, decide_true, Bool.not_false, Bool.true_and, Bool.and_true,
        if_true, Nat.add_comm off]
      cases u.getLsbD mn <;> cases v.getLsbD (mn + off) <;> rfl
    · have h4 : ¬ p - off = mn := by omega
      simp [h2, h3, h4]


theorem colSwapRow_size (r : Row) (a b : Nat) : (colSwapRow r a b).size = r.size := by
  simp only [colSwapRow]
  split
  · simp
  · split <;> simp

/-- row level: `colSwapRow` exchanges the bits at positions `a` and `b` and keeps every other bit -/
theorem colSwapRow_bit (r : Row) (a b : Nat) (hne : a ≠ b) (ha : a / 64 < r.size) (hb : b / 64 < r.size)
    (j : Nat) :
    Row.bit (colSwapRow r a b) j =
      if j = a then Row.bit r b else if j = b then Row.bit r a else Row.bit r j := by
  by_cases hjs : j / 64 < r.size
  case neg =>
    have h1 : ¬ j = a := by omega
    have h2 : ¬ j = b := by omega
    rw [Row.bit_of_ge _ j (by rw [colSwapRow_size]; omega), Row.bit_of_ge r j (by omega)]
    simp [h1, h2]
  have hm : j % 64 < 64 := Nat.mod_lt _ (by omega)
  have hma : a % 64 < 64 := Nat.mod_lt _ (by omega)
  have hmb : b % 64 < 64 := Nat.mod_lt _ (by omega)
  have hba : ¬ b = a := fun e => hne e.symm
  simp only [colSwapRow]
  by_cases hw : a / 64 = b / 64
  · -- same word
    have hab' : ¬ a % 64 = b % 64 := by omega
    have hba' : ¬ b % 64 = a % 64 := by omega
    simp only [hw, if_true]
    rw [Row.bit_modify _ _ _ _ hjs]
    by_cases h0 : j / 64 = b / 64
    · simp only [h0, if_true]
      by_cases hle : a % 64 ≤ b % 64
      · have e1 : max (a % 64) (b % 64) = b % 64 := by omega
        have e2 : a % 64 + b % 64 - b % 64 = a % 64 := by omega
        rw [e1, e2]
        rw [swapWord_same _ _ _ _ (by omega) (by omega) hm]
        have e3 : a % 64 + (b % 64 - a % 64) = b % 64 := by omega
        rw [e3]
        by_cases h1 : j = a
        · subst h1
          simp [Row.bit_def]
        · have h1' : ¬ j % 64 = a % 64 := by omega
          by_cases h2 : j = b
          · subst h2
            simp [hba, hba', Row.bit_def, hw]
          · have h2' : ¬ j % 64 = b % 64 := by omega
            simp [h1, h1', h2, h2', Row.bit_def, h0]
      · have e1 : max (a % 64) (b % 64) = a % 64 := by omega
        have e2 : a % 64 + b % 64 - a % 64 = b % 64 := by omega
        rw [e1, e2]
        rw [swapWord_same _ _ _ _ (by omega) (by omega) hm]
        have e3 : b % 64 + (a % 64 - b % 64) = a % 64 := by omega
        rw [e3]
        by_cases h1 : j = a
        · subst h1
          simp [hab', Row.bit_def]
        · have h1' : ¬ j % 64 = a % 64 := by omega
          by_cases h2 : j = b
          · subst h2
            simp [hba, Row.bit_def, hw]
          · have h2' : ¬ j % 64 = b % 64 := by omega
            simp [h1, h1', h2, h2', Row.bit_def, h0]
    · have h1 : ¬ j = a := by omega
      have h2 : ¬ j = b := by omega
      simp [h0, h1, h2]
  · -- different words
    have hw' : ¬ b / 64 = a / 64 := fun e => hw e.symm
    simp only [hw, if_false]
    by_cases hle : a % 64 ≤ b % 64
    · have e1 : max (a % 64) (b % 64) = b % 64 := by omega
      have e2 : a % 64 + b % 64 - b % 64 = a % 64 := by omega
      simp only [e1, e2, if_true]
      rw [Row.bit_modify _ _ _ _ (by simpa using hjs), Row.bit_modify _ _ _ _ hjs]
      by_cases hjb : j / 64 = b / 64
      · have hja : ¬ j / 64 = a / 64 := by omega
        have h1 : ¬ j = a := by omega
        simp only [hjb, if_true, Row.w_modify', hw, false_and, if_false]
        rw [swapWord_high _ _ _ _ _ (by omega) hm]
        have e3 : a % 64 + (b % 64 - a % 64) = b % 64 := by omega
        rw [e3]
        by_cases h2 : j = b
        · subst h2; simp [h1, Row.bit_def]
        · have h2' : ¬ j % 64 = b % 64 := by omega
          simp [h1, h2, h2', Row.bit_def, hjb]
      · simp only [hjb, if_false]
        have h2 : ¬ j = b := by omega
        by_cases hja : j / 64 = a / 64
        · simp only [hja, if_true]
          rw [swapWord_low _ _ _ _ _ hm]
          have e3 : a % 64 + (b % 64 - a % 64) = b % 64 := by omega
          rw [e3]
          by_cases h1 : j = a
          · subst h1; simp [Row.bit_def]
          · have h1' : ¬ j % 64 = a % 64 := by omega
            simp [h1, h1', h2, Row.bit_def, hja]
        · have h1 : ¬ j = a := by omega
          simp [hja, h1, h2]
    · have e1 : max (a % 64) (b % 64) = a % 64 := by omega
      have e2 : a % 64 + b % 64 - a % 64 = b % 64 := by omega
      have e4 : ¬ b % 64 = a % 64 := by omega
      simp only [e1, e2, e4, if_false]
      rw [Row.bit_modify _ _ _ _ (by simpa using hjs), Row.bit_modify _ _ _ _ hjs]
      by_cases hja : j / 64 = a / 64
      · have hjb : ¬ j / 64 = b / 64 := by omega
        have h2 : ¬ j = b := by omega
        simp only [hja, if_true, Row.w_modify', hw', false_and, if_false]
        rw [swapWord_high _ _ _ _ _ (by omega) hm]
        have e3 : b % 64 + (a % 64 - b % 64) = a % 64 := by omega
        rw [e3]
        by_cases h1 : j = a
        · subst h1; simp [Row.bit_def]
        · have h1' : ¬ j % 64 = a % 64 := by omega
          simp [h1, h1', h2, Row.bit_def, hja]
      · simp only [hja, if_false]
        have h1 : ¬ j = a := by omega
        by_cases hjb : j / 64 = b / 64
        · simp only [hjb, if_true]
          rw [swapWord_low _ _ _ _ _ hm]
          have e3 : b % 64 + (a % 64 - b % 64) = a % 64 := by omega
          rw [e3]
          by_cases h2 : j = b
          · subst h2; simp [h1, Row.bit_def]
          · have h2' : ¬ j % 64 = b % 64 := by omega
            simp [h1, h2, h2', Row.bit_def, hjb]
        · have h2 : ¬ j = b := by omega
          simp [hjb, h1, h2]


theorem row_withRows_mapIdx (M : Mzd) (f : Nat → Row → Row) (i : Nat) (hi : i < M.rows.size) :
    (M.withRows (M.rows.mapIdx f)).row i = f i (M.row i) := by
  simp [row, Array.getD, hi]

theorem bit_of_ge_rows (M : Mzd) (i j : Nat) (hi : M.rows.size ≤ i) : M.bit i j = false := by
  rw [bit_def, row_of_ge _ _ hi]; simp [Row.w]

theorem colSwapInRows_WF (M : Mzd) (cola colb startRow stopRow : Nat) (h : M.WF) :
    (M.colSwapInRows cola colb startRow stopRow).WF := by
  unfold colSwapInRows
  split
  · exact h
  · refine ⟨by simpa using h.1, ?_⟩
    intro i hi
    simp only [nrows_withRows] at hi
    rw [row_withRows_mapIdx _ _ _ (by rw [h.1]; exact hi), width_withRows]
    split
    · rw [colSwapRow_size]; exact h.2 i hi
    · exact h.2 i hi

/-- `mzd_col_swap_in_rows(M, cola, colb, start_row, stop_row)` (`cola, colb < ncols`): in the rows
    `start_row ≤ i < stop_row` the entries of columns `cola` and `colb` are exchanged; every other bit of the
    view — other rows, other columns, excess bits — is unchanged.  Covers both the same-word and the
    different-word code path, and `cola = colb`. -/
theorem colSwapInRows_bit (M : Mzd) (cola colb startRow stopRow : Nat) (h : M.WF)
    (ha : cola < M.ncols) (hb : colb < M.ncols) (i j : Nat) :
    (M.colSwapInRows cola colb startRow stopRow).bit i j =
      if startRow ≤ i ∧ i < stopRow then
        (if j = cola then M.bit i colb else if j = colb then M.bit i cola else M.bit i j)
      else M.bit i j := by
  unfold colSwapInRows
  by_cases hab : cola = colb
  · subst hab
    by_cases hj : j = cola
    · subst hj; simp
    · simp [hj]
  simp only [hab, if_false]
  by_cases hi : i < M.nrows
  · rw [bit_eq_rowBit, row_withRows_mapIdx _ _ _ (by rw [h.1]; exact hi)]
    by_cases hr : startRow ≤ i ∧ i < stopRow
    · simp only [hr, and_self, if_true]
      rw [colSwapRow_bit _ _ _ hab (by rw [h.2 _ hi]; exact word_lt_width M _ ha)
        (by rw [h.2 _ hi]; exact word_lt_width M _ hb)]
      rfl
    · simp only [hr, if_false]; rfl
  · have hsz : M.rows.size ≤ i := by rw [h.1]; omega
    rw [bit_of_ge_rows _ _ _ (by simpa using hsz)]
    simp [bit_of_ge_rows M i _ hsz]

theorem colSwap_WF (M : Mzd) (cola colb : Nat) (h : M.WF) : (M.colSwap cola colb).WF :=
  colSwapInRows_WF M cola colb 0 M.nrows h

/-- `mzd_col_swap(M, cola, colb)`: columns `cola` and `colb` are exchanged in every row, all other bits kept. -/
theorem colSwap_bit (M : Mzd) (cola colb : Nat) (h : M.WF) (ha : cola < M.ncols) (hb : colb < M.ncols)
    (i j : Nat) :
    (M.colSwap cola colb).bit i j =
      if j = cola then M.bit i colb else if j = colb then M.bit i cola else M.bit i j := by
  unfold colSwap
  rw [colSwapInRows_bit M cola colb 0 M.nrows h ha hb]
  by_cases hi : i < M.nrows
  · simp [hi]
  · have hsz : M.rows.size ≤ i := by rw [h.1]; omega
    simp [hi, bit_of_ge_rows M i _ hsz]

/-- non-vacuity of `colSwapInRows_bit` / `colSwap_bit`: a different-word swap (columns 3 and 69) and a
    same-word one (columns 64 and 69) on `exM` -/
example : exM.WF ∧ 3 < exM.ncols ∧ 64 < exM.ncols ∧ 69 < exM.ncols := ⟨exM_WF, by decide, by decide, by decide⟩

/-! ### 5. `mzd_row_add_offset`, `mzd_row_add` -/

theorem rowAddOffsetWords_size (dst src : Row) (c width : Nat) (m : Word) :
    (rowAddOffsetWords dst src c width m).size = dst.size := by
  simp [rowAddOffsetWords]

/-- row level: the destination row of `mzd_row_add_offset` -/
theorem rowAddOffsetWords_bit (M : Mzd) (dst src : Row) (c : Nat) (hd : dst.size = M.width)
    (hc : c < M.ncols) (j : Nat) :
    Row.bit (rowAddOffsetWords dst src c M.width M.hb) j =
      if c ≤ j ∧ j < M.ncols then (Row.bit dst j != Row.bit src j) else Row.bit dst j := by
  have hwd : M.width = (M.ncols + 63) / 64 := rfl
  by_cases hjs : j / 64 < dst.size
  case neg =>
    have : ¬ (c ≤ j ∧ j < M.ncols) := by omega
    rw [Row.bit_of_ge _ j (by rw [rowAddOffsetWords_size]; omega), Row.bit_of_ge dst j (by omega)]
    simp [this]
  have hm : j % 64 < 64 := Nat.mod_lt _ (by omega)
  have hc0 : 0 < M.ncols := by omega
  rw [Row.bit_def, rowAddOffsetWords, Row.w_mapIdx _ _ _ hjs]
  by_cases h1 : j / 64 < c / 64
  · have : ¬ c ≤ j := by omega
    simp [h1, this, Row.bit_def]
  have h1' : ¬ (j / 64 < c / 64 ∨ j / 64 ≥ M.width) := by omega
  simp only [h1', if_false]
  by_cases hl : j / 64 + 1 = M.width
  · have ej : 64 * (M.width - 1) + j % 64 = j := by omega
    simp only [hl, if_true, BitVec.getLsbD_xor, BitVec.getLsbD_and, BitVec.getLsbD_not, hm, decide_true,
      Bool.true_and, hb_getLsbD M _ hm hc0, ej]
    by_cases hs : j / 64 = c / 64
    · simp only [hs, if_true, BitVec.getLsbD_and, rightMask_getLsbD _ _ (Nat.sub_le 64 _)]
      rw [← hs]
      by_cases hjn : j < M.ncols
      · by_cases hcj : c ≤ j
        · have : 64 - (64 - c % 64) ≤ j % 64 := by omega
          simp [hjn, hcj, this, hm, Row.bit_def]
        · have : ¬ 64 - (64 - c % 64) ≤ j % 64 := by omega
          simp [hjn, hcj, this, Row.bit_def]
      · have : 64 - (64 - c % 64) ≤ j % 64 := by omega
        simp [hjn, this, hm, Row.bit_def]
    · simp only [hs, if_false]
      have hcj : c ≤ j := by omega
      by_cases hjn : j < M.ncols
      · simp [hjn, hcj, Row.bit_def]
      · simp [hjn, Row.bit_def]
  · have hjn : j < M.ncols := by omega
    simp only [hl, if_false, BitVec.getLsbD_xor]
    by_cases hs : j / 64 = c / 64
    · simp only [hs, if_true, BitVec.getLsbD_and, rightMask_getLsbD _ _ (Nat.sub_le 64 _)]
      rw [← hs]
      by_cases hcj : c ≤ j
      · have : 64 - (64 - c % 64) ≤ j % 64 := by omega
        simp [hjn, hcj, this, hm, Row.bit_def]
      · have : ¬ 64 - (64 - c % 64) ≤ j % 64 := by omega
        simp [hcj, this, Row.bit_def]
    · have hcj : c ≤ j := by omega
      simp [hs, hjn, hcj, Row.bit_def]

theorem rowAddOffset_WF (M : Mzd) (dstrow srcrow coloffset : Nat) (h : M.WF) (hd : dstrow < M.nrows) :
    (M.rowAddOffset dstrow srcrow coloffset).WF := by
  unfold rowAddOffset
  apply WF.setRow h
  rw [rowAddOffsetWords_size]; exact h.2 _ hd

/-- `mzd_row_add_offset(M, dstrow, srcrow, coloffset)` (`dstrow ≠ srcrow`, both `< nrows`, `coloffset < ncols`):
    `bit dstrow j` becomes `bit dstrow j + bit srcrow j` exactly for `coloffset ≤ j < ncols`; every other bit —
    other rows, columns below `coloffset`, and the excess bits of the last word — is unchanged.
    `_hne`/`_hs` are the C preconditions; the model equation does not depend on them (for `dstrow = srcrow`
    the C code would additionally clear the excess bits, which the model does not reproduce). -/
theorem rowAddOffset_bit (M : Mzd) (dstrow srcrow coloffset : Nat) (h : M.WF) (_hne : dstrow ≠ srcrow)
    (hd : dstrow < M.nrows) (_hs : srcrow < M.nrows) (hc : coloffset < M.ncols) (i j : Nat) :
    (M.rowAddOffset dstrow srcrow coloffset).bit i j =
      if i = dstrow ∧ coloffset ≤ j ∧ j < M.ncols then (M.bit dstrow j != M.bit srcrow j) else M.bit i j := by
  unfold rowAddOffset
  rw [bit_setRow _ _ _ (by rw [h.1]; exact hd)]
  by_cases hi : i = dstrow
  · subst hi
    rw [rowAddOffsetWords_bit M _ _ _ (h.2 _ hd) hc]
    simp [bit_eq_rowBit]
  · simp [hi]

theorem rowAdd_WF (M : Mzd) (sourcerow destrow : Nat) (h : M.WF) (hd : destrow < M.nrows) :
    (M.rowAdd sourcerow destrow).WF := rowAddOffset_WF M destrow sourcerow 0 h hd

/-- `mzd_row_add(M, sourcerow, destrow)` on a matrix with at least one column: row `destrow` becomes the sum of
    both rows in all columns `< ncols`; other rows and the excess bits are unchanged. -/
theorem rowAdd_bit (M : Mzd) (sourcerow destrow : Nat) (h : M.WF) (hne : destrow ≠ sourcerow)
    (hd : destrow < M.nrows) (hs : sourcerow < M.nrows) (hc : 0 < M.ncols) (i j : Nat) :
    (M.rowAdd sourcerow destrow).bit i j =
      if i = destrow ∧ j < M.ncols then (M.bit destrow j != M.bit sourcerow j) else M.bit i j := by
  unfold rowAdd
  rw [rowAddOffset_bit M destrow sourcerow 0 h hne hd hs hc]
  simp

/-- non-vacuity of `rowAddOffset_bit` / `rowAdd_bit` -/
example : exM.WF ∧ (0 : Nat) ≠ 1 ∧ 0 < exM.nrows ∧ 1 < exM.nrows ∧ 65 < exM.ncols :=
  ⟨exM_WF, by decide, by decide, by decide, by decide⟩

/-! ### 6. `mzd_row_clear_offset` -/

theorem rowClearOffsetWords_size (r : Row) (c width : Nat) (m : Word) :
    (rowClearOffsetWords r c width m).size = r.size := by
  simp [rowClearOffsetWords]

/-- row level: the row after `mzd_row_clear_offset` -/
theorem rowClearOffsetWords_bit (M : Mzd) (r : Row) (c : Nat) (hr : r.size = M.width)
    (hc : c < M.ncols) (j : Nat) :
    Row.bit (rowClearOffsetWords r c M.width M.hb) j =
      if c ≤ j ∧ j < M.ncols then false else Row.bit r j := by
  have hwd : M.width = (M.ncols + 63) / 64 := rfl
  by_cases hjs : j / 64 < r.size
  case neg =>
    rw [Row.bit_of_ge _ j (by rw [rowClearOffsetWords_size]; omega), Row.bit_of_ge r j (by omega)]
    simp
  have hm : j % 64 < 64 := Nat.mod_lt _ (by omega)
  have hc0 : 0 < M.ncols := by omega
  rw [Row.bit_def, rowClearOffsetWords, Row.w_mapIdx _ _ _ hjs]
  by_cases h1 : j / 64 < c / 64
  · have : ¬ c ≤ j := by omega
    simp [h1, this, Row.bit_def]
  have h1' : ¬ (j / 64 < c / 64 ∨ j / 64 ≥ M.width) := by omega
  simp only [h1', if_false]
  by_cases hs : j / 64 = c / 64 ∧ c % 64 ≠ 0
  · simp only [if_pos hs]
    have hlm := leftMask_getLsbD (c % 64) (j % 64) (Nat.pos_of_ne_zero hs.2) (by omega)
    by_cases hl : j / 64 + 1 = M.width
    · have ej : 64 * (M.width - 1) + j % 64 = j := by omega
      simp only [hl, if_true, BitVec.getLsbD_and, BitVec.getLsbD_or, BitVec.getLsbD_not, hm, decide_true,
        Bool.true_and, hb_getLsbD M _ hm hc0, ej, hlm]
      by_cases hjn : j < M.ncols
      · by_cases hcj : c ≤ j
        · have : ¬ j % 64 < c % 64 := by omega
          simp [hjn, hcj, this]
        · have : j % 64 < c % 64 := by omega
          simp [hcj, this, Row.bit_def]
      · simp [hjn, Row.bit_def]
    · have hjn : j < M.ncols := by omega
      simp only [hl, if_false, BitVec.getLsbD_and, hlm]
      by_cases hcj : c ≤ j
      · have : ¬ j % 64 < c % 64 := by omega
        simp [hjn, hcj, this]
      · have : j % 64 < c % 64 := by omega
        simp [hcj, this, Row.bit_def]
  · simp only [if_neg hs]
    have hcj : c ≤ j := by omega
    by_cases hl : j / 64 + 1 = M.width
    · have ej : 64 * (M.width - 1) + j % 64 = j := by omega
      simp only [hl, if_true, BitVec.getLsbD_and, BitVec.getLsbD_or, BitVec.getLsbD_not, hm, decide_true,
        Bool.true_and, hb_getLsbD M _ hm hc0, ej]
      by_cases hjn : j < M.ncols
      · simp [hjn, hcj]
      · simp [hjn, Row.bit_def]
    · have hjn : j < M.ncols := by omega
      simp [hl, hjn, hcj]

theorem rowClearOffset_WF (M : Mzd) (row coloffset : Nat) (h : M.WF) (hr : row < M.nrows) :
    (M.rowClearOffset row coloffset).WF := by
  unfold rowClearOffset
  apply WF.setRow h
  rw [rowClearOffsetWords_size]; exact h.2 _ hr

/-- `mzd_row_clear_offset(M, row, coloffset)` (`row < nrows`, `coloffset < ncols`): the entries `(row, j)` with
    `coloffset ≤ j < ncols` become zero; every other bit — other rows, columns below `coloffset`, and the
    excess bits of the last word — is unchanged. -/
theorem rowClearOffset_bit (M : Mzd) (row coloffset : Nat) (h : M.WF) (hr : row < M.nrows)
    (hc : coloffset < M.ncols) (i j : Nat) :
    (M.rowClearOffset row coloffset).bit i j =
      if i = row ∧ coloffset ≤ j ∧ j < M.ncols then false else M.bit i j := by
  unfold rowClearOffset
  rw [bit_setRow _ _ _ (by rw [h.1]; exact hr)]
  by_cases hi : i = row
  · subst hi
    rw [rowClearOffsetWords_bit M _ _ (h.2 _ hr) hc]
    simp [bit_eq_rowBit]
  · simp [hi]

/-- non-vacuity of `rowClearOffset_bit` -/
example : exM.WF ∧ 1 < exM.nrows ∧ 65 < exM.ncols := ⟨exM_WF, by decide, by decide⟩

/-! ### 7. `mzd_combine_even_in_place`, `mzd_combine_even` (row level) -/

/-- `leftMask (ncols % 64)` (the `high_bitmask` of a matrix with `ncols` columns) selects the columns of the
    last word -/
theorem highMask_getLsbD (ncols p : Nat) (hp : p < 64) (hc : 0 < ncols) :
    (leftMask (ncols % 64)).getLsbD p = decide (64 * (widthOf ncols - 1) + p < ncols) :=
  hb_getLsbD ⟨0, ncols, #[]⟩ p hp hc

theorem combineEvenInPlaceWords_size (a b : Row) (aStart bStart aWidth : Nat) (aMask : Word) :
    (combineEvenInPlaceWords a b aStart bStart aWidth aMask).size = a.size := by
  simp [combineEvenInPlaceWords]

/-- `mzd_combine_even_in_place` on the `A` row (`aWidth = A->width ≤ a.size`), word form: the words
    `aStart ≤ i < aWidth` get `b[i - aStart + bStart]` xored in, the last word only under `aMask`; words below
    `aStart` are unchanged. -/
theorem combineEvenInPlaceWords_w (a b : Row) (aStart bStart aWidth : Nat) (aMask : Word)
    (ha : aWidth ≤ a.size) (i : Nat) :
    Row.w (combineEvenInPlaceWords a b aStart bStart aWidth aMask) i =
      if aStart ≤ i ∧ i < aWidth then
        (if i + 1 = aWidth then a.w i ^^^ (b.w (i - aStart + bStart) &&& aMask)
         else a.w i ^^^ b.w (i - aStart + bStart))
      else a.w i := by
  rw [combineEvenInPlaceWords, Row.w_mapIdx']
  by_cases hi : i < a.size
  · simp only [hi, if_true]
    by_cases h1 : i < aStart ∨ i ≥ aWidth
    · have : ¬ (aStart ≤ i ∧ i < aWidth) := by omega
      simp [h1, this]
    · have : aStart ≤ i ∧ i < aWidth := by omega
      simp [h1, this]
  · have : ¬ (aStart ≤ i ∧ i < aWidth) := by omega
    rw [Row.w_of_ge a i (by omega)]
    simp [hi, this]

/-- bit form of `mzd_combine_even_in_place` for an `A` row of a matrix with `ncols > 0` columns
    (`aWidth = widthOf ncols`, `aMask = high_bitmask = leftMask (ncols % 64)`): the entries in the columns
    `64·aStart ≤ j < ncols` get the `B`-row bits (shifted by the block offsets) added; earlier words and the
    excess bits of the last word are unchanged. -/
theorem combineEvenInPlaceWords_bit (a b : Row) (aStart bStart ncols : Nat) (ha : a.size = widthOf ncols)
    (hc : 0 < ncols) (j : Nat) :
    Row.bit (combineEvenInPlaceWords a b aStart bStart (widthOf ncols) (leftMask (ncols % 64))) j =
      if 64 * aStart ≤ j ∧ j < ncols then (Row.bit a j != Row.bit b (j - 64 * aStart + 64 * bStart))
      else Row.bit a j := by
  have hwd : widthOf ncols = (ncols + 63) / 64 := rfl
  have hm : j % 64 < 64 := Nat.mod_lt _ (by omega)
  rw [Row.bit_def, combineEvenInPlaceWords_w _ _ _ _ _ _ (by omega)]
  by_cases h1 : aStart ≤ j / 64 ∧ j / 64 < widthOf ncols
  · simp only [h1, and_self, if_true]
    have e1 : (j - 64 * aStart + 64 * bStart) / 64 = j / 64 - aStart + bStart := by omega
    have e2 : (j - 64 * aStart + 64 * bStart) % 64 = j % 64 := by omega
    have hlo : 64 * aStart ≤ j := by omega
    by_cases hl : j / 64 + 1 = widthOf ncols
    · have ej : 64 * (widthOf ncols - 1) + j % 64 = j := by omega
      simp only [hl, if_true, BitVec.getLsbD_xor, BitVec.getLsbD_and, highMask_getLsbD _ _ hm hc, ej]
      by_cases hjn : j < ncols
      · simp [hjn, hlo, Row.bit_def, e1, e2]
      · simp [hjn, Row.bit_def]
    · have hjn : j < ncols := by omega
      simp [hl, hjn, hlo, Row.bit_def, e1, e2]
  · have : ¬ (64 * aStart ≤ j ∧ j < ncols) := by omega
    simp [h1, this, Row.bit_def]

/-- non-vacuity of `combineEvenInPlaceWords_w` / `_bit` (a 70-column row, block offsets 1 and 0) -/
example : (#[0x1#64, 0xFFFFFFFFFFFFFFC1#64] : Row).size = widthOf 70 ∧ 0 < 70 := ⟨rfl, by decide⟩

theorem combineEvenWords_size (c a b : Row) (cStart aStart bStart aWidth : Nat) (cMask : Word) :
    (combineEvenWords c a b cStart aStart bStart aWidth cMask).size = c.size := by
  simp [combineEvenWords]

/-- `mzd_combine_even` on the `C` row, word form: for the word indices `i ≥ cStart` of `C` that correspond to
    a word `k + aStart < aWidth` of `A` (`k = i - cStart`), the word becomes `a[k+aStart] ^ b[k+bStart]`; the
    one corresponding to the last word of `A` is merged under `cMask` (bits outside the mask keep the old
    `C` value); all other words are unchanged. -/
theorem combineEvenWords_w (c a b : Row) (cStart aStart bStart aWidth : Nat) (cMask : Word) (i : Nat)
    (hi : i < c.size) :
    Row.w (combineEvenWords c a b cStart aStart bStart aWidth cMask) i =
      if cStart ≤ i ∧ i - cStart + aStart < aWidth then
        (if i - cStart + aStart + 1 = aWidth then
           merge (c.w i) (a.w (i - cStart + aStart) ^^^ b.w (i - cStart + bStart)) cMask
         else a.w (i - cStart + aStart) ^^^ b.w (i - cStart + bStart))
      else c.w i := by
  rw [combineEvenWords, Row.w_mapIdx _ _ _ hi]
  by_cases h1 : i < cStart ∨ i - cStart + aStart ≥ aWidth
  · have : ¬ (cStart ≤ i ∧ i - cStart + aStart < aWidth) := by omega
    simp [h1, this]
  · have : cStart ≤ i ∧ i - cStart + aStart < aWidth := by omega
    simp [h1, this]

/-- words of the `C` row beyond its size stay absent (total reads give `0`) -/
theorem combineEvenWords_w_of_ge (c a b : Row) (cStart aStart bStart aWidth : Nat) (cMask : Word) (i : Nat)
    (hi : c.size ≤ i) : Row.w (combineEvenWords c a b cStart aStart bStart aWidth cMask) i = 0 :=
  Row.w_of_ge _ _ (by rw [combineEvenWords_size]; exact hi)

/-- bit form of `mzd_combine_even` in the usual situation: `C` has `ncols > 0` columns, the `C` row has
    `widthOf ncols` words, `cMask` is `C`'s `high_bitmask`, and the word ranges match
    (`aWidth - aStart = widthOf ncols - cStart`): the entries in the columns `64·cStart ≤ j < ncols` become
    `A`-bit + `B`-bit (shifted by the block offsets); earlier words and the excess bits are unchanged. -/
theorem combineEvenWords_bit (c a b : Row) (cStart aStart bStart aWidth ncols : Nat)
    (hcs : c.size = widthOf ncols) (hc : 0 < ncols)
    (hw : aWidth = widthOf ncols - cStart + aStart) (j : Nat) :
    Row.bit (combineEvenWords c a b cStart aStart bStart aWidth (leftMask (ncols % 64))) j =
      if 64 * cStart ≤ j ∧ j < ncols then
        (Row.bit a (j - 64 * cStart + 64 * aStart) != Row.bit b (j - 64 * cStart + 64 * bStart))
      else Row.bit c j := by
  have hwd : widthOf ncols = (ncols + 63) / 64 := rfl
  have hm : j % 64 < 64 := Nat.mod_lt _ (by omega)
  by_cases hjs : j / 64 < c.size
  case neg =>
    have : ¬ (64 * cStart ≤ j ∧ j < ncols) := by omega
    rw [Row.bit_of_ge _ j (by rw [combineEvenWords_size]; omega), Row.bit_of_ge c j (by omega)]
    simp [this]
  rw [Row.bit_def, combineEvenWords_w _ _ _ _ _ _ _ _ _ hjs]
  by_cases h1 : cStart ≤ j / 64
  · have h2 : cStart ≤ j / 64 ∧ j / 64 - cStart + aStart < aWidth := by omega
    simp only [h2, and_self, if_true]
    have e1 : (j - 64 * cStart + 64 * aStart) / 64 = j / 64 - cStart + aStart := by omega
    have e2 : (j - 64 * cStart + 64 * aStart) % 64 = j % 64 := by omega
    have e3 : (j - 64 * cStart + 64 * bStart) / 64 = j / 64 - cStart + bStart := by omega
    have e4 : (j - 64 * cStart + 64 * bStart) % 64 = j % 64 := by omega
    have hlo : 64 * cStart ≤ j := by omega
    by_cases hl : j / 64 - cStart + aStart + 1 = aWidth
    · have ej : 64 * (widthOf ncols - 1) + j % 64 = j := by omega
      simp only [hl, if_true, merge_getLsbD, BitVec.getLsbD_xor, highMask_getLsbD _ _ hm hc, ej]
      by_cases hjn : j < ncols
      · simp [hjn, hlo, Row.bit_def, e1, e2, e3, e4]
      · simp [hjn, Row.bit_def]
    · have hjn : j < ncols := by omega
      simp [hl, hjn, hlo, Row.bit_def, e1, e2, e3, e4]
  · have : ¬ (64 * cStart ≤ j ∧ j < ncols) := by omega
    have h2 : ¬ (cStart ≤ j / 64 ∧ j / 64 - cStart + aStart < aWidth) := by omega
    simp [h2, this, Row.bit_def]

/-- non-vacuity of `combineEvenWords_bit`: a 130-column `C` row from block 1, `A` of width 4 from block 2 -/
example : (#[0#64, 0#64, 0#64] : Row).size = widthOf 130 ∧ 0 < 130 ∧ 4 = widthOf 130 - 1 + 2 :=
  ⟨rfl, by decide, by decide⟩

end Mzd
end M4ri
