/-
  Property C11 (memory safety), the part a theorem can carry: for the access-trace model `M4ri/Safety.lean` of
  the word-level kernels, under exactly the documented preconditions,
    (a) `InBounds` : every access has `row < nrows` and `0 ≤ word < width` (a vector access: `word + 1 < width`);
                     in particular the padding word `width` (present when `rowstride > width`) is never touched;
    (b) `Aligned`  : every `__m128i` access is 16-byte aligned, for both phases of the operands;
    (c) `ShiftsOK` : every shift count is in `0..63`.
  Where one of these fails for admissible parameters, the failing instance is proved by `decide`
  (`*_witness`), and the positive theorem is kept as `*_partial` with the extra hypothesis.
  Core Lean only.
-/
import Lean.Elab.Tactic
import M4ri.Safety
namespace M4ri.Safety
set_option linter.unusedSimpArgs false
set_option linter.unusedVariables false

/-! ### infrastructure -/

theorem mem_forI {α : Type} (a b : Int) (f : Int → List α) (x : α) :
    x ∈ forI a b f ↔ ∃ i, a ≤ i ∧ i < b ∧ x ∈ f i := by
  unfold forI
  simp only [List.mem_flatMap, List.mem_range]
  constructor
  · rintro ⟨k, hk, hx⟩
    exact ⟨a + k, by omega, by omega, hx⟩
  · rintro ⟨i, h1, h2, hx⟩
    refine ⟨(i - a).toNat, by omega, ?_⟩
    have : a + ((i - a).toNat : Int) = i := by omega
    rw [this]; exact hx

/-- bounded quantifier over a trace -/
def All {α : Type} (P : α → Prop) (l : List α) : Prop := ∀ x ∈ l, P x

theorem all_nil {α : Type} (P : α → Prop) : All P [] ↔ True := by simp [All]
theorem all_cons {α : Type} (P : α → Prop) (x : α) (l : List α) : All P (x :: l) ↔ P x ∧ All P l := by
  simp [All]
theorem all_append {α : Type} (P : α → Prop) (l₁ l₂ : List α) : All P (l₁ ++ l₂) ↔ All P l₁ ∧ All P l₂ := by
  simp only [All, List.mem_append]
  constructor
  · intro h; exact ⟨fun x hx => h x (Or.inl hx), fun x hx => h x (Or.inr hx)⟩
  · rintro ⟨h1, h2⟩ x (hx | hx); exact h1 x hx; exact h2 x hx
theorem all_forI {α : Type} (P : α → Prop) (a b : Int) (f : Int → List α) :
    All P (forI a b f) ↔ ∀ i, a ≤ i → i < b → All P (f i) := by
  simp only [All, mem_forI]
  constructor
  · intro h i h1 h2 x hx; exact h x ⟨i, h1, h2, hx⟩
  · rintro h x ⟨i, h1, h2, hx⟩; exact h i h1 h2 x hx
theorem all_ite {α : Type} (P : α → Prop) (c : Prop) [Decidable c] (l₁ l₂ : List α) :
    All P (if c then l₁ else l₂) ↔ (c → All P l₁) ∧ (¬ c → All P l₂) := by
  split <;> simp_all
theorem all_map_range {α : Type} (P : α → Prop) (n : Nat) (f : Nat → α) :
    All P ((List.range n).map f) ↔ ∀ j, j < n → P (f j) := by
  simp [All]

theorem inBounds_def (hs : Nat → Hdr) (l) : InBounds hs l ↔ All (fun a => a.inBounds (hs a.op)) l := Iff.rfl
theorem aligned_def (hs : Nat → Hdr) (l) : Aligned hs l ↔ All (fun a => a.aligned (hs a.op)) l := Iff.rfl
theorem shiftsOK_def (l) : ShiftsOK l ↔ All (fun s => 0 ≤ s ∧ s ≤ 63) l := Iff.rfl

theorem ib_rd (h : Hdr) (op row w) : (rd op row w).inBounds h ↔ row < h.nrows ∧ 0 ≤ w ∧ w < (h.width : Int) := by
  simp [rd, Access.inBounds]
theorem ib_wr (h : Hdr) (op row w) : (wr op row w).inBounds h ↔ row < h.nrows ∧ 0 ≤ w ∧ w < (h.width : Int) := by
  simp [wr, Access.inBounds]
theorem ib_vrd (h : Hdr) (op row w) :
    (vrd op row w).inBounds h ↔ row < h.nrows ∧ 0 ≤ w ∧ w + 1 < (h.width : Int) := by
  simp [vrd, Access.inBounds]
theorem ib_vwr (h : Hdr) (op row w) :
    (vwr op row w).inBounds h ↔ row < h.nrows ∧ 0 ≤ w ∧ w + 1 < (h.width : Int) := by
  simp [vwr, Access.inBounds]
theorem ib_mk (h : Hdr) (op row w k) (v : Bool) :
    (Access.mk op row w k v).inBounds h ↔ row < h.nrows ∧ 0 ≤ w ∧ w + (if v then 1 else 0) < (h.width : Int) := by
  simp [Access.inBounds]
theorem al_rd (h : Hdr) (op row w) : (rd op row w).aligned h ↔ True := by simp [rd, Access.aligned]
theorem al_wr (h : Hdr) (op row w) : (wr op row w).aligned h ↔ True := by simp [wr, Access.aligned]
theorem al_vrd (h : Hdr) (op row w) : (vrd op row w).aligned h ↔ (w + (h.phase : Int)) % 2 = 0 := by
  simp [vrd, Access.aligned]
theorem al_vwr (h : Hdr) (op row w) : (vwr op row w).aligned h ↔ (w + (h.phase : Int)) % 2 = 0 := by
  simp [vwr, Access.aligned]
theorem al_mk (h : Hdr) (op row w k) (v : Bool) :
    (Access.mk op row w k v).aligned h ↔ (v = true → (w + (h.phase : Int)) % 2 = 0) := by
  simp [Access.aligned]
theorem op_rd (op row w) : (rd op row w).op = op := rfl
theorem op_wr (op row w) : (wr op row w).op = op := rfl
theorem op_vrd (op row w) : (vrd op row w).op = op := rfl
theorem op_vwr (op row w) : (vwr op row w).op = op := rfl
theorem op_mk (op row w k v) : (Access.mk op row w k v).op = op := rfl

theorem width_eq (h : Hdr) : (h.width : Int) = ((h.ncols : Int) + 63) / 64 := by
  simp [Hdr.width]

/- `clear_lets`: turn every local definition `x := v` of the context into an opaque `x` with `h_x : x = v`
   (so that `omega` sees atoms instead of re-normalising the let-expanded closed forms) -/
open Lean Elab Tactic Meta in
elab "clear_lets" : tactic => withMainContext do
  let lctx ← getLCtx
  let lets := lctx.foldl (init := #[]) fun acc d =>
    if d.isLet && !d.isImplementationDetail then acc.push d.userName else acc
  for n in lets.reverse do
    let id := mkIdent n
    let h := mkIdent (Name.mkSimple ("h_" ++ n.toString))
    let hb : TSyntax `Lean.binderIdent ← `(Lean.binderIdent| $h:ident)
    evalTactic (← `(tactic| clear_value ($hb : $id = _)))

/-- rewrite a safety statement about a closed-form trace into plain arithmetic -/
macro "trace_simp" "[" ds:Lean.Parser.Tactic.simpLemma,* "]" : tactic =>
  `(tactic| simp only [inBounds_def, aligned_def, shiftsOK_def, all_append, all_cons, all_nil, all_ite, all_forI,
      all_map_range, ib_rd, ib_wr, ib_vrd, ib_vwr, ib_mk, al_rd, al_wr, al_vrd, al_vwr, al_mk,
      op_rd, op_wr, op_vrd, op_vwr, op_mk, $ds,*])

/-- same, with a family of per-table hypotheses `h : ∀ j, j < N → …` -/
macro "fin_with" t:term : tactic =>
  `(tactic| (clear_lets; (repeat' (first | (intro _) | (refine And.intro ?_ ?_))) <;>
      (first | trivial | omega | (have := $t _ (by assumption); omega))))

macro "fin_omega" : tactic =>
  `(tactic| (clear_lets; (repeat' (first | (intro _) | (refine And.intro ?_ ?_))) <;> (first | trivial | omega)))

/-- an in-bounds access lies inside the block of the operand: its flat offset from `M->data` is
    `< nrows * rowstride`, and it is not a padding word -/
theorem Access.inBounds_flat (h : Hdr) (hw : h.WF) (a : Access) (ha : a.inBounds h) :
    0 ≤ a.flat h ∧ a.flat h + (if a.vec then 1 else 0) < (h.nrows : Int) * h.rowstride ∧
    a.flat h % h.rowstride + (if a.vec then 1 else 0) < h.width := by
  obtain ⟨h1, h2, h3⟩ := ha
  obtain ⟨hw1, _, _⟩ := hw
  unfold Access.flat
  have hmul : ((a.row : Int) + 1) * (h.rowstride : Int) ≤ (h.nrows : Int) * (h.rowstride : Int) :=
    Int.mul_le_mul_of_nonneg_right (by omega) (by omega)
  rw [Int.add_mul, Int.one_mul] at hmul
  have hr : (0 : Int) ≤ (a.row : Int) * (h.rowstride : Int) := Int.mul_nonneg (by omega) (by omega)
  have hlt : a.word < (h.rowstride : Int) := by split at h3 <;> omega
  have hmod : ((a.row : Int) * (h.rowstride : Int) + a.word) % (h.rowstride : Int) = a.word := by
    rw [Int.add_comm, Int.add_mul_emod_self_right, Int.emod_eq_of_lt h2 hlt]
  rw [hmod]
  generalize (a.row : Int) * (h.rowstride : Int) = X at *
  generalize (h.nrows : Int) * (h.rowstride : Int) = Y at *
  refine ⟨by omega, ?_, h3⟩
  split at h3 <;> simp_all <;> omega

/-! ### Duff's device -/

theorem duff_pos (w : Int) (h : 1 ≤ w) : duff w = w := by
  unfold duff
  rw [Int.tdiv_eq_ediv_of_nonneg (by omega), Int.tmod_eq_emod_of_nonneg (by omega)]
  simp only []
  split
  · omega
  · split <;> omega

/-- the reason every Duff's device in m4ri is guarded (or must be called with `wide ≥ 1`) -/
theorem duff_zero : duff 0 = 8 := by decide

/-! ## bit and bit-range accessors
    Preconditions: `row < nrows`, `col < ncols`; for the ranges `1 ≤ n ≤ 64`, `y + n ≤ ncols`. -/

theorem accReadBit_inBounds (h : Hdr) (row col : Nat) (hr : row < h.nrows) (hc : col < h.ncols) :
    InBounds (fun _ => h) (accReadBit row col) := by
  have hw := width_eq h
  trace_simp [accReadBit]
  fin_omega
theorem shReadBit_ok (col : Nat) : ShiftsOK (shReadBit col) := by
  trace_simp [shReadBit]
  fin_omega
theorem accWriteBit_inBounds (h : Hdr) (row col : Nat) (hr : row < h.nrows) (hc : col < h.ncols) :
    InBounds (fun _ => h) (accWriteBit row col) := by
  have hw := width_eq h
  trace_simp [accWriteBit]
  fin_omega
theorem shWriteBit_ok (col : Nat) : ShiftsOK (shWriteBit col) := by
  trace_simp [shWriteBit]
  fin_omega

/-- `mzd_xor_bits` / `mzd_and_bits` / `mzd_clear_bits` stay inside the matrix -/
theorem accXorBits_inBounds (h : Hdr) (x y n : Nat) (hx : x < h.nrows) (hn1 : 1 ≤ n) (hn : n ≤ 64)
    (hy : y + n ≤ h.ncols) : InBounds (fun _ => h) (accXorBits x y n) := by
  have hw := width_eq h
  trace_simp [accXorBits]
  fin_omega
theorem accAndBits_inBounds (h : Hdr) (x y n : Nat) (hx : x < h.nrows) (hn1 : 1 ≤ n) (hn : n ≤ 64)
    (hy : y + n ≤ h.ncols) : InBounds (fun _ => h) (accAndBits x y n) := accXorBits_inBounds h x y n hx hn1 hn hy
theorem accClearBits_inBounds (h : Hdr) (x y n : Nat) (hx : x < h.nrows) (hn1 : 1 ≤ n) (hn : n ≤ 64)
    (hy : y + n ≤ h.ncols) : InBounds (fun _ => h) (accClearBits x y n) := accXorBits_inBounds h x y n hx hn1 hn hy
theorem accReadBits_inBounds (h : Hdr) (x y n : Nat) (hx : x < h.nrows) (hn1 : 1 ≤ n) (hn : n ≤ 64)
    (hy : y + n ≤ h.ncols) : InBounds (fun _ => h) (accReadBits x y n) := by
  have hw := width_eq h
  trace_simp [accReadBits, accReadBitsOp]
  fin_omega

/-- the word `block + 1` is touched IFF the bit span `[y, y+n)` crosses into it
    (so on the last word of a row nothing beyond the row is read or written) -/
theorem accXorBits_next_iff (x y n : Nat) :
    (∃ a ∈ accXorBits x y n, a.word = (y : Int) / 64 + 1) ↔ y % 64 + n > 64 := by
  unfold accXorBits
  simp only []
  split
  · constructor
    · intro _; omega
    · intro _; exact ⟨rd 0 x ((y : Int) / 64 + 1), by simp, rfl⟩
  · constructor
    · rintro ⟨a, ha, hw⟩
      simp only [List.append_nil, List.mem_cons, List.not_mem_nil, or_false] at ha
      rcases ha with rfl | rfl <;> simp only [rd, wr] at hw <;> omega
    · intro _; omega
theorem accReadBits_next_iff (x y n : Nat) :
    (∃ a ∈ accReadBits x y n, a.word = (y : Int) / 64 + 1) ↔ y % 64 + n > 64 := by
  unfold accReadBits accReadBitsOp
  simp only []
  split
  · constructor
    · rintro ⟨a, ha, hw⟩
      simp only [List.mem_cons, List.not_mem_nil, or_false] at ha
      subst ha; simp only [rd] at hw; omega
    · intro _; omega
  · constructor
    · intro _; omega
    · intro _; exact ⟨rd 0 x ((y : Int) / 64 + 1), by simp, rfl⟩

/-- exactly the words holding bits of the span are touched: every access is a scalar access to row `x`, to
    a word in `y/64 .. (y+n-1)/64` -/
theorem accXorBits_span (x y n : Nat) (hn1 : 1 ≤ n) (a : Access) (ha : a ∈ accXorBits x y n) :
    a.row = x ∧ a.vec = false ∧ (y : Int) / 64 ≤ a.word ∧ a.word ≤ ((y : Int) + n - 1) / 64 := by
  unfold accXorBits at ha
  simp only [List.mem_append, List.mem_cons, List.not_mem_nil, or_false] at ha
  rcases ha with (rfl | rfl) | ha
  · refine ⟨rfl, rfl, ?_, ?_⟩ <;> simp only [rd] <;> omega
  · refine ⟨rfl, rfl, ?_, ?_⟩ <;> simp only [wr] <;> omega
  · split at ha
    · simp only [List.mem_cons, List.not_mem_nil, or_false] at ha
      rcases ha with rfl | rfl <;> refine ⟨rfl, rfl, ?_, ?_⟩ <;> simp only [rd, wr] <;> omega
    · simp at ha
theorem accReadBits_span (x y n : Nat) (hn1 : 1 ≤ n) (a : Access) (ha : a ∈ accReadBits x y n) :
    a.row = x ∧ a.vec = false ∧ (y : Int) / 64 ≤ a.word ∧ a.word ≤ ((y : Int) + n - 1) / 64 := by
  unfold accReadBits accReadBitsOp at ha
  simp only [] at ha
  split at ha <;> simp only [List.mem_cons, List.not_mem_nil, or_false] at ha
  · subst ha; refine ⟨rfl, rfl, ?_, ?_⟩ <;> simp only [rd] <;> omega
  · rcases ha with rfl | rfl <;> refine ⟨rfl, rfl, ?_, ?_⟩ <;> simp only [rd] <;> omega

theorem shXorBits_ok (y n : Nat) (hn : n ≤ 64) : ShiftsOK (shXorBits y n) := by
  trace_simp [shXorBits]
  fin_omega
theorem shAndBits_ok (y n : Nat) (hn1 : 1 ≤ n) (hn : n ≤ 64) : ShiftsOK (shAndBits y n) := by
  trace_simp [shAndBits]
  fin_omega
theorem shClearBits_ok (y n : Nat) (hn1 : 1 ≤ n) (hn : n ≤ 64) : ShiftsOK (shClearBits y n) := by
  trace_simp [shClearBits]
  fin_omega
theorem shReadBits_ok (y n : Nat) (hn1 : 1 ≤ n) (hn : n ≤ 64) : ShiftsOK (shReadBits y n) := by
  trace_simp [shReadBits]
  fin_omega
/-- `1 ≤ n` is needed: with `n = 0` `mzd_and_bits` / `mzd_clear_bits` / `mzd_read_bits` shift by 64 (UB) -/
theorem shAndBits_n0_witness : ¬ ShiftsOK (shAndBits 0 0) := by decide
theorem shClearBits_n0_witness : ¬ ShiftsOK (shClearBits 0 0) := by decide
theorem shReadBits_n0_witness : ¬ ShiftsOK (shReadBits 0 0) := by decide

-- non-vacuity: a 3 x 100 matrix, the 40 bits from column 60 of row 2 (crosses into word 1)
example : (2 : Nat) < (⟨3, 100, 2, 1⟩ : Hdr).nrows ∧ 1 ≤ 40 ∧ 40 ≤ 64 ∧ 60 + 40 ≤ (⟨3, 100, 2, 1⟩ : Hdr).ncols := by decide
example : ∃ a ∈ accXorBits 2 60 40, a.word = 1 := by decide

/-! ## `mzd_row_add_offset`
    Preconditions (the `assert` of the C code): `dstrow < nrows`, `srcrow < nrows`, `coloffset < ncols`. -/

theorem accRowAddOffsetScalar_inBounds (h : Hdr) (dst src c : Nat) (hd : dst < h.nrows) (hsr : src < h.nrows)
    (hc : c < h.ncols) : InBounds (fun _ => h) (accRowAddOffsetScalar h dst src c) := by
  have hw := width_eq h
  unfold accRowAddOffsetScalar
  extract_lets sb wide
  trace_simp [rowAddTail]
  fin_omega

/-- SSE2 build: the peel step, the vector loop `[p2, eof)` and the scalar tail all stay in `[0, width)`;
    a vector access never includes the word `width` -/
theorem accRowAddOffset_inBounds (h : Hdr) (dst src c : Nat) (hd : dst < h.nrows) (hsr : src < h.nrows)
    (hc : c < h.ncols) : InBounds (fun _ => h) (accRowAddOffset h dst src c) := by
  have hw := width_eq h
  unfold accRowAddOffset
  extract_lets sb wide0 p1 wide1 na p2 wide2 eof nv
  trace_simp [rowAddTail]
  fin_omega

/-- every `__m128i` access of `mzd_row_add_offset` is 16-byte aligned, whatever the phase of the matrix -/
theorem accRowAddOffset_aligned (h : Hdr) (dst src c : Nat) :
    Aligned (fun _ => h) (accRowAddOffset h dst src c) := by
  unfold accRowAddOffset
  extract_lets sb wide0 p1 wide1 na p2 wide2 eof nv
  trace_simp [rowAddTail]
  fin_omega

theorem shRowAddOffset_ok (c : Nat) : ShiftsOK (shRowAddOffset c) := by
  trace_simp [shRowAddOffset]
  fin_omega

/-- the last access is the masked fix-up of word `width - 1` (C comment: "src[wide - 1] is
    M->rows[srcrow][M->width - 1]") — on every path, including `wide = 0` after the vector loop -/
theorem accRowAddOffset_last (h : Hdr) (dst src c : Nat) (hc : c < h.ncols) :
    (accRowAddOffset h dst src c).getLast? = some (wr 0 dst ((h.width : Int) - 1)) := by
  have hw := width_eq h
  unfold accRowAddOffset
  extract_lets sb wide0 p1 wide1 na p2 wide2 eof nv
  have key : ∀ (l : List Access) (p w : Int), p + max w 0 = h.width →
      (l ++ rowAddTail dst src p w).getLast? = some (wr 0 dst ((h.width : Int) - 1)) := by
    intro l p w hpw
    unfold rowAddTail
    simp only [← List.append_assoc]
    rw [List.getLast?_append]
    simp only [List.getLast?_cons_cons, List.getLast?_singleton, Option.some_or]
    congr 2; omega
  split
  · rw [← List.append_assoc, ← List.append_assoc]
    apply key
    clear key; clear_lets; omega
  · apply key
    clear key; clear_lets; omega

-- non-vacuity: 3 x 200 window with odd phase, rows 0 += 1 from column 5
example : (0 : Nat) < (⟨3, 200, 8, 1⟩ : Hdr).nrows ∧ (1 : Nat) < (⟨3, 200, 8, 1⟩ : Hdr).nrows ∧
    5 < (⟨3, 200, 8, 1⟩ : Hdr).ncols := by decide
example : vrd 0 0 1 ∈ accRowAddOffset ⟨3, 200, 8, 1⟩ 0 1 5 := by decide

/-! ## `mzd_combine_even_in_place` / `mzd_combine_even`
    Preconditions: rows in range, `a_startblock < A->width` ("at least one word of work"), and the other
    operands have at least as many words after their start block as `A` has after `a_startblock`.
    NO assumption on the phases: the code tests the alignment of every pointer it uses as `__m128i *`. -/

theorem combIPTail_inBounds (hs : Nat → Hdr) (oa ob ra rb : Nat) (pa pb wide : Int) (hw : 0 ≤ wide)
    (hra : ra < (hs oa).nrows) (hrb : rb < (hs ob).nrows) (h1 : 0 ≤ pa) (h2 : pa + wide < (hs oa).width)
    (h3 : 0 ≤ pb) (h4 : pb + wide < (hs ob).width) :
    All (fun a => a.inBounds (hs a.op)) (combIPTail oa ob ra rb pa pb wide) := by
  unfold combIPTail
  have hn : (if wide > 0 then duff wide else 0) = wide := by
    split
    · exact duff_pos _ (by omega)
    · omega
  rw [hn]
  trace_simp []
  fin_omega
theorem combIPTail_aligned (hs : Nat → Hdr) (oa ob ra rb : Nat) (pa pb wide : Int) :
    All (fun a => a.aligned (hs a.op)) (combIPTail oa ob ra rb pa pb wide) := by
  unfold combIPTail
  trace_simp []
  fin_omega

theorem combTail_inBounds (hs : Nat → Hdr) (oc oa ob rc ra rb : Nat) (pc pa pb wide : Int) (hw : 0 ≤ wide)
    (hrc : rc < (hs oc).nrows) (hra : ra < (hs oa).nrows) (hrb : rb < (hs ob).nrows)
    (h1 : 0 ≤ pc) (h2 : pc + wide < (hs oc).width) (h3 : 0 ≤ pa) (h4 : pa + wide < (hs oa).width)
    (h5 : 0 ≤ pb) (h6 : pb + wide < (hs ob).width) :
    All (fun a => a.inBounds (hs a.op)) (combTail oc oa ob rc ra rb pc pa pb wide) := by
  unfold combTail
  have hn : (if wide > 0 then duff wide else 0) = wide := by
    split
    · exact duff_pos _ (by omega)
    · omega
  rw [hn]
  trace_simp []
  fin_omega
theorem combTail_aligned (hs : Nat → Hdr) (oc oa ob rc ra rb : Nat) (pc pa pb wide : Int) :
    All (fun a => a.aligned (hs a.op)) (combTail oc oa ob rc ra rb pc pa pb wide) := by
  unfold combTail
  trace_simp []
  fin_omega

macro "fin_tail" t:term : tactic =>
  `(tactic| (clear_lets; (repeat' (first | (refine And.intro ?_ ?_) | (apply $t) | (intro _))) <;>
      (first | trivial | omega)))

/-- operand 0 = `A` (header `hs 0`), operand 1 = `B` (header `hs 1`) -/
theorem accCombineEvenInPlace_inBounds (hs : Nat → Hdr) (a_row a_sb b_row b_sb : Nat)
    (ha : a_row < (hs 0).nrows) (hb : b_row < (hs 1).nrows) (hsa : a_sb < (hs 0).width)
    (hfit : b_sb + (hs 0).width ≤ (hs 1).width + a_sb) :
    InBounds hs (accCombineEvenInPlace (hs 0) (hs 1) a_row a_sb b_row b_sb) := by
  unfold accCombineEvenInPlace
  extract_lets pa pb wide0 na pa1 pb1 wide1 eof nv
  trace_simp []
  fin_tail (combIPTail_inBounds hs)

theorem accCombineEvenInPlace_aligned (hs : Nat → Hdr) (a_row a_sb b_row b_sb : Nat) :
    Aligned hs (accCombineEvenInPlace (hs 0) (hs 1) a_row a_sb b_row b_sb) := by
  unfold accCombineEvenInPlace
  extract_lets pa pb wide0 na pa1 pb1 wide1 eof nv
  trace_simp []
  fin_tail (combIPTail_aligned hs)

/-- `mzd_combine_even` with arbitrary operand numbering (used by `_mzd_add`) -/
theorem accCombineEvenOps_inBounds (hs : Nat → Hdr) (oc oa ob : Nat) (c_row c_sb a_row a_sb b_row b_sb : Nat)
    (hc : c_row < (hs oc).nrows) (ha : a_row < (hs oa).nrows) (hb : b_row < (hs ob).nrows)
    (hsa : a_sb < (hs oa).width)
    (hfitc : c_sb + (hs oa).width ≤ (hs oc).width + a_sb)
    (hfitb : b_sb + (hs oa).width ≤ (hs ob).width + a_sb) :
    InBounds hs (accCombineEvenOps oc oa ob (hs oc) (hs oa) (hs ob) c_row c_sb a_row a_sb b_row b_sb) := by
  unfold accCombineEvenOps
  extract_lets pc pa pb wide0 na pc1 pa1 pb1 wide1 eof nv
  trace_simp []
  fin_tail (combTail_inBounds hs)

theorem accCombineEvenOps_aligned (hs : Nat → Hdr) (oc oa ob : Nat) (c_row c_sb a_row a_sb b_row b_sb : Nat) :
    Aligned hs (accCombineEvenOps oc oa ob (hs oc) (hs oa) (hs ob) c_row c_sb a_row a_sb b_row b_sb) := by
  unfold accCombineEvenOps
  extract_lets pc pa pb wide0 na pc1 pa1 pb1 wide1 eof nv
  trace_simp []
  fin_tail (combTail_aligned hs)

/-- operand 0 = `C`, 1 = `A`, 2 = `B` -/
theorem accCombineEven_inBounds (hs : Nat → Hdr) (c_row c_sb a_row a_sb b_row b_sb : Nat)
    (hc : c_row < (hs 0).nrows) (ha : a_row < (hs 1).nrows) (hb : b_row < (hs 2).nrows)
    (hsa : a_sb < (hs 1).width)
    (hfitc : c_sb + (hs 1).width ≤ (hs 0).width + a_sb)
    (hfitb : b_sb + (hs 1).width ≤ (hs 2).width + a_sb) :
    InBounds hs (accCombineEven (hs 0) (hs 1) (hs 2) c_row c_sb a_row a_sb b_row b_sb) :=
  accCombineEvenOps_inBounds hs 0 1 2 c_row c_sb a_row a_sb b_row b_sb hc ha hb hsa hfitc hfitb
theorem accCombineEven_aligned (hs : Nat → Hdr) (c_row c_sb a_row a_sb b_row b_sb : Nat) :
    Aligned hs (accCombineEven (hs 0) (hs 1) (hs 2) c_row c_sb a_row a_sb b_row b_sb) :=
  accCombineEvenOps_aligned hs 0 1 2 c_row c_sb a_row a_sb b_row b_sb

/-- `a_startblock < A->width` is needed: with `a_startblock = A->width` the final `*a ^= *b & mask` hits the
    word `width` (one past the row; the padding word or the next row's first word) -/
theorem accCombineEvenInPlace_startblock_witness :
    ¬ InBounds (fun _ => ⟨1, 64, 2, 0⟩) (accCombineEvenInPlace ⟨1, 64, 2, 0⟩ ⟨1, 64, 2, 0⟩ 0 1 0 1) := by decide

-- non-vacuity: A = 2 x 640 (phase 1), B = 2 x 704 (phase 0), from block 1 of A and block 2 of B
example : (1 : Nat) < (⟨2, 640, 10, 1⟩ : Hdr).nrows ∧ 1 < (⟨2, 640, 10, 1⟩ : Hdr).width ∧
    2 + (⟨2, 640, 10, 1⟩ : Hdr).width ≤ (⟨2, 704, 12, 0⟩ : Hdr).width + 1 := by decide
example : vrd 0 1 1 ∈ accCombineEvenInPlace ⟨2, 640, 10, 1⟩ ⟨2, 704, 12, 0⟩ 1 1 0 2 := by decide

/-! ## `_mzd_combine(c, t1, wide)` and `_mzd_combine_N(m, t, wide)`
    `c = mzd_row(C, c.row) + c.blk` etc.  Preconditions: the `wide` words from each pointer lie in the row
    (`0 ≤ blk`, `blk + wide ≤ width`); for alignment: all pointers have the same address mod 16
    (the `\warn`/`assert` of the C code) — i.e. `(blk + phase) % 2` agree; for `_mzd_combine_N`: `1 ≤ wide`. -/

theorem accCombine_inBounds (hs : Nat → Hdr) (c t : Ptr) (wide : Nat)
    (hcr : c.row < (hs 0).nrows) (htr : t.row < (hs 1).nrows)
    (hc0 : 0 ≤ c.blk) (hc1 : c.blk + wide ≤ (hs 0).width)
    (ht0 : 0 ≤ t.blk) (ht1 : t.blk + wide ≤ (hs 1).width) :
    InBounds hs (accCombine (hs 0).phase c t wide) := by
  unfold accCombine
  extract_lets w0 na d w1 eof np more q vstep sstep w2
  have hd := duff_pos w2
  generalize duff w2 = D at *
  trace_simp [vstep, sstep]
  fin_omega

theorem accCombine_aligned (hs : Nat → Hdr) (c t : Ptr) (wide : Nat)
    (hal : (c.blk + (hs 0).phase) % 2 = (t.blk + (hs 1).phase) % 2) :
    Aligned hs (accCombine (hs 0).phase c t wide) := by
  unfold accCombine
  extract_lets w0 na d w1 eof np more q vstep sstep w2
  trace_simp [vstep, sstep]
  fin_omega

/-- the "aligned the same way" assumption is necessary: `c` 16-aligned, `t1` only 8-aligned gives a misaligned
    `__m128i` load from `t1` (this is what happens when a fresh table row is combined into a row of a
    window that starts at an odd word) -/
theorem accCombine_phase_witness :
    ¬ Aligned (fun o => if o = 0 then ⟨1, 128, 2, 0⟩ else ⟨1, 192, 4, 1⟩)
        (accCombine 0 ⟨0, 0⟩ ⟨0, 0⟩ 2) := by decide

theorem accCombineN_inBounds (hs : Nat → Hdr) (N : Nat) (m : Ptr) (t : Nat → Ptr) (wide : Nat)
    (hw : 1 ≤ wide)
    (hmr : m.row < (hs 0).nrows) (hm0 : 0 ≤ m.blk) (hm1 : m.blk + wide ≤ (hs 0).width)
    (ht : ∀ j, j < N → (t j).row < (hs (j + 1)).nrows ∧ 0 ≤ (t j).blk ∧ (t j).blk + wide ≤ (hs (j + 1)).width) :
    InBounds hs (accCombineN (hs 0).phase N m t wide) := by
  unfold accCombineN
  extract_lets w0 d w1 half n4 i4 nvec rdsS rdsV sstep vstep quad
  trace_simp [rdsS, rdsV, sstep, vstep, quad]
  fin_with ht

theorem accCombineN_aligned (hs : Nat → Hdr) (N : Nat) (m : Ptr) (t : Nat → Ptr) (wide : Nat)
    (hal : ∀ j, j < N → ((t j).blk + (hs (j + 1)).phase) % 2 = (m.blk + (hs 0).phase) % 2) :
    Aligned hs (accCombineN (hs 0).phase N m t wide) := by
  unfold accCombineN
  extract_lets w0 d w1 half n4 i4 nvec rdsS rdsV sstep vstep quad
  trace_simp [rdsS, rdsV, sstep, vstep, quad]
  fin_with hal

/-- `1 ≤ wide` is necessary for `_mzd_combine_N` (unlike `_mzd_combine`, whose peel is guarded by `&& wide`):
    with `wide = 0` and `m` 8-aligned the code XORs TWO words (`wide` becomes `-1`, `-1 & 1 = 1`) -/
theorem accCombineN_wide0_witness :
    accCombineN 1 2 ⟨0, 0⟩ (fun _ => ⟨0, 0⟩) 0 =
      [rd 1 0 0, rd 2 0 0, rd 0 0 0, wr 0 0 0, rd 1 0 1, rd 2 0 1, rd 0 0 1, wr 0 0 1] := by decide
/-- same phase is necessary (cf. `accCombine_phase_witness`) -/
theorem accCombineN_phase_witness :
    ¬ Aligned (fun o => if o = 0 then ⟨1, 256, 4, 1⟩ else ⟨4, 256, 4, 0⟩)
        (accCombineN 1 2 ⟨0, 0⟩ (fun j => ⟨j, 0⟩) 4) := by decide

-- non-vacuity: m = row 0 of a 1 x 256 window with phase 1, two table rows with phase 1, 4 words
example : accCombineN 1 2 ⟨0, 0⟩ (fun j => ⟨j, 0⟩) 4 =
    [rd 1 0 0, rd 2 1 0, rd 0 0 0, wr 0 0 0,
     vrd 1 0 1, vrd 2 1 1, vrd 0 0 1, vwr 0 0 1,
     rd 1 0 3, rd 2 1 3, rd 0 0 3, wr 0 0 3] := by decide

/-! ## `_mzd_row_swap`, `mzd_col_swap_in_rows` -/

/-- preconditions: `rowa, rowb < nrows` (any `startblock`: the code returns when `startblock ≥ width`) -/
theorem accRowSwap_inBounds (h : Hdr) (rowa rowb sb : Nat) (ha : rowa < h.nrows) (hb : rowb < h.nrows) :
    InBounds (fun _ => h) (accRowSwap h rowa rowb sb) := by
  unfold accRowSwap
  extract_lets sb' width
  trace_simp []
  fin_omega

/-- preconditions: `cola, colb < ncols`, `stop_row ≤ nrows` (`start_row > stop_row` is tolerated: `count ≤ 0`) -/
theorem accColSwapInRows_inBounds (h : Hdr) (cola colb start_row stop_row : Nat)
    (ha : cola < h.ncols) (hb : colb < h.ncols) (hstop : stop_row ≤ h.nrows) :
    InBounds (fun _ => h) (accColSwapInRows cola colb start_row stop_row) := by
  have hw := width_eq h
  unfold accColSwapInRows
  extract_lets a_word b_word a_bit b_bit max_bit min_bit count fast rest min_word max_offset
  trace_simp []
  fin_omega
theorem shColSwapInRows_ok (cola colb : Nat) : ShiftsOK (shColSwapInRows cola colb) := by
  unfold shColSwapInRows
  extract_lets a_bit b_bit max_bit min_bit offset
  trace_simp []
  fin_omega

/-! ## `mzd_row_clear_offset`: `row < nrows`, `coloffset < ncols` -/
theorem accRowClearOffset_inBounds (h : Hdr) (row c : Nat) (hr : row < h.nrows) (hc : c < h.ncols) :
    InBounds (fun _ => h) (accRowClearOffset h row c) := by
  have hw := width_eq h
  unfold accRowClearOffset
  extract_lets sb
  trace_simp []
  fin_omega
theorem shRowClearOffset_ok (c : Nat) : ShiftsOK (shRowClearOffset c) := by
  trace_simp [shRowClearOffset]
  fin_omega

/-! ## `mzd_copy(N, P)`: the code itself checks `N->nrows ≥ P->nrows`, `N->ncols ≥ P->ncols` (else `m4ri_die`).
    Operand 0 = `N`, 1 = `P`. -/

/-- the statement one would like: in bounds under the checked preconditions only -/
def accCopy_full : Prop :=
  ∀ hs : Nat → Hdr, (hs 1).nrows ≤ (hs 0).nrows → (hs 1).ncols ≤ (hs 0).ncols → InBounds hs (accCopy (hs 1))

/-- CANDIDATE DEFECT: for a source with `ncols = 0` and `nrows > 0`, `wide = width - 1 = -1` and every row does
    `n_truerow[-1] = (n_truerow[-1] & ~mask_end) | (p_truerow[-1] & mask_end)` (with `mask_end = ffff…`):
    a read and a write one word BEFORE the row (for a matrix from `mzd_init(r, 0)` the data pointer is NULL). -/
theorem accCopy_zero_cols_witness :
    accCopy ⟨1, 0, 0, 0⟩ = [rd 0 0 (-1), rd 1 0 (-1), wr 0 0 (-1)] := by decide
theorem accCopy_full_false : ¬ accCopy_full := by
  intro h
  have := h (fun _ => ⟨1, 0, 0, 0⟩) (Nat.le_refl _) (Nat.le_refl _)
  revert this; decide

theorem accCopy_inBounds_partial (hs : Nat → Hdr) (hr : (hs 1).nrows ≤ (hs 0).nrows)
    (hc : (hs 1).ncols ≤ (hs 0).ncols) (hpos : 0 < (hs 1).ncols) : InBounds hs (accCopy (hs 1)) := by
  have hw0 := width_eq (hs 0)
  have hw1 := width_eq (hs 1)
  unfold accCopy
  extract_lets wide
  trace_simp []
  fin_omega

/-! ## `mzd_copy_row(B, i, A, j)`: `assert(B->ncols >= A->ncols)`, rows in range.  Operand 0 = `B`, 1 = `A`. -/

def accCopyRow_full : Prop :=
  ∀ (hs : Nat → Hdr) (i j : Nat), i < (hs 0).nrows → j < (hs 1).nrows → (hs 1).ncols ≤ (hs 0).ncols →
    InBounds hs (accCopyRow (hs 0) (hs 1) i j)

/-- CANDIDATE DEFECT (same pattern): `A->ncols = 0` gives `width = MIN(B->width, 0) - 1 = -1 ≠ 0`, hence
    `b[-1] = (b[-1] & ~mask_end) | (a[-1] & mask_end)` -/
theorem accCopyRow_zero_cols_witness :
    accCopyRow ⟨1, 64, 2, 0⟩ ⟨1, 0, 0, 0⟩ 0 0 = [rd 0 0 (-1), rd 1 0 (-1), wr 0 0 (-1)] := by decide
theorem accCopyRow_full_false : ¬ accCopyRow_full := by
  intro h
  have := h (fun o => if o = 0 then ⟨1, 64, 2, 0⟩ else ⟨1, 0, 0, 0⟩) 0 0 (by decide) (by decide) (by decide)
  revert this; decide

theorem accCopyRow_inBounds_partial (hs : Nat → Hdr) (i j : Nat) (hi : i < (hs 0).nrows) (hj : j < (hs 1).nrows)
    (hc : (hs 1).ncols ≤ (hs 0).ncols) (hpos : 0 < (hs 1).ncols) :
    InBounds hs (accCopyRow (hs 0) (hs 1) i j) := by
  have hw0 := width_eq (hs 0)
  have hw1 := width_eq (hs 1)
  unfold accCopyRow
  extract_lets width
  trace_simp []
  fin_omega
theorem shCopyRow_ok (hA : Hdr) : ShiftsOK (shCopyRow hA) := by
  trace_simp [shCopyRow]
  fin_omega

/-- `mzd_read_bits` on an arbitrary operand, in the form used inside other traces -/
theorem accReadBitsOp_all (hs : Nat → Hdr) (op x y n : Nat) (hx : x < (hs op).nrows) (hn1 : 1 ≤ n) (hn : n ≤ 64)
    (hy : y + n ≤ (hs op).ncols) : All (fun a => a.inBounds (hs a.op)) (accReadBitsOp op x y n) := by
  have hw := width_eq (hs op)
  trace_simp [accReadBitsOp]
  fin_omega
theorem accReadBitsOp_aligned (hs : Nat → Hdr) (op x y n : Nat) :
    All (fun a => a.aligned (hs a.op)) (accReadBitsOp op x y n) := by
  trace_simp [accReadBitsOp]
  fin_omega
theorem shReadBits_all (y n : Nat) (hn1 : 1 ≤ n) (hn : n ≤ 64) :
    All (fun s => 0 ≤ s ∧ s ≤ 63) (shReadBits y n) := shReadBits_ok y n hn1 hn

/-! ## `_mzd_add(C, A, B)` — as called by `mzd_add`: the three matrices have the same dimensions.
    Operand 0 = `C`, 1 = `A`, 2 = `B`. -/
theorem accAdd_inBounds (hs : Nat → Hdr) (cIsB : Bool)
    (hr1 : (hs 1).nrows = (hs 0).nrows) (hr2 : (hs 2).nrows = (hs 0).nrows)
    (hc1 : (hs 1).ncols = (hs 0).ncols) (hc2 : (hs 2).ncols = (hs 0).ncols) :
    InBounds hs (accAdd hs cIsB) := by
  have hw0 := width_eq (hs 0)
  have hw1 := width_eq (hs 1)
  have hw2 := width_eq (hs 2)
  have e1 : (hs 1).width = (hs 0).width := by simp [Hdr.width, hc1]
  have e2 : (hs 2).width = (hs 0).width := by simp [Hdr.width, hc2]
  have key := fun oc oa ob c_row c_sb a_row a_sb b_row b_sb h1 h2 h3 h4 h5 h6 =>
    (inBounds_def _ _).mp (accCombineEvenOps_inBounds hs oc oa ob c_row c_sb a_row a_sb b_row b_sb h1 h2 h3 h4 h5 h6)
  unfold accAdd
  cases cIsB <;> simp only [Bool.false_eq_true, if_false, if_true] <;> trace_simp [] <;> fin_tail key

theorem accAdd_aligned (hs : Nat → Hdr) (cIsB : Bool) : Aligned hs (accAdd hs cIsB) := by
  have key := fun oc oa ob c_row c_sb a_row a_sb b_row b_sb =>
    (aligned_def _ _).mp (accCombineEvenOps_aligned hs oc oa ob c_row c_sb a_row a_sb b_row b_sb)
  unfold accAdd
  cases cIsB <;> simp only [Bool.false_eq_true, if_false, if_true] <;> trace_simp [] <;> fin_tail key

/-! ## `mzd_submatrix(S, M, startrow, startcol, endrow, endcol)`
    Preconditions: `startrow ≤ endrow ≤ M->nrows`, `startcol ≤ endcol ≤ M->ncols`; `S` is either allocated by the
    function (`nrows × ncols`) or checked to be at least that large.  Operand 0 = `S`, 1 = `M`. -/

def accSubmatrix_full : Prop :=
  ∀ (hs : Nat → Hdr) (startrow startcol endrow endcol : Nat),
    startrow ≤ endrow → endrow ≤ (hs 1).nrows → startcol ≤ endcol → endcol ≤ (hs 1).ncols →
    endrow - startrow ≤ (hs 0).nrows → endcol - startcol ≤ (hs 0).ncols →
    InBounds hs (accSubmatrix startrow startcol endrow endcol)

/-- CANDIDATE DEFECT: an EMPTY column range at an unaligned `startcol` (`startcol % 64 ≠ 0`, `endcol = startcol`,
    at least one row): the unaligned branch unconditionally does `srow[0] &= …; srow[0] |= mzd_read_bits(…, 0)`
    on a destination of width 0 (NULL data when freshly allocated), and `mzd_read_bits(…, n = 0)` shifts by 64. -/
theorem accSubmatrix_empty_witness :
    accSubmatrix 0 1 2 1 =
      [rd 0 0 0, wr 0 0 0, rd 1 0 0, rd 0 0 0, wr 0 0 0, rd 0 1 0, wr 0 1 0, rd 1 1 0, rd 0 1 0, wr 0 1 0] := by
  decide
theorem accSubmatrix_full_false : ¬ accSubmatrix_full := by
  intro h
  have := h (fun o => if o = 0 then ⟨2, 0, 0, 0⟩ else ⟨4, 100, 2, 0⟩) 0 1 2 1
    (by decide) (by decide) (by decide) (by decide) (by decide) (by decide)
  revert this; decide
theorem shSubmatrix_empty_witness : ¬ ShiftsOK (shSubmatrix 1 1) := by decide

theorem accSubmatrix_inBounds_partial (hs : Nat → Hdr) (startrow startcol endrow endcol : Nat)
    (hr : startrow ≤ endrow) (hr' : endrow ≤ (hs 1).nrows) (hc : startcol ≤ endcol) (hc' : endcol ≤ (hs 1).ncols)
    (hsr : endrow - startrow ≤ (hs 0).nrows) (hsc : endcol - startcol ≤ (hs 0).ncols)
    (hne : startcol % 64 = 0 ∨ startcol < endcol ∨ startrow = endrow) :
    InBounds hs (accSubmatrix startrow startcol endrow endcol) := by
  have hw0 := width_eq (hs 0)
  have hw1 := width_eq (hs 1)
  unfold accSubmatrix
  extract_lets nrows ncols startword
  trace_simp []
  fin_tail (accReadBitsOp_all hs)

theorem shSubmatrix_ok_partial (startcol endcol : Nat) (hc : startcol ≤ endcol)
    (hne : startcol % 64 = 0 ∨ startcol < endcol) : ShiftsOK (shSubmatrix startcol endcol) := by
  unfold shSubmatrix
  extract_lets ncols nfull
  trace_simp []
  fin_tail shReadBits_all

/-! ## `mzd_find_pivot(A, start_row, start_col, &r, &c)`: NO precondition on `start_row`, `start_col`
    (out-of-range values give empty loops).  Maximal trace. -/
theorem accReadBits_all (h : Hdr) (x y n : Nat) (hx : x < h.nrows) (hn1 : 1 ≤ n) (hn : n ≤ 64)
    (hy : y + n ≤ h.ncols) : All (fun a => a.inBounds ((fun _ => h) a.op)) (accReadBits x y n) :=
  accReadBits_inBounds h x y n hx hn1 hn hy

theorem accFindPivot_inBounds (h : Hdr) (start_row start_col : Nat) :
    InBounds (fun _ => h) (accFindPivot h start_row start_col) := by
  have hw := width_eq h
  unfold accFindPivot
  extract_lets nrows ncols sc word_offset
  trace_simp []
  fin_tail (accReadBits_all h)

theorem shFindPivot_ok (h : Hdr) (start_col : Nat) : ShiftsOK (shFindPivot h start_col) := by
  unfold shFindPivot
  extract_lets ncols sc length bit_offset end_offset
  trace_simp []
  fin_tail shReadBits_all

/-! ## `mzd_make_table(M, r, c, k, T, L)`.  Operand 0 = `M`, 1 = `T`.
    Preconditions: `c < M->ncols`, `T` has (at least) `2^k` rows and at least the width of `M`
    (the callers allocate `T` as `2^k × M->ncols`).  No condition on `r` or on the code book: rows
    `r + inc[i-1] ≥ M->nrows` are skipped by the code. -/
theorem accMakeTable_inBounds (hs : Nat → Hdr) (r c k : Nat) (inc : Nat → Nat)
    (hc : c < (hs 0).ncols) (hT : 2 ^ k ≤ (hs 1).nrows) (hTw : (hs 0).width ≤ (hs 1).width) :
    InBounds hs (accMakeTable (hs 0) r c k inc) := by
  have hw0 := width_eq (hs 0)
  unfold accMakeTable
  extract_lets hb wide
  generalize 2 ^ k = K at *
  trace_simp []
  fin_omega
theorem shMakeTable_ok (hM : Hdr) (c k : Nat) (hk : k ≤ 63) : ShiftsOK (shMakeTable hM c k) := by
  trace_simp [shMakeTable]
  fin_omega

/-- the unrolled loops of `mzd_make_table` touch each of the words `homeblock .. width-1` exactly once per
    table row: the number of recorded accesses for one table row is `3 * (width - homeblock)` -/
example : (accMakeTable ⟨4, 1000, 16, 0⟩ 0 70 1 (fun _ => 0)).length = 3 * (16 - 1) := by decide

/-! ## `mzd_process_rows(M, startrow, stoprow, startcol, k, T, L)`.  Operand 0 = `M`, 1 = `T`.
    Preconditions: `stoprow ≤ M->nrows`, `1 ≤ k ≤ 64`, `startcol + k ≤ M->ncols`, every table index delivered by
    `L` is a row of `T` (`x r < T->nrows`; for `k = 1` the code uses row 1 directly), `T` at least as wide as `M`. -/
theorem accProcessRows_inBounds (hs : Nat → Hdr) (startrow stoprow startcol k : Nat) (x : Nat → Nat) (b : Nat → Bool)
    (hstop : stoprow ≤ (hs 0).nrows) (hk1 : 1 ≤ k) (hk : k ≤ 64) (hcol : startcol + k ≤ (hs 0).ncols)
    (hx : ∀ r, x r < (hs 1).nrows) (hT1 : 2 ≤ (hs 1).nrows) (hTw : (hs 0).width ≤ (hs 1).width) :
    InBounds hs (accProcessRows (hs 0) startrow stoprow startcol k x b) := by
  have hw0 := width_eq (hs 0)
  unfold accProcessRows
  extract_lets block wide n count npairs single last
  have hd := duff_pos wide
  trace_simp [single, last, accReadBits]
  clear_lets
  (repeat' (first | (refine And.intro ?_ ?_) | (apply accReadBitsOp_all hs) | (intro _))) <;>
    (first | trivial | omega | exact hx _)

theorem shProcessRows_ok (startcol k : Nat) (hk1 : 1 ≤ k) (hk : k ≤ 64) : ShiftsOK (shProcessRows startcol k) := by
  unfold shProcessRows
  trace_simp []
  fin_tail shReadBits_all

/-- `startcol < ncols` (at least one word of work) is necessary: the Duff's device of `mzd_process_rows` is NOT
    guarded, so `wide = 0` would run 8 steps -/
example : duff 0 = 8 := duff_zero

/-! ## the scalar kernels perform no `__m128i` access at all (so `Aligned` holds vacuously, for every phase) -/

theorem accReadBit_aligned (hs : Nat → Hdr) (row col : Nat) : Aligned hs (accReadBit row col) := by
  trace_simp [accReadBit]; fin_omega
theorem accWriteBit_aligned (hs : Nat → Hdr) (row col : Nat) : Aligned hs (accWriteBit row col) := by
  trace_simp [accWriteBit]; fin_omega
theorem accXorBits_aligned (hs : Nat → Hdr) (x y n : Nat) : Aligned hs (accXorBits x y n) := by
  trace_simp [accXorBits]; fin_omega
theorem accReadBits_aligned (hs : Nat → Hdr) (x y n : Nat) : Aligned hs (accReadBits x y n) := by
  trace_simp [accReadBits, accReadBitsOp]; fin_omega
theorem accRowSwap_aligned (hs : Nat → Hdr) (h : Hdr) (rowa rowb sb : Nat) : Aligned hs (accRowSwap h rowa rowb sb) := by
  unfold accRowSwap; trace_simp []; fin_omega
theorem accColSwapInRows_aligned (hs : Nat → Hdr) (cola colb start_row stop_row : Nat) :
    Aligned hs (accColSwapInRows cola colb start_row stop_row) := by
  unfold accColSwapInRows; trace_simp []; fin_omega
theorem accRowClearOffset_aligned (hs : Nat → Hdr) (h : Hdr) (row c : Nat) : Aligned hs (accRowClearOffset h row c) := by
  unfold accRowClearOffset; trace_simp []; fin_omega
theorem accCopy_aligned (hs : Nat → Hdr) (hP : Hdr) : Aligned hs (accCopy hP) := by
  unfold accCopy; trace_simp []; fin_omega
theorem accCopyRow_aligned (hs : Nat → Hdr) (hB hA : Hdr) (i j : Nat) : Aligned hs (accCopyRow hB hA i j) := by
  unfold accCopyRow; trace_simp []; fin_omega
theorem accSubmatrix_aligned (hs : Nat → Hdr) (startrow startcol endrow endcol : Nat) :
    Aligned hs (accSubmatrix startrow startcol endrow endcol) := by
  unfold accSubmatrix; trace_simp []; fin_tail (accReadBitsOp_aligned hs)
theorem accFindPivot_aligned (hs : Nat → Hdr) (h : Hdr) (start_row start_col : Nat) :
    Aligned hs (accFindPivot h start_row start_col) := by
  unfold accFindPivot; trace_simp [accReadBits]; fin_tail (accReadBitsOp_aligned hs)
theorem accMakeTable_aligned (hs : Nat → Hdr) (hM : Hdr) (r c k : Nat) (inc : Nat → Nat) :
    Aligned hs (accMakeTable hM r c k inc) := by
  unfold accMakeTable; trace_simp []; fin_omega
theorem accProcessRows_aligned (hs : Nat → Hdr) (hM : Hdr) (startrow stoprow startcol k : Nat) (x : Nat → Nat)
    (b : Nat → Bool) : Aligned hs (accProcessRows hM startrow stoprow startcol k x b) := by
  unfold accProcessRows; trace_simp [accReadBits]; fin_tail (accReadBitsOp_aligned hs)

/-! ## why one `phase` per matrix suffices: `rowstride` is even (mzd.c:153), so the 16-byte alignment of word `w`
    of row `r` (`data + r*rowstride + w`, in words) does not depend on `r` -/
theorem phase_row_indep (base rowstride r w : Int) (h : rowstride % 2 = 0) :
    (base + r * rowstride + w) % 2 = (base + w) % 2 := by
  obtain ⟨q, rfl⟩ : ∃ q, rowstride = 2 * q := ⟨rowstride / 2, by omega⟩
  rw [Int.mul_left_comm]
  generalize r * q = z
  omega

/-! ## non-vacuity: every positive theorem instantiated on a concrete geometry -/
section NonVacuity
/-- a window starting at an odd word (`phase = 1`) of a parent with `rowstride = 12` -/
private def hW : Hdr := ⟨4, 640, 12, 1⟩
/-- a fresh matrix (`phase = 0`) one word wider -/
private def hF : Hdr := ⟨4, 704, 12, 0⟩
private def hT : Hdr := ⟨8, 640, 10, 0⟩
private def hs2 (a b : Hdr) : Nat → Hdr := fun o => if o = 0 then a else b
private def hs3 (a b c : Hdr) : Nat → Hdr := fun o => if o = 0 then a else if o = 1 then b else c

example : InBounds (fun _ => hW) (accXorBits 3 600 40) := accXorBits_inBounds _ _ _ _ (by decide) (by decide) (by decide) (by decide)
example : InBounds (fun _ => hW) (accReadBits 3 630 10) := accReadBits_inBounds _ _ _ _ (by decide) (by decide) (by decide) (by decide)
example : InBounds (fun _ => hW) (accRowAddOffset hW 0 3 70) := accRowAddOffset_inBounds _ _ _ _ (by decide) (by decide) (by decide)
example : InBounds (hs2 hW hF) (accCombineEvenInPlace hW hF 1 2 3 3) :=
  accCombineEvenInPlace_inBounds (hs2 hW hF) 1 2 3 3 (by decide) (by decide) (by decide) (by decide)
example : InBounds (hs3 hF hW hF) (accCombineEven hF hW hF 0 1 1 0 2 1) :=
  accCombineEven_inBounds (hs3 hF hW hF) 0 1 1 0 2 1 (by decide) (by decide) (by decide) (by decide) (by decide) (by decide)
example : InBounds (hs2 hW hF) (accCombine 1 ⟨0, 3⟩ ⟨2, 4⟩ 7) :=
  accCombine_inBounds (hs2 hW hF) ⟨0, 3⟩ ⟨2, 4⟩ 7 (by decide) (by decide) (by decide) (by decide) (by decide) (by decide)
example : Aligned (hs2 hW hF) (accCombine 1 ⟨0, 3⟩ ⟨2, 4⟩ 7) := accCombine_aligned (hs2 hW hF) ⟨0, 3⟩ ⟨2, 4⟩ 7 (by decide)
example : InBounds (hs2 hW hF) (accCombineN 1 3 ⟨0, 1⟩ (fun j => ⟨j, 2⟩) 9) :=
  accCombineN_inBounds (hs2 hW hF) 3 ⟨0, 1⟩ (fun j => ⟨j, 2⟩) 9 (by decide) (by decide) (by decide) (by decide)
    (by intro j hj; have : j = 0 ∨ j = 1 ∨ j = 2 := by omega
        rcases this with rfl | rfl | rfl <;> decide)
example : Aligned (hs2 hW hF) (accCombineN 1 3 ⟨0, 1⟩ (fun j => ⟨j, 2⟩) 9) :=
  accCombineN_aligned (hs2 hW hF) 3 ⟨0, 1⟩ (fun j => ⟨j, 2⟩) 9
    (by intro j hj; have : j = 0 ∨ j = 1 ∨ j = 2 := by omega
        rcases this with rfl | rfl | rfl <;> decide)
example : InBounds (hs2 hF hW) (accCopy hW) := accCopy_inBounds_partial (hs2 hF hW) (by decide) (by decide) (by decide)
example : InBounds (hs2 hF hW) (accCopyRow hF hW 0 3) :=
  accCopyRow_inBounds_partial (hs2 hF hW) 0 3 (by decide) (by decide) (by decide) (by decide)
example : InBounds (hs3 hW hW hW) (accAdd (hs3 hW hW hW) false) := accAdd_inBounds _ _ rfl rfl rfl rfl
example : InBounds (hs2 hW hF) (accSubmatrix 1 70 3 700) :=
  accSubmatrix_inBounds_partial (hs2 hW hF) 1 70 3 700 (by decide) (by decide) (by decide) (by decide) (by decide)
    (by decide) (by decide)
example : InBounds (hs2 hW hT) (accMakeTable hW 1 70 3 (fun i => i % 3)) :=
  accMakeTable_inBounds (hs2 hW hT) 1 70 3 _ (by decide) (by decide) (by decide)
example : InBounds (hs2 hW hT) (accProcessRows hW 0 4 70 3 (fun r => r % 8) (fun _ => true)) :=
  accProcessRows_inBounds (hs2 hW hT) 0 4 70 3 _ _ (by decide) (by decide) (by decide) (by decide)
    (by intro r; show r % 8 < 8; omega) (by decide) (by decide)
end NonVacuity

end M4ri.Safety
